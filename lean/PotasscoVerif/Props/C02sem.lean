/-
  C02 — the converted program has the same answer sets.
  Property theorems over the converter model (Model/Convert.lean, tied to src/convert.cpp by the `cv` correspondence)
  and the reference semantics Spec/Asp.lean.  Helper lemmas: Lemmas/AspBasic, AspTrans, ConvertSem.
-/
import PotasscoVerif.Lemmas.ConvertStep
namespace PotasscoVerif.C02
open PotasscoVerif PotasscoVerif.Convert PotasscoVerif.Asp

/-- an output interpretation seen through the converter's own atom map -/
def restrict (c : CS) (X' : I) : I := fun a => match img c a with | some n => X' n | none => false

theorem restrict_eq (c : CS) (hi : Inv (abs c)) (defs : List (Nat × Body)) (X' : I) : restrict c X' = (ctxOf c defs).R X' := by
  funext a
  unfold restrict Ctx.R ctxOf
  simp only
  cases h : img c a with
  | some n =>
    have hm := img_mem c a n h
    have hd : a ∈ domOf c := by simp only [domOf, List.mem_map]; exact ⟨_, hm, rfl⟩
    simp [hd, finalMap, h]
  | none =>
    have hd : ¬ a ∈ domOf c := by
      intro hd
      have := dom_pair c hi a hd
      rw [mem_img c hi.keys _ _ this] at h
      cases h
    simp [hd]

/-- rules the converter drops (a choice over no atoms) are satisfied by every pair of interpretations -/
theorem stable_filter_kept (P : List Rule) (X : I) : Stable (P.filter kept) X ↔ Stable P X := by
  have hm : ∀ X Y, ModelR (P.filter kept) X Y ↔ ModelR P X Y := by
    intro X Y
    constructor
    · intro h r hr
      cases hk : kept r
      · unfold kept at hk
        simp only [Bool.not_eq_false', Bool.and_eq_true, List.isEmpty_iff] at hk
        unfold satR headR
        simp [hk.1, hk.2]
      · exact h r (List.mem_filter.mpr ⟨hr, hk⟩)
    · intro h r hr; exact h r (List.mem_filter.mp hr).1
  unfold Stable
  rw [hm]
  constructor
  · rintro ⟨h1, h2⟩; exact ⟨h1, fun Y hs hy => h2 Y hs ((hm X Y).mpr hy)⟩
  · rintro ⟨h1, h2⟩; exact ⟨h1, fun Y hs hy => h2 Y hs ((hm X Y).mp hy)⟩

theorem stable_filter_kept_app (P Q : List Rule) (X : I) : Stable (P.filter kept ++ Q) X ↔ Stable (P ++ Q) X := by
  have hm : ∀ X Y, ModelR (P.filter kept ++ Q) X Y ↔ ModelR (P ++ Q) X Y := by
    intro X Y
    rw [modelR_append, modelR_append]
    constructor
    · rintro ⟨h1, h2⟩
      refine ⟨?_, h2⟩
      intro r hr
      cases hk : kept r
      · unfold kept at hk
        simp only [Bool.not_eq_false', Bool.and_eq_true, List.isEmpty_iff] at hk
        unfold satR headR
        simp [hk.1, hk.2]
      · exact h1 r (List.mem_filter.mpr ⟨hr, hk⟩)
    · rintro ⟨h1, h2⟩; exact ⟨fun r hr => h1 r (List.mem_filter.mp hr).1, h2⟩
  unfold Stable
  rw [hm]
  constructor
  · rintro ⟨h1, h2⟩; exact ⟨h1, fun Y hs hy => h2 Y hs ((hm X Y).mpr hy)⟩
  · rintro ⟨h1, h2⟩; exact ⟨h1, fun Y hs hy => h2 Y hs ((hm X Y).mp hy)⟩

/-- **C02 (answer sets are preserved, one to one, under the converter's own atom map)**.
    For every program step made of rules with disjunctive or choice heads (also empty ones), normal and weight bodies,
    minimize statements, output directives with arbitrary conditions and external directives (`progOf`: an external on an
    atom no rule defines is a fact / a choice / nothing, the last directive counts; compiled away, i.e. converted without
    the clasp extension — with the extension the step must not contain externals) — literals non-zero, body weights non-negative,
    no weight `INT_MIN` — converted with or without the clasp extensions:
    there is an extension `E` of interpretations to the auxiliary atoms such that
    * every stable model `X` of the given rules yields the stable model `E X` of the emitted rules, in which the false
      atom `1` is false (the emitted compute statement), and whose restriction to the mapped atoms is `X` again;
    * every stable model `X'` of the emitted rules with atom `1` false restricts to a stable model of the given rules
      and is the extension of that restriction.
    So `restrict` and `E` are mutually inverse bijections between the two sets of answer sets. -/
theorem C02_stable_models (ext inc : Bool) (ds : List Call) (hx : ∀ d ∈ ds, PlainOk d) (hE : ext = false ∨ extCalls ds = []) :
    ∃ E : I → I,
      (∀ X, Stable (progOf ds) X →
        Stable (rulesOf (convert ext (stepCalls inc ds)).out) (E X) ∧ E X 1 = false ∧ restrict (convert ext (stepCalls inc ds)) (E X) = X) ∧
      (∀ X', Stable (rulesOf (convert ext (stepCalls inc ds)).out) X' → X' 1 = false →
        Stable (progOf ds) (restrict (convert ext (stepCalls inc ds)) X') ∧ E (restrict (convert ext (stepCalls inc ds)) X') = X') := by
  obtain ⟨defs, hj, hj0, hk, hM, hshape, hst⟩ := step_all ext inc ds hx hE
  have ok := ctx_ok hj
  have tr := ctx_trans hj
  refine ⟨fun X => (ctxOf (convert ext (stepCalls inc ds)) defs).E X X, ?_, ?_⟩
  · intro X hs
    have hs' := (stable_filter_kept_app _ _ X).mpr hs
    obtain ⟨h1, h2, h3⟩ := translation_stable ok tr hs'
    refine ⟨h1, h2, ?_⟩
    rw [restrict_eq _ hj.inv defs]; exact h3
  · intro X' hs h1
    obtain ⟨h2, h3⟩ := translation_stable_back ok tr X' hs h1
    rw [restrict_eq _ hj.inv defs]
    exact ⟨(stable_filter_kept_app _ _ _).mp h2, h3.symm⟩

/-- the names the GIVEN program asks to show under an interpretation: those of the output directives whose condition holds, and the helper
    names `_edge(s,t)` of the acyclicity edges whose condition holds (the converter represents an edge by showing that name) -/
def shown (cs : List Call) (X : I) (name : List Nat) : Prop := ∃ cond, (name, cond) ∈ srcOuts cs ∧ bodyR X X (.normal cond) = true
/-- the names the EMITTED program shows: those of its output directives whose condition holds -/
def shownOut (cs : List Call) (X : I) (name : List Nat) : Prop := ∃ cond, (name, cond) ∈ outsOf cs ∧ bodyR X X (.normal cond) = true

theorem rep_val {c : CS} {P defs} (hj : J c P defs) (X : I) (n : Nat) (cond : List Int) (h : Rep c defs n cond) :
    bodyR ((ctxOf c defs).E X X) ((ctxOf c defs).E X X) (.normal [(n : Int)]) = bodyR X X (.normal cond) := by
  have ok := ctx_ok hj
  rcases h with ⟨a, rfl, ha, hm⟩ | h
  · have hn : n = finalMap c a := (agree_final c hj.inv _ hm).symm
    have hd : a ∈ domOf c := by simp only [domOf, List.mem_map]; exact ⟨_, hm, rfl⟩
    have h2 := ok.img2 a hd
    simp only [ctxOf] at h2
    have e := E_img ok X X a hd
    simp only [ctxOf] at e
    have hpos : (0 : Int) < (n : Int) := by omega
    have hpos' : (0 : Int) < (a : Int) := by omega
    simp only [bodyR, List.all_cons, List.all_nil, Bool.and_true, litR, hpos, hpos', ↓reduceIte, Int.natAbs_natCast]
    rw [hn]; exact e
  · have h2 := ok.aux2 _ h
    simp only [ctxOf] at h2
    have e := E_aux ok X X _ h
    simp only [ctxOf] at e
    have hpos : (0 : Int) < (n : Int) := by omega
    simp only [bodyR, List.all_cons, List.all_nil, Bool.and_true, litR, hpos, ↓reduceIte, Int.natAbs_natCast]
    exact e

/-- **C02 (answer sets, shown symbols)**: `C02_stable_models` with the same extension `E`, and in addition: under
    corresponding answer sets exactly the same symbol names are shown — a name is shown by the given program under `X`
    (some output directive with that name has a true condition) iff it is shown by the emitted program under `E X`
    (where every output directive is conditioned on one atom: the image of the single positive literal, or the
    auxiliary atom defined by the condition). -/
theorem C02_equivalence (ext inc : Bool) (ds : List Call) (hx : ∀ d ∈ ds, PlainOk d) (hnh : ∀ d ∈ ds, isHeu d = false) (hE : ext = false ∨ extCalls ds = []) :
    ∃ E : I → I,
      (∀ X, Stable (progOf ds) X →
        Stable (rulesOf (convert ext (stepCalls inc ds)).out) (E X) ∧ E X 1 = false ∧ restrict (convert ext (stepCalls inc ds)) (E X) = X) ∧
      (∀ X', Stable (rulesOf (convert ext (stepCalls inc ds)).out) X' → X' 1 = false →
        Stable (progOf ds) (restrict (convert ext (stepCalls inc ds)) X') ∧ E (restrict (convert ext (stepCalls inc ds)) X') = X') ∧
      (∀ X name, shown ds X name ↔ shownOut (convert ext (stepCalls inc ds)).out (E X) name) := by
  obtain ⟨defs, hj, hj0, hk, hM, hshape, hst⟩ := step_all ext inc ds hx hE
  have hpi := hj0.inv
  have ok := ctx_ok hj
  have tr := ctx_trans hj
  refine ⟨fun X => (ctxOf (convert ext (stepCalls inc ds)) defs).E X X, ?_, ?_, ?_⟩
  · intro X hs
    have hs' := (stable_filter_kept_app _ _ X).mpr hs
    obtain ⟨h1, h2, h3⟩ := translation_stable ok tr hs'
    refine ⟨h1, h2, ?_⟩
    rw [restrict_eq _ hj.inv defs]; exact h3
  · intro X' hs h1
    obtain ⟨h2, h3⟩ := translation_stable_back ok tr X' hs h1
    rw [restrict_eq _ hj.inv defs]
    exact ⟨(stable_filter_kept_app _ _ _).mp h2, h3.symm⟩
  · intro X name
    have houts : outsOf (convert ext (stepCalls inc ds)).out = (sortSyms (preEnd ext inc ds).output).map (fun p => (p.2, [(p.1 : Int)])) := by
      rw [convert_step]; exact final_outs _ hj0.nofail hshape (preEnd_noheur ext inc ds hx hnh) hk.noout
    unfold shown shownOut
    rw [houts]
    constructor
    · rintro ⟨cond, hm, hb⟩
      obtain ⟨n, hn, hrep⟩ := hk.fwd (name, cond) hm
      have hrep' := hrep.mono hst hpi (fun d hd => hd)
      refine ⟨[(n : Int)], ?_, ?_⟩
      · simp only [List.mem_map]
        exact ⟨(n, name), (mem_sortSyms _ _).mpr hn, rfl⟩
      · rw [rep_val hj X n cond hrep']; exact hb
    · rintro ⟨c', hm, hb⟩
      simp only [List.mem_map] at hm
      obtain ⟨p, hp, he⟩ := hm
      have hp' := (mem_sortSyms _ _).mp hp
      obtain ⟨cond, hc, hrep⟩ := hk.bwd p hp'
      have hrep' := hrep.mono hst hpi (fun d hd => hd)
      have e1 : name = p.2 := (Prod.mk.inj he).1.symm
      have e2 : c' = [(p.1 : Int)] := (Prod.mk.inj he).2.symm
      subst e1 e2
      exact ⟨cond, hc, by rw [← rep_val hj X p.1 cond hrep']; exact hb⟩

/-! ### minimize statements -/
/-- value of the minimize statements of priority `p` in a call list under `X` -/
def costAt (cs : List Call) (p : Int) (X : I) : Int := costM X (minsOf cs) p

/-- the sum of the negative weights of the statements of priority `p` -/
def negM (Ms : List (Int × List (Int × Int))) (p : Int) : Int :=
  ((Ms.filter (fun q => q.1 == p)).map (fun q => ((q.2.filter (fun w => w.2 < 0)).map (·.2)).sum)).sum

theorem litR_neg (X : I) (l : Int) (hl : l ≠ 0) : litR X X (-l) = !litR X X l := by
  unfold litR
  by_cases h : 0 < l
  · have : ¬ (0 : Int) < -l := by omega
    rw [if_pos h, if_neg this, Int.natAbs_neg]
  · have : (0 : Int) < -l := by omega
    rw [if_neg h, if_pos this, Int.natAbs_neg]; simp

theorem wsum_flip (X : I) (ws : List (Int × Int)) (hz : ∀ p ∈ ws, p.1 ≠ 0) :
    wsum X X (ws.map flipNeg) = wsum X X ws - ((ws.filter (fun p => p.2 < 0)).map (·.2)).sum :=
  C02_minimize_flip (litR X X) (litR_neg X) ws hz

theorem costM_flip (X : I) (Ms : List (Int × List (Int × Int))) (hz : ∀ pl ∈ Ms, ∀ q ∈ pl.2, q.1 ≠ 0) (p : Int) :
    costM X (Ms.map (fun q => (q.1, q.2.map flipNeg))) p = costM X Ms p - negM Ms p := by
  induction Ms with
  | nil => rfl
  | cons e r ih =>
    have ih' := ih (fun pl h => hz pl (by simp [h]))
    rw [List.map_cons, costM_cons, costM_cons, ih']
    simp only
    unfold negM
    by_cases h : (e.1 == p) = true
    · simp only [h, ↓reduceIte, List.filter_cons, List.map_cons, List.sum_cons]
      rw [wsum_flip X e.2 (hz e (by simp))]
      omega
    · simp only [h, ↓reduceIte, List.filter_cons, Bool.false_eq_true]
      omega

theorem costM_ren {c : Ctx} (ok : c.Ok) (X : I) (l : List (Int × List (Int × Int)))
    (h : ∀ pl ∈ l, ∀ q ∈ pl.2, q.1 ≠ 0 ∧ q.1.natAbs ∈ c.dom) (p : Int) :
    costM (c.E X X) (l.map (fun pl => (pl.1, renW c.m pl.2))) p = costM X l p := by
  induction l with
  | nil => rfl
  | cons e r ih =>
    rw [List.map_cons, costM_cons, costM_cons, ih (fun pl hp => h pl (by simp [hp]))]
    simp only
    have e1 : wsum (c.E X X) (c.E X X) (renW c.m e.2) = wsum X X e.2 := by
      unfold renW
      rw [wsum_ren ok _ _ e.2 (h e (by simp))]
      apply wsum_congr
      intro q hq
      have := (h e (by simp) q hq).2
      exact ⟨R_E ok X X _ this, R_E ok X X _ this⟩
    rw [e1]

/-- **C02 (optimisation)**: under corresponding answer sets, for every priority the cost in the emitted program is the
    cost in the given program minus a constant — the sum of the negative weights of that priority (they were moved to
    the complementary literals).  So the order of answer sets by cost, priority by priority, is the same.
    (`C02_minimize_sorted` + `flushMinimize_order`: one emitted statement per priority, lower priorities first.) -/
theorem C02_cost (ext inc : Bool) (ds : List Call) (hx : ∀ d ∈ ds, PlainOk d) (hnh : ∀ d ∈ ds, isHeu d = false) (hE : ext = false ∨ extCalls ds = []) :
    ∃ E : I → I,
      (∀ X, Stable (progOf ds) X →
        Stable (rulesOf (convert ext (stepCalls inc ds)).out) (E X) ∧ E X 1 = false ∧ restrict (convert ext (stepCalls inc ds)) (E X) = X) ∧
      (∀ X', Stable (rulesOf (convert ext (stepCalls inc ds)).out) X' → X' 1 = false → E (restrict (convert ext (stepCalls inc ds)) X') = X') ∧
      (∀ X p, costAt (convert ext (stepCalls inc ds)).out p (E X) = costAt ds p X - negM (minsOf ds) p) := by
  obtain ⟨defs, hj, hj0, hk, hM, hshape, hst⟩ := step_all ext inc ds hx hE
  have ok := ctx_ok hj
  have tr := ctx_trans hj
  refine ⟨fun X => (ctxOf (convert ext (stepCalls inc ds)) defs).E X X, ?_, ?_, ?_⟩
  · intro X hs
    have hs' := (stable_filter_kept_app _ _ X).mpr hs
    obtain ⟨h1, h2, h3⟩ := translation_stable ok tr hs'
    refine ⟨h1, h2, ?_⟩
    rw [restrict_eq _ hj.inv defs]; exact h3
  · intro X' hs h1
    obtain ⟨h2, h3⟩ := translation_stable_back ok tr X' hs h1
    rw [restrict_eq _ hj.inv defs]
    exact h3.symm
  · intro X p
    have hcs := convert_step ext inc ds
    have hag : Agree ((preEnd ext inc ds).apply .endStep) (finalMap (convert ext (stepCalls inc ds))) := by
      rw [← hcs]; exact agree_final _ hj.inv
    obtain ⟨g1, g2⟩ := final_mins _ hj0.nofail hshape (preEnd_noheur ext inc ds hx hnh) hM.nomin hj0.inv _ hag
    rw [← hcs] at g1 g2
    unfold costAt
    rw [g1]
    have := costM_ren ok X (preEnd ext inc ds).minimize (fun pl hpl q hq => ⟨hM.nz pl hpl q hq, g2 pl hpl q hq⟩) p
    refine this.trans ?_
    rw [hM.cost X p]
    apply costM_flip
    intro pl hpl q hq
    have hmem : ∃ d ∈ ds, minOf d = some pl := by
      simp only [minsOf, List.mem_filterMap] at hpl; exact hpl
    obtain ⟨d, hd, he⟩ := hmem
    cases d with
    | minimize prio lits =>
      simp only [minOf, Option.some.injEq] at he
      subst he
      exact ((hx _ hd) q hq).1
    | _ => simp [minOf] at he

/-- the emitted step ends with the compute statement that makes the false atom false -/
theorem C02_compute_false (ext inc : Bool) (ds : List Call) (hx : ∀ d ∈ ds, PlainOk d) (hE : ext = false ∨ extCalls ds = []) :
    Call.assume [-1] ∈ (convert ext (stepCalls inc ds)).out ∧ (convert ext (stepCalls inc ds)).fail = false := by
  obtain ⟨defs, hj, hj0, _⟩ := step_all ext inc ds hx hE
  refine ⟨?_, hj.nofail⟩
  rw [convert_step, apply_end _ hj0.nofail]
  simp [CS.emit, CS.flush]

/-! ### the statement is not vacuous: a program with every covered directive kind -/
example : ∀ d ∈ ([.rule 0 [5] [3, -4], .rule 1 [3, 4] [], .rule 0 [] [3, 4], .sumRule 1 [6] 2 [(3, 1), (-5, 2)],
    .minimize 1 [(3, 2), (-4, -3)], .output [97] [5], .output [98] [5], .output [99] [3, -6], .external 7 0, .acycEdge 0 1 [3, -5]] : List Call), PlainOk d := by
  intro d hd
  simp only [List.mem_cons, List.not_mem_nil, or_false] at hd
  rcases hd with h | h | h | h | h | h | h | h | h | h <;> subst h <;> simp [PlainOk, I32MINc]

end PotasscoVerif.C02
