/-
  C02 — the converted program has the same answer sets.
  Property theorems over the converter model (Model/Convert.lean, tied to src/convert.cpp by the `cv` correspondence)
  and the reference semantics Spec/Asp.lean.  Helper lemmas: Lemmas/AspBasic, AspTrans, ConvertSem.
-/
import PotasscoVerif.Lemmas.ConvertSem
namespace PotasscoVerif.C02
open PotasscoVerif PotasscoVerif.Convert PotasscoVerif.Asp

/-- an output interpretation seen through the converter's own atom map -/
def restrict (c : CS) (X' : I) : I := fun a => match img c a with | some n => X' n | none => false

theorem restrict_eq (c : CS) (hi : Inv (abs c)) (defs : List (Nat × Body)) (X' : I) : restrict c X' = (ctxOf c defs).R X' := by
  funext a
  unfold restrict Ctx.R ctxOf
  simp only
  cases h : img c a with
  | some n =>
    have hm := img_mem c a n h
    have hd : a ∈ domOf c := by simp only [domOf, List.mem_map]; exact ⟨_, hm, rfl⟩
    simp [hd, finalMap, h]
  | none =>
    have hd : ¬ a ∈ domOf c := by
      intro hd
      have := dom_pair c hi a hd
      rw [mem_img c hi.keys _ _ this] at h
      cases h
    simp [hd]

/-- rules the converter drops (a choice over no atoms) are satisfied by every pair of interpretations -/
theorem stable_filter_kept (P : List Rule) (X : I) : Stable (P.filter kept) X ↔ Stable P X := by
  have hm : ∀ X Y, ModelR (P.filter kept) X Y ↔ ModelR P X Y := by
    intro X Y
    constructor
    · intro h r hr
      cases hk : kept r
      · unfold kept at hk
        simp only [Bool.not_eq_false', Bool.and_eq_true, List.isEmpty_iff] at hk
        unfold satR headR
        simp [hk.1, hk.2]
      · exact h r (List.mem_filter.mpr ⟨hr, hk⟩)
    · intro h r hr; exact h r (List.mem_filter.mp hr).1
  unfold Stable
  rw [hm]
  constructor
  · rintro ⟨h1, h2⟩; exact ⟨h1, fun Y hs hy => h2 Y hs ((hm X Y).mpr hy)⟩
  · rintro ⟨h1, h2⟩; exact ⟨h1, fun Y hs hy => h2 Y hs ((hm X Y).mp hy)⟩

/-- **C02 (answer sets are preserved, one to one, under the converter's own atom map)**.
    For every program step made of rules with disjunctive or choice heads (also empty ones), normal and weight bodies,
    minimize statements and output directives with arbitrary conditions — literals non-zero, body weights non-negative,
    no weight `INT_MIN` — converted with or without the clasp extensions:
    there is an extension `E` of interpretations to the auxiliary atoms such that
    * every stable model `X` of the given rules yields the stable model `E X` of the emitted rules, in which the false
      atom `1` is false (the emitted compute statement), and whose restriction to the mapped atoms is `X` again;
    * every stable model `X'` of the emitted rules with atom `1` false restricts to a stable model of the given rules
      and is the extension of that restriction.
    So `restrict` and `E` are mutually inverse bijections between the two sets of answer sets. -/
theorem C02_stable_models (ext inc : Bool) (ds : List Call) (hx : ∀ d ∈ ds, PlainOk d) :
    ∃ E : I → I,
      (∀ X, Stable (rulesOf ds) X →
        Stable (rulesOf (convert ext (stepCalls inc ds)).out) (E X) ∧ E X 1 = false ∧ restrict (convert ext (stepCalls inc ds)) (E X) = X) ∧
      (∀ X', Stable (rulesOf (convert ext (stepCalls inc ds)).out) X' → X' 1 = false →
        Stable (rulesOf ds) (restrict (convert ext (stepCalls inc ds)) X') ∧ E (restrict (convert ext (stepCalls inc ds)) X') = X') := by
  obtain ⟨defs, hj⟩ := J.step ext inc ds hx
  have ok := ctx_ok hj
  have tr := ctx_trans hj
  refine ⟨fun X => (ctxOf (convert ext (stepCalls inc ds)) defs).E X X, ?_, ?_⟩
  · intro X hs
    have hs' := (stable_filter_kept _ X).mpr hs
    obtain ⟨h1, h2, h3⟩ := translation_stable ok tr hs'
    refine ⟨h1, h2, ?_⟩
    rw [restrict_eq _ hj.inv defs]; exact h3
  · intro X' hs h1
    obtain ⟨h2, h3⟩ := translation_stable_back ok tr X' hs h1
    rw [restrict_eq _ hj.inv defs]
    exact ⟨(stable_filter_kept _ _).mp h2, h3.symm⟩

/-- the emitted step ends with the compute statement that makes the false atom false -/
theorem C02_compute_false (ext inc : Bool) (ds : List Call) (hx : ∀ d ∈ ds, PlainOk d) :
    Call.assume [-1] ∈ (convert ext (stepCalls inc ds)).out ∧ (convert ext (stepCalls inc ds)).fail = false := by
  obtain ⟨defs, hj⟩ := J.step ext inc ds hx
  refine ⟨?_, hj.nofail⟩
  unfold convert stepCalls
  rw [List.foldl_append, List.foldl_append]
  simp only [List.foldl_cons, List.foldl_nil]
  have : ∀ c : CS, c.fail = false → Call.assume [-1] ∈ (c.apply .endStep).out := by
    intro c hc
    rw [apply_end c hc]
    simp [CS.emit, CS.flush]
  apply this
  have := J.step ext inc ds hx
  -- the state before `endStep` has not failed: failing is permanent
  have hperm : ∀ (c : CS) (x : Call), c.fail = true → (c.apply x).fail = true := by
    intro c x h; unfold CS.apply; simp [h]
  apply Classical.byContradiction
  intro hne
  have hf : (List.foldl CS.apply (({ ext := ext } : CS).apply (.initProgram inc) |>.apply .beginStep) ds).fail = true := by
    simpa using hne
  have := hperm _ .endStep hf
  have h2 := hj.nofail
  unfold convert stepCalls at h2
  rw [List.foldl_append, List.foldl_append] at h2
  simp only [List.foldl_cons, List.foldl_nil] at h2
  rw [this] at h2
  cases h2

/-! ### the statement is not vacuous: a program with every covered directive kind -/
example : ∀ d ∈ ([.rule 0 [5] [3, -4], .rule 1 [3, 4] [], .rule 0 [] [3, 4], .sumRule 1 [6] 2 [(3, 1), (-5, 2)],
    .minimize 1 [(3, 2), (-4, -3)], .output [97] [5], .output [98] [5], .output [99] [3, -6]] : List Call), PlainOk d := by
  intro d hd
  simp only [List.mem_cons, List.not_mem_nil, or_false] at hd
  rcases hd with h | h | h | h | h | h | h | h <;> subst h <;> simp [PlainOk, I32MINc]

end PotasscoVerif.C02
