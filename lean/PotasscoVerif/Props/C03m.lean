/-
  C03 / C07 (continued) — the grammar theorems for the readers driven step by step.  `C01_modes` / `C05_modes` carry `C03_complete`,
  `C03_sound`, `C03_rejects` (and the C07 ones) over to `readInc`: a client that reads one step at a time accepts exactly the same texts and
  is handed exactly the same directives.
-/
import PotasscoVerif.Props.C01m
import PotasscoVerif.Props.C05m
import PotasscoVerif.Props.C07b
namespace PotasscoVerif.C03m
open PotasscoVerif PotasscoVerif.CharStream

theorem C03_complete_steps (t : List Nat) (inc : Bool) (cs : List Call) (h : C03.Prog true t inc cs) :
    AspifIn.readInc t = { calls := .initProgram inc :: cs, err := none } := by
  rw [C01m.C01_modes]; exact C03.C03_complete t inc cs h

theorem C03_sound_steps (t : List Nat) (calls : List Call) (hnul : ∀ c ∈ t, c ≠ 0) (h : AspifIn.readInc t = { calls := calls, err := none }) :
    ∃ inc cs, calls = .initProgram inc :: cs ∧ C03.Prog false t inc cs := by
  rw [C01m.C01_modes] at h; exact C03.C03_sound t calls hnul h

theorem C03_rejects_steps (t : List Nat) (hnul : ∀ c ∈ t, c ≠ 0) (hno : ∀ inc cs, ¬ C03.Prog false t inc cs) : (AspifIn.readInc t).err ≠ none := by
  rw [C01m.C01_modes]; exact C03.C03_rejects t hnul hno

theorem C07_complete_steps (ext : Bool) (t : List Nat) (inc : Bool) (cs : List Call) (h : C07.Prog7 true ext t inc cs) :
    SmodelsIn.readInc ext t = { calls := .initProgram inc :: cs, err := none } := by
  rw [C05m.C05_modes]; exact C07.C07_complete ext t inc cs h

theorem C07_sound_steps (ext : Bool) (t : List Nat) (calls : List Call) (hnul : ∀ c ∈ t, c ≠ 0)
    (h : SmodelsIn.readInc ext t = { calls := calls, err := none }) :
    ∃ inc cs, calls = .initProgram inc :: cs ∧ C07.Prog7 false ext t inc cs := by
  rw [C05m.C05_modes] at h; exact C07.C07_sound ext t calls hnul h

theorem C07_rejects_steps (ext : Bool) (t : List Nat) (hnul : ∀ c ∈ t, c ≠ 0) (hno : ∀ inc cs, ¬ C07.Prog7 false ext t inc cs) :
    (SmodelsIn.readInc ext t).err ≠ none := by
  rw [C05m.C05_modes]; exact C07.C07_rejects ext t hnul hno

end PotasscoVerif.C03m
