/-
  C04 — readers are total and respect the consumer contract on arbitrary input.
  Theorems about the three reader models (Model/AspifIn.lean, Model/SmodelsSym.lean with Model/SmodelsIn.lean,
  Model/TextIn.lean), for EVERY byte string.  (The models are tied to the C++ readers by the `ar` / `so` / `tr`
  correspondences; totality is their being Lean functions with fuel ≥ the input length.)
-/
import PotasscoVerif.Model.AspifIn
import PotasscoVerif.Model.SmodelsSym
import PotasscoVerif.Model.TextIn
namespace PotasscoVerif.C04
open PotasscoVerif PotasscoVerif.CharStream
open PotasscoVerif.AspifIn (P Result)

/-! ## the consumer contract -/
def atomOk (a : Nat) : Prop := 1 ≤ a ∧ a ≤ 2147483647
def litOk (l : Int) : Prop := l ≠ 0 ∧ l.natAbs ≤ 2147483647
def i32 (x : Int) : Prop := -2147483648 ≤ x ∧ x ≤ 2147483647

/-- argument ranges of a call -/
def WF : Call → Prop
  | .rule ht head body => ht ≤ 1 ∧ (∀ a ∈ head, atomOk a) ∧ (∀ l ∈ body, litOk l)
  | .sumRule ht head b ws => ht ≤ 1 ∧ (∀ a ∈ head, atomOk a) ∧ i32 b ∧ (∀ p ∈ ws, litOk p.1 ∧ 0 ≤ p.2 ∧ i32 p.2)
  | .minimize _ ws => ∀ q ∈ ws, litOk q.1 ∧ i32 q.2
  | .project atoms => ∀ a ∈ atoms, atomOk a
  | .output _ c => ∀ l ∈ c, litOk l
  | .external a v => atomOk a ∧ v ≤ 3
  | .assume ls => ∀ l ∈ ls, litOk l
  | .heuristic a t b _ c => atomOk a ∧ t ≤ 5 ∧ i32 b ∧ (∀ l ∈ c, litOk l)
  | .acycEdge _ _ c => ∀ l ∈ c, litOk l
  | .theoryNum _ n => i32 n
  | .theoryCompound _ t _ => -3 ≤ t ∧ t ≤ 2147483647
  | .theoryElement _ _ c => ∀ l ∈ c, litOk l
  | _ => True

/-- directives: everything but the three structural calls -/
def isDir : Call → Bool
  | .initProgram _ | .beginStep | .endStep => false
  | _ => true

/-- the call-structure automaton: 0 nothing yet, 1 between steps, 2 inside a step; `none` = contract broken -/
def next : Nat → Call → Option Nat
  | 0, .initProgram _ => some 1
  | 1, .beginStep => some 2
  | 2, .endStep => some 1
  | 2, c => if isDir c then some 2 else none
  | _, _ => none

def run : Nat → List Call → Option Nat
  | s, [] => some s
  | s, c :: r => match next s c with | some s' => run s' r | none => none

theorem run_append (s : Nat) (l1 l2 : List Call) : run s (l1 ++ l2) = (run s l1).bind (fun s' => run s' l2) := by
  induction l1 generalizing s with
  | nil => simp [run]
  | cons c r ih =>
    simp only [List.cons_append, run]
    cases next s c with
    | none => simp
    | some s' => simpa using ih s'

theorem run_dirs (l : List Call) (h : ∀ c ∈ l, isDir c = true) : run 2 l = some 2 := by
  induction l with
  | nil => rfl
  | cons c r ih =>
    have hc := h c (by simp)
    have : next 2 c = some 2 := by
      cases c <;> simp_all [next, isDir]
    simp only [run, this]
    exact ih (fun x hx => h x (by simp [hx]))

/-! ## inversion of the parser monad -/
theorem bind_ok {ε α β : Type} (x : Except ε α) (f : α → Except ε β) (r : β) : (x >>= f) = .ok r ↔ ∃ a, x = .ok a ∧ f a = .ok r := by
  cases x <;> simp [bind, Except.bind]
theorem map_ok {ε α β : Type} (x : Except ε α) (f : α → β) (r : β) : (f <$> x) = .ok r ↔ ∃ a, x = .ok a ∧ f a = r := by
  cases x <;> simp [Functor.map, Except.map]
theorem pure_ok {ε α : Type} (x r : α) : (pure x : Except ε α) = .ok r ↔ x = r := by
  simp [pure, Except.pure]

/-! ## aspif reader -/
section aspif
open PotasscoVerif.AspifIn

theorem intIn_ok (lo hi : Int) (a : AS) (v : Int) (a' : AS) (h : intIn lo hi a = .ok (v, a')) : lo ≤ v ∧ v ≤ hi := by
  unfold intIn at h
  split at h
  · split at h
    · rename_i hr; simp at h; rw [← h.1]; exact hr
    · cases h
  · cases h

theorem posMax_ok (m : Nat) (a : AS) (v : Nat) (a' : AS) (h : posMax m a = .ok (v, a')) : v ≤ m := by
  unfold posMax at h
  simp only [bind_ok, pure_ok, Prod.exists, Prod.mk.injEq] at h
  obtain ⟨x, b, hx, hv, _⟩ := h
  have := intIn_ok _ _ _ _ _ hx
  omega

theorem atom_ok (a : AS) (v : Nat) (a' : AS) (h : atom a = .ok (v, a')) : atomOk v := by
  unfold atom at h
  simp only [bind_ok, pure_ok, Prod.exists, Prod.mk.injEq] at h
  obtain ⟨x, b, hx, hv, _⟩ := h
  have := intIn_ok _ _ _ _ _ hx
  simp only [Gen.atomMin, Gen.atomMax] at this
  unfold atomOk; omega

theorem lit_ok (a : AS) (v : Int) (a' : AS) (h : lit a = .ok (v, a')) : litOk v := by
  unfold lit at h
  split at h
  · split at h
    · rename_i hr; simp at h; rw [← h.1]
      simp only [Gen.atomMax] at hr
      unfold litOk; omega
    · cases h
  · cases h

theorem wlit_ok (minW : Int) (a : AS) (v : Int × Int) (a' : AS) (h : wlit minW a = .ok (v, a')) : litOk v.1 ∧ minW ≤ v.2 ∧ v.2 ≤ 2147483647 := by
  unfold wlit at h
  simp only [bind_ok, pure_ok, Prod.exists, Prod.mk.injEq] at h
  obtain ⟨l, a1, hl, w, a2, hw, hv, _⟩ := h
  have h1 := lit_ok _ _ _ hl
  have h2 := intIn_ok _ _ _ _ _ hw
  rw [← hv]; exact ⟨h1, h2.1, by have : I32MAX = 2147483647 := rfl; omega⟩

theorem rep_all {α : Type} (p : P α) (Q : α → Prop) (hp : ∀ a v a', p a = .ok (v, a') → Q v) :
    ∀ (n : Nat) (acc : List α) (a : AS) (l : List α) (a' : AS), rep p n acc a = .ok (l, a') → (∀ x ∈ acc, Q x) → ∀ x ∈ l, Q x := by
  intro n
  induction n with
  | zero => intro acc a l a' h hacc; simp [rep] at h; rw [← h.1]; simpa using hacc
  | succ n ih =>
    intro acc a l a' h hacc
    simp only [rep, bind_ok, Prod.exists] at h
    obtain ⟨x, a1, hx, hr⟩ := h
    exact ih _ _ _ _ hr (by intro y hy; simp at hy; rcases hy with hy | hy; exact hy ▸ hp _ _ _ hx; exact hacc y hy)

theorem counted_all {α : Type} (p : P α) (Q : α → Prop) (hp : ∀ a v a', p a = .ok (v, a') → Q v)
    (a : AS) (l : List α) (a' : AS) (h : counted p a = .ok (l, a')) : ∀ x ∈ l, Q x := by
  unfold counted at h
  simp only [bind_ok, Prod.exists] at h
  obtain ⟨n, a1, _, hr⟩ := h
  exact rep_all p Q hp _ _ _ _ _ hr (by simp)

theorem atoms_ok (a : AS) (l : List Nat) (a' : AS) (h : atoms a = .ok (l, a')) : ∀ x ∈ l, atomOk x :=
  counted_all atom atomOk atom_ok a l a' h
theorem lits_ok (a : AS) (l : List Int) (a' : AS) (h : lits a = .ok (l, a')) : ∀ x ∈ l, litOk x :=
  counted_all lit litOk lit_ok a l a' h
theorem wlits_ok (minW : Int) (a : AS) (l : List (Int × Int)) (a' : AS) (h : wlits minW a = .ok (l, a')) :
    ∀ x ∈ l, litOk x.1 ∧ minW ≤ x.2 ∧ x.2 ≤ 2147483647 := by
  unfold wlits at h
  simp only [bind_ok, pure_ok, Prod.exists, Prod.mk.injEq] at h
  obtain ⟨l0, a1, hc, hl, _⟩ := h
  intro x hx
  rw [← hl] at hx
  exact counted_all (wlit minW) _ (wlit_ok minW) a l0 a1 hc x (List.mem_filter.mp hx).1

theorem theory_ok (rt : Nat) (a : AS) (c : Call) (a' : AS) (h : theory rt a = .ok (c, a')) : WF c ∧ isDir c = true := by
  unfold theory at h
  simp only [bind_ok, Prod.exists] at h
  obtain ⟨tId, a1, _, h⟩ := h
  split at h
  · simp only [bind_ok, pure_ok, Prod.exists, Prod.mk.injEq] at h
    obtain ⟨n, a2, hn, hc, _⟩ := h
    subst hc
    have := intIn_ok _ _ _ _ _ hn
    have e1 : I32MIN = -2147483648 := rfl
    have e2 : I32MAX = 2147483647 := rfl
    exact ⟨by simp only [WF, i32]; omega, rfl⟩
  · split at h
    · simp only [bind_ok, pure_ok, Prod.exists, Prod.mk.injEq] at h
      obtain ⟨n, a2, _, hc, _⟩ := h; subst hc; exact ⟨trivial, rfl⟩
    · split at h
      · simp only [bind_ok, pure_ok, Prod.exists, Prod.mk.injEq] at h
        obtain ⟨t, a2, ht, args, a3, _, hc, _⟩ := h; subst hc
        have := intIn_ok _ _ _ _ _ ht
        have e2 : I32MAX = 2147483647 := rfl
        have e3 : Gen.Tuple_t_eMin = -3 := rfl
        exact ⟨by simp only [WF]; omega, rfl⟩
      · split at h
        · simp only [bind_ok, pure_ok, Prod.exists, Prod.mk.injEq] at h
          obtain ⟨ts, a2, _, cnd, a3, hl, hc, _⟩ := h; subst hc
          exact ⟨lits_ok _ _ _ hl, rfl⟩
        · split at h
          · simp only [bind_ok, pure_ok, Prod.exists, Prod.mk.injEq] at h
            obtain ⟨t, a2, _, es, a3, _, hc, _⟩ := h; subst hc; exact ⟨trivial, rfl⟩
          · split at h
            · simp only [bind_ok, pure_ok, Prod.exists, Prod.mk.injEq] at h
              obtain ⟨t, a2, _, es, a3, _, op, a4, _, rhs, a5, _, hc, _⟩ := h; subst hc; exact ⟨trivial, rfl⟩
            · cases h

theorem directive_ok (rt : Nat) (a : AS) (c : Call) (a' : AS) (h : directive rt a = .ok (some c, a')) : WF c ∧ isDir c = true := by
  have e1 : I32MIN = -2147483648 := rfl
  have e2 : I32MAX = 2147483647 := rfl
  unfold directive at h
  split at h
  · -- rule
    simp only [bind_ok, Prod.exists] at h
    obtain ⟨ht, a1, hht, hd, a2, hhd, bt, a3, _, h⟩ := h
    have hh := posMax_ok _ _ _ _ hht
    have hhd' := atoms_ok _ _ _ hhd
    have eh : N Gen.Head_t_eMax = 1 := rfl
    split at h
    · simp only [bind_ok, pure_ok, Prod.exists, Prod.mk.injEq, Option.some.injEq] at h
      obtain ⟨b, a4, hb, hc, _⟩ := h; subst hc
      exact ⟨⟨by omega, hhd', lits_ok _ _ _ hb⟩, rfl⟩
    · simp only [bind_ok, pure_ok, Prod.exists, Prod.mk.injEq, Option.some.injEq] at h
      obtain ⟨bnd, a4, hbnd, b, a5, hb, hc, _⟩ := h; subst hc
      have hb' := wlits_ok _ _ _ _ hb
      have hbn := intIn_ok _ _ _ _ _ hbnd
      refine ⟨⟨by omega, hhd', by simp only [i32]; omega, ?_⟩, rfl⟩
      intro p hp; have := hb' p hp; exact ⟨this.1, this.2.1, by simp only [i32]; omega⟩
  · split at h
    · -- minimize
      simp only [bind_ok, pure_ok, Prod.exists, Prod.mk.injEq, Option.some.injEq] at h
      obtain ⟨p, a1, hp, b, a2, hb, hc, _⟩ := h; subst hc
      have hb' := wlits_ok _ _ _ _ hb
      have hpn := intIn_ok _ _ _ _ _ hp
      refine ⟨?_, rfl⟩
      intro q hq; have := hb' q hq; exact ⟨this.1, by simp only [i32]; omega⟩
    · split at h
      · simp only [bind_ok, pure_ok, Prod.exists, Prod.mk.injEq, Option.some.injEq] at h
        obtain ⟨l, a1, hl, hc, _⟩ := h; subst hc; exact ⟨atoms_ok _ _ _ hl, rfl⟩
      · split at h
        · simp only [bind_ok, pure_ok, Prod.exists, Prod.mk.injEq, Option.some.injEq] at h
          obtain ⟨str, a1, _, cnd, a2, hl, hc, _⟩ := h; subst hc; exact ⟨lits_ok _ _ _ hl, rfl⟩
        · split at h
          · simp only [bind_ok, pure_ok, Prod.exists, Prod.mk.injEq, Option.some.injEq] at h
            obtain ⟨x, a1, hx, v, a2, hv, hc, _⟩ := h; subst hc
            have := posMax_ok _ _ _ _ hv
            have ev : N Gen.Value_t_eMax = 3 := rfl
            exact ⟨⟨atom_ok _ _ _ hx, by omega⟩, rfl⟩
          · split at h
            · simp only [bind_ok, pure_ok, Prod.exists, Prod.mk.injEq, Option.some.injEq] at h
              obtain ⟨l, a1, hl, hc, _⟩ := h; subst hc; exact ⟨lits_ok _ _ _ hl, rfl⟩
            · split at h
              · simp only [bind_ok, pure_ok, Prod.exists, Prod.mk.injEq, Option.some.injEq] at h
                obtain ⟨t, a1, ht, x, a2, hx, bias, a3, hbias, prio, a4, _, cnd, a5, hl, hc, _⟩ := h; subst hc
                have := posMax_ok _ _ _ _ ht
                have hb := intIn_ok _ _ _ _ _ hbias
                have eh : N Gen.Heuristic_t_eMax = 5 := rfl
                exact ⟨⟨atom_ok _ _ _ hx, by omega, by simp only [i32]; omega, lits_ok _ _ _ hl⟩, rfl⟩
              · split at h
                · simp only [bind_ok, pure_ok, Prod.exists, Prod.mk.injEq, Option.some.injEq] at h
                  obtain ⟨s0, a1, hs0, t0, a2, ht0, cnd, a3, hl, hc, _⟩ := h; subst hc
                  have h1 := posMax_ok _ _ _ _ hs0
                  have h2 := posMax_ok _ _ _ _ ht0
                  have en : N I32MAX = 2147483647 := rfl
                  exact ⟨lits_ok _ _ _ hl, rfl⟩
                · split at h
                  · simp only [bind_ok, pure_ok, Prod.exists, Prod.mk.injEq, Option.some.injEq] at h
                    obtain ⟨tt, a1, _, c0, a2, hth, hc, _⟩ := h; subst hc
                    exact theory_ok _ _ _ _ hth
                  · split at h
                    · simp at h
                    · cases h

theorem dirStep_cont (a : AS) (c : Call) (a2 : AS) (h : dirStep a = .cont (some c) a2) : WF c ∧ isDir c = true := by
  unfold dirStep at h
  cases hp : posMax (N Gen.Directive_t_eMax) a with
  | error l => rw [hp] at h; cases h
  | ok r =>
    obtain ⟨rt, a1⟩ := r
    rw [hp] at h
    simp only at h
    split at h
    · cases h
    · cases hd : directive rt a1 with
      | error l => rw [hd] at h; cases h
      | ok r2 =>
        obtain ⟨cc, a3⟩ := r2
        rw [hd] at h
        simp only [Round.cont.injEq] at h
        rw [h.1] at hd
        exact directive_ok _ _ _ _ hd

theorem stepLoop_zero (a : AS) (acc : List Call) : stepLoop 0 a acc = (acc.reverse, .error a.line) := rfl
attribute [local irreducible] dirStep in
theorem stepLoop_succ (f : Nat) (a : AS) (acc : List Call) : stepLoop (f + 1) a acc = (match dirStep a with
    | .stop r => (acc.reverse, r)
    | .cont c a2 => stepLoop f a2 (match c with | some c => c :: acc | none => acc)) := rfl

theorem stepLoop_ok : ∀ (f : Nat) (a : AS) (acc : List Call), (∀ c ∈ acc, WF c ∧ isDir c = true) →
    ∀ c ∈ (stepLoop f a acc).1, WF c ∧ isDir c = true := by
  intro f
  induction f with
  | zero => intro a acc h c hc; rw [stepLoop_zero] at hc; exact h c (by simpa using hc)
  | succ f ih =>
    intro a acc h c hc
    rw [stepLoop_succ] at hc
    cases hs : dirStep a with
    | stop r => rw [hs] at hc; exact h c (by simpa using hc)
    | cont cc a2 =>
      rw [hs] at hc
      simp only at hc
      refine ih a2 _ ?_ c hc
      cases cc with
      | none => exact h
      | some c0 =>
        intro x hx
        simp only [List.mem_cons] at hx
        rcases hx with hx | hx
        · subst hx; exact dirStep_cont _ _ _ hs
        · exact h x hx

/-- what every reader guarantees about the calls it has delivered -/
def Good (calls : List Call) : Prop := (∃ st, run 0 calls = some st) ∧ ∀ c ∈ calls, WF c

theorem good_of_steps (acc cs : List Call) (hacc : run 0 acc = some 1) (hwf : ∀ c ∈ acc, WF c) (hcs : ∀ c ∈ cs, WF c ∧ isDir c = true) :
    run 0 (acc ++ [.beginStep] ++ cs) = some 2 ∧ run 0 (acc ++ [.beginStep] ++ cs ++ [.endStep]) = some 1 ∧
    (∀ c ∈ acc ++ [.beginStep] ++ cs ++ [.endStep], WF c) := by
  have h1 : run 0 (acc ++ [.beginStep] ++ cs) = some 2 := by
    rw [List.append_assoc, run_append, hacc]
    simp only [Option.bind_some, List.singleton_append, run, next]
    exact run_dirs cs (fun c hc => (hcs c hc).2)
  refine ⟨h1, ?_, ?_⟩
  · rw [run_append, h1]; rfl
  · intro c hc
    simp only [List.mem_append, List.mem_singleton] at hc
    rcases hc with ((hc | hc) | hc) | hc
    · exact hwf c hc
    · subst hc; trivial
    · exact (hcs c hc).1
    · subst hc; trivial

attribute [local irreducible] stepLoop in
theorem stepsLoop_succ (f : Nat) (inc : Bool) (a : AS) (acc : List Call) : stepsLoop (f + 1) inc a acc =
    (match (stepLoop (a.rest.length + 1) a []).2 with
     | .error l => { calls := acc ++ [.beginStep] ++ (stepLoop (a.rest.length + 1) a []).1, err := some l }
     | .ok a1 =>
       if (more a1).1 && !inc then { calls := acc ++ [.beginStep] ++ (stepLoop (a.rest.length + 1) a []).1 ++ [.endStep], err := some (more a1).2.line }
       else if (more a1).1 then stepsLoop f inc (more a1).2 (acc ++ [.beginStep] ++ (stepLoop (a.rest.length + 1) a []).1 ++ [.endStep])
       else { calls := acc ++ [.beginStep] ++ (stepLoop (a.rest.length + 1) a []).1 ++ [.endStep], err := none }) := rfl

theorem stepsLoop_good : ∀ (f : Nat) (inc : Bool) (a : AS) (acc : List Call), run 0 acc = some 1 → (∀ c ∈ acc, WF c) →
    Good (stepsLoop f inc a acc).calls := by
  intro f
  induction f with
  | zero => intro inc a acc h1 h2; exact ⟨⟨1, h1⟩, h2⟩
  | succ f ih =>
    intro inc a acc h1 h2
    rw [stepsLoop_succ]
    have hcs := stepLoop_ok (a.rest.length + 1) a [] (by simp)
    have hg := good_of_steps acc (stepLoop (a.rest.length + 1) a []).1 h1 h2 hcs
    cases hr : (stepLoop (a.rest.length + 1) a []).2 with
    | error l =>
      simp only [hr]
      exact ⟨⟨2, hg.1⟩, fun c hc => hg.2.2 c (List.mem_append_left _ hc)⟩
    | ok a1 =>
      simp only [hr]
      split
      · exact ⟨⟨1, hg.2.1⟩, hg.2.2⟩
      · split
        · exact ih _ _ _ hg.2.1 hg.2.2
        · exact ⟨⟨1, hg.2.1⟩, hg.2.2⟩

/-- **C04 (aspif: structure and arguments)**: for EVERY byte string, the calls the aspif reader delivers — all of them, also
    those made before an error is reported — start with `initProgram`, put every directive between a `beginStep` and
    the matching `endStep` (the last step may be left open by an error), and carry only atoms in 1..2^31−1, non-zero
    literals over such atoms, non-negative rule-body weights and valid enumeration values. -/
theorem C04_contract_aspif (input : List Nat) : Good (AspifIn.read input).calls := by
  unfold AspifIn.read
  simp only
  cases header (AS.init input) with
  | none => exact ⟨⟨0, rfl⟩, by simp⟩
  | some r =>
    cases r with
    | error l => exact ⟨⟨0, rfl⟩, by simp⟩
    | ok r =>
      obtain ⟨inc, a1⟩ := r
      simp only
      split
      · exact ⟨⟨1, rfl⟩, by intro c hc; simp at hc; subst hc; trivial⟩
      · exact stepsLoop_good _ _ _ _ rfl (by intro c hc; simp at hc; subst hc; trivial)

theorem C04_structure_aspif (input : List Nat) : ∃ st, run 0 (AspifIn.read input).calls = some st := (C04_contract_aspif input).1
end aspif

/-! ## smodels reader (all option sets) -/
section smodels
open PotasscoVerif.AspifIn PotasscoVerif.SmodelsIn PotasscoVerif.SmodelsSym

theorem signed_ok : ∀ (n : Nat) (as : List Nat), (∀ a ∈ as, atomOk a) → ∀ l ∈ signed n as, litOk l := by
  intro n as
  induction as generalizing n with
  | nil => intro _ l hl; simp [signed] at hl
  | cons a r ih =>
    intro h l hl
    have ha := h a (by simp)
    cases n with
    | zero =>
      simp only [signed, List.mem_cons] at hl
      rcases hl with hl | hl
      · subst hl; unfold litOk atomOk at *; omega
      · exact ih 0 (fun x hx => h x (by simp [hx])) l hl
    | succ n =>
      simp only [signed, List.mem_cons] at hl
      rcases hl with hl | hl
      · subst hl; unfold litOk atomOk at *; omega
      · exact ih n (fun x hx => h x (by simp [hx])) l hl

theorem repAtom_ok (n : Nat) (a : AS) (l : List Nat) (a' : AS) (h : rep atom n [] a = .ok (l, a')) : ∀ x ∈ l, atomOk x :=
  rep_all atom atomOk atom_ok n [] a l a' h (by simp)

theorem body_ok (a : AS) (b : List Int) (a' : AS) (h : body a = .ok (b, a')) : ∀ l ∈ b, litOk l := by
  unfold body at h
  simp only [bind_ok, pure_ok, Prod.exists, Prod.mk.injEq] at h
  obtain ⟨len, a1, _, neg, a2, _, as, a3, has, hb, _⟩ := h
  rw [← hb]; exact signed_ok _ _ (repAtom_ok _ _ _ _ has)

theorem sum_ok (w : Bool) (a : AS) (r : Int × List (Int × Int)) (a' : AS) (h : SmodelsIn.sum w a = .ok (r, a')) :
    i32 r.1 ∧ ∀ p ∈ r.2, litOk p.1 ∧ 0 ≤ p.2 ∧ i32 p.2 := by
  have e2 : I32MAX = 2147483647 := rfl
  unfold SmodelsIn.sum at h
  simp only [bind_ok, Prod.exists] at h
  obtain ⟨x, a1, _, y, a2, _, z, a3, _, h⟩ := h
  by_cases hb : (if w = true then x else z) > I32MAX.toNat
  · rw [if_pos hb] at h; cases h
  · rw [if_neg hb] at h
    have hbnd : ((if w = true then x else z : Nat) : Int) ≤ 2147483647 := by
      have : I32MAX.toNat = 2147483647 := rfl
      omega
    cases has : rep atom (if w = true then y else x) [] a3 with
    | error l => rw [has] at h; cases h
    | ok r0 =>
      obtain ⟨as, a4⟩ := r0
      rw [has] at h
      simp only at h
      have hls := signed_ok (if w = true then z else y) as (repAtom_ok _ _ _ _ has)
      cases w with
      | true =>
        simp only [↓reduceIte] at h hbnd hls
        cases hws : rep (posMax I32MAX.toNat) y [] a4 with
        | error l => rw [hws] at h; cases h
        | ok r1 =>
          obtain ⟨ws, a5⟩ := r1
          rw [hws] at h
          simp only [Except.ok.injEq, Prod.mk.injEq] at h
          rw [← h.1]
          have hw := rep_all (posMax I32MAX.toNat) (fun v => v ≤ 2147483647) (fun a v a' hh => by have := posMax_ok _ _ _ _ hh; simpa [e2] using this) _ _ _ _ _ hws (by simp)
          refine ⟨by simp only [i32]; omega, ?_⟩
          intro p hp
          simp only at hp
          have h1 := List.of_mem_zip hp
          have h2 : p.2 ∈ ws.map (fun (w : Nat) => Int.ofNat w) := h1.2
          simp only [List.mem_map] at h2
          obtain ⟨v, hv, hpv⟩ := h2
          have := hw v hv
          refine ⟨hls p.1 h1.1, ?_, ?_⟩
          · rw [← hpv]; simp
          · rw [← hpv]; simp only [i32]; simp; omega
      | false =>
        simp only [Bool.false_eq_true, ↓reduceIte, Except.ok.injEq, Prod.mk.injEq] at h hbnd hls
        rw [← h.1]
        refine ⟨by simp only [i32]; omega, ?_⟩
        intro p hp
        simp only [List.mem_map] at hp
        obtain ⟨l, hl, hpl⟩ := hp
        rw [← hpl]; exact ⟨hls l hl, by simp, by simp [i32]⟩

theorem ruleOf_ok (ext : Bool) (rt prio : Nat) (a : AS) (c : Call) (p' : Nat) (a' : AS) (h : ruleOf ext rt prio a = .ok ((some c, p'), a')) :
    WF c ∧ isDir c = true := by
  unfold ruleOf at h
  split at h
  · simp only [bind_ok, pure_ok, Prod.exists, Prod.mk.injEq, Option.some.injEq] at h
    obtain ⟨n, a1, _, hd, a2, hhd, b, a3, hb, ⟨hc, _⟩, _⟩ := h; subst hc
    exact ⟨⟨by split <;> omega, repAtom_ok _ _ _ _ hhd, body_ok _ _ _ hb⟩, rfl⟩
  · split at h
    · simp only [bind_ok, pure_ok, Prod.exists, Prod.mk.injEq, Option.some.injEq] at h
      obtain ⟨hh, a1, hha, b, a2, hb, ⟨hc, _⟩, _⟩ := h; subst hc
      exact ⟨⟨by omega, by intro x hx; simp at hx; subst hx; exact atom_ok _ _ _ hha, body_ok _ _ _ hb⟩, rfl⟩
    · split at h
      · simp only [bind_ok, pure_ok, Prod.exists, Prod.mk.injEq, Option.some.injEq] at h
        obtain ⟨hh, a1, hha, bnd, wl, a2, hs, ⟨hc, _⟩, _⟩ := h; subst hc
        have := sum_ok _ _ _ _ hs
        exact ⟨⟨by omega, by intro x hx; simp at hx; subst hx; exact atom_ok _ _ _ hha, this.1, this.2⟩, rfl⟩
      · split at h
        · simp only [bind_ok, pure_ok, Prod.exists, Prod.mk.injEq, Option.some.injEq] at h
          obtain ⟨bnd, wl, a2, hs, ⟨hc, _⟩, _⟩ := h; subst hc
          have := sum_ok _ _ _ _ hs
          exact ⟨fun q hq => ⟨(this.2 q hq).1, (this.2 q hq).2.2⟩, rfl⟩
        · split at h
          · -- ClaspIncrement delivers no call
            cases ext with
            | false => simp [throw, throwThe, MonadExceptOf.throw, bind, Except.bind] at h
            | true =>
              simp at h
              simp only [bind_ok, pure_ok, map_ok, Prod.exists, Prod.mk.injEq, Option.some.injEq] at h
              obtain ⟨z, b, _, h⟩ := h
              split at h
              · simp [pure, Except.pure] at h
              · simp [throw, throwThe, MonadExceptOf.throw, Functor.map, Except.map] at h
          · split at h
            · cases ext with
              | false => simp [throw, throwThe, MonadExceptOf.throw, bind, Except.bind] at h
              | true =>
                simp at h
                simp only [bind_ok, pure_ok, map_ok, Prod.exists, Prod.mk.injEq, Option.some.injEq] at h
                obtain ⟨hh, a1, hha, v, a2, hv, ⟨hc, _⟩, _⟩ := h; subst hc
                have hv2 := posMax_ok _ _ _ _ hv
                have : (v ^^^ 3) - 1 ≤ 3 := by
                  have : v = 0 ∨ v = 1 ∨ v = 2 := by omega
                  rcases this with h | h | h <;> subst h <;> decide
                exact ⟨⟨atom_ok _ _ _ hha, this⟩, rfl⟩
            · split at h
              · cases ext with
                | false => simp [throw, throwThe, MonadExceptOf.throw, bind, Except.bind] at h
                | true =>
                  simp at h
                  simp only [bind_ok, pure_ok, map_ok, Prod.exists, Prod.mk.injEq, Option.some.injEq] at h
                  obtain ⟨hh, a1, hha, ⟨hc, _⟩, _⟩ := h; subst hc
                  exact ⟨⟨atom_ok _ _ _ hha, by omega⟩, rfl⟩
              · cases h

theorem heuType_lt : ∀ (ws : List (List Nat)) (x : Nat) (inp : List Nat) (t : Nat) (r : List Nat), heuType ws x inp = some (t, r) → t < x + ws.length := by
  intro ws
  induction ws with
  | nil => intro x inp t r h; simp [heuType] at h
  | cons w ws ih =>
    intro x inp t r h
    unfold heuType at h
    split at h
    · simp at h; simp; omega
    · have := ih (x + 1) inp t r h; simp; omega

theorem cInt_range (inp : List Nat) (v : Int) (r : List Nat) (h : cInt inp = some (v, r)) : i32 v := by
  unfold cInt at h
  dsimp only at h
  generalize (if (StringConvert.strto inp 10).neg = true then -((StringConvert.strto inp 10).mag : Int) else ((StringConvert.strto inp 10).mag : Int)) = w at h
  by_cases hc : ((StringConvert.strto inp 10).used == 0) = true ∨ w < -2147483648 ∨ w > 2147483647
  · rw [if_pos hc] at h; cases h
  · rw [if_neg hc] at h
    simp only [Option.some.injEq, Prod.mk.injEq] at h
    rw [← h.1]; simp only [i32]
    simp only [not_or, Int.not_lt] at hc
    omega

theorem domHeuPred_ok (inp : List Nat) : (domHeuPred inp).2.2.1 ≤ 5 ∧ i32 (domHeuPred inp).2.2.2.1 := by
  have z : (0 : Nat) ≤ 5 ∧ i32 0 := ⟨by omega, by simp [i32]⟩
  unfold domHeuPred
  simp only
  split
  · exact z
  · split
    · exact z
    · split
      · exact z
      · cases ht : heuType heuNames 0 (eat [44] (atomArg (eat (s "_heuristic(") inp).2).2.2).2 with
        | none => exact z
        | some tr =>
          obtain ⟨ty, r2⟩ := tr
          simp only
          have hty := heuType_lt _ _ _ _ _ ht
          have hty5 : ty ≤ 5 := by simp [heuNames] at hty; omega
          split
          · exact ⟨hty5, z.2⟩
          · cases hb : cInt (eat [44] r2).2 with
            | none => exact ⟨hty5, z.2⟩
            | some br =>
              obtain ⟨bias, r3⟩ := br
              simp only
              have hbi := cInt_range _ _ _ hb
              split
              · exact ⟨hty5, hbi⟩
              · cases hp : cInt (eat [44] r3).2 with
                | none => exact ⟨hty5, hbi⟩
                | some pr =>
                  obtain ⟨pp, r4⟩ := pr
                  simp only
                  split
                  · exact ⟨hty5, hbi⟩
                  · exact ⟨hty5, hbi⟩

def TabsOk (t : Tabs) : Prop := ∀ m, t.atoms = some m → ∀ p ∈ m, atomOk p.2
def HeuOk (h : Heu) : Prop := atomOk h.cond ∧ h.type ≤ 5 ∧ i32 h.bias
def DirOk (c : Call) : Prop := WF c ∧ isDir c = true

theorem atom_lit (x : Nat) (h : atomOk x) : ∀ l ∈ [(x : Int)], litOk l := by
  intro l hl; simp at hl; subst hl; unfold litOk atomOk at *; omega

theorem addNode_atoms (t : Tabs) (n : List Nat) : (t.addNode n).1.atoms = t.atoms := by
  unfold Tabs.addNode; split <;> rfl

theorem record_ok (r : Tabs × List Call × List Heu × Bool) (atom : Nat) (name : List Nat) (ha : atomOk atom)
    (h1 : TabsOk r.1) (h2 : ∀ c ∈ r.2.1, DirOk c) (h3 : ∀ h ∈ r.2.2.1, HeuOk h) :
    TabsOk (record r atom name).1 ∧ (∀ c ∈ (record r atom name).2.1, DirOk c) ∧ (∀ h ∈ (record r atom name).2.2, HeuOk h) := by
  have hout : ∀ c ∈ (if !r.2.2.2 then [Call.output name [(atom : Int)]] else []), DirOk c := by
    intro c hc
    split at hc
    · simp at hc; subst hc; exact ⟨atom_lit atom ha, rfl⟩
    · cases hc
  unfold record
  cases hm : r.1.atoms with
  | none =>
    simp only
    refine ⟨h1, ?_, h3⟩
    intro c hc; simp only [List.mem_append] at hc
    rcases hc with hc | hc; exact h2 c hc; exact hout c hc
  | some m =>
    simp only
    refine ⟨?_, ?_, h3⟩
    · intro m' hm' p hp
      simp only [Option.some.injEq] at hm'
      have hold := h1 m hm
      rw [← hm'] at hp
      split at hp
      · exact hold p hp
      · simp only [List.mem_append, List.mem_singleton] at hp
        rcases hp with hp | hp
        · exact hold p hp
        · subst hp; exact ha
    · intro c hc; simp only [List.mem_append] at hc
      rcases hc with hc | hc; exact h2 c hc; exact hout c hc

theorem recognise_ok (o : Opts) (t : Tabs) (atom : Nat) (name : List Nat) (doms : List Heu) (ha : atomOk atom) (ht : TabsOk t)
    (hd : ∀ h ∈ doms, HeuOk h) :
    TabsOk (recognise o t atom name doms).1 ∧ (∀ c ∈ (recognise o t atom name doms).2.1, DirOk c) ∧ (∀ h ∈ (recognise o t atom name doms).2.2.1, HeuOk h) := by
  unfold recognise
  simp only
  by_cases hE : (o.cEdge && decide (0 < (if o.cEdge = true then edgePred name else (0, [], [], name)).1)) = true
  · rw [if_pos hE]
    refine ⟨?_, ?_, hd⟩
    · unfold TabsOk; rw [addNode_atoms, addNode_atoms]; exact ht
    · intro c hc; simp only [List.mem_singleton] at hc; subst hc; exact ⟨atom_lit atom ha, rfl⟩
  · rw [if_neg hE]
    by_cases hH : (o.cHeu && decide (0 < (if o.cHeu = true then domHeuPred (if o.cEdge = true then edgePred name else (0, [], [], name)).2.2.2 else (0, [], 0, 0, 0, [])).1)) = true
    · rw [if_pos hH]
      refine ⟨ht, (by intro c hc; cases hc), ?_⟩
      intro h hh
      simp only [List.mem_append, List.mem_singleton] at hh
      rcases hh with hh | hh
      · exact hd h hh
      · subst hh
        have hcH : o.cHeu = true := by simp at hH; exact hH.1
        simp only [hcH, ↓reduceIte]
        have := domHeuPred_ok (if o.cEdge = true then edgePred name else (0, [], [], name)).2.2.2
        exact ⟨ha, this.1, this.2⟩
    · rw [if_neg hH]; exact ⟨ht, (by intro c hc; cases hc), hd⟩

theorem symbol_ok (o : Opts) (t : Tabs) (atom : Nat) (name : List Nat) (doms : List Heu) (ha : atomOk atom) (ht : TabsOk t)
    (hd : ∀ h ∈ doms, HeuOk h) :
    TabsOk (symbol o t atom name doms).1 ∧ (∀ c ∈ (symbol o t atom name doms).2.1, DirOk c) ∧ (∀ h ∈ (symbol o t atom name doms).2.2, HeuOk h) := by
  have := recognise_ok o t atom name doms ha ht hd
  exact record_ok _ atom name ha this.1 this.2.1 this.2.2

/-! ### the loops -/
attribute [local irreducible] ruleOf pos in
theorem rulesLoop_succ (ext : Bool) (f : Nat) (a : AS) (prio : Nat) (acc : List Call) : rulesLoop ext (f + 1) a prio acc =
    (match pos a with
     | .error l => (acc.reverse, .error l)
     | .ok (rt, a1) =>
       if rt = 0 then (acc.reverse, .ok a1) else
       match ruleOf ext rt prio a1 with
       | .error l => (acc.reverse, .error l)
       | .ok ((c, prio'), a2) => rulesLoop ext f a2 prio' (match c with | some c => c :: acc | none => acc)) := rfl

theorem rulesLoop_zero (ext : Bool) (a : AS) (prio : Nat) (acc : List Call) : rulesLoop ext 0 a prio acc = (acc.reverse, .error a.line) := rfl

theorem rulesLoop_ok (ext : Bool) : ∀ (f : Nat) (a : AS) (prio : Nat) (acc : List Call), (∀ c ∈ acc, DirOk c) →
    ∀ c ∈ (rulesLoop ext f a prio acc).1, DirOk c := by
  intro f
  induction f with
  | zero => intro a prio acc h c hc; rw [rulesLoop_zero] at hc; exact h c (by simpa using hc)
  | succ f ih =>
    intro a prio acc h c hc
    rw [rulesLoop_succ] at hc
    cases hp : pos a with
    | error l => rw [hp] at hc; exact h c (by simpa using hc)
    | ok r =>
      obtain ⟨rt, a1⟩ := r
      rw [hp] at hc
      simp only at hc
      by_cases h0 : rt = 0
      · rw [if_pos h0] at hc; exact h c (by simpa using hc)
      · rw [if_neg h0] at hc
        cases hr : ruleOf ext rt prio a1 with
        | error l => rw [hr] at hc; exact h c (by simpa using hc)
        | ok r2 =>
          obtain ⟨⟨cc, p'⟩, a2⟩ := r2
          rw [hr] at hc
          simp only at hc
          refine ih a2 p' _ ?_ c hc
          cases cc with
          | none => exact h
          | some c0 =>
            intro x hx
            simp only [List.mem_cons] at hx
            rcases hx with hx | hx
            · subst hx; exact ruleOf_ok _ _ _ _ _ _ _ hr
            · exact h x hx

theorem posAtom_ok (a : AS) (x : Nat) (a1 : AS) (h : posMax Gen.atomMax a = .ok (x, a1)) (h0 : x ≠ 0) : atomOk x := by
  have := posMax_ok _ _ _ _ h
  simp only [Gen.atomMax] at this
  unfold atomOk; omega

attribute [local irreducible] symbol nameLoop posMax in
theorem symbolsLoop_succ (o : Opts) (f : Nat) (a : AS) (t : Tabs) (acc : List Call) (d : List Heu) : symbolsLoop o (f + 1) a t acc d =
    (match posMax Gen.atomMax a with
     | .error l => (t, acc, d, .error l)
     | .ok (x, a1) =>
       if x = 0 then (t, acc, d, .ok a1) else
       match nameLoop ((a1.get.2).rest.length + 1) a1.get.2 [] with
       | .error l => (t, acc, d, .error l)
       | .ok (nm, a3) => symbolsLoop o f a3 (symbol o t x nm d).1 (acc ++ (symbol o t x nm d).2.1) (symbol o t x nm d).2.2) := rfl

theorem symbolsLoop_ok (o : Opts) : ∀ (f : Nat) (a : AS) (t : Tabs) (acc : List Call) (d : List Heu),
    TabsOk t → (∀ c ∈ acc, DirOk c) → (∀ h ∈ d, HeuOk h) →
    TabsOk (symbolsLoop o f a t acc d).1 ∧ (∀ c ∈ (symbolsLoop o f a t acc d).2.1, DirOk c) ∧ (∀ h ∈ (symbolsLoop o f a t acc d).2.2.1, HeuOk h) := by
  intro f
  induction f with
  | zero => intro a t acc d h1 h2 h3; exact ⟨h1, h2, h3⟩
  | succ f ih =>
    intro a t acc d h1 h2 h3
    rw [symbolsLoop_succ]
    cases hp : posMax Gen.atomMax a with
    | error l => exact ⟨h1, h2, h3⟩
    | ok r =>
      obtain ⟨x, a1⟩ := r
      simp only
      by_cases h0 : x = 0
      · rw [if_pos h0]; exact ⟨h1, h2, h3⟩
      · rw [if_neg h0]
        cases hn : nameLoop ((a1.get.2).rest.length + 1) a1.get.2 [] with
        | error l => exact ⟨h1, h2, h3⟩
        | ok r2 =>
          obtain ⟨nm, a3⟩ := r2
          simp only
          have hs := symbol_ok o t x nm d (posAtom_ok _ _ _ hp h0) h1 h3
          exact ih a3 _ _ _ hs.1 (by intro c hc; simp only [List.mem_append] at hc; rcases hc with hc | hc; exact h2 c hc; exact hs.2.1 c hc) hs.2.2

theorem findAtom_ok (t : Tabs) (ht : TabsOk t) (n : List Nat) (h : t.findAtom n ≠ 0) : atomOk (t.findAtom n) := by
  unfold Tabs.findAtom at h ⊢
  cases hm : t.atoms with
  | none => simp [hm] at h
  | some m =>
    simp only [hm] at h ⊢
    cases hf : m.find? (fun p => p.1 == n) with
    | none => simp [hf] at h
    | some p => simp only [hf, Option.map_some, Option.getD_some]; exact ht m hm p (List.mem_of_find?_eq_some hf)

theorem symbols_ok (o : Opts) (inc : Bool) (t : Tabs) (a : AS) (ht : TabsOk t) :
    TabsOk (symbols o inc t a).1 ∧ ∀ c ∈ (symbols o inc t a).2.1, DirOk c := by
  unfold symbols
  simp only
  have ht0 : TabsOk (if (o.cHeu && t.atoms.isNone) = true then { t with atoms := some [] } else t) := by
    split
    · intro m hm p hp; simp only [Option.some.injEq] at hm; rw [← hm] at hp; cases hp
    · exact ht
  have hl := symbolsLoop_ok o (a.rest.length + 1) a _ [] [] ht0 (by simp) (by simp)
  split
  · exact ⟨hl.1, hl.2.1⟩
  · refine ⟨?_, ?_⟩
    · split
      · exact hl.1
      · intro m hm; cases hm
    · intro c hc
      simp only [List.mem_append, List.mem_filterMap] at hc
      rcases hc with hc | ⟨h, hh, hc⟩
      · exact hl.2.1 c hc
      · by_cases hx : ((symbolsLoop o (a.rest.length + 1) a (if (o.cHeu && t.atoms.isNone) = true then { t with atoms := some [] } else t) [] []).1.findAtom h.atom != 0) = true
        · rw [if_pos hx] at hc
          simp only [Option.some.injEq] at hc; subst hc
          have hho := hl.2.2 h hh
          have hx' := bne_iff_ne.mp hx
          exact ⟨⟨findAtom_ok _ hl.1 _ hx', hho.2.1, hho.2.2, atom_lit _ hho.1⟩, rfl⟩
        · rw [if_neg hx] at hc; cases hc

attribute [local irreducible] posMax in
theorem computeLoop_succ (val : Bool) (f : Nat) (a : AS) (acc : List Call) : computeLoop val (f + 1) a acc =
    (match posMax Gen.atomMax a with
     | .error l => (acc.reverse, .error l)
     | .ok (x, a1) => if x = 0 then (acc.reverse, .ok a1) else computeLoop val f a1 (.rule 0 [] [if val then -(x : Int) else (x : Int)] :: acc)) := rfl
theorem computeLoop_zero (val : Bool) (a : AS) (acc : List Call) : computeLoop val 0 a acc = (acc.reverse, .error a.line) := rfl
attribute [local irreducible] posMax in
theorem extLoop_succ (f : Nat) (a : AS) (acc : List Call) : extLoop (f + 1) a acc =
    (match posMax Gen.atomMax a with
     | .error l => (acc.reverse, .error l)
     | .ok (x, a1) => if x = 0 then (acc.reverse, .ok a1) else extLoop f a1 (.external x 0 :: acc)) := rfl
theorem extLoop_zero (a : AS) (acc : List Call) : extLoop 0 a acc = (acc.reverse, .error a.line) := rfl

theorem computeLoop_ok (val : Bool) : ∀ (f : Nat) (a : AS) (acc : List Call), (∀ c ∈ acc, DirOk c) → ∀ c ∈ (computeLoop val f a acc).1, DirOk c := by
  intro f
  induction f with
  | zero => intro a acc h c hc; rw [computeLoop_zero] at hc; exact h c (by simpa using hc)
  | succ f ih =>
    intro a acc h c hc
    rw [computeLoop_succ] at hc
    cases hp : posMax Gen.atomMax a with
    | error l => rw [hp] at hc; exact h c (by simpa using hc)
    | ok r =>
      obtain ⟨x, a1⟩ := r
      rw [hp] at hc
      simp only at hc
      by_cases h0 : x = 0
      · rw [if_pos h0] at hc; exact h c (by simpa using hc)
      · rw [if_neg h0] at hc
        refine ih a1 _ ?_ c hc
        intro y hy
        simp only [List.mem_cons] at hy
        rcases hy with hy | hy
        · subst hy
          have hx := posAtom_ok _ _ _ hp h0
          refine ⟨⟨by omega, by simp, ?_⟩, rfl⟩
          intro l hl; simp only [List.mem_singleton] at hl; subst hl
          unfold litOk atomOk at *; split <;> omega
        · exact h y hy

theorem compute_ok (tok : List Nat) (val : Bool) (a : AS) : ∀ c ∈ (compute tok val a).1, DirOk c := by
  unfold compute
  simp only
  split
  · intro c hc; cases hc
  · split
    · intro c hc; cases hc
    · exact computeLoop_ok val _ _ [] (by simp)

theorem extLoop_ok : ∀ (f : Nat) (a : AS) (acc : List Call), (∀ c ∈ acc, DirOk c) → ∀ c ∈ (extLoop f a acc).1, DirOk c := by
  intro f
  induction f with
  | zero => intro a acc h c hc; rw [extLoop_zero] at hc; exact h c (by simpa using hc)
  | succ f ih =>
    intro a acc h c hc
    rw [extLoop_succ] at hc
    cases hp : posMax Gen.atomMax a with
    | error l => rw [hp] at hc; exact h c (by simpa using hc)
    | ok r =>
      obtain ⟨x, a1⟩ := r
      rw [hp] at hc
      simp only at hc
      by_cases h0 : x = 0
      · rw [if_pos h0] at hc; exact h c (by simpa using hc)
      · rw [if_neg h0] at hc
        refine ih a1 _ ?_ c hc
        intro y hy
        simp only [List.mem_cons] at hy
        rcases hy with hy | hy
        · subst hy; exact ⟨⟨posAtom_ok _ _ _ hp h0, by omega⟩, rfl⟩
        · exact h y hy

theorem extra_ok (a : AS) : ∀ c ∈ (extra a).1, DirOk c := by
  unfold extra
  simp only
  have h1 : ∀ c ∈ (if (a.skipWs.matchTok [69]).1 = true then extLoop ((a.skipWs.matchTok [69]).2.rest.length + 1) (a.skipWs.matchTok [69]).2 [] else ([], Except.ok (a.skipWs.matchTok [69]).2)).1, DirOk c := by
    split
    · exact extLoop_ok _ _ [] (by simp)
    · intro c hc; cases hc
  split
  · exact h1
  · split <;> exact h1

attribute [local irreducible] rulesLoop symbols compute extra in
theorem step_calls (o : Opts) (inc : Bool) (t : Tabs) (a : AS) :
    (SmodelsSym.step o inc t a).2.1 = (rulesLoop o.ext (a.rest.length + 1) a 0 []).1 ∨
    (∃ a1, (SmodelsSym.step o inc t a).2.1 = (rulesLoop o.ext (a.rest.length + 1) a 0 []).1 ++ (symbols o inc t a1).2.1) ∨
    (∃ a1 a2, (SmodelsSym.step o inc t a).2.1 = (rulesLoop o.ext (a.rest.length + 1) a 0 []).1 ++ (symbols o inc t a1).2.1 ++ (compute [66, 43] true a2).1) ∨
    (∃ a1 a2 a3, (SmodelsSym.step o inc t a).2.1 = (rulesLoop o.ext (a.rest.length + 1) a 0 []).1 ++ (symbols o inc t a1).2.1 ++ (compute [66, 43] true a2).1 ++ (compute [66, 45] false a3).1) ∨
    (∃ a1 a2 a3 a4, (SmodelsSym.step o inc t a).2.1 = (rulesLoop o.ext (a.rest.length + 1) a 0 []).1 ++ (symbols o inc t a1).2.1 ++ (compute [66, 43] true a2).1 ++ (compute [66, 45] false a3).1 ++ (extra a4).1) := by
  unfold SmodelsSym.step
  simp only
  cases h1 : (rulesLoop o.ext (a.rest.length + 1) a 0 []).2 with
  | error l => left; rfl
  | ok a1 =>
    simp only
    cases h2 : (symbols o inc t a1).2.2 with
    | error l => right; left; exact ⟨a1, rfl⟩
    | ok a2 =>
      simp only
      cases h3 : (compute [66, 43] true a2).2 with
      | error l => right; right; left; exact ⟨a1, a2, rfl⟩
      | ok a3 =>
        simp only
        cases h4 : (compute [66, 45] false a3).2 with
        | error l => right; right; right; left; exact ⟨a1, a2, a3, rfl⟩
        | ok a4 => right; right; right; right; exact ⟨a1, a2, a3, a4, rfl⟩

attribute [local irreducible] rulesLoop symbols compute extra in
theorem step_tabs (o : Opts) (inc : Bool) (t : Tabs) (a : AS) :
    (SmodelsSym.step o inc t a).1 = t ∨ ∃ a1, (SmodelsSym.step o inc t a).1 = (symbols o inc t a1).1 := by
  unfold SmodelsSym.step
  simp only
  cases h1 : (rulesLoop o.ext (a.rest.length + 1) a 0 []).2 with
  | error l => left; rfl
  | ok a1 =>
    simp only
    right; refine ⟨a1, ?_⟩
    cases h2 : (symbols o inc t a1).2.2 with
    | error l => rfl
    | ok a2 =>
      simp only
      cases h3 : (compute [66, 43] true a2).2 with
      | error l => rfl
      | ok a3 =>
        simp only
        cases h4 : (compute [66, 45] false a3).2 <;> rfl

theorem step_ok (o : Opts) (inc : Bool) (t : Tabs) (a : AS) (ht : TabsOk t) :
    TabsOk (SmodelsSym.step o inc t a).1 ∧ ∀ c ∈ (SmodelsSym.step o inc t a).2.1, DirOk c := by
  have hr := rulesLoop_ok o.ext (a.rest.length + 1) a 0 [] (by simp)
  constructor
  · rcases step_tabs o inc t a with h | ⟨a1, h⟩
    · rw [h]; exact ht
    · rw [h]; exact (symbols_ok o inc t a1 ht).1
  · intro c hc
    rcases step_calls o inc t a with h | ⟨a1, h⟩ | ⟨a1, a2, h⟩ | ⟨a1, a2, a3, h⟩ | ⟨a1, a2, a3, a4, h⟩ <;> rw [h] at hc
    · exact hr c hc
    · simp only [List.mem_append] at hc
      rcases hc with hc | hc
      · exact hr c hc
      · exact (symbols_ok o inc t a1 ht).2 c hc
    · simp only [List.mem_append] at hc
      rcases hc with (hc | hc) | hc
      · exact hr c hc
      · exact (symbols_ok o inc t a1 ht).2 c hc
      · exact compute_ok _ _ _ c hc
    · simp only [List.mem_append] at hc
      rcases hc with ((hc | hc) | hc) | hc
      · exact hr c hc
      · exact (symbols_ok o inc t a1 ht).2 c hc
      · exact compute_ok _ _ _ c hc
      · exact compute_ok _ _ _ c hc
    · simp only [List.mem_append] at hc
      rcases hc with (((hc | hc) | hc) | hc) | hc
      · exact hr c hc
      · exact (symbols_ok o inc t a1 ht).2 c hc
      · exact compute_ok _ _ _ c hc
      · exact compute_ok _ _ _ c hc
      · exact extra_ok _ c hc

attribute [local irreducible] SmodelsSym.step in
theorem stepsLoopO_succ (o : Opts) (f : Nat) (inc : Bool) (t : Tabs) (a : AS) (acc : List Call) : SmodelsSym.stepsLoop o (f + 1) inc t a acc =
    (match (SmodelsSym.step o inc t a).2.2 with
     | .error l => { calls := acc ++ [.beginStep] ++ (SmodelsSym.step o inc t a).2.1, err := some l }
     | .ok a1 =>
       if (more a1).1 && !inc then { calls := acc ++ [.beginStep] ++ (SmodelsSym.step o inc t a).2.1 ++ [.endStep], err := some (more a1).2.line }
       else if (more a1).1 then SmodelsSym.stepsLoop o f inc (SmodelsSym.step o inc t a).1 (more a1).2 (acc ++ [.beginStep] ++ (SmodelsSym.step o inc t a).2.1 ++ [.endStep])
       else { calls := acc ++ [.beginStep] ++ (SmodelsSym.step o inc t a).2.1 ++ [.endStep], err := none }) := rfl

theorem stepsLoopO_good (o : Opts) : ∀ (f : Nat) (inc : Bool) (t : Tabs) (a : AS) (acc : List Call), TabsOk t → run 0 acc = some 1 → (∀ c ∈ acc, WF c) →
    Good (SmodelsSym.stepsLoop o f inc t a acc).calls := by
  intro f
  induction f with
  | zero => intro inc t a acc _ h1 h2; exact ⟨⟨1, h1⟩, h2⟩
  | succ f ih =>
    intro inc t a acc ht h1 h2
    rw [stepsLoopO_succ]
    have hs := step_ok o inc t a ht
    have hg := good_of_steps acc (SmodelsSym.step o inc t a).2.1 h1 h2 hs.2
    cases hr : (SmodelsSym.step o inc t a).2.2 with
    | error l => exact ⟨⟨2, hg.1⟩, fun c hc => hg.2.2 c (List.mem_append_left _ hc)⟩
    | ok a1 =>
      simp only
      split
      · exact ⟨⟨1, hg.2.1⟩, hg.2.2⟩
      · split
        · exact ih _ _ _ _ hs.1 hg.2.1 hg.2.2
        · exact ⟨⟨1, hg.2.1⟩, hg.2.2⟩

/-- **C04 (smodels, every option set: structure and arguments)**: for EVERY byte string and every combination of
    `claspExt`, `convertEdges`, `convertHeuristic`, `dropConverted`, the calls the smodels reader delivers are well
    structured and carry only admissible arguments (see `C04_contract_aspif`); in particular rule-body weights are
    non-negative, external values are in 0..3 and heuristic modifiers in 0..5. -/
theorem C04_contract_smodels (o : Opts) (input : List Nat) : Good (SmodelsSym.read o input).calls := by
  unfold SmodelsSym.read
  simp only
  split
  · exact stepsLoopO_good o _ _ _ _ _ (by intro m hm; cases hm) rfl (by intro c hc; simp at hc; subst hc; trivial)
  · exact ⟨⟨0, rfl⟩, by simp⟩

theorem C04_structure_smodels (o : Opts) (input : List Nat) : ∃ st, run 0 (SmodelsSym.read o input).calls = some st := (C04_contract_smodels o input).1
end smodels

/-! ## ground-text reader -/
section text
open PotasscoVerif.TextIn

theorem tint_ok (a : AS) (v : Int) (a' : AS) (h : TextIn.int a = .ok (v, a')) : i32 v := by
  unfold TextIn.int at h
  split at h
  · split at h
    · rename_i hr; simp at h; rw [← h.1]
      have e1 : I32MIN = -2147483648 := rfl
      have e2 : I32MAX = 2147483647 := rfl
      simp only [i32]; omega
    · cases h
  · cases h

theorem ident_ok (a : AS) (n : Nat) (a' : AS) (h : ident a = .ok (n, a')) : atomOk n := by
  unfold ident at h
  simp only at h
  split at h
  · cases h
  · rename_i hl
    split at h
    · cases h
    · split at h
      · split at h
        · rename_i i a3 hi
          split at h
          · rename_i hpos
            simp only [Except.ok.injEq, Prod.mk.injEq] at h
            rw [← h.1]
            have := tint_ok _ _ _ hi
            simp only [i32] at this
            unfold atomOk; omega
          · cases h
        · cases h
      · simp only [Except.ok.injEq, Prod.mk.injEq] at h
        rw [← h.1]
        have : isLower a.get.1 = true := by simpa using hl
        simp [isLower] at this
        unfold atomOk; omega

theorem tlit_ok (a : AS) (v : Int) (a' : AS) (h : TextIn.lit a = .ok (v, a')) : litOk v := by
  unfold TextIn.lit at h
  split at h
  · cases h
  · split at h
    · cases h
    · rename_i x a2 hx
      simp only [Except.ok.injEq, Prod.mk.injEq] at h
      rw [← h.1]
      have := ident_ok _ _ _ hx
      unfold litOk atomOk at *
      split <;> omega

theorem atomsLoop_ok (seps : List Nat) : ∀ (f : Nat) (a : AS) (acc : List Nat) (l : List Nat) (a' : AS),
    atomsLoop seps f a acc = .ok (l, a') → (∀ x ∈ acc, atomOk x) → ∀ x ∈ l, atomOk x := by
  intro f
  induction f with
  | zero => intro a acc l a' h; simp [atomsLoop] at h
  | succ f ih =>
    intro a acc l a' h hacc
    unfold atomsLoop at h
    split at h
    · cases h
    · rename_i x a1 hx
      have hlx := tlit_ok _ _ _ hx
      split at h
      · cases h
      · rename_i hpos
        have hxa : atomOk x.toNat := by unfold litOk at hlx; unfold atomOk; omega
        have hacc' : ∀ y ∈ acc ++ [x.toNat], atomOk y := by
          intro y hy; simp only [List.mem_append, List.mem_singleton] at hy
          rcases hy with hy | hy; exact hacc y hy; subst hy; exact hxa
        split at h
        · simp only at h
          split at h
          · exact ih _ _ _ _ h hacc'
          · simp only [Except.ok.injEq, Prod.mk.injEq] at h; rw [← h.1]; exact hacc'
        · simp only [Except.ok.injEq, Prod.mk.injEq] at h; rw [← h.1]; exact hacc'

theorem tatoms_ok (seps : List Nat) (a : AS) (l : List Nat) (a' : AS) (h : TextIn.atoms seps a = .ok (l, a')) : ∀ x ∈ l, atomOk x := by
  unfold TextIn.atoms at h
  simp only at h
  split at h
  · exact atomsLoop_ok seps _ _ _ _ _ h (by simp)
  · simp only [Except.ok.injEq, Prod.mk.injEq] at h; rw [← h.1]; simp

theorem litsLoop_ok : ∀ (f : Nat) (a : AS) (acc : List Int) (l : List Int) (a' : AS),
    litsLoop f a acc = .ok (l, a') → (∀ x ∈ acc, litOk x) → ∀ x ∈ l, litOk x := by
  intro f
  induction f with
  | zero => intro a acc l a' h; simp [litsLoop] at h
  | succ f ih =>
    intro a acc l a' h hacc
    unfold litsLoop at h
    split at h
    · cases h
    · rename_i x a1 hx
      have hacc' : ∀ y ∈ acc ++ [x], litOk y := by
        intro y hy; simp only [List.mem_append, List.mem_singleton] at hy
        rcases hy with hy | hy; exact hacc y hy; subst hy; exact tlit_ok _ _ _ hx
      split at h
      · cases h
      · exact ih _ _ _ _ h hacc'
      · simp only [Except.ok.injEq, Prod.mk.injEq] at h; rw [← h.1]; exact hacc'

theorem tlits_ok (a : AS) (l : List Int) (a' : AS) (h : TextIn.lits a = .ok (l, a')) : ∀ x ∈ l, litOk x := by
  unfold TextIn.lits at h
  simp only at h
  split at h
  · exact litsLoop_ok _ _ _ _ _ h (by simp)
  · simp only [Except.ok.injEq, Prod.mk.injEq] at h; rw [← h.1]; simp

theorem condition_ok (a : AS) (l : List Int) (a' : AS) (h : condition a = .ok (l, a')) : ∀ x ∈ l, litOk x := by
  unfold condition at h
  split at h
  · cases h
  · exact tlits_ok _ _ _ h
  · simp only [Except.ok.injEq, Prod.mk.injEq] at h; rw [← h.1]; simp

theorem aggLoop_ok : ∀ (f : Nat) (a : AS) (acc : List (Int × Int)) (l : List (Int × Int)) (a' : AS),
    aggLoop f a acc = .ok (l, a') → (∀ x ∈ acc, litOk x.1 ∧ i32 x.2) → ∀ x ∈ l, litOk x.1 ∧ i32 x.2 := by
  intro f
  induction f with
  | zero => intro a acc l a' h; simp [aggLoop] at h
  | succ f ih =>
    intro a acc l a' h hacc
    unfold aggLoop at h
    split at h
    · cases h
    · rename_i x a1 hx
      split at h
      · cases h
      · rename_i hasW a2 _
        split at h
        · cases h
        · rename_i w a3 hw
          have hwi : i32 w := by
            split at hw
            · exact tint_ok _ _ _ hw
            · simp only [Except.ok.injEq, Prod.mk.injEq] at hw; rw [← hw.1]; simp [i32]
          have hacc' : ∀ y ∈ acc ++ [(x, w)], litOk y.1 ∧ i32 y.2 := by
            intro y hy; simp only [List.mem_append, List.mem_singleton] at hy
            rcases hy with hy | hy; exact hacc y hy; subst hy; exact ⟨tlit_ok _ _ _ hx, hwi⟩
          split at h
          · cases h
          · exact ih _ _ _ _ h hacc'
          · split at h
            · cases h
            · simp only [Except.ok.injEq, Prod.mk.injEq] at h; rw [← h.1]; exact hacc'

theorem agg_ok (a : AS) (l : List (Int × Int)) (a' : AS) (h : agg a = .ok (l, a')) : ∀ x ∈ l, litOk x.1 ∧ i32 x.2 := by
  unfold agg at h
  split at h
  · cases h
  · split at h
    · cases h
    · simp only [Except.ok.injEq, Prod.mk.injEq] at h; rw [← h.1]; simp
    · split at h
      · cases h
      · rename_i ws a3 hws
        simp only [Except.ok.injEq, Prod.mk.injEq] at h; rw [← h.1]
        intro x hx
        exact aggLoop_ok _ _ _ _ _ hws (by simp) x (List.mem_filter.mp hx).1

theorem ruleHead_ok (c : Nat) (a : AS) (h : Nat × List Nat) (a' : AS) (hh : ruleHead c a = .ok (h, a')) : h.1 ≤ 1 ∧ ∀ y ∈ h.2, atomOk y := by
  unfold ruleHead at hh
  split at hh
  · simp only [bind_ok, pure_ok, Prod.exists, Prod.mk.injEq] at hh
    obtain ⟨_, _, _, l, a4, hl, _, _, _, e, _⟩ := hh
    subst e; exact ⟨by simp, tatoms_ok _ _ _ _ hl⟩
  · simp only [bind_ok, pure_ok, Prod.exists, Prod.mk.injEq] at hh
    obtain ⟨l, a4, hl, e, _⟩ := hh
    subst e; exact ⟨by simp, tatoms_ok _ _ _ _ hl⟩

theorem ruleBody_ok (ht : Nat) (hd : List Nat) (hh : ht ≤ 1 ∧ ∀ y ∈ hd, atomOk y) (a : AS) (x : Call) (a' : AS)
    (h : ruleBody ht hd a = .ok (x, a')) : DirOk x := by
  unfold ruleBody at h
  simp only [bind_ok, Prod.exists] at h
  obtain ⟨hasBody, a2, _, h⟩ := h
  split at h
  · split at h
    · simp only [bind_ok, pure_ok, Prod.exists, Prod.mk.injEq] at h
      obtain ⟨b, a3, hb, _, _, _, hc, _⟩ := h; subst hc
      exact ⟨⟨hh.1, hh.2, tlits_ok _ _ _ hb⟩, rfl⟩
    · simp only [bind_ok, Prod.exists] at h
      obtain ⟨bnd, a3, hbnd, ws, a4, hws, h⟩ := h
      split at h
      · cases h
      · rename_i hneg
        simp only [bind_ok, pure_ok, Prod.exists, Prod.mk.injEq] at h
        obtain ⟨_, _, _, hc, _⟩ := h; subst hc
        have hw := agg_ok _ _ _ hws
        refine ⟨⟨hh.1, hh.2, tint_ok _ _ _ hbnd, ?_⟩, rfl⟩
        intro p hp
        refine ⟨(hw p hp).1, ?_, (hw p hp).2⟩
        have : ¬ (ws.any (fun q => decide (q.2 < 0)) = true) := hneg
        simp only [List.any_eq_true, decide_eq_true_eq, not_exists, not_and, Int.not_lt] at this
        exact this p hp
  · simp only [bind_ok, pure_ok, Prod.exists, Prod.mk.injEq] at h
    obtain ⟨_, _, _, hc, _⟩ := h; subst hc
    exact ⟨⟨hh.1, hh.2, by simp⟩, rfl⟩

theorem trule_ok (c : Nat) (a : AS) (x : Call) (a' : AS) (h : TextIn.rule c a = .ok (x, a')) : DirOk x := by
  unfold TextIn.rule at h
  split at h
  · cases h
  · rename_i hd a1 hh
    exact ruleBody_ok _ _ (ruleHead_ok _ _ _ _ hh) _ _ _ h

/-- what a statement parser may deliver -/
def StmtOk : Stmt → Prop
  | .call c => DirOk c
  | _ => True

theorem alt_ok (kw : List Nat) (p els : P Stmt) (hp : ∀ a r a', p a = .ok (r, a') → StmtOk r) (he : ∀ a r a', els a = .ok (r, a') → StmtOk r)
    (a : AS) (r : Stmt) (a' : AS) (h : alt kw p els a = .ok (r, a')) : StmtOk r := by
  unfold alt at h
  split at h
  · cases h
  · exact hp _ _ _ h
  · exact he _ _ _ h

theorem dMinimize_ok (a : AS) (r : Stmt) (a' : AS) (h : dMinimize a = .ok (r, a')) : StmtOk r := by
  unfold dMinimize at h
  simp only [bind_ok, pure_ok, Prod.exists, Prod.mk.injEq] at h
  obtain ⟨ws, a1, hws, _, _, _, prio, a3, _, _, _, _, hc, _⟩ := h; subst hc
  exact ⟨fun q hq => agg_ok _ _ _ hws q hq, rfl⟩

theorem dProject_ok (a : AS) (r : Stmt) (a' : AS) (h : dProject a = .ok (r, a')) : StmtOk r := by
  unfold dProject at h
  simp only [bind_ok, pure_ok, Prod.exists, Prod.mk.injEq] at h
  obtain ⟨br, a1, _, l, a2, hl, _, _, _, hc, _⟩ := h; subst hc
  refine ⟨?_, rfl⟩
  split at hl
  · simp only [bind_ok, pure_ok, Prod.exists, Prod.mk.injEq] at hl
    obtain ⟨l0, a3, hl0, _, _, _, e, _⟩ := hl; subst e; exact tatoms_ok _ _ _ _ hl0
  · simp only [Except.ok.injEq, Prod.mk.injEq] at hl; rw [← hl.1]; intro x hx; cases hx

theorem dOutput_ok (a : AS) (r : Stmt) (a' : AS) (h : dOutput a = .ok (r, a')) : StmtOk r := by
  unfold dOutput at h
  simp only [bind_ok, pure_ok, Prod.exists, Prod.mk.injEq] at h
  obtain ⟨sym, a1, _, c, a2, hc0, _, _, _, hc, _⟩ := h; subst hc
  exact ⟨condition_ok _ _ _ hc0, rfl⟩

theorem extValue_ok (a : AS) (v : Nat) (a' : AS) (h : extValue a = .ok (v, a')) : v ≤ 3 := by
  unfold extValue at h
  simp only [bind_ok, Prod.exists] at h
  obtain ⟨t, a1, _, h⟩ := h
  split at h
  · simp only [pure_ok, Prod.mk.injEq] at h; omega
  · simp only [bind_ok, Prod.exists] at h
    obtain ⟨f, a2, _, h⟩ := h
    split at h
    · simp only [pure_ok, Prod.mk.injEq] at h; omega
    · simp only [bind_ok, Prod.exists] at h
      obtain ⟨rr, a3, _, h⟩ := h
      split at h
      · simp only [pure_ok, Prod.mk.injEq] at h; omega
      · simp only [bind_ok, pure_ok, Prod.exists, Prod.mk.injEq] at h
        obtain ⟨_, _, _, hv, _⟩ := h; omega

theorem dExternal_ok (a : AS) (r : Stmt) (a' : AS) (h : dExternal a = .ok (r, a')) : StmtOk r := by
  unfold dExternal at h
  simp only [bind_ok, Prod.exists] at h
  obtain ⟨x, a1, hx, _, a2, _, br, a3, _, h⟩ := h
  split at h
  · simp only [bind_ok, pure_ok, Prod.exists, Prod.mk.injEq] at h
    obtain ⟨v, a4, hv, _, _, _, hc, _⟩ := h; subst hc
    exact ⟨⟨ident_ok _ _ _ hx, extValue_ok _ _ _ hv⟩, rfl⟩
  · simp only [pure_ok, Prod.mk.injEq] at h
    rw [← h.1]; exact ⟨⟨ident_ok _ _ _ hx, by omega⟩, rfl⟩

theorem dAssume_ok (a : AS) (r : Stmt) (a' : AS) (h : dAssume a = .ok (r, a')) : StmtOk r := by
  unfold dAssume at h
  simp only [bind_ok, pure_ok, Prod.exists, Prod.mk.injEq] at h
  obtain ⟨br, a1, _, l, a2, hl, _, _, _, hc, _⟩ := h; subst hc
  refine ⟨?_, rfl⟩
  split at hl
  · simp only [bind_ok, pure_ok, Prod.exists, Prod.mk.injEq] at hl
    obtain ⟨l0, a3, hl0, _, _, _, e, _⟩ := hl; subst e; exact tlits_ok _ _ _ hl0
  · simp only [Except.ok.injEq, Prod.mk.injEq] at hl; rw [← hl.1]; intro x hx; cases hx

theorem heuMod_lt : ∀ (ws : List (List Nat)) (x : Nat) (a : AS) (t : Nat) (a' : AS), heuMod ws x a = some (t, a') → t < x + ws.length := by
  intro ws
  induction ws with
  | nil => intro x a t a' h; simp [heuMod] at h
  | cons w ws ih =>
    intro x a t a' h
    unfold heuMod at h
    split at h
    · simp at h; simp; omega
    · have := ih (x + 1) a t a' h; simp; omega

theorem dHeuristic_ok (a : AS) (r : Stmt) (a' : AS) (h : dHeuristic a = .ok (r, a')) : StmtOk r := by
  unfold dHeuristic at h
  simp only [bind_ok, Prod.exists] at h
  obtain ⟨x, a1, hx, c, a2, hc0, _, a3, _, _, a4, _, v, a5, hv, hasP, a6, _, p, a7, _, _, a8, _, h⟩ := h
  split at h
  · cases h
  · rename_i hm a9 hmod
    simp only [bind_ok, pure_ok, Prod.exists, Prod.mk.injEq] at h
    obtain ⟨_, _, _, hc, _⟩ := h; subst hc
    have := heuMod_lt _ _ _ _ _ hmod
    exact ⟨⟨ident_ok _ _ _ hx, by simp [TextIn.heuNames] at this; omega, tint_ok _ _ _ hv, condition_ok _ _ _ hc0⟩, rfl⟩

theorem dEdge_ok (a : AS) (r : Stmt) (a' : AS) (h : dEdge a = .ok (r, a')) : StmtOk r := by
  unfold dEdge at h
  simp only [bind_ok, pure_ok, Prod.exists, Prod.mk.injEq] at h
  obtain ⟨_, _, _, s0, a2, _, _, _, _, t0, a4, _, _, _, _, c, a6, hc0, _, _, _, hc, _⟩ := h; subst hc
  exact ⟨condition_ok _ _ _ hc0, rfl⟩

theorem dStep_ok (inc : Bool) (a : AS) (r : Stmt) (a' : AS) (h : dStep inc a = .ok (r, a')) : StmtOk r := by
  unfold dStep at h
  split at h
  · cases h
  · simp only [bind_ok, pure_ok, Prod.exists, Prod.mk.injEq] at h
    obtain ⟨_, _, _, hc, _⟩ := h; subst hc; trivial

theorem dIncremental_ok (a : AS) (r : Stmt) (a' : AS) (h : dIncremental a = .ok (r, a')) : StmtOk r := by
  unfold dIncremental at h
  simp only [bind_ok, pure_ok, Prod.exists, Prod.mk.injEq] at h
  obtain ⟨_, _, _, hc, _⟩ := h; subst hc; trivial

theorem tdirective_ok (inc : Bool) (a : AS) (r : Stmt) (a' : AS) (h : TextIn.directive inc a = .ok (r, a')) : StmtOk r := by
  unfold TextIn.directive at h
  refine alt_ok _ _ _ dMinimize_ok (alt_ok _ _ _ dProject_ok (alt_ok _ _ _ dOutput_ok (alt_ok _ _ _ dExternal_ok (alt_ok _ _ _ dAssume_ok
    (alt_ok _ _ _ dHeuristic_ok (alt_ok _ _ _ dEdge_ok (alt_ok _ _ _ (dStep_ok inc) (alt_ok _ _ _ dIncremental_ok ?_)))))))) a r a' h
  intro a r a' h; cases h

attribute [local irreducible] TextIn.directive TextIn.rule tok peekWs AspifIn.skipLine in
theorem stmtLoop_succ (inc : Bool) (f : Nat) (a : AS) (acc : List Call) : stmtLoop inc (f + 1) a acc =
    (if (peekWs a).1 == 0 then (acc, .ok (peekWs a).2)
     else if (peekWs a).1 == 46 then
       match tok [46] true (peekWs a).2 with
       | .error l => (acc, .error l)
       | .ok (_, a1) => stmtLoop inc f a1 acc
     else if (peekWs a).1 == 35 then
       match TextIn.directive inc (peekWs a).2 with
       | .error l => (acc, .error l)
       | .ok (.call c, a1) => stmtLoop inc f a1 (acc ++ [c])
       | .ok (.nothing, a1) => stmtLoop inc f a1 acc
       | .ok (.step, a1) => (acc, .ok a1)
     else if (peekWs a).1 == 37 then stmtLoop inc f (AspifIn.skipLine (peekWs a).2) acc
     else
       match TextIn.rule (peekWs a).1 (peekWs a).2 with
       | .error l => (acc, .error l)
       | .ok (c, a1) => stmtLoop inc f a1 (acc ++ [c])) := rfl

theorem stmtLoop_ok (inc : Bool) : ∀ (f : Nat) (a : AS) (acc : List Call), (∀ c ∈ acc, DirOk c) → ∀ c ∈ (stmtLoop inc f a acc).1, DirOk c := by
  intro f
  induction f with
  | zero => intro a acc h c hc; exact h c hc
  | succ f ih =>
    intro a acc h c hc
    rw [stmtLoop_succ] at hc
    split at hc
    · exact h c hc
    · split at hc
      · split at hc
        · exact h c hc
        · exact ih _ _ h c hc
      · split at hc
        · split at hc
          · exact h c hc
          · rename_i c0 a1 hd
            refine ih _ _ ?_ c hc
            intro y hy; simp only [List.mem_append, List.mem_singleton] at hy
            rcases hy with hy | hy
            · exact h y hy
            · subst hy; exact tdirective_ok _ _ _ _ hd
          · exact ih _ _ h c hc
          · exact h c hc
        · split at hc
          · exact ih _ _ h c hc
          · split at hc
            · exact h c hc
            · rename_i c0 a1 hr
              refine ih _ _ ?_ c hc
              intro y hy; simp only [List.mem_append, List.mem_singleton] at hy
              rcases hy with hy | hy
              · exact h y hy
              · subst hy; exact trule_ok _ _ _ _ hr

attribute [local irreducible] stmtLoop in
theorem tstepsLoop_succ (f : Nat) (inc : Bool) (a : AS) (acc : List Call) : TextIn.stepsLoop (f + 1) inc a acc =
    (match (stmtLoop inc (a.rest.length + 1) a []).2 with
     | .error l => { calls := acc ++ [.beginStep] ++ (stmtLoop inc (a.rest.length + 1) a []).1, err := some l }
     | .ok a1 =>
       if (AspifIn.more a1).1 && !inc then { calls := acc ++ [.beginStep] ++ (stmtLoop inc (a.rest.length + 1) a []).1 ++ [.endStep], err := some (AspifIn.more a1).2.line }
       else if (AspifIn.more a1).1 then TextIn.stepsLoop f inc (AspifIn.more a1).2 (acc ++ [.beginStep] ++ (stmtLoop inc (a.rest.length + 1) a []).1 ++ [.endStep])
       else { calls := acc ++ [.beginStep] ++ (stmtLoop inc (a.rest.length + 1) a []).1 ++ [.endStep], err := none }) := rfl

theorem tstepsLoop_good : ∀ (f : Nat) (inc : Bool) (a : AS) (acc : List Call), run 0 acc = some 1 → (∀ c ∈ acc, WF c) →
    Good (TextIn.stepsLoop f inc a acc).calls := by
  intro f
  induction f with
  | zero => intro inc a acc h1 h2; exact ⟨⟨1, h1⟩, h2⟩
  | succ f ih =>
    intro inc a acc h1 h2
    rw [tstepsLoop_succ]
    have hcs := stmtLoop_ok inc (a.rest.length + 1) a [] (by simp)
    have hg := good_of_steps acc (stmtLoop inc (a.rest.length + 1) a []).1 h1 h2 hcs
    cases hr : (stmtLoop inc (a.rest.length + 1) a []).2 with
    | error l => exact ⟨⟨2, hg.1⟩, fun c hc => hg.2.2 c (List.mem_append_left _ hc)⟩
    | ok a1 =>
      simp only
      split
      · exact ⟨⟨1, hg.2.1⟩, hg.2.2⟩
      · split
        · exact ih _ _ _ hg.2.1 hg.2.2
        · exact ⟨⟨1, hg.2.1⟩, hg.2.2⟩

/-- **C04 (ground text: structure and arguments)**: for EVERY byte string, the calls the ground-text reader delivers are
    well structured and carry only admissible arguments (see `C04_contract_aspif`): atoms from `x<n>`/`x_<n>` are in
    1..2^31−1 or come from single letters, weights of rule-body aggregates are non-negative (repaired, D16), external
    values and heuristic modifiers come from the fixed keyword lists. -/
theorem C04_contract_text (input : List Nat) : Good (TextIn.read input).calls := by
  unfold TextIn.read
  simp only
  cases attach (AS.init input) with
  | none => exact ⟨⟨0, rfl⟩, by simp⟩
  | some r =>
    cases r with
    | error l => exact ⟨⟨0, rfl⟩, by simp⟩
    | ok r =>
      obtain ⟨inc, a1⟩ := r
      exact tstepsLoop_good _ _ _ _ rfl (by intro c hc; simp at hc; subst hc; trivial)

theorem C04_structure_text (input : List Nat) : ∃ st, run 0 (TextIn.read input).calls = some st := (C04_contract_text input).1

/-! ### the model runs -/
example : run 0 (AspifIn.read [97, 115, 112, 32, 49, 32, 48, 32, 48, 10, 49, 32, 48, 32, 49, 32, 49, 32, 48, 32, 48, 10, 48, 10]).calls = some 1 := by decide +kernel
example : (TextIn.read [97, 32, 58, 45, 32, 50, 123, 98, 61, 45, 49, 125, 46]).err = some 1 := by decide +kernel
end text
end PotasscoVerif.C04
