/-
  C06 — ground-text rendering is faithful and complete.
  Theorems about Model/TextOut.lean (tied to src/aspif_text.cpp by the `tw` correspondence).
-/
import PotasscoVerif.Model.TextOut
namespace PotasscoVerif.C06
open PotasscoVerif PotasscoVerif.TextOut
open PotasscoVerif.AspifOut (printInt printNat)

/-! ## the sum → count rewriting -/
theorem tdiv_nonpos (a w : Int) (ha : a ≤ 0) (hw : 0 < w) : Int.tdiv a w ≤ 0 := by
  have : a = -(-a) := by omega
  rw [this, Int.neg_tdiv, Int.tdiv_eq_ediv_of_nonneg (by omega)]
  have := Int.ediv_nonneg (a := -a) (b := w) (by omega) (by omega)
  omega

/-- **C06 (sum ≍ count)**: for every bound (positive, zero, negative, unreachable), every common weight `w > 0` and every
    number `n ≥ 0` of true literals, the sum `w·n` reaches the bound iff `n` reaches `(bound + w − 1) / w` computed with
    C++ (truncating) division — the count the writer emits has exactly the satisfaction condition of the sum. -/
theorem C06_count_equiv (bound w n : Int) (hw : 0 < w) (hn : 0 ≤ n) : (bound ≤ w * n ↔ Int.tdiv (bound + w - 1) w ≤ n) := by
  by_cases hb : 0 < bound
  · have hnum : 0 ≤ bound + w - 1 := by omega
    rw [Int.tdiv_eq_ediv_of_nonneg hnum]
    have hdiv := Int.mul_ediv_add_emod (bound + w - 1) w
    have hr0 := Int.emod_nonneg (bound + w - 1) (by omega : w ≠ 0)
    have hr1 := Int.emod_lt_of_pos (bound + w - 1) hw
    generalize (bound + w - 1) / w = q at *
    generalize (bound + w - 1) % w = r at *
    constructor
    · intro h
      by_cases hq : q ≤ n
      · exact hq
      · have : n + 1 ≤ q := by omega
        have h1 : w * (n + 1) ≤ w * q := Int.mul_le_mul_of_nonneg_left this (by omega)
        have h2 : w * (n + 1) = w * n + w := by rw [Int.mul_add, Int.mul_one]
        omega
    · intro h
      have h1 : w * q ≤ w * n := Int.mul_le_mul_of_nonneg_left h (by omega)
      omega
  · have hle : Int.tdiv (bound + w - 1) w ≤ 0 := by
      by_cases hnum : 0 ≤ bound + w - 1
      · rw [Int.tdiv_eq_ediv_of_nonneg hnum]
        have : (bound + w - 1) / w = 0 := Int.ediv_eq_zero_of_lt hnum (by omega)
        omega
      · exact tdiv_nonpos _ _ (by omega) hw
    have h0 : 0 ≤ w * n := Int.mul_nonneg (by omega) hn
    constructor
    · intro _; omega
    · intro _; omega

theorem foldl_min_le (r : List (Int × Int)) (m : Int) : r.foldl (fun m q => min m q.2) m ≤ m ∧ ∀ p ∈ r, r.foldl (fun m q => min m q.2) m ≤ p.2 := by
  induction r generalizing m with
  | nil => simp
  | cons a r ih =>
    simp only [List.foldl_cons, List.mem_cons]
    have h := ih (min m a.2)
    refine ⟨by have := h.1; omega, ?_⟩
    rintro p (hp | hp)
    · subst hp; have := h.1; omega
    · exact h.2 p hp

theorem foldl_max_ge (r : List (Int × Int)) (m : Int) : m ≤ r.foldl (fun m q => max m q.2) m ∧ ∀ p ∈ r, p.2 ≤ r.foldl (fun m q => max m q.2) m := by
  induction r generalizing m with
  | nil => simp
  | cons a r ih =>
    simp only [List.foldl_cons, List.mem_cons]
    have h := ih (max m a.2)
    refine ⟨by have := h.1; omega, ?_⟩
    rintro p (hp | hp)
    · subst hp; have := h.1; omega
    · exact h.2 p hp

/-- **C06 (when the rewriting applies)**: the writer stores a count only if ALL weights are equal to one positive value; in
    every other case (no literal, a zero weight, mixed weights, a negative weight) the sum is stored as given: there is no
    division by zero and nothing is rewritten that should not be. -/
theorem C06_count_only_if_uniform (ds : List Int) (ht : Nat) (head : List Nat) (bound : Int) (ws : List (Int × Int)) :
    (minW ws = maxW ws ∧ 0 < minW ws →
      (∀ p ∈ ws, p.2 = minW ws) ∧
      pushSum ds ht head bound ws = pushList (pushList (ds ++ [DRule, (ht : Int)]) (head.map Int.ofNat) ++ [2, Int.tdiv (bound + minW ws - 1) (minW ws)]) (ws.map (·.1))) ∧
    (¬ (minW ws = maxW ws ∧ 0 < minW ws) →
      pushSum ds ht head bound ws = pushWLits (pushList (ds ++ [DRule, (ht : Int)]) (head.map Int.ofNat) ++ [1, bound]) ws) := by
  constructor
  · rintro ⟨heq, hpos⟩
    constructor
    · intro p hp
      cases ws with
      | nil => cases hp
      | cons a r =>
        simp only [minW, maxW] at heq ⊢
        have h1 := foldl_min_le r a.2
        have h2 := foldl_max_ge r a.2
        simp only [List.mem_cons] at hp
        rcases hp with hp | hp
        · subst hp; omega
        · have := h1.2 p hp; have := h2.2 p hp; omega
    · unfold pushSum
      have : ((minW ws == maxW ws) && decide (0 < minW ws)) = true := by simp [heq, hpos]; rw [← heq]; exact hpos
      simp only [this, ↓reduceIte]
  · intro h
    unfold pushSum
    have : ¬ ((minW ws == maxW ws) = true ∧ 0 < minW ws) := by simpa using h
    simp only [Bool.and_eq_true, decide_eq_true_eq]
    rw [if_neg this]

/-! ## names -/
/-- **C06 (names)**: the name printed for an atom is the LAST one given to it; giving a name to one atom does not change
    another; an atom without a name prints as `x_<n>`. -/
theorem C06_name_lookup (t : TO) (id : Nat) (str : List Nat) :
    (t.addAtom id str).atomName id = str ∧
    (∀ j, j ≠ id → (∀ p ∈ t.names, p.2 < t.strings.length) → (t.addAtom id str).atomName j = t.atomName j) ∧
    ((t.names.find? (fun p => p.1 == id)) = none → t.atomName id = s "x_" ++ printNat id) := by
  refine ⟨?_, ?_, ?_⟩
  · simp [TO.addAtom, TO.atomName, TO.nameOf]
  · intro j hj hwf
    have hne : (id == j) = false := by simpa using fun e => hj e.symm
    simp only [TO.addAtom, TO.atomName, TO.nameOf, List.find?_cons, hne]
    cases hf : t.names.find? (fun p => p.1 == j) with
    | none => rfl
    | some p =>
      have hm := List.mem_of_find?_eq_some hf
      have := hwf p hm
      simp [List.getElem?_append_left this]
  · intro h
    simp [TO.atomName, TO.nameOf, h]

/-! ## totality -/
def isTheoryCall : Call → Bool
  | .theoryNum .. | .theorySym .. | .theoryCompound .. | .theoryElement .. | .theoryAtom .. => true
  | _ => false

theorem apply_noTheory (t : TO) (c : Call) (hc : isTheoryCall c = false) (hf : t.fail = false)
    (ha : t.theory.atoms.drop t.theory.fAtom = []) :
    (t.apply c).fail = false ∧ (t.apply c).theory.atoms.drop (t.apply c).theory.fAtom = [] := by
  unfold TO.apply
  rw [if_neg (by simp [hf])]
  cases c with
  | theoryNum => cases hc
  | theorySym => cases hc
  | theoryCompound => cases hc
  | theoryElement => cases hc
  | theoryAtom => cases hc
  | endStep =>
    have hv : t.visitTheories = t := by simp [TO.visitTheories, ha]
    simp only [hv, hf, Bool.false_eq_true, ↓reduceIte]
    refine ⟨trivial, ?_⟩
    split
    · rfl
    · exact ha
  | beginStep =>
    simp only
    split
    · split
      · refine ⟨hf, ?_⟩; simp [TheoryData.TD.update]
      · exact ⟨hf, ha⟩
    · exact ⟨hf, ha⟩
  | output str cond => simp only; split <;> exact ⟨hf, ha⟩
  | _ => exact ⟨hf, ha⟩

/-- **C06 (totality)**: rendering a program without theory directives never fails — whatever the heads, bodies, bounds,
    weights (also none, zero, huge), lists and steps are. (With theory directives the writer fails exactly on a redefined
    term/element id, an unknown term id, or a theory atom whose atom already has a name: see the model.) -/
theorem C06_total (cs : List Call) (h : ∀ c ∈ cs, isTheoryCall c = false) : (write cs).fail = false := by
  unfold write
  have gen : ∀ (cs : List Call) (t : TO), (∀ c ∈ cs, isTheoryCall c = false) → t.fail = false → t.theory.atoms.drop t.theory.fAtom = [] →
      (cs.foldl TO.apply t).fail = false := by
    intro cs
    induction cs with
    | nil => intro t _ hf _; exact hf
    | cons c r ih =>
      intro t hc hf ha
      have := apply_noTheory t c (hc c (by simp)) hf ha
      exact ih _ (fun c' h' => hc c' (by simp [h'])) this.1 this.2
  exact gen cs {} h rfl rfl

/-! ## the word buffer read back: one line per directive -/
theorem sepJoin_cons (sep x : List Nat) (r : List (List Nat)) (h : r ≠ []) : sepJoin sep (x :: r) = x ++ sep ++ sepJoin sep r := by
  cases r with
  | nil => exact absurd rfl h
  | cons y r' => rfl

/-- a separated list with an opening token that is printed only when there is at least one item -/
def opened (first next : List Nat) (xs : List (List Nat)) : List Nat := if xs.isEmpty then [] else first ++ sepJoin next xs

theorem joinLits_eq (t : TO) (next : List Nat) (items : List Int) (first acc : List Nat) :
    t.joinLits next items first acc = acc ++ opened first next (items.map t.litName) := by
  induction items generalizing first acc with
  | nil => simp [TO.joinLits, opened]
  | cons l r ih =>
    simp only [TO.joinLits, ih, List.map_cons, opened]
    cases r with
    | nil => simp [sepJoin]
    | cons l2 r' => simp [sepJoin_cons]

def wlitTxt (t : TO) (p : Int × Int) : List Nat := t.litName p.1 ++ [61] ++ printInt p.2

theorem joinWLits_eq (t : TO) (next : List Nat) (ws : List (Int × Int)) (first acc : List Nat) :
    t.joinWLits next (ws.flatMap (fun p => [p.1, p.2])) first acc = acc ++ opened first next (ws.map (wlitTxt t)) := by
  induction ws generalizing first acc with
  | nil => simp [TO.joinWLits, opened]
  | cons p r ih =>
    simp only [List.flatMap_cons, List.cons_append, List.nil_append, TO.joinWLits, ih, List.map_cons, opened, wlitTxt]
    cases r with
    | nil => simp [sepJoin]
    | cons q r' => simp [sepJoin_cons]

theorem litLoop_plain (t : TO) (items k : List Int) (first next : List Nat) :
    t.litLoop (items ++ k) items.length first next false = (opened first next (items.map t.litName), k) := by
  simp [TO.litLoop, joinLits_eq]

theorem flatPairs_length (ws : List (Int × Int)) : (ws.flatMap (fun p => [p.1, p.2])).length = ws.length * 2 := by
  induction ws with
  | nil => rfl
  | cons p r ih => simp [ih]; omega

theorem litLoop_weighted (t : TO) (ws : List (Int × Int)) (k : List Int) (first next : List Nat) :
    t.litLoop (ws.flatMap (fun p => [p.1, p.2]) ++ k) ws.length first next true = (opened first next (ws.map (wlitTxt t)), k) := by
  have h := flatPairs_length ws
  simp only [TO.litLoop, ↓reduceIte]
  rw [← h, List.take_left', List.drop_left', joinWLits_eq]
  · simp
  · rfl
  · rfl

/-- the directives the buffer can hold (after the sum→count rewriting) -/
inductive Dir where
  | rule (ht : Nat) (head : List Nat) (body : List Int)
  | count (ht : Nat) (head : List Nat) (bound : Int) (lits : List Int)
  | sum (ht : Nat) (head : List Nat) (bound : Int) (ws : List (Int × Int))
  | minimize (prio : Int) (ws : List (Int × Int))
  | project (atoms : List Nat)
  | shown (idx : Nat) (cond : List Int)
  | external (a v : Nat)
  | assume (lits : List Int)
  | heuristic (a ty : Nat) (bias : Int) (prio : Nat) (cond : List Int)
  | edge (s t : Int) (cond : List Int)
deriving Repr, DecidableEq

def ints (l : List Nat) : List Int := l.map Int.ofNat
def pairs (ws : List (Int × Int)) : List Int := ws.flatMap (fun p => [p.1, p.2])

/-- the words a directive occupies: type, then its fields (what `push…` appends) -/
def Dir.enc : Dir → List Int
  | .rule ht head body => DRule :: (ht : Int) :: (head.length : Int) :: (ints head ++ (0 :: (body.length : Int) :: body))
  | .count ht head b lits => DRule :: (ht : Int) :: (head.length : Int) :: (ints head ++ (2 :: b :: (lits.length : Int) :: lits))
  | .sum ht head b ws => DRule :: (ht : Int) :: (head.length : Int) :: (ints head ++ (1 :: b :: (ws.length : Int) :: pairs ws))
  | .minimize prio ws => DMinimize :: (ws.length : Int) :: (pairs ws ++ [prio])
  | .project atoms => DProject :: (atoms.length : Int) :: ints atoms
  | .shown idx cond => DOutput :: (idx : Int) :: (cond.length : Int) :: cond
  | .external a v => [DExternal, (a : Int), (v : Int)]
  | .assume lits => DAssume :: (lits.length : Int) :: lits
  | .heuristic a ty bias prio cond => DHeuristic :: (a : Int) :: (cond.length : Int) :: (cond ++ [bias, (prio : Int), (ty : Int)])
  | .edge a b cond => DEdge :: a :: b :: (cond.length : Int) :: cond

/-- the head of a rule line up to and including the `:-` that an empty head needs -/
def headText (t : TO) (ht : Nat) (head : List Nat) : List Nat :=
  let names := (ints head).map t.litName
  if head.isEmpty then (if ht ≠ 0 then s "{}" else []) ++ s ":- "
  else if ht ≠ 0 then [123] ++ sepJoin [59] names ++ [125] else sepJoin [124] names
/-- ` :- ` is needed between a non-empty head and a non-empty body -/
def neck (head : List Nat) : List Nat := if head.isEmpty then [] else s " :- "

/-- the line (without newline) the writer is meant to produce for a directive -/
def Dir.text (t : TO) : Dir → List Nat
  | .rule ht head body => headText t ht head ++ opened (neck head) (s ", ") (body.map t.litName) ++ [46]
  | .count ht head b lits => headText t ht head ++ neck head ++ printInt b ++ [123] ++ opened [] (s "; ") (lits.map t.litName) ++ [125, 46]
  | .sum ht head b ws => headText t ht head ++ neck head ++ printInt b ++ [123] ++ opened [] (s "; ") (ws.map (wlitTxt t)) ++ [125, 46]
  | .minimize prio ws => s "#minimize{" ++ opened [] (s "; ") (ws.map (wlitTxt t)) ++ s "}@" ++ printInt prio ++ [46]
  | .project atoms => s "#project{" ++ opened [] (s ", ") ((ints atoms).map t.litName) ++ s "}."
  | .shown idx cond => s "#show " ++ t.strings.getD idx [] ++ opened (s " : ") (s ", ") (cond.map t.litName) ++ [46]
  | .external a v => s "#external " ++ t.litName a ++ (if v = 0 then s ". [free]" else if v = 1 then s ". [true]" else if v = 3 then s ". [release]" else [46])
  | .assume lits => s "#assume{" ++ opened [] (s ", ") (lits.map t.litName) ++ s "}."
  | .heuristic a ty bias prio cond => s "#heuristic " ++ t.litName a ++ opened (s " : ") (s ", ") (cond.map t.litName) ++ s ". [" ++ printInt bias
      ++ (if prio ≠ 0 then [64] ++ printInt prio else []) ++ s ", " ++ heuName ty ++ [93]
  | .edge a b cond => s "#edge(" ++ printInt a ++ [44] ++ printInt b ++ [41] ++ opened (s " : ") (s ", ") (cond.map t.litName) ++ [46]

theorem ints_length (l : List Nat) : (ints l).length = l.length := by simp [ints]
theorem pairs_length (ws : List (Int × Int)) : (pairs ws).length = ws.length * 2 := flatPairs_length ws

theorem drop_ints (head : List Nat) (k : List Int) : (ints head ++ k).drop head.length = k := by
  have := ints_length head
  rw [← this, List.drop_left']; rfl
theorem take_ints (head : List Nat) (k : List Int) : (ints head ++ k).take head.length = ints head := by
  have := ints_length head
  rw [← this, List.take_left']; rfl

theorem headText_eq (t : TO) (ht : Nat) (head : List Nat) :
    (if head.length ≠ 0 then (if (ht : Int) ≠ 0 then [123] else []) ++ sepJoin (if (ht : Int) ≠ 0 then [59] else [124]) ((ints head).map t.litName)
        ++ (if (ht : Int) ≠ 0 then [125] else [])
      else (if (ht : Int) ≠ 0 then [123] else []) ++ (if (ht : Int) ≠ 0 then [125] else []) ++ s ":- ") = headText t ht head := by
  unfold headText
  have hht : ((ht : Int) ≠ 0) ↔ ht ≠ 0 := by omega
  cases head with
  | nil => by_cases h : ht = 0 <;> simp [h, s]
  | cons a r => by_cases h : ht = 0 <;> simp [h]

@[simp] theorem pop_cons (x : Int) (r : List Int) : pop (x :: r) = (x, r) := rfl
theorem popN_ints (head : List Nat) (k : List Int) : popN (ints head ++ k) head.length = (ints head, k) := by
  simp [popN, take_ints, drop_ints]

theorem heads_eq (t : TO) (ht : Nat) (head : List Nat) :
    (if (head.length != 0) = true then
        (if ((ht : Int) != 0) = true then [123] else []) ++ sepJoin (if ((ht : Int) != 0) = true then [59] else [124]) (List.map (fun a => t.litName a) (ints head))
          ++ (if ((ht : Int) != 0) = true then [125] else [])
      else (if ((ht : Int) != 0) = true then [123] else []) ++ (if ((ht : Int) != 0) = true then [125] else []) ++ s ":- ") = headText t ht head := by
  unfold headText
  cases head with
  | nil => by_cases h : ht = 0 <;> simp [h, s]
  | cons a r => by_cases h : ht = 0 <;> simp [h]

theorem neck_eq (head : List Nat) : (if (head.length != 0) = true then s " :- " else []) = neck head := by
  unfold neck; cases head <;> simp

theorem directive_rule (t : TO) (ht : Nat) (head : List Nat) (body k : List Int) :
    t.directive DRule ((ht : Int) :: (head.length : Int) :: (ints head ++ (0 :: (body.length : Int) :: (body ++ k)))) = ((Dir.rule ht head body).text t, k) := by
  unfold TO.directive
  simp only [beq_self_eq_true, ↓reduceIte, pop_cons, Int.toNat_natCast, popN_ints, litLoop_plain, Dir.text]
  unfold headText neck; cases head <;> by_cases h : ht = 0 <;> simp [h, s, ints]

theorem directive_count (t : TO) (ht : Nat) (head : List Nat) (b : Int) (lits k : List Int) :
    t.directive DRule ((ht : Int) :: (head.length : Int) :: (ints head ++ (2 :: b :: (lits.length : Int) :: (lits ++ k)))) = ((Dir.count ht head b lits).text t, k) := by
  unfold TO.directive
  have h20 : ((2 : Int) == 0) = false := by decide
  have h21 : ((2 : Int) == 1) = false := by decide
  simp only [beq_self_eq_true, ↓reduceIte, pop_cons, Int.toNat_natCast, popN_ints, litLoop_plain, Dir.text, h20, h21, Bool.false_eq_true]
  unfold headText neck; cases head <;> by_cases h : ht = 0 <;> simp [h, s, ints]

theorem directive_sum (t : TO) (ht : Nat) (head : List Nat) (b : Int) (ws : List (Int × Int)) (k : List Int) :
    t.directive DRule ((ht : Int) :: (head.length : Int) :: (ints head ++ (1 :: b :: (ws.length : Int) :: (pairs ws ++ k)))) = ((Dir.sum ht head b ws).text t, k) := by
  unfold TO.directive
  have h10 : ((1 : Int) == 0) = false := by decide
  simp only [beq_self_eq_true, ↓reduceIte, pop_cons, Int.toNat_natCast, popN_ints, Dir.text, h10, Bool.false_eq_true, pairs, litLoop_weighted]
  unfold headText neck; cases head <;> by_cases h : ht = 0 <;> simp [h, s, ints]

theorem dne (a b : Int) (h : a ≠ b) : (a == b) = false := by simpa using h

/-- **C06 (the buffer reads back)**: read with the writer's own cursor, the words of a directive followed by anything
    yield exactly the line the directive stands for, and the cursor stops exactly behind it. -/
theorem directive_enc (t : TO) (d : Dir) (k : List Int) : t.directive (d.enc.headD 0) (d.enc.tail ++ k) = (d.text t, k) := by
  cases d with
  | rule ht head body => simpa [Dir.enc] using directive_rule t ht head body k
  | count ht head b lits => simpa [Dir.enc] using directive_count t ht head b lits k
  | sum ht head b ws => simpa [Dir.enc] using directive_sum t ht head b ws k
  | minimize prio ws =>
    unfold TO.directive
    simp only [Dir.enc, List.headD_cons, List.tail_cons, List.cons_append, List.append_assoc, dne DMinimize DRule (by decide), beq_self_eq_true, Bool.false_eq_true, ↓reduceIte,
      pop_cons, Int.toNat_natCast, pairs, litLoop_weighted, Dir.text]
    simp
  | project atoms =>
    unfold TO.directive
    have := litLoop_plain t (ints atoms) k [] (s ", ")
    rw [ints_length] at this
    simp only [Dir.enc, List.headD_cons, List.tail_cons, List.cons_append, dne DProject DRule (by decide), dne DProject DMinimize (by decide), beq_self_eq_true, Bool.false_eq_true, ↓reduceIte,
      pop_cons, Int.toNat_natCast, this, Dir.text]
  | shown idx cond =>
    unfold TO.directive
    simp only [Dir.enc, List.headD_cons, List.tail_cons, List.cons_append, dne DOutput DRule (by decide), dne DOutput DMinimize (by decide), dne DOutput DProject (by decide),
      beq_self_eq_true, Bool.false_eq_true, ↓reduceIte, pop_cons, Int.toNat_natCast, litLoop_plain, Dir.text]
  | external a v =>
    unfold TO.directive
    simp only [Dir.enc, List.headD_cons, List.tail_cons, List.cons_append, List.nil_append, dne DExternal DRule (by decide), dne DExternal DMinimize (by decide),
      dne DExternal DProject (by decide), dne DExternal DOutput (by decide), beq_self_eq_true, Bool.false_eq_true, ↓reduceIte, pop_cons, Dir.text]
    congr 2
    by_cases h0 : v = 0
    · simp [h0]
    · by_cases h1 : v = 1
      · simp [h1]
      · by_cases h3 : v = 3
        · simp [h3]
        · have e0 : ((v : Int) == 0) = false := by simpa using fun e : (v : Int) = 0 => h0 (by omega)
          have e1 : ((v : Int) == 1) = false := by simpa using fun e : (v : Int) = 1 => h1 (by omega)
          have e3 : ((v : Int) == 3) = false := by simpa using fun e : (v : Int) = 3 => h3 (by omega)
          simp [h0, h1, h3, e0, e1, e3]
  | assume lits =>
    unfold TO.directive
    simp only [Dir.enc, List.headD_cons, List.tail_cons, List.cons_append, dne DAssume DRule (by decide), dne DAssume DMinimize (by decide), dne DAssume DProject (by decide),
      dne DAssume DOutput (by decide), dne DAssume DExternal (by decide), beq_self_eq_true, Bool.false_eq_true, ↓reduceIte, pop_cons, Int.toNat_natCast, litLoop_plain, Dir.text]
  | heuristic a ty bias prio cond =>
    unfold TO.directive
    simp only [Dir.enc, List.headD_cons, List.tail_cons, List.cons_append, List.append_assoc, dne DHeuristic DRule (by decide), dne DHeuristic DMinimize (by decide),
      dne DHeuristic DProject (by decide), dne DHeuristic DOutput (by decide), dne DHeuristic DExternal (by decide), dne DHeuristic DAssume (by decide),
      beq_self_eq_true, Bool.false_eq_true, ↓reduceIte, pop_cons, Int.toNat_natCast, litLoop_plain, Dir.text, List.nil_append]
    by_cases hp : prio = 0
    · simp [hp]
    · have : ((prio : Int) != 0) = true := by simpa using fun e : (prio : Int) = 0 => hp (by omega)
      simp [hp, this]
  | edge a b cond =>
    unfold TO.directive
    simp only [Dir.enc, List.headD_cons, List.tail_cons, List.cons_append, dne DEdge DRule (by decide), dne DEdge DMinimize (by decide),
      dne DEdge DProject (by decide), dne DEdge DOutput (by decide), dne DEdge DExternal (by decide), dne DEdge DAssume (by decide), dne DEdge DHeuristic (by decide),
      beq_self_eq_true, Bool.false_eq_true, ↓reduceIte, pop_cons, Int.toNat_natCast, litLoop_plain, Dir.text]

theorem enc_ne_nil (d : Dir) : ∃ x r, d.enc = x :: r ∧ x ≠ 0 := by
  cases d <;> exact ⟨_, _, rfl, by decide⟩

theorem writeLoop_encs (t : TO) (ds : List Dir) (f : Nat) (hf : ds.length < f) (acc : List Nat) :
    t.writeLoop f (ds.flatMap Dir.enc ++ [0]) acc = acc ++ ds.flatMap (fun d => d.text t ++ [10]) := by
  induction ds generalizing f acc with
  | nil =>
    cases f with
    | zero => simp at hf
    | succ f => simp [TO.writeLoop]
  | cons d r ih =>
    cases f with
    | zero => simp at hf
    | succ f =>
      obtain ⟨x, tl, he, hx⟩ := enc_ne_nil d
      have hd := directive_enc t d (r.flatMap Dir.enc ++ [0])
      rw [he] at hd
      simp only [List.headD_cons, List.tail_cons] at hd
      simp only [List.flatMap_cons, he, List.cons_append, List.append_assoc, TO.writeLoop]
      have hx0 : (x == 0) = false := by simpa using hx
      simp only [hx0, Bool.false_eq_true, ↓reduceIte, hd]
      rw [ih f (by simp at hf; omega)]
      simp

theorem encs_length (ds : List Dir) : ds.length ≤ (ds.flatMap Dir.enc).length := by
  induction ds with
  | nil => simp
  | cons d r ih =>
    obtain ⟨x, tl, he, _⟩ := enc_ne_nil d
    simp only [List.flatMap_cons, List.length_append, he, List.length_cons]
    omega

/-- the directive a call appends to the buffer (`none`: the call appends nothing — step markers, naming outputs, theory) -/
def dirOf (t : TO) : Call → Option Dir
  | .rule ht head body => some (.rule ht head body)
  | .sumRule ht head bound ws =>
    if minW ws = maxW ws ∧ 0 < minW ws then some (.count ht head (Int.tdiv (bound + minW ws - 1) (minW ws)) (ws.map (·.1)))
    else some (.sum ht head bound ws)
  | .minimize prio ws => some (.minimize prio ws)
  | .project atoms => some (.project atoms)
  | .output str cond =>
    if cond.length == 1 && 0 < cond.headD 0 && !str.isEmpty && isNameStart (str.headD 0) then none
    else some (.shown t.strings.length cond)
  | .external a v => some (.external a v)
  | .assume lits => some (.assume lits)
  | .heuristic a ty bias prio cond => some (.heuristic a ty bias prio cond)
  | .acycEdge a b cond => some (.edge a b cond)
  | _ => none

theorem pairs_eq (ws : List (Int × Int)) : ws.flatMap (fun p => [p.1, p.2]) = pairs ws := rfl

/-- every directive call appends exactly the words of its directive -/
theorem apply_dir (t : TO) (c : Call) (d : Dir) (hf : t.fail = false) (hd : dirOf t c = some d) : (t.apply c).dirs = t.dirs ++ d.enc := by
  unfold TO.apply
  rw [if_neg (by simp [hf])]
  cases c with
  | rule ht head body => simp only [dirOf, Option.some.injEq] at hd; subst hd; simp [pushList, Dir.enc, ints]
  | sumRule ht head bound ws =>
    simp only [dirOf] at hd
    have hu := C06_count_only_if_uniform t.dirs ht head bound ws
    split at hd
    · rename_i h; simp only [Option.some.injEq] at hd; subst hd
      simp only; rw [(hu.1 h).2]; simp [pushList, Dir.enc, ints]
    · rename_i h; simp only [Option.some.injEq] at hd; subst hd
      simp only; rw [hu.2 h]; simp [pushList, pushWLits, Dir.enc, ints, pairs]
  | minimize prio ws => simp only [dirOf, Option.some.injEq] at hd; subst hd; simp [pushWLits, Dir.enc, pairs]
  | project atoms => simp only [dirOf, Option.some.injEq] at hd; subst hd; simp [pushList, Dir.enc, ints]
  | output str cond =>
    simp only [dirOf] at hd
    split at hd
    · cases hd
    · rename_i h; simp only [Option.some.injEq] at hd; subst hd
      simp only [h, Bool.false_eq_true, ↓reduceIte]; simp [pushList, Dir.enc]
  | external a v => simp only [dirOf, Option.some.injEq] at hd; subst hd; simp [Dir.enc]
  | assume lits => simp only [dirOf, Option.some.injEq] at hd; subst hd; simp [pushList, Dir.enc]
  | heuristic a ty bias prio cond => simp only [dirOf, Option.some.injEq] at hd; subst hd; simp [pushList, Dir.enc]
  | acycEdge a b cond => simp only [dirOf, Option.some.injEq] at hd; subst hd; simp [pushList, Dir.enc]
  | _ => cases hd

/-- **C06 (one statement per directive, nothing else)**: when a step ends (no theory atom pending), the text written for
    it is exactly one line per buffered directive, in the order the directives were given, each line being the text that
    directive stands for under the names known at the end of the step — and nothing else. -/
theorem C06_statement_count (t : TO) (ds : List Dir) (hf : t.fail = false) (hd : t.dirs = ds.flatMap Dir.enc)
    (ha : t.theory.atoms.drop t.theory.fAtom = []) :
    (t.apply .endStep).out = t.out ++ ds.flatMap (fun d => d.text t ++ [10]) ∧ (t.apply .endStep).dirs = [] := by
  unfold TO.apply
  rw [if_neg (by simp [hf])]
  have hv : t.visitTheories = t := by simp [TO.visitTheories, ha]
  simp only [hv, hf, Bool.false_eq_true, ↓reduceIte]
  refine ⟨?_, trivial⟩
  rw [hd, writeLoop_encs t ds _ ?_ []]
  · simp
  · have := encs_length ds
    omega

/-- **C06 (rule lines)**: the line of a rule is its head (atoms separated by `|`, or `{…}` with `;` for a choice; `:- ` alone
    when the head is empty), then ` :- ` and the body when both head and body are non-empty, then `.`; aggregates are
    `bound{lit; …}` / `bound{lit=w; …}` and always carry both braces, also when empty. -/
theorem C06_rule_shape (t : TO) (ht : Nat) (head : List Nat) (body : List Int) (b : Int) (ws : List (Int × Int)) :
    (Dir.rule ht head body).text t = headText t ht head ++ opened (neck head) (s ", ") (body.map t.litName) ++ [46] ∧
    (Dir.rule ht [] []).text t = (if ht ≠ 0 then s "{}" else []) ++ s ":- " ++ [46] ∧
    (Dir.sum ht head b []).text t = headText t ht head ++ neck head ++ printInt b ++ s "{}." ∧
    (Dir.sum ht head b ws).text t = headText t ht head ++ neck head ++ printInt b ++ [123] ++ opened [] (s "; ") (ws.map (wlitTxt t)) ++ [125, 46] := by
  refine ⟨rfl, ?_, ?_, rfl⟩
  · simp [Dir.text, headText, opened, neck]
  · simp [Dir.text, opened, s]

/-! ### the model runs -/
example : (write [.initProgram false, .beginStep, .sumRule 0 [1] 5 [(2, 2), (3, 2)], .sumRule 0 [1] 1 [], .sumRule 1 [] 0 [(2, 0)], .minimize 0 [], .endStep]).out
    = s "x_1 :- 3{x_2; x_3}.\nx_1 :- 1{}.\n{}:- 0{x_2=0}.\n#minimize{}@0.\n" := by decide +kernel
example : (write [.initProgram false, .beginStep, .output (s "foo") [1], .rule 1 [1] [-2], .endStep]).out = s "{foo} :- not x_2.\n" := by decide +kernel
end PotasscoVerif.C06
