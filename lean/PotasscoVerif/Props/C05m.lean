/-
  C05 / C07 (continued) — both read modes of the smodels reader.  `C05_modes`: reading step by step (`accept`, then `parse(Incremental)`
  repeated while `more()`) delivers exactly the calls and the result of reading in one go, for EVERY input text and both settings of the
  clasp extension (as `C01_modes`; harness command `sri` drives the real reader step by step).
-/
import PotasscoVerif.Props.C01m
import PotasscoVerif.Lemmas.SmodelsRoundTrip2
namespace PotasscoVerif.C05m
open PotasscoVerif PotasscoVerif.CharStream PotasscoVerif.SmodelsIn PotasscoVerif.C01m
open PotasscoVerif.AspifIn (Result more pos)

attribute [local irreducible] AspifIn.pos SmodelsIn.ruleOf in
theorem rulesLoop_succ (ext : Bool) (f : Nat) (a : AS) (prio : Nat) (acc : List Call) : rulesLoop ext (f + 1) a prio acc =
    (match pos a with
     | .error l => (acc.reverse, .error l)
     | .ok (rt, a1) =>
       if rt = 0 then (acc.reverse, .ok a1) else
       match ruleOf ext rt prio a1 with
       | .error l => (acc.reverse, .error l)
       | .ok ((c, prio'), a2) => rulesLoop ext f a2 prio' (match c with | some c => c :: acc | none => acc)) := rfl

theorem pos_unflag (a : AS) : pos (unflag a) = pos a := posMax_unflag _ a

theorem rulesLoop_unflag (ext : Bool) (f : Nat) (a : AS) (prio : Nat) (acc : List Call) :
    rulesLoop ext f (unflag a) prio acc = rulesLoop ext f a prio acc := by
  cases f with
  | zero => rfl
  | succ f => rw [rulesLoop_succ, rulesLoop_succ, pos_unflag]

attribute [local irreducible] SmodelsIn.rulesLoop SmodelsIn.symbolsLoop SmodelsIn.compute SmodelsIn.extra in
theorem step_unflag (ext : Bool) (a : AS) : step ext (unflag a) = step ext a := by
  have e : rulesLoop ext ((unflag a).rest.length + 1) (unflag a) 0 [] = rulesLoop ext (a.rest.length + 1) a 0 [] := rulesLoop_unflag ext _ a 0 []
  unfold step
  rw [e]

theorem stepsLoop_unflag (ext : Bool) (f : Nat) (inc : Bool) (a : AS) (acc : List Call) :
    SmodelsIn.stepsLoop ext f inc (unflag a) acc = SmodelsIn.stepsLoop ext f inc a acc := by
  cases f with
  | zero => rfl
  | succ f => rw [SmRT.sm_stepsLoop_succ, SmRT.sm_stepsLoop_succ, step_unflag]

attribute [local irreducible] SmodelsIn.parseInc more in
theorem incLoop_succ (ext : Bool) (f : Nat) (inc : Bool) (a : AS) (acc : List Call) : SmodelsIn.incLoop ext (f + 1) inc a acc =
    (match (SmodelsIn.parseInc ext inc a).2 with
     | .error l => { calls := acc ++ (SmodelsIn.parseInc ext inc a).1, err := some l }
     | .ok a1 => if (more a1).1 then SmodelsIn.incLoop ext f inc (more a1).2 (acc ++ (SmodelsIn.parseInc ext inc a).1)
                 else { calls := acc ++ (SmodelsIn.parseInc ext inc a).1, err := none }) := rfl

theorem incLoop_eq (ext : Bool) (f : Nat) (inc : Bool) : ∀ (a : AS) (acc : List Call),
    SmodelsIn.incLoop ext f inc a acc = SmodelsIn.stepsLoop ext f inc a acc := by
  induction f with
  | zero => intro a acc; rfl
  | succ f ih =>
    intro a acc
    rw [incLoop_succ, SmRT.sm_stepsLoop_succ]
    unfold SmodelsIn.parseInc
    generalize step ext a = r
    obtain ⟨cs, e⟩ := r
    cases e with
    | error l => simp
    | ok a1 =>
      simp only [more_skipWs]
      by_cases h1 : ((more a1).1 && !inc) = true
      · simp only [h1, ↓reduceIte]
        simp [unflag]
      · simp only [h1, Bool.false_eq_true, ↓reduceIte]
        rw [more_unflag]
        have hm : more (more a1).2 = ((more a1).1, unflag (more a1).2) := more_skipWs a1
        rw [hm]
        by_cases h2 : (more a1).1 = true
        · simp only [h2, ↓reduceIte]
          rw [ih, stepsLoop_unflag]
          simp
        · simp [h2]

/-- **C05/C07 (both read modes)**: for every input text and both settings of the clasp extension, reading step by step delivers exactly the
    calls and the result of reading in one go. -/
theorem C05_modes (ext : Bool) (input : List Nat) : SmodelsIn.readInc ext input = SmodelsIn.read ext input := by
  unfold SmodelsIn.readInc SmodelsIn.read
  simp only [incLoop_eq]

end PotasscoVerif.C05m
