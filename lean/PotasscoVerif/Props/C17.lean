/-
  C17 — string builder content equals the appended text and never leaves its buffer.

  Model: Model/StringBuilder.lean.  The specification is stated here directly: the text after an operation is
  the concatenation (for the fixed kind: its longest prefix that fits `cap`), errno is raised iff something
  was cut, and no store index leaves the array it targets (`viol = false`), for every history.
-/
import PotasscoVerif.Model.StringBuilder
namespace PotasscoVerif.C17
open PotasscoVerif.StringBuilder

def isFixed (b : SB) : Bool := b.kind == .buf false

/-- representation invariant: the text fits the array it lives in, no store went astray. -/
structure Inv (b : SB) : Prop where
  noviol : b.viol = false
  sbo    : b.kind = .sbo → b.text.length ≤ 63
  buf    : ∀ d, b.kind = .buf d → b.text.length ≤ b.cap

/-- what appending `s` must give (the property). -/
def specText (b : SB) (s : List Nat) : List Nat := if isFixed b then (b.text ++ s).take b.cap else b.text ++ s
def specCut (b : SB) (s : List Nat) : Bool := isFixed b && decide (b.text.length + s.length > b.cap)

theorem take_fixed (t s : List Nat) (cap : Nat) (h : t.length ≤ cap) :
    t ++ s.take (min s.length (cap - t.length)) = (t ++ s).take cap := by
  rw [List.take_append, List.take_of_length_le h]
  congr 1
  by_cases hle : s.length ≤ cap - t.length
  · rw [Nat.min_eq_left hle, List.take_of_length_le (Nat.le_refl _), List.take_of_length_le hle]
  · rw [Nat.min_eq_right (by omega)]

theorem append_text (b : SB) (s : List Nat) (h : Inv b) : (b.append s).text = specText b s := by
  have hs := h.sbo; have hb := h.buf
  rcases b with ⟨kind, text, cap, errno, viol⟩
  rcases kind with _ | own | dyn
  · simp only [SB.append, specText, isFixed, SB.store]; split <;> simp
  · simp [SB.append, specText, isFixed]
  · have hle : text.length ≤ cap := hb dyn rfl
    cases dyn
    · simp only [SB.append, specText, isFixed, SB.store]
      simp [take_fixed text s cap hle]
    · simp only [SB.append, specText, isFixed, SB.store]
      split
      · rename_i hc
        have hf : cap - text.length ≥ s.length := by simpa using hc
        simp [Nat.min_eq_left hf]
      · simp

theorem append_errno (b : SB) (s : List Nat) (h : Inv b) : (b.append s).errno = (b.errno || specCut b s) := by
  have hb := h.buf
  rcases b with ⟨kind, text, cap, errno, viol⟩
  rcases kind with _ | own | dyn
  · simp only [SB.append, specCut, isFixed, SB.store]; split <;> simp
  · simp [SB.append, specCut, isFixed]
  · have hle : text.length ≤ cap := hb dyn rfl
    cases dyn
    · simp [SB.append, specCut, isFixed, SB.store]
    · simp only [SB.append, specCut, isFixed, SB.store]
      split
      · rename_i hc
        have hf : cap - text.length ≥ s.length := by simpa using hc
        have hno : ¬ (text.length + s.length > cap) := by omega
        simp [hno]
      · simp

theorem append_inv (b : SB) (s : List Nat) (h : Inv b) : Inv (b.append s) := by
  have hs := h.sbo; have hb := h.buf; have hv := h.noviol
  rcases b with ⟨kind, text, cap, errno, viol⟩
  simp only at hv; subst hv
  rcases kind with _ | own | dyn
  · have h63 : text.length ≤ 63 := hs rfl
    simp only [SB.append, SB.store, SB.maxIdx, SboCap]
    by_cases hc' : text.length + s.length ≤ 63
    · have hc : 63 - text.length ≥ s.length := by omega
      simp only [hc, ↓reduceIte]
      constructor
      · simp; exact decide_eq_false (by omega)
      · intro _; simp; omega
      · intro d hd; simp at hd
    · have hc : ¬ (63 - text.length ≥ s.length) := by omega
      simp only [hc, ↓reduceIte]
      constructor
      · rfl
      · intro hk; simp at hk
      · intro d hd; simp at hd
  · simp only [SB.append]
    constructor
    · rfl
    · intro hk; simp at hk
    · intro d hd; simp at hd
  · have hle : text.length ≤ cap := hb dyn rfl
    simp only [SB.append, SB.store, SB.maxIdx]
    by_cases hc : (cap - text.length ≥ s.length ∨ (!dyn) = true)
    · simp only [hc, ↓reduceIte]
      constructor
      · simp; exact decide_eq_false (by have := Nat.min_le_right s.length (cap - text.length); omega)
      · intro hk; simp at hk
      · intro d _; simp; have := Nat.min_le_right s.length (cap - text.length); omega
    · simp only [hc, ↓reduceIte]
      constructor
      · rfl
      · intro hk; simp at hk
      · intro d hd; simp at hd

theorem append_kind (b : SB) (s : List Nat) : isFixed (b.append s) = isFixed b ∧ (b.append s).cap = b.cap := by
  rcases b with ⟨kind, text, cap, errno, viol⟩
  rcases kind with _ | own | dyn
  · simp only [SB.append, isFixed, SB.store]; split <;> simp <;> decide
  · simp [SB.append, isFixed]
  · cases dyn
    · simp [SB.append, isFixed, SB.store]
    · simp only [SB.append, isFixed, SB.store]; split <;> simp <;> decide

theorem inv_ite (c : Prop) [Decidable c] (a b : SB) (ha : c → Inv a) (hb : ¬ c → Inv b) :
    Inv (if c then a else b) := by
  by_cases h : c
  · simp only [h, ↓reduceIte]; exact ha h
  · simp only [h, ↓reduceIte]; exact hb h

theorem inv_mk (k : Kind) (t : List Nat) (c : Nat) (e v : Bool) (hv : v = false)
    (hs : k = .sbo → t.length ≤ 63) (hb : ∀ d, k = .buf d → t.length ≤ c) :
    Inv { kind := k, text := t, cap := c, errno := e, viol := v } := ⟨hv, hs, hb⟩

theorem formatOut_inv (b : SB) (out : List Nat) (h : Inv b) : Inv (b.formatOut out) := by
  have hs := h.sbo; have hb := h.buf; have hv := h.noviol
  have happ := append_inv b out h
  rcases b with ⟨kind, text, cap, errno, viol⟩
  simp only at hv; subst hv
  rcases kind with _ | own | dyn
  · -- inline buffer
    have h63 : text.length ≤ 63 := hs rfl
    simp only [SB.formatOut, SB.free, SB.size, SB.store, SB.maxIdx, SboCap]
    refine inv_ite _ _ _ (fun hf => ?_) (fun hf => ?_)
    · refine inv_ite _ _ _ (fun _ => happ) (fun _ => inv_ite _ _ _ (fun _ => ?_) (fun _ => h))
      exact inv_mk _ _ _ _ _ rfl (by intro hk; cases hk) (by intro d hd; cases hd)
    · have hfree : 63 - text.length ≠ 0 := by simpa using hf
      refine inv_ite _ _ _ (fun hc => ?_) (fun _ => inv_ite _ _ _ (fun hn => inv_ite _ _ _ (fun hfit => ?_) (fun _ => ?_)) (fun _ => ?_))
      · exact inv_mk _ _ _ _ _ (by simp; exact decide_eq_false (by omega)) (by intro _; simp; omega) (by intro d hd; cases hd)
      · refine inv_mk _ _ _ _ _ ?_ (by intro _; simp; omega) (by intro d hd; cases hd)
        simp; exact ⟨decide_eq_false (by omega), decide_eq_false (by omega)⟩
      · exact inv_mk _ _ _ _ _ (by simp; exact decide_eq_false (by omega)) (by intro hk; cases hk) (by intro d hd; cases hd)
      · exact inv_mk _ _ _ _ _ (by simp; exact decide_eq_false (by omega)) (by intro _; exact h63) (by intro d hd; cases hd)
  · -- std::string
    simp only [SB.formatOut, SB.free, SB.size, SB.store, SB.maxIdx, Nat.sub_self, beq_self_eq_true, ↓reduceIte]
    refine inv_ite _ _ _ (fun _ => happ) (fun _ => inv_ite _ _ _ (fun _ => ?_) (fun _ => h))
    exact inv_mk _ _ _ _ _ (by simp) (by intro hk; cases hk) (by intro d hd; cases hd)
  · -- caller's array
    have hle : text.length ≤ cap := hb dyn rfl
    simp only [SB.formatOut, SB.free, SB.size, SB.store, SB.maxIdx]
    refine inv_ite _ _ _ (fun hf => ?_) (fun hf => ?_)
    · have hfull : cap - text.length = 0 := by simpa using hf
      refine inv_ite _ _ _ (fun _ => happ) (fun _ => inv_ite _ _ _ (fun _ => inv_ite _ _ _ (fun _ => ?_) (fun _ => ?_)) (fun _ => h))
      · exact inv_mk _ _ _ _ _ (by simp; exact decide_eq_false (by omega)) (by intro hk; cases hk) (by intro d _; exact hle)
      · exact inv_mk _ _ _ _ _ rfl (by intro hk; cases hk) (by intro d hd; cases hd)
    · have hfree : cap - text.length ≠ 0 := by simpa using hf
      refine inv_ite _ _ _ (fun hc => ?_) (fun _ => inv_ite _ _ _ (fun hn => inv_ite _ _ _ (fun hfit => ?_) (fun _ => ?_)) (fun _ => ?_))
      · exact inv_mk _ _ _ _ _ (by simp; exact decide_eq_false (by omega)) (by intro hk; cases hk) (by intro d _; simp; omega)
      · have hm1 := Nat.min_le_right out.length (cap - text.length)
        refine inv_mk _ _ _ _ _ ?_ (by intro hk; cases hk) (by intro d _; simp; omega)
        simp; exact ⟨decide_eq_false (by omega), decide_eq_false (by omega)⟩
      · exact inv_mk _ _ _ _ _ (by simp; exact decide_eq_false (by omega)) (by intro hk; cases hk) (by intro d hd; cases hd)
      · exact inv_mk _ _ _ _ _ (by simp; exact decide_eq_false (by omega)) (by intro hk; cases hk) (by intro d _; exact hle)

theorem text_ite (c : Prop) [Decidable c] (a b : SB) (t : List Nat) (ha : c → a.text = t) (hb : ¬ c → b.text = t) :
    (if c then a else b).text = t := by
  by_cases h : c
  · simp only [h, ↓reduceIte]; exact ha h
  · simp only [h, ↓reduceIte]; exact hb h

theorem take_all_of_le (t s : List Nat) (cap : Nat) (h : t.length + s.length ≤ cap) : (t ++ s).take cap = t ++ s :=
  List.take_of_length_le (by simp; omega)

/-- the formatting stage adds exactly the formatted text (for the fixed kind: what fits). -/
theorem formatOut_text (b : SB) (out : List Nat) (h : Inv b) : (b.formatOut out).text = specText b out := by
  have hs := h.sbo; have hb := h.buf
  have happ := append_text b out h
  rcases b with ⟨kind, text, cap, errno, viol⟩
  rcases kind with _ | own | dyn
  · have hspec : specText ⟨.sbo, text, cap, errno, viol⟩ out = text ++ out := by simp [specText, isFixed]
    rw [hspec] at happ ⊢
    simp only [SB.formatOut, SB.free, SB.size, SB.store, SB.maxIdx, SboCap]
    refine text_ite _ _ _ _ (fun _ => text_ite _ _ _ _ (fun _ => happ) (fun _ => text_ite _ _ _ _ (fun _ => rfl) (fun hn => ?_)))
      (fun _ => text_ite _ _ _ _ (fun _ => rfl) (fun _ => text_ite _ _ _ _ (fun _ => text_ite _ _ _ _ (fun _ => rfl) (fun _ => rfl)) (fun hn => ?_)))
    · have : out = [] := by cases out with | nil => rfl | cons x r => simp at hn
      simp [this]
    · have : out = [] := by cases out with | nil => rfl | cons x r => simp at hn
      simp [this]
  · have hspec : specText ⟨.str own, text, cap, errno, viol⟩ out = text ++ out := by simp [specText, isFixed]
    rw [hspec] at happ ⊢
    simp only [SB.formatOut, SB.free, SB.size, SB.store, SB.maxIdx, Nat.sub_self, beq_self_eq_true, ↓reduceIte]
    refine text_ite _ _ _ _ (fun _ => happ) (fun _ => text_ite _ _ _ _ (fun _ => rfl) (fun hn => ?_))
    have : out = [] := by cases out with | nil => rfl | cons x r => simp at hn
    simp [this]
  · have hle : text.length ≤ cap := hb dyn rfl
    simp only [SB.formatOut, SB.free, SB.size, SB.store, SB.maxIdx]
    cases dyn with
    | true =>
      have hspec : specText ⟨.buf true, text, cap, errno, viol⟩ out = text ++ out := by simp [specText, isFixed]
      rw [hspec] at happ ⊢
      refine text_ite _ _ _ _ (fun _ => text_ite _ _ _ _ (fun _ => happ) (fun _ => text_ite _ _ _ _ (fun _ => ?_) (fun hn => ?_)))
        (fun _ => text_ite _ _ _ _ (fun _ => rfl) (fun _ => text_ite _ _ _ _ (fun _ => text_ite _ _ _ _ (fun hfit => ?_) (fun _ => rfl)) (fun hn => ?_)))
      · simp
      · have : out = [] := by cases out with | nil => rfl | cons x r => simp at hn
        simp [this]
      · have hf : out.length ≤ cap - text.length := by simpa using hfit
        simp [Nat.min_eq_left hf]
      · have : out = [] := by cases out with | nil => rfl | cons x r => simp at hn
        simp [this]
    | false =>
      have hspec : specText ⟨.buf false, text, cap, errno, viol⟩ out = (text ++ out).take cap := by simp [specText, isFixed]
      rw [hspec] at happ ⊢
      refine text_ite _ _ _ _ (fun hf => text_ite _ _ _ _ (fun _ => happ) (fun _ => text_ite _ _ _ _ (fun _ => ?_) (fun hn => ?_)))
        (fun _ => text_ite _ _ _ _ (fun hc => ?_) (fun _ => text_ite _ _ _ _ (fun _ => text_ite _ _ _ _ (fun _ => ?_) (fun hx => ?_)) (fun hn => ?_)))
      · have hfull : cap - text.length = 0 := by simpa using hf
        simp
        rw [List.take_append, List.take_of_length_le hle]
        have : cap - text.length = 0 := hfull
        simp [this]
      · have : out = [] := by cases out with | nil => rfl | cons x r => simp at hn
        simp [this, List.take_of_length_le hle]
      · show text ++ out = (text ++ out).take cap
        rw [take_all_of_le text out cap (by omega)]
      · show text ++ out.take (min out.length (cap - text.length)) = (text ++ out).take cap
        exact take_fixed text out cap hle
      · simp at hx
      · have : out = [] := by cases out with | nil => rfl | cons x r => simp at hn
        simp [this, List.take_of_length_le hle]

theorem prop_ite (P : SB → Prop) (c : Prop) [Decidable c] (a b : SB) (ha : c → P a) (hb : ¬ c → P b) :
    P (if c then a else b) := by
  by_cases h : c
  · simp only [h, ↓reduceIte]; exact ha h
  · simp only [h, ↓reduceIte]; exact hb h

macro "kleaf" : tactic => `(tactic| first | exact ⟨rfl, rfl⟩ | (constructor <;> simp [isFixed]) | (split <;> constructor <;> simp [isFixed]))

theorem formatOut_kind (b : SB) (out : List Nat) : isFixed (b.formatOut out) = isFixed b ∧ (b.formatOut out).cap = b.cap := by
  have happ := append_kind b out
  rcases b with ⟨kind, text, cap, errno, viol⟩
  rcases kind with _ | own | dyn
  · simp only [SB.formatOut, SB.free, SB.size, SB.store, SB.maxIdx, SboCap]
    refine prop_ite (fun x => isFixed x = _ ∧ x.cap = _) _ _ _
      (fun _ => prop_ite (fun x => isFixed x = _ ∧ x.cap = _) _ _ _ (fun _ => happ)
        (fun _ => prop_ite (fun x => isFixed x = _ ∧ x.cap = _) _ _ _ (fun _ => by kleaf) (fun _ => by kleaf)))
      (fun _ => prop_ite (fun x => isFixed x = _ ∧ x.cap = _) _ _ _ (fun _ => by kleaf)
        (fun _ => prop_ite (fun x => isFixed x = _ ∧ x.cap = _) _ _ _
          (fun _ => prop_ite (fun x => isFixed x = _ ∧ x.cap = _) _ _ _ (fun _ => by kleaf) (fun _ => by kleaf))
          (fun _ => by kleaf)))
  · simp only [SB.formatOut, SB.free, SB.size, SB.store, SB.maxIdx, Nat.sub_self, beq_self_eq_true, ↓reduceIte]
    exact prop_ite (fun x => isFixed x = _ ∧ x.cap = _) _ _ _ (fun _ => happ)
      (fun _ => prop_ite (fun x => isFixed x = _ ∧ x.cap = _) _ _ _ (fun _ => by kleaf) (fun _ => by kleaf))
  · cases dyn with
    | false =>
      simp only [SB.formatOut, SB.free, SB.size, SB.store, SB.maxIdx]
      exact prop_ite (fun x => isFixed x = _ ∧ x.cap = _) _ _ _
        (fun _ => prop_ite (fun x => isFixed x = _ ∧ x.cap = _) _ _ _ (fun _ => happ)
          (fun _ => prop_ite (fun x => isFixed x = _ ∧ x.cap = _) _ _ _ (fun _ => by kleaf) (fun _ => by kleaf)))
        (fun _ => prop_ite (fun x => isFixed x = _ ∧ x.cap = _) _ _ _ (fun _ => by kleaf)
          (fun _ => prop_ite (fun x => isFixed x = _ ∧ x.cap = _) _ _ _ (fun _ => by kleaf) (fun _ => by kleaf)))
    | true =>
      simp only [SB.formatOut, SB.free, SB.size, SB.store, SB.maxIdx]
      exact prop_ite (fun x => isFixed x = _ ∧ x.cap = _) _ _ _
        (fun _ => prop_ite (fun x => isFixed x = _ ∧ x.cap = _) _ _ _ (fun _ => happ)
          (fun _ => prop_ite (fun x => isFixed x = _ ∧ x.cap = _) _ _ _ (fun _ => by kleaf) (fun _ => by kleaf)))
        (fun _ => prop_ite (fun x => isFixed x = _ ∧ x.cap = _) _ _ _ (fun _ => by kleaf)
          (fun _ => prop_ite (fun x => isFixed x = _ ∧ x.cap = _) _ _ _
            (fun _ => prop_ite (fun x => isFixed x = _ ∧ x.cap = _) _ _ _ (fun _ => by kleaf) (fun _ => by kleaf))
            (fun _ => by kleaf)))

/-- the reference: what the text must be after an operation (`none`: the operation must be refused). -/
def specOp (fixed : Bool) (cap : Nat) (t : List Nat) : Op → Option (List Nat)
  | .append s => some (if fixed then (t ++ s).take cap else t ++ s)
  | .num x => some (if fixed then (t ++ numText x).take cap else t ++ numText x)
  | .format p o h => some (if fixed then (t ++ p ++ (if h then o else [])).take cap else t ++ p ++ (if h then o else []))
  | .resize n c =>
    if n > t.length then (if fixed ∧ n > cap then none else some (t ++ List.replicate (n - t.length) c)) else some (t.take n)
  | .clear => some []

theorem take_take_append (x o : List Nat) (cap : Nat) : ((x.take cap) ++ o).take cap = (x ++ o).take cap := by
  by_cases h : x.length ≤ cap
  · rw [List.take_of_length_le h]
  · have h1 : (x.take cap).length = cap := by simp; omega
    rw [List.take_append_of_le_length (by omega), List.take_append_of_le_length (by omega), List.take_take, Nat.min_self]

theorem specText_fixed (b : SB) (s : List Nat) : specText b s = if isFixed b then (b.text ++ s).take b.cap else b.text ++ s := rfl

theorem resize_spec (b : SB) (n c : Nat) (h : Inv b) :
    (specOp (isFixed b) b.cap b.text (.resize n c) = none ↔ b.resize n c = none) ∧
    ∀ b', b.resize n c = some b' → specOp (isFixed b) b.cap b.text (.resize n c) = some b'.text ∧ Inv b' ∧
      isFixed b' = isFixed b ∧ b'.cap = b.cap := by
  have hs := h.sbo; have hbb := h.buf; have hv := h.noviol
  have happ := fun s => append_text b s h
  have hinv := fun s => append_inv b s h
  have hkind := fun s => append_kind b s
  rcases b with ⟨kind, text, cap, errno, viol⟩
  simp only at hv; subst hv
  unfold SB.resize specOp
  simp only
  by_cases hgt : n > text.length
  · simp only [hgt, ↓reduceIte]
    rcases kind with _ | own | dyn
    · simp only [isFixed, SB.size]
      refine ⟨by simp, ?_⟩
      intro b' hb'
      have hb'' : b' = SB.append ⟨.sbo, text, cap, errno, false⟩ (List.replicate (n - text.length) c) := by simpa using hb'.symm
      subst hb''
      refine ⟨?_, hinv _, (hkind _).1, (hkind _).2⟩
      rw [happ]; simp [specText, isFixed]
    · simp only [isFixed, SB.size]
      refine ⟨by simp, ?_⟩
      intro b' hb'
      have hb'' : b' = SB.append ⟨.str own, text, cap, errno, false⟩ (List.replicate (n - text.length) c) := by simpa using hb'.symm
      subst hb''
      refine ⟨?_, hinv _, (hkind _).1, (hkind _).2⟩
      rw [happ]; simp [specText, isFixed]
    · cases dyn with
      | true =>
        simp only [isFixed, SB.size]
        refine ⟨by simp, ?_⟩
        intro b' hb'
        have hb'' : b' = SB.append ⟨.buf true, text, cap, errno, false⟩ (List.replicate (n - text.length) c) := by simpa using hb'.symm
        subst hb''
        refine ⟨?_, hinv _, (hkind _).1, (hkind _).2⟩
        rw [happ]; simp [specText, isFixed]
      | false =>
        have hle : text.length ≤ cap := hbb false rfl
        simp only [isFixed, SB.size]
        by_cases hbig : n > cap
        · simp [hbig]
        · simp only [hbig, and_false, false_and, ↓reduceIte]
          refine ⟨by simp, ?_⟩
          intro b' hb'
          have hb'' : b' = SB.append ⟨.buf false, text, cap, errno, false⟩ (List.replicate (n - text.length) c) := by simpa using hb'.symm
          subst hb''
          refine ⟨?_, hinv _, (hkind _).1, (hkind _).2⟩
          rw [happ]; simp only [specText, isFixed, beq_self_eq_true, ↓reduceIte]
          rw [take_all_of_le _ _ _ (by simp; omega)]
  · simp only [hgt, ↓reduceIte]
    by_cases hlt : n < text.length
    · simp only [hlt, ↓reduceIte]
      refine ⟨by simp, ?_⟩
      intro b' hb'; simp only [Option.some.injEq] at hb'; subst hb'
      refine ⟨rfl, ?_, rfl, rfl⟩
      constructor
      · simp only [SB.store, SB.maxIdx]
        rcases kind with _ | own | dyn
        · have h63 : text.length ≤ 63 := hs rfl
          simp; exact decide_eq_false (by omega)
        · simp [List.length_take]; omega
        · have hle : text.length ≤ cap := hbb dyn rfl
          simp; exact decide_eq_false (by omega)
      · intro hk
        have h63 : text.length ≤ 63 := hs hk
        simp [SB.store]; omega
      · intro d hk
        have hle : text.length ≤ cap := hbb d hk
        simp [SB.store]; omega
    · simp only [hlt, ↓reduceIte]
      refine ⟨by simp, ?_⟩
      intro b' hb'; simp only [Option.some.injEq] at hb'; subst hb'
      have : n = text.length := by omega
      exact ⟨by simp [this], h, rfl, rfl⟩

/-- **one operation**: the model refuses exactly what the reference refuses; otherwise its text is the
    reference text, the invariant (incl. "no store outside its array") is kept, and kind/capacity persist. -/
theorem step_spec (b : SB) (op : Op) (h : Inv b) :
    (specOp (isFixed b) b.cap b.text op = none ↔ b.step op = none) ∧
    ∀ b', b.step op = some b' → specOp (isFixed b) b.cap b.text op = some b'.text ∧ Inv b' ∧
      isFixed b' = isFixed b ∧ b'.cap = b.cap := by
  have hb0 : Inv { b with errno := false } := ⟨h.noviol, h.sbo, h.buf⟩
  have hfx : isFixed { b with errno := false } = isFixed b := rfl
  cases op with
  | append s =>
    refine ⟨by simp [specOp, SB.step], ?_⟩
    intro b' hb'; simp only [SB.step, Option.some.injEq] at hb'; subst hb'
    have ht := append_text _ s hb0
    have hk := append_kind { b with errno := false } s
    exact ⟨by rw [ht, specText_fixed]; rfl, append_inv _ s hb0, hk.1, hk.2⟩
  | num x =>
    refine ⟨by simp [specOp, SB.step], ?_⟩
    intro b' hb'; simp only [SB.step, Option.some.injEq] at hb'; subst hb'
    have ht := append_text _ (numText x) hb0
    have hk := append_kind { b with errno := false } (numText x)
    exact ⟨by rw [ht, specText_fixed]; rfl, append_inv _ _ hb0, hk.1, hk.2⟩
  | format p o hs =>
    refine ⟨by simp [specOp, SB.step], ?_⟩
    intro b' hb'; simp only [SB.step, Option.some.injEq] at hb'; subst hb'
    unfold SB.appendFormat
    -- the prefix stage
    have hpre : ∀ b1, b1 = (if p.isEmpty then { b with errno := false } else ({ b with errno := false } : SB).append p) →
        Inv b1 ∧ b1.text = (if isFixed b then (b.text ++ p).take b.cap else b.text ++ p) ∧ isFixed b1 = isFixed b ∧ b1.cap = b.cap := by
      intro b1 e
      by_cases hp : p.isEmpty = true
      · have : p = [] := by simpa using hp
        subst this
        simp only [List.isEmpty_nil, ↓reduceIte] at e; subst e
        refine ⟨hb0, ?_, rfl, rfl⟩
        by_cases hf : isFixed b = true
        · have hle : b.text.length ≤ b.cap := by
            unfold isFixed at hf; have := h.buf false (by simpa using hf); exact this
          simp [hf, List.take_of_length_le hle]
        · simp [hf]
      · simp only [hp, Bool.false_eq_true, ↓reduceIte] at e; subst e
        have hk := append_kind { b with errno := false } p
        exact ⟨append_inv _ p hb0, by rw [append_text _ p hb0, specText_fixed]; rfl, hk.1, hk.2⟩
    obtain ⟨hi1, ht1, hf1, hc1⟩ := hpre _ rfl
    generalize (if p.isEmpty then { b with errno := false } else ({ b with errno := false } : SB).append p) = b1 at hi1 ht1 hf1 hc1
    cases hs with
    | false =>
      simp only [Bool.not_false, ↓reduceIte, specOp, Bool.false_eq_true, List.append_nil]
      exact ⟨by rw [ht1], hi1, hf1, hc1⟩
    | true =>
      simp only [Bool.not_true, Bool.false_eq_true, ↓reduceIte, specOp]
      have hk := formatOut_kind b1 o
      refine ⟨?_, formatOut_inv b1 o hi1, hk.1.trans hf1, hk.2.trans hc1⟩
      rw [formatOut_text b1 o hi1, specText_fixed, hf1, hc1, ht1]
      by_cases hf : isFixed b = true
      · simp only [hf, ↓reduceIte]; rw [take_take_append]
      · simp [hf]
  | resize n c =>
    have := resize_spec { b with errno := false } n c hb0
    exact this
  | clear =>
    have h0 := resize_spec { b with errno := false } 0 0 hb0
    have hsp : specOp (isFixed b) b.cap b.text .clear = specOp (isFixed b) b.cap b.text (.resize 0 0) := by
      simp [specOp]
    rw [hsp]
    exact h0

/-! ### the property over whole histories -/

/-- run a history; a refused operation (exception) leaves the builder unchanged. -/
def runSB : SB → List Op → SB
  | b, [] => b
  | b, op :: ops => match b.step op with
    | some b' => runSB b' ops
    | none => runSB b ops

/-- the reference text after a history. -/
def specRun (fixed : Bool) (cap : Nat) : List Nat → List Op → List Nat
  | t, [] => t
  | t, op :: ops => match specOp fixed cap t op with
    | some t' => specRun fixed cap t' ops
    | none => specRun fixed cap t ops

theorem run_spec : ∀ (ops : List Op) (b : SB), Inv b →
    Inv (runSB b ops) ∧ (runSB b ops).text = specRun (isFixed b) b.cap b.text ops := by
  intro ops
  induction ops with
  | nil => intro b h; exact ⟨h, rfl⟩
  | cons op ops ih =>
    intro b h
    have hst := step_spec b op h
    simp only [runSB, specRun]
    cases hs : b.step op with
    | none =>
      have : specOp (isFixed b) b.cap b.text op = none := hst.1.mpr hs
      simp only [this]
      exact ih b h
    | some b' =>
      obtain ⟨h1, h2, h3, h4⟩ := hst.2 b' hs
      simp only [h1]
      have := ih b' h2
      rw [h3, h4] at this
      exact this

/-- **C17.** For every history of appends (strings, character runs, numbers, formats), resizes and clears
    on a builder of any of the four kinds and any capacity: the text is exactly the concatenation of
    everything appended after the initial content (`specRun`: for the fixed-array kind the longest prefix
    that fits its capacity, and a resize beyond the capacity is refused), and no store of the run left the
    array it targeted (`viol = false`; for the fixed kind the text never exceeds the caller's `cap = n-1`
    characters plus the terminating NUL). -/
theorem C17_history (ops : List Op) (b : SB) (hinit : Inv b) :
    (runSB b ops).text = specRun (isFixed b) b.cap b.text ops ∧ (runSB b ops).viol = false ∧ Inv (runSB b ops) :=
  let r := run_spec ops b hinit
  ⟨r.2, r.1.noviol, r.1⟩

/-- the four ways to create a builder satisfy the invariant (initial content of a caller's string: any). -/
theorem C17_init : Inv mkSbo ∧ (∀ init, Inv (mkStr init)) ∧ (∀ n d, Inv (mkBuf n d)) := by
  refine ⟨?_, fun init => ?_, fun n d => ?_⟩
  · constructor
    · rfl
    · intro _; simp [mkSbo]
    · intro d hd; simp [mkSbo] at hd
  · constructor
    · rfl
    · intro hk; simp [mkStr] at hk
    · intro d hd; simp [mkStr] at hd
  · constructor
    · rfl
    · intro hk; simp [mkBuf] at hk
    · intro d' _; simp [mkBuf]

/-- truncation is signalled exactly when something was cut (single append; formats likewise through
    `formatOut`'s append path), and only the fixed kind ever cuts. -/
theorem C17_truncation (b : SB) (s : List Nat) (h : Inv b) :
    (b.append s).errno = (b.errno || (isFixed b && decide (b.text.length + s.length > b.cap))) ∧
    (isFixed b = false → (b.append s).text = b.text ++ s) := by
  refine ⟨append_errno b s h, ?_⟩
  intro hf
  rw [append_text b s h, specText_fixed, hf]; simp

theorem errno_ite (c : Prop) [Decidable c] (a b : SB) (e : Bool) (ha : c → a.errno = e) (hb : ¬ c → b.errno = e) :
    (if c then a else b).errno = e := by
  split
  · rename_i h; exact ha h
  · rename_i h; exact hb h

/-- the formatting stage signals truncation exactly when the formatted text does not fit a fixed array -/
theorem formatOut_errno (b : SB) (out : List Nat) (h : Inv b) : (b.formatOut out).errno = (b.errno || specCut b out) := by
  have hb := h.buf
  have happ := append_errno b out h
  rcases b with ⟨kind, text, cap, errno, viol⟩
  rcases kind with _ | own | dyn
  · have hc : specCut ⟨.sbo, text, cap, errno, viol⟩ out = false := by simp [specCut, isFixed]
    rw [hc] at happ ⊢
    simp only [SB.formatOut, SB.free, SB.size, SB.store, SB.maxIdx, SboCap]
    (repeat' (refine errno_ite _ _ _ _ (fun _ => ?_) (fun _ => ?_))) <;> first | exact happ | rfl | simp [SB.store]
  · have hc : specCut ⟨.str own, text, cap, errno, viol⟩ out = false := by simp [specCut, isFixed]
    rw [hc] at happ ⊢
    simp only [SB.formatOut, SB.free, SB.size, SB.store, SB.maxIdx]
    (repeat' (refine errno_ite _ _ _ _ (fun _ => ?_) (fun _ => ?_))) <;> first | exact happ | rfl | simp [SB.store]
  · have hle : text.length ≤ cap := hb dyn rfl
    cases dyn with
    | true =>
      have hc : specCut ⟨.buf true, text, cap, errno, viol⟩ out = false := by simp [specCut, isFixed]
      rw [hc] at happ ⊢
      simp only [SB.formatOut, SB.free, SB.size, SB.store, SB.maxIdx]
      (repeat' (refine errno_ite _ _ _ _ (fun _ => ?_) (fun _ => ?_))) <;> first | exact happ | rfl | (congr 1; apply decide_eq_decide.mpr; omega) | (simp_all [SB.store]; first | omega | (congr 1; apply decide_eq_decide.mpr; omega) | skip)
    | false =>
      have hc : specCut ⟨.buf false, text, cap, errno, viol⟩ out = decide (text.length + out.length > cap) := by simp [specCut, isFixed]
      rw [hc] at happ ⊢
      simp only [SB.formatOut, SB.free, SB.size, SB.store, SB.maxIdx]
      (repeat' (refine errno_ite _ _ _ _ (fun _ => ?_) (fun _ => ?_))) <;> first | exact happ | rfl | (congr 1; apply decide_eq_decide.mpr; omega) | (simp_all [SB.store]; first | omega | (congr 1; apply decide_eq_decide.mpr; omega) | skip)

/-- **truncation of formatted appends**: `appendFormat` (literal prefix + one conversion) signals ERANGE exactly when prefix plus
    formatted text do not fit a fixed caller array; the other kinds never signal it. -/
theorem C17_format_truncation (b : SB) (pre out : List Nat) (hasSpec : Bool) (h : Inv b) :
    (b.appendFormat pre out hasSpec).errno =
      (b.errno || (isFixed b && decide (b.text.length + pre.length + (if hasSpec then out.length else 0) > b.cap))) := by
  unfold SB.appendFormat
  have hk := append_kind b pre
  have hbuf := h.buf
  -- the state after the literal prefix
  have hpre : ∀ b1, b1 = (if pre.isEmpty then b else b.append pre) → Inv b1 ∧ isFixed b1 = isFixed b ∧ b1.cap = b.cap ∧
      b1.errno = (b.errno || specCut b pre) ∧ b1.text = specText b pre := by
    intro b1 hb1
    by_cases hp : pre.isEmpty = true
    · have : pre = [] := by simpa using hp
      subst this
      simp only [List.isEmpty_nil, ↓reduceIte] at hb1
      subst hb1
      refine ⟨h, rfl, rfl, by simp [specCut]; intro _ hgt; have := hbuf false (by simpa [isFixed] using ‹isFixed b1 = true›); omega, ?_⟩
      simp only [specText, List.append_nil]
      split
      · rename_i hf; exact (List.take_of_length_le (hbuf false (by simpa [isFixed] using hf))).symm
      · rfl
    · simp only [hp, Bool.false_eq_true, ↓reduceIte] at hb1
      subst hb1
      exact ⟨append_inv b pre h, hk.1, hk.2, append_errno b pre h, append_text b pre h⟩
  obtain ⟨hi1, hf1, hc1, he1, ht1⟩ := hpre _ rfl
  by_cases hs : hasSpec = true
  · simp only [hs, Bool.not_true, Bool.false_eq_true, ↓reduceIte]
    rw [formatOut_errno _ out hi1, he1]
    simp only [specCut, hf1, hc1, ht1, specText]
    cases hfx : isFixed b with
    | false => simp
    | true =>
      have hle := hbuf false (by simpa [isFixed] using hfx)
      simp only [Bool.true_and, ↓reduceIte, List.length_take, List.length_append]
      by_cases h1 : b.text.length + pre.length > b.cap
      · have : min b.cap (b.text.length + pre.length) = b.cap := by omega
        simp [h1]; omega
      · have : min b.cap (b.text.length + pre.length) = b.text.length + pre.length := by omega
        simp [h1, this]
  · have hs' : hasSpec = false := by simpa using hs
    simp only [hs', Bool.not_false, ↓reduceIte, Nat.add_zero]
    rw [he1]; rfl

/-! non-vacuity -/
example : (runSB (mkBuf 5 false) [.append [97, 98, 99], .format [100] [101, 102] true, .num (-7)]).text = [97, 98, 99, 100] := by decide
example : (runSB mkSbo [.append (List.replicate 63 120), .format [] [65] true]).kind = .str true := by decide

end PotasscoVerif.C17
