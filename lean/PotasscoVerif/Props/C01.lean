/-
  C01 — aspif writer and reader are inverses.

  Models: Model/AspifOut.lean (writer), Model/AspifIn.lean (reader, over the abstract character stream).

  FULL STATEMENT, PROVED (`C01_write_read`):
      WFProg inc steps → AspifIn.read (AspifOut.write (progCalls inc steps)) = { calls := progCalls inc (steps.map (·.map norm)), err := none }
  for every program (any directives of any kind, any number of steps — several only when incremental —, arguments anywhere in
  the documented ranges `WFw`, lists and strings of any length < 2^32, strings of any bytes but NUL); `norm` drops the
  literals of weight 0 of weight rules and minimize statements, the one permitted difference.
  `C01_read_write_read`: the "equivalently" form for texts produced by the writer: writing what was read and reading it again
  reproduces the same calls (`norm` is idempotent and preserves `WFw`).

  The proof composes (Lemmas/AspifRoundTrip*.lean): number round trip (Lemmas/Decimal.lean) → fields → counted lists /
  length-prefixed strings → each directive kind → the directive loop of a step → the step loop → header.
  Buffer independence (the reader runs on `BufferedStream`, the theorem on the abstract character stream) is C09
  (`C09_transparent`), cited not re-proved; both read modes differ only in who drives the step loop (checked by the
  correspondence run in both modes).
  Token-level statements kept as theorems of their own:
    * `C01_number_roundtrip`, `C01_pos_roundtrip`, `C01_blanks_skipped`.
-/
import PotasscoVerif.Lemmas.AspifRoundTrip2
namespace PotasscoVerif.C01
open PotasscoVerif.AspifOut PotasscoVerif.CharStream PotasscoVerif.Decimal
open PotasscoVerif.BufferedStream (isWs I64MAX)

theorem C01_number_roundtrip (a : AS) (v : Int) (ws k : List Nat) (hr : a.rest = ws ++ (printInt v ++ k))
    (hws : ∀ c ∈ ws, isWs c = true) (hk : NDS k) (hv : v.natAbs ≤ I64MAX) :
    ∃ a', a.matchInt false = (.val v, a') ∧ a'.rest = k :=
  matchInt_printInt a v ws k hr hws hk hv

theorem C01_blanks_skipped (a : AS) (ws r : List Nat) (hr : a.rest = ws ++ r) (hws : ∀ c ∈ ws, isWs c = true)
    (hnw : NWS r) : a.skipWs.rest = r :=
  skipWs_spec a ws r hr hws hnw

/-- the reader's `matchPos` on a written unsigned number. -/
theorem C01_pos_roundtrip (a : AS) (n : Nat) (ws k : List Nat) (hr : a.rest = ws ++ (printNat n ++ k))
    (hws : ∀ c ∈ ws, isWs c = true) (hk : NDS k) (hn : n ≤ U32MAX) :
    ∃ a', AspifIn.pos a = .ok (n, a') ∧ a'.rest = k := by
  have hp : printInt (n : Int) = printNat n := by simp [printInt]
  obtain ⟨a', h1, h2⟩ := matchInt_printInt a (n : Int) ws k (by rw [hp]; exact hr) hws hk
    (by simp [U32MAX, I64MAX] at *; omega)
  refine ⟨a', ?_, h2⟩
  simp [AspifIn.pos, AspifIn.posMax, AspifIn.intIn, h1, U32MAX] at *
  have hc : ((n : Int) ≤ 4294967295) := by omega
  simp [hc, Functor.map, Except.map]

/-! ### the round trip -/
open PotasscoVerif.AspifRT in
/-- **C01**: read ∘ write = identity up to weight-0 literals, for every well-formed program. -/
theorem C01_write_read (inc : Bool) (steps : List (List Call)) (h : WFProg inc steps) :
    AspifIn.read (write (progCalls inc steps)) = { calls := progCalls inc (steps.map (fun st => st.map norm)), err := none } :=
  write_read inc steps h

open PotasscoVerif.AspifRT in
theorem norm_idem (c : Call) : norm (norm c) = norm c := by
  cases c <;> simp [norm]

open PotasscoVerif.AspifRT in
theorem norm_wf (c : Call) (h : WFw c) : WFw (norm c) := by
  cases c with
  | sumRule ht head b ws =>
    obtain ⟨h1, h2, h3, h4, h5, h6⟩ := h
    exact ⟨h1, h2, h3, h4, Nat.le_trans (List.length_filter_le _ _) h5, fun p hp => h6 p (List.mem_filter.mp hp).1⟩
  | minimize p ws =>
    obtain ⟨h1, h2, h3⟩ := h
    exact ⟨h1, Nat.le_trans (List.length_filter_le _ _) h2, fun p hp => h3 p (List.mem_filter.mp hp).1⟩
  | _ => exact h

open PotasscoVerif.AspifRT in
theorem norm_dir (c : Call) (h : isDirective c = true) : isDirective (norm c) = true := by
  cases c <;> first | (cases h; done) | rfl

open PotasscoVerif.AspifRT in
/-- the "equivalently" form: what was read from the writer's text, written and read again, is the same call sequence -/
theorem C01_read_write_read (inc : Bool) (steps : List (List Call)) (h : WFProg inc steps) :
    AspifIn.read (write (AspifIn.read (write (progCalls inc steps))).calls) = AspifIn.read (write (progCalls inc steps)) := by
  rw [C01_write_read inc steps h]
  have h2 : WFProg inc (steps.map (fun st => st.map norm)) := by
    refine ⟨by simpa using h.nonempty, by simpa using h.single, ?_⟩
    intro st hst c hc
    simp only [List.mem_map] at hst
    obtain ⟨st0, hst0, rfl⟩ := hst
    simp only [List.mem_map] at hc
    obtain ⟨c0, hc0, rfl⟩ := hc
    exact ⟨norm_dir c0 (h.calls st0 hst0 c0 hc0).1, norm_wf c0 (h.calls st0 hst0 c0 hc0).2⟩
  rw [C01_write_read inc _ h2]
  simp [List.map_map, Function.comp_def, norm_idem]

/-! non-vacuity / sanity: a complete two-step program with every directive kind round-trips in the model -/

def exProgram : List Call :=
  [.initProgram true, .beginStep,
   .rule 1 [1, 2147483647] [-2, 3], .sumRule 0 [] (-2147483648) [(1, 2), (-2, 2147483647)],
   .minimize (-1) [(1, -5), (-3, 7)], .project [], .output [97, 32, 10, 98] [1], .external 3 2, .assume [-1],
   .heuristic 4 5 (-7) 2147483647 [2], .acycEdge 0 2147483647 [], .theoryNum 4294967295 (-3),
   .theorySym 0 [120, 255], .theoryCompound 1 (-3) [0, 4294967295], .theoryElement 2 [1] [-1],
   .theoryAtom 0 1 [2] none, .theoryAtom 5 1 [] (some (3, 4294967295)),
   .endStep, .beginStep, .rule 0 [7] [], .endStep]

example : AspifIn.read (write exProgram) = { calls := exProgram, err := none } := by decide +kernel

/-- the hypotheses of `C01_write_read` are met by that program (every directive kind, extreme values, two steps) -/
def exSteps : List (List Call) :=
  [[.rule 1 [1, 2147483647] [-2, 3], .sumRule 0 [] (-2147483648) [(1, 2), (-2, 2147483647), (3, 0)],
    .minimize (-1) [(1, -5), (-3, 7)], .project [], .output [97, 32, 10, 98] [1], .external 3 2, .assume [-1],
    .heuristic 4 5 (-7) 2147483647 [2], .acycEdge 0 2147483647 [], .theoryNum 4294967295 (-3),
    .theorySym 0 [120, 255], .theoryCompound 1 (-3) [0, 4294967295], .theoryElement 2 [1] [-1],
    .theoryAtom 0 1 [2] none, .theoryAtom 5 1 [] (some (3, 4294967295))], [.rule 0 [7] []]]

open PotasscoVerif.AspifRT in
example : WFProg true exSteps := by
  refine ⟨by decide, by decide, ?_⟩
  intro st hst c hc
  simp only [exSteps, List.mem_cons, List.not_mem_nil, or_false] at hst
  rcases hst with rfl | rfl
  all_goals
    simp only [List.mem_cons, List.not_mem_nil, or_false] at hc
    rcases hc with rfl | rfl | rfl | rfl | rfl | rfl | rfl | rfl | rfl | rfl | rfl | rfl | rfl | rfl | rfl <;>
      (refine ⟨rfl, ?_⟩; simp [WFw, atomOk, litOk, i32, lenOk, U32MAX])

end PotasscoVerif.C01
