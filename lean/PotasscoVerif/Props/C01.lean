/-
  C01 — aspif writer and reader are inverses.

  Models: Model/AspifOut.lean (writer), Model/AspifIn.lean (reader, over the abstract character stream).

  FULL STATEMENT (C01_write_read):
      p.Valid → AspifIn.read (AspifOut.write (calls p)) = { calls := calls (dropZeroWeights p), err := none }
  for every program `p` (any directives, any number of steps, arguments in the documented ranges), in both
  read modes, wherever buffer boundaries fall.

  PROVED SO FAR: the token level on which that statement rests —
    * `C01_number_roundtrip`: any amount of blanks, the decimal text the writer produces for an integer `v`
      (|v| < 2^63), followed by a non-digit, is read by the reader's integer matcher as exactly `v`,
      leaving exactly what follows;
    * `C01_blanks_skipped`: blanks (incl. CR, LF, CRLF) before a token are skipped completely and nothing else;
    * buffer independence of every token operation is C09 (`C09_transparent`), cited not re-proved.
  MISSING: the composition over directives/steps (`C01_write_read` itself) — until it is proved, the
  statement above is decided by the correspondence run (writer model == AspifOutput bytes, reader model ==
  AspifInput calls) together with the direct round-trip oracle on the implementation.
-/
import PotasscoVerif.Lemmas.Decimal
import PotasscoVerif.Model.AspifIn
namespace PotasscoVerif.C01
open PotasscoVerif.AspifOut PotasscoVerif.CharStream PotasscoVerif.Decimal
open PotasscoVerif.BufferedStream (isWs I64MAX)

theorem C01_number_roundtrip (a : AS) (v : Int) (ws k : List Nat) (hr : a.rest = ws ++ (printInt v ++ k))
    (hws : ∀ c ∈ ws, isWs c = true) (hk : NDS k) (hv : v.natAbs ≤ I64MAX) :
    ∃ a', a.matchInt false = (.val v, a') ∧ a'.rest = k :=
  matchInt_printInt a v ws k hr hws hk hv

theorem C01_blanks_skipped (a : AS) (ws r : List Nat) (hr : a.rest = ws ++ r) (hws : ∀ c ∈ ws, isWs c = true)
    (hnw : NWS r) : a.skipWs.rest = r :=
  skipWs_spec a ws r hr hws hnw

/-- the reader's `matchPos` on a written unsigned number. -/
theorem C01_pos_roundtrip (a : AS) (n : Nat) (ws k : List Nat) (hr : a.rest = ws ++ (printNat n ++ k))
    (hws : ∀ c ∈ ws, isWs c = true) (hk : NDS k) (hn : n ≤ U32MAX) :
    ∃ a', AspifIn.pos a = .ok (n, a') ∧ a'.rest = k := by
  have hp : printInt (n : Int) = printNat n := by simp [printInt]
  obtain ⟨a', h1, h2⟩ := matchInt_printInt a (n : Int) ws k (by rw [hp]; exact hr) hws hk
    (by simp [U32MAX, I64MAX] at *; omega)
  refine ⟨a', ?_, h2⟩
  simp [AspifIn.pos, AspifIn.posMax, AspifIn.intIn, h1, U32MAX] at *
  have hc : ((n : Int) ≤ 4294967295) := by omega
  simp [hc, Functor.map, Except.map]

/-! non-vacuity / sanity: a complete two-step program with every directive kind round-trips in the model -/

def exProgram : List Call :=
  [.initProgram true, .beginStep,
   .rule 1 [1, 2147483647] [-2, 3], .sumRule 0 [] (-2147483648) [(1, 2), (-2, 2147483647)],
   .minimize (-1) [(1, -5), (-3, 7)], .project [], .output [97, 32, 10, 98] [1], .external 3 2, .assume [-1],
   .heuristic 4 5 (-7) 2147483647 [2], .acycEdge 0 2147483647 [], .theoryNum 4294967295 (-3),
   .theorySym 0 [120, 255], .theoryCompound 1 (-3) [0, 4294967295], .theoryElement 2 [1] [-1],
   .theoryAtom 0 1 [2] none, .theoryAtom 5 1 [] (some (3, 4294967295)),
   .endStep, .beginStep, .rule 0 [7] [], .endStep]

example : AspifIn.read (write exProgram) = { calls := exProgram, err := none } := by decide +kernel

end PotasscoVerif.C01
