/-
  C15 — option values are assigned with first-source-wins precedence and defaults last.
  Theorems about Model/OptAssign.lean (tied to src/program_options.cpp by the `oa` correspondence).
-/
import PotasscoVerif.Model.OptAssign
namespace PotasscoVerif.C15
open PotasscoVerif.Options PotasscoVerif.OptAssign

/-! ### slots -/
theorem slotOf_setSlot_same (s : AState) (k : Nat) (sl : Slot) (h : k < s.slots.length) : slotOf (setSlot s k sl) k = sl := by
  simp [slotOf, setSlot, List.getD, h]
theorem slotOf_setSlot_ne (s : AState) (k j : Nat) (sl : Slot) (h : k ≠ j) : slotOf (setSlot s k sl) j = slotOf s j := by
  simp [slotOf, setSlot, List.getD, List.getElem?_set_ne h]
theorem slotOf_default (s : AState) (k : Nat) (h : s.slots.length ≤ k) : (slotOf s k).state = 0 := by
  simp [slotOf, List.getD, List.getElem?_eq_none h]
theorem setSlot_oob (s : AState) (k : Nat) (sl : Slot) (h : s.slots.length ≤ k) : setSlot s k sl = s := by
  simp [setSlot, List.set_eq_of_length_le h]
@[simp] theorem setSlot_parsed (s : AState) (k : Nat) (sl : Slot) : (setSlot s k sl).parsed = s.parsed := rfl
@[simp] theorem setSlot_length (s : AState) (k : Nat) (sl : Slot) : (setSlot s k sl).slots.length = s.slots.length := by simp [setSlot]

/-- no value is in state `fixed` -/
def NoFixed (s : AState) : Prop := ∀ i, (slotOf s i).state ≠ 2

/-- `Value::parse` never yields a state other than the old one or the requested one -/
theorem valueParse_state (o : OptSpec) (sl : Slot) (v : List Nat) (st : Nat) :
    (valueParse o sl v st).2.state = if (valueParse o sl v st).1 then st else sl.state := by
  simp [valueParse]

/-! ### one entry -/
theorem assignOne_parsed (c : Context) (s : AState) (k : Nat) (v : List Nat) : (assignOne c s k v).1.parsed = s.parsed := by
  unfold assignOne; dsimp only; split
  · rfl
  · split <;> rfl
theorem assignOne_frame (c : Context) (s : AState) (k j : Nat) (v : List Nat) (h : k ≠ j) : slotOf (assignOne c s k v).1 j = slotOf s j := by
  unfold assignOne; dsimp only; split
  · rfl
  · split
    · rfl
    · exact slotOf_setSlot_ne _ _ _ _ h

/-! ### the loop over one source: equations -/
section loopEq
variable (c : Context) (excl : Option (List (List Nat))) (s : AState) (k : Nat) (v : List Nat) (rest : List (Nat × List Nat))
theorem loop_ign (h : ignored c excl k = true) :
    assignLoop c excl s ((k, v) :: rest) = ((assignLoop c excl s rest).1, (k, v) :: (assignLoop c excl s rest).2.1, (assignLoop c excl s rest).2.2) := by
  simp [assignLoop, h]
theorem loop_ok (h : ignored c excl k = false) (h0 : (assignOne c s k v).2 = 0) :
    assignLoop c excl s ((k, v) :: rest) = ((assignLoop c excl (assignOne c s k v).1 rest).1, (k, v) :: (assignLoop c excl (assignOne c s k v).1 rest).2.1,
      (assignLoop c excl (assignOne c s k v).1 rest).2.2) := by
  simp [assignLoop, h, h0]
theorem loop_mult (h : ignored c excl k = false) (h1 : (assignOne c s k v).2 = 1) :
    assignLoop c excl s ((k, v) :: rest) = ((assignOne c s k v).1, [], some (.multiple (optOf c k).name v)) := by
  simp [assignLoop, h, h1]
theorem loop_inv (h : ignored c excl k = false) (h0 : (assignOne c s k v).2 ≠ 0) (h1 : (assignOne c s k v).2 ≠ 1) :
    assignLoop c excl s ((k, v) :: rest) = ((assignOne c s k v).1, [], some (.invalid (optOf c k).name v)) := by
  simp [assignLoop, h, h0, h1]
end loopEq

/-- case analysis on the first entry of a source -/
theorem loop_cases (c : Context) (excl) (s : AState) (k : Nat) (v : List Nat) (rest : List (Nat × List Nat)) (P : AState × List (Nat × List Nat) × Option AErr → Prop)
    (hign : ignored c excl k = true → P ((assignLoop c excl s rest).1, (k, v) :: (assignLoop c excl s rest).2.1, (assignLoop c excl s rest).2.2))
    (hok : ignored c excl k = false → (assignOne c s k v).2 = 0 → P ((assignLoop c excl (assignOne c s k v).1 rest).1, (k, v) :: (assignLoop c excl (assignOne c s k v).1 rest).2.1,
      (assignLoop c excl (assignOne c s k v).1 rest).2.2))
    (hmult : ignored c excl k = false → (assignOne c s k v).2 = 1 → P ((assignOne c s k v).1, [], some (.multiple (optOf c k).name v)))
    (hinv : ignored c excl k = false → (assignOne c s k v).2 ≠ 0 → (assignOne c s k v).2 ≠ 1 → P ((assignOne c s k v).1, [], some (.invalid (optOf c k).name v))) :
    P (assignLoop c excl s ((k, v) :: rest)) := by
  cases hi : ignored c excl k
  · by_cases h0 : (assignOne c s k v).2 = 0
    · rw [loop_ok _ _ _ _ _ _ hi h0]; exact hok hi h0
    · by_cases h1 : (assignOne c s k v).2 = 1
      · rw [loop_mult _ _ _ _ _ _ hi h1]; exact hmult hi h1
      · rw [loop_inv _ _ _ _ _ _ hi h0 h1]; exact hinv hi h0 h1
  · rw [loop_ign _ _ _ _ _ _ hi]; exact hign hi

/-- the passed entries are a prefix of the source; all of it when no error is reported -/
theorem loop_passed (c : Context) (excl) (s : AState) (vals : List (Nat × List Nat)) :
    (assignLoop c excl s vals).2.1 <+: vals ∧ ((assignLoop c excl s vals).2.2 = none → (assignLoop c excl s vals).2.1 = vals) := by
  induction vals generalizing s with
  | nil => simp [assignLoop]
  | cons kv rest ih =>
    obtain ⟨k, v⟩ := kv
    apply loop_cases c excl s k v rest (fun r => r.2.1 <+: (k, v) :: rest ∧ (r.2.2 = none → r.2.1 = (k, v) :: rest))
    · intro _; have := ih s; exact ⟨(List.prefix_cons_inj (k, v)).mpr this.1, fun h => by simp only at h ⊢; rw [this.2 h]⟩
    · intro _ _; have := ih (assignOne c s k v).1; exact ⟨(List.prefix_cons_inj (k, v)).mpr this.1, fun h => by simp only at h ⊢; rw [this.2 h]⟩
    · intro _ _; simp
    · intro _ _ _; simp

theorem loop_parsed (c : Context) (excl) (s : AState) (vals : List (Nat × List Nat)) : (assignLoop c excl s vals).1.parsed = s.parsed := by
  induction vals generalizing s with
  | nil => simp [assignLoop]
  | cons kv rest ih =>
    obtain ⟨k, v⟩ := kv
    apply loop_cases c excl s k v rest (fun r => r.1.parsed = s.parsed)
    · intro _; exact ih s
    · intro _ _; simp only; rw [ih, assignOne_parsed]
    · intro _ _; exact assignOne_parsed ..
    · intro _ _ _; exact assignOne_parsed ..

/-! ### one entry, in detail -/
theorem slotOf_setSlot (s : AState) (k j : Nat) (sl : Slot) : slotOf (setSlot s k sl) j = if k = j ∧ k < s.slots.length then sl else slotOf s j := by
  by_cases h : k = j
  · subst h
    by_cases hl : k < s.slots.length
    · simp [hl, slotOf_setSlot_same]
    · have : s.slots.length ≤ k := Nat.le_of_not_lt hl
      simp [hl, setSlot_oob _ _ _ this]
  · simp [h, slotOf_setSlot_ne _ _ _ _ h]
@[simp] theorem slotOf_withParsed (s : AState) (p) (j : Nat) : slotOf (withParsed s p) j = slotOf s j := rfl
@[simp] theorem withParsed_parsed (s : AState) (p) : (withParsed s p).parsed = p := rfl

theorem assignOne_length (c : Context) (s : AState) (k : Nat) (v : List Nat) : (assignOne c s k v).1.slots.length = s.slots.length := by
  unfold assignOne; dsimp only; split
  · rfl
  · split
    · rfl
    · simp

/-- an entry for a non-composing option that is already recorded as parsed changes nothing -/
theorem assignOne_parsedBefore (c : Context) (s : AState) (k : Nat) (v : List Nat) (hc : (optOf c k).composing = false)
    (hp : (optOf c k).name ∈ s.parsed) : assignOne c s k v = (s, 0) := by
  simp [assignOne, hc, hp]

/-- otherwise: a second occurrence (state fixed) is code 1, else the value is parsed into the slot -/
theorem assignOne_active (c : Context) (s : AState) (k : Nat) (v : List Nat)
    (h : (optOf c k).composing = true ∨ (optOf c k).name ∉ s.parsed) :
    assignOne c s k v = if (optOf c k).composing = false ∧ (slotOf s k).state = 2 then (s, 1)
      else (setSlot s k (valueParse (optOf c k) (slotOf s k) v 2).2, if (valueParse (optOf c k) (slotOf s k) v 2).1 then 0 else 2) := by
  unfold assignOne; dsimp only
  rcases h with h | h <;> simp [h]

theorem assignOne_code1 (c : Context) (s : AState) (k : Nat) (v : List Nat) (h : (assignOne c s k v).2 = 1) :
    (assignOne c s k v).1 = s ∧ (slotOf s k).state = 2 ∧ (optOf c k).composing = false := by
  unfold assignOne at h ⊢; dsimp only at h ⊢
  split at h
  · simp at h
  · split at h
    · rename_i h1 h2; simp at h1 h2; rw [if_neg (by simpa using h1)]; simp [h2]
    · split at h <;> simp at h

/-- the slot of the entry's option is fixed afterwards only if it was before or the value was accepted -/
theorem assignOne_fixed (c : Context) (s : AState) (k : Nat) (v : List Nat) (h : (slotOf (assignOne c s k v).1 k).state = 2) :
    (slotOf s k).state = 2 ∨ (assignOne c s k v).2 = 0 := by
  unfold assignOne at h ⊢; dsimp only at h ⊢
  split
  · right; rfl
  · split
    · left; rename_i h2; simp at h2; exact h2.2
    · rename_i h1 h2
      rw [if_neg h1, if_neg h2] at h
      simp only [slotOf_setSlot] at h
      split at h
      · rw [valueParse_state] at h
        split at h
        · right; simp [*]
        · left; exact h
      · left; exact h

/-! ### frame: options a source cannot touch -/
/-- entries for option `j` are skipped by this source: the exclude set names it or an earlier source assigned it -/
def Inert (c : Context) (excl : Option (List (List Nat))) (s : AState) (j : Nat) : Prop :=
  ignored c excl j = true ∨ ((optOf c j).composing = false ∧ (optOf c j).name ∈ s.parsed)

theorem assignOne_slot_other (c : Context) (excl) (s : AState) (k j : Nat) (v : List Nat) (hi : ignored c excl k = false)
    (h : k ≠ j ∨ Inert c excl s j) : slotOf (assignOne c s k v).1 j = slotOf s j := by
  by_cases hk : k = j
  · subst hk
    rcases h with h | h | h
    · exact absurd rfl h
    · rw [hi] at h; cases h
    · rw [assignOne_parsedBefore c s k v h.1 h.2]
  · exact assignOne_frame c s k j v hk

theorem loop_frame (c : Context) (excl) (s : AState) (vals : List (Nat × List Nat)) (j : Nat)
    (h : j ∉ vals.map Prod.fst ∨ Inert c excl s j) : slotOf (assignLoop c excl s vals).1 j = slotOf s j := by
  induction vals generalizing s with
  | nil => simp [assignLoop]
  | cons kv rest ih =>
    obtain ⟨k, v⟩ := kv
    have hrest : ∀ s' : AState, s'.parsed = s.parsed → (j ∉ rest.map Prod.fst ∨ Inert c excl s' j) := by
      intro s' hp
      rcases h with h | h
      · left; intro hm; exact h (by simp at hm ⊢; right; exact hm)
      · right; unfold Inert at h ⊢; rw [hp]; exact h
    have hk : k ≠ j ∨ Inert c excl s j := by
      rcases h with h | h
      · left; intro e; exact h (by simp [e])
      · right; exact h
    apply loop_cases c excl s k v rest (fun r => slotOf r.1 j = slotOf s j)
    · intro _; exact ih s (hrest s rfl)
    · intro hi _; simp only
      rw [ih _ (hrest _ (assignOne_parsed ..))]; exact assignOne_slot_other c excl s k j v hi hk
    · intro hi _; exact assignOne_slot_other c excl s k j v hi hk
    · intro hi _ _; exact assignOne_slot_other c excl s k j v hi hk

/-! ### the scope guard -/
theorem finish_fixed (c : Context) (s : AState) (k : Nat) (v : List Nat) (rest) (h : (slotOf s k).state = 2) :
    finish c s ((k, v) :: rest) = finish c (withParsed (setSlot s k { (slotOf s k) with state := 0 }) (addParsed s.parsed (optOf c k).name)) rest := by
  simp [finish, h]
theorem finish_skip (c : Context) (s : AState) (k : Nat) (v : List Nat) (rest) (h : (slotOf s k).state ≠ 2) :
    finish c s ((k, v) :: rest) = finish c s rest := by
  simp [finish, h]
theorem finish_slot (c : Context) (s : AState) (l : List (Nat × List Nat)) (j : Nat) :
    slotOf (finish c s l) j = if (slotOf s j).state = 2 ∧ j ∈ l.map Prod.fst then { (slotOf s j) with state := 0 } else slotOf s j := by
  induction l generalizing s with
  | nil => simp [finish]
  | cons kv rest ih =>
    obtain ⟨k, v⟩ := kv
    by_cases h2 : (slotOf s k).state = 2
    · rw [finish_fixed c s k v rest h2, ih]
      simp only [slotOf_withParsed, slotOf_setSlot]
      by_cases hkj : k = j
      · subst hkj
        by_cases hl : k < s.slots.length
        · simp [hl, h2]
        · have := slotOf_default s k (Nat.le_of_not_lt hl); omega
      · have hjk : ¬ j = k := fun e => hkj e.symm
        simp only [hkj, false_and, if_false, List.map_cons, List.mem_cons, hjk, false_or]
    · rw [finish_skip c s k v rest h2, ih]
      by_cases hkj : j = k
      · subst hkj; simp [h2]
      · simp only [List.map_cons, List.mem_cons, hkj, false_or]

theorem mem_addParsed (p : List (List Nat)) (n m : List Nat) : m ∈ addParsed p n ↔ m ∈ p ∨ m = n := by
  unfold addParsed; split
  · rename_i h; simp at h; constructor
    · intro hm; exact Or.inl hm
    · rintro (hm | hm); exact hm; subst hm; exact h
  · simp

/-- exactly the options of passed entries whose value is fixed are added to the parsed set -/
theorem finish_parsed (c : Context) (s : AState) (l : List (Nat × List Nat)) (nm : List Nat) :
    nm ∈ (finish c s l).parsed ↔ nm ∈ s.parsed ∨ ∃ k, k ∈ l.map Prod.fst ∧ (slotOf s k).state = 2 ∧ (optOf c k).name = nm := by
  induction l generalizing s with
  | nil => simp [finish]
  | cons kv rest ih =>
    obtain ⟨k, v⟩ := kv
    by_cases h2 : (slotOf s k).state = 2
    · rw [finish_fixed c s k v rest h2, ih]
      simp only [withParsed_parsed, mem_addParsed, slotOf_withParsed, slotOf_setSlot]
      constructor
      · rintro ((hm | hm) | ⟨i, hi, hs, hn⟩)
        · exact Or.inl hm
        · exact Or.inr ⟨k, by simp, h2, hm.symm⟩
        · right
          refine ⟨i, by simp [hi], ?_, hn⟩
          split at hs
          · simp at hs
          · exact hs
      · rintro (hm | ⟨i, hi, hs, hn⟩)
        · exact Or.inl (Or.inl hm)
        · by_cases hik : i = k
          · subst hik; exact Or.inl (Or.inr hn.symm)
          · right
            refine ⟨i, ?_, ?_, hn⟩
            · simp at hi; rcases hi with hi | hi
              · exact absurd hi hik
              · simpa using hi
            · have : ¬ (k = i ∧ k < s.slots.length) := fun e => hik e.1.symm
              rw [if_neg this]; exact hs
    · rw [finish_skip c s k v rest h2, ih]
      constructor
      · rintro (hm | ⟨i, hi, hs, hn⟩)
        · exact Or.inl hm
        · exact Or.inr ⟨i, by simp [hi], hs, hn⟩
      · rintro (hm | ⟨i, hi, hs, hn⟩)
        · exact Or.inl hm
        · right
          refine ⟨i, ?_, hs, hn⟩
          simp at hi; rcases hi with hi | hi
          · subst hi; exact absurd hs h2
          · simpa using hi

/-- after the loop a value is fixed only if it was before or its entry was passed -/
theorem loop_fixed (c : Context) (excl) (s : AState) (vals : List (Nat × List Nat)) (j : Nat)
    (h : (slotOf (assignLoop c excl s vals).1 j).state = 2) : (slotOf s j).state = 2 ∨ j ∈ (assignLoop c excl s vals).2.1.map Prod.fst := by
  induction vals generalizing s with
  | nil => left; simpa [assignLoop] using h
  | cons kv rest ih =>
    obtain ⟨k, v⟩ := kv
    revert h
    apply loop_cases c excl s k v rest (fun r => (slotOf r.1 j).state = 2 → (slotOf s j).state = 2 ∨ j ∈ r.2.1.map Prod.fst)
    · intro _ h; rcases ih s h with h | h
      · exact Or.inl h
      · right; simp at h ⊢; right; exact h
    · intro _ h0 h; simp only at h ⊢
      rcases ih _ h with h | h
      · by_cases hkj : k = j
        · subst hkj; right; simp
        · left; rw [assignOne_frame c s k j v hkj] at h; exact h
      · right; simp at h ⊢; right; exact h
    · intro _ h1 h; left; rw [(assignOne_code1 c s k v h1).1] at h; exact h
    · intro _ h0 _ h
      by_cases hkj : k = j
      · subst hkj; rcases assignOne_fixed c s k v h with h | h
        · exact Or.inl h
        · exact absurd h h0
      · left; rw [assignOne_frame c s k j v hkj] at h; exact h

/-! ### what one option receives from one source -/
/-- the value strings a source holds for option `k`, in order -/
def occ (vals : List (Nat × List Nat)) (k : Nat) : List (List Nat) := (vals.filter (fun e => e.1 == k)).map Prod.snd

@[simp] theorem occ_nil (k : Nat) : occ [] k = [] := rfl
theorem occ_cons_same (k : Nat) (v) (rest) : occ ((k, v) :: rest) k = v :: occ rest k := by simp [occ]
theorem occ_cons_ne (k j : Nat) (v) (rest) (h : k ≠ j) : occ ((k, v) :: rest) j = occ rest j := by simp [occ, h]
theorem occ_nil_iff (vals) (k : Nat) : occ vals k = [] ↔ k ∉ vals.map Prod.fst := by
  induction vals with
  | nil => simp
  | cons kv rest ih =>
    obtain ⟨k', v⟩ := kv
    by_cases h : k' = k
    · subst h; simp [occ_cons_same]
    · rw [occ_cons_ne _ _ _ _ h, ih]
      have : ¬ k = k' := fun e => h e.symm
      simp [this]

/-- the parser run over the occurrences: a non-composing option takes one value, a second one is refused (`none`);
    a composing option folds its parser over all of them; a refused string is `none`. -/
def runK (o : OptSpec) : Slot → List (List Nat) → Option Slot
  | sl, [] => some sl
  | sl, v :: vs =>
    if o.composing = false ∧ sl.state = 2 then none
    else if (valueParse o sl v 2).1 then runK o (valueParse o sl v 2).2 vs else none

/-- if the source is passed without error, the slot of every option it can touch is the parser run over its occurrences -/
theorem loop_slot (c : Context) (excl) (s : AState) (vals : List (Nat × List Nat)) (k : Nat) (hk : k < s.slots.length)
    (hi : ignored c excl k = false) (hp : (optOf c k).composing = true ∨ (optOf c k).name ∉ s.parsed)
    (hok : (assignLoop c excl s vals).2.2 = none) :
    runK (optOf c k) (slotOf s k) (occ vals k) = some (slotOf (assignLoop c excl s vals).1 k) := by
  induction vals generalizing s with
  | nil => simp [assignLoop, runK]
  | cons kv rest ih =>
    obtain ⟨k', v⟩ := kv
    revert hok
    apply loop_cases c excl s k' v rest (fun r => r.2.2 = none → runK (optOf c k) (slotOf s k) (occ ((k', v) :: rest) k) = some (slotOf r.1 k))
    · intro hi' hok
      have hne : k' ≠ k := fun e => by subst e; rw [hi] at hi'; cases hi'
      rw [occ_cons_ne _ _ _ _ hne]; exact ih s hk hp hok
    · intro hi' h0 hok
      by_cases hkk : k' = k
      · subst hkk
        rw [occ_cons_same]
        rw [assignOne_active c s k' v hp] at h0 ⊢
        by_cases h2 : (optOf c k').composing = false ∧ (slotOf s k').state = 2
        · rw [if_pos h2] at h0; simp at h0
        · rw [if_neg h2] at h0 ⊢
          have hp1 : (valueParse (optOf c k') (slotOf s k') v 2).1 = true := by
            by_cases hv : (valueParse (optOf c k') (slotOf s k') v 2).1 = true
            · exact hv
            · simp [hv] at h0
          simp only at hok ⊢
          have := ih (setSlot s k' (valueParse (optOf c k') (slotOf s k') v 2).2) (by simpa using hk) (by simpa using hp)
            (by rw [assignOne_active c s k' v hp, if_neg h2] at hok; exact hok)
          rw [slotOf_setSlot_same _ _ _ hk] at this
          unfold runK; rw [if_neg h2, if_pos hp1]
          exact this
      · rw [occ_cons_ne _ _ _ _ hkk]
        have := ih (assignOne c s k' v).1 (by rw [assignOne_length]; exact hk) (by rw [assignOne_parsed]; exact hp) hok
        rw [assignOne_frame c s k' k v hkk] at this; exact this
    · intro _ _ hok; simp at hok
    · intro _ _ _ hok; simp at hok

/-! ### sources in two parts -/
theorem loop_append_none (c : Context) (excl) (s : AState) (a b : List (Nat × List Nat)) (h : (assignLoop c excl s a).2.2 = none) :
    assignLoop c excl s (a ++ b) = ((assignLoop c excl (assignLoop c excl s a).1 b).1, a ++ (assignLoop c excl (assignLoop c excl s a).1 b).2.1,
      (assignLoop c excl (assignLoop c excl s a).1 b).2.2) := by
  induction a generalizing s with
  | nil => simp [assignLoop]
  | cons kv rest ih =>
    obtain ⟨k, v⟩ := kv
    cases hi : ignored c excl k
    · by_cases h0 : (assignOne c s k v).2 = 0
      · rw [loop_ok _ _ _ _ _ _ hi h0] at h
        rw [List.cons_append, loop_ok _ _ _ _ _ _ hi h0, loop_ok _ _ _ _ _ _ hi h0, ih _ h]; simp
      · by_cases h1 : (assignOne c s k v).2 = 1
        · rw [loop_mult _ _ _ _ _ _ hi h1] at h; simp at h
        · rw [loop_inv _ _ _ _ _ _ hi h0 h1] at h; simp at h
    · rw [loop_ign _ _ _ _ _ _ hi] at h
      rw [List.cons_append, loop_ign _ _ _ _ _ _ hi, loop_ign _ _ _ _ _ _ hi, ih _ h]; simp

/-! ## Property theorems: one source -/

/-- **C15 (state machine)**: one source leaves no value in state `fixed`, whether it succeeds or reports an error. -/
theorem source_noFixed (c : Context) (s : AState) (vals) (excl) (h : NoFixed s) : NoFixed (assignSource c s vals excl).1 := by
  intro j hj
  simp only [assignSource] at hj
  rw [finish_slot] at hj
  split at hj
  · simp at hj
  · rename_i hn
    rcases loop_fixed c excl s vals j hj with h2 | h2
    · exact h j h2
    · exact hn ⟨hj, h2⟩

/-- **C15 (single occurrence, first source that mentions the option)**: a non-composing option that no earlier source assigned
    and that the exclude set does not name, occurring exactly once with string `v` in a source passed without error, holds
    exactly what its parser produced for `v` (the implicit text for an empty string: `valueParse`), is recorded as parsed and
    is back in state unassigned. -/
theorem C15_single_occurrence (c : Context) (s : AState) (vals) (excl) (k : Nat) (v : List Nat)
    (hk : k < s.slots.length) (hnf : NoFixed s) (hc : (optOf c k).composing = false) (hp : (optOf c k).name ∉ s.parsed)
    (hi : ignored c excl k = false) (hocc : occ vals k = [v]) (hok : (assignSource c s vals excl).2 = none) :
    (valueParse (optOf c k) (slotOf s k) v 2).1 = true ∧
    slotOf (assignSource c s vals excl).1 k = { state := 0, val := (valueParse (optOf c k) (slotOf s k) v 2).2.val } ∧
    (optOf c k).name ∈ (assignSource c s vals excl).1.parsed := by
  simp only [assignSource] at hok ⊢
  have hrun := loop_slot c excl s vals k hk hi (Or.inr hp) hok
  rw [hocc] at hrun
  simp only [runK] at hrun
  have h2 : ¬ ((optOf c k).composing = false ∧ (slotOf s k).state = 2) := fun e => hnf k e.2
  rw [if_neg h2] at hrun
  by_cases hv : (valueParse (optOf c k) (slotOf s k) v 2).1 = true
  · rw [if_pos hv] at hrun
    have hsl : slotOf (assignLoop c excl s vals).1 k = (valueParse (optOf c k) (slotOf s k) v 2).2 := (Option.some.inj hrun).symm
    have hst : (slotOf (assignLoop c excl s vals).1 k).state = 2 := by rw [hsl, valueParse_state, if_pos hv]
    have hmem : k ∈ (assignLoop c excl s vals).2.1.map Prod.fst := by
      rw [(loop_passed c excl s vals).2 hok]
      have : ¬ occ vals k = [] := by rw [hocc]; simp
      rw [occ_nil_iff] at this; exact Classical.not_not.mp this
    refine ⟨hv, ?_, ?_⟩
    · rw [finish_slot, if_pos ⟨hst, hmem⟩, hsl]
    · rw [finish_parsed]; exact Or.inr ⟨k, hmem, hst, rfl⟩
  · rw [if_neg hv] at hrun; cases hrun

/-- **C15 (first source wins)**: once an option is recorded as parsed, a later source cannot change it, whatever it holds
    for that option (and whether or not it ends in an error). -/
theorem C15_earlier_source_wins (c : Context) (s : AState) (vals) (excl) (k : Nat)
    (hnf : NoFixed s) (hc : (optOf c k).composing = false) (hp : (optOf c k).name ∈ s.parsed) :
    slotOf (assignSource c s vals excl).1 k = slotOf s k := by
  simp only [assignSource]
  have hl := loop_frame c excl s vals k (Or.inr (Or.inr ⟨hc, hp⟩))
  rw [finish_slot, hl, if_neg (fun e => hnf k e.1)]

/-- **C15 (exclude set)**: a non-composing option named by the exclude set is not changed by the source. -/
theorem C15_excluded_ignored (c : Context) (s : AState) (vals) (excl : List (List Nat)) (k : Nat)
    (hnf : NoFixed s) (hc : (optOf c k).composing = false) (hx : (optOf c k).name ∈ excl) :
    slotOf (assignSource c s vals (some excl)).1 k = slotOf s k ∧
    ((optOf c k).name ∈ (assignSource c s vals (some excl)).1.parsed → (optOf c k).name ∈ s.parsed ∨
      ∃ j, j ≠ k ∧ (optOf c j).name = (optOf c k).name) := by
  have hig : ignored c (some excl) k = true := by simp [ignored, hc, hx]
  simp only [assignSource]
  have hl := loop_frame c (some excl) s vals k (Or.inr (Or.inl hig))
  refine ⟨by rw [finish_slot, hl, if_neg (fun e => hnf k e.1)], ?_⟩
  intro hm
  rw [finish_parsed] at hm
  rcases hm with hm | ⟨j, _, hs, hn⟩
  · left; rw [loop_parsed] at hm; exact hm
  · right; refine ⟨j, ?_, hn⟩
    intro e; subst e; rw [hl] at hs; exact hnf j hs

/-- **C15 (two occurrences in one source)**: when the source reaches a second entry of a non-composing option whose first
    entry it accepted, it stops with `multiple_occurrences` naming the option and the second string. -/
theorem C15_duplicate_error (c : Context) (s : AState) (pre post) (excl) (k : Nat) (v : List Nat)
    (hk : k < s.slots.length) (hc : (optOf c k).composing = false) (hp : (optOf c k).name ∉ s.parsed)
    (hi : ignored c excl k = false) (hpre : (assignLoop c excl s pre).2.2 = none) (hocc : occ pre k ≠ []) :
    (assignSource c s (pre ++ (k, v) :: post) excl).2 = some (.multiple (optOf c k).name v) := by
  simp only [assignSource]
  rw [loop_append_none c excl s pre _ hpre]
  simp only
  have hrun := loop_slot c excl s pre k hk hi (Or.inr hp) hpre
  -- after a non-empty accepted run the slot is fixed
  have hfix : (slotOf (assignLoop c excl s pre).1 k).state = 2 := by
    generalize slotOf (assignLoop c excl s pre).1 k = fin at hrun
    generalize slotOf s k = sl at hrun
    revert hocc
    generalize occ pre k = l at hrun
    intro hne
    induction l generalizing sl with
    | nil => exact absurd rfl hne
    | cons w ws ih =>
      simp only [runK] at hrun
      split at hrun
      · cases hrun
      · split at hrun
        · rename_i hv
          cases ws with
          | nil => simp only [runK] at hrun; rw [← Option.some.inj hrun, valueParse_state, if_pos hv]
          | cons w2 ws2 => exact ih _ hrun (by simp)
        · cases hrun
  have hp' : (optOf c k).name ∉ (assignLoop c excl s pre).1.parsed := by rw [loop_parsed]; exact hp
  have h1 : (assignOne c (assignLoop c excl s pre).1 k v).2 = 1 := by
    rw [assignOne_active _ _ _ _ (Or.inr hp'), if_pos ⟨hc, hfix⟩]
  rw [loop_mult _ _ _ _ _ _ hi h1]

/-- **C15 (refused value)**: when the source reaches an entry whose string the option's parser refuses, it stops with
    `invalid_value` naming the option and the string. -/
theorem C15_invalid_error (c : Context) (s : AState) (pre post) (excl) (k : Nat) (v : List Nat)
    (hi : ignored c excl k = false) (hpre : (assignLoop c excl s pre).2.2 = none)
    (hp : (optOf c k).composing = true ∨ (optOf c k).name ∉ s.parsed)
    (h2 : ¬ ((optOf c k).composing = false ∧ (slotOf (assignLoop c excl s pre).1 k).state = 2))
    (hv : (valueParse (optOf c k) (slotOf (assignLoop c excl s pre).1 k) v 2).1 = false) :
    (assignSource c s (pre ++ (k, v) :: post) excl).2 = some (.invalid (optOf c k).name v) := by
  simp only [assignSource]
  rw [loop_append_none c excl s pre _ hpre]
  simp only
  have hp' : (optOf c k).composing = true ∨ (optOf c k).name ∉ (assignLoop c excl s pre).1.parsed := by rw [loop_parsed]; exact hp
  have hcode : (assignOne c (assignLoop c excl s pre).1 k v).2 = 2 := by
    rw [assignOne_active _ _ _ _ hp', if_neg h2]; simp [hv]
  rw [loop_inv _ _ _ _ _ _ hi (by omega) (by omega)]

/-- **C15 (composing options)**: a composing option receives ALL its values of a source passed without error, in order:
    its slot is the fold of its parser over them; if there was at least one it is recorded as parsed. -/
theorem C15_composing_all (c : Context) (s : AState) (vals) (excl) (k : Nat)
    (hk : k < s.slots.length) (hnf : NoFixed s) (hc : (optOf c k).composing = true) (hok : (assignSource c s vals excl).2 = none) :
    ∃ sl, runK (optOf c k) (slotOf s k) (occ vals k) = some sl ∧ (slotOf (assignSource c s vals excl).1 k).val = sl.val ∧
      (occ vals k ≠ [] → (optOf c k).name ∈ (assignSource c s vals excl).1.parsed ∧ (slotOf (assignSource c s vals excl).1 k).state = 0) := by
  simp only [assignSource] at hok ⊢
  have hi : ignored c excl k = false := by simp [ignored, hc]
  have hrun := loop_slot c excl s vals k hk hi (Or.inl hc) hok
  refine ⟨_, hrun, ?_, ?_⟩
  · rw [finish_slot]; split <;> rfl
  · intro hne
    have hmem : k ∈ (assignLoop c excl s vals).2.1.map Prod.fst := by
      rw [(loop_passed c excl s vals).2 hok]
      rw [Ne, occ_nil_iff] at hne; exact Classical.not_not.mp hne
    have hst : (slotOf (assignLoop c excl s vals).1 k).state = 2 := by
      generalize slotOf (assignLoop c excl s vals).1 k = fin at hrun
      generalize slotOf s k = sl at hrun
      generalize occ vals k = l at hrun hne
      induction l generalizing sl with
      | nil => exact absurd rfl hne
      | cons w ws ih =>
        simp only [runK] at hrun
        split at hrun
        · cases hrun
        · split at hrun
          · rename_i hv
            cases ws with
            | nil => simp only [runK] at hrun; rw [← Option.some.inj hrun, valueParse_state, if_pos hv]
            | cons w2 ws2 => exact ih _ hrun (by simp)
          · cases hrun
    refine ⟨by rw [finish_parsed]; exact Or.inr ⟨k, hmem, hst, rfl⟩, ?_⟩
    rw [finish_slot, if_pos ⟨hst, hmem⟩]

/-- **C15 (parsed set)**: after a source — successful or not — the recorded names are the old ones plus exactly the names
    of the options whose value this source fixed (the entries passed before the error, if any). -/
theorem C15_parsed_exact (c : Context) (s : AState) (vals) (excl) (nm : List Nat) :
    nm ∈ (assignSource c s vals excl).1.parsed ↔
      nm ∈ s.parsed ∨ ∃ k, k ∈ (assignLoop c excl s vals).2.1.map Prod.fst ∧ (slotOf (assignLoop c excl s vals).1 k).state = 2 ∧ (optOf c k).name = nm := by
  simp only [assignSource]; rw [finish_parsed, loop_parsed]

/-- … and an option this source did not fix is not added: its name is recorded afterwards only if it was before or another
    option carries the same name (the context refuses duplicate names, C14). -/
theorem C15_parsed_only_received (c : Context) (s : AState) (vals) (excl) (k : Nat) (hnf : NoFixed s)
    (h0 : occ vals k = []) (hm : (optOf c k).name ∈ (assignSource c s vals excl).1.parsed) :
    (optOf c k).name ∈ s.parsed ∨ ∃ j, j ≠ k ∧ (optOf c j).name = (optOf c k).name := by
  rw [C15_parsed_exact] at hm
  rcases hm with hm | ⟨j, _, hs, hn⟩
  · exact Or.inl hm
  · right; refine ⟨j, ?_, hn⟩
    intro e; subst e
    rw [loop_frame c excl s vals j (Or.inl ((occ_nil_iff _ _).mp h0))] at hs
    exact hnf j hs

/-! ## Defaults -/
/-- what `assignDefault` makes of one option's slot -/
def defaultOf (o : OptSpec) (parsed : List (List Nat)) (sl : Slot) : Slot :=
  if o.name ∈ parsed then sl else
  match o.dflt with
  | none => sl
  | some d => if sl.state = 1 then sl else (valueParse o sl d 1).2

theorem defaultsLoop_parsed (c : Context) (s : AState) (l : List OptSpec) (k0 : Nat) : (defaultsLoop c s l k0).1.parsed = s.parsed := by
  induction l generalizing s k0 with
  | nil => rfl
  | cons o rest ih =>
    unfold defaultsLoop
    split
    · exact ih ..
    · split
      · exact ih ..
      · split
        · exact ih ..
        · dsimp only; split
          · rw [ih]; rfl
          · rfl

theorem defaultsLoop_spec (c : Context) (s : AState) (l : List OptSpec) (k0 : Nat) (hlen : k0 + l.length ≤ s.slots.length)
    (hok : (defaultsLoop c s l k0).2 = none) :
    (∀ i (h : i < l.length), slotOf (defaultsLoop c s l k0).1 (k0 + i) = defaultOf l[i] s.parsed (slotOf s (k0 + i)) ∧
        (l[i].name ∉ s.parsed → ∀ d, l[i].dflt = some d → (slotOf s (k0 + i)).state ≠ 1 → (valueParse l[i] (slotOf s (k0 + i)) d 1).1 = true)) ∧
    (∀ j, j < k0 ∨ k0 + l.length ≤ j → slotOf (defaultsLoop c s l k0).1 j = slotOf s j) := by
  induction l generalizing s k0 with
  | nil => exact ⟨fun i h => absurd h (Nat.not_lt_zero _), fun j _ => rfl⟩
  | cons o rest ih =>
    have hlen' : k0 + 1 + rest.length ≤ s.slots.length := by simp at hlen; omega
    -- the head leaves the state unchanged or parses the default into slot k0
    have key : ∀ s1 : AState, s1.parsed = s.parsed → s1.slots.length = s.slots.length → slotOf s1 k0 = defaultOf o s.parsed (slotOf s k0) →
        (∀ j, j ≠ k0 → slotOf s1 j = slotOf s j) → (defaultsLoop c s1 rest (k0 + 1)).2 = none →
        (o.name ∉ s.parsed → ∀ d, o.dflt = some d → (slotOf s k0).state ≠ 1 → (valueParse o (slotOf s k0) d 1).1 = true) →
        (∀ i (h : i < (o :: rest).length), slotOf (defaultsLoop c s1 rest (k0 + 1)).1 (k0 + i) = defaultOf (o :: rest)[i] s.parsed (slotOf s (k0 + i)) ∧
          ((o :: rest)[i].name ∉ s.parsed → ∀ d, (o :: rest)[i].dflt = some d → (slotOf s (k0 + i)).state ≠ 1 → (valueParse (o :: rest)[i] (slotOf s (k0 + i)) d 1).1 = true)) ∧
        (∀ j, j < k0 ∨ k0 + (o :: rest).length ≤ j → slotOf (defaultsLoop c s1 rest (k0 + 1)).1 j = slotOf s j) := by
      intro s1 hp hl h0 hfr hok1 hacc
      have := ih s1 (k0 + 1) (by rw [hl]; exact hlen') hok1
      constructor
      · intro i h
        cases i with
        | zero =>
          simp only [List.getElem_cons_zero, Nat.add_zero]
          refine ⟨?_, hacc⟩
          rw [this.2 k0 (Or.inl (Nat.lt_succ_self _)), h0]
        | succ i =>
          have hi : i < rest.length := by simpa using h
          have h1 := this.1 i hi
          simp only [List.getElem_cons_succ]
          have e : k0 + (i + 1) = k0 + 1 + i := by omega
          rw [e, hp, hfr (k0 + 1 + i) (by omega)] at *
          exact h1
      · intro j hj
        rw [this.2 j (by simp at hj; omega)]
        exact hfr j (by simp at hj; omega)
    unfold defaultsLoop at hok ⊢
    by_cases hpar : s.parsed.contains o.name = true
    · rw [if_pos hpar] at hok ⊢
      exact key s rfl rfl (by simp [defaultOf, List.contains_iff_mem.mp hpar]) (fun _ _ => rfl) hok
        (fun hn => absurd (List.contains_iff_mem.mp hpar) hn)
    · rw [if_neg hpar] at hok ⊢
      have hnm : o.name ∉ s.parsed := fun e => hpar (List.contains_iff_mem.mpr e)
      cases hd : o.dflt with
      | none =>
        simp only [hd] at hok ⊢
        exact key s rfl rfl (by simp [defaultOf, hnm, hd]) (fun _ _ => rfl) hok (fun _ d hd' => by rw [hd] at hd'; cases hd')
      | some d =>
        simp only [hd] at hok ⊢
        by_cases h1 : (slotOf s k0).state = 1
        · have : ((slotOf s k0).state == 1) = true := by simpa using h1
          rw [if_pos this] at hok ⊢
          exact key s rfl rfl (by simp [defaultOf, hnm, hd, h1]) (fun _ _ => rfl) hok (fun _ _ _ hne => absurd h1 hne)
        · have : ¬ ((slotOf s k0).state == 1) = true := by simpa using h1
          rw [if_neg this] at hok ⊢
          by_cases hv : (valueParse o (slotOf s k0) d 1).1 = true
          · rw [if_pos hv] at hok ⊢
            have hk0 : k0 < s.slots.length := by simp at hlen; omega
            exact key (setSlot s k0 (valueParse o (slotOf s k0) d 1).2) rfl (by simp)
              (by rw [slotOf_setSlot_same _ _ _ hk0]; simp [defaultOf, hnm, hd, h1])
              (fun j hj => slotOf_setSlot_ne _ _ _ _ (fun e => hj e.symm)) hok
              (fun _ d' hd' _ => by rw [hd] at hd'; cases hd'; exact hv)
          · rw [if_neg hv] at hok; simp at hok

/-- **C15 (defaults)**: when the defaults are applied without error, every option of the context that is not recorded as
    parsed and has a default (and is not already defaulted) holds what its parser produced for the default string — which
    the parser accepted — and is in state `defaulted`; every other option (parsed by some source, no default, or already
    defaulted) and the parsed set are untouched. -/
theorem C15_defaults (c : Context) (s : AState) (hwf : s.slots.length = c.opts.length) (hok : (assignDefaults c s).2 = none) (k : Nat) (hk : k < c.opts.length) :
    slotOf (assignDefaults c s).1 k = defaultOf (optOf c k) s.parsed (slotOf s k) ∧
    ((optOf c k).name ∉ s.parsed → ∀ d, (optOf c k).dflt = some d → (slotOf s k).state ≠ 1 →
      (valueParse (optOf c k) (slotOf s k) d 1).1 = true ∧ (slotOf (assignDefaults c s).1 k).state = 1) ∧
    (assignDefaults c s).1.parsed = s.parsed := by
  unfold assignDefaults at hok ⊢
  have := (defaultsLoop_spec c s c.opts 0 (by omega) hok).1 k hk
  have hopt : optOf c k = c.opts[k] := by simp [optOf, List.getD, hk]
  simp only [Nat.zero_add] at this
  rw [hopt]
  refine ⟨this.1, ?_, defaultsLoop_parsed ..⟩
  intro hn d hd h1
  have hv := this.2 hn d hd h1
  refine ⟨hv, ?_⟩
  rw [this.1]; simp only [defaultOf, hn, if_false, hd, h1]
  rw [valueParse_state, if_pos hv]

/-- defaults never leave a value `fixed` -/
theorem defaults_noFixed (c : Context) (s : AState) (h : NoFixed s) : NoFixed (assignDefaults c s).1 := by
  unfold assignDefaults
  generalize c.opts = l
  generalize 0 = k0
  induction l generalizing s k0 with
  | nil => exact h
  | cons o rest ih =>
    have hset : ∀ d, NoFixed (setSlot s k0 (valueParse o (slotOf s k0) d 1).2) := by
      intro d j hj
      rw [slotOf_setSlot] at hj
      split at hj
      · rename_i hkj; rw [valueParse_state] at hj
        split at hj
        · cases hj
        · exact h k0 hj
      · exact h j hj
    unfold defaultsLoop
    split
    · exact ih _ h _
    · split
      · exact ih _ h _
      · split
        · exact ih _ h _
        · dsimp only; split
          · exact ih _ (hset _) _
          · exact hset _

/-! ## Step sequences -/
/-- **C15 (state machine)**: whatever sequence of sources and default applications runs — with or without errors —
    no value is left in state `fixed` afterwards, so the duplicate check of every source starts clean. -/
theorem C15_no_fixed (c : Context) (s : AState) (steps : List Step) (h : NoFixed s) :
    NoFixed (steps.foldl (fun st x => (step c st x).1) s) := by
  induction steps generalizing s with
  | nil => exact h
  | cons x rest ih =>
    apply ih
    cases x with
    | source vals excl => exact source_noFixed c s vals excl h
    | defaults => exact defaults_noFixed c s h

theorem init_noFixed (c : Context) : NoFixed (AState.init c) := by
  intro j hj
  simp only [slotOf, AState.init, List.getD] at hj
  cases h : (c.opts.map (fun o => ({ state := 0, val := initStored o.kind } : Slot)))[j]? with
  | none => rw [h] at hj; simp at hj
  | some sl =>
    rw [h] at hj
    have := List.mem_of_getElem? h
    simp at this; obtain ⟨o, _, e⟩ := this
    rw [← e] at hj; simp at hj

theorem step_parsed_mono (c : Context) (s : AState) (x : Step) (nm : List Nat) (h : nm ∈ s.parsed) : nm ∈ (step c s x).1.parsed := by
  cases x with
  | source vals excl => simp only [step]; rw [C15_parsed_exact]; exact Or.inl h
  | defaults => simp only [step, assignDefaults, defaultsLoop_parsed]; exact h

theorem defaults_parsed_frame (c : Context) (s : AState) (k : Nat) (hk : k < c.opts.length) (hp : (optOf c k).name ∈ s.parsed) :
    slotOf (assignDefaults c s).1 k = slotOf s k := by
  unfold assignDefaults
  have hopt : optOf c k = c.opts[k] := by simp [optOf, List.getD, hk]
  rw [hopt] at hp
  -- generalised over the loop
  have gen : ∀ (l : List OptSpec) (k0 : Nat) (s : AState), (∀ i (h : i < l.length), k0 + i = k → l[i].name ∈ s.parsed) →
      slotOf (defaultsLoop c s l k0).1 k = slotOf s k := by
    intro l
    induction l with
    | nil => intro k0 s _; rfl
    | cons o rest ih =>
      intro k0 s hh
      have hrest : ∀ s1 : AState, s1.parsed = s.parsed → ∀ i (h : i < rest.length), k0 + 1 + i = k → rest[i].name ∈ s1.parsed := by
        intro s1 hp1 i h e
        have := hh (i + 1) (by simpa using h) (by omega)
        rw [hp1]; simpa using this
      unfold defaultsLoop
      split
      · exact ih _ _ (hrest s rfl)
      · rename_i hnp
        have hne : k0 ≠ k := by
          intro e
          have := hh 0 (by simp) (by omega)
          simp at this; exact hnp (List.contains_iff_mem.mpr this)
        split
        · exact ih _ _ (hrest s rfl)
        · split
          · exact ih _ _ (hrest s rfl)
          · dsimp only; split
            · rw [ih (k0 + 1) (setSlot s k0 _) (hrest _ rfl)]; exact slotOf_setSlot_ne _ _ _ _ hne
            · exact slotOf_setSlot_ne _ _ _ _ hne
  exact gen c.opts 0 s (fun i h e => by have : i = k := by omega
                                        subst this; exact hp)

/-- **C15 (first source wins, for good)**: once a non-composing option is recorded as parsed, NO later sequence of sources
    (any contents, any exclude sets, failing or not) and default applications changes its value. -/
theorem C15_first_wins_forever (c : Context) (s : AState) (steps : List Step) (k : Nat) (hk : k < c.opts.length)
    (hnf : NoFixed s) (hc : (optOf c k).composing = false) (hp : (optOf c k).name ∈ s.parsed) :
    slotOf (steps.foldl (fun st x => (step c st x).1) s) k = slotOf s k := by
  induction steps generalizing s with
  | nil => rfl
  | cons x rest ih =>
    simp only [List.foldl_cons]
    have hnf' : NoFixed (step c s x).1 := C15_no_fixed c s [x] hnf
    rw [ih _ hnf' (step_parsed_mono c s x _ hp)]
    cases x with
    | source vals excl => exact C15_earlier_source_wins c s vals excl k hnf hc hp
    | defaults => exact defaults_parsed_frame c s k hk hp

/-- **C15 (implicit value)**: an empty string given to an option with an implicit value is parsed as the implicit text
    ("1" when none was registered, as for flags). -/
theorem C15_implicit (o : OptSpec) (sl : Slot) (st : Nat) (h : o.implicit = true) :
    valueParse o sl [] st = ((doParse o.kind sl.val (implicitText o)).1,
      { state := if (doParse o.kind sl.val (implicitText o)).1 then st else sl.state, val := (doParse o.kind sl.val (implicitText o)).2 }) := by
  simp [valueParse, h]

/-! ### the hypotheses are satisfiable, and the model runs -/
def exCtx : Context := { opts := [{ name := [110], kind := 0, dflt := some [52, 50] }, { name := [118], kind := 3, composing := true }, { name := [102], kind := 2, flag := true, implicit := true }] }
example : NoFixed (AState.init exCtx) := init_noFixed _
-- two sources and defaults: n=12 wins over n=5, v gets 1,2 then 3, f gets its implicit "1"
example : ((([Step.source [(0, [49, 50]), (1, [49, 44, 50]), (2, [])] none, Step.source [(0, [53]), (1, [51])] none, Step.defaults].foldl
    (fun st x => (step exCtx st x).1) (AState.init exCtx)).slots.map (·.val)) = [.int 12, .vec [1, 2, 3], .flag 1]) := by decide +kernel
example : (assignSource exCtx (AState.init exCtx) [(0, [49]), (0, [50])] none).2 = some (.multiple [110] [50]) := by decide +kernel
example : (assignSource exCtx (AState.init exCtx) [(1, [49]), (0, [120])] none).2 = some (.invalid [110] [120]) := by decide +kernel
example : (assignDefaults exCtx (AState.init exCtx)).1.slots.map (·.val) = [.int 42, .vec [], .flag 2] := by decide +kernel
end PotasscoVerif.C15
