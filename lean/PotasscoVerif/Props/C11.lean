/-
  C11 — Rule builder yields exactly the rule that was described to it.

  Property statements only (helper lemmas: Lemmas/RuleBuilder.lean).
  Concrete side: Model/RuleBuilder.lean (header fields + word memory with growth, checked accesses).
  Abstract side: Spec/RuleSpec.lean (head/body lists; `none` = outside the documented protocol).

  FULL STATEMENT, PROVED (`C11_refines`): for every operation sequence over
    start, startMinimize, startBody, startSum, addHead, addGoal, setBound, clearHead, clearBody, clear,
    weaken (to any body type, with or without resetting the weights), end, copy
  that the specification accepts, the memory-block model accepts it too (no POTASSCO_ASSERT fires), never leaves its
  block, and after every operation reports exactly the specification's rule — whatever the initial capacity of the block.
  `copy` replaces the builder by a copy of itself (`mem_.grow(top); memcpy`): this is copy construction and assignment as seen
  by one builder; swapping two builders exchanges two states of the model and adds no behaviour of its own.
-/
import PotasscoVerif.Lemmas.RuleBuilder2
namespace PotasscoVerif.C11
open PotasscoVerif.RuleBuilder PotasscoVerif.RuleSpec

inductive Op where
  | start (ht : Nat) | startMinimize (prio : Int) | startBody | startSum (bound : Int)
  | addHead (a : Int) | addGoal (lit w : Int) | setBound (b : Int) | end_ | clear
  | clearHead | clearBody | weaken (to : Nat) (resetWeights : Bool)
  | copy          -- the builder is replaced by a copy of itself (copy construction / assignment: `mem_.grow(top); memcpy(top bytes)`)
deriving Repr, DecidableEq

def stepC (c : RB) : Op → Option RB
  | .start ht => c.start ht
  | .startMinimize p => c.startMinimize p
  | .startBody => c.startBody
  | .startSum b => c.startSum b
  | .addHead a => c.addHead a
  | .addGoal l w => c.addGoal l w
  | .setBound b => c.setBound b
  | .end_ => some c.end_
  | .clear => some c.clear
  | .clearHead => some c.clearHead
  | .clearBody => some c.clearBody
  | .weaken to w => c.weaken to w
  | .copy => some c.copy

def stepA (a : AR) : Op → Option AR
  | .start ht => a.start ht
  | .startMinimize p => a.startMinimize p
  | .startBody => a.startBody
  | .startSum b => a.startSum b
  | .addHead x => a.addHead x
  | .addGoal l w => a.addGoal l w
  | .setBound b => a.setBound b
  | .end_ => some a.end_
  | .clear => some AR.init
  | .clearHead => a.clearHead
  | .clearBody => a.clearBody
  | .weaken to w => a.weaken to w
  | .copy => some a

def runC : RB → List Op → Option RB
  | c, [] => some c
  | c, op :: ops => (stepC c op).bind (fun c' => runC c' ops)

def runA : AR → List Op → Option AR
  | a, [] => some a
  | a, op :: ops => (stepA a op).bind (fun a' => runA a' ops)

theorem step_ref {c a a'} (h : R c a) (op : Op) (hs : stepA a op = some a') :
    ∃ c', stepC c op = some c' ∧ R c' a' := by
  cases op with
  | start ht => exact start_ref h ht hs
  | startMinimize p => exact startMinimize_ref h p hs
  | startBody => exact startBodyT_ref h 0 (-1) hs
  | startSum b => exact startBodyT_ref h 1 b hs
  | addHead x => exact addHead_ref h x hs
  | addGoal l w => exact addGoal_ref h l w hs
  | setBound b => exact setBound_ref h b hs
  | end_ => simp only [stepA, Option.some.injEq] at hs; subst hs; exact ⟨_, rfl, end_ref h⟩
  | clear => simp only [stepA, Option.some.injEq] at hs; subst hs; exact ⟨_, rfl, R_clear h⟩
  | clearHead => exact ⟨_, rfl, clearHead_ref h hs⟩
  | clearBody => exact ⟨_, rfl, clearBody_ref h hs⟩
  | weaken to w => exact weaken_ref h to w hs
  | copy => simp only [stepA, Option.some.injEq] at hs; subst hs; exact ⟨_, rfl, copy_ref h⟩

theorem run_ref : ∀ (ops : List Op) {c a a'}, R c a → runA a ops = some a' → ∃ c', runC c ops = some c' ∧ R c' a' := by
  intro ops
  induction ops with
  | nil => intro c a a' h hs; simp only [runA, Option.some.injEq] at hs; subst hs; exact ⟨c, rfl, h⟩
  | cons op ops ih =>
    intro c a a' h hs
    simp only [runA] at hs
    cases hst : stepA a op with
    | none => simp [hst] at hs
    | some a1 =>
      simp only [hst, Option.bind_some] at hs
      obtain ⟨c1, hc1, h1⟩ := step_ref h op hst
      obtain ⟨c', hc', h'⟩ := ih h1 hs
      exact ⟨c', by simp only [runC, hc1, Option.bind_some]; exact hc', h'⟩

/-- a builder whose block initially has room for `n` words behind the header (the C++ starts with 11). -/
def initN (n : Nat) : RB := { mem := { data := List.replicate n 0 } }

theorem R_initN (n : Nat) : R (initN n) AR.init := by
  refine ⟨rfl, rfl, ?_, ?_, ?_, ?_, ?_, ?_, ?_, ?_, ?_, ?_, ?_⟩ <;> simp [initN, AR.init, HDR, Mem.size]

/-- **C11.** Whatever protocol-conforming sequence of the listed operations is
    applied to a fresh builder — of any length, with any atoms, literals, weights and bounds, and whatever
    the initial capacity of its block — the memory-block model accepts it (no `POTASSCO_ASSERT` fires), no
    access leaves the block (`viol = false`, `viewOk`), and the rule it reports / passes on at `end` is
    exactly the rule of the list specification.  Applied to every prefix of a history this is the statement
    "after every operation". -/
theorem C11_refines (n : Nat) (ops : List Op) (a' : AR) (hs : runA AR.init ops = some a') :
    ∃ c', runC (initN n) ops = some c' ∧ c'.view = a'.view ∧ c'.viewOk = true ∧ c'.viol = false := by
  obtain ⟨c', hc', h'⟩ := run_ref ops (R_initN n) hs
  exact ⟨c', hc', (view_ref h').1, (view_ref h').2, h'.noviol⟩

/-- **growth independence**: the reported rule does not depend on the initial capacity, i.e. on when and
    how often the block is reallocated. -/
theorem C11_growth_independent (n m : Nat) (ops : List Op) (a' : AR) (hs : runA AR.init ops = some a') :
    ∃ c₁ c₂, runC (initN n) ops = some c₁ ∧ runC (initN m) ops = some c₂ ∧ c₁.view = c₂.view := by
  obtain ⟨c₁, h₁, v₁, _, _⟩ := C11_refines n ops a' hs
  obtain ⟨c₂, h₂, v₂, _, _⟩ := C11_refines m ops a' hs
  exact ⟨c₁, c₂, h₁, h₂, v₁.trans v₂.symm⟩

/-- the production configuration: `RuleBuilder()` starts with a 64-byte block. -/
theorem C11_init_is_initN : RB.init = initN 11 := rfl

/-! #### non-vacuity: a history that uses every listed operation, forces two reallocations, reuses the
    builder after `end`, and is accepted by the specification -/

def exOps : List Op :=
  [.start 1, .addHead 5, .addHead 6, .startSum 3, .addGoal (-2) 2, .addGoal 3 0, .addGoal 4 1, .addGoal 7 1,
   .addGoal 8 1, .addGoal 9 1, .addGoal 10 1, .setBound 4, .end_,
   .startMinimize (-1), .addGoal 1 (-5), .addGoal (-2) 7, .end_, .clear,
   .startBody, .addGoal 1 1, .addGoal (-2) 1, .start 0, .addHead 2147483647, .end_,
   .startSum 5, .addGoal 1 2, .addGoal (-2) 4, .start 0, .addHead 9, .copy, .weaken 2 true, .clearHead, .start 1, .addHead 3, .addHead 4,
   .weaken 0 false, .clearBody, .addGoal 7 1, .copy, .end_]

example : (runA AR.init exOps).map AR.view =
    some { ht := 1, head := [3, 4], bt := 0, bound := -1, body := [(7, 1)] } := by decide +kernel

example : (runC RB.init exOps).map RB.view =
    some { ht := 1, head := [3, 4], bt := 0, bound := -1, body := [(7, 1)] } := by decide +kernel

/-- the intermediate rule after `weaken 2 true` in that history: bound ceil(5/2) = 3, weights 1 -/
example : (runA AR.init (exOps.take 31)).map AR.view = some { ht := 0, head := [9], bt := 2, bound := 3, body := [(1, 1), (-2, 1)] } := by decide +kernel

/-- head-first and body-first descriptions of the same rule give the same rule (instance; the general
    statement follows from `C11_refines` because both orders are accepted by the specification). -/
example : (runA AR.init [.start 1, .addHead 5, .startSum 2, .addGoal 3 4]).map AR.view =
          (runA AR.init [.startSum 2, .addGoal 3 4, .start 1, .addHead 5]).map AR.view := by decide

end PotasscoVerif.C11
