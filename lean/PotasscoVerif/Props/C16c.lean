/-
  C16 (continued) — pairs and lists: value → text → value.

  Generic in the member type: an element parser `p` and printer `s` are *matched behind a separator* when the text of a value,
  followed by the separator (or by nothing, or by the closing bracket) and anything, is converted to that value using exactly its
  characters.  For such members the composite conversions invert the composite printers.  The integer types are matched
  (`matched_signed`, `matched_unsigned`: the texts end where the digits end).
-/
import PotasscoVerif.Props.C16b
namespace PotasscoVerif.C16
open PotasscoVerif PotasscoVerif.StringConvert PotasscoVerif.Decimal PotasscoVerif.AspifOut
open PotasscoVerif.BufferedStream (isDigit)

/-- what may follow a member: nothing, or a character that neither continues a number nor starts a base prefix -/
def Stop (k : List Nat) : Prop := ∀ c r, k = c :: r → isDigit c = false ∧ c ≠ 120 ∧ c ≠ 88

def Matched {α : Type} (p : List Nat → Option (α × Nat)) (s : α → List Nat) (Ok : α → Prop) : Prop :=
  ∀ v, Ok v → ∀ k, Stop k → p (s v ++ k) = some (v, (s v).length)

theorem stop_nds {k : List Nat} (h : Stop k) : NDS k := fun c r e => (h c r e).1
theorem stop_base {k : List Nat} (h : Stop k) : ∀ c r, k = c :: r → ¬ (c = 120 ∨ c = 88 ∨ (48 ≤ c ∧ c ≤ 55)) := by
  intro c r e
  obtain ⟨h1, h2, h3⟩ := h c r e
  simp [isDigit] at h1
  omega

/-- **signed integers are matched**: the decimal text of `v`, followed by anything that is no digit (and no base prefix), reads back as `v` -/
theorem matched_signed (lo hi : Int) (hlo : LLMIN ≤ lo) (hhi : hi ≤ LLMAX) :
    Matched (fun x => parseSigned x lo hi) showSigned (fun v => lo ≤ v ∧ v ≤ hi) := by
  intro v hv k hk
  show parseSigned (showSigned v ++ k) lo hi = _
  unfold showSigned StringBuilder.numText printInt
  by_cases hneg : v < 0
  · simp only [hneg, ↓reduceIte]
    have h := C16_decimal_exact .minus (printNat v.natAbs) k lo hi (printNat_digits _) (printNat_ne_nil _) (stop_nds hk)
      (by simp [Sign.text, detectBase]) hlo hhi
    simp only [Sign.text, List.cons_append, List.nil_append, val_printNat, Sign.apply] at h
    have hvv : -((v.natAbs : Nat) : Int) = v := by omega
    rw [hvv] at h
    simp only [List.cons_append]
    rw [h]; simp [hv]; omega
  · simp only [hneg, ↓reduceIte]
    have hb : detectBase (Sign.none.text ++ (printNat v.toNat ++ k)) = 10 := by
      simp only [Sign.text, List.nil_append]
      exact detectBase_printNat v.toNat k (stop_base hk)
    have h := C16_decimal_exact .none (printNat v.toNat) k lo hi (printNat_digits _) (printNat_ne_nil _) (stop_nds hk) hb hlo hhi
    simp only [Sign.text, List.nil_append, val_printNat, Sign.apply, List.length_nil, Nat.zero_add] at h
    have hvv : ((v.toNat : Nat) : Int) = v := by omega
    rw [hvv] at h
    rw [h]; simp [hv]

/-- **unsigned integers are matched** (the maximum is written `umax`) -/
theorem matched_unsigned (uMax : Nat) (hmax : uMax ≤ ULLMAX) :
    Matched (fun x => parseUnsigned x uMax) (fun v => showUnsigned v uMax) (fun v => v ≤ uMax) := by
  intro v hv k hk
  show parseUnsigned (showUnsigned v uMax ++ k) uMax = _
  unfold showUnsigned
  by_cases he : v = uMax
  · subst he
    simp only [↓reduceIte]
    exact C16_keyword_umax k v
  · simp only [he, ↓reduceIte, StringBuilder.numText, printInt]
    have hnn : ¬ ((v : Int) < 0) := by omega
    simp only [hnn, ↓reduceIte, Int.toNat_natCast]
    obtain ⟨d, r, e, hd⟩ := printNat_head_digit v
    have hst := strto_decimal .none (printNat v) k (printNat_digits _) (printNat_ne_nil _) (stop_nds hk)
    simp only [Sign.text, List.nil_append, val_printNat, List.length_nil, Nat.zero_add] at hst
    have hb := detectBase_printNat v k (stop_base hk)
    unfold parseUnsigned
    rw [e] at hb hst ⊢
    simp only [List.cons_append] at hb hst ⊢
    have hd45 : (d == 45) = false := by simp [isDigit] at hd; simp; omega
    have hk1 := startsWith_digit_false d (r ++ k) 105 [109, 97, 120] hd (by decide)
    have hk2 := startsWith_digit_false d (r ++ k) 117 [109, 97, 120] hd (by decide)
    have hk3 := startsWith_digit_false d (r ++ k) 45 [49] hd (by decide)
    simp only [hd45, Bool.false_and, Bool.false_eq_true, ↓reduceIte, hk1, hk2, hk3, hb, hst, List.isEmpty_cons]
    have h1 : ¬ (v > ULLMAX) := by omega
    simp [h1]; omega

/-- **accepted iff it fits, and then exact** — decimal texts (optionally with `+`) of any length for unsigned types -/
theorem C16_decimal_exact_unsigned (plus : Bool) (ds k : List Nat) (uMax : Nat) (hds : ∀ c ∈ ds, isDigit c = true) (hne : ds ≠ []) (hk : NDS k)
    (hb : detectBase ((if plus then [43] else []) ++ (ds ++ k)) = 10) (hmax : uMax ≤ ULLMAX) :
    parseUnsigned ((if plus then [43] else []) ++ (ds ++ k)) uMax =
      (if CharStream.val ds 0 ≤ uMax then some (CharStream.val ds 0, (if plus then 1 else 0) + ds.length) else none) := by
  obtain ⟨d, r, e⟩ : ∃ d r, ds = d :: r := by
    cases ds with
    | nil => exact absurd rfl hne
    | cons d r => exact ⟨d, r, rfl⟩
  have hd : isDigit d = true := hds d (by rw [e]; simp)
  have hst := strto_decimal (if plus then .plus else .none) ds k hds hne hk
  have htxt : (if plus then Sign.plus else Sign.none).text = (if plus then [43] else []) := by cases plus <;> rfl
  rw [htxt] at hst
  have hneg : decide ((if plus then Sign.plus else Sign.none) = Sign.minus) = false := by cases plus <;> rfl
  obtain ⟨c0, r0, e0, hc0⟩ : ∃ c0 r0, (if plus then [43] else []) ++ (ds ++ k) = c0 :: r0 ∧ (isDigit c0 = true ∨ c0 = 43) := by
    cases plus with
    | false => exact ⟨d, r ++ k, by simp [e], Or.inl hd⟩
    | true => exact ⟨43, ds ++ k, by simp, Or.inr rfl⟩
  have hkw : ∀ p0 p, (p0 = 105 ∨ p0 = 117 ∨ p0 = 45) → startsWith (c0 :: r0) (p0 :: p) = false := by
    intro p0 p hp0; unfold startsWith; simp only [List.isPrefixOf]
    have : p0 ≠ c0 := by rcases hc0 with h | h <;> (try simp [isDigit] at h) <;> omega
    simp [this]
  have h45 : (c0 == 45) = false := by rcases hc0 with h | h <;> (try simp [isDigit] at h) <;> simp <;> omega
  unfold parseUnsigned
  rw [e0] at hb hst ⊢
  simp only [h45, Bool.false_and, Bool.false_eq_true, ↓reduceIte, hkw 105 _ (Or.inl rfl), hkw 117 _ (Or.inr (Or.inl rfl)), hkw 45 _ (Or.inr (Or.inr rfl)), hb, hst, hneg]
  have hlen : ¬ ((if plus then [43] else []).length + ds.length = 0) := by rw [e]; simp
  have hl2 : (if plus then [43] else ([] : List Nat)).length = (if plus then 1 else 0) := by cases plus <;> rfl
  by_cases hfit : CharStream.val ds 0 ≤ uMax
  · have h1 : ¬ (CharStream.val ds 0 > ULLMAX) := by omega
    simp [h1, hfit, hl2]
    exact fun _ => hne
  · by_cases h1 : CharStream.val ds 0 > ULLMAX
    · simp [h1, hfit]
    · simp [h1, hfit]

/-! ### pairs -/
def SepOk (sep : Nat) : Prop := isDigit sep = false ∧ sep ≠ 120 ∧ sep ≠ 88 ∧ sep ≠ 40

theorem stop_cons {c : Nat} (h : isDigit c = false ∧ c ≠ 120 ∧ c ≠ 88) (r : List Nat) : Stop (c :: r) := by
  intro x t e; cases e; exact h
theorem stop_nil : Stop [] := by intro c r e; cases e

theorem parsePair_two {α β : Type} (pT : List Nat → Option (α × Nat)) (pU : List Nat → Option (β × Nat)) (sep : Nat) (x : List Nat) (old : α × β)
    (ps : Nat) (hps : (if x.head? = some 40 then 1 else 0) = ps) (a : α) (u1 : Nat) (b : β) (u2 : Nat)
    (h1 : pT (x.drop ps) = some (a, u1)) (hsep : (x.drop (ps + u1)).head? = some sep) (hne : ((x.drop (ps + u1)).drop 1).isEmpty = false)
    (h2 : pU ((x.drop (ps + u1)).drop 1) = some (b, u2)) (hclose : ps = 0 ∨ (x.drop (ps + u1 + 1 + u2)).head? = some 41) :
    parsePair pT pU sep x old = (2, (a, b), ps + u1 + 1 + u2 + ps) := by
  unfold parsePair
  simp only [hps, h1, Option.isSome_some, hsep, hne, Bool.not_false, Bool.and_self, decide_true, ↓reduceIte, h2, hclose, true_or]
  rfl

/-- **C16 (pairs)**: the text `first sep second` of a pair of matched members is converted back to exactly the pair, both members counted,
    the end position at the end of the text -/
theorem C16_pair_roundtrip {α β : Type} (pT : List Nat → Option (α × Nat)) (pU : List Nat → Option (β × Nat)) (sT : α → List Nat) (sU : β → List Nat)
    (OkT : α → Prop) (OkU : β → Prop) (hT : Matched pT sT OkT) (hU : Matched pU sU OkU) (sep : Nat) (hsep : SepOk sep)
    (a : α) (b : β) (ha : OkT a) (hb : OkU b) (h40 : ∀ r, sT a ≠ 40 :: r) (hne : sU b ≠ []) (old : α × β) :
    parsePair pT pU sep (showPair sT sU sep (a, b)) old = (2, (a, b), (showPair sT sU sep (a, b)).length) := by
  unfold showPair
  simp only
  have hhead : (sT a ++ sep :: sU b).head? ≠ some 40 := by
    cases hs : sT a with
    | nil => simp; exact fun h => hsep.2.2.2 h
    | cons c r => simp; intro h; exact h40 r (by rw [hs, h])
  have e1 := hT a ha (sep :: sU b) (stop_cons ⟨hsep.1, hsep.2.1, hsep.2.2.1⟩ _)
  have e2 := hU b hb [] stop_nil
  rw [List.append_nil] at e2
  have hne' : (sU b).isEmpty = false := by
    cases hs : sU b with
    | nil => exact absurd hs hne
    | cons c r => rfl
  have hd : List.drop (0 + (sT a).length) (sT a ++ sep :: sU b) = sep :: sU b := by rw [Nat.zero_add]; exact List.drop_left
  have := parsePair_two pT pU sep (sT a ++ sep :: sU b) old 0 (by rw [if_neg hhead]) a (sT a).length b (sU b).length (by simpa using e1)
    (by rw [hd]; rfl) (by rw [hd]; simpa using hne') (by rw [hd]; simpa using e2) (Or.inl rfl)
  rw [this]
  simp; omega

/-- the same in parentheses -/
theorem C16_pair_paren {α β : Type} (pT : List Nat → Option (α × Nat)) (pU : List Nat → Option (β × Nat)) (sT : α → List Nat) (sU : β → List Nat)
    (OkT : α → Prop) (OkU : β → Prop) (hT : Matched pT sT OkT) (hU : Matched pU sU OkU) (sep : Nat) (hsep : SepOk sep)
    (a : α) (b : β) (ha : OkT a) (hb : OkU b) (hne : sU b ≠ []) (old : α × β) :
    parsePair pT pU sep (40 :: (showPair sT sU sep (a, b) ++ [41])) old = (2, (a, b), (showPair sT sU sep (a, b)).length + 2) := by
  unfold showPair
  simp only
  have e1 := hT a ha (sep :: (sU b ++ [41])) (stop_cons ⟨hsep.1, hsep.2.1, hsep.2.2.1⟩ _)
  have e2 := hU b hb [41] (stop_cons ⟨by rfl, by decide, by decide⟩ _)
  have hne' : (sU b ++ [41]).isEmpty = false := by
    cases hs : sU b with
    | nil => exact absurd hs hne
    | cons c r => rfl
  have hx : (40 :: (sT a ++ sep :: sU b ++ [41])) = 40 :: (sT a ++ (sep :: (sU b ++ [41]))) := by simp
  rw [hx]
  have hd : List.drop (1 + (sT a).length) (40 :: (sT a ++ (sep :: (sU b ++ [41])))) = sep :: (sU b ++ [41]) := by
    rw [Nat.add_comm]; simp
  have hd2 : List.drop (1 + (sT a).length + 1 + (sU b).length) (40 :: (sT a ++ sep :: (sU b ++ [41]))) = [41] := by
    have h1 : 1 + (sT a).length + 1 + (sU b).length = ((sT a ++ sep :: sU b).length) + 1 := by simp; omega
    rw [h1, List.drop_succ_cons]
    have h2 : sT a ++ sep :: (sU b ++ [41]) = (sT a ++ sep :: sU b) ++ [41] := by simp
    rw [h2]; exact List.drop_left
  have := parsePair_two pT pU sep (40 :: (sT a ++ (sep :: (sU b ++ [41])))) old 1 (by simp) a (sT a).length b (sU b).length (by simpa using e1)
    (by rw [hd]; rfl) (by rw [hd]; simpa using hne') (by rw [hd]; simpa using e2) (Or.inr (by rw [hd2]; rfl))
  rw [this]
  simp; omega

/-! ### lists -/
theorem showSeq_cons2 {α : Type} (sT : α → List Nat) (sep : Nat) (v w : α) (r : List α) : showSeq sT sep (v :: w :: r) = sT v ++ sep :: showSeq sT sep (w :: r) := rfl

theorem showSeq_ne_nil {α : Type} (sT : α → List Nat) (sep : Nat) (l : List α) (hl : l ≠ []) (hne : ∀ v ∈ l, sT v ≠ []) : showSeq sT sep l ≠ [] := by
  cases l with
  | nil => exact absurd rfl hl
  | cons v r =>
    cases r with
    | nil => exact hne v (by simp)
    | cons w t => rw [showSeq_cons2]; intro h; simp at h

theorem parseSeqLoop_show {α : Type} (pT : List Nat → Option (α × Nat)) (sT : α → List Nat) (Ok : α → Prop) (hT : Matched pT sT Ok) (sep : Nat) (hsep : SepOk sep) :
    ∀ (l : List α), l ≠ [] → (∀ v ∈ l, Ok v ∧ sT v ≠ []) → ∀ (k : List Nat), Stop k → (k = [] ∨ ∃ c t, k = c :: t ∧ c ≠ sep) →
      ∀ (f : Nat) (pre : List Nat) (acc : List α), l.length ≤ f →
      parseSeqLoop pT sep f (pre ++ (showSeq sT sep l ++ k)) pre.length acc = (acc ++ l, pre.length + (showSeq sT sep l).length) := by
  intro l
  induction l with
  | nil => intro h; exact absurd rfl h
  | cons v r ih =>
    intro _ hok k hk hksep f pre acc hf
    cases f with
    | zero => simp at hf
    | succ f =>
      obtain ⟨hv, hvne⟩ := hok v (by simp)
      cases r with
      | nil =>
        simp only [showSeq, parseSeqLoop, List.drop_left]
        rw [hT v hv k hk]
        simp only
        have hd : List.drop (pre.length + (sT v).length) (pre ++ (sT v ++ k)) = k := by
          rw [← List.append_assoc, ← List.length_append]; exact List.drop_left
        simp only [hd]
        rcases hksep with h | ⟨c, t, h, hc⟩
        · subst h; simp
        · subst h
          have : (some c != some sep) = true := by simp; exact hc
          simp [this]
      | cons w t =>
        rw [showSeq_cons2]
        simp only [parseSeqLoop, List.drop_left, List.append_assoc, List.cons_append]
        rw [hT v hv (sep :: (showSeq sT sep (w :: t) ++ k)) (stop_cons ⟨hsep.1, hsep.2.1, hsep.2.2.1⟩ _)]
        simp only
        have hd : List.drop (pre.length + (sT v).length) (pre ++ (sT v ++ sep :: (showSeq sT sep (w :: t) ++ k))) = sep :: (showSeq sT sep (w :: t) ++ k) := by
          rw [← List.append_assoc, ← List.length_append]; exact List.drop_left
        simp only [hd]
        have hne := showSeq_ne_nil sT sep (w :: t) (by simp) (fun x hx => (hok x (by simp [hx])).2)
        have hne' : (showSeq sT sep (w :: t) ++ k).isEmpty = false := by
          cases hs : showSeq sT sep (w :: t) with
          | nil => exact absurd hs hne
          | cons _ _ => rfl
        simp only [List.isEmpty_cons, List.head?_cons, bne_self_eq_false, List.drop_succ_cons, List.drop_zero, hne', Bool.or_self, Bool.false_eq_true, ↓reduceIte]
        have := ih (by simp) (fun x hx => hok x (by simp [hx])) k hk hksep f (pre ++ (sT v ++ [sep])) (acc ++ [v]) (by simp at hf ⊢; omega)
        simp only [List.append_assoc, List.cons_append, List.nil_append, List.length_append, List.length_cons, List.length_nil] at this
        rw [show pre.length + (sT v).length + 1 = pre.length + ((sT v).length + (0 + 1)) by omega, this]
        simp; omega

/-- **C16 (lists)**: the text `v1 sep v2 … sep vn` of a non-empty list of matched members is converted back to exactly the list, the end
    position at the end of the text -/
theorem C16_list_roundtrip {α : Type} (pT : List Nat → Option (α × Nat)) (sT : α → List Nat) (Ok : α → Prop) (hT : Matched pT sT Ok) (sep : Nat) (hsep : SepOk sep)
    (l : List α) (hl : l ≠ []) (hok : ∀ v ∈ l, Ok v ∧ sT v ≠ []) (h91 : (showSeq sT sep l).head? ≠ some 91) :
    parseSeq pT sep (showSeq sT sep l) = (l, (showSeq sT sep l).length) := by
  have := parseSeqLoop_show pT sT Ok hT sep hsep l hl hok [] stop_nil (Or.inl rfl) ((showSeq sT sep l).length + 1) [] []
    (by
      have : l.length ≤ (showSeq sT sep l).length := by
        clear h91 hl
        induction l with
        | nil => simp
        | cons v r ih =>
          cases r with
          | nil => have := (hok v (by simp)).2; cases hs : sT v with | nil => exact absurd hs this | cons _ _ => simp [showSeq, hs]
          | cons w t =>
            rw [showSeq_cons2]
            have := ih (fun x hx => hok x (by simp [hx]))
            simp only [List.length_append, List.length_cons] at this ⊢; omega
      omega)
  simp only [List.nil_append, List.append_nil, List.length_nil, Nat.zero_add] at this
  unfold parseSeq
  simp only [h91, ↓reduceIte, this, true_or, Nat.add_zero]

/-- `pair<int, unsigned>` and `vector<int>` as the library instantiates them -/
theorem C16_pair_int_unsigned (a : Int) (b : Nat) (ha : -2147483648 ≤ a ∧ a ≤ 2147483647) (hb : b ≤ 4294967295) (old : Int × Nat) :
    parsePair (fun x => parseSigned x (-2147483648) 2147483647) (fun x => parseUnsigned x 4294967295) 44
      (showPair showSigned (fun v => showUnsigned v 4294967295) 44 (a, b)) old =
      (2, (a, b), (showPair showSigned (fun v => showUnsigned v 4294967295) 44 (a, b)).length) := by
  apply C16_pair_roundtrip _ _ _ _ _ _ (matched_signed _ _ (by decide) (by decide)) (matched_unsigned _ (by decide)) 44 ⟨rfl, by decide, by decide, by decide⟩ a b ha hb
  · intro r h
    unfold showSigned StringBuilder.numText printInt at h
    split at h
    · cases h
    · obtain ⟨d, t, e, hd⟩ := printNat_head_digit a.toNat
      rw [e] at h; cases h; simp [isDigit] at hd
  · unfold showUnsigned
    split
    · simp
    · unfold StringBuilder.numText printInt
      simp only [show ¬ ((b : Int) < 0) by omega, ↓reduceIte]
      exact printNat_ne_nil _

theorem showSigned_head (v : Int) : ∃ c r, showSigned v = c :: r ∧ (c = 45 ∨ isDigit c = true) := by
  unfold showSigned StringBuilder.numText printInt
  split
  · exact ⟨45, _, rfl, Or.inl rfl⟩
  · obtain ⟨d, t, e, hd⟩ := printNat_head_digit v.toNat
    exact ⟨d, t, e, Or.inr hd⟩

theorem C16_list_int (l : List Int) (hl : l ≠ []) (hr : ∀ v ∈ l, -2147483648 ≤ v ∧ v ≤ 2147483647) :
    parseSeq (fun x => parseSigned x (-2147483648) 2147483647) 44 (showSeq showSigned 44 l) = (l, (showSeq showSigned 44 l).length) := by
  apply C16_list_roundtrip _ _ _ (matched_signed _ _ (by decide) (by decide)) 44 ⟨rfl, by decide, by decide, by decide⟩ l hl
  · intro v hv
    obtain ⟨c, r, e, _⟩ := showSigned_head v
    exact ⟨hr v hv, by rw [e]; simp⟩
  · cases l with
    | nil => exact absurd rfl hl
    | cons v r =>
      obtain ⟨c, t, e, hc⟩ := showSigned_head v
      cases r with
      | nil => simp only [showSeq, e, List.head?_cons]; intro h; cases h; rcases hc with h | h <;> simp [isDigit] at h
      | cons w t' => rw [showSeq_cons2, e]; simp only [List.cons_append, List.head?_cons]; intro h; cases h; rcases hc with h | h <;> simp [isDigit] at h

/-! non-vacuity -/
example : parsePair (fun x => parseSigned x (-2147483648) 2147483647) (fun x => parseUnsigned x 4294967295) 44 [45, 53, 44, 117, 109, 97, 120] ((0 : Int), (0 : Nat)) = (2, (-5, 4294967295), 7) := by
  have := C16_pair_int_unsigned (-5) 4294967295 (by decide) (by decide) (0, 0)
  simpa [showPair, showSigned, showUnsigned, StringBuilder.numText, printInt, printNat, digitsAux] using this
example : parseSeq (fun x => parseSigned x (-2147483648) 2147483647) 44 [49, 44, 45, 50, 44, 51] = ([1, -2, 3], 6) := by decide +kernel
/-- the quirk of the pair conversion on an empty text: one member is "converted", nothing is assigned -/
example : parsePair (fun x => parseSigned x (-2147483648) 2147483647) (fun x => parseUnsigned x 4294967295) 44 [] ((7 : Int), (9 : Nat)) = (1, (7, 9), 0) := by decide +kernel

end PotasscoVerif.C16
