/-
  C19 — help and default-command-line output list exactly the visible options, safely.
  Theorems about Model/OptFormat.lean (tied to src/program_options.cpp by the `of` correspondence).
-/
import PotasscoVerif.Model.OptFormat
import PotasscoVerif.Props.C13
namespace PotasscoVerif.C19
open PotasscoVerif.Options PotasscoVerif.OptFormat

/-! ## the option column: sprintf into the computed buffer -/

/-- **C19 (buffer safety)**: whatever the lengths of name and argument name, with or without alias, implicit value and
    negation, every `sprintf` of `DefaultFormat::format(buf, option, maxW)` — including its terminating NUL — stays inside
    the buffer of `max(maxW, maxColumn) + 3 (+3)` characters. -/
theorem C19_sprintf_safe (o : OptSpec) (maxW : Nat) : (formatOpt o maxW).viol = false := by
  unfold formatOpt maxColumn FB.sprintf
  generalize argName o = arg
  rcases arg with _ | ⟨a0, ar⟩ <;> cases o.negatable <;> cases o.implicit <;> by_cases hal : o.alias = 0 <;>
    simp [hal] <;> (try split) <;> simp <;> omega

/-- the text written before padding -/
def headText (o : OptSpec) : List Nat :=
  let arg := argName o
  let np : List Nat := if o.negatable && arg.isEmpty then [91, 110, 111, 45, 93] else []
  let ap : List Nat := if o.negatable && !arg.isEmpty then [124, 110, 111] else []
  [32, 32, 45, 45] ++ np ++ o.name
    ++ (if o.implicit && !arg.isEmpty then [91, 61] ++ arg ++ ap ++ [93] else [])
    ++ (if o.alias != 0 then [44, 45, o.alias] else [])
    ++ (if !o.implicit then (if o.alias == 0 then 61 else 32) :: (arg ++ ap) else [])

/-- **C19 (entry shape and column)**: the option column is `  --[no-]name[=arg|no],-a …` padded with blanks to `maxW`;
    it is never shorter than `maxW`, and the estimate `maxColumn` is off by at most one character. -/
theorem C19_column (o : OptSpec) (maxW : Nat) :
    (formatOpt o maxW).text = headText o ++ List.replicate (maxW - (headText o).length) 32 ∧
    maxW ≤ (formatOpt o maxW).text.length ∧ (headText o).length ≤ maxColumn o + 1 := by
  have h1 : (formatOpt o maxW).text = headText o ++ List.replicate (maxW - (headText o).length) 32 := by
    unfold formatOpt headText FB.sprintf
    generalize argName o = arg
    cases o.negatable <;> cases o.implicit <;> by_cases hal : o.alias = 0 <;> rcases arg with _ | ⟨a0, ar⟩ <;>
      simp [hal] <;> split <;> simp_all <;> omega
  refine ⟨h1, ?_, ?_⟩
  · rw [h1]; simp; omega
  · unfold headText maxColumn
    generalize argName o = arg
    cases o.negatable <;> cases o.implicit <;> by_cases hal : o.alias = 0 <;> rcases arg with _ | ⟨a0, ar⟩ <;>
      simp [hal] <;> omega

/-! ## descriptions: placeholder substitution -/
inductive Seg where
  | lit (s : List Nat) | dflt | arg | impl | pct
deriving Repr, DecidableEq

def Seg.enc : Seg → List Nat
  | .lit s => s | .dflt => [37, 68] | .arg => [37, 65] | .impl => [37, 73] | .pct => [37, 37]
def Seg.out (o : OptSpec) : Seg → List Nat
  | .lit s => s | .dflt => o.dflt.getD [] | .arg => argName o | .impl => implicitStr o | .pct => [37]
def Seg.ok : Seg → Prop
  | .lit s => ∀ c ∈ s, c ≠ 37
  | _ => True

theorem descLoop_lit (o : OptSpec) (f : Nat) (s t acc : List Nat) (h : ∀ c ∈ s, c ≠ 37) :
    descLoop o (f + 1) (s ++ t) acc = descLoop o (f + 1) t (acc ++ s) := by
  have hp : ∀ a ∈ s, (a != 37) = true := fun a ha => by simpa using h a ha
  simp only [descLoop]
  rw [List.takeWhile_append_of_pos hp, List.dropWhile_append_of_pos hp]
  simp only [List.append_assoc]

theorem descLoop_segs (o : OptSpec) (segs : List Seg) (hok : ∀ s ∈ segs, s.ok) (f : Nat) (acc : List Nat)
    (hf : (segs.flatMap Seg.enc).length < f) : descLoop o f (segs.flatMap Seg.enc) acc = acc ++ segs.flatMap (Seg.out o) := by
  induction segs generalizing f acc with
  | nil => cases f with
    | zero => simp at hf
    | succ f => simp [descLoop]
  | cons sg rest ih =>
    have hrest : ∀ s ∈ rest, s.ok := fun s hs => hok s (by simp [hs])
    cases f with
    | zero => simp at hf
    | succ f =>
      simp only [List.flatMap_cons] at hf ⊢
      cases sg with
      | lit s =>
        have hs : ∀ c ∈ s, c ≠ 37 := hok (.lit s) (by simp)
        simp only [Seg.enc, Seg.out]
        rw [descLoop_lit o f s _ acc hs, ih hrest (f + 1) (acc ++ s) (by simp only [Seg.enc, List.length_append] at hf; omega), List.append_assoc]
      | dflt =>
        simp only [Seg.enc, Seg.out, List.cons_append, List.nil_append, descLoop]
        simp
        rw [ih hrest f _ (by simp only [Seg.enc, List.length_append, List.length_cons, List.length_nil] at hf; omega)]; simp
      | arg =>
        simp only [Seg.enc, Seg.out, List.cons_append, List.nil_append, descLoop]
        simp
        rw [ih hrest f _ (by simp only [Seg.enc, List.length_append, List.length_cons, List.length_nil] at hf; omega)]; simp
      | impl =>
        simp only [Seg.enc, Seg.out, List.cons_append, List.nil_append, descLoop]
        simp
        rw [ih hrest f _ (by simp only [Seg.enc, List.length_append, List.length_cons, List.length_nil] at hf; omega)]; simp
      | pct =>
        simp only [Seg.enc, Seg.out, List.cons_append, List.nil_append, descLoop]
        simp
        rw [ih hrest f _ (by simp only [Seg.enc, List.length_append, List.length_cons, List.length_nil] at hf; omega)]; simp

/-- **C19 (placeholders)**: a description made of literal pieces (without '%') and the placeholders %D %A %I %% is rendered
    as `: ` + the pieces with default value, argument name, implicit value and a percent sign + newline. -/
theorem C19_placeholders (o : OptSpec) (segs : List Seg) (hok : ∀ s ∈ segs, s.ok) (hd : o.desc = segs.flatMap Seg.enc) :
    formatDesc o = [58, 32] ++ segs.flatMap (Seg.out o) ++ [10] := by
  unfold formatDesc
  rw [hd, descLoop_segs o segs hok _ [] (by omega)]; simp

/-! ## the description: which options, in which order -/
/-- the options printed at active level `dl`, in print order -/
def printedOpts (c : Context) (dl : Nat) : List Nat :=
  (printOrder c).flatMap (fun g => if groupLevel c g ≤ dl then (members c g).filter (fun k => (optOf c k).level ≤ dl) else [])

/-- one entry: option column and description -/
def entry (c : Context) (dl : Nat) (k : Nat) : List Nat := (formatOpt (optOf c k) (maxWidth c dl)).text ++ formatDesc (optOf c k)

theorem foldl_cond_append {α : Type} (l : List α) (p : α → Bool) (f : α → List Nat) (init : List Nat) :
    l.foldl (fun out x => if p x then out ++ f x else out) init = init ++ (l.filter p).flatMap f := by
  induction l generalizing init with
  | nil => simp
  | cons a r ih =>
    simp only [List.foldl_cons, List.filter_cons]
    split
    · rw [ih]; simp
    · rw [ih]

/-- **C19 (description shape)**: the description is, for the sub-groups in the order they were added and then the first
    group, and only for groups whose level does not exceed the active level: the caption, then one entry for each member
    option whose own level does not exceed the active level, in the order they were added. -/
theorem C19_description_shape (c : Context) (dl : Nat) :
    description c dl = (printOrder c).flatMap (fun g =>
      if groupLevel c g ≤ dl then formatGroup g ++ ((members c g).filter (fun k => (optOf c k).level ≤ dl)).flatMap (entry c dl) else []) := by
  unfold description formatMembers
  have inner : ∀ g out, (members c g).foldl (fun out k => if (optOf c k).level ≤ dl then out ++ (formatOpt (optOf c k) (maxWidth c dl)).text ++ formatDesc (optOf c k) else out) out
      = out ++ ((members c g).filter (fun k => (optOf c k).level ≤ dl)).flatMap (entry c dl) := by
    intro g out
    have := foldl_cond_append (members c g) (fun k => decide ((optOf c k).level ≤ dl)) (entry c dl) out
    simp only [entry, decide_eq_true_eq] at this ⊢
    rw [← this]
    congr 1; funext out k; split <;> simp
  simp only [inner]
  generalize printOrder c = gs
  suffices h : ∀ init, gs.foldl (fun out g => if groupLevel c g ≤ dl then out ++ formatGroup g ++ ((members c g).filter (fun k => (optOf c k).level ≤ dl)).flatMap (entry c dl) else out) init
      = init ++ gs.flatMap (fun g => if groupLevel c g ≤ dl then formatGroup g ++ ((members c g).filter (fun k => (optOf c k).level ≤ dl)).flatMap (entry c dl) else []) by
    simpa using h []
  intro init
  induction gs generalizing init with
  | nil => simp
  | cons g r ih =>
    simp only [List.foldl_cons, List.flatMap_cons]
    rw [ih]; split <;> simp

/-! ### visibility -/
theorem mem_dedup (l : List Nat) (x : Nat) : x ∈ dedup l ↔ x ∈ l := by
  induction l with
  | nil => simp [dedup]
  | cons a r ih =>
    simp only [dedup, List.mem_cons, List.mem_filter, ih]
    constructor
    · rintro (h | ⟨h, _⟩); exact Or.inl h; exact Or.inr h
    · rintro (h | h)
      · exact Or.inl h
      · by_cases e : x = a
        · exact Or.inl e
        · exact Or.inr ⟨h, by simpa using e⟩

theorem nodup_dedup (l : List Nat) : (dedup l).Nodup := by
  induction l with
  | nil => simp [dedup]
  | cons a r ih =>
    simp only [dedup, List.nodup_cons, List.mem_filter]
    exact ⟨fun h => by simp at h, (List.filter_sublist).nodup ih⟩

theorem mem_tail_head (l : List Nat) (x : Nat) : x ∈ l.tail ++ l.head?.toList ↔ x ∈ l := by
  cases l <;> simp [or_comm]
theorem mem_printOrder (c : Context) (g : Nat) : g ∈ printOrder c ↔ g ∈ c.opts.map (·.group) := by
  unfold printOrder groupIds
  rw [mem_tail_head, mem_dedup]

theorem nodup_printOrder (c : Context) : (printOrder c).Nodup := by
  unfold printOrder groupIds
  have := nodup_dedup (c.opts.map (·.group))
  cases h : dedup (c.opts.map (·.group)) with
  | nil => simp
  | cons a r =>
    rw [h] at this
    simp only [List.tail_cons, List.head?_cons, Option.toList_some]
    rw [List.nodup_cons] at this
    rw [List.nodup_append]
    refine ⟨this.2, by simp, ?_⟩
    intro x hx y hy; simp at hy; subst hy
    intro e; subst e; exact this.1 hx

theorem mem_members (c : Context) (g k : Nat) : k ∈ members c g ↔ k < c.opts.length ∧ (optOf c k).group = g := by
  simp [members]

theorem optOf_group_mem (c : Context) (k : Nat) (hk : k < c.opts.length) : (optOf c k).group ∈ c.opts.map (·.group) := by
  have : optOf c k = c.opts[k] := by simp [optOf, List.getD, hk]
  rw [this]; exact List.mem_map_of_mem (List.getElem_mem hk)

/-- **C19 (visible options, exactly once)**: the options printed at active level `dl` are exactly those whose own level and
    whose group's level do not exceed `dl` — no option above the level is listed — and none is listed twice. -/
theorem C19_visible_exactly_once (c : Context) (dl : Nat) :
    (printedOpts c dl).Nodup ∧
    ∀ k, k ∈ printedOpts c dl ↔ (k < c.opts.length ∧ (optOf c k).level ≤ dl ∧ groupLevel c (optOf c k).group ≤ dl) := by
  constructor
  · unfold printedOpts
    have hnd := nodup_printOrder c
    generalize printOrder c = gs at hnd
    induction gs with
    | nil => simp
    | cons g r ih =>
      rw [List.nodup_cons] at hnd
      simp only [List.flatMap_cons]
      rw [List.nodup_append]
      refine ⟨?_, ih hnd.2, ?_⟩
      · split
        · exact (List.filter_sublist).nodup ((List.filter_sublist).nodup List.nodup_range)
        · simp
      · intro a ha b hb e
        subst e
        have hag : (optOf c a).group = g := by
          split at ha
          · exact ((mem_members c g a).mp (List.mem_filter.mp ha).1).2
          · cases ha
        rw [List.mem_flatMap] at hb
        obtain ⟨g', hg', hb⟩ := hb
        have : (optOf c a).group = g' := by
          split at hb
          · exact ((mem_members c g' a).mp (List.mem_filter.mp hb).1).2
          · cases hb
        rw [hag] at this; subst this; exact hnd.1 hg'
  · intro k
    unfold printedOpts
    rw [List.mem_flatMap]
    constructor
    · rintro ⟨g, _, hk⟩
      split at hk
      · rename_i hg
        have hm := List.mem_filter.mp hk
        have hmem := (mem_members c g k).mp hm.1
        exact ⟨hmem.1, by simpa using hm.2, by rw [hmem.2]; exact hg⟩
      · cases hk
    · rintro ⟨hk, hl, hg⟩
      refine ⟨(optOf c k).group, (mem_printOrder c _).mpr (optOf_group_mem c k hk), ?_⟩
      rw [if_pos hg]
      exact List.mem_filter.mpr ⟨(mem_members c _ k).mpr ⟨hk, rfl⟩, by simpa using hl⟩

/-- the description written in terms of the printed options: the entries of `printedOpts`, group by group -/
theorem setActive_caps (x : Nat) : activeLevel x ≤ 4 := by unfold activeLevel; omega
/-- options at level `hidden` (5) are never listed, whatever level is requested -/
theorem hidden_never_printed (c : Context) (x k : Nat) (h : 5 ≤ (optOf c k).level) : k ∉ printedOpts c (activeLevel x) := by
  intro hm
  have := ((C19_visible_exactly_once c (activeLevel x)).2 k).mp hm
  have := setActive_caps x; omega

/-! ## the default command line -/
def optWord (o : OptSpec) (d : List Nat) : List Nat := 45 :: 45 :: (o.name ++ 61 :: d)
/-- the words the default command line is meant to consist of -/
def wantWords (c : Context) (ks : List Nat) : List (List Nat) := ks.filterMap (fun k => (optOf c k).dflt.map (optWord (optOf c k)))
def wantPairs (c : Context) (ks : List Nat) : List (Nat × List Nat) := ks.filterMap (fun k => (optOf c k).dflt.map (fun d => (k, d)))

theorem defaults_eq_fold (c : Context) (dl n : Nat) :
    defaults c dl n = ((printedOpts c dl).foldl (fun st k => defaultsStep n st (optOf c k)) (([] : List Nat), n)).1 := by
  unfold defaults printedOpts
  rw [List.foldl_flatMap]
  congr 1
  congr 1
  funext st g
  split
  · rw [List.foldl_filter]; congr 1; funext st k; simp
  · rfl

/-- separator/word pairs written one after the other, each word followed by a blank -/
def shape : List (List Nat × List Nat) → List Nat
  | [] => []
  | (sep, tok) :: r => sep ++ tok ++ 32 :: shape r

theorem shape_append (a b : List (List Nat × List Nat)) : shape (a ++ b) = shape a ++ shape b := by
  induction a with
  | nil => rfl
  | cons p r ih => obtain ⟨sep, tok⟩ := p; simp [shape, ih]

theorem shape_length (ps : List (List Nat × List Nat)) : ps.length ≤ (shape ps).length := by
  induction ps with
  | nil => simp
  | cons p r ih => obtain ⟨sep, tok⟩ := p; simp [shape]; omega

theorem fold_shape (c : Context) (n : Nat) (ks : List Nat) (st : List Nat × Nat) :
    ∃ ps, (ks.foldl (fun st k => defaultsStep n st (optOf c k)) st).1 = st.1 ++ shape ps ∧ ps.map Prod.snd = wantWords c ks ∧
      ∀ p ∈ ps, ∀ ch ∈ p.1, isCSpace ch = true := by
  induction ks generalizing st with
  | nil => exact ⟨[], by simp [shape], by simp [wantWords], by simp⟩
  | cons k r ih =>
    simp only [List.foldl_cons]
    cases hd : (optOf c k).dflt with
    | none =>
      have : defaultsStep n st (optOf c k) = st := by simp [defaultsStep, hd]
      rw [this]
      obtain ⟨ps, h1, h2, h3⟩ := ih st
      exact ⟨ps, h1, by simp [wantWords, hd] at h2 ⊢; exact h2, h3⟩
    | some d =>
      obtain ⟨ps, h1, h2, h3⟩ := ih (defaultsStep n st (optOf c k))
      by_cases hw : st.2 + ([45, 45] ++ (optOf c k).name ++ [61] ++ d).length > 78
      · have hw' : 78 < st.2 + ((optOf c k).name.length + (d.length + 1) + 1 + 1) := by simp at hw; omega
        refine ⟨(10 :: List.replicate n 32, optWord (optOf c k) d) :: ps, ?_, ?_, ?_⟩
        · rw [h1]; simp [defaultsStep, hd, hw', shape, optWord]
        · simp [wantWords, hd] at h2 ⊢; exact h2
        · intro p hp ch hch
          simp at hp; rcases hp with hp | hp
          · subst hp; simp at hch; rcases hch with hch | hch
            · subst hch; decide
            · rw [hch.2]; decide
          · exact h3 p hp ch hch
      · have hw' : ¬ 78 < st.2 + ((optOf c k).name.length + (d.length + 1) + 1 + 1) := by simp at hw; omega
        refine ⟨([], optWord (optOf c k) d) :: ps, ?_, ?_, ?_⟩
        · rw [h1]; simp [defaultsStep, hd, hw', shape, optWord]
        · simp [wantWords, hd] at h2 ⊢; exact h2
        · intro p hp ch hch
          simp at hp; rcases hp with hp | hp
          · subst hp; simp at hch
          · exact h3 p hp ch hch

/-- characters the command-string tokenizer treats specially -/
def PlainTok (t : List Nat) : Prop := ∀ ch ∈ t, ch ≠ 32 ∧ ch ≠ 34 ∧ ch ≠ 39 ∧ ch ≠ 92

theorem step_plain32 (f ch : Nat) (r acc : List Nat) (h : ch ≠ 32 ∧ ch ≠ 34 ∧ ch ≠ 39 ∧ ch ≠ 92) :
    csToken (f + 1) (ch :: r) 32 acc = csToken f r 32 (ch :: acc) := by
  have e1 : (ch == 32) = false := by simp [h.1]
  have e2 : (ch == 39 || ch == 34) = false := by simp [h.2.1, h.2.2.1]
  have e3 : (ch != 92) = true := by simp [h.2.2.2]
  simp only [csToken, e1, e2, e3, Bool.false_and, Bool.false_eq_true, ↓reduceIte]

theorem csToken_plain (t : List Nat) (f : Nat) (r acc : List Nat) (hp : PlainTok t) (hf : t.length < f) :
    csToken f (t ++ 32 :: r) 32 acc = (acc.reverse ++ t, 32 :: r) := by
  induction t generalizing f acc with
  | nil => cases f with
    | zero => simp at hf
    | succ f => simp [C13.step_blank]
  | cons ch t ih =>
    cases f with
    | zero => simp at hf
    | succ f =>
      rw [List.cons_append, step_plain32 f ch _ acc (hp ch (by simp))]
      rw [ih f (ch :: acc) (fun x hx => hp x (by simp [hx])) (by simp at hf; omega)]
      simp

theorem csTokens_shape (ps : List (List Nat × List Nat)) (pre : List Nat) (f : Nat) (acc : List (List Nat))
    (hpre : ∀ ch ∈ pre, isCSpace ch = true)
    (hps : ∀ p ∈ ps, (∀ ch ∈ p.1, isCSpace ch = true) ∧ PlainTok p.2 ∧ ∃ r, p.2 = 45 :: r) (hf : ps.length < f) :
    csTokens f (pre ++ shape ps) acc = acc.reverse ++ ps.map Prod.snd := by
  induction ps generalizing pre f acc with
  | nil =>
    cases f with
    | zero => simp at hf
    | succ f =>
      simp only [shape, List.append_nil, csTokens]
      have : List.dropWhile isCSpace pre = [] := by
        clear hf
        induction pre with
        | nil => rfl
        | cons a r ih => rw [List.dropWhile_cons_of_pos (hpre a (by simp))]; exact ih (fun ch h => hpre ch (by simp [h]))
      simp [this]
  | cons p r ih =>
    obtain ⟨sep, tok⟩ := p
    have hp := hps (sep, tok) (by simp)
    obtain ⟨hsep, hplain, t', ht'⟩ := hp
    simp only at hsep hplain ht'
    cases f with
    | zero => simp at hf
    | succ f =>
      have hdrop : List.dropWhile isCSpace (pre ++ shape ((sep, tok) :: r)) = tok ++ 32 :: shape r := by
        simp only [shape]
        rw [List.dropWhile_append_of_pos hpre, List.append_assoc, List.dropWhile_append_of_pos hsep, ht', List.cons_append,
          List.dropWhile_cons_of_neg (by decide)]
      simp only [csTokens, hdrop]
      have hne : (tok ++ 32 :: shape r).isEmpty = false := by rw [ht']; rfl
      rw [hne]
      simp only [Bool.false_eq_true, ↓reduceIte]
      rw [csToken_plain tok _ (shape r) [] hplain (by simp; omega)]
      simp only [List.reverse_nil, List.nil_append]
      have := ih [32] f (tok :: acc) (by intro ch hch; simp at hch; subst hch; decide) (fun p hp => hps p (by simp [hp])) (by simp at hf; omega)
      rw [List.singleton_append] at this
      rw [this]; simp

theorem optWord_plain (o : OptSpec) (d : List Nat) (hn : PlainTok o.name) (hd : PlainTok d) : PlainTok (optWord o d) := by
  intro ch hch
  simp only [optWord, List.mem_cons, List.mem_append] at hch
  rcases hch with h | h | h | h | h
  · subst h; decide
  · subst h; decide
  · exact hn ch h
  · subst h; decide
  · exact hd ch h

/-- **C19 (default command line, words)**: when the names and default values of the listed options are single plain
    tokens (no blank, quote or backslash — outside that region the real code does not round-trip: finding D12), the
    command-string tokenizer splits the default command line, including its line wraps and indentation, into exactly the
    words `--name=default` of the visible options that have a default, in print order. -/
theorem C19_defaults_tokens (c : Context) (dl n : Nat)
    (hplain : ∀ k ∈ printedOpts c dl, ∀ d, (optOf c k).dflt = some d → PlainTok (optOf c k).name ∧ PlainTok d) :
    tokenize (defaults c dl n) = wantWords c (printedOpts c dl) := by
  rw [defaults_eq_fold]
  obtain ⟨ps, h1, h2, h3⟩ := fold_shape c n (printedOpts c dl) ([], n)
  rw [h1]
  simp only [List.nil_append]
  unfold tokenize
  have hps : ∀ p ∈ ps, (∀ ch ∈ p.1, isCSpace ch = true) ∧ PlainTok p.2 ∧ ∃ r, p.2 = 45 :: r := by
    intro p hp
    have hm : p.2 ∈ wantWords c (printedOpts c dl) := by rw [← h2]; exact List.mem_map_of_mem hp
    simp only [wantWords, List.mem_filterMap, Option.map_eq_some_iff] at hm
    obtain ⟨k, hk, d, hd, he⟩ := hm
    have := hplain k hk d hd
    exact ⟨h3 p hp, by rw [← he]; exact optWord_plain _ _ this.1 this.2, ⟨_, by rw [← he]; rfl⟩⟩
  have := csTokens_shape ps [] ((shape ps).length + 1) [] (by simp) hps (by have := shape_length ps; omega)
  simp only [List.nil_append, List.reverse_nil] at this
  rw [this, h2]

/-! ### parsing the words back -/
theorem parse_longs (c : Context) (aU : Bool) (pos : Option (List Nat)) (items : List (Nat × List Nat)) (f : Nat)
    (vs : List (Nat × List Nat)) (rem : List (List Nat))
    (hit : ∀ it ∈ items, (∀ x ∈ (optOf c it.1).name, x ≠ 61) ∧ it.2 ≠ [] ∧ getOption c aU (optOf c it.1).name .nameOrPrefix = .ok (some it.1))
    (hf : items.length < f) :
    parseLoop c aU true pos f { toks := items.map (fun it => optWord (optOf c it.1) it.2), values := vs, remaining := rem }
      = .ok { toks := [], values := vs ++ items, remaining := rem } := by
  induction items generalizing f vs with
  | nil => cases f with
    | zero => simp at hf
    | succ f => simp [parseLoop]
  | cons it r ih =>
    obtain ⟨k, v⟩ := it
    have h := hit (k, v) (by simp)
    simp only at h
    cases f with
    | zero => simp at hf
    | succ f =>
      have hl := C13.C13_long_eq c aU true (optOf c k).name v k
        { toks := r.map (fun it => optWord (optOf c it.1) it.2), values := vs, remaining := rem } h.1 h.2.1 (Or.inr trivial) h.2.2 (Or.inr rfl)
      have hpre : ([45, 45] : List Nat).isPrefixOf (optWord (optOf c k) v) = true := by simp [optWord]
      have hlen : ¬ (optWord (optOf c k) v).length = 2 := by simp [optWord]
      have hdrop : (optWord (optOf c k) v).drop 2 = (optOf c k).name ++ 61 :: v := by simp [optWord]
      simp only [List.map_cons, parseLoop, hpre, hlen, hdrop, ↓reduceIte, hl]
      have := ih f (vs ++ [(k, v)]) (fun it hi => hit it (by simp [hi])) (by simp at hf; omega)
      simp only [PState.addValue]
      rw [this]; simp

theorem wantWords_eq_map (c : Context) (ks : List Nat) : wantWords c ks = (wantPairs c ks).map (fun it => optWord (optOf c it.1) it.2) := by
  induction ks with
  | nil => rfl
  | cons k r ih =>
    simp only [wantWords, wantPairs, List.filterMap_cons] at ih ⊢
    cases (optOf c k).dflt <;> simp [ih]

/-- **C19 (default command line, round trip)**: under the single-token hypothesis, and given that each listed option's
    name resolves to that option (C14: an exact name always does), parsing the default command line against the same
    context yields exactly the visible options that have a default, each with its default value, in print order. -/
theorem C19_defaults_parse_back (c : Context) (dl n : Nat) (pos : Option (List Nat))
    (hplain : ∀ k ∈ printedOpts c dl, ∀ d, (optOf c k).dflt = some d →
      PlainTok (optOf c k).name ∧ PlainTok d ∧ d ≠ [] ∧ (∀ x ∈ (optOf c k).name, x ≠ 61) ∧
      getOption c false (optOf c k).name .nameOrPrefix = .ok (some k)) :
    parseString c false true pos (defaults c dl n) = .ok { toks := [], values := wantPairs c (printedOpts c dl), remaining := [] } := by
  unfold parseString
  rw [C19_defaults_tokens c dl n (fun k hk d hd => ⟨(hplain k hk d hd).1, (hplain k hk d hd).2.1⟩)]
  unfold parseArgv
  rw [wantWords_eq_map]
  have := parse_longs c false pos (wantPairs c (printedOpts c dl)) ((wantPairs c (printedOpts c dl)).length + 1) [] []
    (by
      intro it hi
      simp only [wantPairs, List.mem_filterMap, Option.map_eq_some_iff] at hi
      obtain ⟨k, hk, d, hd, he⟩ := hi
      subst he
      have := hplain k hk d hd
      exact ⟨this.2.2.2.1, this.2.2.1, this.2.2.2.2⟩) (by omega)
  simp only [List.length_map, List.nil_append] at this ⊢
  exact this

/-! ### the hypotheses are satisfiable, and the model runs -/
def exCtx : Context := { opts := [
  { name := [104, 101, 108, 112], alias := 104, flag := true, implicit := true, desc := [80, 114, 105, 110, 116] },
  { name := [110, 117, 109], alias := 110, dflt := some [52, 50], arg := some [60, 110, 62], desc := [78, 32, 91, 37, 68, 93], group := 1 },
  { name := [118], level := 2, group := 1, dflt := some [49] } ] }
example : printedOpts exCtx 0 = [1, 0] := by decide +kernel
example : printedOpts exCtx 2 = [1, 2, 0] := by decide +kernel
example : defaults exCtx 0 3 = [45, 45, 110, 117, 109, 61, 52, 50, 32] := by decide +kernel
example : tokenize (defaults exCtx 2 3) = [[45, 45, 110, 117, 109, 61, 52, 50], [45, 45, 118, 61, 49]] := by decide +kernel
example : (formatOpt (optOf exCtx 1) 23).text.length = 23 ∧ (formatOpt (optOf exCtx 1) 23).viol = false := by decide +kernel
example : formatDesc (optOf exCtx 1) = [58, 32, 78, 32, 91, 52, 50, 93, 10] := by decide +kernel
end PotasscoVerif.C19
