/-
  C07 — smodels reader accepts exactly well-formed input and never alters a number.

  The smodels reader model (Model/SmodelsIn.lean) reads every number through the same field matchers
  (`pos`, `posMax`, `atom` = `intIn lo hi`) as the aspif reader, so "a number is never altered" is
  `C03_number_exact` / `C03_reject_out_of_range` (digit strings of any length), instantiated below for the
  bounds the smodels fields use.
  PROVED HERE: `C07_fields_exact` (the instantiation), `C07_ext_gating` (rule types 90/91/92 are refused
  without clasp extensions, whatever follows), `C07_incremental_needs_ext`, `C07_assign_values`
  (the value code of rule 91 is a bijection on 0..2).
  MISSING: acceptance ↔ a declarative smodels grammar; decided by the correspondence run + reference acceptor.
-/
import PotasscoVerif.Props.C03
import PotasscoVerif.Model.SmodelsIn
namespace PotasscoVerif.C07
open PotasscoVerif.CharStream PotasscoVerif.Decimal PotasscoVerif.AspifIn PotasscoVerif.SmodelsIn
open PotasscoVerif.BufferedStream (isWs isDigit I64MAX)

/-- the bounds of every smodels field (counts/rule types: 0..2^32-1; atoms: 1..atomMax resp. 0..atomMax;
    bounds and weights: 0..2^31-1; external value: 0..2) are inside the range for which
    `C03_number_exact` / `C03_reject_out_of_range` hold. -/
theorem C07_fields_exact (lo hi : Int) (hf : (lo, hi) ∈ [(0, (U32MAX : Int)), ((Gen.atomMin : Int), (Gen.atomMax : Int)),
      (0, (Gen.atomMax : Int)), (0, I32MAX), (0, 2)])
    (a : AS) (sg : Sign) (ds ws k : List Nat)
    (hr : a.rest = ws ++ (sg.text ++ (ds ++ k))) (hws : ∀ c ∈ ws, isWs c = true)
    (hds : ∀ c ∈ ds, isDigit c = true) (hne : ds ≠ []) (hk : NDS k) :
    (∀ v a', intIn lo hi a = .ok (v, a') → v = C03.denoted sg ds) ∧
    (¬ (lo ≤ C03.denoted sg ds ∧ C03.denoted sg ds ≤ hi) → ∃ l, intIn lo hi a = .error l) := by
  have hb : -(I64MAX : Int) < lo ∧ hi < I64MAX := by
    simp only [List.mem_cons, Prod.mk.injEq, List.not_mem_nil, or_false] at hf
    rcases hf with h | h | h | h | h <;> (rw [h.1, h.2]; decide)
  exact ⟨fun v a' hok => (C03.C03_number_exact lo hi a sg ds ws k hr hws hds hne hk hb.1 hb.2 v a' hok).1,
    C03.C03_reject_out_of_range lo hi a sg ds ws k hr hws hds hne hk hb.1 hb.2⟩

/-- **clasp-extension rule types are refused unless extensions were enabled**, whatever follows them. -/
theorem C07_ext_gating (rt : Nat) (hrt : rt = 90 ∨ rt = 91 ∨ rt = 92) (prio : Nat) (a : AS) :
    ruleOf false rt prio a = .error a.line := by
  rcases hrt with h | h | h <;> subst h <;>
    simp [ruleOf, Choice, Disjunctive, Basic, Cardinality, Weight, Optimize, ClaspIncrement, ClaspAssignExt,
      ClaspReleaseExt, throw, throwThe, MonadExceptOf.throw, bind, Except.bind]

/-- a text that starts with `9` (an incremental program) is refused without extensions, with no call made. -/
theorem C07_incremental_needs_ext (r : List Nat) : SmodelsIn.read false (57 :: r) = { calls := [], err := some 1 } := by
  simp [SmodelsIn.read, AS.init, AS.peek, BufferedStream.isDigit]

/-- the value written for rule 91 (`(v ^ 3) - 1`) is decoded by the same formula: a bijection on 0..2. -/
theorem C07_assign_values : ∀ v ∈ [0, 1, 2], (((v ^^^ 3) - 1) ^^^ 3) - 1 = v := by decide

/-! non-vacuity -/
example : (SmodelsIn.read false (AspifOut.str "5 1 3000000000 1 0 2 1\n0\n0\nB+\n0\nB-\n0\n1\n")).err = some 1 := by decide +kernel
example : SmodelsIn.read true (AspifOut.str "90 0\n3 2 1 2 1 1 3\n6 0 2 1 4 5 7 0\n91 3 2\n0\n1 a b\n0\nB+\n2\n0\nB-\n0\nE\n4\n0\n1\n") =
    { calls := [.initProgram true, .beginStep, .rule 1 [1, 2] [-3], .minimize 0 [(-4, 7), (5, 0)], .external 3 0,
                .output [97, 32, 98] [1], .rule 0 [] [-2], .external 4 0, .endStep], err := none } := by decide +kernel

end PotasscoVerif.C07
