/-
  C10 (continued) — all statement kinds, comment lines, and whole programs of them.
-/
import PotasscoVerif.Props.C10e
namespace PotasscoVerif.C10
open PotasscoVerif PotasscoVerif.CharStream PotasscoVerif.TextIn PotasscoVerif.Decimal PotasscoVerif.AspifOut
open PotasscoVerif.BufferedStream (isDigit isWs I64MAX)

/-! ### all statement kinds with atoms, literals, integers and aggregates; programs of them -/
inductive StmtX where
  | base (s : StmtS)
  | minimize (m : MinimizeS)
  | wrule (r : WRuleS)
  | heuristic (h : HeuS)
  | output (o : OutS)
  | comment (c : CommentS)

def StmtX.text : StmtX → List Nat
  | .base s => s.text
  | .minimize m => m.text
  | .wrule r => r.text
  | .heuristic h => h.text
  | .output o => o.text
  | .comment c => c.text
/-- what the statement delivers: one call, or nothing for a comment line -/
def StmtX.calls : StmtX → List Call
  | .base s => [s.call]
  | .minimize m => [.minimize (prioVal m.prio) m.agg.vals]
  | .wrule r => [r.call]
  | .heuristic h => [h.call]
  | .output o => [o.call]
  | .comment _ => []
def StmtX.ok : StmtX → Prop
  | .base s => s.ok
  | .minimize m => m.ok
  | .wrule r => r.ok
  | .heuristic h => h.ok
  | .output o => o.ok
  | .comment c => c.ok

/-- what may follow a statement: what `Follows` allows, or a comment line -/
def FollowsC (k : List Nat) : Prop := Follows k ∨ ∃ t, k = 37 :: t

theorem FollowsC.nws {k : List Nat} (h : FollowsC k) : NWS k := by
  rcases h with h | ⟨t, h⟩
  · exact h.nws
  · intro c r e; rw [h] at e; cases e; decide

theorem FollowsC.no91 {k : List Nat} (h : FollowsC k) : ([91] : List Nat).isPrefixOf k = false := by
  rcases h with h | ⟨t, h⟩
  · exact h.no91
  · rw [h]; rfl

def StmtX.isComment : StmtX → Bool
  | .comment _ => true
  | _ => false

theorem head_first (h : HeadS) (hh : h.ok) (t : List Nat) : ∃ c r, h.text ++ (58 :: t) = c :: r ∧ (isLower c = true ∨ c = 123 ∨ c = 58) := by
  cases h with
  | choice w1 items w2 => exact ⟨123, _, rfl, Or.inr (Or.inl rfl)⟩
  | disj items =>
    simp only [HeadS.ok] at hh
    by_cases hi : items = []
    · subst hi; exact ⟨58, t, rfl, Or.inr (Or.inr rfl)⟩
    · obtain ⟨c, r, e, hc⟩ := atomsText_head items hi (fun p hp => (hh p hp).1) (58 :: t)
      exact ⟨c, r, e, Or.inl hc⟩

theorem stmtX_follows0 (st : StmtX) (hok : st.ok) (hnc : st.isComment = false) (k : List Nat) : Follows (st.text ++ k) := by
  cases st with
  | base s => exact stmt_follows s hok k
  | minimize m => exact Or.inr ⟨35, _, rfl, Or.inr (Or.inr (Or.inr rfl))⟩
  | heuristic h => exact Or.inr ⟨35, _, rfl, Or.inr (Or.inr (Or.inr rfl))⟩
  | output o => exact Or.inr ⟨35, _, rfl, Or.inr (Or.inr (Or.inr rfl))⟩
  | comment c => cases hnc
  | wrule r =>
    have e0 : r.text ++ k = r.head.text ++ (58 :: (45 :: (r.wsArrow ++ (printInt r.bound ++ (r.wsBound ++ (r.agg.text ++ (46 :: r.wsDot))))) ++ k)) := by
      simp [WRuleS.text]
    obtain ⟨c, t, e, hc⟩ := head_first r.head hok.1 (45 :: (r.wsArrow ++ (printInt r.bound ++ (r.wsBound ++ (r.agg.text ++ (46 :: r.wsDot))))) ++ k)
    refine Or.inr ⟨c, t, by simp only [StmtX.text]; rw [e0, e], ?_⟩
    rcases hc with h | h | h
    · exact Or.inl h
    · exact Or.inr (Or.inl h)
    · exact Or.inr (Or.inr (Or.inl h))

theorem stmtX_follows (st : StmtX) (hok : st.ok) (k : List Nat) : FollowsC (st.text ++ k) := by
  cases hc : st.isComment with
  | false => exact Or.inl (stmtX_follows0 st hok hc k)
  | true =>
    cases st with
    | comment c => exact Or.inr ⟨_, rfl⟩
    | _ => cases hc

theorem stmtLoopX_step (inc : Bool) (f : Nat) (a : AS) (acc : List Call) (st : StmtX) (k : List Nat) (hok : st.ok) (hk : NWS k)
    (h91 : ([91] : List Nat).isPrefixOf k = false) (ws : List Nat) (hws : Filler ws) (hr : a.rest = ws ++ (st.text ++ k)) :
    ∃ a' ws', stmtLoop inc (f + 1) a acc = stmtLoop inc f a' (acc ++ st.calls) ∧ Filler ws' ∧ a'.rest = ws' ++ k := by
  have hnil : Filler ([] : List Nat) := by intro c hc; cases hc
  have hfol := stmtX_follows st hok k
  have hs : a.skipWs.rest = st.text ++ k := skipWs_spec a ws _ hr hws hfol.nws
  have hp1 : (peekWs a).1 = (st.text ++ k).headD 0 := by show a.skipWs.peek = _; unfold AS.peek; rw [hs]
  have hp2 : (peekWs a).2 = a.skipWs := rfl
  cases st with
  | base s =>
    obtain ⟨a', h, hr'⟩ := stmtLoop_step inc f a acc s k hok hk h91 ws hws hr
    exact ⟨a', [], h, hnil, by simpa using hr'⟩
  | comment c =>
    obtain ⟨a', h, hr'⟩ := stmtLoop_comment inc f a acc c k hok hk ws hws hr
    exact ⟨a', c.wsAfter, by simpa [StmtX.calls] using h, hok.2.1, hr'⟩
  | output o =>
    have hw0 := hok.1
    have hr0 : a.skipWs.rest = kwOutput ++ (o.ws0 ++ (o.term.text ++ (condText o.cond ++ (46 :: (o.wsDot ++ k))))) := by
      rw [hs]; simp [StmtX.text, OutS.text]
    obtain ⟨a1, e1, r1⟩ := alt_absent kwMinimize dMinimize _ a.skipWs (by rw [hr0]; simp [kwMinimize, kwOutput, List.isPrefixOf])
    obtain ⟨a2, e2, r2⟩ := alt_absent kwProject dProject _ a1 (by rw [r1, hr0]; simp [kwProject, kwOutput, List.isPrefixOf])
    obtain ⟨a3, e3, r3⟩ := alt_present kwOutput dOutput _ a2 o.ws0 _ (by rw [r2, r1, hr0]) hw0 (term_nws o.term hok.2.1 _)
    obtain ⟨a4, e4, r4⟩ := dOutput_spec a3 o k hok hk r3
    have hdir : directive inc a.skipWs = .ok (.call o.call, a4) := by
      unfold directive
      rw [show ([35, 109, 105, 110, 105, 109, 105, 122, 101] : List Nat) = kwMinimize from rfl, e1,
          show ([35, 112, 114, 111, 106, 101, 99, 116] : List Nat) = kwProject from rfl, e2,
          show ([35, 111, 117, 116, 112, 117, 116] : List Nat) = kwOutput from rfl, e3, e4]
    have h35 : (o.text ++ k).headD 0 = 35 := rfl
    simp only [StmtX.text] at hp1
    rw [h35] at hp1
    simp only [stmtLoop, hp1, hp2, hdir, StmtX.calls]
    exact ⟨a4, [], by simp, hnil, by simpa using r4⟩
  | wrule r =>
    obtain ⟨a', h, hr'⟩ := C10_wrule a.skipWs r k hok hk hs
    have hc0 : ((r.text ++ k).headD 0 == 0) = false ∧ ((r.text ++ k).headD 0 == 46) = false ∧ ((r.text ++ k).headD 0 == 35) = false ∧ ((r.text ++ k).headD 0 == 37) = false := by
      · have e0 : r.text ++ k = r.head.text ++ (58 :: (45 :: (r.wsArrow ++ (printInt r.bound ++ (r.wsBound ++ (r.agg.text ++ (46 :: r.wsDot))))) ++ k)) := by
          simp [WRuleS.text]
        obtain ⟨c', t', e', hc'⟩ := head_first r.head hok.1 (45 :: (r.wsArrow ++ (printInt r.bound ++ (r.wsBound ++ (r.agg.text ++ (46 :: r.wsDot))))) ++ k)
        rw [e0, e']
        rcases hc' with h | h | h
        · simp [isLower] at h; simp; omega
        · subst h; simp
        · subst h; simp
    simp only [StmtX.text] at hp1
    simp only [stmtLoop, hp1, hp2, hc0.1, hc0.2.1, hc0.2.2.1, hc0.2.2.2, Bool.false_eq_true, ↓reduceIte, h, StmtX.calls]
    exact ⟨a', [], rfl, hnil, by simpa using hr'⟩
  | minimize m =>
    have hw0 := hok.1
    have hr0 : a.skipWs.rest = kwMinimize ++ (m.ws0 ++ (m.agg.text ++ (prioText m.prio ++ (46 :: m.wsDot)) ++ k)) := by
      rw [hs]; simp [StmtX.text, MinimizeS.text]
    obtain ⟨a1, e1, r1⟩ := alt_present kwMinimize dMinimize _ a.skipWs m.ws0 _ hr0 hw0 (by intro c r e; simp only [AggS.text, List.cons_append] at e; cases e; decide)
    obtain ⟨a2, e2, r2⟩ := dMinimize_spec a1 m k hok hk r1
    have hdir : directive inc a.skipWs = .ok (.call (.minimize (prioVal m.prio) m.agg.vals), a2) := by
      unfold directive
      rw [show ([35, 109, 105, 110, 105, 109, 105, 122, 101] : List Nat) = kwMinimize from rfl, e1, e2]
    have h35 : (m.text ++ k).headD 0 = 35 := rfl
    simp only [StmtX.text] at hp1
    rw [h35] at hp1
    simp only [stmtLoop, hp1, hp2, hdir, StmtX.calls]
    exact ⟨a2, [], by simp, hnil, by simpa using r2⟩
  | heuristic h =>
    have hw0 := hok.1
    have hr0 : a.skipWs.rest = kwHeuristic ++ (h.ws0 ++ (h.tail ++ k)) := by
      rw [hs]; simp [StmtX.text, HeuS.text]
    obtain ⟨a1, e1, r1⟩ := alt_absent kwMinimize dMinimize _ a.skipWs (by rw [hr0]; simp [kwMinimize, kwHeuristic, List.isPrefixOf])
    obtain ⟨a2, e2, r2⟩ := alt_absent kwProject dProject _ a1 (by rw [r1, hr0]; simp [kwProject, kwHeuristic, List.isPrefixOf])
    obtain ⟨a3, e3, r3⟩ := alt_absent kwOutput dOutput _ a2 (by rw [r2, r1, hr0]; simp [kwOutput, kwHeuristic, List.isPrefixOf])
    obtain ⟨a4, e4, r4⟩ := alt_absent kwExternal dExternal _ a3 (by rw [r3, r2, r1, hr0]; simp [kwExternal, kwHeuristic, List.isPrefixOf])
    obtain ⟨a5, e5, r5⟩ := alt_absent kwAssume dAssume _ a4 (by rw [r4, r3, r2, r1, hr0]; simp [kwAssume, kwHeuristic, List.isPrefixOf])
    have hnw : NWS (h.tail ++ k) := by
      unfold HeuS.tail
      rw [List.append_assoc]
      exact lower_nws (atomItem_head h.atom hok.2.1 _)
    obtain ⟨a6, e6, r6⟩ := alt_present kwHeuristic dHeuristic _ a5 h.ws0 _ (by rw [r5, r4, r3, r2, r1, hr0]) hw0 hnw
    obtain ⟨a7, e7, r7⟩ := dHeuristic_spec a6 h k hok hk r6
    have hdir : directive inc a.skipWs = .ok (.call h.call, a7) := by
      unfold directive
      rw [show ([35, 109, 105, 110, 105, 109, 105, 122, 101] : List Nat) = kwMinimize from rfl, e1,
          show ([35, 112, 114, 111, 106, 101, 99, 116] : List Nat) = kwProject from rfl, e2,
          show ([35, 111, 117, 116, 112, 117, 116] : List Nat) = kwOutput from rfl, e3,
          show ([35, 101, 120, 116, 101, 114, 110, 97, 108] : List Nat) = kwExternal from rfl, e4,
          show ([35, 97, 115, 115, 117, 109, 101] : List Nat) = kwAssume from rfl, e5,
          show ([35, 104, 101, 117, 114, 105, 115, 116, 105, 99] : List Nat) = kwHeuristic from rfl, e6, e7]
    have h35 : (h.text ++ k).headD 0 = 35 := rfl
    simp only [StmtX.text] at hp1
    rw [h35] at hp1
    simp only [stmtLoop, hp1, hp2, hdir, StmtX.calls]
    exact ⟨a7, [], by simp, hnil, by simpa using r7⟩

def progTextX : List StmtX → List Nat
  | [] => []
  | st :: r => st.text ++ progTextX r

theorem progTextX_follows (l : List StmtX) (hok : ∀ st ∈ l, st.ok) : FollowsC (progTextX l) := by
  cases l with
  | nil => exact Or.inl (Or.inl rfl)
  | cons st r => exact stmtX_follows st (hok st (by simp)) (progTextX r)

theorem stmtX_text_pos (st : StmtX) (hok : st.ok) : 1 ≤ st.text.length := by
  cases st with
  | base s => exact stmt_text_pos s hok
  | minimize m => simp [StmtX.text, MinimizeS.text, kwMinimize]
  | wrule r => simp [StmtX.text, WRuleS.text]; omega
  | heuristic h => simp [StmtX.text, HeuS.text, kwHeuristic]
  | output o => simp [StmtX.text, OutS.text, kwOutput]
  | comment c => simp [StmtX.text, CommentS.text]

theorem progTextX_length (l : List StmtX) (hok : ∀ st ∈ l, st.ok) : l.length ≤ (progTextX l).length := by
  induction l with
  | nil => simp [progTextX]
  | cons st r ih =>
    have h1 := stmtX_text_pos st (hok st (by simp))
    have h2 := ih (fun s hs => hok s (by simp [hs]))
    simp only [progTextX, List.length_append, List.length_cons]; omega

theorem stmtLoop_progX (inc : Bool) (stmts : List StmtX) (hok : ∀ st ∈ stmts, st.ok) (f : Nat) (hf : stmts.length < f) (a : AS) (acc : List Call)
    (ws : List Nat) (hws : Filler ws) (hr : a.rest = ws ++ progTextX stmts) :
    ∃ a', stmtLoop inc f a acc = (acc ++ stmts.flatMap StmtX.calls, .ok a') ∧ a'.rest = [] := by
  induction stmts generalizing f a acc ws with
  | nil =>
    cases f with
    | zero => simp at hf
    | succ f =>
      have hs : a.skipWs.rest = [] := skipWs_spec a ws [] hr hws (by intro c r e; cases e)
      have hp : (peekWs a).1 = 0 := by show a.skipWs.peek = 0; unfold AS.peek; rw [hs]; rfl
      simp only [stmtLoop, hp, beq_self_eq_true, ↓reduceIte, List.flatMap_nil, List.append_nil]
      exact ⟨(peekWs a).2, rfl, hs⟩
  | cons st r ih =>
    cases f with
    | zero => simp at hf
    | succ f =>
      have hfr := progTextX_follows r (fun s hs => hok s (by simp [hs]))
      obtain ⟨a1, ws1, h1, hw1, hr1⟩ := stmtLoopX_step inc f a acc st (progTextX r) (hok st (by simp)) hfr.nws hfr.no91 ws hws hr
      obtain ⟨a2, h2, hr2⟩ := ih (fun s hs => hok s (by simp [hs])) f (by simp at hf; omega) a1 (acc ++ st.calls) ws1 hw1 hr1
      exact ⟨a2, by rw [h1, h2]; simp, hr2⟩

/-- the statements behind the leading comment lines (those are consumed when the reader attaches to the stream) -/
def dropComments : List StmtX → List StmtX
  | .comment _ :: r => dropComments r
  | l => l

theorem dropComments_calls (l : List StmtX) : (dropComments l).flatMap StmtX.calls = l.flatMap StmtX.calls := by
  induction l with
  | nil => rfl
  | cons st r ih => cases st <;> simp [dropComments, StmtX.calls, ih]

theorem dropComments_ok (l : List StmtX) (hok : ∀ st ∈ l, st.ok) : ∀ st ∈ dropComments l, st.ok := by
  induction l with
  | nil => simpa [dropComments] using hok
  | cons st r ih =>
    cases st with
    | comment c => simp only [dropComments]; exact ih (fun s hs => hok s (by simp [hs]))
    | _ => simpa [dropComments] using hok

theorem dropComments_length (l : List StmtX) : (dropComments l).length ≤ l.length := by
  induction l with
  | nil => simp [dropComments]
  | cons st r ih => cases st <;> simp [dropComments] <;> omega

theorem dropComments_follows (l : List StmtX) (hok : ∀ st ∈ l, st.ok) : Follows (progTextX (dropComments l)) := by
  induction l with
  | nil => exact Or.inl rfl
  | cons st r ih =>
    cases hc : st.isComment with
    | true =>
      cases st with
      | comment c => simp only [dropComments]; exact ih (fun s hs => hok s (by simp [hs]))
      | _ => cases hc
    | false =>
      have : dropComments (st :: r) = st :: r := by cases st <;> first | rfl | cases hc
      rw [this]
      exact stmtX_follows0 st (hok st (by simp)) hc (progTextX r)

theorem skipComments_spec (stmts : List StmtX) (hok : ∀ st ∈ stmts, st.ok) (f : Nat) (hf : stmts.length < f) (a : AS) (hr : a.rest = progTextX stmts) :
    (skipComments f a).rest = progTextX (dropComments stmts) := by
  induction stmts generalizing f a with
  | nil =>
    cases f with
    | zero => simp at hf
    | succ f =>
      have hp : a.peek = 0 := by unfold AS.peek; rw [hr]; rfl
      simp [skipComments, hp, dropComments, hr]
  | cons st r ih =>
    cases f with
    | zero => simp at hf
    | succ f =>
      cases hc : st.isComment with
      | true =>
        cases st with
        | comment c =>
          have hfr := progTextX_follows r (fun s hs => hok s (by simp [hs]))
          have hp : a.peek = 37 := by unfold AS.peek; rw [hr]; rfl
          have hcok : c.ok := hok (.comment c) (by simp)
          have h1 := skipLine_comment a c (progTextX r) hcok hfr.nws (by rw [hr]; rfl)
          have h2 : (AspifIn.skipLine a).skipWs.rest = progTextX r := skipWs_spec _ c.wsAfter _ h1 hcok.2.1 hfr.nws
          simp only [skipComments, hp, BEq.rfl, ↓reduceIte, dropComments]
          exact ih (fun s hs => hok s (by simp [hs])) f (by simp at hf; omega) _ h2
        | _ => cases hc
      | false =>
        have hd : dropComments (st :: r) = st :: r := by cases st <;> first | rfl | cases hc
        have hfol := stmtX_follows0 st (hok st (by simp)) hc (progTextX r)
        have hp : (a.peek == 37) = false := by
          unfold AS.peek; rw [hr]
          rcases hfol with h0 | ⟨c, t, e, hcc⟩
          · simp only [progTextX]; rw [h0]; rfl
          · simp only [progTextX]; rw [e]
            rcases hcc with h | h | h | h
            · simp [isLower] at h; simp; omega
            · subst h; rfl
            · subst h; rfl
            · subst h; rfl
        simp only [skipComments, hp, Bool.false_eq_true, ↓reduceIte, hd, hr]

/-- **C10 (programs, every statement kind)**: a program (one step) of facts, constraints, disjunctive and choice rules with normal
    OR weight bodies, `#minimize`, `#assume`, `#project`, `#external`, `#edge`, `#heuristic`, `#output` (names with nested argument
    lists and quoted strings, or a quoted string; with or without condition) and `%` comment lines (ended by LF, CR or CRLF)
    anywhere between the statements — also before the first one —, written with ANY filler at every optional position (also before
    the first statement) and ANY spelling of every atom, is read as exactly the corresponding calls in order — comment lines deliver
    nothing, aggregate elements of weight 0 are omitted — without an error. -/
theorem C10_read_programX (stmts : List StmtX) (hok : ∀ st ∈ stmts, st.ok) (ws0 : List Nat) (hws0 : Filler ws0) :
    TextIn.read (ws0 ++ progTextX stmts) = { calls := [.initProgram false, .beginStep] ++ stmts.flatMap StmtX.calls ++ [.endStep], err := none } := by
  have hfolC := progTextX_follows stmts hok
  have hinit : (AS.init (ws0 ++ progTextX stmts)).rest = ws0 ++ progTextX stmts := rfl
  have hs : (AS.init (ws0 ++ progTextX stmts)).skipWs.rest = progTextX stmts := skipWs_spec _ ws0 _ hinit hws0 hfolC.nws
  generalize hA : (AS.init (ws0 ++ progTextX stmts)).skipWs = A at hs
  have hfirst : ((A.peek == 0 || isLower A.peek || [46, 35, 37, 123, 58].contains A.peek) = true) := by
    unfold AS.peek; rw [hs]
    rcases hfolC with (h | ⟨c, t, e, hc⟩) | ⟨t, e⟩
    · rw [h]; simp
    · rw [e]
      rcases hc with h | h | h | h
      · simp [isLower] at h; simp [isLower, h] <;> omega
      · subst h; simp
      · subst h; simp
      · subst h; simp
    · rw [e]; simp
  -- leading comment lines are skipped; behind them there is no `#incremental`
  have hsc := skipComments_spec stmts hok (A.rest.length + 1) (by rw [hs]; have := progTextX_length stmts hok; omega) A hs
  have hok' := dropComments_ok stmts hok
  have hfol := dropComments_follows stmts hok
  generalize hS : dropComments stmts = S at hsc hok' hfol
  have hninc : ([35, 105, 110, 99, 114, 101, 109, 101, 110, 116, 97, 108] : List Nat).isPrefixOf (progTextX S) = false := by
    rcases hfol with h0 | ⟨c, t, e, hc⟩
    · rw [h0]; rfl
    · cases S with
      | nil => rfl
      | cons st r =>
        cases st with
        | minimize m => simp [progTextX, StmtX.text, MinimizeS.text, kwMinimize, List.isPrefixOf]
        | heuristic h => simp [progTextX, StmtX.text, HeuS.text, kwHeuristic, List.isPrefixOf]
        | output o => simp [progTextX, StmtX.text, OutS.text, kwOutput, List.isPrefixOf]
        | comment c0 =>
          simp only [progTextX, StmtX.text, CommentS.text, List.cons_append, List.cons.injEq] at e
          rw [← e.1] at hc
          simp [isLower] at hc
        | wrule r0 =>
          rw [e]
          rcases hc with h | h | h | h
          · simp [isLower] at h; simp [List.isPrefixOf]; omega
          · subst h; simp [List.isPrefixOf]
          · subst h; simp [List.isPrefixOf]
          · exfalso
            have e0 : r0.text ++ progTextX r = r0.head.text ++ (58 :: (45 :: (r0.wsArrow ++ (printInt r0.bound ++ (r0.wsBound ++ (r0.agg.text ++ (46 :: r0.wsDot))))) ++ progTextX r)) := by
              simp [WRuleS.text]
            obtain ⟨c', t', e', hc'⟩ := head_first r0.head (hok' (StmtX.wrule r0) (by simp)).1 (45 :: (r0.wsArrow ++ (printInt r0.bound ++ (r0.wsBound ++ (r0.agg.text ++ (46 :: r0.wsDot))))) ++ progTextX r)
            simp only [progTextX, StmtX.text] at e
            rw [e0, e'] at e
            cases e
            rcases hc' with h' | h' | h'
            · rw [h] at h'; simp [isLower] at h'
            · omega
            · omega
        | base s =>
          cases s with
          | rule r0 =>
            obtain ⟨c', t', e', hc'⟩ := rule_head r0 (hok' (StmtX.base (StmtS.rule r0)) (by simp)) (progTextX r)
            simp only [progTextX, StmtX.text, StmtS.text]; rw [e']
            rcases hc' with h | h | h
            · simp [isLower] at h; simp [List.isPrefixOf]; omega
            · subst h; simp [List.isPrefixOf]
            · subst h; simp [List.isPrefixOf]
          | assume s => simp [progTextX, StmtX.text, StmtS.text, AssumeS.text, kwAssume, List.isPrefixOf]
          | project s => simp [progTextX, StmtX.text, StmtS.text, ProjectS.text, kwProject, List.isPrefixOf]
          | external s => simp [progTextX, StmtX.text, StmtS.text, ExternalS.text, kwExternal, List.isPrefixOf]
          | edge s => simp [progTextX, StmtX.text, StmtS.text, EdgeS.text, kwEdge, List.isPrefixOf]
  obtain ⟨a2, h2, hr2⟩ := tok_absent (skipComments (A.rest.length + 1) A) [35, 105, 110, 99, 114, 101, 109, 101, 110, 116, 97, 108] (by rw [hsc]; exact hninc)
  have hatt : attach (AS.init (ws0 ++ progTextX stmts)) = some (.ok (false, a2)) := by
    unfold attach
    show (if ((peekWs (AS.init (ws0 ++ progTextX stmts))).1 == 0 || isLower (peekWs (AS.init (ws0 ++ progTextX stmts))).1 ||
        [46, 35, 37, 123, 58].contains (peekWs (AS.init (ws0 ++ progTextX stmts))).1) = true then _ else none) = _
    have hp1 : (peekWs (AS.init (ws0 ++ progTextX stmts))).1 = A.peek := by rw [← hA]; rfl
    have hp2 : (peekWs (AS.init (ws0 ++ progTextX stmts))).2 = A := by rw [← hA]; rfl
    rw [hp1, if_pos hfirst]
    simp only [hp2, h2]
  obtain ⟨a3, h3, hr3⟩ := stmtLoop_progX false S hok' (a2.rest.length + 1) (by
    rw [hr2, hsc]; have := progTextX_length S hok'; omega) a2 [] [] (by intro c hc; cases hc) (by rw [hr2, hsc]; rfl)
  have hmore : AspifIn.more a3 = (false, a3.skipWs) := by
    unfold AspifIn.more
    have := skipWs_nil a3 hr3
    simp only [AS.peek, this]; rfl
  have hcalls : S.flatMap StmtX.calls = stmts.flatMap StmtX.calls := by rw [← hS]; exact dropComments_calls stmts
  unfold TextIn.read
  simp only [hatt, stepsLoop, h3, hmore, Bool.false_eq_true, Bool.false_and, ↓reduceIte, List.nil_append, List.append_assoc, List.cons_append, hcalls]

end PotasscoVerif.C10
