/-
  C10 (continued) — both read modes of the ground-text reader.  `C10_modes`: reading step by step (`accept`, then `parse(Incremental)`
  repeated while `more()`) delivers exactly the calls and the result of reading in one go, for EVERY input text (as `C01_modes` for aspif;
  both loops are models of the code, each compared with its own mode of the real reader: `tr C` / `tr I`).
-/
import PotasscoVerif.Props.C01m
import PotasscoVerif.Model.TextIn
namespace PotasscoVerif.C10m
open PotasscoVerif PotasscoVerif.CharStream PotasscoVerif.TextIn PotasscoVerif.C01m
open PotasscoVerif.AspifIn (Result more)

theorem peekWs_unflag (a : AS) : peekWs (unflag a) = peekWs a := rfl

attribute [local irreducible] peekWs TextIn.tok TextIn.directive TextIn.rule AspifIn.skipLine in
theorem stmtLoop_succ (inc : Bool) (f : Nat) (a : AS) (acc : List Call) : stmtLoop inc (f + 1) a acc =
    (if (peekWs a).1 == 0 then (acc, .ok (peekWs a).2)
     else if (peekWs a).1 == 46 then
       match TextIn.tok [46] true (peekWs a).2 with
       | .error l => (acc, .error l)
       | .ok (_, a1) => stmtLoop inc f a1 acc
     else if (peekWs a).1 == 35 then
       match TextIn.directive inc (peekWs a).2 with
       | .error l => (acc, .error l)
       | .ok (.call c, a1) => stmtLoop inc f a1 (acc ++ [c])
       | .ok (.nothing, a1) => stmtLoop inc f a1 acc
       | .ok (.step, a1) => (acc, .ok a1)
     else if (peekWs a).1 == 37 then stmtLoop inc f (AspifIn.skipLine (peekWs a).2) acc
     else
       match TextIn.rule (peekWs a).1 (peekWs a).2 with
       | .error l => (acc, .error l)
       | .ok (c, a1) => stmtLoop inc f a1 (acc ++ [c])) := rfl

theorem stmtLoop_unflag (inc : Bool) (f : Nat) (a : AS) (acc : List Call) : stmtLoop inc f (unflag a) acc = stmtLoop inc f a acc := by
  cases f with
  | zero => rfl
  | succ f => rw [stmtLoop_succ, stmtLoop_succ, peekWs_unflag]

attribute [local irreducible] stmtLoop more in
theorem stepsLoop_succ (f : Nat) (inc : Bool) (a : AS) (acc : List Call) : TextIn.stepsLoop (f + 1) inc a acc =
    (match (stmtLoop inc (a.rest.length + 1) a []).2 with
     | .error l => { calls := acc ++ [.beginStep] ++ (stmtLoop inc (a.rest.length + 1) a []).1, err := some l }
     | .ok a1 =>
       if (more a1).1 && !inc then { calls := acc ++ [.beginStep] ++ (stmtLoop inc (a.rest.length + 1) a []).1 ++ [.endStep], err := some (more a1).2.line }
       else if (more a1).1 then TextIn.stepsLoop f inc (more a1).2 (acc ++ [.beginStep] ++ (stmtLoop inc (a.rest.length + 1) a []).1 ++ [.endStep])
       else { calls := acc ++ [.beginStep] ++ (stmtLoop inc (a.rest.length + 1) a []).1 ++ [.endStep], err := none }) := rfl

theorem stepsLoop_unflag (f : Nat) (inc : Bool) (a : AS) (acc : List Call) : TextIn.stepsLoop f inc (unflag a) acc = TextIn.stepsLoop f inc a acc := by
  cases f with
  | zero => rfl
  | succ f =>
    have e : stmtLoop inc ((unflag a).rest.length + 1) (unflag a) [] = stmtLoop inc (a.rest.length + 1) a [] := stmtLoop_unflag inc _ a []
    rw [stepsLoop_succ, stepsLoop_succ]
    simp only [e]

attribute [local irreducible] TextIn.parseInc more in
theorem incLoop_succ (f : Nat) (inc : Bool) (a : AS) (acc : List Call) : TextIn.incLoop (f + 1) inc a acc =
    (match (TextIn.parseInc inc a).2 with
     | .error l => { calls := acc ++ (TextIn.parseInc inc a).1, err := some l }
     | .ok a1 => if (more a1).1 then TextIn.incLoop f inc (more a1).2 (acc ++ (TextIn.parseInc inc a).1) else { calls := acc ++ (TextIn.parseInc inc a).1, err := none }) := rfl

theorem incLoop_eq (f : Nat) (inc : Bool) : ∀ (a : AS) (acc : List Call), TextIn.incLoop f inc a acc = TextIn.stepsLoop f inc a acc := by
  induction f with
  | zero => intro a acc; rfl
  | succ f ih =>
    intro a acc
    rw [incLoop_succ, stepsLoop_succ]
    unfold TextIn.parseInc
    generalize stmtLoop inc (a.rest.length + 1) a [] = r
    obtain ⟨cs, e⟩ := r
    cases e with
    | error l => simp
    | ok a1 =>
      simp only [more_skipWs]
      by_cases h1 : ((more a1).1 && !inc) = true
      · simp only [h1, ↓reduceIte]
        simp [unflag]
      · simp only [h1, Bool.false_eq_true, ↓reduceIte]
        rw [more_unflag]
        have hm : more (more a1).2 = ((more a1).1, unflag (more a1).2) := more_skipWs a1
        rw [hm]
        by_cases h2 : (more a1).1 = true
        · simp only [h2, ↓reduceIte]
          rw [ih, stepsLoop_unflag]
          simp
        · simp [h2]

/-- **C10 (both read modes)**: for every input text, reading step by step delivers exactly the calls and the result of reading in one go. -/
theorem C10_modes (input : List Nat) : TextIn.readInc input = TextIn.read input := by
  unfold TextIn.readInc TextIn.read
  simp only [incLoop_eq]

/-- non-vacuity: "#incremental. a. #step. {b}." read step by step: two steps -/
example : TextIn.readInc [35, 105, 110, 99, 114, 101, 109, 101, 110, 116, 97, 108, 46, 32, 97, 46, 32, 35, 115, 116, 101, 112, 46, 32, 123, 98, 125, 46]
    = { calls := [.initProgram true, .beginStep, .rule 0 [1] [], .endStep, .beginStep, .rule 1 [2] [], .endStep], err := none } := by decide +kernel

end PotasscoVerif.C10m
