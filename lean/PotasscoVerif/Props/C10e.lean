/-
  C10 (continued) — comment lines, output terms (names with nested argument lists, quoted strings with escapes) and `#output`.
-/
import PotasscoVerif.Props.C10c
namespace PotasscoVerif.C10
open PotasscoVerif PotasscoVerif.CharStream PotasscoVerif.TextIn PotasscoVerif.Decimal PotasscoVerif.AspifOut
open PotasscoVerif.BufferedStream (isDigit isWs I64MAX)
open PotasscoVerif.AspifIn (skipLine skipLineF)

/-! ### comment lines -/
inductive Eol where | lf | cr | crlf
deriving DecidableEq, Repr

def Eol.text : Eol → List Nat
  | .lf => [10]
  | .cr => [13]
  | .crlf => [13, 10]

/-- any character but NUL and CR is extracted as it is -/
theorem get_char (a : AS) (c : Nat) (r : List Nat) (h : a.rest = c :: r) (h0 : c ≠ 0) (h13 : c ≠ 13) :
    a.get.1 = c ∧ a.get.2.rest = r := by
  unfold AS.get
  rw [h]
  by_cases h10 : c = 10
  · subst h10; simp
  · simp [h0, h13, h10]

theorem skipLineF_spec (body : List Nat) (e : Eol) (r : List Nat) (hb : ∀ x ∈ body, x ≠ 0 ∧ x ≠ 10 ∧ x ≠ 13)
    (hcr : e = .cr → ∀ t, r ≠ 10 :: t) (f : Nat) (hf : body.length < f) (a : AS) (hr : a.rest = body ++ (e.text ++ r)) :
    (skipLineF f a).rest = r := by
  induction body generalizing f a with
  | nil =>
    cases f with
    | zero => simp at hf
    | succ f =>
      simp only [List.nil_append] at hr
      cases e with
      | lf =>
        have hp : a.peek = 10 := by unfold AS.peek; rw [hr]; rfl
        have hg : a.get = (10, { rest := r, line := a.line + 1, canUnget := true }) := by unfold AS.get; rw [hr]; simp [Eol.text]
        simp [skipLineF, hp, hg]
      | crlf =>
        have hp : a.peek = 13 := by unfold AS.peek; rw [hr]; rfl
        have hg : a.get = (10, { rest := r, line := a.line + 1, canUnget := true }) := by unfold AS.get; rw [hr]; simp [Eol.text]
        simp [skipLineF, hp, hg]
      | cr =>
        have hp : a.peek = 13 := by unfold AS.peek; rw [hr]; rfl
        have hg : a.get = (10, { rest := r, line := a.line + 1, canUnget := true }) := by
          unfold AS.get; rw [hr]
          simp only [Eol.text, List.cons_append, List.nil_append, show ((13 : Nat) == 0) = false from rfl, Bool.false_eq_true, ↓reduceIte,
            show ((13 : Nat) == 13) = true from rfl]
          split
          · exact absurd rfl (hcr rfl _)
          · rfl
        simp [skipLineF, hp, hg]
  | cons x b ih =>
    cases f with
    | zero => simp at hf
    | succ f =>
      obtain ⟨h0, h10, h13⟩ := hb x (by simp)
      simp only [List.cons_append] at hr
      have hp : a.peek = x := by unfold AS.peek; rw [hr]; rfl
      have hg := get_plain a x _ hr h0 h13 h10
      have hx0 : (x == 0) = false := by simpa using h0
      have hx10 : (x == 10) = false := by simpa using h10
      simp only [skipLineF, hp, hx0, Bool.false_eq_true, ↓reduceIte, hg, hx10]
      exact ih (fun y hy => hb y (by simp [hy])) f (by simp at hf; omega) _ rfl

/-- a comment: `%`, anything up to the end of the line, the line end (LF, CR or CRLF), and any filler behind it -/
structure CommentS where
  body    : List Nat
  eol     : Eol
  wsAfter : List Nat

def CommentS.text (c : CommentS) : List Nat := 37 :: (c.body ++ (c.eol.text ++ c.wsAfter))
def CommentS.ok (c : CommentS) : Prop :=
  (∀ x ∈ c.body, x ≠ 0 ∧ x ≠ 10 ∧ x ≠ 13) ∧ Filler c.wsAfter ∧ (c.eol = .cr → ∀ t, c.wsAfter ≠ 10 :: t)

theorem skipLine_comment (a : AS) (c : CommentS) (k : List Nat) (hok : c.ok) (hk : NWS k) (hr : a.rest = c.text ++ k) :
    (skipLine a).rest = c.wsAfter ++ k := by
  unfold skipLine
  apply skipLineF_spec (37 :: c.body) c.eol (c.wsAfter ++ k)
  · intro x hx
    simp only [List.mem_cons] at hx
    rcases hx with h | h
    · subst h; decide
    · exact hok.1 x h
  · intro he t h
    cases hw : c.wsAfter with
    | nil => rw [hw] at h; simp only [List.nil_append] at h; have := hk 10 t h; simp [isWs] at this
    | cons w ws' => rw [hw] at h; simp only [List.cons_append, List.cons.injEq] at h; exact hok.2.2 he ws' (by rw [hw, h.1])
  · rw [hr]; simp [CommentS.text]; omega
  · rw [hr]; simp [CommentS.text]

/-- one round of the statement loop on a comment line: nothing is delivered -/
theorem stmtLoop_comment (inc : Bool) (f : Nat) (a : AS) (acc : List Call) (c : CommentS) (k : List Nat) (hok : c.ok) (hk : NWS k)
    (ws : List Nat) (hws : Filler ws) (hr : a.rest = ws ++ (c.text ++ k)) :
    ∃ a', stmtLoop inc (f + 1) a acc = stmtLoop inc f a' acc ∧ a'.rest = c.wsAfter ++ k := by
  have hnw : NWS (c.text ++ k) := by intro x r e; simp only [CommentS.text, List.cons_append] at e; cases e; decide
  have hs : a.skipWs.rest = c.text ++ k := skipWs_spec a ws _ hr hws hnw
  have hp1 : (peekWs a).1 = 37 := by show a.skipWs.peek = _; unfold AS.peek; rw [hs]; rfl
  have hp2 : (peekWs a).2 = a.skipWs := rfl
  refine ⟨skipLine a.skipWs, ?_, skipLine_comment a.skipWs c k hok hk hs⟩
  simp [stmtLoop, hp1, hp2]

/-! ### quoted strings -/
inductive StrUnit where
  | ch (c : Nat)        -- an ordinary character
  | esc (d : Nat)       -- backslash and the escaped character
deriving DecidableEq, Repr

def StrUnit.text : StrUnit → List Nat
  | .ch c => [c]
  | .esc d => [92, d]
def StrUnit.ok : StrUnit → Prop
  | .ch c => c ≠ 0 ∧ c ≠ 34 ∧ c ≠ 92 ∧ c ≠ 13
  | .esc d => d ≠ 0 ∧ d ≠ 13

def strBody : List StrUnit → List Nat
  | [] => []
  | u :: r => u.text ++ strBody r

theorem strLoop_spec (us : List StrUnit) (hok : ∀ u ∈ us, u.ok) (r : List Nat) (f : Nat) (hf : (strBody us).length < f) (a : AS) (acc : List Nat)
    (hr : a.rest = strBody us ++ (34 :: r)) :
    (strLoop f a false acc).1 = acc ++ strBody us ∧ (strLoop f a false acc).2.rest = 34 :: r := by
  induction us generalizing f a acc with
  | nil =>
    cases f with
    | zero => simp at hf
    | succ f =>
      simp only [strBody, List.nil_append] at hr
      have hp : a.peek = 34 := by unfold AS.peek; rw [hr]; rfl
      simp [strLoop, hp, strBody, hr]
  | cons u us ih =>
    have hu := hok u (by simp)
    have hrest := fun x hx => hok x (List.mem_cons_of_mem u hx)
    cases u with
    | ch c =>
      obtain ⟨h0, h34, h92, h13⟩ := hu
      cases f with
      | zero => simp at hf
      | succ f =>
        simp only [strBody, StrUnit.text, List.cons_append, List.nil_append] at hr hf ⊢
        have hp : a.peek = c := by unfold AS.peek; rw [hr]; rfl
        obtain ⟨g1, g2⟩ := get_char a c _ hr h0 h13
        have hc : (c != 0 && (c != 34 || false)) = true := by simp [h0, h34]
        have hq : (!false && c == 92) = false := by simp [h92]
        have := ih hrest f (by simp at hf; omega) a.get.2 (acc ++ [c]) g2
        simp only [strLoop, hp, hc, ↓reduceIte, g1, hq]
        rw [this.1, this.2]
        simp
    | esc d =>
      obtain ⟨h0, h13⟩ := hu
      cases f with
      | zero => simp at hf
      | succ f =>
        cases f with
        | zero => simp [strBody, StrUnit.text] at hf
        | succ f =>
          simp only [strBody, StrUnit.text, List.cons_append, List.nil_append] at hr hf ⊢
          have hp : a.peek = 92 := by unfold AS.peek; rw [hr]; rfl
          obtain ⟨g1, g2⟩ := get_char a 92 _ hr (by decide) (by decide)
          have hp' : a.get.2.peek = d := by unfold AS.peek; rw [g2]; rfl
          obtain ⟨g1', g2'⟩ := get_char a.get.2 d _ g2 h0 h13
          have hc : ((92 : Nat) != 0 && ((92 : Nat) != 34 || false)) = true := by decide
          have hq : (!false && (92 : Nat) == 92) = true := by decide
          have hc' : (d != 0 && (d != 34 || true)) = true := by simp [h0]
          have hq' : (!true && d == 92) = false := by simp
          have := ih hrest f (by simp at hf; omega) a.get.2.get.2 (acc ++ [92] ++ [d]) g2'
          simp only [strLoop, hp, hc, ↓reduceIte, g1, hq, hp', hc', g1', hq']
          rw [this.1, this.2]
          simp

/-- a quoted string: `"`, the characters (with `\`-escapes), `"`, filler.  The first character must not be a blank
    (the reader skips blanks right after the opening quote). -/
structure StrS where
  units   : List StrUnit
  wsAfter : List Nat

def StrS.text (s : StrS) : List Nat := 34 :: (strBody s.units ++ (34 :: s.wsAfter))
def StrS.sym (s : StrS) : List Nat := 34 :: (strBody s.units ++ [34])
def StrS.ok (s : StrS) : Prop := (∀ u ∈ s.units, u.ok) ∧ Filler s.wsAfter ∧ NWS (strBody s.units)

theorem str_spec (sym : List Nat) (a : AS) (s : StrS) (k : List Nat) (hok : s.ok) (hk : NWS k) (hr : a.rest = s.text ++ k) :
    ∃ a', TextIn.str sym a = .ok (sym ++ s.sym, a') ∧ a'.rest = k := by
  obtain ⟨hu, hw, hnb⟩ := hok
  have hnw : NWS (strBody s.units ++ (34 :: (s.wsAfter ++ k))) := by
    intro c r e
    cases hb : strBody s.units with
    | nil => rw [hb] at e; cases e; decide
    | cons x t => rw [hb] at e; cases e; exact hnb _ _ hb
  obtain ⟨a1, e1, r1⟩ := C10_tok a [34] [] _ true (by rw [hr]; simp [StrS.text]) (by intro c hc; cases hc) hnw
  have hl := strLoop_spec s.units hu (s.wsAfter ++ k) (a1.rest.length + 1) (by rw [r1]; simp; omega) a1 (sym ++ [34]) r1
  obtain ⟨a2, e2, r2⟩ := C10_tok (strLoop (a1.rest.length + 1) a1 false (sym ++ [34])).2 [34] s.wsAfter k true (by rw [hl.2]; rfl) hw hk
  unfold TextIn.str
  simp only [e1, e2, hl.1]
  exact ⟨a2, by simp [StrS.sym], r2⟩

/-! ### arguments of an output term -/
inductive ArgTok where
  | ch (c : Nat) (ws : List Nat)     -- one character and the (dropped) filler behind it
  | str (s : StrS)

def ArgTok.text : ArgTok → List Nat
  | .ch c ws => c :: ws
  | .str s => s.text
def ArgTok.sym : ArgTok → List Nat
  | .ch c _ => [c]
  | .str s => s.sym
def ArgTok.ok : ArgTok → Prop
  | .ch c ws => c ≠ 0 ∧ c ≠ 34 ∧ isWs c = false ∧ Filler ws
  | .str s => s.ok

/-- parenthesis depth behind the token; `none` = the token would end the argument (`)` or `,` at depth 0) -/
def ArgTok.depth (p : Nat) : ArgTok → Option Nat
  | .ch c _ => if c = 41 then (if p = 0 then none else some (p - 1)) else if c = 44 then (if p = 0 then none else some p)
      else if c = 40 then some (p + 1) else some p
  | .str _ => some p

def argText : List ArgTok → List Nat
  | [] => []
  | t :: r => t.text ++ argText r
def argSym : List ArgTok → List Nat
  | [] => []
  | t :: r => t.sym ++ argSym r

/-- the tokens are admissible and lead from depth `p` to depth `q` without ending the argument before -/
def ArgOk : Nat → Nat → List ArgTok → Prop
  | p, q, [] => p = q
  | p, q, t :: r => t.ok ∧ ∃ p', t.depth p = some p' ∧ ArgOk p' q r

theorem argText_nws (ts : List ArgTok) (p q : Nat) (hok : ArgOk p q ts) (k : List Nat) (hk : NWS k) : NWS (argText ts ++ k) := by
  cases ts with
  | nil => simpa [argText] using hk
  | cons t r =>
    obtain ⟨ht, _⟩ := hok
    intro c r' e
    cases t with
    | ch x ws => simp only [argText, ArgTok.text, List.cons_append, List.cons.injEq] at e; rw [← e.1]; exact ht.2.2.1
    | str s => simp only [argText, ArgTok.text, StrS.text, List.cons_append, List.cons.injEq] at e; rw [← e.1]; decide

theorem argText_length (ts : List ArgTok) : ts.length ≤ (argText ts).length := by
  induction ts with
  | nil => simp [argText]
  | cons t r ih =>
    cases t with
    | ch c ws => simp only [argText, ArgTok.text, List.length_append, List.length_cons]; omega
    | str s => simp only [argText, ArgTok.text, StrS.text, List.length_append, List.length_cons]; omega

/-- `matchAtomArg`: the tokens of one argument are copied (fillers dropped) up to the `,` or `)` at depth 0 -/
theorem argLoop_spec (ts : List ArgTok) (p : Nat) (hok : ArgOk p 0 ts) (k : List Nat) (hk : ∃ t, k = 44 :: t ∨ k = 41 :: t)
    (f : Nat) (hf : ts.length < f) (a : AS) (sym : List Nat) (hr : a.rest = argText ts ++ k) :
    ∃ a', argLoop f a (p : Int) sym = .ok (sym ++ argSym ts, a') ∧ a'.rest = k := by
  have hknw : NWS k := by
    obtain ⟨t, h | h⟩ := hk <;> (intro c r e; rw [h] at e; cases e; decide)
  induction ts generalizing p f a sym with
  | nil =>
    cases f with
    | zero => simp at hf
    | succ f =>
      simp only [argText, List.nil_append] at hr
      have hp0 : p = 0 := hok
      subst hp0
      obtain ⟨t, h | h⟩ := hk
      · have hp : a.peek = 44 := by unfold AS.peek; rw [hr, h]; rfl
        refine ⟨a, ?_, hr⟩
        simp [argLoop, hp, argSym]
      · have hp : a.peek = 41 := by unfold AS.peek; rw [hr, h]; rfl
        refine ⟨a, ?_, hr⟩
        simp [argLoop, hp, argSym]
  | cons t r ih =>
    cases f with
    | zero => simp at hf
    | succ f =>
      obtain ⟨ht, p', hd, hrest⟩ := hok
      have hnw := argText_nws r p' 0 hrest k hknw
      cases t with
      | str s =>
        simp only [ArgTok.depth, Option.some.injEq] at hd
        subst hd
        simp only [argText, ArgTok.text, List.append_assoc] at hr
        have hp : a.peek = 34 := by unfold AS.peek; rw [hr]; rfl
        obtain ⟨a1, e1, r1⟩ := str_spec sym a s _ ht hnw hr
        obtain ⟨a2, e2, r2⟩ := ih p hrest f (by simp at hf; omega) a1 (sym ++ s.sym) r1
        refine ⟨a2, ?_, r2⟩
        simp only [argLoop, hp, show ((34 : Nat) == 0) = false from rfl, Bool.false_eq_true, ↓reduceIte, BEq.rfl, e1, e2, argSym, ArgTok.sym, List.append_assoc]
      | ch c ws =>
        obtain ⟨h0, h34, hws, hfl⟩ := ht
        simp only [argText, ArgTok.text, List.cons_append, List.append_assoc] at hr
        have hp : a.peek = c := by unfold AS.peek; rw [hr]; rfl
        have h13 : c ≠ 13 := by intro h; subst h; simp [isWs] at hws
        obtain ⟨g1, g2⟩ := get_char a c _ hr h0 h13
        have hsk : a.get.2.skipWs.rest = argText r ++ k := skipWs_spec a.get.2 ws _ g2 hfl hnw
        have hc0 : (c == 0) = false := by simpa using h0
        have hc34 : (c == 34) = false := by simpa using h34
        by_cases h41 : c = 41
        · subst h41
          simp only [ArgTok.depth, ↓reduceIte] at hd
          by_cases hp0 : p = 0
          · simp [hp0] at hd
          · simp only [hp0, ↓reduceIte, Option.some.injEq] at hd
            obtain ⟨a2, e2, r2⟩ := ih p' hrest f (by simp at hf; omega) a.get.2.skipWs (sym ++ [41]) hsk
            refine ⟨a2, ?_, r2⟩
            have hlt : ¬ ((p : Int) - 1 < 0) := by omega
            have hlt' : ¬ ((p' : Int) < 0) := by omega
            have hp' : ((p : Int) - 1) = (p' : Int) := by omega
            simp only [argLoop, hp, hc0, hc34, Bool.false_eq_true, ↓reduceIte, BEq.rfl, Bool.true_and, decide_eq_true_eq, hlt, hlt',
              show ((41 : Nat) == 44) = false from rfl, Bool.false_and, show ((41 : Nat) == 40) = false from rfl, Int.add_zero, g1, hp', e2,
              argSym, ArgTok.sym, List.append_assoc]
        · have hc41 : (c == 41) = false := by simpa using h41
          by_cases h44 : c = 44
          · subst h44
            simp only [ArgTok.depth, show ¬ ((44 : Nat) = 41) by decide, ↓reduceIte] at hd
            by_cases hp0 : p = 0
            · simp [hp0] at hd
            · simp only [hp0, ↓reduceIte, Option.some.injEq] at hd
              subst hd
              obtain ⟨a2, e2, r2⟩ := ih p hrest f (by simp at hf; omega) a.get.2.skipWs (sym ++ [44]) hsk
              refine ⟨a2, ?_, r2⟩
              have hpz : ((p : Int) == 0) = false := by simp; omega
              simp only [argLoop, hp, hc0, hc34, hc41, Bool.false_eq_true, ↓reduceIte, Bool.false_and, BEq.rfl, Bool.true_and, hpz,
                show ((44 : Nat) == 40) = false from rfl, Int.add_zero, g1, e2, argSym, ArgTok.sym, List.append_assoc]
          · have hc44 : (c == 44) = false := by simpa using h44
            by_cases h40 : c = 40
            · subst h40
              simp only [ArgTok.depth, show ¬ ((40 : Nat) = 41) by decide, show ¬ ((40 : Nat) = 44) by decide, ↓reduceIte, Option.some.injEq] at hd
              subst hd
              obtain ⟨a2, e2, r2⟩ := ih (p + 1) hrest f (by simp at hf; omega) a.get.2.skipWs (sym ++ [40]) hsk
              refine ⟨a2, ?_, r2⟩
              have hp' : ((p : Int) + 1) = ((p + 1 : Nat) : Int) := by omega
              simp only [argLoop, hp, hc0, hc34, hc41, hc44, Bool.false_eq_true, ↓reduceIte, Bool.false_and, BEq.rfl, g1, hp', e2,
                argSym, ArgTok.sym, List.append_assoc]
            · have hc40 : (c == 40) = false := by simpa using h40
              simp only [ArgTok.depth, h41, h44, h40, ↓reduceIte, Option.some.injEq] at hd
              subst hd
              obtain ⟨a2, e2, r2⟩ := ih p hrest f (by simp at hf; omega) a.get.2.skipWs (sym ++ [c]) hsk
              refine ⟨a2, ?_, r2⟩
              simp only [argLoop, hp, hc0, hc34, hc41, hc44, hc40, Bool.false_eq_true, ↓reduceIte, Bool.false_and, Int.add_zero, g1, e2,
                argSym, ArgTok.sym, List.append_assoc]

/-- further arguments: `,` filler tokens -/
def moreText : List (List Nat × List ArgTok) → List Nat
  | [] => []
  | (w, ts) :: r => 44 :: (w ++ (argText ts ++ moreText r))
def moreSym : List (List Nat × List ArgTok) → List Nat
  | [] => []
  | (_, ts) :: r => 44 :: (argSym ts ++ moreSym r)

theorem moreText_head (more : List (List Nat × List ArgTok)) (k : List Nat) : ∃ t, moreText more ++ (41 :: k) = 44 :: t ∨ moreText more ++ (41 :: k) = 41 :: t := by
  cases more with
  | nil => exact ⟨k, Or.inr rfl⟩
  | cons x r => obtain ⟨w, ts⟩ := x; exact ⟨_, Or.inl rfl⟩

theorem argsLoop_spec (more : List (List Nat × List ArgTok)) (hm : ∀ x ∈ more, Filler x.1 ∧ ArgOk 0 0 x.2) (ts : List ArgTok) (hts : ArgOk 0 0 ts)
    (k : List Nat) (f : Nat) (hf : more.length < f) (a : AS) (sym : List Nat) (hr : a.rest = argText ts ++ (moreText more ++ (41 :: k))) :
    ∃ a', argsLoop f a sym = .ok (sym ++ argSym ts ++ moreSym more, a') ∧ a'.rest = 41 :: k := by
  induction more generalizing ts f a sym with
  | nil =>
    cases f with
    | zero => simp at hf
    | succ f =>
      simp only [moreText, List.nil_append] at hr
      obtain ⟨a1, e1, r1⟩ := argLoop_spec ts 0 hts (41 :: k) ⟨k, Or.inr rfl⟩ (a.rest.length + 1) (by
        rw [hr]; have := argText_length ts; simp; omega) a sym hr
      obtain ⟨a2, e2, r2⟩ := tok_absent a1 [44] (by rw [r1]; rfl)
      refine ⟨a2, ?_, by rw [r2, r1]⟩
      have e1' : argLoop (a.rest.length + 1) a (0 : Int) sym = .ok (sym ++ argSym ts, a1) := e1
      simp [argsLoop, e1', e2, moreSym]
  | cons x r ih =>
    obtain ⟨w, ts'⟩ := x
    cases f with
    | zero => simp at hf
    | succ f =>
      have hx := hm (w, ts') (by simp)
      simp only [moreText, List.cons_append, List.append_assoc] at hr
      obtain ⟨a1, e1, r1⟩ := argLoop_spec ts 0 hts (44 :: (w ++ (argText ts' ++ (moreText r ++ (41 :: k))))) ⟨_, Or.inl rfl⟩ (a.rest.length + 1) (by
        rw [hr]; have := argText_length ts; simp; omega) a sym hr
      obtain ⟨t, ht⟩ := moreText_head r k
      have hnw : NWS (argText ts' ++ (moreText r ++ (41 :: k))) := by
        apply argText_nws ts' 0 0 hx.2
        rcases ht with h | h <;> (intro c r' e; rw [h] at e; cases e; decide)
      obtain ⟨a2, e2, r2⟩ := C10_tok a1 [44] w _ false (by rw [r1]; rfl) hx.1 hnw
      obtain ⟨a3, e3, r3⟩ := ih (fun y hy => hm y (by simp [hy])) ts' hx.2 f (by simp at hf; omega) a2 (sym ++ argSym ts ++ [44]) r2
      refine ⟨a3, ?_, r3⟩
      have e1' : argLoop (a.rest.length + 1) a (0 : Int) sym = .ok (sym ++ argSym ts, a1) := e1
      simp only [argsLoop, e1', e2, e3, moreSym]
      simp

/-! ### output terms -/
def isNameCh (c : Nat) : Bool := isAlnum c || c == 95

structure ArgsS where
  wsOpen  : List Nat                           -- after '('
  first   : List ArgTok
  more    : List (List Nat × List ArgTok)      -- ',' filler argument
  wsClose : List Nat                           -- after ')'

def ArgsS.text (g : ArgsS) : List Nat := 40 :: (g.wsOpen ++ (argText g.first ++ (moreText g.more ++ (41 :: g.wsClose))))
def ArgsS.sym (g : ArgsS) : List Nat := 40 :: (argSym g.first ++ (moreSym g.more ++ [41]))
def ArgsS.ok (g : ArgsS) : Prop := Filler g.wsOpen ∧ ArgOk 0 0 g.first ∧ (∀ x ∈ g.more, Filler x.1 ∧ ArgOk 0 0 x.2) ∧ Filler g.wsClose

def argsTextO : Option ArgsS → List Nat
  | none => []
  | some g => g.text
def argsSymO : Option ArgsS → List Nat
  | none => []
  | some g => g.sym
def argsOkO : Option ArgsS → Prop
  | none => True
  | some g => g.ok

inductive TermS where
  | fn (c : Nat) (cs : List Nat) (wsName : List Nat) (args : Option ArgsS)   -- name = c :: cs
  | str (s : StrS)

def TermS.text : TermS → List Nat
  | .fn c cs w g => c :: (cs ++ (w ++ argsTextO g))
  | .str s => s.text
def TermS.sym : TermS → List Nat
  | .fn c cs _ g => c :: (cs ++ argsSymO g)
  | .str s => s.sym
def TermS.ok : TermS → Prop
  | .fn c cs w g => (isLower c = true ∨ c = 95) ∧ (∀ x ∈ cs, isNameCh x = true) ∧ Filler w ∧ argsOkO g
  | .str s => s.ok

theorem nameCh_plain (x : Nat) (h : isNameCh x = true) : x ≠ 0 ∧ x ≠ 13 ∧ x ≠ 10 := by
  simp [isNameCh, isAlnum, isLower, isDigit] at h
  omega

theorem nameLoop_spec (cs : List Nat) (hcs : ∀ x ∈ cs, isNameCh x = true) (c : Nat) (hc : c ≠ 0 ∧ c ≠ 13 ∧ c ≠ 10) (r : List Nat)
    (hrn : isNameCh (r.headD 0) = false) (f : Nat) (hf : cs.length < f) (a : AS) (acc : List Nat) (hr : a.rest = c :: (cs ++ r)) :
    (nameLoop f a acc).1 = acc ++ c :: cs ∧ (nameLoop f a acc).2.rest = r := by
  induction cs generalizing c f a acc with
  | nil =>
    cases f with
    | zero => simp at hf
    | succ f =>
      simp only [List.nil_append] at hr
      have hg := get_plain a c r hr hc.1 hc.2.1 hc.2.2
      have hn : (isAlnum (r.headD 0) || r.headD 0 == 95) = false := hrn
      simp only [nameLoop, hg]
      rw [show (AS.peek { rest := r, line := a.line, canUnget := true }) = r.headD 0 from rfl, hn]
      exact ⟨rfl, rfl⟩
  | cons x xs ih =>
    cases f with
    | zero => simp at hf
    | succ f =>
      simp only [List.cons_append] at hr
      have hg := get_plain a c _ hr hc.1 hc.2.1 hc.2.2
      have hn : (isAlnum x || x == 95) = true := hcs x (by simp)
      have := ih (fun y hy => hcs y (by simp [hy])) x (nameCh_plain x (hcs x (by simp))) f (by simp at hf; omega)
        { rest := x :: (xs ++ r), line := a.line, canUnget := true } (acc ++ [c]) rfl
      simp only [nameLoop, hg]
      rw [show (AS.peek { rest := x :: (xs ++ r), line := a.line, canUnget := true }) = x from rfl]
      simp only [hn, ↓reduceIte]
      rw [this.1, this.2]
      simp

/-- **C10 (output terms)**: a name, optionally followed by a parenthesised argument list (arguments with nested parentheses
    and quoted strings, any filler after every character), or a quoted string, is read as the same text without the fillers. -/
theorem term_spec (a : AS) (t : TermS) (k : List Nat) (hok : t.ok) (hk : ∃ r, k = 58 :: r ∨ k = 46 :: r) (hr : a.rest = t.text ++ k) :
    ∃ a', term a = .ok (t.sym, a') ∧ a'.rest = k := by
  have hknw : NWS k := by obtain ⟨r, h | h⟩ := hk <;> (intro c r' e; rw [h] at e; cases e; decide)
  have hkn : isNameCh (k.headD 0) = false ∧ ([40] : List Nat).isPrefixOf k = false := by obtain ⟨r, h | h⟩ := hk <;> (rw [h]; exact ⟨by simp [isNameCh, isAlnum, isLower, isDigit], rfl⟩)
  cases t with
  | str s =>
    simp only [TermS.text] at hr
    have hp : a.peek = 34 := by unfold AS.peek; rw [hr]; rfl
    obtain ⟨a1, e1, r1⟩ := str_spec [] a s k hok hknw hr
    refine ⟨a1.skipWs, ?_, skipWs_spec a1 [] k (by simpa using r1) (by intro c hc; cases hc) hknw⟩
    simp only [term, hp, show isLower 34 = false from rfl, show ((34 : Nat) == 95) = false from rfl, Bool.or_self, Bool.false_eq_true, ↓reduceIte,
      BEq.rfl, e1, TermS.sym, List.nil_append]
  | fn c cs w g =>
    obtain ⟨hc, hcs, hw, hg⟩ := hok
    simp only [TermS.text, List.cons_append, List.append_assoc] at hr
    have hp : a.peek = c := by unfold AS.peek; rw [hr]; rfl
    have hcl : (isLower c || c == 95) = true := by rcases hc with h | h <;> simp [h]
    have hcp : c ≠ 0 ∧ c ≠ 13 ∧ c ≠ 10 := by
      rcases hc with h | h
      · simp [isLower] at h; omega
      · omega
    cases g with
    | none =>
      simp only [argsTextO, List.nil_append] at hr
      have hrn : isNameCh ((w ++ k).headD 0) = false := by
        cases w with
        | nil => simpa using hkn.1
        | cons x xs => have := hw x (by simp); simp [isWs] at this; simp [isNameCh, isAlnum, isLower, isDigit]; omega
      have hl := nameLoop_spec cs hcs c hcp (w ++ k) hrn (a.rest.length + 1) (by rw [hr]; simp; omega) a [] hr
      have hsk : (nameLoop (a.rest.length + 1) a []).2.skipWs.rest = k := skipWs_spec _ w k hl.2 hw hknw
      obtain ⟨a1, e1, r1⟩ := tok_absent (nameLoop (a.rest.length + 1) a []).2.skipWs [40] (by rw [hsk]; exact hkn.2)
      refine ⟨a1.skipWs, ?_, skipWs_spec a1 [] k (by rw [r1, hsk]; rfl) (by intro c hc; cases hc) hknw⟩
      simp only [term, hp, hcl, ↓reduceIte, e1, hl.1, TermS.sym, argsSymO, List.nil_append, List.append_nil]
    | some g =>
      obtain ⟨hwo, hfirst, hmore, hwc⟩ := hg
      simp only [argsTextO, ArgsS.text, List.cons_append, List.append_assoc] at hr
      have hrn : isNameCh ((w ++ (40 :: (g.wsOpen ++ (argText g.first ++ (moreText g.more ++ (41 :: (g.wsClose ++ k))))))).headD 0) = false := by
        cases w with
        | nil => rfl
        | cons x xs => have := hw x (by simp); simp [isWs] at this; simp [isNameCh, isAlnum, isLower, isDigit]; omega
      have hl := nameLoop_spec cs hcs c hcp _ hrn (a.rest.length + 1) (by rw [hr]; simp; omega) a [] hr
      have hsk : (nameLoop (a.rest.length + 1) a []).2.skipWs.rest = 40 :: (g.wsOpen ++ (argText g.first ++ (moreText g.more ++ (41 :: (g.wsClose ++ k))))) :=
        skipWs_spec _ w _ hl.2 hw (by intro c r e; cases e; decide)
      obtain ⟨t, ht⟩ := moreText_head g.more (g.wsClose ++ k)
      have hnw : NWS (argText g.first ++ (moreText g.more ++ (41 :: (g.wsClose ++ k)))) := by
        apply argText_nws g.first 0 0 hfirst
        rcases ht with h | h <;> (intro c r' e; rw [h] at e; cases e; decide)
      obtain ⟨a1, e1, r1⟩ := C10_tok (nameLoop (a.rest.length + 1) a []).2.skipWs [40] g.wsOpen _ false (by rw [hsk]; rfl) hwo hnw
      obtain ⟨a2, e2, r2⟩ := argsLoop_spec g.more hmore g.first hfirst (g.wsClose ++ k) (a1.rest.length + 1) (by
        rw [r1]; have : g.more.length ≤ (moreText g.more).length := by
          clear ht hnw hmore hr hrn hsk r1
          induction g.more with
          | nil => simp [moreText]
          | cons x r ih => obtain ⟨w', ts'⟩ := x; simp only [moreText, List.length_cons, List.length_append]; omega
        simp; omega) a1 ((nameLoop (a.rest.length + 1) a []).1 ++ [40]) r1
      obtain ⟨a3, e3, r3⟩ := C10_tok a2 [41] g.wsClose k true (by rw [r2]; rfl) hwc hknw
      refine ⟨a3.skipWs, ?_, skipWs_spec a3 [] k (by simpa using r3) (by intro c hc; cases hc) hknw⟩
      rw [hl.1] at e2
      simp only [List.nil_append, List.cons_append] at e2
      simp only [term, hp, hcl, ↓reduceIte, e1, hl.1, List.nil_append, List.cons_append, e2, e3, TermS.sym, argsSymO, ArgsS.sym]
      simp

/-! ### `#output` -/
structure OutS where
  ws0   : List Nat          -- after #output
  term  : TermS
  cond  : Option BodyS
  wsDot : List Nat

def OutS.text (o : OutS) : List Nat := kwOutput ++ (o.ws0 ++ (o.term.text ++ (condText o.cond ++ (46 :: o.wsDot))))
def OutS.call (o : OutS) : Call := .output o.term.sym (bodyVals o.cond)
def OutS.ok (o : OutS) : Prop := Filler o.ws0 ∧ o.term.ok ∧ bodyOk o.cond ∧ Filler o.wsDot

theorem term_nws (t : TermS) (hok : t.ok) (k : List Nat) : NWS (t.text ++ k) := by
  intro c r e
  cases t with
  | str s => simp only [TermS.text, StrS.text, List.cons_append] at e; cases e; decide
  | fn x cs w g =>
    simp only [TermS.text, List.cons_append] at e; cases e
    rcases hok.1 with h | h
    · simp [isLower] at h; simp [isWs]; omega
    · subst h; decide

theorem dOutput_spec (a : AS) (o : OutS) (k : List Nat) (hok : o.ok) (hk : NWS k)
    (hr : a.rest = o.term.text ++ (condText o.cond ++ (46 :: (o.wsDot ++ k)))) :
    ∃ a', dOutput a = .ok (.call o.call, a') ∧ a'.rest = k := by
  obtain ⟨_, ht, hc, hwd⟩ := hok
  have hk0 : ∃ r, condText o.cond ++ (46 :: (o.wsDot ++ k)) = 58 :: r ∨ condText o.cond ++ (46 :: (o.wsDot ++ k)) = 46 :: r := by
    cases o.cond with
    | none => exact ⟨_, Or.inr rfl⟩
    | some b => exact ⟨_, Or.inl rfl⟩
  obtain ⟨a1, e1, r1⟩ := term_spec a o.term _ ht hk0 hr
  obtain ⟨a2, e2, r2⟩ := condition_spec a1 o.cond (46 :: (o.wsDot ++ k)) hc (sep_dot _) (by simp [List.isPrefixOf]) (by simp [List.isPrefixOf]) r1
  obtain ⟨a3, e3, r3⟩ := C10_tok a2 [46] o.wsDot k true (by rw [r2]; rfl) hwd hk
  unfold dOutput
  simp only [bind, Except.bind, e1, e2, e3, pure, Except.pure, OutS.call]
  exact ⟨a3, rfl, r3⟩

end PotasscoVerif.C10
