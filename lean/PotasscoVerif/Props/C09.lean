/-
  C09 — Buffered input is transparent: same characters wherever the buffer refills.

  ONLY property statements and their non-vacuity examples live here; helper lemmas are in
  Lemmas/BufferedStream.lean.  `B` is `BufferedStream::BUF_SIZE`; every theorem is for all `B ≥ 2`, and
  `C09_current_buffer` instantiates them for the value extracted from /repo on this run.
-/
import PotasscoVerif.Lemmas.BufferedStream
import PotasscoVerif.Gen.Consts
namespace PotasscoVerif.C09
open PotasscoVerif.BufferedStream PotasscoVerif.CharStream

/-- One admissible operation: the buffered stream and the abstract character stream return the same
    observation and stay related.  (`Sim` contains the representation invariant, incl. `viol = false`.) -/
theorem C09_simulation {B : Nat} {c : BS} {a : AS} (hB : 2 ≤ B) (h : Sim B c a) (op : Op) (hadm : Adm B a op) :
    (step B c op).1 = (a.step op).1 ∧ Sim B (step B c op).2 (a.step op).2 :=
  step_sim hB h op hadm

theorem run_sim {B : Nat} (hB : 2 ≤ B) : ∀ (ops : List Op) (c : BS) (a : AS), Sim B c a → AdmAll B a ops →
    run B c ops = AS.run a ops := by
  intro ops
  induction ops with
  | nil => intro c a _ _; rfl
  | cons op ops ih =>
    intro c a h hadm
    have hs := step_sim hB h op hadm.1
    simp only [run, AS.run]
    rw [hs.1, ih _ _ hs.2 hadm.2]

/-- **Transparency.** Any finite sequence of admissible operations on the buffered stream over a NUL-free
    input yields exactly the observations of the abstract character stream — for every buffer size
    `B ≥ 2`, every input length, wherever refill boundaries fall. -/
theorem C09_transparent (B : Nat) (hB : 2 ≤ B) (input : List Nat) (hn : ∀ c ∈ input, c ≠ 0)
    (ops : List Op) (hadm : AdmAll B (AS.init input) ops) :
    run B (BS.init B input) ops = AS.run (AS.init input) ops :=
  run_sim hB ops _ _ (init_sim hB input hn) hadm

/-- Corollary: the observations do not depend on the buffer size at all. -/
theorem C09_buffer_independent (B₁ B₂ : Nat) (h₁ : 2 ≤ B₁) (h₂ : 2 ≤ B₂) (input : List Nat)
    (hn : ∀ c ∈ input, c ≠ 0) (ops : List Op)
    (ha₁ : AdmAll B₁ (AS.init input) ops) (ha₂ : AdmAll B₂ (AS.init input) ops) :
    run B₁ (BS.init B₁ input) ops = run B₂ (BS.init B₂ input) ops := by
  rw [C09_transparent B₁ h₁ input hn ops ha₁, C09_transparent B₂ h₂ input hn ops ha₂]

/-! #### adaptive clients: the next operation may depend on everything observed so far -/

inductive Client (α : Type) where
  | ret (x : α)
  | ask (op : Op) (k : Obs → Client α)

def Client.runC {α} (B : Nat) : Client α → BS → α
  | .ret x, _ => x
  | .ask op k, c => (k (step B c op).1).runC B (step B c op).2

def Client.runA {α} : Client α → AS → α
  | .ret x, _ => x
  | .ask op k, a => (k (a.step op).1).runA (a.step op).2

/-- the client only issues admissible operations (along its run on the abstract stream). -/
def Client.AdmC {α} (B : Nat) : Client α → AS → Prop
  | .ret _, _ => True
  | .ask op k, a => Adm B a op ∧ (k (a.step op).1).AdmC B (a.step op).2

theorem C09_transparent_adaptive {α} (B : Nat) (hB : 2 ≤ B) (input : List Nat) (hn : ∀ c ∈ input, c ≠ 0)
    (cl : Client α) (hadm : cl.AdmC B (AS.init input)) :
    cl.runC B (BS.init B input) = cl.runA (AS.init input) := by
  have key : ∀ (cl : Client α) (c : BS) (a : AS), Sim B c a → cl.AdmC B a → cl.runC B c = cl.runA a := by
    intro cl
    induction cl with
    | ret x => intro c a _ _; rfl
    | ask op k ih =>
      intro c a h hadm
      have hs := step_sim hB h op hadm.1
      simp only [Client.runC, Client.runA]
      rw [hs.1]
      exact ih _ _ _ hs.2 hadm.2
  exact key cl _ _ (init_sim hB input hn) hadm

/-! #### memory safety of the window -/

def runState (B : Nat) : BS → List Op → BS
  | c, [] => c
  | c, op :: ops => runState B (step B c op).2 ops

/-- **No access outside the data read.** After any admissible run the ghost flag `viol` is still
    `false`: no `buf_` access had an index beyond the sentinel (i.e. touched a byte that was not read from
    the input), no store had an index `> BUF_SIZE`, and the representation invariant holds.
    (`viol` is only ever updated as `viol || …`, so `false` at the end means it was never raised.) -/
theorem C09_memsafe (B : Nat) (hB : 2 ≤ B) (input : List Nat) (hn : ∀ c ∈ input, c ≠ 0)
    (ops : List Op) (hadm : AdmAll B (AS.init input) ops) :
    (runState B (BS.init B input) ops).viol = false ∧ Inv B (runState B (BS.init B input) ops) := by
  have key : ∀ (ops : List Op) (c : BS) (a : AS), Sim B c a → AdmAll B a ops →
      ∃ a', Sim B (runState B c ops) a' := by
    intro ops
    induction ops with
    | nil => intro c a h _; exact ⟨a, h⟩
    | cons op ops ih =>
      intro c a h hadm
      exact ih _ _ (step_sim hB h op hadm.1).2 hadm.2
  obtain ⟨a', h⟩ := key ops _ _ (init_sim hB input hn) hadm
  exact ⟨h.inv.noviol, h.inv⟩

/-- **A refill makes progress.** With `B ≥ 2`, an `underflow()` on the sentinel of a stream that still has
    data puts at least one unread byte into the window (the reader is never parked on the sentinel while
    input is left).  This is the fact that fails for `BUF_SIZE = 1`, see `C09_needs_two`. -/
theorem C09_refill_progress (B : Nat) (hB : 2 ≤ B) (s : BS) (hi : PreInv B s) (he : s.rpos = s.win.length)
    (hsrc : s.src ≠ []) : window (underflow B s true) ≠ [] := by
  have hu := underflow_at_end hB hi he
  intro hw
  have hlen : (underflow B s true).win.length ≤ (underflow B s true).rpos := by
    unfold window at hw
    exact List.drop_eq_nil_iff.mp hw
  have hpk := hu.1.parked (Nat.le_antisymm hu.1.rpos_le hlen)
  have hr := hu.2.1
  unfold remaining at hr
  rw [hw, hpk] at hr
  exact hsrc hr.symm

/-- the theorems above, instantiated for the `BUF_SIZE` the code has now (regenerated on every run). -/
theorem C09_current_buffer : 2 ≤ Gen.BUF_SIZE := by decide

/-- `B ≥ 2` is necessary: with a one-byte buffer a refill reads 0 bytes and the stream reports the end of
    input although a byte is left. -/
theorem C09_needs_two :
    run 1 (BS.init 1 [65, 66]) [.get, .atEnd] ≠ AS.run (AS.init [65, 66]) [.get, .atEnd] := by decide

/-! #### non-vacuity: a concrete history that meets every hypothesis and crosses refill boundaries -/

def exInput : List Nat := [32, 45, 49, 50, 13, 10, 97, 98, 99, 32, 55]   -- " -12\r\nabc 7"
def exOps : List Op :=
  [.matchInt false, .get, .line, .matchTok [97, 98], .unget 98, .copy 3, .skipWs, .matchInt true, .atEnd, .get]

example : (∀ c ∈ exInput, c ≠ 0) ∧ AdmAll 2 (AS.init exInput) exOps ∧ AdmAll 3 (AS.init exInput) exOps := by
  refine ⟨by decide, ?_, ?_⟩ <;> simp [AdmAll, Adm, exOps, exInput, AS.init, AS.step, AS.matchInt, AS.matchIntCore,
    AS.matchIntDigits, AS.skipWs, AS.skipWsF, AS.get, AS.peek, AS.matchTok, AS.unget, AS.copy, isWs, isDigit, digitRun]

example : AS.run (AS.init exInput) exOps =
    [.int (.val (-12)), .char 10, .nat 2, .bool true, .bool true, .bytes [98, 99, 32], .unit, .int (.val 7),
     .bool true, .char 0] := by decide

example : run 2 (BS.init 2 exInput) exOps = AS.run (AS.init exInput) exOps := by decide

end PotasscoVerif.C09
