/-
  C11 (continued) — several builders with copy construction / assignment and swap between them.
  The model is a list of builder states; `assign i j` makes builder `j` a copy of builder `i` (`mem_.grow(top); memcpy`),
  `swap i j` exchanges two builders.  `C11_multi`: every builder reports exactly the rule of ITS specification after any
  history of per-builder operations, assignments and swaps — so a copy carries the complete rule and later operations on one
  builder never change another.
-/
import PotasscoVerif.Props.C11
namespace PotasscoVerif.C11
open PotasscoVerif.RuleBuilder PotasscoVerif.RuleSpec

inductive MOp where
  | on (i : Nat) (op : Op)
  | assign (i j : Nat)          -- b[j] = b[i]  /  b[j] := RuleBuilder(b[i])
  | swap (i j : Nat)

def mstepC (bs : List RB) : MOp → Option (List RB)
  | .on i op => match bs[i]? with
    | some c => (stepC c op).map (fun c' => bs.set i c')
    | none => none
  | .assign i j => match bs[i]? with
    | some c => if j < bs.length then some (bs.set j c.copy) else none
    | none => none
  | .swap i j => match bs[i]?, bs[j]? with
    | some x, some y => some ((bs.set i y).set j x)
    | _, _ => none

def mstepA (bs : List AR) : MOp → Option (List AR)
  | .on i op => match bs[i]? with
    | some a => (stepA a op).map (fun a' => bs.set i a')
    | none => none
  | .assign i j => match bs[i]? with
    | some a => if j < bs.length then some (bs.set j a) else none
    | none => none
  | .swap i j => match bs[i]?, bs[j]? with
    | some x, some y => some ((bs.set i y).set j x)
    | _, _ => none

def mrunC : List RB → List MOp → Option (List RB)
  | bs, [] => some bs
  | bs, op :: ops => (mstepC bs op).bind (fun bs' => mrunC bs' ops)

def mrunA : List AR → List MOp → Option (List AR)
  | bs, [] => some bs
  | bs, op :: ops => (mstepA bs op).bind (fun bs' => mrunA bs' ops)

/-- builder by builder, the memory-block state refines the specification state -/
def MR (cs : List RB) (as : List AR) : Prop := cs.length = as.length ∧ ∀ i (h1 : i < cs.length) (h2 : i < as.length), R cs[i] as[i]

theorem MR.set {cs : List RB} {as : List AR} (h : MR cs as) (i : Nat) (c : RB) (a : AR) (hr : R c a) : MR (cs.set i c) (as.set i a) := by
  refine ⟨by simp [h.1], ?_⟩
  intro j h1 h2
  simp only [List.length_set] at h1 h2
  rw [List.getElem_set, List.getElem_set]
  by_cases hij : i = j
  · simp [hij, hr]
  · simp only [hij, ↓reduceIte]; exact h.2 j h1 h2

theorem MR.get {cs : List RB} {as : List AR} (h : MR cs as) (i : Nat) (a : AR) (ha : as[i]? = some a) : ∃ c, cs[i]? = some c ∧ R c a := by
  have hi : i < as.length := by
    cases hlt : decide (i < as.length) with
    | true => simpa using hlt
    | false => simp at hlt; rw [List.getElem?_eq_none (by omega)] at ha; cases ha
  have hi' : i < cs.length := by rw [h.1]; exact hi
  refine ⟨cs[i], by simp [hi'], ?_⟩
  have := h.2 i hi' hi
  rw [List.getElem?_eq_getElem hi] at ha
  cases ha
  exact this

theorem mstep_ref {cs : List RB} {as as' : List AR} (h : MR cs as) (op : MOp) (hs : mstepA as op = some as') :
    ∃ cs', mstepC cs op = some cs' ∧ MR cs' as' := by
  cases op with
  | on i o =>
    simp only [mstepA] at hs
    cases hai : as[i]? with
    | none => simp [hai] at hs
    | some a =>
      simp only [hai, Option.map_eq_some_iff] at hs
      obtain ⟨a1, hst, rfl⟩ := hs
      obtain ⟨c, hc, hr⟩ := h.get i a hai
      obtain ⟨c1, hc1, hr1⟩ := step_ref hr o hst
      exact ⟨cs.set i c1, by simp [mstepC, hc, hc1], h.set i c1 a1 hr1⟩
  | assign i j =>
    simp only [mstepA] at hs
    cases hai : as[i]? with
    | none => simp [hai] at hs
    | some a =>
      simp only [hai] at hs
      by_cases hj : j < as.length
      · simp only [hj, ↓reduceIte, Option.some.injEq] at hs
        subst hs
        obtain ⟨c, hc, hr⟩ := h.get i a hai
        have hj' : j < cs.length := by rw [h.1]; exact hj
        exact ⟨cs.set j c.copy, by simp [mstepC, hc, hj'], h.set j c.copy a (copy_ref hr)⟩
      · simp [hj] at hs
  | swap i j =>
    simp only [mstepA] at hs
    cases hai : as[i]? with
    | none => simp [hai] at hs
    | some x =>
      cases haj : as[j]? with
      | none => simp [hai, haj] at hs
      | some y =>
        simp only [hai, haj, Option.some.injEq] at hs
        subst hs
        obtain ⟨cx, hcx, hrx⟩ := h.get i x hai
        obtain ⟨cy, hcy, hry⟩ := h.get j y haj
        exact ⟨(cs.set i cy).set j cx, by simp [mstepC, hcx, hcy], (h.set i cy y hry).set j cx x hrx⟩

theorem mrun_ref : ∀ (ops : List MOp) {cs : List RB} {as as' : List AR}, MR cs as → mrunA as ops = some as' →
    ∃ cs', mrunC cs ops = some cs' ∧ MR cs' as' := by
  intro ops
  induction ops with
  | nil => intro cs as as' h hs; simp only [mrunA, Option.some.injEq] at hs; subst hs; exact ⟨cs, rfl, h⟩
  | cons op ops ih =>
    intro cs as as' h hs
    simp only [mrunA] at hs
    cases hst : mstepA as op with
    | none => simp [hst] at hs
    | some a1 =>
      simp only [hst, Option.bind_some] at hs
      obtain ⟨c1, hc1, h1⟩ := mstep_ref h op hst
      obtain ⟨c', hc', h'⟩ := ih h1 hs
      exact ⟨c', by simp only [mrunC, hc1, Option.bind_some]; exact hc', h'⟩

theorem MR_init (k n : Nat) : MR (List.replicate k (initN n)) (List.replicate k AR.init) := by
  refine ⟨by simp, ?_⟩
  intro i h1 h2
  simp only [List.getElem_replicate]
  exact R_initN n

/-- **C11 (several builders)**: after ANY history of per-builder operations, assignments / copy constructions and swaps over `k`
    builders that the specification accepts, EVERY builder reports exactly the rule of its own specification state, without an
    assertion and without an access outside its block.  In the specification an assignment copies a value and a swap exchanges two
    values: so a copy carries the complete rule, and operations on one builder never show in another. -/
theorem C11_multi (k n : Nat) (ops : List MOp) (as' : List AR) (hs : mrunA (List.replicate k AR.init) ops = some as') :
    ∃ cs', mrunC (List.replicate k (initN n)) ops = some cs' ∧ cs'.length = as'.length ∧
      ∀ i (h1 : i < cs'.length) (h2 : i < as'.length), cs'[i].view = as'[i].view ∧ cs'[i].viewOk = true ∧ cs'[i].viol = false := by
  obtain ⟨cs', hc, hr⟩ := mrun_ref ops (MR_init k n) hs
  refine ⟨cs', hc, hr.1, ?_⟩
  intro i h1 h2
  have := hr.2 i h1 h2
  exact ⟨(view_ref this).1, (view_ref this).2, this.noviol⟩

/-! non-vacuity: three builders; a weakened sum is assigned, the copy is changed, the original is swapped away -/
example : (mrunA (List.replicate 3 AR.init)
    [.on 0 (.startSum 3), .on 0 (.addGoal 1 2), .on 0 (.addGoal (-2) 2), .on 0 (.start 1), .on 0 (.addHead 7), .on 0 (.weaken 2 true),
     .assign 0 1, .on 1 (.addHead 8), .swap 0 2, .on 2 (.clearBody)]).map (fun l => l.map AR.view) =
    some [{ ht := 0, head := [], bt := 0, bound := -1, body := [] },
          { ht := 1, head := [7, 8], bt := 2, bound := 2, body := [(1, 1), (-2, 1)] },
          { ht := 1, head := [7], bt := 0, bound := -1, body := [] }] := by decide +kernel

end PotasscoVerif.C11
