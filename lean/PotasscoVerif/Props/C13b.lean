/-
  C13 (continued) — whole argument lists.
  `Sp` generates every supported way of writing a list of intended (option, value) pairs, positional tokens and unknown
  tokens as command-line tokens; `C13_argv`: parsing such a token list returns exactly the intended pairs in order and
  leaves exactly the intended tokens (unknown ones, and everything behind `--`) in order.
-/
import PotasscoVerif.Props.C13
namespace PotasscoVerif.C13
open PotasscoVerif.Options PotasscoVerif.OptIndex

abbrev dd : List Nat := [45, 45]     -- "--"

abbrev noP : List Nat := [110, 111, 45]   -- "no-"

/-- `--no-name` for a negatable option (and `no-name` is not itself an option): the pair (option, "no") -/
theorem C13_long_neg (c : Context) (aU aF : Bool) (name : List Nat) (k : Nat) (p : PState) (hname : ∀ x ∈ name, x ≠ 61)
    (hno : getOption c aU (noP ++ name) .nameOrPrefix = .ok none ∨ ∃ key, getOption c aU (noP ++ name) .nameOrPrefix = .error (.unknown key))
    (hget : getOption c aU name .nameOrPrefix = .ok (some k)) (hneg : (optOf c k).negatable = true) :
    handleLong c aU aF (noP ++ name) p = .ok (true, p.addValue k [110, 111]) := by
  unfold handleLong
  have hn' : ∀ x ∈ noP ++ name, x ≠ 61 := by
    intro x hx; simp only [noP, List.mem_append, List.mem_cons, List.not_mem_nil, or_false] at hx
    rcases hx with (h | h | h) | h
    · omega
    · omega
    · omega
    · exact hname x h
  rw [splitEq_none _ hn']
  have hpre : noP.isPrefixOf (noP ++ name) = true := by simp [noP, List.isPrefixOf]
  have hdrop : (noP ++ name).drop 3 = name := by simp [noP]
  simp only [Option.getD_none, List.isEmpty_nil, hpre, Bool.and_self, ↓reduceIte, hdrop, hget, hneg]
  rcases hno with h | ⟨key, h⟩
  · have h' : getOption c aU (110 :: 111 :: 45 :: name) .nameOrPrefix = .ok none := h
    simp [h', PState.addValue]
  · have h' : getOption c aU (110 :: 111 :: 45 :: name) .nameOrPrefix = .error (.unknown key) := h
    simp [h', PState.addValue]

/-- `--xyz…` that names no option (unknown options allowed) and is no negation: not handled, the token is left -/
theorem C13_long_unknown (c : Context) (aU aF : Bool) (r : List Nat) (p : PState) (hneg : noP.isPrefixOf r = false)
    (hget : getOption c aU (splitEq r).1 .nameOrPrefix = .ok none) : handleLong c aU aF r p = .ok (false, p) := by
  unfold handleLong
  cases hs : splitEq r with
  | mk name vopt =>
    rw [hs] at hget
    simp only [hneg, Bool.and_false, Bool.false_eq_true, ↓reduceIte, hget]

/-- `Sp ps rm ts`: the tokens `ts` are one way of writing the pairs `ps` (in order) and the left-over tokens `rm` (in order) -/
inductive Sp (c : Context) (aU aF : Bool) (pos : Option (List Nat)) : List (Nat × List Nat) → List (List Nat) → List (List Nat) → Prop
  | nil : Sp c aU aF pos [] [] []
  /-- `--name=value` (also with a unique prefix of the name) -/
  | longEq (name v : List Nat) (k : Nat) {ps rm ts} (hne : name ≠ []) (hname : ∀ x ∈ name, x ≠ 61) (hv : v ≠ [])
      (hget : getOption c aU name .nameOrPrefix = .ok (some k)) (hflag : (optOf c k).flag = false ∨ aF = true)
      (t : Sp c aU aF pos ps rm ts) : Sp c aU aF pos ((k, v) :: ps) rm ((dd ++ (name ++ 61 :: v)) :: ts)
  /-- `--name value` for an option that requires a value -/
  | longSep (name v : List Nat) (k : Nat) {ps rm ts} (hne : name ≠ []) (hname : ∀ x ∈ name, x ≠ 61) (hneg : [110, 111, 45].isPrefixOf name = false)
      (hget : getOption c aU name .nameOrPrefix = .ok (some k)) (himp : (optOf c k).implicit = false)
      (t : Sp c aU aF pos ps rm ts) : Sp c aU aF pos ((k, v) :: ps) rm ((dd ++ name) :: v :: ts)
  /-- `--name` for a flag or an option with an implicit value -/
  | longImpl (name : List Nat) (k : Nat) {ps rm ts} (hne : name ≠ []) (hname : ∀ x ∈ name, x ≠ 61) (hneg : [110, 111, 45].isPrefixOf name = false)
      (hget : getOption c aU name .nameOrPrefix = .ok (some k)) (himp : (optOf c k).implicit = true)
      (t : Sp c aU aF pos ps rm ts) : Sp c aU aF pos ((k, []) :: ps) rm ((dd ++ name) :: ts)
  /-- `-avalue` -/
  | shortAtt (a : Nat) (v : List Nat) (k : Nat) {ps rm ts} (ha : a ≠ 45) (hv : v ≠ [])
      (hget : getOption c aU [a] .alias = .ok (some k)) (himp : (optOf c k).implicit = false)
      (t : Sp c aU aF pos ps rm ts) : Sp c aU aF pos ((k, v) :: ps) rm ((45 :: a :: v) :: ts)
  /-- `-a value` -/
  | shortSep (a : Nat) (v : List Nat) (k : Nat) {ps rm ts} (ha : a ≠ 45)
      (hget : getOption c aU [a] .alias = .ok (some k)) (himp : (optOf c k).implicit = false)
      (t : Sp c aU aF pos ps rm ts) : Sp c aU aF pos ((k, v) :: ps) rm ([45, a] :: v :: ts)
  /-- grouped flags `-abc` -/
  | group (fl : List (Nat × Nat)) {ps rm ts} (hne : fl ≠ []) (h0 : ∀ x ∈ fl, x.1 ≠ 45 ∨ True) (hfirst : (fl.map (·.1)).head? ≠ some 45)
      (hall : ∀ x ∈ fl, getOption c aU [x.1] .alias = .ok (some x.2) ∧ (optOf c x.2).implicit = true ∧ (optOf c x.2).flag = true)
      (t : Sp c aU aF pos ps rm ts) : Sp c aU aF pos (fl.map (fun x => (x.2, [])) ++ ps) rm ((45 :: fl.map (·.1)) :: ts)
  /-- `--no-name` for a negatable option -/
  | longNeg (name : List Nat) (k : Nat) {ps rm ts} (hname : ∀ x ∈ name, x ≠ 61)
      (hno : getOption c aU (noP ++ name) .nameOrPrefix = .ok none ∨ ∃ key, getOption c aU (noP ++ name) .nameOrPrefix = .error (.unknown key))
      (hget : getOption c aU name .nameOrPrefix = .ok (some k)) (hneg : (optOf c k).negatable = true)
      (t : Sp c aU aF pos ps rm ts) : Sp c aU aF pos ((k, [110, 111]) :: ps) rm ((dd ++ (noP ++ name)) :: ts)
  /-- an unknown long option (with or without `=value`) is left in place (when the caller allows unknown options) -/
  | unknownLong (r : List Nat) {ps rm ts} (hne : r ≠ []) (hneg : noP.isPrefixOf r = false) (hget : getOption c aU (splitEq r).1 .nameOrPrefix = .ok none)
      (t : Sp c aU aF pos ps rm ts) : Sp c aU aF pos ps ((dd ++ r) :: rm) ((dd ++ r) :: ts)
  /-- grouped flags ending in an option with its value attached: `-abcVALUE` -/
  | groupVal (fl : List (Nat × Nat)) (a : Nat) (v : List Nat) (k : Nat) {ps rm ts} (hne : fl ≠ []) (hfirst : (fl.map (·.1)).head? ≠ some 45)
      (hall : ∀ x ∈ fl, getOption c aU [x.1] .alias = .ok (some x.2) ∧ (optOf c x.2).implicit = true ∧ (optOf c x.2).flag = true)
      (hv : v ≠ []) (hget : getOption c aU [a] .alias = .ok (some k)) (himp : (optOf c k).implicit = false)
      (t : Sp c aU aF pos ps rm ts) : Sp c aU aF pos (fl.map (fun x => (x.2, [])) ++ (k, v) :: ps) rm ((45 :: (fl.map (·.1) ++ a :: v)) :: ts)
  /-- grouped flags ending in an option whose value is the next token: `-abc VALUE` -/
  | groupSep (fl : List (Nat × Nat)) (a : Nat) (v : List Nat) (k : Nat) {ps rm ts} (hne : fl ≠ []) (hfirst : (fl.map (·.1)).head? ≠ some 45)
      (hall : ∀ x ∈ fl, getOption c aU [x.1] .alias = .ok (some x.2) ∧ (optOf c x.2).implicit = true ∧ (optOf c x.2).flag = true)
      (hget : getOption c aU [a] .alias = .ok (some k)) (himp : (optOf c k).implicit = false)
      (t : Sp c aU aF pos ps rm ts) : Sp c aU aF pos (fl.map (fun x => (x.2, [])) ++ (k, v) :: ps) rm ((45 :: (fl.map (·.1) ++ [a])) :: v :: ts)
  /-- a positional token goes through the positional handler -/
  | positional (tok : List Nat) (k : Nat) {ps rm ts} (hd : List.isPrefixOf [45, 45] tok = false) (hs : (tok.head? == some 45 && decide (tok.length > 1)) = false)
      (hget : getOption c aU (pos.getD [80, 111, 115, 105, 116, 105, 111, 110, 97, 108, 32, 79, 112, 116, 105, 111, 110]) .nameOrPrefix = .ok (some k))
      (t : Sp c aU aF pos ps rm ts) : Sp c aU aF pos ((k, tok) :: ps) rm (tok :: ts)
  /-- an unknown short option is left in place (when the caller allows unknown options) -/
  | unknownShort (a : Nat) (r : List Nat) {ps rm ts} (ha : a ≠ 45) (hget : getOption c aU [a] .alias = .ok none)
      (t : Sp c aU aF pos ps rm ts) : Sp c aU aF pos ps ((45 :: a :: r) :: rm) ((45 :: a :: r) :: ts)
  /-- `--`: everything behind it is left, in order -/
  | terminator (tail : List (List Nat)) : Sp c aU aF pos [] tail (dd :: tail)

theorem handleShort_group (c : Context) (aU : Bool) (fl : List (Nat × Nat)) (p : PState) (f : Nat) (hf : fl.length < f)
    (hall : ∀ x ∈ fl, getOption c aU [x.1] .alias = .ok (some x.2) ∧ (optOf c x.2).implicit = true ∧ (optOf c x.2).flag = true) :
    handleShort c aU f (fl.map (·.1)) p = .ok (true, { p with values := p.values ++ fl.map (fun x => (x.2, [])) }) := by
  induction fl generalizing p f with
  | nil =>
    cases f with
    | zero => simp at hf
    | succ f => simp [handleShort]
  | cons x r ih =>
    cases f with
    | zero => simp at hf
    | succ f =>
      obtain ⟨h1, h2, h3⟩ := hall x (by simp)
      rw [List.map_cons, C13_flag_group c aU x.1 _ x.2 p f h1 h2 h3]
      rw [ih (p.addValue x.2 []) f (by simp at hf; omega) (fun y hy => hall y (by simp [hy]))]
      simp [PState.addValue, List.append_assoc]

theorem handleShort_group_then (c : Context) (aU : Bool) (fl : List (Nat × Nat)) (rest : List Nat) (p : PState) (f : Nat)
    (hall : ∀ x ∈ fl, getOption c aU [x.1] .alias = .ok (some x.2) ∧ (optOf c x.2).implicit = true ∧ (optOf c x.2).flag = true) :
    handleShort c aU (f + fl.length) (fl.map (·.1) ++ rest) p = handleShort c aU f rest { p with values := p.values ++ fl.map (fun x => (x.2, [])) } := by
  induction fl generalizing p with
  | nil => simp
  | cons x r ih =>
    obtain ⟨h1, h2, h3⟩ := hall x (by simp)
    rw [List.map_cons, List.cons_append, show f + (x :: r).length = (f + r.length) + 1 by simp; omega, C13_flag_group c aU x.1 _ x.2 p _ h1 h2 h3]
    rw [ih (p.addValue x.2 []) (fun y hy => hall y (by simp [hy]))]
    simp [PState.addValue, List.append_assoc]

theorem dd_prefix (r : List Nat) : List.isPrefixOf [45, 45] (dd ++ r) = true := by simp [dd, List.isPrefixOf]

/-- **C13 (whole argument lists)**: every spelling of an intended list parses to exactly that list -/
theorem C13_argv_loop (c : Context) (aU aF : Bool) (pos : Option (List Nat)) {ps : List (Nat × List Nat)} {rm ts : List (List Nat)}
    (h : Sp c aU aF pos ps rm ts) : ∀ (f : Nat) (vs : List (Nat × List Nat)) (rm0 : List (List Nat)), ts.length < f →
      parseLoop c aU aF pos f { toks := ts, values := vs, remaining := rm0 } = .ok { toks := [], values := vs ++ ps, remaining := rm0 ++ rm } := by
  induction h with
  | nil =>
    intro f vs rm0 hf
    cases f with
    | zero => simp at hf
    | succ f => simp [parseLoop]
  | longEq name v k hne hname hv hget hflag t ih =>
    intro f vs rm0 hf
    cases f with
    | zero => simp at hf
    | succ f =>
      have hlen : ¬ (dd ++ (name ++ 61 :: v)).length = 2 := by simp [dd]
      simp only [parseLoop, dd_prefix, ↓reduceIte, hlen]
      have hdrop : (dd ++ (name ++ 61 :: v)).drop 2 = name ++ 61 :: v := by simp [dd]
      rw [hdrop, C13_long_eq c aU aF name v k _ hname hv (Or.inr trivial) hget hflag]
      simp only [PState.addValue]
      rw [ih f (vs ++ [(k, v)]) rm0 (by simp at hf; omega)]
      simp [List.append_assoc]
  | longSep name v k hne hname hneg hget himp t ih =>
    intro f vs rm0 hf
    cases f with
    | zero => simp at hf
    | succ f =>
      have hlen : ¬ (dd ++ name).length = 2 := by
        cases name with
        | nil => exact absurd rfl hne
        | cons _ _ => simp [dd]
      simp only [parseLoop, dd_prefix, ↓reduceIte, hlen]
      have hdrop : (dd ++ name).drop 2 = name := by simp [dd]
      rw [hdrop, C13_long_sep c aU aF name v k _ _ hname hneg hget himp rfl]
      simp only [PState.addValue]
      rw [ih f (vs ++ [(k, v)]) rm0 (by simp at hf; omega)]
      simp [List.append_assoc]
  | longImpl name k hne hname hneg hget himp t ih =>
    intro f vs rm0 hf
    cases f with
    | zero => simp at hf
    | succ f =>
      have hlen : ¬ (dd ++ name).length = 2 := by
        cases name with
        | nil => exact absurd rfl hne
        | cons _ _ => simp [dd]
      simp only [parseLoop, dd_prefix, ↓reduceIte, hlen]
      have hdrop : (dd ++ name).drop 2 = name := by simp [dd]
      rw [hdrop, C13_long_implicit c aU aF name k _ hname hneg hget himp]
      simp only [PState.addValue]
      rw [ih f (vs ++ [(k, [])]) rm0 (by simp at hf; omega)]
      simp [List.append_assoc]
  | shortAtt a v k ha hv hget himp t ih =>
    intro f vs rm0 hf
    cases f with
    | zero => simp at hf
    | succ f =>
      have hpre : List.isPrefixOf [45, 45] (45 :: a :: v) = false := by simp [List.isPrefixOf]; exact fun e => ha e.symm
      have hsh : ((45 :: a :: v).head? == some 45 && decide ((45 :: a :: v).length > 1)) = true := by simp
      simp only [parseLoop, hpre, Bool.false_eq_true, ↓reduceIte, hsh]
      have hdrop : (45 :: a :: v).drop 1 = a :: v := rfl
      rw [hdrop, show (45 :: a :: v).length + 1 = ((45 :: a :: v).length) + 1 from rfl, C13_short_attached c aU a v k _ _ hv hget himp]
      simp only [PState.addValue]
      rw [ih f (vs ++ [(k, v)]) rm0 (by simp at hf; omega)]
      simp [List.append_assoc]
  | shortSep a v k ha hget himp t ih =>
    intro f vs rm0 hf
    cases f with
    | zero => simp at hf
    | succ f =>
      have hpre : List.isPrefixOf [45, 45] [45, a] = false := by simp [List.isPrefixOf]; exact fun e => ha e.symm
      have hsh : (([45, a] : List Nat).head? == some 45 && decide (([45, a] : List Nat).length > 1)) = true := by simp
      simp only [parseLoop, hpre, Bool.false_eq_true, ↓reduceIte, hsh]
      have hdrop : ([45, a] : List Nat).drop 1 = [a] := rfl
      rw [hdrop, show ([45, a] : List Nat).length + 1 = 2 + 1 from rfl, C13_short_sep c aU a v k _ _ 2 hget himp rfl]
      simp only [PState.addValue]
      rw [ih f (vs ++ [(k, v)]) rm0 (by simp at hf; omega)]
      simp [List.append_assoc]
  | group fl hne h0 hfirst hall t ih =>
    intro f vs rm0 hf
    cases f with
    | zero => simp at hf
    | succ f =>
      obtain ⟨x, r, e⟩ : ∃ x r, fl = x :: r := by
        cases fl with
        | nil => exact absurd rfl hne
        | cons x r => exact ⟨x, r, rfl⟩
      have hx45 : x.1 ≠ 45 := by
        rw [e] at hfirst; simpa using hfirst
      have hpre : List.isPrefixOf [45, 45] (45 :: fl.map (·.1)) = false := by
        rw [e]; simp [List.isPrefixOf]; exact fun h => hx45 h.symm
      have hsh : ((45 :: fl.map (·.1)).head? == some 45 && decide ((45 :: fl.map (·.1)).length > 1)) = true := by rw [e]; simp
      simp only [parseLoop, hpre, Bool.false_eq_true, ↓reduceIte, hsh]
      have hdrop : (45 :: fl.map (·.1)).drop 1 = fl.map (·.1) := rfl
      rw [hdrop, handleShort_group c aU fl _ _ (by simp; omega) hall]
      simp only
      rw [ih f (vs ++ fl.map (fun x => (x.2, []))) rm0 (by simp at hf; omega)]
      simp [List.append_assoc]
  | longNeg name k hname hno hget hneg t ih =>
    intro f vs rm0 hf
    cases f with
    | zero => simp at hf
    | succ f =>
      have hlen : ¬ (dd ++ (noP ++ name)).length = 2 := by simp [dd, noP]
      simp only [parseLoop, dd_prefix, ↓reduceIte, hlen]
      have hdrop : (dd ++ (noP ++ name)).drop 2 = noP ++ name := by simp [dd]
      rw [hdrop, C13_long_neg c aU aF name k _ hname hno hget hneg]
      simp only [PState.addValue]
      rw [ih f (vs ++ [(k, [110, 111])]) rm0 (by simp at hf; omega)]
      simp [List.append_assoc]
  | unknownLong r hne hneg hget t ih =>
    intro f vs rm0 hf
    cases f with
    | zero => simp at hf
    | succ f =>
      have hlen : ¬ (dd ++ r).length = 2 := by
        cases r with
        | nil => exact absurd rfl hne
        | cons _ _ => simp [dd]
      simp only [parseLoop, dd_prefix, ↓reduceIte, hlen]
      have hdrop : (dd ++ r).drop 2 = r := by simp [dd]
      rw [hdrop, C13_long_unknown c aU aF r _ hneg hget]
      simp only
      rw [ih f vs (rm0 ++ [dd ++ r]) (by simp at hf; omega)]
      simp [List.append_assoc]
  | groupVal fl a v k hne hfirst hall hv hget himp t ih =>
    intro f vs rm0 hf
    cases f with
    | zero => simp at hf
    | succ f =>
      obtain ⟨x, r, e⟩ : ∃ x r, fl = x :: r := by
        cases fl with
        | nil => exact absurd rfl hne
        | cons x r => exact ⟨x, r, rfl⟩
      have hx45 : x.1 ≠ 45 := by rw [e] at hfirst; simpa using hfirst
      have hpre : List.isPrefixOf [45, 45] (45 :: (fl.map (·.1) ++ a :: v)) = false := by
        rw [e]; simp [List.isPrefixOf]; exact fun h => hx45 h.symm
      have hsh : ((45 :: (fl.map (·.1) ++ a :: v)).head? == some 45 && decide ((45 :: (fl.map (·.1) ++ a :: v)).length > 1)) = true := by rw [e]; simp
      simp only [parseLoop, hpre, Bool.false_eq_true, ↓reduceIte, hsh]
      have hdrop : (45 :: (fl.map (·.1) ++ a :: v)).drop 1 = fl.map (·.1) ++ a :: v := rfl
      have hfuel : (45 :: (fl.map (·.1) ++ a :: v)).length + 1 = (v.length + 2 + 1) + fl.length := by simp; omega
      rw [hdrop, hfuel, handleShort_group_then c aU fl (a :: v) _ _ hall, C13_short_attached c aU a v k _ _ hv hget himp]
      simp only [PState.addValue]
      rw [ih f (vs ++ fl.map (fun x => (x.2, [])) ++ [(k, v)]) rm0 (by simp at hf; omega)]
      simp [List.append_assoc]
  | groupSep fl a v k hne hfirst hall hget himp t ih =>
    intro f vs rm0 hf
    cases f with
    | zero => simp at hf
    | succ f =>
      obtain ⟨x, r, e⟩ : ∃ x r, fl = x :: r := by
        cases fl with
        | nil => exact absurd rfl hne
        | cons x r => exact ⟨x, r, rfl⟩
      have hx45 : x.1 ≠ 45 := by rw [e] at hfirst; simpa using hfirst
      have hpre : List.isPrefixOf [45, 45] (45 :: (fl.map (·.1) ++ [a])) = false := by
        rw [e]; simp [List.isPrefixOf]; exact fun h => hx45 h.symm
      have hsh : ((45 :: (fl.map (·.1) ++ [a])).head? == some 45 && decide ((45 :: (fl.map (·.1) ++ [a])).length > 1)) = true := by rw [e]; simp
      simp only [parseLoop, hpre, Bool.false_eq_true, ↓reduceIte, hsh]
      have hdrop : (45 :: (fl.map (·.1) ++ [a])).drop 1 = fl.map (·.1) ++ [a] := rfl
      have hfuel : (45 :: (fl.map (·.1) ++ [a])).length + 1 = (2 + 1) + fl.length := by simp; omega
      rw [hdrop, hfuel, handleShort_group_then c aU fl [a] _ _ hall, C13_short_sep c aU a v k _ _ 2 hget himp rfl]
      simp only [PState.addValue]
      rw [ih f (vs ++ fl.map (fun x => (x.2, [])) ++ [(k, v)]) rm0 (by simp at hf; omega)]
      simp [List.append_assoc]
  | positional tok k hd hs hget t ih =>
    intro f vs rm0 hf
    cases f with
    | zero => simp at hf
    | succ f =>
      have hs' : ¬ ((tok.head? == some 45) = true ∧ tok.length > 1) := by
        intro hh
        have : (tok.head? == some 45 && decide (tok.length > 1)) = true := by simp [hh.1, hh.2]
        rw [hs] at this; cases this
      simp only [parseLoop, hd, Bool.false_eq_true, ↓reduceIte]
      simp only [Bool.and_eq_true, decide_eq_true_eq, hs', ↓reduceIte, handlePos, hget, PState.addValue]
      rw [ih f (vs ++ [(k, tok)]) rm0 (by simp at hf; omega)]
      simp [List.append_assoc]
  | unknownShort a r ha hget t ih =>
    intro f vs rm0 hf
    cases f with
    | zero => simp at hf
    | succ f =>
      have hpre : List.isPrefixOf [45, 45] (45 :: a :: r) = false := by simp [List.isPrefixOf]; exact fun e => ha e.symm
      have hsh : ((45 :: a :: r).head? == some 45 && decide ((45 :: a :: r).length > 1)) = true := by simp
      simp only [parseLoop, hpre, Bool.false_eq_true, ↓reduceIte, hsh]
      have hdrop : (45 :: a :: r).drop 1 = a :: r := rfl
      rw [hdrop]
      have hh : ∀ p : PState, handleShort c aU ((45 :: a :: r).length + 1) (a :: r) p = .ok (false, p) := by
        intro p; simp [handleShort, hget]
      rw [hh]
      simp only
      rw [ih f vs (rm0 ++ [45 :: a :: r]) (by simp at hf; omega)]
      simp [List.append_assoc]
  | terminator tail =>
    intro f vs rm0 hf
    cases f with
    | zero => simp at hf
    | succ f =>
      simp [parseLoop, dd, List.isPrefixOf]

/-- the statement for the entry point -/
theorem C13_argv (c : Context) (aU aF : Bool) (pos : Option (List Nat)) (ps : List (Nat × List Nat)) (rm ts : List (List Nat))
    (h : Sp c aU aF pos ps rm ts) : parseArgv c aU aF pos ts = .ok { toks := [], values := ps, remaining := rm } := by
  unfold parseArgv
  have := C13_argv_loop c aU aF pos h (ts.length + 1) [] [] (by omega)
  simpa using this

end PotasscoVerif.C13

namespace PotasscoVerif.C13
open PotasscoVerif.Options PotasscoVerif.OptIndex
/-! non-vacuity: a context with a value option `num,n` and a flag `verbose,v`; the list `--nu=3 -n 4 -v -- x` is a spelling of
    [(num,3), (num,4), (verbose,"")] with `x` left over -/
def exCtx : Context :=
  (((({} : Context).add { name := [110, 117, 109], alias := 110 }).bind (fun c => c.add { name := [118, 101, 114, 98], alias := 118, implicit := true, flag := true }))).getD {}

example : Sp exCtx false false none [(0, [51]), (0, [52]), (1, [])] [[120]] [dd ++ ([110, 117] ++ 61 :: [51]), [45, 110], [52], 45 :: [(118, 1)].map (·.1), dd, [120]] := by
  refine .longEq [110, 117] [51] 0 (by simp) (by decide) (by simp) (by rfl) (Or.inl (by rfl)) ?_
  refine .shortSep 110 [52] 0 (by decide) (by rfl) (by rfl) ?_
  refine .group [(118, 1)] (by simp) (by simp) (by decide) (by intro x hx; simp at hx; subst hx; exact ⟨rfl, rfl, rfl⟩) ?_
  exact .terminator [[120]]
/-! the further spellings: `--no-verb -vn5 -v 6?` … with unknown options allowed: `--no-verb -vn5 -vn 6 --zzz=1` is a spelling of
    [(verb,"no"), (verb,""), (num,5), (verb,""), (num,6)] with `--zzz=1` left over -/
def exCtx2 : Context :=
  (((({} : Context).add { name := [110, 117, 109], alias := 110 }).bind (fun c => c.add { name := [118, 101, 114, 98], alias := 118, implicit := true, flag := true, negatable := true }))).getD {}

example : Sp exCtx2 true false none [(1, [110, 111]), (1, []), (0, [53]), (1, []), (0, [54])] [dd ++ [122, 122, 122, 61, 49]]
    [dd ++ (noP ++ [118, 101, 114, 98]), 45 :: ([(118, 1)].map (·.1) ++ 110 :: [53]), 45 :: ([(118, 1)].map (·.1) ++ [110]), [54], dd ++ [122, 122, 122, 61, 49]] := by
  refine .longNeg [118, 101, 114, 98] 1 (by decide) (Or.inl (by rfl)) (by rfl) (by rfl) ?_
  refine .groupVal [(118, 1)] 110 [53] 0 (by simp) (by decide) (by intro x hx; simp at hx; subst hx; exact ⟨rfl, rfl, rfl⟩) (by simp) (by rfl) (by rfl) ?_
  refine .groupSep [(118, 1)] 110 [54] 0 (by simp) (by decide) (by intro x hx; simp at hx; subst hx; exact ⟨rfl, rfl, rfl⟩) (by rfl) (by rfl) ?_
  exact .unknownLong [122, 122, 122, 61, 49] (by simp) (by rfl) (by rfl) .nil
end PotasscoVerif.C13
