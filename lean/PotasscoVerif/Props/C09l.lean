/-
  C09 — the line number: one plus the newlines `get` has delivered (the last clause of the statement,
  made explicit for clients that read character by character).  Statements only; the simulation behind
  them is `C09_transparent`.
-/
import PotasscoVerif.Props.C09
namespace PotasscoVerif.C09
open PotasscoVerif.BufferedStream PotasscoVerif.CharStream

/-- one `get` on the abstract stream: the line number grows by one exactly when a newline is delivered
    (CR, CRLF and LF all arrive as 10). -/
theorem get_line (a : AS) : a.get.2.line = a.line + (if a.get.1 = 10 then 1 else 0) := by
  unfold AS.get
  split
  · simp
  · rename_i c r _
    by_cases h0 : c = 0
    · subst h0; simp
    · by_cases h13 : c = 13
      · subst h13
        simp only [show ((13 : Nat) == 0) = false from rfl, show ((13 : Nat) == 13) = true from rfl, Bool.false_eq_true, ↓reduceIte]
        split <;> simp
      · by_cases h10 : c = 10
        · subst h10; simp
        · have e0 : (c == 0) = false := by simpa using h0
          have e13 : (c == 13) = false := by simpa using h13
          have e10 : (c == 10) = false := by simpa using h10
          simp [e0, e13, e10, h10]

/-- what `k` successive `get`s deliver, and the state they leave. -/
def getsA : Nat → AS → List Nat × AS
  | 0, a => ([], a)
  | k + 1, a => ((a.get.1 :: (getsA k a.get.2).1), (getsA k a.get.2).2)

def newlines (cs : List Nat) : Nat := (cs.filter (· == 10)).length

theorem line_gets (k : Nat) (a : AS) : (getsA k a).2.line = a.line + newlines (getsA k a).1 := by
  induction k generalizing a with
  | zero => simp [getsA, newlines]
  | succ k ih =>
    simp only [getsA]
    rw [ih, get_line]
    unfold newlines
    by_cases h : a.get.1 = 10
    · simp [h]; omega
    · have : (a.get.1 == 10) = false := by simpa using h
      simp [h, List.filter_cons, this]

theorem run_gets (k : Nat) (a : AS) :
    AS.run a (List.replicate k .get ++ [.line]) =
      (getsA k a).1.map Obs.char ++ [.nat ((getsA k a).2.line % 4294967296)] := by
  induction k generalizing a with
  | zero => simp [AS.run, AS.step, getsA]
  | succ k ih =>
    simp only [List.replicate_succ, List.cons_append, AS.run, AS.step, getsA, List.map_cons]
    rw [ih]

theorem adm_gets (B k : Nat) (a : AS) : AdmAll B a (List.replicate k .get ++ [.line]) := by
  induction k generalizing a with
  | zero => simp [AdmAll, Adm]
  | succ k ih => simp only [List.replicate_succ, List.cons_append, AdmAll, Adm, true_and]; exact ih _

/-- **Line number.** A client that reads `k` characters with `get` from the buffered stream — any buffer
    size `B ≥ 2`, any NUL-free input — receives the characters of the abstract stream (CR / CRLF as one
    newline) and then reads the line number `1 + (newlines received)` (as the `unsigned` the code keeps). -/
theorem C09_line_number (B : Nat) (hB : 2 ≤ B) (input : List Nat) (hn : ∀ c ∈ input, c ≠ 0) (k : Nat) :
    run B (BS.init B input) (List.replicate k .get ++ [.line]) =
      (getsA k (AS.init input)).1.map Obs.char ++
        [.nat ((1 + newlines (getsA k (AS.init input)).1) % 4294967296)] := by
  rw [C09_transparent B hB input hn _ (adm_gets B k _), run_gets, line_gets]
  rfl

/-- non-vacuity: CR, CRLF and LF are three newlines; the fourth line is reported. -/
example : run 2 (BS.init 2 [97, 13, 98, 13, 10, 10, 99]) (List.replicate 6 .get ++ [.line]) =
    [.char 97, .char 10, .char 98, .char 10, .char 10, .char 99, .nat 4] := by decide

end PotasscoVerif.C09
