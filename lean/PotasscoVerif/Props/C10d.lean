/-
  C10 (continued) — incremental programs: `#incremental.` and `#step.` boundaries.
-/
import PotasscoVerif.Props.C10p
namespace PotasscoVerif.C10
open PotasscoVerif PotasscoVerif.CharStream PotasscoVerif.TextIn PotasscoVerif.Decimal PotasscoVerif.AspifOut
open PotasscoVerif.BufferedStream (isDigit isWs I64MAX)

def kwStep : List Nat := [35, 115, 116, 101, 112]
def kwIncremental : List Nat := [35, 105, 110, 99, 114, 101, 109, 101, 110, 116, 97, 108]

/-- a later step: `#step` filler `.` filler and its statements -/
structure StepS where
  ws1   : List Nat
  ws2   : List Nat
  stmts : List StmtX

def StepS.text (s : StepS) : List Nat := kwStep ++ (s.ws1 ++ (46 :: (s.ws2 ++ progTextX s.stmts)))
def StepS.ok (s : StepS) : Prop := Filler s.ws1 ∧ Filler s.ws2 ∧ s.stmts ≠ [] ∧ ∀ st ∈ s.stmts, st.ok

def laterText : List StepS → List Nat
  | [] => []
  | s :: r => s.text ++ laterText r

theorem laterText_follows (l : List StepS) : FollowsC (laterText l) := by
  cases l with
  | nil => exact Or.inl (Or.inl rfl)
  | cons s r => exact Or.inl (Or.inr ⟨35, _, rfl, Or.inr (Or.inr (Or.inr rfl))⟩)

theorem progTextX_follows_app (l : List StmtX) (hok : ∀ st ∈ l, st.ok) (K : List Nat) (hK : FollowsC K) : FollowsC (progTextX l ++ K) := by
  cases l with
  | nil => simpa [progTextX] using hK
  | cons st r =>
    simp only [progTextX, List.append_assoc]
    exact stmtX_follows st (hok st (by simp)) _

/-- the `#step.` marker ends the statement loop of an incremental program -/
theorem stmtLoop_marker (f : Nat) (a : AS) (acc : List Call) (ws1 ws2 k : List Nat) (h1 : Filler ws1) (h2 : Filler ws2) (hk : NWS k)
    (ws : List Nat) (hws : Filler ws) (hr : a.rest = ws ++ (kwStep ++ (ws1 ++ (46 :: (ws2 ++ k))))) :
    ∃ a', stmtLoop true (f + 1) a acc = (acc, .ok a') ∧ a'.rest = k := by
  have hnw : NWS (kwStep ++ (ws1 ++ (46 :: (ws2 ++ k)))) := by intro c r e; cases e; decide
  have hs : a.skipWs.rest = kwStep ++ (ws1 ++ (46 :: (ws2 ++ k))) := skipWs_spec a ws _ hr hws hnw
  have hp1 : (peekWs a).1 = 35 := by show a.skipWs.peek = 35; unfold AS.peek; rw [hs]; rfl
  have hp2 : (peekWs a).2 = a.skipWs := rfl
  obtain ⟨a1, e1, r1⟩ := alt_absent kwMinimize dMinimize _ a.skipWs (by rw [hs]; simp [kwMinimize, kwStep, List.isPrefixOf])
  obtain ⟨a2, e2, r2⟩ := alt_absent kwProject dProject _ a1 (by rw [r1, hs]; simp [kwProject, kwStep, List.isPrefixOf])
  obtain ⟨a3, e3, r3⟩ := alt_absent kwOutput dOutput _ a2 (by rw [r2, r1, hs]; simp [kwOutput, kwStep, List.isPrefixOf])
  obtain ⟨a4, e4, r4⟩ := alt_absent kwExternal dExternal _ a3 (by rw [r3, r2, r1, hs]; simp [kwExternal, kwStep, List.isPrefixOf])
  obtain ⟨a5, e5, r5⟩ := alt_absent kwAssume dAssume _ a4 (by rw [r4, r3, r2, r1, hs]; simp [kwAssume, kwStep, List.isPrefixOf])
  obtain ⟨a6, e6, r6⟩ := alt_absent kwHeuristic dHeuristic _ a5 (by rw [r5, r4, r3, r2, r1, hs]; simp [kwHeuristic, kwStep, List.isPrefixOf])
  obtain ⟨a7, e7, r7⟩ := alt_absent kwEdge dEdge _ a6 (by rw [r6, r5, r4, r3, r2, r1, hs]; simp [kwEdge, kwStep, List.isPrefixOf])
  obtain ⟨a8, e8, r8⟩ := alt_present kwStep (dStep true) _ a7 ws1 _ (by rw [r7, r6, r5, r4, r3, r2, r1, hs]) h1 (sep_dot _).nws
  obtain ⟨a9, e9, r9⟩ := C10_tok a8 [46] ws2 k true (by rw [r8]; rfl) h2 hk
  have hdir : directive true a.skipWs = .ok (.step, a9) := by
    unfold directive
    rw [show ([35, 109, 105, 110, 105, 109, 105, 122, 101] : List Nat) = kwMinimize from rfl, e1,
        show ([35, 112, 114, 111, 106, 101, 99, 116] : List Nat) = kwProject from rfl, e2,
        show ([35, 111, 117, 116, 112, 117, 116] : List Nat) = kwOutput from rfl, e3,
        show ([35, 101, 120, 116, 101, 114, 110, 97, 108] : List Nat) = kwExternal from rfl, e4,
        show ([35, 97, 115, 115, 117, 109, 101] : List Nat) = kwAssume from rfl, e5,
        show ([35, 104, 101, 117, 114, 105, 115, 116, 105, 99] : List Nat) = kwHeuristic from rfl, e6,
        show ([35, 101, 100, 103, 101] : List Nat) = kwEdge from rfl, e7,
        show ([35, 115, 116, 101, 112] : List Nat) = kwStep from rfl, e8]
    unfold dStep
    simp only [Bool.not_true, Bool.false_eq_true, ↓reduceIte, bind, Except.bind, e9, pure, Except.pure]
  simp only [stmtLoop, hp1, hp2, hdir]
  exact ⟨a9, by simp, r9⟩

/-- the statement loop over the statements of a step that is followed by a `#step.` marker -/
theorem stmtLoop_progK (stmts : List StmtX) (hok : ∀ st ∈ stmts, st.ok) (s : StepS) (hs : s.ok) (tailK : List Nat) (hT : FollowsC tailK)
    (f : Nat) (hf : stmts.length + 1 < f) (a : AS) (acc : List Call) (ws : List Nat) (hws : Filler ws)
    (hr : a.rest = ws ++ (progTextX stmts ++ (kwStep ++ (s.ws1 ++ (46 :: (s.ws2 ++ (progTextX s.stmts ++ tailK))))))) :
    ∃ a', stmtLoop true f a acc = (acc ++ stmts.flatMap StmtX.calls, .ok a') ∧ a'.rest = progTextX s.stmts ++ tailK := by
  have hKfol : FollowsC (kwStep ++ (s.ws1 ++ (46 :: (s.ws2 ++ (progTextX s.stmts ++ tailK))))) := Or.inl (Or.inr ⟨35, _, rfl, Or.inr (Or.inr (Or.inr rfl))⟩)
  induction stmts generalizing f a acc ws with
  | nil =>
    cases f with
    | zero => simp at hf
    | succ f =>
      simp only [progTextX, List.nil_append] at hr
      obtain ⟨a', h, hr'⟩ := stmtLoop_marker f a acc s.ws1 s.ws2 _ hs.1 hs.2.1 (progTextX_follows_app s.stmts hs.2.2.2 tailK hT).nws ws hws hr
      exact ⟨a', by simpa using h, hr'⟩
  | cons st r ih =>
    cases f with
    | zero => simp at hf
    | succ f =>
      simp only [progTextX, List.append_assoc] at hr
      have hfr := progTextX_follows_app r (fun x hx => hok x (by simp [hx])) _ hKfol
      obtain ⟨a1, ws1, h1, hw1, hr1⟩ := stmtLoopX_step true f a acc st _ (hok st (by simp)) hfr.nws hfr.no91 ws hws hr
      obtain ⟨a2, h2, hr2⟩ := ih (fun x hx => hok x (by simp [hx])) f (by simp at hf; omega) a1 (acc ++ st.calls) ws1 hw1 hr1
      exact ⟨a2, by rw [h1, h2]; simp, hr2⟩

def stepCalls (stmts : List StmtX) : List Call := [.beginStep] ++ stmts.flatMap StmtX.calls ++ [.endStep]
def laterCalls : List StepS → List Call
  | [] => []
  | s :: r => stepCalls s.stmts ++ laterCalls r

theorem laterText_length (l : List StepS) : l.length ≤ (laterText l).length := by
  induction l with
  | nil => simp [laterText]
  | cons s r ih => simp only [laterText, StepS.text, kwStep, List.length_append, List.length_cons]; omega

/-- the step loop of an incremental program -/
theorem stepsLoop_spec (later : List StepS) (hl : ∀ s ∈ later, s.ok) (cur : List StmtX) (hc : ∀ st ∈ cur, st.ok) (f : Nat) (hf : later.length < f)
    (a : AS) (acc : List Call) (hr : a.rest = progTextX cur ++ laterText later) :
    stepsLoop f true a acc = { calls := acc ++ stepCalls cur ++ laterCalls later, err := none } := by
  induction later generalizing cur f a acc with
  | nil =>
    cases f with
    | zero => simp at hf
    | succ f =>
      simp only [laterText, List.append_nil] at hr
      obtain ⟨a1, h1, hr1⟩ := stmtLoop_progX true cur hc (a.rest.length + 1) (by rw [hr]; have := progTextX_length cur hc; omega) a [] [] (by intro c hc'; cases hc') (by simpa using hr)
      have hmore : AspifIn.more a1 = (false, a1.skipWs) := by
        unfold AspifIn.more
        have := skipWs_nil a1 hr1
        simp only [AS.peek, this]; rfl
      simp only [stepsLoop, h1, hmore, Bool.false_eq_true, Bool.false_and, ↓reduceIte, laterCalls, stepCalls, List.nil_append, List.append_nil, List.append_assoc]
  | cons s r ih =>
    cases f with
    | zero => simp at hf
    | succ f =>
      have hs := hl s (by simp)
      simp only [laterText, StepS.text, List.append_assoc, List.cons_append] at hr
      have hlen : cur.length + 1 < a.rest.length + 1 := by
        rw [hr]; have := progTextX_length cur hc; simp [kwStep]; omega
      obtain ⟨a1, h1, hr1⟩ := stmtLoop_progK cur hc s hs (laterText r) (laterText_follows r) (a.rest.length + 1) hlen a [] [] (by intro c hc'; cases hc') (by simpa using hr)
      have hfol := progTextX_follows_app s.stmts hs.2.2.2 (laterText r) (laterText_follows r)
      have hne : progTextX s.stmts ++ laterText r ≠ [] := by
        cases hst : s.stmts with
        | nil => exact absurd hst hs.2.2.1
        | cons st rest =>
          have := stmtX_text_pos st (hs.2.2.2 st (by rw [hst]; simp))
          intro h0
          have hl0 := congrArg List.length h0
          simp only [progTextX, List.length_append, List.length_nil] at hl0; omega
      have hsk : a1.skipWs.rest = progTextX s.stmts ++ laterText r := skipWs_spec a1 [] _ (by simpa using hr1) (by intro c hc'; cases hc') hfol.nws
      have hmore : AspifIn.more a1 = (true, a1.skipWs) := by
        unfold AspifIn.more
        rcases hfol with (h0 | ⟨c, t, e, hcc⟩) | ⟨t, e⟩
        · exact absurd h0 hne
        · have hpk : a1.skipWs.peek = c := by unfold AS.peek; rw [hsk, e]; rfl
          have hc0 : c ≠ 0 := by
            rcases hcc with h | h | h | h
            · simp [isLower] at h; omega
            · omega
            · omega
            · omega
          simp [hpk, hc0]
        · have hpk : a1.skipWs.peek = 37 := by unfold AS.peek; rw [hsk, e]; rfl
          simp [hpk]
      have := ih (fun x hx => hl x (by simp [hx])) s.stmts hs.2.2.2 f (by simp at hf; omega) a1.skipWs (acc ++ stepCalls cur) hsk
      simp only [stepsLoop, h1, hmore, Bool.not_true, Bool.and_false, Bool.false_eq_true, ↓reduceIte, List.nil_append]
      have e : acc ++ [Call.beginStep] ++ List.flatMap StmtX.calls cur ++ [Call.endStep] = acc ++ stepCalls cur := by simp [stepCalls]
      rw [e, this]
      simp [laterCalls, List.append_assoc]

/-- comment lines before `#incremental` -/
def preText : List CommentS → List Nat
  | [] => []
  | c :: r => c.text ++ preText r

theorem preText_nws (pre : List CommentS) (K : List Nat) (hK : ∃ t, K = 35 :: t) : NWS (preText pre ++ K) := by
  intro x r e
  cases pre with
  | nil => obtain ⟨t, h⟩ := hK; simp only [preText, List.nil_append] at e; rw [h] at e; cases e; decide
  | cons c r' => simp only [preText, CommentS.text, List.cons_append] at e; cases e; decide

theorem skipComments_pre (pre : List CommentS) (hok : ∀ c ∈ pre, c.ok) (K : List Nat) (hK : ∃ t, K = 35 :: t) (f : Nat) (hf : pre.length < f)
    (a : AS) (hr : a.rest = preText pre ++ K) : (skipComments f a).rest = K := by
  induction pre generalizing f a with
  | nil =>
    cases f with
    | zero => simp at hf
    | succ f =>
      obtain ⟨t, h⟩ := hK
      simp only [preText, List.nil_append] at hr
      have hp : a.peek = 35 := by unfold AS.peek; rw [hr, h]; rfl
      simp [skipComments, hp, hr]
  | cons c r ih =>
    cases f with
    | zero => simp at hf
    | succ f =>
      simp only [preText, List.append_assoc] at hr
      have hcok : c.ok := hok c (by simp)
      have hnw := preText_nws r K hK
      have hp : a.peek = 37 := by unfold AS.peek; rw [hr]; rfl
      have h1 := skipLine_comment a c (preText r ++ K) hcok hnw hr
      have h2 : (AspifIn.skipLine a).skipWs.rest = preText r ++ K := skipWs_spec _ c.wsAfter _ h1 hcok.2.1 hnw
      simp only [skipComments, hp, BEq.rfl, ↓reduceIte]
      exact ih (fun x hx => hok x (by simp [hx])) f (by simp at hf; omega) _ h2

theorem preText_length (pre : List CommentS) : pre.length ≤ (preText pre).length := by
  induction pre with
  | nil => simp [preText]
  | cons c r ih => simp only [preText, CommentS.text, List.length_append, List.length_cons]; omega

/-- an incremental program: (filler, comment lines,) `#incremental.`, the statements of the first step, then `#step.`-separated steps -/
structure IncProg where
  ws0   : List Nat
  pre   : List CommentS
  ws1   : List Nat
  ws2   : List Nat
  first : List StmtX
  later : List StepS

def IncProg.body (p : IncProg) : List Nat := kwIncremental ++ (p.ws1 ++ (46 :: (p.ws2 ++ (progTextX p.first ++ laterText p.later))))
def IncProg.text (p : IncProg) : List Nat := p.ws0 ++ (preText p.pre ++ p.body)
def IncProg.ok (p : IncProg) : Prop :=
  Filler p.ws0 ∧ (∀ c ∈ p.pre, c.ok) ∧ Filler p.ws1 ∧ Filler p.ws2 ∧ (∀ st ∈ p.first, st.ok) ∧ ∀ s ∈ p.later, s.ok

/-- **C10 (steps)**: an incremental program — any filler and comment lines, `#incremental.`, then steps separated by `#step.`, each made
    of the statement kinds of `C10_read_programX` (comment lines included), any filler anywhere — is read as `initProgram(true)` and,
    per step, `beginStep`, exactly the step's statements, `endStep`; the boundaries fall exactly at the `#step.` markers. -/
theorem C10_read_incremental (p : IncProg) (hok : p.ok) :
    TextIn.read p.text = { calls := [.initProgram true] ++ stepCalls p.first ++ laterCalls p.later, err := none } := by
  obtain ⟨h0, hpre, h1, h2, hf, hl⟩ := hok
  have hfolK : FollowsC (progTextX p.first ++ laterText p.later) := progTextX_follows_app p.first hf _ (laterText_follows p.later)
  have hK : ∃ t, p.body = 35 :: t := ⟨_, rfl⟩
  have hinit : (AS.init p.text).rest = p.ws0 ++ (preText p.pre ++ p.body) := rfl
  have hs : (AS.init p.text).skipWs.rest = preText p.pre ++ p.body := skipWs_spec _ p.ws0 _ hinit h0 (preText_nws p.pre _ hK)
  generalize hA : (AS.init p.text).skipWs = A at hs
  have hfirst : ((A.peek == 0 || isLower A.peek || [46, 35, 37, 123, 58].contains A.peek) = true) := by
    unfold AS.peek; rw [hs]
    cases p.pre with
    | nil => rfl
    | cons c r => rfl
  have hsc := skipComments_pre p.pre hpre p.body hK (A.rest.length + 1) (by rw [hs]; have := preText_length p.pre; simp; omega) A hs
  obtain ⟨a2, e2, r2⟩ := C10_tok (skipComments (A.rest.length + 1) A) kwIncremental p.ws1 _ false hsc h1 (sep_dot _).nws
  obtain ⟨a3, e3, r3⟩ := C10_tok a2 [46] p.ws2 _ true (by rw [r2]; rfl) h2 hfolK.nws
  have hatt : attach (AS.init p.text) = some (.ok (true, a3)) := by
    unfold attach
    show (if ((peekWs (AS.init p.text)).1 == 0 || isLower (peekWs (AS.init p.text)).1 ||
        [46, 35, 37, 123, 58].contains (peekWs (AS.init p.text)).1) = true then _ else none) = _
    have hp1 : (peekWs (AS.init p.text)).1 = A.peek := by rw [← hA]; rfl
    have hp2 : (peekWs (AS.init p.text)).2 = A := by rw [← hA]; rfl
    rw [hp1, if_pos hfirst]
    simp only [hp2]
    rw [show ([35, 105, 110, 99, 114, 101, 109, 101, 110, 116, 97, 108] : List Nat) = kwIncremental from rfl, e2]
    simp only [e3]
  have := stepsLoop_spec p.later hl p.first hf (a3.rest.length + 1) (by rw [r3]; have := laterText_length p.later; simp; omega) a3 [.initProgram true] r3
  unfold TextIn.read
  simp only [hatt, this]

/-! non-vacuity: a concrete incremental program with a leading comment, `#output` with nested arguments and a quoted string,
    a comment between statements, and a second step -/
def exInc : IncProg :=
  { ws0 := [32], pre := [⟨[32, 104, 105], .crlf, []⟩], ws1 := [], ws2 := [10],
    first := [ .output { ws0 := [32], term := .fn 112 [95, 49] [] (some { wsOpen := [], first := [.ch 102 [], .ch 40 [], .ch 97 [], .ch 44 [32], .ch 49 [], .ch 41 []],
                                                                              more := [([32], [.str ⟨[.ch 104, .esc 34], []⟩])], wsClose := [32] }),
                         cond := some ⟨[32], [(⟨false, 1, .letter, [], []⟩, [])]⟩, wsDot := [10] },
               .comment ⟨[120], .lf, [32]⟩,
               .base (.rule { head := .disj [(⟨1, .letter, []⟩, 59, [])], body := none, wsDot := [10] }) ],
    later := [ { ws1 := [], ws2 := [10], stmts := [ .output { ws0 := [32], term := .str ⟨[.ch 104], []⟩, cond := none, wsDot := [] } ] } ] }

example : (TextIn.read exInc.text) =
    { calls := [.initProgram true, .beginStep, .output [112, 95, 49, 40, 102, 40, 97, 44, 49, 41, 44, 34, 104, 92, 34, 34, 41] [1], .rule 0 [1] [], .endStep,
                .beginStep, .output [34, 104, 34] [], .endStep], err := none } := by decide +kernel
example : [.initProgram true] ++ stepCalls exInc.first ++ laterCalls exInc.later =
    [Call.initProgram true, .beginStep, .output [112, 95, 49, 40, 102, 40, 97, 44, 49, 41, 44, 34, 104, 92, 34, 34, 41] [1], .rule 0 [1] [], .endStep,
                .beginStep, .output [34, 104, 34] [], .endStep] := by decide +kernel

end PotasscoVerif.C10
