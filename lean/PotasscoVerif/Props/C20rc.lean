/-
  C20, second half — intrusive reference counting (`IntrusiveSharedPtr` / `RefCountable`, model in Model/ValueStore.lean `RC`):
  after ANY sequence of creating an object into a pointer, assigning one pointer to another (also to itself), swapping two pointers and resetting,
    * the reference count of every object equals the number of pointers that refer to it (`C20_refcount_exact`),
    * an object is destroyed exactly when no pointer refers to it any more (`C20_freed_iff_unreferenced`),
    * and never twice (`C20_freed_once`).
  The proof carries "temporary references" (the by-value temporary of `p = IntrusiveSharedPtr(new T)`, the addRef-before-release
  order of assignment) as a ghost function `t`; every operation starts and ends with `t = 0`.
-/
import PotasscoVerif.Model.ValueStore
namespace PotasscoVerif.C20rc
open PotasscoVerif.ValueStore

inductive RCOp where
  | fresh (i : Nat) | assign (i j : Nat) | reset (i : Nat) | swap (i j : Nat)
deriving Repr, DecidableEq

def RC.step (r : RC) : RCOp → RC
  | .fresh i => r.fresh i
  | .assign i j => r.assign i j
  | .reset i => r.reset i
  | .swap i j => r.swap i j

def RC.init (n : Nat) : RC := { ptrs := List.replicate n none, counts := [] }

/-- number of pointers that refer to object `o` -/
def occ (r : RC) (o : Nat) : Nat := r.ptrs.count (some o)

structure InvT (t : Nat → Nat) (r : RC) : Prop where
  exact     : ∀ o, r.count o = occ r o + t o
  nz        : ∀ e ∈ r.counts, e.2 ≠ 0
  nodup     : r.freed.Nodup
  freedDead : ∀ o ∈ r.freed, occ r o + t o = 0 ∧ 1 ≤ o ∧ o < r.nextId
  deadFreed : ∀ o, 1 ≤ o → o < r.nextId → occ r o + t o = 0 → o ∈ r.freed
  bound     : ∀ o, r.nextId ≤ o → occ r o + t o = 0
  zero      : occ r 0 + t 0 = 0
  pos       : 1 ≤ r.nextId

/-! ### the counter table -/

theorem find_filter_ne (l : List (Nat × Nat)) (o o' : Nat) (h : o' ≠ o) :
    (l.filter (·.1 != o)).find? (·.1 == o') = l.find? (·.1 == o') := by
  induction l with
  | nil => rfl
  | cons e r ih =>
    by_cases he : e.1 = o
    · have h1 : (e.1 != o) = false := by simp [he]
      have h2 : (e.1 == o') = false := by simp [he]; exact fun x => h x.symm
      simp [List.filter_cons, h1, List.find?_cons, h2, ih]
    · have h1 : (e.1 != o) = true := by simp [he]
      simp only [List.filter_cons, h1, ↓reduceIte, List.find?_cons]
      split <;> simp_all

theorem find_filter_self (l : List (Nat × Nat)) (o : Nat) : (l.filter (·.1 != o)).find? (·.1 == o) = none := by
  induction l with
  | nil => rfl
  | cons e r ih =>
    by_cases he : e.1 = o
    · simp [List.filter_cons, he, ih]
    · have h1 : (e.1 != o) = true := by simp [he]
      have h2 : (e.1 == o) = false := by simp [he]
      simp [List.filter_cons, h1, List.find?_cons, h2, ih]

theorem count_setCount (r : RC) (o n o' : Nat) : (r.setCount o n).count o' = if o' = o then n else r.count o' := by
  unfold RC.setCount RC.count
  simp only [List.find?_append]
  by_cases h : o' = o
  · subst h
    simp only [find_filter_self, Option.none_or, ↓reduceIte]
    by_cases hn : n = 0
    · simp [hn]
    · simp [hn]
  · simp only [find_filter_ne _ _ _ h, h, ↓reduceIte]
    cases hf : r.counts.find? (·.1 == o') with
    | some e => simp
    | none =>
      by_cases hn : n = 0
      · simp [hn]
      · have : (o == o') = false := by simp; exact fun x => h x.symm
        simp [hn, List.find?_cons, this]

theorem ptrs_setCount (r : RC) (o n : Nat) : (r.setCount o n).ptrs = r.ptrs := rfl
theorem next_setCount (r : RC) (o n : Nat) : (r.setCount o n).nextId = r.nextId := rfl
theorem occ_setCount (r : RC) (o n x : Nat) : occ (r.setCount o n) x = occ r x := rfl
theorem freed_setCount (r : RC) (o n : Nat) : (r.setCount o n).freed = if n = 0 then r.freed ++ [o] else r.freed := rfl
theorem nz_setCount (r : RC) (o n : Nat) (h : ∀ e ∈ r.counts, e.2 ≠ 0) : ∀ e ∈ (r.setCount o n).counts, e.2 ≠ 0 := by
  intro e he
  simp only [RC.setCount, List.mem_append, List.mem_filter] at he
  rcases he with he | he
  · exact h e he.1
  · split at he
    · simp at he
    · simp only [List.mem_singleton] at he; subst he; assumption

theorem live_range {t : Nat → Nat} {r : RC} (h : InvT t r) {o : Nat} (hlive : occ r o + t o ≠ 0) : 1 ≤ o ∧ o < r.nextId := by
  constructor
  · cases Nat.eq_zero_or_pos o with
    | inl h0 => subst h0; exact absurd h.zero hlive
    | inr hp => exact hp
  · cases Nat.lt_or_ge o r.nextId with
    | inl hl => exact hl
    | inr hg => exact absurd (h.bound o hg) hlive

/-- setting the counter of a live object `o` to `n`, where `n` is what the new ghost accounting `t'` says -/
theorem setCount_inv (t t' : Nat → Nat) (r : RC) (o n : Nat) (h : InvT t r) (ho : n = occ r o + t' o) (hother : ∀ x, x ≠ o → t' x = t x)
    (hlive : occ r o + t o ≠ 0) : InvT t' (r.setCount o n) := by
  obtain ⟨ho1, ho2⟩ := live_range h hlive
  have hnf : o ∉ r.freed := fun hm => hlive (h.freedDead o hm).1
  have hsame : ∀ x, x ≠ o → occ r x + t' x = occ r x + t x := fun x hx => by rw [hother x hx]
  refine ⟨?_, nz_setCount r o n h.nz, ?_, ?_, ?_, ?_, ?_, h.pos⟩
  · intro x
    rw [count_setCount, occ_setCount]
    by_cases hx : x = o
    · subst hx; simp [ho]
    · simp only [hx, ↓reduceIte, h.exact x, hother x hx]
  · rw [freed_setCount]
    split
    · exact List.nodup_append.mpr ⟨h.nodup, (by simp), by intro a ha b hb; simp at hb; subst hb; exact fun e => hnf (e ▸ ha)⟩
    · exact h.nodup
  · intro x hx
    rw [freed_setCount] at hx
    rw [occ_setCount, next_setCount]
    have hin : x ∈ r.freed ∨ (n = 0 ∧ x = o) := by
      split at hx
      · rename_i hn; simp only [List.mem_append, List.mem_singleton] at hx; exact hx.imp id (fun e => ⟨hn, e⟩)
      · exact Or.inl hx
    rcases hin with hin | ⟨hn, rfl⟩
    · have hxo : x ≠ o := fun e => hnf (e ▸ hin)
      rw [hsame x hxo]; exact h.freedDead x hin
    · exact ⟨by omega, ho1, ho2⟩
  · intro x h1 h2 h0
    rw [occ_setCount] at h0
    rw [next_setCount] at h2
    rw [freed_setCount]
    by_cases hx : x = o
    · subst hx
      have : n = 0 := by omega
      simp [this]
    · have := h.deadFreed x h1 h2 (by rw [← hsame x hx]; exact h0)
      split
      · exact List.mem_append_left _ this
      · exact this
  · intro x hx
    rw [next_setCount] at hx
    rw [occ_setCount]
    have hxo : x ≠ o := by omega
    rw [hsame x hxo]; exact h.bound x hx
  · rw [occ_setCount]
    have hxo : (0 : Nat) ≠ o := by omega
    rw [hsame 0 hxo]; exact h.zero

/-- `addRef` of a live object: one more temporary reference -/
theorem addRef_inv (t : Nat → Nat) (r : RC) (o : Nat) (h : InvT t r) (hlive : occ r o + t o ≠ 0) :
    InvT (fun x => t x + (if x = o then 1 else 0)) (r.addRef (some o)) := by
  unfold RC.addRef
  exact setCount_inv t _ r o _ h (by simp [h.exact o]; omega) (fun x hx => by simp [hx]) hlive

/-- `release` of a temporary reference -/
theorem release_inv (t : Nat → Nat) (r : RC) (o : Nat) (h : InvT t r) (ht : 1 ≤ t o) :
    InvT (fun x => t x - (if x = o then 1 else 0)) (r.release (some o)) := by
  unfold RC.release
  exact setCount_inv t _ r o _ h (by simp [h.exact o]; omega) (fun x hx => by simp [hx]) (by omega)

/-- redirecting pointer `j` to `p` (a temporary reference of `p` becomes the pointer's, the pointer's old reference becomes temporary) -/
theorem setptr_inv (t : Nat → Nat) (r : RC) (j : Nat) (p : Option Nat) (h : InvT t r) (hj : j < r.ptrs.length)
    (hp : ∀ o, p = some o → 1 ≤ t o) :
    InvT (fun x => t x + (if (r.ptrs[j]?).join = some x then 1 else 0) - (if p = some x then 1 else 0)) { r with ptrs := r.ptrs.set j p } := by
  have hq : (r.ptrs[j]?).join = r.ptrs[j] := by simp [List.getElem?_eq_getElem hj]
  have hcons : ∀ x, occ { r with ptrs := r.ptrs.set j p } x + (t x + (if (r.ptrs[j]?).join = some x then 1 else 0) - (if p = some x then 1 else 0)) = occ r x + t x := by
    intro x
    unfold occ
    simp only
    rw [List.count_set hj, hq]
    have hc : (if r.ptrs[j] = some x then 1 else 0) ≤ r.ptrs.count (some x) := by
      split
      · rename_i e; exact List.count_pos_iff.mpr (e ▸ List.getElem_mem hj)
      · omega
    have ht : (if p = some x then 1 else 0) ≤ t x := by
      split
      · rename_i e; exact hp x e
      · omega
    simp only [beq_iff_eq]
    omega
  refine ⟨fun x => ?_, h.nz, h.nodup, fun x hx => ?_, fun x h1 h2 h0 => ?_, fun x hx => ?_, ?_, h.pos⟩
  · rw [hcons x]; exact h.exact x
  · rw [hcons x]; exact h.freedDead x hx
  · rw [hcons x] at h0; exact h.deadFreed x h1 h2 h0
  · rw [hcons x]; exact h.bound x hx
  · rw [hcons 0]; exact h.zero

/-- a new object with its initial reference held by a temporary -/
theorem newobj_inv (t : Nat → Nat) (r : RC) (h : InvT t r) :
    InvT (fun x => t x + (if x = r.nextId then 1 else 0)) { r with counts := r.counts ++ [(r.nextId, 1)], nextId := r.nextId + 1 } := by
  have h0 := h.bound r.nextId (Nat.le_refl _)
  have hpos := h.pos
  refine ⟨fun x => ?_, ?_, h.nodup, fun x hx => ?_, fun x h1 h2 hz => ?_, fun x hx => ?_, ?_, by simp⟩
  · show RC.count _ x = occ r x + _
    unfold RC.count
    simp only [List.find?_append]
    by_cases hx : x = r.nextId
    · subst hx
      have hnone : r.counts.find? (·.1 == r.nextId) = none := by
        cases hf : r.counts.find? (·.1 == r.nextId) with
        | none => rfl
        | some e =>
          have hm := List.mem_of_find?_eq_some hf
          have hc : r.count r.nextId = e.2 := by unfold RC.count; rw [hf]; rfl
          have := h.exact r.nextId
          exact absurd (by omega : e.2 = 0) (h.nz e hm)
      simp [hnone]; omega
    · have := h.exact x
      unfold RC.count at this
      cases hf : r.counts.find? (·.1 == x) with
      | some e => rw [hf] at this; simp [hx]; exact this
      | none =>
        rw [hf] at this
        have hb : (r.nextId == x) = false := by simp; exact fun e => hx e.symm
        simp [List.find?_cons, hb, hx]; simpa using this
  · intro e he
    simp only [List.mem_append, List.mem_singleton] at he
    rcases he with he | he
    · exact h.nz e he
    · subst he; simp
  · obtain ⟨a, b, c⟩ := h.freedDead x hx
    have : x ≠ r.nextId := by omega
    exact ⟨by show occ r x + (t x + (if x = r.nextId then 1 else 0)) = 0; simp only [this, ↓reduceIte, Nat.add_zero]; exact a, b, by show x < r.nextId + 1; omega⟩
  · have hz' : occ r x + (t x + (if x = r.nextId then 1 else 0)) = 0 := hz
    have hx : x ≠ r.nextId := by intro e; simp [e] at hz'
    simp only [hx, ↓reduceIte, Nat.add_zero] at hz'
    exact h.deadFreed x h1 (by have : x < r.nextId + 1 := h2; omega) hz'
  · have hx' : r.nextId + 1 ≤ x := hx
    have : x ≠ r.nextId := by omega
    show occ r x + _ = 0
    simp only [this, ↓reduceIte, Nat.add_zero]
    exact h.bound x (by omega)
  · have : (0 : Nat) ≠ r.nextId := by omega
    show occ r 0 + _ = 0
    simp only [this, ↓reduceIte, Nat.add_zero]
    exact h.zero

/-! ### the three operations -/

def Inv (r : RC) : Prop := InvT (fun _ => 0) r

theorem invT_congr {t t' : Nat → Nat} {r : RC} (h : InvT t r) (e : ∀ x, t' x = t x) : InvT t' r := by
  have : t' = t := funext e
  rw [this]; exact h

/-- `release(old); ptr[j] = p` commutes with the counter update -/
theorem relSet_eq (r : RC) (j : Nat) (p q : Option Nat) :
    ({ (r.release q) with ptrs := (r.release q).ptrs.set j p } : RC) = ({ r with ptrs := r.ptrs.set j p } : RC).release q := by
  cases q <;> rfl

/-- redirect pointer `j` (currently `q`) to `p`, releasing the old target: from ghost `t` with a temporary reference on `p` to `t - [p]` -/
theorem relSet_inv (t : Nat → Nat) (r : RC) (j : Nat) (p : Option Nat) (h : InvT t r) (hj : j < r.ptrs.length) (hp : ∀ o, p = some o → 1 ≤ t o) :
    InvT (fun x => t x - (if p = some x then 1 else 0)) ({ (r.release (r.ptrs[j]?).join) with ptrs := (r.release (r.ptrs[j]?).join).ptrs.set j p } : RC) := by
  rw [relSet_eq]
  have h1 := setptr_inv t r j p h hj hp
  cases hq : (r.ptrs[j]?).join with
  | none =>
    simp only [RC.release]
    exact invT_congr h1 (fun x => by simp [hq])
  | some oq =>
    have h2 := release_inv _ _ oq h1 (by
      simp only [hq, ↓reduceIte]
      split
      · rename_i e; have := hp oq e; omega
      · omega)
    refine invT_congr h2 (fun x => ?_)
    simp only [hq, Option.some.injEq]
    by_cases hx : x = oq
    · subst hx
      simp only [↓reduceIte]
      have := hp x
      split
      · rename_i e; have := this e; omega
      · omega
    · have hx' : ¬ (oq = x) := fun e => hx e.symm
      simp [hx, hx']

theorem reset_inv (r : RC) (i : Nat) (h : Inv r) : Inv (r.reset i) := by
  unfold RC.reset
  split
  · rename_i hi
    exact invT_congr (relSet_inv _ r i none h hi (by simp)) (fun x => by simp)
  · exact h

theorem assign_inv (r : RC) (i j : Nat) (h : Inv r) : Inv (r.assign i j) := by
  unfold RC.assign
  split
  · rename_i hij
    simp only
    cases hp : (r.ptrs[i]?).join with
    | none =>
      simp only [RC.addRef]
      exact invT_congr (relSet_inv _ r j none h hij.2 (by simp)) (fun x => by simp)
    | some o =>
      have hmem : some o ∈ r.ptrs := by
        have : r.ptrs[i]? = some (some o) := by
          cases hg : r.ptrs[i]? with
          | none => simp [hg] at hp
          | some v => simp [hg] at hp; rw [hp]
        exact List.mem_of_getElem? this
      have hlive : occ r o + 0 ≠ 0 := by
        have : 0 < r.ptrs.count (some o) := List.count_pos_iff.mpr hmem
        unfold occ; omega
      have h1 := addRef_inv _ r o h hlive
      have h2 := relSet_inv _ (r.addRef (some o)) j (some o) h1 (by simpa [RC.addRef, ptrs_setCount] using hij.2) (by intro o' e; cases e; simp)
      refine invT_congr h2 (fun x => ?_)
      simp only [Option.some.injEq]
      by_cases hx : x = o
      · subst hx; simp
      · have hx' : ¬ (o = x) := fun e => hx e.symm
        simp [hx, hx']
  · exact h

theorem fresh_inv (r : RC) (i : Nat) (h : Inv r) : Inv (r.fresh i) := by
  unfold RC.fresh
  split
  · rename_i hi
    simp only
    have h1 := newobj_inv _ r h
    have h2 := addRef_inv _ _ r.nextId h1 (by simp)
    have h3 := relSet_inv _ _ i (some r.nextId) h2 (by simpa [RC.addRef, ptrs_setCount] using hi) (by intro o' e; cases e; simp)
    have h4 := release_inv _ _ r.nextId h3 (by simp)
    refine invT_congr h4 (fun x => ?_)
    simp only [Option.some.injEq]
    by_cases hx : x = r.nextId
    · subst hx; simp
    · have hx' : ¬ (r.nextId = x) := fun e => hx e.symm
      simp [hx, hx']
  · exact h

/-- exchanging two cells of a list changes no count -/
theorem count_swap (l : List (Option Nat)) (i j : Nat) (hi : i < l.length) (hj : j < l.length) (x : Option Nat) :
    ((l.set i (l[j]?).join).set j (l[i]?).join).count x = l.count x := by
  have ei : (l[i]?).join = l[i] := by simp [List.getElem?_eq_getElem hi]
  have ej : (l[j]?).join = l[j] := by simp [List.getElem?_eq_getElem hj]
  rw [ei, ej]
  have hj' : j < (l.set i l[j]).length := by simpa using hj
  rw [List.count_set hj', List.count_set hi]
  by_cases hij : i = j
  · subst hij
    simp only [List.getElem_set_self]
    have : 0 < l.count l[i] := List.count_pos_iff.mpr (List.getElem_mem hi)
    by_cases h : l[i] = x
    · subst h; simp <;> omega
    · have h' : (l[i] == x) = false := by simpa using h
      simp [h']
  · rw [List.getElem_set_ne hij]
    have pi : 0 < l.count l[i] := List.count_pos_iff.mpr (List.getElem_mem hi)
    have pj : 0 < l.count l[j] := List.count_pos_iff.mpr (List.getElem_mem hj)
    by_cases h1 : l[i] = x <;> by_cases h2 : l[j] = x
    · have e1 : (l[i] == x) = true := by simpa using h1
      have e2 : (l[j] == x) = true := by simpa using h2
      simp only [e1, e2, ↓reduceIte]; rw [← h1] at *; omega
    · have e1 : (l[i] == x) = true := by simpa using h1
      have e2 : (l[j] == x) = false := by simpa using h2
      simp only [e1, e2, ↓reduceIte, Bool.false_eq_true]; rw [← h1] at *; omega
    · have e1 : (l[i] == x) = false := by simpa using h1
      have e2 : (l[j] == x) = true := by simpa using h2
      simp only [e1, e2, ↓reduceIte, Bool.false_eq_true]; rw [← h2] at *; omega
    · have e1 : (l[i] == x) = false := by simpa using h1
      have e2 : (l[j] == x) = false := by simpa using h2
      simp only [e1, e2, ↓reduceIte, Bool.false_eq_true]; omega

theorem swap_inv (r : RC) (i j : Nat) (h : Inv r) : Inv (r.swap i j) := by
  unfold RC.swap
  split
  · rename_i hij
    have ho : ∀ o, occ ({ r with ptrs := (r.ptrs.set i (r.ptrs[j]?).join).set j (r.ptrs[i]?).join } : RC) o = occ r o :=
      fun o => count_swap r.ptrs i j hij.1 hij.2 (some o)
    exact ⟨fun o => by rw [ho]; exact h.exact o, h.nz, h.nodup, fun o hm => by rw [ho]; exact h.freedDead o hm,
      fun o h1 h2 h0 => h.deadFreed o h1 h2 (by rw [← ho]; exact h0), fun o hb => by rw [ho]; exact h.bound o hb, by rw [ho]; exact h.zero, h.pos⟩
  · exact h

theorem init_inv (n : Nat) : Inv (RC.init n) := by
  have ho : ∀ x, occ (RC.init n) x = 0 := by
    intro x; unfold occ RC.init
    simp only
    exact List.count_eq_zero.mpr (by simp)
  refine ⟨fun o => by rw [ho]; rfl, by simp [RC.init], by simp [RC.init], by simp [RC.init], ?_, fun o _ => by rw [ho], by rw [ho], by simp [RC.init]⟩
  intro o h1 h2 _
  simp only [RC.init] at h2
  omega

theorem step_inv (r : RC) (op : RCOp) (h : Inv r) : Inv (RC.step r op) := by
  cases op with
  | fresh i => exact fresh_inv r i h
  | assign i j => exact assign_inv r i j h
  | reset i => exact reset_inv r i h
  | swap i j => exact swap_inv r i j h

theorem run_inv (n : Nat) (ops : List RCOp) : Inv (ops.foldl RC.step (RC.init n)) := by
  suffices ∀ r, Inv r → Inv (ops.foldl RC.step r) from this _ (init_inv n)
  induction ops with
  | nil => intro r h; exact h
  | cons op ops ih => intro r h; exact ih _ (step_inv r op h)

/-! ### the statements -/

/-- after any history the reference count of every object equals the number of pointers that refer to it -/
theorem C20_refcount_exact (n : Nat) (ops : List RCOp) (o : Nat) :
    (ops.foldl RC.step (RC.init n)).count o = (ops.foldl RC.step (RC.init n)).ptrs.count (some o) := by
  have := (run_inv n ops).exact o
  simpa [occ] using this

/-- an object that was ever created has been destroyed exactly when no pointer refers to it -/
theorem C20_freed_iff_unreferenced (n : Nat) (ops : List RCOp) (o : Nat) (h1 : 1 ≤ o) (h2 : o < (ops.foldl RC.step (RC.init n)).nextId) :
    o ∈ (ops.foldl RC.step (RC.init n)).freed ↔ (ops.foldl RC.step (RC.init n)).ptrs.count (some o) = 0 := by
  have h := run_inv n ops
  constructor
  · intro hm; have := (h.freedDead o hm).1; simpa [occ] using this
  · intro hz; exact h.deadFreed o h1 h2 (by simpa [occ] using hz)

/-- … and never twice -/
theorem C20_freed_once (n : Nat) (ops : List RCOp) : (ops.foldl RC.step (RC.init n)).freed.Nodup := (run_inv n ops).nodup

/-- pointers only ever refer to objects that were created -/
theorem C20_pointers_valid (n : Nat) (ops : List RCOp) (o : Nat) (h : some o ∈ (ops.foldl RC.step (RC.init n)).ptrs) :
    1 ≤ o ∧ o < (ops.foldl RC.step (RC.init n)).nextId ∧ o ∉ (ops.foldl RC.step (RC.init n)).freed := by
  have hi := run_inv n ops
  have hc : 0 < (ops.foldl RC.step (RC.init n)).ptrs.count (some o) := List.count_pos_iff.mpr h
  have hl : occ (ops.foldl RC.step (RC.init n)) o + 0 ≠ 0 := by unfold occ; omega
  obtain ⟨a, b⟩ := live_range hi hl
  exact ⟨a, b, fun hm => hl (hi.freedDead o hm).1⟩

/-! non-vacuity: a history with self-assignment, overwriting the last reference, and reset -/
example : let r := [RCOp.fresh 0, .assign 0 1, .assign 1 1, .fresh 0, .reset 1, .assign 2 0].foldl RC.step (RC.init 4)
    r.ptrs = [none, none, none, none] ∧ r.freed = [1, 2] ∧ r.counts = [] := by decide

example : let r := [RCOp.fresh 0, .fresh 1, .assign 0 2, .swap 0 1, .swap 2 2, .reset 1].foldl RC.step (RC.init 4)
    r.ptrs = [some 2, none, some 1, none] ∧ r.freed = [] ∧ r.counts = [(2, 1), (1, 1)] := by decide

end PotasscoVerif.C20rc
