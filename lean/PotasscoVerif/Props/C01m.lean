/-
  C01 (continued) — both read modes.  `C01_modes`: reading step by step (`accept`, then `parse(Incremental)` repeated while `more()`)
  delivers exactly the calls and the result of reading in one go (`readProgram` = `parse(Complete)`), for EVERY input text.
  Both loops are models of the code that exists (Model/AspifIn.lean: `stepsLoop` / `parseInc` + `incLoop`) and are tied to it by the
  correspondence run in both modes; they differ in how often blanks are skipped between steps (`parse` skips them, tests `more()`, and the
  client tests `more()` again) and the theorem is that this makes no difference.
-/
import PotasscoVerif.Props.C03c
import PotasscoVerif.Lemmas.AspifRoundTrip2
namespace PotasscoVerif.C01m
open PotasscoVerif PotasscoVerif.CharStream PotasscoVerif.AspifIn PotasscoVerif.Decimal
open PotasscoVerif.BufferedStream (isWs)

/-- the put-back flag (a ghost of the abstract stream) cleared -/
def unflag (a : AS) : AS := { a with canUnget := false }

theorem skipWs_unflag (a : AS) : (unflag a).skipWs = a.skipWs := rfl

theorem skipWs_of_nws (b : AS) (h : NWS b.rest) : b.skipWs = unflag b := by
  unfold AS.skipWs
  have hp : isWs (unflag b).peek = false := by
    show isWs (b.rest.headD 0) = false
    cases hr : b.rest with
    | nil => simp [isWs]
    | cons c r => exact h c r hr
  show AS.skipWsF (b.rest.length + 1) (unflag b) = unflag b
  unfold AS.skipWsF
  simp [hp]

theorem skipWs_skipWs (a : AS) : a.skipWs.skipWs = unflag a.skipWs :=
  skipWs_of_nws _ (C03.skipWs_nws a)

theorem matchInt_unflag (a : AS) : (unflag a).matchInt false = a.matchInt false := by
  unfold AS.matchInt
  simp only [Bool.false_eq_true, ↓reduceIte, skipWs_unflag]

theorem intIn_unflag (lo hi : Int) (a : AS) : intIn lo hi (unflag a) = intIn lo hi a := by
  unfold intIn; rw [matchInt_unflag]

theorem posMax_unflag (m : Nat) (a : AS) : posMax m (unflag a) = posMax m a := by
  unfold posMax; rw [intIn_unflag]

theorem dirStep_unflag (a : AS) : dirStep (unflag a) = dirStep a := by
  unfold dirStep; rw [posMax_unflag]

theorem stepLoop_unflag (f : Nat) (a : AS) (acc : List Call) : stepLoop f (unflag a) acc = stepLoop f a acc := by
  cases f with
  | zero => rfl
  | succ f => rw [AspifRT.stepLoop_succ, AspifRT.stepLoop_succ, dirStep_unflag]

theorem more_unflag (a : AS) : more (unflag a) = more a := rfl

theorem more_skipWs (a : AS) : more a.skipWs = ((more a).1, unflag (more a).2) := by
  unfold more
  rw [skipWs_skipWs]
  rfl

theorem stepsLoop_unflag (f : Nat) (inc : Bool) (a : AS) (acc : List Call) : stepsLoop f inc (unflag a) acc = stepsLoop f inc a acc := by
  cases f with
  | zero => rfl
  | succ f =>
    have e : stepLoop ((unflag a).rest.length + 1) (unflag a) [] = stepLoop (a.rest.length + 1) a [] := stepLoop_unflag _ a []
    rw [AspifRT.stepsLoop_succ, AspifRT.stepsLoop_succ]
    simp only [e]

attribute [local irreducible] parseInc more in
theorem incLoop_succ (f : Nat) (inc : Bool) (a : AS) (acc : List Call) : incLoop (f + 1) inc a acc =
    (match (parseInc inc a).2 with
     | .error l => { calls := acc ++ (parseInc inc a).1, err := some l }
     | .ok a1 => if (more a1).1 then incLoop f inc (more a1).2 (acc ++ (parseInc inc a).1) else { calls := acc ++ (parseInc inc a).1, err := none }) := rfl

/-- the step-by-step loop and the one-go loop agree from every stream state -/
theorem incLoop_eq (f : Nat) (inc : Bool) : ∀ (a : AS) (acc : List Call), incLoop f inc a acc = stepsLoop f inc a acc := by
  induction f with
  | zero => intro a acc; rfl
  | succ f ih =>
    intro a acc
    rw [incLoop_succ, AspifRT.stepsLoop_succ]
    unfold parseInc
    generalize stepLoop (a.rest.length + 1) a [] = r
    obtain ⟨cs, e⟩ := r
    cases e with
    | error l => simp
    | ok a1 =>
      simp only [more_skipWs]
      by_cases h1 : ((more a1).1 && !inc) = true
      · simp only [h1, ↓reduceIte]
        simp [unflag]
      · simp only [h1, Bool.false_eq_true, ↓reduceIte]
        rw [more_unflag]
        have hm : more (more a1).2 = ((more a1).1, unflag (more a1).2) := more_skipWs a1
        rw [hm]
        by_cases h2 : (more a1).1 = true
        · simp only [h2, ↓reduceIte]
          rw [ih, stepsLoop_unflag]
          simp
        · simp [h2]

/-- **C01 (both read modes)**: for every input text, reading step by step delivers exactly the calls and the result (success, or the
    line of the error) of reading in one go. -/
theorem C01_modes (input : List Nat) : readInc input = AspifIn.read input := by
  unfold readInc AspifIn.read
  simp only [incLoop_eq]

/-- non-vacuity: a two-step incremental program ("asp 1 0 0 incremental", one fact, blank line, an empty second step) read step by step -/
example : readInc [97, 115, 112, 32, 49, 32, 48, 32, 48, 32, 105, 110, 99, 114, 101, 109, 101, 110, 116, 97, 108, 10, 49, 32, 48, 32, 49, 32, 49, 32, 48, 32, 48, 10, 48, 10, 32, 10, 48, 10]
    = { calls := [.initProgram true, .beginStep, .rule 0 [1] [], .endStep, .beginStep, .endStep], err := none } := by decide +kernel

end PotasscoVerif.C01m
