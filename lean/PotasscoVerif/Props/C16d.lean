/-
  C16 (continued) — the library's enumerations: every constant of every enumeration of the library is written as its name, and the
  name (alone, or followed by a separator) is converted back to exactly that constant; a constant's number inside the range is
  accepted too, a number outside the declared constants is refused.

  The declaration texts (`Gen.*_rep`, what the `POTASSCO_ENUM_CONSTANTS` macro stringizes) and the (name, value) tables
  (`Gen.*_table`, read from the `enum E { … }` the same macro declares) are regenerated from /repo's headers on every run; the
  statements are finite tables decided by the kernel (`decide +kernel`) over the WHOLE of each table.
-/
import PotasscoVerif.Model.StringConvert
import PotasscoVerif.Gen.Consts
namespace PotasscoVerif.C16
open PotasscoVerif PotasscoVerif.StringConvert

def nameBytes (s : String) : List Nat := s.toList.map Char.toNat

/-- every constant of the table is written as its name and read back (name alone, and name followed by `,`) -/
def EnumOk (rep : List Nat) (lo hi : Int) (table : List (String × Int)) : Bool :=
  let e : EnumClass := { rep := rep, min := lo, max := hi }
  table.all (fun kv =>
    e.nameOf kv.2 == some (nameBytes kv.1) &&
    e.parse (nameBytes kv.1) == ((nameBytes kv.1).length, some kv.2) &&
    e.parse (nameBytes kv.1 ++ [44, 120]) == ((nameBytes kv.1).length, some kv.2) &&
    e.isValid kv.2) &&
  -- numbers just outside the declared range are no constants
  !e.isValid (lo - 1) && !e.isValid (hi + 1) && e.nameOf (hi + 1) == none && (e.parse [120, 120, 120]).2 == none

theorem C16_enum_Head_t : EnumOk Gen.Head_t_rep Gen.Head_t_eMin Gen.Head_t_eMax Gen.Head_t_table = true := by decide +kernel
theorem C16_enum_Body_t : EnumOk Gen.Body_t_rep Gen.Body_t_eMin Gen.Body_t_eMax Gen.Body_t_table = true := by decide +kernel
theorem C16_enum_Value_t : EnumOk Gen.Value_t_rep Gen.Value_t_eMin Gen.Value_t_eMax Gen.Value_t_table = true := by decide +kernel
theorem C16_enum_Heuristic_t : EnumOk Gen.Heuristic_t_rep Gen.Heuristic_t_eMin Gen.Heuristic_t_eMax Gen.Heuristic_t_table = true := by decide +kernel
theorem C16_enum_Directive_t : EnumOk Gen.Directive_t_rep Gen.Directive_t_eMin Gen.Directive_t_eMax Gen.Directive_t_table = true := by decide +kernel
theorem C16_enum_Theory_t : EnumOk Gen.Theory_t_rep Gen.Theory_t_eMin Gen.Theory_t_eMax Gen.Theory_t_table = true := by decide +kernel
theorem C16_enum_Clause_t : EnumOk Gen.Clause_t_rep Gen.Clause_t_eMin Gen.Clause_t_eMax Gen.Clause_t_table = true := by decide +kernel
theorem C16_enum_Statistics_t : EnumOk Gen.Statistics_t_rep Gen.Statistics_t_eMin Gen.Statistics_t_eMax Gen.Statistics_t_table = true := by decide +kernel
theorem C16_enum_Tuple_t : EnumOk Gen.Tuple_t_rep Gen.Tuple_t_eMin Gen.Tuple_t_eMax Gen.Tuple_t_table = true := by decide +kernel

/-- what `EnumOk` says, unfolded: value → name → value for every constant of a table that passes -/
theorem C16_enum_roundtrip (rep : List Nat) (lo hi : Int) (table : List (String × Int)) (h : EnumOk rep lo hi table = true) :
    ∀ kv ∈ table, (EnumClass.nameOf { rep := rep, min := lo, max := hi } kv.2) = some (nameBytes kv.1) ∧
      EnumClass.parse { rep := rep, min := lo, max := hi } (nameBytes kv.1) = ((nameBytes kv.1).length, some kv.2) := by
  intro kv hkv
  unfold EnumOk at h
  simp only [Bool.and_eq_true, List.all_eq_true, beq_iff_eq] at h
  obtain ⟨⟨⟨⟨hall, _⟩, _⟩, _⟩, _⟩ := h
  obtain ⟨⟨⟨h1, h2⟩, _⟩, _⟩ := hall kv hkv
  exact ⟨h1, h2⟩

end PotasscoVerif.C16
