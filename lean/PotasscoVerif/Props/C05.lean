/-
  C05 — smodels writer and reader are inverses on the smodels-expressible fragment.

  FULL STATEMENT, PROVED (`C05_roundtrip`): for every program of the fragment (`ProgOk`: per step a rule section of rules with
  non-empty head or integrity constraints through the false atom, cardinality/weight rules with non-negative bound, minimize
  statements and — with extensions — externals; then symbol-table entries for single positive atoms; then at most one compute
  statement; one step, or any number with the clasp extensions; arguments anywhere in their ranges; any false atom)
      (write ext f p).2 = true   and   read ext (write ext f p).1 = { calls := initProgram _ :: canonCalls f p, err := none }
  where `canonCalls` is the program rule for rule with body literals negative-first (`canonB`, a permutation: `C05_body_order`),
  weighted literals likewise with a negative weight as its absolute value on the complementary literal (`canonW`, the identity up
  to that order for weights ≥ 0: `C05_weights_kept`), minimize statements in order with priorities 0,1,…, the symbol table and
  the externals unchanged, the compute statement as integrity constraints (and the false atom's).  The argument of initProgram is
  what the first character suggests: the format has no header.
  `C05_refused_*`: for each kind of call, exactly when the writer refuses it — "programs outside the fragment are refused with an
  error instead of being written incorrectly", call by call; `C05_value_code`.
  The proof (Lemmas/SmodelsRoundTrip*.lean) composes: number round trip → atom/weight lists → body / sum encodings → every rule
  line → rule section → symbol table → compute statement → step → program, and the writer's section state machine in closed form.
  Buffer independence is C09.
-/
import PotasscoVerif.Lemmas.SmodelsRoundTrip2
namespace PotasscoVerif.C05
open PotasscoVerif PotasscoVerif.SmodelsOut

def refused (r : Except W W) : Prop := ∃ e, r = .error e

theorem C05_refused_rule (ext : Bool) (f : Nat) (w : W) (ht : Nat) (head : List Nat) (body : List Int) :
    refused (step ext f w (.rule ht head body)) ↔ (w.sec ≠ 0 ∨ (head = [] ∧ ht ≠ 1 ∧ f = 0)) := by
  unfold refused step
  by_cases hs : w.sec = 0 <;> cases head <;> by_cases h1 : ht = 1 <;> by_cases hf : f = 0 <;> simp [hs, h1, hf]

theorem C05_refused_sum (ext : Bool) (f : Nat) (w : W) (ht : Nat) (head : List Nat) (bound : Int) (body : List (Int × Int)) :
    refused (step ext f w (.sumRule ht head bound body)) ↔
      (w.sec ≠ 0 ∨ (head = [] ∧ f = 0) ∨ ht = 1 ∨ (head ≠ [] ∧ head.length ≠ 1) ∨ bound < 0) := by
  unfold refused step
  by_cases hs : w.sec = 0 <;> by_cases h1 : ht = 1 <;> by_cases hf : f = 0 <;> by_cases hb : bound < 0 <;>
    rcases head with _ | ⟨a, _ | ⟨b, r⟩⟩ <;> simp [hs, h1, hf, hb]

theorem C05_refused_output (ext : Bool) (f : Nat) (w : W) (name : List Nat) (cond : List Int) :
    refused (step ext f w (.output name cond)) ↔ (w.sec > 1 ∨ ¬ ∃ l, cond = [l] ∧ l > 0) := by
  unfold refused step
  by_cases hs : w.sec > 1
  · simp [hs]
  · rcases cond with _ | ⟨l, _ | ⟨l2, r⟩⟩
    · simp [hs]
    · by_cases hl : l ≤ 0
      · simp [hs, hl]
      · simp [hs, hl]
    · simp [hs]

theorem C05_refused_external (ext : Bool) (f : Nat) (w : W) (a v : Nat) :
    refused (step ext f w (.external a v)) ↔ ext = false := by
  unfold refused step
  cases ext <;> by_cases hv : v = 3 <;> simp [hv]

theorem C05_refused_assume (ext : Bool) (f : Nat) (w : W) (lits : List Int) :
    refused (step ext f w (.assume lits)) ↔ w.sec ≥ 2 := by
  unfold refused step doAssume
  by_cases hs : w.sec ≥ 2 <;> simp [hs]

theorem C05_refused_incremental (ext : Bool) (f : Nat) (w : W) (b : Bool) :
    refused (step ext f w (.initProgram b)) ↔ (b = true ∧ ext = false) := by
  unfold refused step
  cases b <;> cases ext <;> simp

/-- directives smodels cannot express are always refused. -/
theorem C05_refused_unsupported (ext : Bool) (f : Nat) (w : W) :
    (∀ a, refused (step ext f w (.project a))) ∧ (∀ a t b p c, refused (step ext f w (.heuristic a t b p c))) ∧
    (∀ s t c, refused (step ext f w (.acycEdge s t c))) ∧ (∀ i n, refused (step ext f w (.theoryNum i n))) ∧
    (∀ i n, refused (step ext f w (.theorySym i n))) ∧ (∀ i c a, refused (step ext f w (.theoryCompound i c a))) ∧
    (∀ i t c, refused (step ext f w (.theoryElement i t c))) ∧ (∀ a t e g, refused (step ext f w (.theoryAtom a t e g))) := by
  unfold refused step
  refine ⟨?_, ?_, ?_, ?_, ?_, ?_, ?_, ?_⟩ <;> intros <;> exact ⟨w, rfl⟩

/-- the writer's body order: a permutation of the body, negatives first, relative order kept. -/
theorem C05_body_order {α} (isNeg : α → Bool) (l : List α) :
    (ordered isNeg l).Perm l ∧ (ordered isNeg l).filter isNeg = l.filter isNeg ∧
    (ordered isNeg l).filter (fun x => !isNeg x) = l.filter (fun x => !isNeg x) := by
  unfold ordered
  refine ⟨?_, ?_, ?_⟩
  · induction l with
    | nil => simp
    | cons x l ih =>
      by_cases h : isNeg x
      · simp [List.filter_cons, h]; exact ih
      · simp [List.filter_cons, h]
        exact (List.perm_middle).trans (List.Perm.cons x ih)
  · simp [List.filter_append, List.filter_filter]
  · simp [List.filter_append, List.filter_filter]

theorem C05_value_code : ∀ v ∈ [0, 1, 2], (((v ^^^ 3) - 1) ^^^ 3) - 1 = v := by decide

/-! ### the round trip -/
open PotasscoVerif.SmRT in
/-- **C05**: every program of the fragment is written (not refused) and read back as its canonical form, without error. -/
theorem C05_roundtrip (ext inc : Bool) (f : Nat) (steps : List Step) (h : ProgOk ext inc f steps) :
    (write ext f (progCalls inc steps)).2 = true ∧
    ∃ b, SmodelsIn.read ext (write ext f (progCalls inc steps)).1 = { calls := .initProgram b :: canonCalls f steps, err := none } :=
  write_read ext inc f steps h

open PotasscoVerif.SmRT in
/-- for rule bodies (weights ≥ 0) the weighted literals come back unchanged up to the order negative-first -/
theorem C05_weights_kept (ws : List (Int × Int)) (h : ∀ p ∈ ws, 0 ≤ p.2) :
    canonW ws = ordered (fun (p : Int × Int) => decide (p.1 < 0)) ws := canonW_nonneg ws h

/-! non-vacuity: an in-fragment program round-trips through both models -/
def exCalls : List Call :=
  [.initProgram true, .beginStep, .rule 0 [] [1, -2], .rule 1 [3, 4] [5, -6, 7, -8], .sumRule 0 [2] 3 [(1, 2), (-3, 0), (4, 5)],
   .minimize 7 [(1, -2), (-3, 4)], .external 5 2, .output [97] [1], .assume [2, -3], .endStep, .beginStep, .endStep]

example : (write true 9 exCalls).2 = true ∧
    (SmodelsIn.read true (write true 9 exCalls).1).calls =
    [.initProgram true, .beginStep, .rule 0 [9] [-2, 1], .rule 1 [3, 4] [-6, -8, 5, 7], .sumRule 0 [2] 3 [(-3, 0), (1, 2), (4, 5)],
     .minimize 0 [(-1, 2), (-3, 4)], .external 5 2, .output [97] [1], .rule 0 [] [-2], .rule 0 [] [3], .rule 0 [] [9], .endStep,
     .beginStep, .endStep] := by decide +kernel

/-- the same program as steps: it satisfies the hypotheses of `C05_roundtrip` -/
def exSteps : List SmRT.Step :=
  [{ rs := [.rule 0 [] [1, -2], .rule 1 [3, 4] [5, -6, 7, -8], .sumRule 0 [2] 3 [(1, 2), (-3, 0), (4, 5)], .minimize 7 [(1, -2), (-3, 4)], .external 5 2],
     outs := [.output [97] [1]], asm := some [2, -3] },
   { rs := [], outs := [], asm := none }]

example : SmRT.progCalls true exSteps = exCalls := by decide +kernel

open PotasscoVerif.SmRT PotasscoVerif.AspifRT in
example : ProgOk true true 9 exSteps := by
  refine ⟨by decide, by decide, fun _ => rfl, ?_⟩
  intro s hs
  simp only [exSteps, List.mem_cons, List.not_mem_nil, or_false] at hs
  rcases hs with rfl | rfl
  · refine ⟨?_, ?_, ?_⟩
    · intro c hc
      simp only [List.mem_cons, List.not_mem_nil, or_false] at hc
      rcases hc with rfl | rfl | rfl | rfl | rfl <;> simp [RuleOk, atomOk, litOk, lenOk, U32MAX]
    · intro c hc
      simp only [List.mem_cons, List.not_mem_nil, or_false] at hc
      subst hc; simp [OutOk]
    · intro l hl x hx
      simp only [Option.some.injEq] at hl; subst hl
      simp only [List.mem_cons, List.not_mem_nil, or_false] at hx
      rcases hx with rfl | rfl <;> simp [litOk]
  · exact ⟨by simp, by simp, by simp⟩

end PotasscoVerif.C05
