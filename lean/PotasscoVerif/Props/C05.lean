/-
  C05 — smodels writer and reader are inverses on the smodels-expressible fragment.

  FULL STATEMENT: InFragment ext f p → read ext (write ext f p) = ok (canon f p), and
                  write ext f p = error ↔ ¬ InFragment ext f p.
  PROVED HERE (about Model/SmodelsOut.lean):
    * `C05_refused_*`: for each kind of call, exactly when the writer model refuses it — "programs outside
      the fragment are refused with an error instead of being written incorrectly", call by call;
    * `C05_body_order`: the body reordering of the writer (negative literals first) is a permutation that
      keeps the relative order inside both groups — "the same program up to the order of body literals";
    * `C05_value_code`: the external value code `(v^3)-1` used by writer and reader is an involution on 0..2.
  MISSING: the round trip through the reader model for whole programs (`C05_roundtrip`); decided by the
  correspondence run (both models == real classes) and the canon round-trip oracle on the implementation.
-/
import PotasscoVerif.Model.SmodelsIn
import PotasscoVerif.Model.SmodelsOut
namespace PotasscoVerif.C05
open PotasscoVerif PotasscoVerif.SmodelsOut

def refused (r : Except W W) : Prop := ∃ e, r = .error e

theorem C05_refused_rule (ext : Bool) (f : Nat) (w : W) (ht : Nat) (head : List Nat) (body : List Int) :
    refused (step ext f w (.rule ht head body)) ↔ (w.sec ≠ 0 ∨ (head = [] ∧ ht ≠ 1 ∧ f = 0)) := by
  unfold refused step
  by_cases hs : w.sec = 0 <;> cases head <;> by_cases h1 : ht = 1 <;> by_cases hf : f = 0 <;> simp [hs, h1, hf]

theorem C05_refused_sum (ext : Bool) (f : Nat) (w : W) (ht : Nat) (head : List Nat) (bound : Int) (body : List (Int × Int)) :
    refused (step ext f w (.sumRule ht head bound body)) ↔
      (w.sec ≠ 0 ∨ (head = [] ∧ f = 0) ∨ ht = 1 ∨ (head ≠ [] ∧ head.length ≠ 1) ∨ bound < 0) := by
  unfold refused step
  by_cases hs : w.sec = 0 <;> by_cases h1 : ht = 1 <;> by_cases hf : f = 0 <;> by_cases hb : bound < 0 <;>
    rcases head with _ | ⟨a, _ | ⟨b, r⟩⟩ <;> simp [hs, h1, hf, hb]

theorem C05_refused_output (ext : Bool) (f : Nat) (w : W) (name : List Nat) (cond : List Int) :
    refused (step ext f w (.output name cond)) ↔ (w.sec > 1 ∨ ¬ ∃ l, cond = [l] ∧ l > 0) := by
  unfold refused step
  by_cases hs : w.sec > 1
  · simp [hs]
  · rcases cond with _ | ⟨l, _ | ⟨l2, r⟩⟩
    · simp [hs]
    · by_cases hl : l ≤ 0
      · simp [hs, hl]
      · simp [hs, hl]
    · simp [hs]

theorem C05_refused_external (ext : Bool) (f : Nat) (w : W) (a v : Nat) :
    refused (step ext f w (.external a v)) ↔ ext = false := by
  unfold refused step
  cases ext <;> by_cases hv : v = 3 <;> simp [hv]

theorem C05_refused_assume (ext : Bool) (f : Nat) (w : W) (lits : List Int) :
    refused (step ext f w (.assume lits)) ↔ w.sec ≥ 2 := by
  unfold refused step doAssume
  by_cases hs : w.sec ≥ 2 <;> simp [hs]

theorem C05_refused_incremental (ext : Bool) (f : Nat) (w : W) (b : Bool) :
    refused (step ext f w (.initProgram b)) ↔ (b = true ∧ ext = false) := by
  unfold refused step
  cases b <;> cases ext <;> simp

/-- directives smodels cannot express are always refused. -/
theorem C05_refused_unsupported (ext : Bool) (f : Nat) (w : W) :
    (∀ a, refused (step ext f w (.project a))) ∧ (∀ a t b p c, refused (step ext f w (.heuristic a t b p c))) ∧
    (∀ s t c, refused (step ext f w (.acycEdge s t c))) ∧ (∀ i n, refused (step ext f w (.theoryNum i n))) ∧
    (∀ i n, refused (step ext f w (.theorySym i n))) ∧ (∀ i c a, refused (step ext f w (.theoryCompound i c a))) ∧
    (∀ i t c, refused (step ext f w (.theoryElement i t c))) ∧ (∀ a t e g, refused (step ext f w (.theoryAtom a t e g))) := by
  unfold refused step
  refine ⟨?_, ?_, ?_, ?_, ?_, ?_, ?_, ?_⟩ <;> intros <;> exact ⟨w, rfl⟩

/-- the writer's body order: a permutation of the body, negatives first, relative order kept. -/
theorem C05_body_order {α} (isNeg : α → Bool) (l : List α) :
    (ordered isNeg l).Perm l ∧ (ordered isNeg l).filter isNeg = l.filter isNeg ∧
    (ordered isNeg l).filter (fun x => !isNeg x) = l.filter (fun x => !isNeg x) := by
  unfold ordered
  refine ⟨?_, ?_, ?_⟩
  · induction l with
    | nil => simp
    | cons x l ih =>
      by_cases h : isNeg x
      · simp [List.filter_cons, h]; exact ih
      · simp [List.filter_cons, h]
        exact (List.perm_middle).trans (List.Perm.cons x ih)
  · simp [List.filter_append, List.filter_filter]
  · simp [List.filter_append, List.filter_filter]

theorem C05_value_code : ∀ v ∈ [0, 1, 2], (((v ^^^ 3) - 1) ^^^ 3) - 1 = v := by decide

/-! non-vacuity: an in-fragment program round-trips through both models -/
def exCalls : List Call :=
  [.initProgram true, .beginStep, .rule 0 [] [1, -2], .rule 1 [3, 4] [5, -6, 7, -8], .sumRule 0 [2] 3 [(1, 2), (-3, 0), (4, 5)],
   .minimize 7 [(1, -2), (-3, 4)], .external 5 2, .output [97] [1], .assume [2, -3], .endStep, .beginStep, .endStep]

example : (write true 9 exCalls).2 = true ∧
    (SmodelsIn.read true (write true 9 exCalls).1).calls =
    [.initProgram true, .beginStep, .rule 0 [9] [-2, 1], .rule 1 [3, 4] [-6, -8, 5, 7], .sumRule 0 [2] 3 [(-3, 0), (1, 2), (4, 5)],
     .minimize 0 [(-1, 2), (-3, 4)], .external 5 2, .output [97] [1], .rule 0 [] [-2], .rule 0 [] [3], .rule 0 [] [9], .endStep,
     .beginStep, .endStep] := by decide +kernel

end PotasscoVerif.C05
