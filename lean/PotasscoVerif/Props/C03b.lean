/-
  C03 (continued) — the reported line: whenever the aspif reader rejects a text, the line it reports lies between 1 and the
  number of lines of the text (1 + the number of line ends LF, CR, CRLF).

  The measure `a.line + nl a.rest` never grows along any stream operation and the line counter never shrinks: so every state the
  reader can be in, and hence every line it can report, is bounded by the measure of the initial state, `1 + nl input`.
-/
import PotasscoVerif.Props.C04
namespace PotasscoVerif.C03
open PotasscoVerif PotasscoVerif.CharStream PotasscoVerif.AspifIn
open PotasscoVerif.BufferedStream (IntRes isWs isDigit)

/-- line ends in a text: every CR, and every LF that does not follow a CR -/
def nlAux : Bool → List Nat → Nat
  | _, [] => 0
  | prevCR, c :: r => (if c == 13 then 1 else if c == 10 && !prevCR then 1 else 0) + nlAux (c == 13) r

def nl (l : List Nat) : Nat := nlAux false l

theorem nlAux_le (r : List Nat) : nlAux true r ≤ nlAux false r ∧ nlAux false r ≤ nlAux true r + 1 := by
  cases r with
  | nil => simp [nlAux]
  | cons c r => simp only [nlAux]; constructor <;> (split <;> try split) <;> simp_all <;> omega

theorem nl_cons_ge (c : Nat) (r : List Nat) : nl r ≤ nl (c :: r) := by
  unfold nl
  simp only [nlAux]
  by_cases h : c = 13
  · subst h; have := (nlAux_le r).2; simp; omega
  · have : (c == 13) = false := by simpa using h
    rw [this]; omega

theorem nl_suffix {s l : List Nat} (h : s <:+ l) : nl s ≤ nl l := by
  induction l with
  | nil => have := List.eq_nil_of_suffix_nil h; subst this; exact Nat.le_refl _
  | cons c r ih =>
    rcases List.suffix_cons_iff.mp h with h | h
    · subst h; exact Nat.le_refl _
    · exact Nat.le_trans (ih h) (nl_cons_ge c r)

/-- `a'` is reachable from `a` as far as lines are concerned: the counter has not shrunk, the measure has not grown -/
def LE (a a' : AS) : Prop := a.line ≤ a'.line ∧ a'.line + nl a'.rest ≤ a.line + nl a.rest ∧ a'.rest.length ≤ a.rest.length
/-- `l` is a line some state reachable from `a` may report -/
def Bnd (a : AS) (l : Nat) : Prop := a.line ≤ l ∧ l ≤ a.line + nl a.rest

theorem LE.refl (a : AS) : LE a a := ⟨Nat.le_refl _, Nat.le_refl _, Nat.le_refl _⟩
theorem LE.trans {a b c : AS} (h1 : LE a b) (h2 : LE b c) : LE a c := ⟨Nat.le_trans h1.1 h2.1, Nat.le_trans h2.2.1 h1.2.1, Nat.le_trans h2.2.2 h1.2.2⟩
theorem LE.bnd {a b : AS} (h : LE a b) : Bnd a b.line := ⟨h.1, by have := h.2.1; omega⟩
theorem Bnd.of_le {a b : AS} {l : Nat} (h : LE a b) (hb : Bnd b l) : Bnd a l := ⟨Nat.le_trans h.1 hb.1, by have := h.2.1; have := hb.2; omega⟩
theorem LE.of_suffix {a b : AS} (hl : b.line = a.line) (hs : b.rest <:+ a.rest) : LE a b := ⟨by omega, by have := nl_suffix hs; omega, hs.length_le⟩

theorem get_le (a : AS) : LE a a.get.2 := by
  unfold AS.get
  split
  · rename_i h; exact ⟨Nat.le_refl _, by simp, by simp⟩
  · rename_i c r h
    split
    · exact ⟨Nat.le_refl _, by simp, by simp⟩
    · split
      · rename_i h13
        have h13' : c = 13 := by simpa using h13
        subst h13'
        split
        · rename_i r' ; refine ⟨by simp, ?_, by simp [h]; omega⟩
          simp only [h]
          simp [nl, nlAux]; omega
        · rename_i hno
          refine ⟨by simp, ?_, by simp [h]⟩
          simp only [h]
          have hb : nlAux false r ≤ nlAux true r := by
            cases r with
            | nil => simp [nlAux]
            | cons x t =>
              have hx : x ≠ 10 := by intro e; subst e; exact hno t rfl
              have : (x == 10) = false := by simpa using hx
              simp [nlAux, this]
          simp [nl, nlAux]; omega
      · split
        · rename_i _ h10
          have : c = 10 := by simpa using h10
          subst this
          refine ⟨by simp, ?_, by simp [h]⟩
          simp only [h]; simp [nl, nlAux]; omega
        · rename_i h13 h10
          refine ⟨by simp, ?_, by simp [h]⟩
          simp only [h]
          have e13 : (c == 13) = false := by simpa using h13
          have e10 : (c == 10) = false := by simpa using h10
          simp [nl, nlAux, e13, e10]

theorem skipWsF_le (f : Nat) (a : AS) : LE a (AS.skipWsF f a) := by
  induction f generalizing a with
  | zero => exact LE.refl a
  | succ f ih =>
    simp only [AS.skipWsF]
    split
    · exact LE.trans (get_le a) (ih _)
    · exact LE.refl a

theorem skipWs_le (a : AS) : LE a a.skipWs := by
  unfold AS.skipWs
  exact LE.trans (b := { a with canUnget := false }) ⟨Nat.le_refl _, Nat.le_refl _, Nat.le_refl _⟩ (skipWsF_le _ _)

theorem matchTok_le (a : AS) (w : List Nat) : LE a (a.matchTok w).2 := by
  unfold AS.matchTok
  split
  · exact LE.of_suffix rfl (List.drop_suffix _ _)
  · exact ⟨Nat.le_refl _, Nat.le_refl _, Nat.le_refl _⟩

theorem digitRun_suffix (l : List Nat) : (digitRun l).2 <:+ l := by
  induction l with
  | nil => simp [digitRun]
  | cons c r ih =>
    simp only [digitRun]
    split
    · exact List.IsSuffix.trans ih (List.suffix_cons c r)
    · exact List.suffix_refl _

theorem matchIntDigits_le (a : AS) (sg : Nat) : LE a (AS.matchIntDigits a sg).2 := by
  unfold AS.matchIntDigits
  split
  · exact LE.refl a
  · exact LE.of_suffix rfl (digitRun_suffix _)

theorem matchIntCore_le (a : AS) : LE a (AS.matchIntCore a).2 := by
  unfold AS.matchIntCore
  refine LE.trans ?_ (matchIntDigits_le _ _)
  split
  · exact LE.of_suffix rfl (List.tail_suffix _)
  · exact LE.refl a

theorem matchInt_le (a : AS) (b : Bool) : LE a (a.matchInt b).2 := by
  unfold AS.matchInt
  refine LE.trans ?_ (matchIntCore_le _)
  split
  · exact ⟨Nat.le_refl _, Nat.le_refl _, Nat.le_refl _⟩
  · exact skipWs_le a

theorem copy_le (a : AS) (n : Nat) : LE a (a.copy n).2 := by
  unfold AS.copy
  exact LE.of_suffix rfl (List.drop_suffix _ _)

theorem skipLineF_le (f : Nat) (a : AS) : LE a (skipLineF f a) := by
  induction f generalizing a with
  | zero => exact LE.refl a
  | succ f ih =>
    simp only [skipLineF]
    split
    · exact LE.refl a
    · split
      · exact get_le a
      · exact LE.trans (get_le a) (ih _)

theorem skipLine_le (a : AS) : LE a (skipLine a) := skipLineF_le _ a

/-! ### parsers -/
def Mono {α : Type} (p : P α) : Prop := ∀ a, (∀ x a', p a = .ok (x, a') → LE a a') ∧ (∀ l, p a = .error l → Bnd a l)

theorem res_err {α : Type} {a b : AS} (h : LE a b) :
    (∀ x a', (Except.error b.line : Except Nat (α × AS)) = .ok (x, a') → LE a a') ∧ (∀ l, (Except.error b.line : Except Nat (α × AS)) = .error l → Bnd a l) :=
  ⟨(by intro x a' e; cases e), (by intro l e; cases e; exact h.bnd)⟩
theorem res_ok {α : Type} {a b : AS} (y : α) (h : LE a b) :
    (∀ x a', (Except.ok (y, b) : Except Nat (α × AS)) = .ok (x, a') → LE a a') ∧ (∀ l, (Except.ok (y, b) : Except Nat (α × AS)) = .error l → Bnd a l) :=
  ⟨(by intro x a' e; cases e; exact h), (by intro l e; cases e)⟩

theorem Mono.bind {α β : Type} {p : P α} {g : α × AS → Except Nat (β × AS)} (hp : Mono p) (hg : ∀ x, Mono (fun a' => g (x, a'))) :
    Mono (fun a => p a >>= g) := by
  intro a
  show (∀ x a', (p a >>= g) = .ok (x, a') → LE a a') ∧ (∀ l, (p a >>= g) = .error l → Bnd a l)
  cases h : p a with
  | error l =>
    refine ⟨?_, ?_⟩
    · intro x a' e; cases e
    · intro l' e; cases e; exact (hp a).2 l h
  | ok r =>
    obtain ⟨x, a1⟩ := r
    have h1 := (hp a).1 x a1 h
    refine ⟨?_, ?_⟩
    · intro y a' e; exact LE.trans h1 ((hg x a1).1 y a' e)
    · intro l e; exact Bnd.of_le h1 ((hg x a1).2 l e)

theorem Mono.pure {α : Type} (x : α) : Mono (fun a => (Pure.pure (x, a) : Except Nat (α × AS))) := fun a => res_ok x (LE.refl a)
theorem Mono.ok {α : Type} (x : α) : Mono (fun a => (.ok (x, a) : Except Nat (α × AS))) := fun a => res_ok x (LE.refl a)
theorem Mono.error {α : Type} : Mono (fun a => (.error a.line : Except Nat (α × AS))) := fun a => res_err (LE.refl a)
theorem Mono.ite {α : Type} (c : Prop) [Decidable c] {p q : P α} (hp : Mono p) (hq : Mono q) : Mono (fun a => if c then p a else q a) := by
  intro a; by_cases h : c <;> simp only [h, ↓reduceIte]
  · exact hp a
  · exact hq a

theorem intIn_mono (lo hi : Int) : Mono (intIn lo hi) := by
  intro a
  unfold intIn
  have hle := matchInt_le a false
  split
  · rename_i v a' h
    rw [h] at hle
    split
    · exact res_ok v hle
    · exact res_err hle
  · rename_i a' h
    rw [h] at hle
    exact res_err hle

theorem posMax_mono (m : Nat) : Mono (posMax m) := by
  unfold posMax
  exact Mono.bind (intIn_mono 0 m) (fun x => Mono.pure _)

theorem pos_mono : Mono pos := posMax_mono _
theorem atom_mono : Mono atom := by
  unfold atom
  exact Mono.bind (intIn_mono _ _) (fun x => Mono.pure _)

theorem lit_mono : Mono lit := by
  intro a
  unfold lit
  have hle := matchInt_le a false
  split
  · rename_i v a' h
    rw [h] at hle
    split
    · exact res_ok v hle
    · exact res_err hle
  · rename_i a' h
    rw [h] at hle
    exact res_err hle

theorem wlit_mono (minW : Int) : Mono (wlit minW) := by
  unfold wlit
  exact Mono.bind lit_mono (fun l => Mono.bind (intIn_mono _ _) (fun w => Mono.pure _))

theorem rep_mono {α : Type} (p : P α) (hp : Mono p) : ∀ (n : Nat) (acc : List α), Mono (rep p n acc) := by
  intro n
  induction n with
  | zero => intro acc; unfold rep; exact Mono.ok _
  | succ n ih => intro acc; unfold rep; exact Mono.bind hp (fun x => ih _)

theorem counted_mono {α : Type} (p : P α) (hp : Mono p) : Mono (counted p) := by
  unfold counted
  exact Mono.bind pos_mono (fun n => rep_mono p hp n [])

theorem atoms_mono : Mono atoms := counted_mono _ atom_mono
theorem lits_mono : Mono lits := counted_mono _ lit_mono
theorem ids_mono : Mono ids := counted_mono _ pos_mono
theorem wlits_mono (minW : Int) : Mono (wlits minW) := by
  unfold wlits
  exact Mono.bind (counted_mono _ (wlit_mono minW)) (fun l => Mono.pure _)

theorem string_mono : Mono AspifIn.string := by
  intro a
  unfold AspifIn.string
  cases h : pos a with
  | error l =>
    refine ⟨?_, ?_⟩
    · intro x a' e; simp [bind, Except.bind] at e
    · intro l' e; simp only [bind, Except.bind, Except.error.injEq] at e; subst e; exact (pos_mono a).2 l h
  | ok r =>
    obtain ⟨n, a1⟩ := r
    have h1 := (pos_mono a).1 n a1 h
    have h2 : LE a ((a1.get.2).copy n).2 := LE.trans h1 (LE.trans (get_le a1) (copy_le _ _))
    simp only [bind, Except.bind]
    split
    · exact res_ok _ h2
    · exact res_err h2

theorem theory_mono (rt : Nat) : Mono (theory rt) := by
  unfold theory
  refine Mono.bind pos_mono (fun tId => ?_)
  refine Mono.ite _ (Mono.bind (intIn_mono _ _) (fun n => Mono.pure _)) ?_
  refine Mono.ite _ (Mono.bind string_mono (fun n => Mono.pure _)) ?_
  refine Mono.ite _ (Mono.bind (intIn_mono _ _) (fun t => Mono.bind ids_mono (fun args => Mono.pure _))) ?_
  refine Mono.ite _ (Mono.bind ids_mono (fun ts => Mono.bind lits_mono (fun c => Mono.pure _))) ?_
  refine Mono.ite _ (Mono.bind pos_mono (fun t => Mono.bind ids_mono (fun es => Mono.pure _))) ?_
  refine Mono.ite _ (Mono.bind pos_mono (fun t => Mono.bind ids_mono (fun es => Mono.bind pos_mono (fun op => Mono.bind pos_mono (fun rhs => Mono.pure _))))) ?_
  exact Mono.error

theorem directive_mono (rt : Nat) : Mono (directive rt) := by
  unfold directive
  refine Mono.ite _ (Mono.bind (posMax_mono _) (fun ht => Mono.bind atoms_mono (fun hd => Mono.bind (posMax_mono _) (fun bt =>
    Mono.ite _ (Mono.bind lits_mono (fun b => Mono.pure _)) (Mono.bind (intIn_mono _ _) (fun bnd => Mono.bind (wlits_mono _) (fun b => Mono.pure _))))))) ?_
  refine Mono.ite _ (Mono.bind (intIn_mono _ _) (fun p => Mono.bind (wlits_mono _) (fun b => Mono.pure _))) ?_
  refine Mono.ite _ (Mono.bind atoms_mono (fun l => Mono.pure _)) ?_
  refine Mono.ite _ (Mono.bind string_mono (fun s => Mono.bind lits_mono (fun c => Mono.pure _))) ?_
  refine Mono.ite _ (Mono.bind atom_mono (fun x => Mono.bind (posMax_mono _) (fun v => Mono.pure _))) ?_
  refine Mono.ite _ (Mono.bind lits_mono (fun l => Mono.pure _)) ?_
  refine Mono.ite _ (Mono.bind (posMax_mono _) (fun t => Mono.bind atom_mono (fun x => Mono.bind (intIn_mono _ _) (fun bias =>
    Mono.bind (posMax_mono _) (fun prio => Mono.bind lits_mono (fun c => Mono.pure _)))))) ?_
  refine Mono.ite _ (Mono.bind (posMax_mono _) (fun s => Mono.bind (posMax_mono _) (fun t => Mono.bind lits_mono (fun c => Mono.pure _)))) ?_
  refine Mono.ite _ (Mono.bind pos_mono (fun tt => Mono.bind (theory_mono tt) (fun c => Mono.pure _))) ?_
  refine Mono.ite _ (fun a => res_ok none (skipLine_le a)) ?_
  exact Mono.error

theorem res_errl {α : Type} {a : AS} {l : Nat} (h : Bnd a l) :
    (∀ x a', (Except.error l : Except Nat (α × AS)) = .ok (x, a') → LE a a') ∧ (∀ l', (Except.error l : Except Nat (α × AS)) = .error l' → Bnd a l') :=
  ⟨(by intro x a' e; cases e), (by intro l' e; cases e; exact h)⟩

theorem header_le (a : AS) : (∀ l, header a = some (.error l) → Bnd a l) ∧ (∀ inc a1, header a = some (.ok (inc, a1)) → LE a a1) := by
  unfold header
  simp only []
  have h0 : LE a (a.skipWs.matchTok [97, 115, 112, 32]).2 := LE.trans (skipWs_le a) (matchTok_le _ _)
  generalize (a.skipWs.matchTok [97, 115, 112, 32]).2 = a1 at h0
  split
  · exact ⟨(by intro l e; cases e), (by intro inc a1 e; cases e)⟩
  · have key : ∀ (r : Except Nat (Bool × AS)), ((∀ x a', r = .ok (x, a') → LE a1 a') ∧ (∀ l, r = .error l → Bnd a1 l)) →
        (∀ l, some r = some (.error l) → Bnd a l) ∧ (∀ inc a2, some r = some (.ok (inc, a2)) → LE a a2) := by
      intro r hr
      exact ⟨(by intro l e; cases e; exact Bnd.of_le h0 (hr.2 l rfl)), (by intro inc a2 e; cases e; exact LE.trans h0 (hr.1 _ _ rfl))⟩
    apply key
    cases h1 : pos a1 with
    | error l => exact res_errl ((pos_mono a1).2 l h1)
    | ok r1 =>
      obtain ⟨ma, a2⟩ := r1
      have l1 := (pos_mono a1).1 _ _ h1
      by_cases hma : ma = 1
      · simp only [bind, Except.bind, hma, ne_eq, not_true_eq_false, ↓reduceIte]
        cases h2 : pos a2 with
        | error l => exact res_errl (Bnd.of_le l1 ((pos_mono a2).2 l h2))
        | ok r2 =>
          obtain ⟨mi, a3⟩ := r2
          have l2 := LE.trans l1 ((pos_mono a2).1 _ _ h2)
          by_cases hmi : mi = 0
          · simp only [hmi, ne_eq, not_true_eq_false, ↓reduceIte]
            cases h3 : pos a3 with
            | error l => exact res_errl (Bnd.of_le l2 ((pos_mono a3).2 l h3))
            | ok r3 =>
              obtain ⟨rev, a4⟩ := r3
              have l3 := LE.trans l2 ((pos_mono a3).1 _ _ h3)
              simp only [pure, Except.pure]
              refine res_ok _ (LE.trans l3 (LE.trans (b := { a4 with rest := a4.rest.dropWhile (· == 32) }) ?_ (matchTok_le _ _)))
              exact LE.of_suffix rfl (List.dropWhile_suffix _)
          · simp only [ne_eq, hmi, not_false_eq_true, ↓reduceIte, throw, throwThe, MonadExceptOf.throw]
            exact res_err l2
      · simp only [bind, Except.bind, ne_eq, hma, not_false_eq_true, ↓reduceIte, throw, throwThe, MonadExceptOf.throw]
        exact res_err l1

/-! ### progress: a successful integer match consumes at least one character -/
theorem matchIntDigits_val (a1 : AS) (sg : Nat) (v : Int) (a' : AS) (h : AS.matchIntDigits a1 sg = (.val v, a')) : a'.rest.length < a1.rest.length := by
  unfold AS.matchIntDigits at h
  split at h
  · cases h
  · rename_i hd
    have ha' : a'.rest = (digitRun a1.rest).2 := by cases h; rfl
    rw [ha']
    cases hr : a1.rest with
    | nil => simp [AS.peek, hr, isDigit] at hd
    | cons c r =>
      have hc : isDigit c = true := by simpa [AS.peek, hr] using hd
      simp only [digitRun, hc, ↓reduceIte, List.length_cons]
      have := (digitRun_suffix r).length_le
      omega

theorem intIn_strict (lo hi : Int) (a : AS) (v : Int) (a' : AS) (h : intIn lo hi a = .ok (v, a')) : a'.rest.length < a.rest.length := by
  unfold intIn at h
  split at h
  · rename_i v' a0 hm
    split at h
    · cases h
      unfold AS.matchInt AS.matchIntCore at hm
      simp only [Bool.false_eq_true, ↓reduceIte] at hm
      have h1 := matchIntDigits_val _ _ _ _ hm
      have h2 := (skipWs_le a).2.2
      split at h1
      · have := (List.tail_suffix a.skipWs.rest).length_le
        simp only at h1; omega
      · omega
    · cases h
  · cases h

theorem posMax_strict (m : Nat) (a : AS) (v : Nat) (a' : AS) (h : posMax m a = .ok (v, a')) : a'.rest.length < a.rest.length := by
  unfold posMax at h
  simp only [C04.bind_ok, C04.pure_ok, Prod.exists, Prod.mk.injEq] at h
  obtain ⟨x, b, hx, _, hb⟩ := h
  subst hb
  exact intIn_strict _ _ _ _ _ hx

/-! ### the loops -/
theorem dirStep_stop_err (a : AS) (l : Nat) (h : dirStep a = .stop (.error l)) : Bnd a l := by
  unfold dirStep at h
  split at h
  · rename_i l' hp; cases h; exact (posMax_mono _ a).2 _ hp
  · rename_i rt a1 hp
    have h1 := (posMax_mono _ a).1 _ _ hp
    split at h
    · cases h
    · split at h
      · rename_i l' hd; cases h; exact Bnd.of_le h1 ((directive_mono rt a1).2 _ hd)
      · cases h

theorem dirStep_stop_ok (a a1 : AS) (h : dirStep a = .stop (.ok a1)) : LE a a1 ∧ a1.rest.length < a.rest.length := by
  unfold dirStep at h
  split at h
  · cases h
  · rename_i rt a1' hp
    split at h
    · cases h; exact ⟨(posMax_mono _ a).1 _ _ hp, posMax_strict _ _ _ _ hp⟩
    · split at h <;> cases h

theorem dirStep_cont (a : AS) (c : Option Call) (a2 : AS) (h : dirStep a = .cont c a2) : LE a a2 := by
  unfold dirStep at h
  split at h
  · cases h
  · rename_i rt a1 hp
    have h1 := (posMax_mono _ a).1 _ _ hp
    split at h
    · cases h
    · split at h
      · cases h
      · rename_i c' a2' hd; cases h; exact LE.trans h1 ((directive_mono rt a1).1 _ _ hd)

theorem stepLoop_le : ∀ (f : Nat) (a : AS) (acc : List Call),
    (∀ l, (stepLoop f a acc).2 = .error l → Bnd a l) ∧ (∀ a1, (stepLoop f a acc).2 = .ok a1 → LE a a1 ∧ a1.rest.length < a.rest.length) := by
  intro f
  induction f with
  | zero => intro a acc; exact ⟨(by intro l e; cases e; exact (LE.refl a).bnd), (by intro a1 e; cases e)⟩
  | succ f ih =>
    intro a acc
    rw [C04.stepLoop_succ]
    cases hd : dirStep a with
    | stop r =>
      cases r with
      | error l => exact ⟨(by intro l' e; cases e; exact dirStep_stop_err a l hd), (by intro a1 e; cases e)⟩
      | ok a1 => exact ⟨(by intro l' e; cases e), (by intro a1' e; cases e; exact dirStep_stop_ok a a1 hd)⟩
    | cont c a2 =>
      have h1 := dirStep_cont a c a2 hd
      exact ⟨(by intro l e; exact Bnd.of_le h1 ((ih a2 _).1 l e)), (by intro a1 e; have h2 := (ih a2 _).2 a1 e; exact ⟨LE.trans h1 h2.1, by have := h1.2.2; omega⟩)⟩

theorem more_le (a : AS) : LE a (more a).2 := skipWs_le a

/-- every line the step loop reports is a line of a state reachable from its start; the fuel never runs out -/
theorem stepsLoop_le : ∀ (f : Nat) (inc : Bool) (a : AS) (acc : List Call) (l : Nat), a.rest.length < f → (stepsLoop f inc a acc).err = some l → Bnd a l := by
  intro f
  induction f with
  | zero => intro inc a acc l hf; omega
  | succ f ih =>
    intro inc a acc l hf
    rw [C04.stepsLoop_succ]
    have hs := stepLoop_le (a.rest.length + 1) a []
    cases hr : (stepLoop (a.rest.length + 1) a []).2 with
    | error l' => intro e; simp only at e; cases e; exact hs.1 _ hr
    | ok a1 =>
      obtain ⟨h1, hlt⟩ := hs.2 a1 hr
      have hm := more_le a1
      simp only
      split
      · intro e; simp only [Option.some.injEq] at e; subst e; exact (LE.trans h1 hm).bnd
      · split
        · intro e
          exact Bnd.of_le (LE.trans h1 hm) (ih inc (more a1).2 _ l (by have := hm.2.2; omega) e)
        · intro e; cases e

def lines (t : List Nat) : Nat := 1 + nl t

/-- **C03 (reported line)**: whenever the aspif reader rejects a text, the line number it reports lies between 1 and the number
    of lines of the text (one more than the number of line ends LF, CR or CRLF). -/
theorem C03_line_bound (t : List Nat) (l : Nat) (h : (AspifIn.read t).err = some l) : 1 ≤ l ∧ l ≤ lines t := by
  have key : Bnd (AS.init t) l := by
    unfold AspifIn.read at h
    have hh := header_le (AS.init t)
    cases hd : header (AS.init t) with
    | none => simp only [hd, Option.some.injEq] at h; subst h; exact (skipWs_le _).bnd
    | some r =>
      cases r with
      | error l' => simp only [hd, Option.some.injEq] at h; subst h; exact hh.1 l' hd
      | ok p =>
        obtain ⟨inc, a1⟩ := p
        have h1 := hh.2 inc a1 hd
        have hg := get_le a1
        simp only [hd] at h
        split at h
        · simp only [Option.some.injEq] at h; subst h; exact (LE.trans h1 hg).bnd
        · exact Bnd.of_le (LE.trans h1 hg) (stepsLoop_le _ inc _ _ l (Nat.lt_succ_self _) h)
  exact ⟨key.1, key.2⟩

/-- the bound is attained: `asp 1 0 0␤1 0` is rejected in line 2 of 2 -/
example : (AspifIn.read [97, 115, 112, 32, 49, 32, 48, 32, 48, 10, 49, 32, 48]).err = some 2 ∧ lines [97, 115, 112, 32, 49, 32, 48, 32, 48, 10, 49, 32, 48] = 2 := by decide +kernel

end PotasscoVerif.C03
