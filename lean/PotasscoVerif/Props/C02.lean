/-
  C02 — aspif → smodels conversion: the atom map and the minimize rewriting.
  Theorems about Model/Convert.lean (tied to src/convert.cpp by the `cv` correspondence).
-/
import PotasscoVerif.Model.Convert
namespace PotasscoVerif.C02
open PotasscoVerif PotasscoVerif.Convert

/-! ## the abstract view of the converter state: who is mapped to what, the next free atom, the auxiliaries -/
structure A where
  ids  : List (Nat × Nat)
  next : Nat
  aux  : List Nat
deriving DecidableEq

def abs (c : CS) : A := { ids := c.atoms.map (fun p => (p.1, p.2.smId)), next := c.next, aux := c.aux }

/-- the image of an input atom, if it is mapped -/
def img (c : CS) (a : Nat) : Option Nat := (c.find a).map (·.smId)

theorem img_abs (c : CS) (a : Nat) : img c a = ((abs c).ids.find? (fun p => p.1 == a)).map (·.2) := by
  unfold img CS.find abs
  simp only [List.find?_map, Option.map_map]
  congr 1

/-- one abstract step: a new input atom gets the next atom, or an auxiliary atom is created -/
inductive Steps : A → A → Prop where
  | refl (x : A) : Steps x x
  | mapNew (x : A) (a : Nat) (h : ∀ p ∈ x.ids, p.1 ≠ a) (y : A) (r : Steps { x with ids := x.ids ++ [(a, x.next)], next := x.next + 1 } y) : Steps x y
  | newAux (x : A) (y : A) (r : Steps { x with next := x.next + 1, aux := x.aux ++ [x.next] } y) : Steps x y

theorem Steps.trans {x y z : A} (h1 : Steps x y) (h2 : Steps y z) : Steps x z := by
  induction h1 with
  | refl => exact h2
  | mapNew x a h y _ ih => exact .mapNew x a h z (ih h2)
  | newAux x y _ ih => exact .newAux x z (ih h2)

structure Inv (x : A) : Prop where
  keys : (x.ids.map (·.1)).Nodup
  imgs : (x.ids.map (·.2)).Nodup
  auxs : x.aux.Nodup
  disj : ∀ n ∈ x.ids.map (·.2), n ∉ x.aux
  rng  : (∀ n ∈ x.ids.map (·.2), 2 ≤ n ∧ n < x.next) ∧ (∀ n ∈ x.aux, 2 ≤ n ∧ n < x.next)
  nxt  : 2 ≤ x.next

theorem inv_init : Inv { ids := [], next := 2, aux := [] } :=
  ⟨by simp, by simp, by simp, by simp, ⟨by simp, by simp⟩, Nat.le_refl 2⟩

/-- what an abstract run preserves and extends -/
theorem steps_inv {x y : A} (h : Steps x y) (hi : Inv x) :
    Inv y ∧ x.next ≤ y.next ∧ (∀ p ∈ x.ids, p ∈ y.ids) ∧ (∀ n ∈ x.aux, n ∈ y.aux) ∧
    (∀ n ∈ y.aux, n ∈ x.aux ∨ x.next ≤ n) ∧ (∀ p ∈ y.ids, p ∈ x.ids ∨ x.next ≤ p.2) := by
  induction h with
  | refl => exact ⟨hi, Nat.le_refl _, fun _ h => h, fun _ h => h, fun _ h => Or.inl h, fun _ h => Or.inl h⟩
  | mapNew x a hnew y _ ih =>
    have hi' : Inv { x with ids := x.ids ++ [(a, x.next)], next := x.next + 1 } := by
      refine ⟨?_, ?_, hi.auxs, ?_, ⟨?_, ?_⟩, by have := hi.nxt; simp only; omega⟩
      · simp only [List.map_append, List.map_cons, List.map_nil]
        rw [List.nodup_append]
        refine ⟨hi.keys, by simp, ?_⟩
        intro k hk b hb; simp at hb; subst hb
        intro e; subst e
        simp at hk; obtain ⟨n, hn⟩ := hk
        exact hnew _ hn rfl
      · simp only [List.map_append, List.map_cons, List.map_nil]
        rw [List.nodup_append]
        refine ⟨hi.imgs, by simp, ?_⟩
        intro k hk b hb; simp at hb; subst hb
        intro e; subst e
        have := (hi.rng.1 _ hk).2; omega
      · intro n hn
        simp only [List.map_append, List.map_cons, List.map_nil, List.mem_append, List.mem_singleton] at hn
        rcases hn with hn | hn
        · exact hi.disj n hn
        · subst hn; intro hm; have := (hi.rng.2 _ hm).2; omega
      · intro n hn
        simp only [List.map_append, List.map_cons, List.map_nil, List.mem_append, List.mem_singleton] at hn
        rcases hn with hn | hn
        · have := hi.rng.1 n hn; simp only; omega
        · subst hn; have := hi.nxt; simp only; omega
      · intro n hn; have := hi.rng.2 n hn; simp only; omega
    obtain ⟨h1, h2, h3, h4, h5, h6⟩ := ih hi'
    refine ⟨h1, by simp only at h2; omega, fun p hp => h3 p (by simp [hp]), h4, ?_, ?_⟩
    · intro n hn; rcases h5 n hn with h | h
      · exact Or.inl h
      · simp only at h; right; omega
    · intro p hp; rcases h6 p hp with h | h
      · simp only [List.mem_append, List.mem_singleton] at h
        rcases h with h | h
        · exact Or.inl h
        · right; subst h; exact Nat.le_refl _
      · simp only at h; right; omega
  | newAux x y _ ih =>
    have hi' : Inv { x with next := x.next + 1, aux := x.aux ++ [x.next] } := by
      refine ⟨hi.keys, hi.imgs, ?_, ?_, ⟨?_, ?_⟩, by have := hi.nxt; simp only; omega⟩
      · rw [List.nodup_append]
        refine ⟨hi.auxs, by simp, ?_⟩
        intro k hk b hb; simp at hb; subst hb
        intro e; subst e; have := (hi.rng.2 _ hk).2; omega
      · intro n hn hm
        simp only [List.mem_append, List.mem_singleton] at hm
        rcases hm with hm | hm
        · exact hi.disj n hn hm
        · subst hm; have := (hi.rng.1 _ hn).2; omega
      · intro n hn; have := hi.rng.1 n hn; simp only; omega
      · intro n hn
        simp only [List.mem_append, List.mem_singleton] at hn
        rcases hn with hn | hn
        · have := hi.rng.2 n hn; simp only; omega
        · subst hn; have := hi.nxt; simp only; omega
    obtain ⟨h1, h2, h3, h4, h5, h6⟩ := ih hi'
    refine ⟨h1, by simp only at h2; omega, h3, fun n hn => h4 n (by simp [hn]), ?_, ?_⟩
    · intro n hn; rcases h5 n hn with h | h
      · simp only [List.mem_append, List.mem_singleton] at h
        rcases h with h | h
        · exact Or.inl h
        · right; subst h; exact Nat.le_refl _
      · simp only at h; right; omega
    · intro p hp; rcases h6 p hp with h | h
      · exact Or.inl h
      · simp only at h; right; omega

/-! ## every operation of the converter is a run of abstract steps -/
@[simp] theorem abs_emit (c : CS) (x : Call) : abs (c.emit x) = abs c := rfl
@[simp] theorem abs_addOutput (c : CS) (a : Nat) (n : List Nat) (h : Bool) : abs (c.addOutput a n h) = abs c := rfl

theorem abs_updAtom (c : CS) (a : Nat) (f : CAtom → CAtom) (hf : ∀ x, (f x).smId = x.smId) : abs (c.updAtom a f) = abs c := by
  unfold abs CS.updAtom
  simp only [List.map_map]
  congr 1
  apply List.map_congr_left
  intro p _
  simp only [Function.comp]
  split <;> simp [hf]

theorem find_none_keys (c : CS) (a : Nat) (h : c.find a = none) : ∀ p ∈ (abs c).ids, p.1 ≠ a := by
  intro p hp e
  unfold CS.find at h
  simp only [Option.map_eq_none_iff, List.find?_eq_none] at h
  simp only [abs, List.mem_map] at hp
  obtain ⟨q, hq, rfl⟩ := hp
  exact h q hq (by simpa using e)

theorem mapAtom_steps (c : CS) (a : Nat) : Steps (abs c) (abs (c.mapAtom a).1) := by
  unfold CS.mapAtom
  cases h : c.find a with
  | some x => exact .refl _
  | none =>
    refine .mapNew _ a (find_none_keys c a h) _ ?_
    have : abs { c with atoms := c.atoms ++ [(a, { smId := c.next })], next := c.next + 1 }
        = { abs c with ids := (abs c).ids ++ [(a, (abs c).next)], next := (abs c).next + 1 } := by simp [abs]
    rw [this]; exact .refl _

theorem mapLit_steps (c : CS) (l : Int) : Steps (abs c) (abs (c.mapLit l).1) := mapAtom_steps c _

theorem mapLits_steps (c : CS) (ls : List Int) (acc : List Int) : Steps (abs c) (abs (c.mapLits ls acc).1) := by
  induction ls generalizing c acc with
  | nil => exact .refl _
  | cons l r ih => exact (mapLit_steps c l).trans (ih _ _)

theorem mapWLits_steps (c : CS) (ls : List (Int × Int)) (acc : List (Int × Int)) : Steps (abs c) (abs (c.mapWLits ls acc).1) := by
  induction ls generalizing c acc with
  | nil => exact .refl _
  | cons l r ih => exact (mapLit_steps c l.1).trans (ih _ _)

theorem mapHeadAtoms_steps (c : CS) (h : List Nat) (acc : List Nat) : Steps (abs c) (abs (c.mapHeadAtoms h acc).1) := by
  induction h generalizing c acc with
  | nil => exact .refl _
  | cons a r ih =>
    refine (mapAtom_steps c a).trans ?_
    have h2 := abs_updAtom (c.mapAtom a).1 a (fun x => { x with head := true }) (fun _ => rfl)
    have := ih ((c.mapAtom a).1.updAtom a (fun x => { x with head := true })) (acc ++ [(c.mapAtom a).2.smId])
    rw [h2] at this
    exact this

theorem mapHead_steps (c : CS) (h : List Nat) : Steps (abs c) (abs (c.mapHead h).1) := mapHeadAtoms_steps c h []

theorem newAux_steps (c : CS) : Steps (abs c) (abs { c with next := c.next + 1, aux := c.aux ++ [c.next] }) :=
  .newAux _ _ (.refl _)

theorem auxAtom_steps (c : CS) (cond : List Int) : Steps (abs c) (abs (c.auxAtom cond).1) := by
  unfold CS.auxAtom
  simp only [abs_emit]
  exact (newAux_steps c).trans (mapLits_steps _ cond [])

theorem makeAtom_steps (c : CS) (cond : List Int) (named : Bool) : Steps (abs c) (abs (c.makeAtom cond named).1) := by
  unfold CS.makeAtom
  split
  · simp only
    split
    · exact (mapAtom_steps c _).trans (auxAtom_steps _ cond)
    · have h2 := abs_updAtom (c.mapAtom (cond.headD 0).natAbs).1 (cond.headD 0).natAbs (fun x => { x with shown := named }) (fun _ => rfl)
      simp only [h2]; exact mapAtom_steps c _
  · exact auxAtom_steps c cond

theorem foldl_steps {β : Type} (f : CS → β → CS) (hf : ∀ c x, Steps (abs c) (abs (f c x))) (l : List β) (c : CS) :
    Steps (abs c) (abs (l.foldl f c)) := by
  induction l generalizing c with
  | nil => exact .refl _
  | cons x r ih => exact (hf c x).trans (ih _)

theorem flushMinimize_steps (c : CS) : Steps (abs c) (abs c.flushMinimize) :=
  foldl_steps _ (fun c pl => by simpa using mapWLits_steps c pl.2 []) _ c

theorem flushExternal_steps (c : CS) : Steps (abs c) (abs c.flushExternal) := by
  unfold CS.flushExternal
  have gen : ∀ (l : List Nat) (st : CS × List Nat), Steps (abs st.1) (abs (l.foldl (fun (st : CS × List Nat) a =>
      let m := st.1.mapAtom a
      if !st.1.ext then
        if m.2.head then (m.1, st.2)
        else if m.2.extn == 0 then (m.1, st.2 ++ [m.2.smId])
        else if m.2.extn == 1 then (m.1.emit (.rule 0 [m.2.smId] []), st.2)
        else (m.1, st.2)
      else (m.1.emit (.external m.2.smId m.2.extn), st.2)) st).1) := by
    intro l
    induction l with
    | nil => intro st; exact .refl _
    | cons a r ih =>
      intro st
      simp only [List.foldl_cons]
      refine Steps.trans ?_ (ih _)
      split
      · split
        · exact mapAtom_steps _ _
        · split
          · exact mapAtom_steps _ _
          · split
            · simpa using mapAtom_steps st.1 a
            · exact mapAtom_steps _ _
      · simpa using mapAtom_steps st.1 a
  have := gen c.externs (c, [])
  simp only
  split
  · exact this
  · simpa using this

theorem flushHeuristic_steps (c : CS) : Steps (abs c) (abs c.flushHeuristic) := by
  apply foldl_steps
  intro c h
  simp only
  split
  · exact .refl _
  · split
    · simp; exact .refl _
    · rename_i ma _ _
      have h2 := abs_updAtom c h.atom (fun x => { x with shown := true }) (fun _ => rfl)
      simp only [abs_emit, abs_addOutput, h2]; exact .refl _

theorem flushSymbols_steps (c : CS) : Steps (abs c) (abs c.flushSymbols) :=
  foldl_steps _ (fun c p => by simp; exact .refl _) _ c

theorem flush_steps (c : CS) : Steps (abs c) (abs c.flush) := by
  unfold CS.flush
  have h := ((flushMinimize_steps c).trans (flushExternal_steps _)).trans ((flushHeuristic_steps _).trans (flushSymbols_steps _))
  exact h

theorem apply_steps (c : CS) (x : Call) : Steps (abs c) (abs (c.apply x)) := by
  unfold CS.apply
  split
  · exact .refl _
  · cases x with
    | rule ht head body =>
      simp only
      split
      · simpa using (mapHead_steps c head).trans (mapLits_steps _ body [])
      · exact .refl _
    | sumRule ht head bound body =>
      simp only
      split
      · split
        · simpa using (mapHead_steps c head).trans (mapWLits_steps _ body [])
        · simp only [abs_emit]
          exact ((mapHead_steps c head).trans (mapWLits_steps _ body [])).trans (newAux_steps _)
      · exact .refl _
    | minimize prio lits => simp only; split <;> exact .refl _
    | output str cond => simpa using makeAtom_steps c cond true
    | external a v =>
      simp only
      split
      · have h1 : abs { ((c.mapAtom a).1.updAtom a (fun x => { x with extn := v })) with externs := (c.mapAtom a).1.externs ++ [a] }
            = abs ((c.mapAtom a).1.updAtom a (fun x => { x with extn := v })) := rfl
        have h2 := abs_updAtom (c.mapAtom a).1 a (fun x => { x with extn := v }) (fun _ => rfl)
        rw [h1, h2]; exact mapAtom_steps c a
      · exact mapAtom_steps c a
    | heuristic a t bias prio cond =>
      simp only
      split
      · exact makeAtom_steps (c.emit (.heuristic a t bias prio cond)) cond true
      · exact makeAtom_steps c cond true
    | acycEdge a b cond =>
      simp only
      split
      · exact makeAtom_steps (c.emit (.acycEdge a b cond)) cond true
      · exact makeAtom_steps c cond true
    | endStep => simpa using flush_steps c
    | initProgram inc => exact .refl _
    | beginStep => exact .refl _
    | _ => exact .refl _

theorem convert_steps (c : CS) (cs : List Call) : Steps (abs c) (abs (cs.foldl CS.apply c)) :=
  foldl_steps _ apply_steps cs c

/-! ## Property theorems -/
theorem inv_convert (ext : Bool) (cs : List Call) : Inv (abs (convert ext cs)) :=
  (steps_inv (convert_steps { ext := ext } cs) inv_init).1

theorem img_mem (c : CS) (a n : Nat) : img c a = some n → (a, n) ∈ (abs c).ids := by
  rw [img_abs]
  intro h
  simp only [Option.map_eq_some_iff] at h
  obtain ⟨p, hp, rfl⟩ := h
  have := List.mem_of_find?_eq_some hp
  have hk := List.find?_some hp
  simp at hk; subst hk; exact this

theorem mem_img (c : CS) (hk : ((abs c).ids.map (·.1)).Nodup) (a n : Nat) (h : (a, n) ∈ (abs c).ids) : img c a = some n := by
  rw [img_abs]
  generalize (abs c).ids = l at hk h
  induction l with
  | nil => cases h
  | cons p r ih =>
    simp only [List.map_cons, List.nodup_cons] at hk
    simp only [List.mem_cons] at h
    rcases h with h | h
    · subst h; simp
    · have : p.1 ≠ a := by
        intro e; apply hk.1; rw [e]; exact List.mem_map_of_mem (f := (·.1)) h
      have hb : (p.1 == a) = false := by simpa using this
      simp only [List.find?_cons, hb]
      exact ih hk.2 h

/-- **C02 (the atom map is injective)**: after any call sequence, two different input atoms never share an output atom;
    images lie in `2 … next-1` (atom 1 is the false atom and is nobody's image). -/
theorem C02_map_injective (ext : Bool) (cs : List Call) (a b n : Nat)
    (ha : img (convert ext cs) a = some n) (hb : img (convert ext cs) b = some n) : a = b ∧ 2 ≤ n ∧ n < (convert ext cs).next := by
  have hi := inv_convert ext cs
  have h1 := img_mem _ _ _ ha
  have h2 := img_mem _ _ _ hb
  refine ⟨?_, hi.rng.1 n (List.mem_map_of_mem (f := (·.2)) h1)⟩
  -- equal second components in a list whose second components are duplicate-free
  have : ∀ (l : List (Nat × Nat)), (l.map (·.2)).Nodup → (a, n) ∈ l → (b, n) ∈ l → a = b := by
    intro l
    induction l with
    | nil => intro _ h; cases h
    | cons p r ih =>
      intro hn h1 h2
      simp only [List.map_cons, List.nodup_cons] at hn
      simp only [List.mem_cons] at h1 h2
      rcases h1 with h1 | h1 <;> rcases h2 with h2 | h2
      · rw [← h1] at h2; exact (Prod.mk.inj h2).1.symm
      · subst h1; exact absurd (List.mem_map_of_mem (f := (·.2)) h2) hn.1
      · subst h2; exact absurd (List.mem_map_of_mem (f := (·.2)) h1) hn.1
      · exact ih hn.2 h1 h2
  exact this _ hi.imgs h1 h2

/-- **C02 (the atom map is stable)**: a mapped atom keeps its image whatever calls follow — further rules, further steps. -/
theorem C02_map_stable (ext : Bool) (cs cs' : List Call) (a n : Nat) (ha : img (convert ext cs) a = some n) :
    img (convert ext (cs ++ cs')) a = some n := by
  have hs : Steps (abs (convert ext cs)) (abs (convert ext (cs ++ cs'))) := by
    unfold convert; rw [List.foldl_append]; exact convert_steps _ cs'
  have h := steps_inv hs (inv_convert ext cs)
  exact mem_img _ h.1.keys a n (h.2.2.1 _ (img_mem _ _ _ ha))

/-- **C02 (auxiliary atoms are fresh)**: the atoms the converter invents (for compound conditions, named-twice atoms and
    weight rules smodels cannot express) are pairwise different, are never the image of an input atom — now or later —
    and stay what they are when further calls follow. -/
theorem C02_aux_fresh (ext : Bool) (cs cs' : List Call) :
    (convert ext cs).aux.Nodup ∧ (∀ a n, img (convert ext (cs ++ cs')) a = some n → n ∉ (convert ext cs).aux) ∧
    (∀ n ∈ (convert ext cs).aux, n ∈ (convert ext (cs ++ cs')).aux) := by
  have hs : Steps (abs (convert ext cs)) (abs (convert ext (cs ++ cs'))) := by
    unfold convert; rw [List.foldl_append]; exact convert_steps _ cs'
  have hi := inv_convert ext cs
  have h := steps_inv hs hi
  refine ⟨hi.auxs, ?_, h.2.2.2.1⟩
  intro a n ha hm
  have hm' := h.2.2.2.1 n hm
  exact h.1.disj n (List.mem_map_of_mem (f := (·.2)) (img_mem _ _ _ ha)) hm'

/-! ## minimize statements -/
/-- the value of a minimize statement under a truth assignment of the literals -/
def cost (v : Int → Bool) (ws : List (Int × Int)) : Int := (ws.map (fun p => if v p.1 then p.2 else 0)).sum

/-- **C02 (negative weights)**: moving a negative weight to the complementary literal changes the value of the statement by a
    constant — the sum of the negative weights — under EVERY assignment; so the order of models by cost is unchanged. -/
theorem C02_minimize_flip (v : Int → Bool) (hv : ∀ l, l ≠ 0 → v (-l) = !v l) (ws : List (Int × Int)) (hz : ∀ p ∈ ws, p.1 ≠ 0) :
    cost v (ws.map flipNeg) = cost v ws - ((ws.filter (fun p => p.2 < 0)).map (·.2)).sum := by
  have cost_cons : ∀ (p : Int × Int) (r : List (Int × Int)), cost v (p :: r) = (if v p.1 then p.2 else 0) + cost v r := by
    intro p r; simp [cost]
  have term : ∀ p : Int × Int, p.1 ≠ 0 → (if v (flipNeg p).1 then (flipNeg p).2 else 0) = (if v p.1 then p.2 else 0) - (if p.2 < 0 then p.2 else 0) := by
    intro p hp
    unfold flipNeg
    by_cases hneg : p.2 < 0
    · simp only [hneg, ↓reduceIte, hv p.1 hp]
      cases v p.1 <;> simp <;> omega
    · simp only [hneg, ↓reduceIte]; omega
  induction ws with
  | nil => simp [cost]
  | cons p r ih =>
    have ih' := ih (fun q hq => hz q (by simp [hq]))
    have hp := hz p (by simp)
    rw [List.map_cons, cost_cons, cost_cons, ih', term p hp]
    by_cases hneg : p.2 < 0
    · simp only [List.filter_cons, hneg, decide_true, ↓reduceIte, List.map_cons, List.sum_cons]; omega
    · simp only [List.filter_cons, hneg, decide_false, Bool.false_eq_true, ↓reduceIte]; omega

theorem insertMin_keys (m : List (Int × List (Int × Int))) (prio : Int) (ls : List (Int × Int)) (x : Int) :
    x ∈ (insertMin m prio ls).map (·.1) ↔ x = prio ∨ x ∈ m.map (·.1) := by
  induction m with
  | nil => simp [insertMin]
  | cons q r ih =>
    obtain ⟨p, l⟩ := q
    unfold insertMin
    split
    · rename_i h; have : p = prio := by simpa using h
      subst this; simp
    · split
      · simp
      · simp only [List.map_cons, List.mem_cons, ih]
        constructor
        · rintro (h | h | h); exact Or.inr (Or.inl h); exact Or.inl h; exact Or.inr (Or.inr h)
        · rintro (h | h | h); exact Or.inr (Or.inl h); exact Or.inl h; exact Or.inr (Or.inr h)

theorem insertMin_sorted (m : List (Int × List (Int × Int))) (prio : Int) (ls : List (Int × Int))
    (h : (m.map (·.1)).Pairwise (· < ·)) : ((insertMin m prio ls).map (·.1)).Pairwise (· < ·) := by
  induction m with
  | nil => simp [insertMin]
  | cons q r ih =>
    obtain ⟨p, l⟩ := q
    simp only [List.map_cons, List.pairwise_cons] at h
    unfold insertMin
    split
    · simp only [List.map_cons, List.pairwise_cons]; exact h
    · rename_i hne
      have hne' : p ≠ prio := by simpa using hne
      split
      · rename_i hlt
        simp only [List.map_cons, List.pairwise_cons, List.mem_cons]
        refine ⟨?_, h⟩
        rintro x (hx | hx)
        · subst hx; exact hlt
        · have := h.1 x hx; omega
      · rename_i hge
        simp only [List.map_cons, List.pairwise_cons]
        refine ⟨?_, ih h.2⟩
        intro x hx
        rw [insertMin_keys] at hx
        rcases hx with hx | hx
        · subst hx; omega
        · exact h.1 x hx

@[simp] theorem mapAtom_min (c : CS) (a : Nat) : (c.mapAtom a).1.minimize = c.minimize := by
  unfold CS.mapAtom; split <;> rfl
@[simp] theorem updAtom_min (c : CS) (a : Nat) (f : CAtom → CAtom) : (c.updAtom a f).minimize = c.minimize := rfl
@[simp] theorem emit_min (c : CS) (x : Call) : (c.emit x).minimize = c.minimize := rfl
@[simp] theorem addOutput_min (c : CS) (a : Nat) (n : List Nat) (h : Bool) : (c.addOutput a n h).minimize = c.minimize := rfl
@[simp] theorem mapLits_min (c : CS) (ls : List Int) (acc : List Int) : (c.mapLits ls acc).1.minimize = c.minimize := by
  induction ls generalizing c acc with
  | nil => rfl
  | cons l r ih => simp only [CS.mapLits, ih, CS.mapLit, mapAtom_min]
@[simp] theorem mapWLits_min (c : CS) (ls : List (Int × Int)) (acc : List (Int × Int)) : (c.mapWLits ls acc).1.minimize = c.minimize := by
  induction ls generalizing c acc with
  | nil => rfl
  | cons l r ih => simp only [CS.mapWLits, ih, CS.mapLit, mapAtom_min]
@[simp] theorem mapHeadAtoms_min (c : CS) (h : List Nat) (acc : List Nat) : (c.mapHeadAtoms h acc).1.minimize = c.minimize := by
  induction h generalizing c acc with
  | nil => rfl
  | cons a r ih => simp only [CS.mapHeadAtoms, ih, updAtom_min, mapAtom_min]
@[simp] theorem mapHead_min (c : CS) (h : List Nat) : (c.mapHead h).1.minimize = c.minimize := by simp [CS.mapHead]
@[simp] theorem auxAtom_min (c : CS) (cond : List Int) : (c.auxAtom cond).1.minimize = c.minimize := by simp [CS.auxAtom]
@[simp] theorem makeAtom_min (c : CS) (cond : List Int) (named : Bool) : (c.makeAtom cond named).1.minimize = c.minimize := by
  unfold CS.makeAtom; split
  · simp only; split <;> simp
  · simp

theorem apply_minimize_sorted (c : CS) (x : Call) (h : (c.minimize.map (·.1)).Pairwise (· < ·)) :
    ((c.apply x).minimize.map (·.1)).Pairwise (· < ·) := by
  unfold CS.apply
  split
  · exact h
  · cases x with
    | minimize prio lits => simp only; split <;> exact insertMin_sorted _ _ _ h
    | endStep => simp [CS.emit, CS.flush]
    | rule ht head body => simp only; split <;> simpa using h
    | sumRule ht head bound body =>
      simp only; split
      · split <;> simpa using h
      · exact h
    | output str cond => simpa using h
    | external a v => simp only; split <;> simpa using h
    | heuristic a t bias prio cond => simp only; split <;> simpa using h
    | acycEdge a b cond => simp only; split <;> simpa using h
    | _ => exact h

/-- **C02 (one statement per priority, ascending)**: at every moment the pending minimize statements are kept with
    pairwise different, strictly ascending priorities (statements of equal priority are merged), and `endStep` emits
    them in exactly that order — lower priorities first. -/
theorem C02_minimize_sorted (ext : Bool) (cs : List Call) : (((convert ext cs).minimize).map (·.1)).Pairwise (· < ·) := by
  unfold convert
  have gen : ∀ (cs : List Call) (c : CS), (c.minimize.map (·.1)).Pairwise (· < ·) → ((cs.foldl CS.apply c).minimize.map (·.1)).Pairwise (· < ·) := by
    intro cs
    induction cs with
    | nil => intro c h; exact h
    | cons x r ih => intro c h; exact ih _ (apply_minimize_sorted c x h)
  exact gen cs _ (by simp)

def minPrios (out : List Call) : List Int := out.filterMap (fun x => match x with | .minimize p _ => some p | _ => none)

@[simp] theorem mapAtom_out (c : CS) (a : Nat) : (c.mapAtom a).1.out = c.out := by unfold CS.mapAtom; split <;> rfl
@[simp] theorem mapWLits_out (c : CS) (ls : List (Int × Int)) (acc : List (Int × Int)) : (c.mapWLits ls acc).1.out = c.out := by
  induction ls generalizing c acc with
  | nil => rfl
  | cons l r ih => simp only [CS.mapWLits, ih, CS.mapLit, mapAtom_out]

theorem flushMinimize_order (c : CS) : minPrios c.flushMinimize.out = minPrios c.out ++ c.minimize.map (·.1) := by
  unfold CS.flushMinimize
  generalize c.minimize = m
  induction m generalizing c with
  | nil => simp
  | cons pl r ih =>
    simp only [List.foldl_cons, List.map_cons]
    rw [ih]
    simp [CS.emit, minPrios, List.filterMap_append]

/-! ### the model runs -/
example : (convert true [.initProgram false, .beginStep, .rule 0 [5] [3, -4], .minimize 1 [(3, 2), (-4, -3)], .minimize 0 [(5, 1)], .output [97] [5], .output [98] [5], .endStep]).out =
    [.initProgram false, .beginStep, .rule 0 [2] [3, -4], .rule 0 [5] [2], .minimize 0 [(2, 1)], .minimize 1 [(3, 2), (4, 3)], .output [97] [2], .output [98] [5], .assume [-1], .endStep] := by
  decide +kernel
example : img (convert true [.initProgram false, .beginStep, .rule 0 [5] [3, -4]]) 4 = some 4 := by decide +kernel
end PotasscoVerif.C02
