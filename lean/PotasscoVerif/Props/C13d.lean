/-
  C13 (continued) — the argc/argv entry point `parseCommandLine(int& argc, char** argv, …)`.
  `C13_remaining_sublist`: whatever the token list, the tokens left over are a sub-list of the tokens given (same order, nothing invented), so
  there are never more of them than were given.  `C13_cmdline`: on a well-formed vector (program name, tokens, null pointer, anything behind)
  and any caller count between 1 and the real count, the call parses exactly the tokens and rewrites the vector to
  program name, remaining tokens, null pointer — inside the cells that held tokens before — and sets argc to 1 + their number.
-/
import PotasscoVerif.Props.C13b
namespace PotasscoVerif.C13
open PotasscoVerif.Options PotasscoVerif.OptIndex

/-- the state a handler returns: nothing added to `remaining`, tokens only consumed from the front -/
def Adv (p p' : PState) : Prop := p'.remaining = p.remaining ∧ (p'.toks = p.toks ∨ p'.toks = p.toks.tail)

theorem adv_addValue (p : PState) (k : Nat) (v : List Nat) : Adv p (p.addValue k v) := ⟨rfl, Or.inl rfl⟩

theorem Adv.trans_add {p q : PState} (k : Nat) (v : List Nat) (h : Adv (p.addValue k v) q) : Adv p q := h

theorem handleShort_adv (c : Context) (aU : Bool) (f : Nat) (nm : List Nat) (p : PState) (b : Bool) (p' : PState)
    (h : handleShort c aU f nm p = .ok (b, p')) : Adv p p' := by
  induction f generalizing nm p with
  | zero => simp [handleShort] at h; rw [← h.2]; exact ⟨rfl, Or.inl rfl⟩
  | succ f ih =>
    cases nm with
    | nil => simp [handleShort] at h; rw [← h.2]; exact ⟨rfl, Or.inl rfl⟩
    | cons ch val =>
      simp only [handleShort] at h
      split at h
      · cases h
      · simp at h; rw [← h.2]; exact ⟨rfl, Or.inl rfl⟩
      · split at h
        · split at h
          · simp at h; rw [← h.2]; exact adv_addValue _ _ _
          · have := ih _ _ h; exact this
        · split at h
          · simp at h; rw [← h.2]; exact adv_addValue _ _ _
          · split at h
            · rename_i v rest hv
              simp at h; rw [← h.2]; exact ⟨rfl, Or.inr (by simp [PState.addValue, hv])⟩
            · cases h

theorem handleLong_adv (c : Context) (aU aF : Bool) (nm : List Nat) (p : PState) (b : Bool) (p' : PState)
    (h : handleLong c aU aF nm p = .ok (b, p')) : Adv p p' := by
  unfold handleLong at h
  simp only at h
  repeat' split at h
  all_goals first
    | (cases h; done)
    | (simp only [Except.ok.injEq, Prod.mk.injEq] at h
       obtain ⟨_, rfl⟩ := h
       first
         | exact ⟨rfl, Or.inl rfl⟩
         | exact ⟨rfl, Or.inr (by simp_all [PState.addValue])⟩)

theorem handlePos_adv (c : Context) (aU : Bool) (pos : Option (List Nat)) (tok : List Nat) (p : PState) (b : Bool) (p' : PState)
    (h : handlePos c aU pos tok p = .ok (b, p')) : Adv p p' := by
  unfold handlePos at h
  simp only at h
  split at h
  · cases h
  · simp at h; rw [← h.2]; exact ⟨rfl, Or.inl rfl⟩
  · simp at h; rw [← h.2]; exact adv_addValue _ _ _

theorem tail_sublist {α} (l : List α) : l.tail.Sublist l := by cases l <;> simp

/-- the loop keeps `remaining ++ toks` a sub-list of what it started from -/
theorem parseLoop_sublist (c : Context) (aU aF : Bool) (pos : Option (List Nat)) (f : Nat) (p r : PState)
    (h : parseLoop c aU aF pos f p = .ok r) : (r.remaining ++ r.toks).Sublist (p.remaining ++ p.toks) := by
  induction f generalizing p with
  | zero => simp [parseLoop] at h; subst h; exact List.Sublist.refl _
  | succ f ih =>
    unfold parseLoop at h
    split at h
    · simp at h; subst h; exact List.Sublist.refl _
    · rename_i curr rest hp
      rw [hp]
      have step : ∀ (b : Bool) (p' : PState), Adv { p with toks := rest } p' →
          parseLoop c aU aF pos f (if b then p' else { p' with remaining := p'.remaining ++ [curr] }) = .ok r →
          (r.remaining ++ r.toks).Sublist (p.remaining ++ curr :: rest) := by
        intro b p' ha hr
        have := ih _ hr
        refine this.trans ?_
        have hs : p'.toks.Sublist rest := by
          rcases ha.2 with e | e
          · rw [e]; exact List.Sublist.refl _
          · rw [e]; exact tail_sublist _
        cases b with
        | true =>
          simp only [if_true]
          rw [ha.1]
          exact List.Sublist.append (List.Sublist.refl _) (List.Sublist.cons _ hs)
        | false =>
          simp only [Bool.false_eq_true, if_false]
          rw [ha.1, List.append_assoc]
          exact List.Sublist.append (List.Sublist.refl _) (by simpa using List.Sublist.cons_cons curr hs)
      simp only at h
      split at h
      · split at h
        · simp at h; subst h; simp
        · split at h
          · cases h
          · rename_i p' hh; exact step true p' (handleLong_adv _ _ _ _ _ _ _ hh) (by simpa using h)
          · rename_i p' hh; exact step false p' (handleLong_adv _ _ _ _ _ _ _ hh) (by simpa using h)
      · split at h
        · split at h
          · cases h
          · rename_i p' hh; exact step true p' (handleShort_adv _ _ _ _ _ _ _ hh) (by simpa using h)
          · rename_i p' hh; exact step false p' (handleShort_adv _ _ _ _ _ _ _ hh) (by simpa using h)
        · split at h
          · cases h
          · rename_i p' hh; exact step true p' (handlePos_adv _ _ _ _ _ _ _ hh) (by simpa using h)
          · rename_i p' hh; exact step false p' (handlePos_adv _ _ _ _ _ _ _ hh) (by simpa using h)

/-- what is left over is a sub-list of the tokens given: same tokens, same order, none invented -/
theorem C13_remaining_sublist (c : Context) (aU aF : Bool) (pos : Option (List Nat)) (ts : List (List Nat)) (r : PState)
    (h : parseArgv c aU aF pos ts = .ok r) : r.remaining.Sublist ts := by
  have := parseLoop_sublist c aU aF pos _ _ r h
  simp at this
  exact (List.sublist_append_left _ _).trans this

/-- the argv vector of a C program: name, tokens, null pointer, whatever lies behind -/
def vector (prog : List Nat) (ts : List (List Nat)) (junk : List (Option (List Nat))) : List (Option (List Nat)) :=
  some prog :: (ts.map some ++ none :: junk)

theorem takeWhile_some {α} (l : List α) (k : List (Option α)) : ((l.map some ++ none :: k).takeWhile Option.isSome) = l.map some := by
  induction l with
  | nil => simp
  | cons x l ih => simp [ih]

theorem filterMap_some {α} (l : List α) : (l.map some).filterMap id = l := by
  induction l with
  | nil => rfl
  | cons x l ih => simp [ih]

/-- the entry point on a well-formed vector, for every caller count from 1 up to the real one -/
theorem C13_cmdline (c : Context) (aU aF : Bool) (pos : Option (List Nat)) (prog : List Nat) (ts : List (List Nat))
    (junk : List (Option (List Nat))) (argc0 : Nat) (h1 : 1 ≤ argc0) (h2 : argc0 ≤ ts.length + 1) :
    cmdLine c aU aF pos argc0 (vector prog ts junk) =
      match parseArgv c aU aF pos ts with
      | .error e => .error e
      | .ok p => .ok (p, 1 + p.remaining.length,
          vector prog p.remaining ((ts.map some ++ none :: junk).drop (p.remaining.length + 1))) := by
  obtain ⟨n, rfl⟩ : ∃ n, argc0 = n + 1 := ⟨argc0 - 1, by omega⟩
  have hn : n ≤ ts.length := by omega
  have hargc : (n + 1) + (((vector prog ts junk).drop (n + 1)).takeWhile Option.isSome).length = ts.length + 1 := by
    have : (ts.map some ++ none :: junk).drop n = (ts.drop n).map some ++ none :: junk := by
      rw [List.drop_append_of_le_length (by simpa using hn), List.map_drop]
    simp only [vector, List.drop_succ_cons, this, takeWhile_some, List.length_map, List.length_drop]
    omega
  have htoks : (((vector prog ts junk).take (ts.length + 1)).drop 1).filterMap id = ts := by
    simp only [vector, List.take_succ_cons, List.drop_succ_cons, List.drop_zero]
    rw [List.take_append_of_le_length (by simp), List.take_of_length_le (by simp), filterMap_some]
  unfold cmdLine
  simp only [hargc, htoks]
  cases hp : parseArgv c aU aF pos ts with
  | error e => rfl
  | ok p =>
    simp only [vector]
    congr 2
    simp [List.append_assoc]

theorem drop_rewritten {α} (A B : List α) (x : α) (r n : Nat) (hA : A.length = r) (h : r ≤ n) :
    (A ++ x :: B.drop (r + 1)).drop (n + 1) = B.drop (n + 1) := by
  subst hA
  rw [List.drop_append, List.drop_of_length_le (by omega), List.nil_append,
    show n + 1 - A.length = (n - A.length) + 1 by omega, List.drop_succ_cons, List.drop_drop]
  congr 1; omega

/-- … and the rewritten part lies inside the cells that held the program name and the tokens: the vector keeps its length,
    so no cell behind the original null pointer is written -/
theorem C13_cmdline_in_place (c : Context) (aU aF : Bool) (pos : Option (List Nat)) (prog : List Nat) (ts : List (List Nat))
    (junk : List (Option (List Nat))) (p : PState) (h : parseArgv c aU aF pos ts = .ok p) :
    p.remaining.length + 1 ≤ ts.length + 1 ∧
    (vector prog p.remaining ((ts.map some ++ none :: junk).drop (p.remaining.length + 1))).length = (vector prog ts junk).length ∧
    (vector prog p.remaining ((ts.map some ++ none :: junk).drop (p.remaining.length + 1))).drop (ts.length + 2) = junk := by
  have hl := (C13_remaining_sublist c aU aF pos ts p h).length_le
  refine ⟨by omega, ?_, ?_⟩
  · simp [vector]; omega
  · simp only [vector, List.drop_succ_cons]
    rw [drop_rewritten _ _ _ _ _ (by simp) hl]
    rw [List.drop_append, List.drop_of_length_le (by simp), List.nil_append]; simp

example : cmdLine exCtx false false none 1 (vector [112] [dd ++ ([110, 117] ++ 61 :: [51]), [45, 118], dd, [120]] [some [7]]) =
    .ok ({ toks := [], values := [(0, [51]), (1, [])], remaining := [[120]] }, 2, [some [112], some [120], none, some dd, some [120], none, some [7]]) := by rfl

end PotasscoVerif.C13
