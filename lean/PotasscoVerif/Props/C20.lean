/-
  C20 — type-erased value holder keeps value semantics and single ownership.
  Model: Model/ValueStore.lean.  For ALL histories of set / copy-assign (incl. self assignment) / swap / adopt /
  clear / surrender over any number of holders:
    * `C20_once`: after the holders are gone, every object that was ever constructed has been destroyed
      exactly once, except the surrendered ones, which were never destroyed (ownership is the caller's);
      during the history every live object is owned by exactly one holder (`C20_single_owner`);
    * `C20_typed`: typed access returns the stored value for the stored type and a type error otherwise;
      `C20_set_get`, `C20_copy_independent`: a holder holds what was last stored; a copy has an equal value but
      is a different object, and storing into one holder leaves all others untouched.
  The reference-count half (`rc`, shared options) is decided by correspondence + the trace oracle only.
-/
import PotasscoVerif.Model.ValueStore
namespace PotasscoVerif.C20
open PotasscoVerif.ValueStore

/-- 1 if the holder owns object `id`. -/
def owns (id : Nat) (h : Option Obj) : Nat := if h.map (·.id) = some id then 1 else 0

def occ (id : Nat) (s : VS) : Nat :=
  (s.holders.map (owns id)).sum + s.destroyed.count id + s.surrendered.count id

/-- every id constructed so far is accounted for exactly once; nothing else is. -/
structure Inv (s : VS) : Prop where
  pos  : 1 ≤ s.nextId
  acct : ∀ id, occ id s = if 1 ≤ id ∧ id < s.nextId then 1 else 0

theorem sum_set {α} (g : α → Nat) : ∀ (l : List α) (i : Nat) (x a : α), l[i]? = some a →
    ((l.set i x).map g).sum + g a = (l.map g).sum + g x := by
  intro l
  induction l with
  | nil => intro i x a h; simp at h
  | cons b l ih =>
    intro i x a h
    cases i with
    | zero => simp at h; subst h; simp; omega
    | succ i =>
      simp only [List.getElem?_cons_succ] at h
      simp only [List.set_cons_succ, List.map_cons, List.sum_cons]
      have := ih i x a h
      omega

theorem get_some {s : VS} {i : Nat} {o : Obj} (h : s.get i = some o) : s.holders[i]? = some (some o) := by
  unfold VS.get at h
  cases hv : s.holders[i]? with
  | none => rw [hv] at h; cases h
  | some x => rw [hv] at h; cases x with
    | none => cases h
    | some o' => simp [Option.join] at h; rw [h]

theorem get_none {s : VS} {i : Nat} (h : s.get i = none) (hi : i < s.holders.length) : s.holders[i]? = some none := by
  unfold VS.get at h
  cases hv : s.holders[i]? with
  | none => rw [List.getElem?_eq_none_iff] at hv; omega
  | some x => cases x with
    | none => rfl
    | some o' => rw [hv] at h; simp [Option.join] at h

theorem owns_none (id : Nat) : owns id none = 0 := rfl
theorem owns_some (id : Nat) (o : Obj) : owns id (some o) = if o.id = id then 1 else 0 := by
  unfold owns; simp

theorem count_append_single (l : List Nat) (a id : Nat) : (l ++ [a]).count id = l.count id + (if a = id then 1 else 0) := by
  simp [List.count_append, List.count_cons, List.count_nil]

/-- `clear` moves the held object (if any) to `destroyed`; the account of every id is unchanged. -/
theorem clear_occ (s : VS) (i id : Nat) : occ id (s.clear i) = occ id s := by
  unfold VS.clear
  cases hg : s.get i with
  | none => rfl
  | some o =>
    have hs := sum_set (owns id) s.holders i none (some o) (get_some hg)
    rw [owns_none, owns_some] at hs
    unfold occ
    simp only [count_append_single]
    omega

theorem clear_next (s : VS) (i : Nat) : (s.clear i).nextId = s.nextId := by unfold VS.clear; split <;> rfl
theorem clear_len (s : VS) (i : Nat) : (s.clear i).holders.length = s.holders.length := by unfold VS.clear; split <;> simp
theorem clear_get (s : VS) (i : Nat) (hi : i < s.holders.length) : (s.clear i).holders[i]? = some none := by
  unfold VS.clear
  cases hg : s.get i with
  | none => exact get_none hg hi
  | some o => simp [hi]

theorem surrender_occ (s : VS) (i id : Nat) : occ id (s.surrender i) = occ id s := by
  unfold VS.surrender
  cases hg : s.get i with
  | none => rfl
  | some o =>
    have hs := sum_set (owns id) s.holders i none (some o) (get_some hg)
    rw [owns_none, owns_some] at hs
    unfold occ
    simp only [count_append_single]
    omega

/-- putting a freshly constructed object into a cleared holder. -/
theorem put_fresh (s : VS) (i : Nat) (o : Obj) (hi : i < s.holders.length) (hid : o.id = s.nextId) (h : Inv s) :
    Inv { (s.clear i) with holders := (s.clear i).holders.set i (some o), nextId := s.nextId + 1 } := by
  refine ⟨Nat.le_succ_of_le h.pos, ?_⟩
  intro id
  have hpos := h.pos
  have hc := clear_occ s i id
  have hslot := clear_get s i hi
  have hs := sum_set (owns id) (s.clear i).holders i (some o) none hslot
  rw [owns_none, owns_some, hid] at hs
  have hinv := h.acct id
  rw [← hc] at hinv
  unfold occ at hinv ⊢
  simp only
  by_cases he : s.nextId = id
  · subst he
    simp only [↓reduceIte] at hs
    have h0 : ¬ (1 ≤ s.nextId ∧ s.nextId < s.nextId) := by omega
    simp only [h0, ↓reduceIte] at hinv
    have h1 : (1 ≤ s.nextId ∧ s.nextId < s.nextId + 1) := ⟨hpos, by omega⟩
    simp only [h1, and_self, ↓reduceIte]
    omega
  · simp only [he, ↓reduceIte] at hs
    have hiff : (1 ≤ id ∧ id < s.nextId + 1) ↔ (1 ≤ id ∧ id < s.nextId) := by
      constructor
      · rintro ⟨h1, h2⟩; exact ⟨h1, by omega⟩
      · rintro ⟨h1, h2⟩; exact ⟨h1, by omega⟩
    simp only [hiff]
    omega

theorem inv_of_eq {s s' : VS} (h : Inv s) (hn : s'.nextId = s.nextId) (ho : ∀ id, occ id s' = occ id s) : Inv s' := by
  refine ⟨by rw [hn]; exact h.pos, fun id => ?_⟩
  rw [ho id]
  have := h.acct id
  simp only [hn]
  exact this

theorem surrender_next (s : VS) (i : Nat) : (s.surrender i).nextId = s.nextId := by unfold VS.surrender; split <;> rfl

theorem step_inv (s : VS) (op : Op) (h : Inv s) : Inv (s.step op) := by
  cases op with
  | set i ty v =>
    simp only [VS.step]
    by_cases hi : i < s.holders.length
    · simp only [hi, ↓reduceIte]; exact put_fresh s i _ hi rfl h
    · simp only [hi, ↓reduceIte]; exact h
  | adopt i ty v =>
    simp only [VS.step]
    by_cases hi : i < s.holders.length
    · simp only [hi, ↓reduceIte]; exact put_fresh s i _ hi rfl h
    · simp only [hi, ↓reduceIte]; exact h
  | copy i j =>
    simp only [VS.step]
    by_cases hij : i < s.holders.length ∧ j < s.holders.length
    · simp only [hij, and_self, ↓reduceIte]
      unfold VS.copy
      cases hg : s.get i with
      | none => exact inv_of_eq h (clear_next s j) (fun id => clear_occ s j id)
      | some o => exact put_fresh s j { o with id := s.nextId } hij.2 rfl h
    · simp only [hij, ↓reduceIte]; exact h
  | clear i => exact inv_of_eq h (clear_next s i) (fun id => clear_occ s i id)
  | surrender i => exact inv_of_eq h (surrender_next s i) (fun id => surrender_occ s i id)
  | readopt i => exact h
  | selfAssign i =>
    simp only [VS.step]
    cases hg : s.get i with
    | none => exact h
    | some o =>
      have hi : i < s.holders.length := by
        unfold VS.get at hg
        by_cases hi : i < s.holders.length
        · exact hi
        · simp [List.getElem?_eq_none (Nat.le_of_not_lt hi)] at hg
      exact put_fresh s i _ hi rfl h
  | swap i j =>
    simp only [VS.step]
    unfold VS.swap
    by_cases hij : i < s.holders.length ∧ j < s.holders.length
    · simp only [hij, and_self, ↓reduceIte]
      refine ⟨h.pos, fun id => ?_⟩
      have hinv := h.acct id
      unfold occ at hinv ⊢
      simp only
      -- the two stored values are exchanged: the sum over the holders is unchanged
      have hi? : s.holders[i]? = some ((s.holders[i]?).join) := by
        cases hv : s.holders[i]? with
        | none => rw [List.getElem?_eq_none_iff] at hv; omega
        | some x => cases x <;> rfl
      have hj? : s.holders[j]? = some ((s.holders[j]?).join) := by
        cases hv : s.holders[j]? with
        | none => rw [List.getElem?_eq_none_iff] at hv; omega
        | some x => cases x <;> rfl
      have h1 := sum_set (owns id) s.holders i (s.holders[j]?).join ((s.holders[i]?).join) hi?
      by_cases hne : i = j
      · subst hne
        have h2 := sum_set (owns id) (s.holders.set i (s.holders[i]?).join) i (s.holders[i]?).join ((s.holders[i]?).join)
          (by simp [hij.1])
        omega
      · have hj2 : (s.holders.set i (s.holders[j]?).join)[j]? = some ((s.holders[j]?).join) := by
          rw [List.getElem?_set_ne hne]; exact hj?
        have h2 := sum_set (owns id) (s.holders.set i (s.holders[j]?).join) j (s.holders[i]?).join ((s.holders[j]?).join) hj2
        omega
    · simp only [hij, ↓reduceIte]; exact h

def run : VS → List Op → VS
  | s, [] => s
  | s, op :: ops => run (s.step op) ops

theorem init_inv (n : Nat) : Inv (VS.init n) := by
  refine ⟨Nat.le_refl 1, fun id => ?_⟩
  have hz : ((List.replicate n (none : Option Obj)).map (owns id)).sum = 0 := by
    induction n with
    | zero => rfl
    | succ n ih => simp only [List.replicate_succ, List.map_cons, List.sum_cons, owns_none, ih]
  have hno : ¬ (1 ≤ id ∧ id < 1) := by omega
  show ((List.replicate n (none : Option Obj)).map (owns id)).sum + ([] : List Nat).count id + ([] : List Nat).count id =
    if 1 ≤ id ∧ id < 1 then 1 else 0
  rw [hz]; simp; omega

theorem run_inv : ∀ (ops : List Op) (s : VS), Inv s → Inv (run s ops) := by
  intro ops
  induction ops with
  | nil => intro s h; exact h
  | cons op ops ih => intro s h; exact ih _ (step_inv s op h)

theorem count_held (id : Nat) : ∀ (hs : List (Option Obj)), (hs.filterMap (fun h => h.map (·.id))).count id = (hs.map (owns id)).sum := by
  intro hs
  induction hs with
  | nil => rfl
  | cons h hs ih =>
    cases h with
    | none => simp [owns_none, ih]
    | some o =>
      simp only [List.filterMap_cons, Option.map_some, List.map_cons, List.sum_cons, owns_some, List.count_cons, ih]
      by_cases he : o.id = id <;> simp [he]; omega

/-- **C20_once.** Whatever history is applied to `n` empty holders, once the holders are gone every object
    constructed during the history (ids `1 .. nextId-1`) has been destroyed exactly once, unless it was
    surrendered — then it was never destroyed; and no other id is ever destroyed or surrendered. -/
theorem C20_once (n : Nat) (ops : List Op) (id : Nat) :
    let f := (run (VS.init n) ops).destroyAll
    f.destroyed.count id + f.surrendered.count id = (if 1 ≤ id ∧ id < f.nextId then 1 else 0) := by
  intro f
  have hinv := (run_inv ops _ (init_inv n)).acct id
  unfold occ at hinv
  show ((run (VS.init n) ops).destroyed ++ ((run (VS.init n) ops).holders.filterMap (fun h => h.map (·.id)))).count id +
    (run (VS.init n) ops).surrendered.count id = _
  rw [List.count_append, count_held]
  show _ = if 1 ≤ id ∧ id < (run (VS.init n) ops).nextId then 1 else 0
  omega

/-- **single owner**: at every point of a history an object is held by at most one holder and an object in a
    holder has been neither destroyed nor surrendered. -/
theorem C20_single_owner (n : Nat) (ops : List Op) (id : Nat) :
    ((run (VS.init n) ops).holders.map (owns id)).sum ≤ 1 ∧
    (((run (VS.init n) ops).holders.map (owns id)).sum = 1 →
      (run (VS.init n) ops).destroyed.count id = 0 ∧ (run (VS.init n) ops).surrendered.count id = 0) := by
  have hinv := (run_inv ops _ (init_inv n)).acct id
  unfold occ at hinv
  split at hinv <;> constructor <;> omega

/-- typed access: the stored value for the stored type, a type error for any other type or an empty holder. -/
theorem C20_typed (s : VS) (i ty : Nat) :
    s.cast i ty = match s.get i with | some o => (if o.ty = ty then some o.val else none) | none => none := rfl

theorem get_set (l : List (Option Obj)) (i j : Nat) (x : Option Obj) (h : i < l.length) :
    ((l.set i x)[j]?).join = if j = i then x else (l[j]?).join := by
  by_cases hj : j = i
  · subst hj; simp [h]
  · simp [hj, List.getElem?_set_ne (Ne.symm hj)]

theorem clear_get_other (s : VS) (i j : Nat) : (s.clear i).get j = if j = i then none else s.get j := by
  unfold VS.clear
  cases hg : s.get i with
  | none => by_cases hj : j = i <;> simp [hj, hg]
  | some o =>
    have hlt := (List.getElem?_eq_some_iff.mp (get_some hg)).1
    unfold VS.get; simp only
    exact get_set s.holders i j none hlt

/-- a holder holds the value last stored in it; storing leaves every other holder untouched. -/
theorem C20_set_get (s : VS) (i ty : Nat) (v : Int) (hi : i < s.holders.length) (j : Nat) :
    (s.set i ty v).get j = if j = i then some { id := s.nextId, ty := ty, val := v, heap := !inPlaceTy ty } else s.get j := by
  unfold VS.set
  simp only
  unfold VS.get
  simp only
  rw [get_set _ i j _ (by rw [clear_len]; exact hi)]
  by_cases hj : j = i
  · simp [hj]
  · simp only [hj, ↓reduceIte]
    have := clear_get_other s i j
    unfold VS.get at this
    simp only [hj, ↓reduceIte] at this
    exact this

/-- assigning a holder the value it already holds (`h = value_cast<T>(h)`) leaves every typed access as it was: the copy is
    taken before the old object goes -/
theorem C20_self_assign (s : VS) (i j ty : Nat) : (s.step (.selfAssign i)).cast j ty = s.cast j ty := by
  simp only [VS.step]
  cases hg : s.get i with
  | none => rfl
  | some o =>
    have hi : i < s.holders.length := by
      unfold VS.get at hg
      by_cases hi : i < s.holders.length
      · exact hi
      · simp [List.getElem?_eq_none (Nat.le_of_not_lt hi)] at hg
    unfold VS.cast
    rw [C20_set_get s i o.ty o.val hi j]
    by_cases hj : j = i
    · subst hj; simp [hg]
    · simp [hj]

/-- a copy has the same type and value as its source but is a different (fresh) object; the source and all
    other holders are unchanged — so later changes to either are independent. -/
theorem C20_copy_independent (s : VS) (i j : Nat) (o : Obj) (hj : j < s.holders.length) (hne : i ≠ j) (hg : s.get i = some o)
    (k : Nat) : (s.copy i j).get k = if k = j then some { o with id := s.nextId } else s.get k := by
  unfold VS.copy
  simp only [hg]
  unfold VS.get
  simp only
  rw [get_set _ j k _ (by rw [clear_len]; exact hj)]
  by_cases hk : k = j
  · simp [hk]
  · simp only [hk, ↓reduceIte]
    have := clear_get_other s j k
    unfold VS.get at this
    simp only [hk, ↓reduceIte] at this
    exact this

/-! non-vacuity -/
example : ((run (VS.init 4) [.set 0 0 5, .set 1 2 7, .copy 0 2, .swap 1 2, .adopt 3 0 9, .surrender 2, .clear 0, .copy 1 1]).destroyAll.destroyed.length,
    (run (VS.init 4) [.set 0 0 5, .set 1 2 7, .copy 0 2, .swap 1 2, .adopt 3 0 9, .surrender 2, .clear 0, .copy 1 1]).surrendered) = (4, [2]) := by decide

end PotasscoVerif.C20
