/-
  C07 (continued) — the smodels reader against a declarative grammar (language combinators of Lemmas/AspifLang.lean; strict and
  lenient reading as for aspif, Props/C03c.lean).

    C07_complete : every strict smodels text is accepted and yields exactly the rules, outputs, constraints and externals it denotes
    C07_sound    : whatever the reader accepts (NUL-free text) is a lenient smodels text denoting exactly what was delivered
-/
import PotasscoVerif.Props.C03c
import PotasscoVerif.Model.SmodelsIn
namespace PotasscoVerif.C07
open PotasscoVerif PotasscoVerif.CharStream PotasscoVerif.AspifIn PotasscoVerif.SmodelsIn PotasscoVerif.Decimal PotasscoVerif.AspifLang
open PotasscoVerif.BufferedStream (IntRes isWs isDigit I64MAX)
open PotasscoVerif.C03 (IsEol get_nl_inv skipWs_nws matchTok_inv matchTok_false filler_nds hU32 numN_pos)

theorem Spec.rep0 {α : Type} {p : P α} {L : Bool → Lang α} (hp : Spec p L) (n : Nat) : Spec (AspifIn.rep p n []) (fun s => repL (L s) n) := by
  refine Spec.of_iff (Spec.rep hp n []) ?_
  intro s w l
  constructor
  · intro h; exact ⟨l, h, by simp⟩
  · rintro ⟨l', h, e⟩; simp at e; subst e; exact h

/-! ### rule bodies -/
/-- `len neg a1 … alen`: the first `neg` atoms are the negative ones -/
def bodyL (s : Bool) : Lang (List Int) :=
  seq (posL s) (fun len => seq (posL s) (fun neg => seq (repL (atomL s) len) (fun as => ret (signed neg as))))

theorem Spec.body : Spec SmodelsIn.body bodyL := by
  unfold SmodelsIn.body
  exact Spec.bind Spec.pos (fun len => Spec.bind Spec.pos (fun neg => Spec.bind (Spec.rep0 Spec.atom len) (fun as => Spec.pure _)))

/-- the three leading numbers of a cardinality rule are `len neg bound`, of a weight/optimize rule `bound len neg` -/
def sumL (weights : Bool) (s : Bool) : Lang (Int × List (Int × Int)) :=
  seq (posL s) (fun x => seq (posL s) (fun y => seq (posL s) (fun z =>
    let bnd : Nat := if weights then x else z
    let len : Nat := if weights then y else x
    let neg : Nat := if weights then z else y
    if bnd > I32MAX.toNat then none' else
    seq (repL (atomL s) len) (fun as =>
      if weights then seq (repL (numN s true I32MAX.toNat) len) (fun ws => ret ((bnd : Int), (signed neg as).zip (ws.map (fun (w : Nat) => Int.ofNat w))))
      else ret ((bnd : Int), (signed neg as).map (fun l => (l, 1)))))))

/-- `matchSum` written with binds -/
def sumB (weights : Bool) : P (Int × List (Int × Int)) := fun a => do
  let (x, a) ← pos a
  let (y, a) ← pos a
  let (z, a) ← pos a
  if (if weights then x else z) > I32MAX.toNat then .error a.line else do
    let (as, a) ← rep atom (if weights then y else x) [] a
    if weights then do
      let (ws, a) ← rep (posMax I32MAX.toNat) (if weights then y else x) [] a
      pure ((((if weights then x else z : Nat) : Int), (signed (if weights then z else y) as).zip (ws.map (fun (w : Nat) => Int.ofNat w))), a)
    else pure ((((if weights then x else z : Nat) : Int), (signed (if weights then z else y) as).map (fun l => (l, 1))), a)

theorem sum_eq (weights : Bool) (a : AS) : SmodelsIn.sum weights a = sumB weights a := by
  unfold SmodelsIn.sum sumB
  cases h1 : pos a with
  | error l => rfl
  | ok r1 =>
    obtain ⟨x, a1⟩ := r1
    simp only [bind, Except.bind]
    cases h2 : pos a1 with
    | error l => rfl
    | ok r2 =>
      obtain ⟨y, a2⟩ := r2
      simp only
      cases h3 : pos a2 with
      | error l => rfl
      | ok r3 =>
        obtain ⟨z, a3⟩ := r3
        cases weights with
        | false =>
          simp only [Bool.false_eq_true, ↓reduceIte]
          split
          · rfl
          · cases h4 : rep atom x [] a3 with
            | error l => rfl
            | ok r4 => rfl
        | true =>
          simp only [↓reduceIte]
          split
          · rfl
          · cases h4 : rep atom y [] a3 with
            | error l => rfl
            | ok r4 =>
              obtain ⟨as, a4⟩ := r4
              simp only
              cases h5 : rep (posMax I32MAX.toNat) y [] a4 with
              | error l => rfl
              | ok r5 => rfl

theorem Spec.sumB (weights : Bool) : Spec (sumB weights) (sumL weights) := by
  unfold C07.sumB sumL
  refine Spec.bind Spec.pos (fun x => Spec.bind Spec.pos (fun y => Spec.bind Spec.pos (fun z => ?_)))
  refine Spec.ite _ Spec.error ?_
  refine Spec.bind (Spec.rep0 Spec.atom _) (fun as => ?_)
  exact Spec.ite _ (Spec.bind (Spec.rep0 (Spec.posMax _ (by decide)) _) (fun ws => Spec.pure _)) (Spec.pure _)

theorem Spec.sum (weights : Bool) : Spec (SmodelsIn.sum weights) (sumL weights) := by
  have : SmodelsIn.sum weights = C07.sumB weights := funext (sum_eq weights)
  rw [this]; exact Spec.sumB weights

/-! ### rules -/
/-- one rule of type `rt`; the value is the delivered call (none for the `90 0` step marker) and the next minimize priority.
    The clasp-extension types 90, 91, 92 are no rules unless extensions are enabled. -/
def ruleL (ext : Bool) (rt prio : Nat) : Bool → Lang (Option Call × Nat) := fun s =>
  if rt = Choice ∨ rt = Disjunctive then
    seq (atomL s) (fun n => seq (repL (atomL s) n) (fun hd => seq (bodyL s) (fun b => ret (some (.rule (if rt = Choice then 1 else 0) hd b), prio))))
  else if rt = Basic then seq (atomL s) (fun h => seq (bodyL s) (fun b => ret (some (.rule 0 [h] b), prio)))
  else if rt = Cardinality ∨ rt = Weight then
    seq (atomL s) (fun h => seq (sumL (decide (rt = Weight)) s) (fun r => ret (some (.sumRule 0 [h] r.1 r.2), prio)))
  else if rt = Optimize then seq (sumL true s) (fun r => ret (some (.minimize prio r.2), prio + 1))
  else if rt = ClaspIncrement then
    (if (!ext) = true then none' else seq (posL s) (fun z => if z ≠ 0 then none' else ret (none, prio)))
  else if rt = ClaspAssignExt then
    (if (!ext) = true then none' else seq (atomL s) (fun h => seq (numN s true 2) (fun v => ret (some (.external h ((v ^^^ 3) - 1)), prio))))
  else if rt = ClaspReleaseExt then
    (if (!ext) = true then none' else seq (atomL s) (fun h => ret (some (.external h 3), prio)))
  else none'

theorem Spec.ruleOf (ext : Bool) (rt prio : Nat) : Spec (SmodelsIn.ruleOf ext rt prio) (ruleL ext rt prio) := by
  unfold SmodelsIn.ruleOf ruleL
  refine Spec.ite _ (Spec.bind Spec.atom (fun n => Spec.bind (Spec.rep0 Spec.atom n) (fun hd => Spec.bind Spec.body (fun b => Spec.pure _)))) ?_
  refine Spec.ite _ (Spec.bind Spec.atom (fun h => Spec.bind Spec.body (fun b => Spec.pure _))) ?_
  refine Spec.ite _ (Spec.bind Spec.atom (fun h => Spec.bind (Spec.sum _) (fun r => by obtain ⟨bnd, wl⟩ := r; exact Spec.pure _))) ?_
  refine Spec.ite _ (Spec.bind (Spec.sum _) (fun r => by obtain ⟨bnd, wl⟩ := r; exact Spec.pure _)) ?_
  refine Spec.ite _ ?_ ?_
  · show Spec (fun a => if (!ext) = true then (.error a.line : Except Nat ((Option Call × Nat) × AS)) else do
        let (z, a) ← AspifIn.pos a
        if z ≠ 0 then .error a.line else pure ((none, prio), a)) _
    refine Spec.ite _ Spec.error (Spec.bind Spec.pos (fun z => ?_))
    exact Spec.ite _ Spec.error (Spec.pure _)
  refine Spec.ite _ ?_ ?_
  · show Spec (fun a => if (!ext) = true then (.error a.line : Except Nat ((Option Call × Nat) × AS)) else do
        let (h, a) ← AspifIn.atom a
        let (v, a) ← AspifIn.posMax 2 a
        pure ((some (Call.external h ((v ^^^ 3) - 1)), prio), a)) _
    exact Spec.ite _ Spec.error (Spec.bind Spec.atom (fun h => Spec.bind (Spec.posMax 2 (by decide)) (fun v => Spec.pure _)))
  refine Spec.ite _ ?_ Spec.error
  · show Spec (fun a => if (!ext) = true then (.error a.line : Except Nat ((Option Call × Nat) × AS)) else do
        let (h, a) ← AspifIn.atom a
        pure ((some (Call.external h 3), prio), a)) _
    exact Spec.ite _ Spec.error (Spec.bind Spec.atom (fun h => Spec.pure _))

/-- the rules of a step up to and including the terminating `0`; `prio` is the priority the next minimize statement gets -/
inductive Rules (s ext : Bool) : Bool → Nat → List Nat → List Call → Prop
  | done {lead : Bool} {prio : Nat} {w : List Nat} : numN s lead U32MAX w 0 → Rules s ext lead prio w []
  | rule {lead : Bool} {prio prio' : Nat} {w1 w2 w3 : List Nat} {rt : Nat} {oc : Option Call} {cs : List Call} :
      numN s lead U32MAX w1 rt → rt ≠ 0 → ruleL ext rt prio s w2 (oc, prio') → Rules s ext true prio' w3 cs →
      Rules s ext lead prio (w1 ++ (w2 ++ w3)) (oc.toList ++ cs)

theorem rulesLoop_sound (ext lead : Bool) : ∀ (f : Nat) (a : AS) (prio : Nat) (acc cs : List Call) (a1 : AS), rulesLoop ext f a prio acc = (cs, .ok a1) →
    ∃ w cs', a.rest = w ++ a1.rest ∧ Rules false ext lead prio w cs' ∧ cs = acc.reverse ++ cs' := by
  intro f
  induction f generalizing lead with
  | zero => intro a prio acc cs a1 h; rw [C04.rulesLoop_zero] at h; simp only [Prod.mk.injEq] at h; cases h.2
  | succ f ih =>
    intro a prio acc cs a1 h
    rw [C04.rulesLoop_succ] at h
    cases hp : AspifIn.pos a with
    | error l => rw [hp] at h; simp only [Prod.mk.injEq] at h; cases h.2
    | ok r =>
      obtain ⟨rt, a0⟩ := r
      rw [hp] at h
      simp only at h
      obtain ⟨w1, e1, l1⟩ := posMax_sound lead U32MAX hU32 a rt a0 hp
      by_cases h0 : rt = 0
      · subst h0
        simp only [↓reduceIte, Prod.mk.injEq, Except.ok.injEq] at h
        obtain ⟨ec, ea⟩ := h
        subst ea
        exact ⟨w1, [], e1, Rules.done l1, by simp [ec]⟩
      · simp only [h0, ↓reduceIte] at h
        cases hr : SmodelsIn.ruleOf ext rt prio a0 with
        | error l => rw [hr] at h; simp only [Prod.mk.injEq] at h; cases h.2
        | ok r2 =>
          obtain ⟨⟨c, prio'⟩, a2⟩ := r2
          rw [hr] at h
          simp only at h
          obtain ⟨w2, e2, l2⟩ := (Spec.ruleOf ext rt prio).sound a0 (c, prio') a2 hr
          obtain ⟨w3, cs', e3, l3, ec⟩ := ih true a2 prio' _ cs a1 h
          refine ⟨w1 ++ (w2 ++ w3), c.toList ++ cs', by rw [e1, e2, e3]; simp, Rules.rule l1 h0 l2 l3, ?_⟩
          rw [ec]
          cases c <;> simp

theorem rules_nds {ext : Bool} {prio : Nat} {w : List Nat} {cs : List Call} (h : Rules true ext true prio w cs) (k : List Nat) : NDS (w ++ k) := by
  cases h with
  | done hl => exact num_nds hl k
  | rule hl _ _ _ => rw [List.append_assoc]; exact num_nds hl _

theorem rules_pos {s ext lead : Bool} {prio : Nat} {w : List Nat} {cs : List Call} (h : Rules s ext lead prio w cs) : 1 ≤ w.length := by
  cases h with
  | done hl => exact numN_pos hl
  | rule hl _ _ _ => have := numN_pos hl; simp only [List.length_append]; omega

theorem rulesLoop_complete (ext : Bool) : ∀ (lead : Bool) (prio : Nat) (w : List Nat) (cs : List Call), Rules true ext lead prio w cs →
    ∀ (f : Nat) (a : AS) (acc : List Call) (k : List Nat), w.length < f → a.rest = w ++ k → NDS k →
    ∃ a', rulesLoop ext f a prio acc = (acc.reverse ++ cs, .ok a') ∧ a'.rest = k := by
  intro lead prio w cs hd
  induction hd with
  | @done lead prio w hl =>
    intro f a acc k hf hr hk
    cases f with
    | zero => omega
    | succ f =>
      obtain ⟨a1, e1, r1⟩ := posMax_complete lead U32MAX hU32 w 0 a k hl hr hk
      refine ⟨a1, ?_, r1⟩
      rw [C04.rulesLoop_succ]
      have : AspifIn.pos a = .ok (0, a1) := e1
      rw [this]; simp
  | @rule lead prio prio' w1 w2 w3 rt oc cs hl h0 hrule hrest ih =>
    intro f a acc k hf hr hk
    cases f with
    | zero => omega
    | succ f =>
      have hs3 : NDS (w3 ++ k) := rules_nds hrest k
      have hs2 : NDS (w2 ++ (w3 ++ k)) := (Spec.ruleOf ext rt prio).safe w2 (oc, prio') _ hrule hs3
      obtain ⟨a1, e1, r1⟩ := posMax_complete lead U32MAX hU32 w1 rt a (w2 ++ (w3 ++ k)) hl (by rw [hr]; simp) hs2
      obtain ⟨a2, e2, r2⟩ := (Spec.ruleOf ext rt prio).complete w2 (oc, prio') a1 (w3 ++ k) hrule r1 hs3
      have hlen := numN_pos hl
      have key : ∀ acc', ∃ a', rulesLoop ext f a2 prio' acc' = (acc'.reverse ++ cs, .ok a') ∧ a'.rest = k :=
        fun acc' => ih f a2 acc' k (by simp only [List.length_append] at hf; omega) r2 hk
      have e1' : AspifIn.pos a = .ok (rt, a1) := e1
      cases oc with
      | none =>
        obtain ⟨a3, e3, r3⟩ := key acc
        refine ⟨a3, ?_, r3⟩
        rw [C04.rulesLoop_succ, e1']; simp only [h0, ↓reduceIte, e2]; rw [e3]; simp
      | some c =>
        obtain ⟨a3, e3, r3⟩ := key (c :: acc)
        refine ⟨a3, ?_, r3⟩
        rw [C04.rulesLoop_succ, e1']; simp only [h0, ↓reduceIte, e2]; rw [e3]; simp

/-! ### atoms up to `0`: the compute sections and the external section -/
def loop0 (mk : Nat → Call) : Nat → AS → List Call → (List Call × Except Nat AS)
  | 0, a, acc => (acc.reverse, .error a.line)
  | f + 1, a, acc =>
    match posMax Gen.atomMax a with
    | .error l => (acc.reverse, .error l)
    | .ok (x, a1) => if x = 0 then (acc.reverse, .ok a1) else loop0 mk f a1 (mk x :: acc)

attribute [local irreducible] AspifIn.posMax

theorem loop0_zero (mk : Nat → Call) (a : AS) (acc : List Call) : loop0 mk 0 a acc = (acc.reverse, .error a.line) := rfl
theorem loop0_succ (mk : Nat → Call) (f : Nat) (a : AS) (acc : List Call) : loop0 mk (f + 1) a acc =
    (match posMax Gen.atomMax a with
     | .error l => (acc.reverse, .error l)
     | .ok (x, a1) => if x = 0 then (acc.reverse, .ok a1) else loop0 mk f a1 (mk x :: acc)) := rfl

def mkCompute (val : Bool) : Nat → Call := fun x => .rule 0 [] [if val then -(x : Int) else (x : Int)]
def mkExt : Nat → Call := fun x => .external x 0

theorem computeLoop_eq (val : Bool) : ∀ (f : Nat) (a : AS) (acc : List Call),
    computeLoop val f a acc = loop0 (mkCompute val) f a acc := by
  intro f
  induction f with
  | zero => intro a acc; rfl
  | succ f ih =>
    intro a acc
    rw [C04.computeLoop_succ, loop0_succ]
    cases posMax Gen.atomMax a with
    | error l => rfl
    | ok r => obtain ⟨x, a1⟩ := r; simp only; split; rfl; exact ih _ _

theorem extLoop_eq : ∀ (f : Nat) (a : AS) (acc : List Call), extLoop f a acc = loop0 mkExt f a acc := by
  intro f
  induction f with
  | zero => intro a acc; rfl
  | succ f ih =>
    intro a acc
    rw [C04.extLoop_succ, loop0_succ]
    cases posMax Gen.atomMax a with
    | error l => rfl
    | ok r => obtain ⟨x, a1⟩ := r; simp only; split; rfl; exact ih _ _

inductive Atoms0 (s : Bool) (mk : Nat → Call) : Bool → List Nat → List Call → Prop
  | done {lead : Bool} {w : List Nat} : numN s lead Gen.atomMax w 0 → Atoms0 s mk lead w []
  | atom {lead : Bool} {w1 w2 : List Nat} {x : Nat} {cs : List Call} : numN s lead Gen.atomMax w1 x → x ≠ 0 → Atoms0 s mk true w2 cs →
      Atoms0 s mk lead (w1 ++ w2) (mk x :: cs)

theorem hAtomMax : ((Gen.atomMax : Nat) : Int) < I64MAX := by decide

theorem loop0_sound (mk : Nat → Call) (lead : Bool) : ∀ (f : Nat) (a : AS) (acc cs : List Call) (a1 : AS), loop0 mk f a acc = (cs, .ok a1) →
    ∃ w cs', a.rest = w ++ a1.rest ∧ Atoms0 false mk lead w cs' ∧ cs = acc.reverse ++ cs' := by
  intro f
  induction f generalizing lead with
  | zero => intro a acc cs a1 h; rw [loop0_zero] at h; simp only [Prod.mk.injEq] at h; cases h.2
  | succ f ih =>
    intro a acc cs a1 h
    rw [loop0_succ] at h
    cases hp : posMax Gen.atomMax a with
    | error l => rw [hp] at h; simp only [Prod.mk.injEq] at h; cases h.2
    | ok r =>
      obtain ⟨x, a0⟩ := r
      rw [hp] at h
      simp only at h
      obtain ⟨w1, e1, l1⟩ := posMax_sound lead Gen.atomMax hAtomMax a x a0 hp
      by_cases h0 : x = 0
      · subst h0
        simp only [↓reduceIte, Prod.mk.injEq, Except.ok.injEq] at h
        obtain ⟨ec, ea⟩ := h
        subst ea
        exact ⟨w1, [], e1, Atoms0.done l1, by simp [ec]⟩
      · simp only [h0, ↓reduceIte] at h
        obtain ⟨w2, cs', e2, l2, ec⟩ := ih true a0 _ cs a1 h
        exact ⟨w1 ++ w2, mk x :: cs', by rw [e1, e2]; simp, Atoms0.atom l1 h0 l2, by rw [ec]; simp⟩

theorem atoms0_nds {mk : Nat → Call} {w : List Nat} {cs : List Call} (h : Atoms0 true mk true w cs) (k : List Nat) : NDS (w ++ k) := by
  cases h with
  | done hl => exact num_nds hl k
  | atom hl _ _ => rw [List.append_assoc]; exact num_nds hl _

theorem atoms0_pos {s lead : Bool} {mk : Nat → Call} {w : List Nat} {cs : List Call} (h : Atoms0 s mk lead w cs) : 1 ≤ w.length := by
  cases h with
  | done hl => exact numN_pos hl
  | atom hl _ _ => have := numN_pos hl; simp only [List.length_append]; omega

theorem loop0_complete (mk : Nat → Call) : ∀ (lead : Bool) (w : List Nat) (cs : List Call), Atoms0 true mk lead w cs →
    ∀ (f : Nat) (a : AS) (acc : List Call) (k : List Nat), w.length < f → a.rest = w ++ k → NDS k →
    ∃ a', loop0 mk f a acc = (acc.reverse ++ cs, .ok a') ∧ a'.rest = k := by
  intro lead w cs hd
  induction hd with
  | @done lead w hl =>
    intro f a acc k hf hr hk
    cases f with
    | zero => omega
    | succ f =>
      obtain ⟨a1, e1, r1⟩ := posMax_complete lead Gen.atomMax hAtomMax w 0 a k hl hr hk
      exact ⟨a1, by rw [loop0_succ, e1]; simp, r1⟩
  | @atom lead w1 w2 x cs hl h0 hrest ih =>
    intro f a acc k hf hr hk
    cases f with
    | zero => omega
    | succ f =>
      obtain ⟨a1, e1, r1⟩ := posMax_complete lead Gen.atomMax hAtomMax w1 x a (w2 ++ k) hl (by rw [hr]; simp) (atoms0_nds hrest k)
      have hlen := numN_pos hl
      obtain ⟨a2, e2, r2⟩ := ih f a1 (mk x :: acc) k (by simp only [List.length_append] at hf; omega) r1 hk
      exact ⟨a2, by rw [loop0_succ, e1]; simp only [h0, ↓reduceIte]; rw [e2]; simp, r2⟩

/-! ### the symbol table -/
def NameOk (nm : List Nat) : Prop := ∀ c ∈ nm, c ≠ 0 ∧ c ≠ 10 ∧ c ≠ 13

theorem get_char_inv (a : AS) (h0 : a.get.1 ≠ 0) (h10 : a.get.1 ≠ 10) : a.rest = a.get.1 :: a.get.2.rest ∧ a.get.1 ≠ 13 := by
  cases hr : a.rest with
  | nil =>
    have : a.get.1 = 0 := by unfold AS.get; rw [hr]
    exact absurd this h0
  | cons c r =>
    by_cases hc0 : c = 0
    · have : a.get.1 = 0 := by unfold AS.get; rw [hr]; simp [hc0]
      exact absurd this h0
    · by_cases hc13 : c = 13
      · have : a.get.1 = 10 := by
          unfold AS.get; rw [hr]; subst hc13
          simp only [show ((13 : Nat) == 0) = false from rfl, Bool.false_eq_true, ↓reduceIte, BEq.rfl]
          split <;> rfl
        exact absurd this h10
      · by_cases hc10 : c = 10
        · have : a.get.1 = 10 := by unfold AS.get; rw [hr]; subst hc10; simp
          exact absurd this h10
        · have hg := AspifRT.get_plain a c r hr hc0 hc13 hc10
          rw [hg]; exact ⟨rfl, hc13⟩

theorem nameLoop_sound : ∀ (f : Nat) (a : AS) (acc nm : List Nat) (a' : AS), nameLoop f a acc = .ok (nm, a') →
    ∃ w eol, a.rest = w ++ (eol ++ a'.rest) ∧ nm = acc.reverse ++ w ∧ NameOk w ∧ IsEol false eol := by
  intro f
  induction f with
  | zero => intro a acc nm a' h; simp [nameLoop] at h
  | succ f ih =>
    intro a acc nm a' h
    simp only [nameLoop] at h
    by_cases h10 : a.get.1 = 10
    · simp only [h10, BEq.rfl, ↓reduceIte, Except.ok.injEq, Prod.mk.injEq] at h
      obtain ⟨eol, e, he⟩ := get_nl_inv a h10
      exact ⟨[], eol, by rw [e, ← h.2]; simp, by rw [← h.1]; simp, (by intro c hc; cases hc), he⟩
    · have e10 : (a.get.1 == 10) = false := by simpa using h10
      simp only [e10, Bool.false_eq_true, ↓reduceIte] at h
      by_cases h0 : a.get.1 = 0
      · simp [h0] at h
      · have e0 : (a.get.1 == 0) = false := by simpa using h0
        simp only [e0, Bool.false_eq_true, ↓reduceIte] at h
        obtain ⟨w, eol, e, en, hw, he⟩ := ih a.get.2 (a.get.1 :: acc) nm a' h
        obtain ⟨er, h13⟩ := get_char_inv a h0 h10
        refine ⟨a.get.1 :: w, eol, by rw [er, e]; simp, by rw [en]; simp, ?_, he⟩
        intro c hc
        simp only [List.mem_cons] at hc
        rcases hc with hc | hc
        · subst hc; exact ⟨h0, h10, h13⟩
        · exact hw c hc

theorem nameLoop_complete (nm : List Nat) (hnm : NameOk nm) (eol : List Nat) (he : IsEol true eol) (k : List Nat) :
    ∀ (f : Nat) (a : AS) (acc : List Nat), nm.length < f → a.rest = nm ++ (eol ++ k) →
    ∃ a', nameLoop f a acc = .ok (acc.reverse ++ nm, a') ∧ a'.rest = k := by
  induction nm with
  | nil =>
    intro f a acc hf hr
    cases f with
    | zero => omega
    | succ f =>
      simp only [List.nil_append] at hr
      have hg : a.get.1 = 10 ∧ a.get.2.rest = k := by
        unfold AS.get
        rcases he with h | h | h
        · subst h; rw [hr]; simp
        · subst h; rw [hr]; simp
        · cases h.1
      exact ⟨a.get.2, by simp [nameLoop, hg.1], hg.2⟩
  | cons c r ih =>
    intro f a acc hf hr
    cases f with
    | zero => omega
    | succ f =>
      obtain ⟨h0, h10, h13⟩ := hnm c (by simp)
      have hg := AspifRT.get_plain a c (r ++ (eol ++ k)) (by rw [hr]; rfl) h0 h13 h10
      obtain ⟨a2, e2, r2⟩ := ih (fun x hx => hnm x (by simp [hx])) f a.get.2 (c :: acc) (by simp at hf; omega) (by rw [hg])
      refine ⟨a2, ?_, r2⟩
      have e10 : (c == 10) = false := by simpa using h10
      have e0 : (c == 0) = false := by simpa using h0
      simp only [nameLoop]
      rw [show a.get.1 = c by rw [hg]]
      simp only [e10, e0, Bool.false_eq_true, ↓reduceIte, e2]
      simp

theorem symbolsLoop_zero (a : AS) (acc : List Call) : symbolsLoop 0 a acc = (acc.reverse, .error a.line) := rfl
theorem symbolsLoop_succ (f : Nat) (a : AS) (acc : List Call) : symbolsLoop (f + 1) a acc =
    (match posMax Gen.atomMax a with
     | .error l => (acc.reverse, .error l)
     | .ok (x, a1) =>
       if x = 0 then (acc.reverse, .ok a1) else
       match nameLoop ((a1.get.2).rest.length + 1) a1.get.2 [] with
       | .error l => (acc.reverse, .error l)
       | .ok (nm, a3) => symbolsLoop f a3 (.output nm [(x : Int)] :: acc)) := rfl

/-- symbol table: `atom`, one separator, the name up to the end of the line; terminated by `0` -/
inductive Syms (s : Bool) : Bool → List Nat → List Call → Prop
  | done {lead : Bool} {w : List Nat} : numN s lead Gen.atomMax w 0 → Syms s lead w []
  | sym {lead : Bool} {w1 sep nm eol w2 : List Nat} {x : Nat} {cs : List Call} : numN s lead Gen.atomMax w1 x → x ≠ 0 → SepOk s sep → NameOk nm →
      IsEol s eol → Syms s false w2 cs → Syms s lead (w1 ++ (sep ++ (nm ++ (eol ++ w2)))) (.output nm [(x : Int)] :: cs)

theorem symbolsLoop_sound (lead : Bool) : ∀ (f : Nat) (a : AS) (acc cs : List Call) (a1 : AS), symbolsLoop f a acc = (cs, .ok a1) →
    ∃ w cs', a.rest = w ++ a1.rest ∧ Syms false lead w cs' ∧ cs = acc.reverse ++ cs' := by
  intro f
  induction f generalizing lead with
  | zero => intro a acc cs a1 h; rw [symbolsLoop_zero] at h; simp only [Prod.mk.injEq] at h; cases h.2
  | succ f ih =>
    intro a acc cs a1 h
    rw [symbolsLoop_succ] at h
    cases hp : posMax Gen.atomMax a with
    | error l => rw [hp] at h; simp only [Prod.mk.injEq] at h; cases h.2
    | ok r =>
      obtain ⟨x, a0⟩ := r
      rw [hp] at h
      simp only at h
      obtain ⟨w1, e1, l1⟩ := posMax_sound lead Gen.atomMax hAtomMax a x a0 hp
      by_cases h0 : x = 0
      · subst h0
        simp only [↓reduceIte, Prod.mk.injEq, Except.ok.injEq] at h
        obtain ⟨ec, ea⟩ := h
        subst ea
        exact ⟨w1, [], e1, Syms.done l1, by simp [ec]⟩
      · simp only [h0, ↓reduceIte] at h
        obtain ⟨sep, es, hsep⟩ := get_inv a0
        cases hn : nameLoop ((a0.get.2).rest.length + 1) a0.get.2 [] with
        | error l => rw [hn] at h; simp only [Prod.mk.injEq] at h; cases h.2
        | ok r2 =>
          obtain ⟨nm, a3⟩ := r2
          rw [hn] at h
          simp only at h
          obtain ⟨w, eol, en, enm, hnm, he⟩ := nameLoop_sound _ _ _ _ _ hn
          simp only [List.reverse_nil, List.nil_append] at enm
          subst enm
          obtain ⟨w2, cs', e2, l2, ec⟩ := ih false a3 _ cs a1 h
          exact ⟨w1 ++ (sep ++ (nm ++ (eol ++ w2))), .output nm [(x : Int)] :: cs', by rw [e1, es, en, e2]; simp,
            Syms.sym l1 h0 (by simp only [SepOk]; exact hsep) hnm he l2, by rw [ec]; simp⟩

theorem syms_nds {w : List Nat} {cs : List Call} (h : Syms true true w cs) (k : List Nat) : NDS (w ++ k) := by
  cases h with
  | done hl => exact num_nds hl k
  | sym hl _ _ _ _ _ => rw [List.append_assoc]; exact num_nds hl _

theorem syms_pos {s lead : Bool} {w : List Nat} {cs : List Call} (h : Syms s lead w cs) : 1 ≤ w.length := by
  cases h with
  | done hl => exact numN_pos hl
  | sym hl _ _ _ _ _ => have := numN_pos hl; simp only [List.length_append]; omega

theorem symbolsLoop_complete : ∀ (lead : Bool) (w : List Nat) (cs : List Call), Syms true lead w cs →
    ∀ (f : Nat) (a : AS) (acc : List Call) (k : List Nat), w.length < f → a.rest = w ++ k → NDS k →
    ∃ a', symbolsLoop f a acc = (acc.reverse ++ cs, .ok a') ∧ a'.rest = k := by
  intro lead w cs hd
  induction hd with
  | @done lead w hl =>
    intro f a acc k hf hr hk
    cases f with
    | zero => omega
    | succ f =>
      obtain ⟨a1, e1, r1⟩ := posMax_complete lead Gen.atomMax hAtomMax w 0 a k hl hr hk
      exact ⟨a1, by rw [symbolsLoop_succ, e1]; simp, r1⟩
  | @sym lead w1 sep nm eol w2 x cs hl h0 hsep hnm he hrest ih =>
    intro f a acc k hf hr hk
    cases f with
    | zero => omega
    | succ f =>
      simp only [SepOk, ↓reduceIte] at hsep
      subst hsep
      obtain ⟨a1, e1, r1⟩ := posMax_complete lead Gen.atomMax hAtomMax w1 x a ([32] ++ (nm ++ (eol ++ w2)) ++ k) hl (by rw [hr]; simp)
        (by intro c r e; cases e; rfl)
      have hg := AspifRT.get_plain a1 32 (nm ++ (eol ++ (w2 ++ k))) (by rw [r1]; simp) (by decide) (by decide) (by decide)
      obtain ⟨a3, e3, r3⟩ := nameLoop_complete nm hnm eol he (w2 ++ k) ((a1.get.2).rest.length + 1) a1.get.2 [] (by rw [hg]; simp; omega) (by rw [hg])
      have hlen := numN_pos hl
      obtain ⟨a4, e4, r4⟩ := ih f a3 (.output nm [(x : Int)] :: acc) k (by simp only [List.length_append] at hf; omega) r3 hk
      refine ⟨a4, ?_, r4⟩
      simp only [List.reverse_nil, List.nil_append] at e3
      rw [symbolsLoop_succ, e1]
      simp only [h0, ↓reduceIte, e3]
      rw [e4]; simp

/-! ### compute sections `B+` / `B-` -/
def kwBp : List Nat := [66, 43]
def kwBm : List Nat := [66, 45]

/-- filler, the section name, the end of the line, atoms up to `0`: each atom is delivered as an integrity constraint -/
def ComputeSec (s : Bool) (tok : List Nat) (val : Bool) (w : List Nat) (cs : List Call) : Prop :=
  ∃ ws eol w2, w = ws ++ (tok ++ (eol ++ w2)) ∧ Filler ws ∧ IsEol s eol ∧ Atoms0 s (mkCompute val) false w2 cs

theorem compute_sound (tok : List Nat) (val : Bool) (a : AS) (cs : List Call) (a1 : AS) (h : compute tok val a = (cs, .ok a1)) :
    ∃ w, a.rest = w ++ a1.rest ∧ ComputeSec false tok val w cs := by
  unfold compute at h
  simp only [] at h
  obtain ⟨ws, e0, hws⟩ := skipWs_inv a
  split at h
  · simp only [Prod.mk.injEq] at h; cases h.2
  · rename_i hok
    have hok' : (a.skipWs.matchTok tok).1 = true := by simpa using hok
    have em := matchTok_inv a.skipWs tok hok'
    generalize (a.skipWs.matchTok tok).2 = a0 at h em
    split at h
    · simp only [Prod.mk.injEq] at h; cases h.2
    · rename_i hc
      have hc' : a0.get.1 = 10 := by simpa using hc
      obtain ⟨eol, e2, he⟩ := get_nl_inv a0 hc'
      rw [computeLoop_eq] at h
      obtain ⟨w2, cs', e3, l3, ec⟩ := loop0_sound (mkCompute val) false _ _ _ _ _ h
      simp only [List.reverse_nil, List.nil_append] at ec
      subst ec
      exact ⟨ws ++ (tok ++ (eol ++ w2)), by rw [e0, em, e2, e3]; simp, ws, eol, w2, rfl, hws, he, l3⟩

theorem compute_complete (tok : List Nat) (htok : ∃ c t, tok = c :: t ∧ isWs c = false) (val : Bool) (w : List Nat) (cs : List Call) (a : AS) (k : List Nat)
    (hw : ComputeSec true tok val w cs) (hr : a.rest = w ++ k) (hk : NDS k) : ∃ a', compute tok val a = (cs, .ok a') ∧ a'.rest = k := by
  obtain ⟨ws, eol, w2, ew, hws, he, hat⟩ := hw
  subst ew
  have hnw : NWS (tok ++ (eol ++ (w2 ++ k))) := by
    obtain ⟨c, t, e, hc⟩ := htok
    intro x r ex; rw [e] at ex; cases ex; exact hc
  have hs : a.skipWs.rest = tok ++ (eol ++ (w2 ++ k)) := skipWs_spec a ws _ (by rw [hr]; simp) hws hnw
  have hm1 : (a.skipWs.matchTok tok).1 = true := by unfold AS.matchTok; rw [hs]; simp
  have hm2 : (a.skipWs.matchTok tok).2.rest = eol ++ (w2 ++ k) := by unfold AS.matchTok; rw [hs]; simp
  generalize hA0 : (a.skipWs.matchTok tok).2 = a0 at hm2
  have hg : a0.get.1 = 10 ∧ a0.get.2.rest = w2 ++ k := by
    unfold AS.get
    rcases he with h | h | h
    · subst h; rw [hm2]; simp
    · subst h; rw [hm2]; simp
    · cases h.1
  obtain ⟨a3, e3, r3⟩ := loop0_complete (mkCompute val) false w2 cs hat (a0.get.2.rest.length + 1) a0.get.2 [] k (by rw [hg.2]; simp; omega) hg.2 hk
  refine ⟨a3, ?_, r3⟩
  unfold compute
  simp only [hm1, Bool.not_true, Bool.false_eq_true, ↓reduceIte, hA0]
  have hc : ¬ (a0.get.1 ≠ 10) := by rw [hg.1]; simp
  simp only [hc, ↓reduceIte, computeLoop_eq]
  simpa using e3

theorem computeSec_nds {tok : List Nat} (htok : ∃ c t, tok = c :: t ∧ isDigit c = false) {val : Bool} {w : List Nat} {cs : List Call}
    (h : ComputeSec true tok val w cs) (k : List Nat) : NDS (w ++ k) := by
  obtain ⟨ws, eol, w2, ew, hws, _, _⟩ := h
  subst ew
  intro c r e
  cases ws with
  | cons x xs => simp only [List.cons_append, List.cons.injEq] at e; rw [← e.1]; exact filler_nds hws x xs rfl
  | nil =>
    obtain ⟨c', t, et, hc⟩ := htok
    subst et
    simp only [List.nil_append, List.cons_append, List.cons.injEq] at e
    rw [← e.1]; exact hc

/-! ### the optional external section and the number of models -/

/-- optionally `E` and atoms up to `0` (each delivered as a free external); then the number of models (not delivered) -/
def ExtraSec (s : Bool) (w : List Nat) (cs : List Call) : Prop :=
  (∃ ws w2 wn n, w = ws ++ (69 :: (w2 ++ wn)) ∧ Filler ws ∧ Atoms0 s mkExt false w2 cs ∧ numN s true U32MAX wn n) ∨
  (∃ n, numN s true U32MAX w n ∧ cs = [])

theorem numN_prepend {lead : Bool} {m : Nat} {ws w : List Nat} {n : Nat} (hws : Filler ws) (h : numN false lead m w n) : numN false true m (ws ++ w) n := by
  obtain ⟨ws', sg, ds, ew, h1, h2, h3, h4, h5, _⟩ := h
  refine ⟨ws ++ ws', sg, ds, by rw [ew]; simp, ?_, h2, h3, h4, h5, by intro h; cases h⟩
  intro c hc
  simp only [List.mem_append] at hc
  rcases hc with hc | hc
  · exact hws c hc
  · exact h1 c hc

theorem extra_sound (a : AS) (cs : List Call) (a3 : AS) (h : extra a = (cs, .ok a3)) : ∃ w, a.rest = w ++ a3.rest ∧ ExtraSec false w cs := by
  unfold extra at h
  simp only [] at h
  obtain ⟨ws, e0, hws⟩ := skipWs_inv a
  by_cases hok : (a.skipWs.matchTok [69]).1 = true
  · have em := matchTok_inv a.skipWs [69] hok
    simp only [hok, ↓reduceIte] at h
    generalize (a.skipWs.matchTok [69]).2 = a1 at h em
    rw [extLoop_eq] at h
    cases hl : loop0 mkExt (a1.rest.length + 1) a1 [] with
    | mk c r =>
      rw [hl] at h
      cases r with
      | error l => simp only [Prod.mk.injEq] at h; cases h.2
      | ok a2 =>
        simp only at h
        obtain ⟨w2, cs', e2, l2, ec⟩ := loop0_sound mkExt false _ _ _ _ _ hl
        simp only [List.reverse_nil, List.nil_append] at ec
        cases hp : AspifIn.pos a2 with
        | error l => rw [hp] at h; simp only [Prod.mk.injEq] at h; cases h.2
        | ok r3 =>
          obtain ⟨n, a3'⟩ := r3
          rw [hp] at h
          simp only [Prod.mk.injEq, Except.ok.injEq] at h
          obtain ⟨e4, e5⟩ := h
          subst e5
          obtain ⟨wn, e3, l3⟩ := posMax_sound true U32MAX hU32 a2 n a3' hp
          refine ⟨ws ++ (69 :: (w2 ++ wn)), by rw [e0, em, e2, e3]; simp, Or.inl ⟨ws, w2, wn, n, rfl, hws, ?_, l3⟩⟩
          rw [← e4, ec]; exact l2
  · have hok' : (a.skipWs.matchTok [69]).1 = false := by simpa using hok
    have em := matchTok_false a.skipWs [69] hok'
    simp only [hok', Bool.false_eq_true, ↓reduceIte] at h
    generalize (a.skipWs.matchTok [69]).2 = a1 at h em
    cases hp : AspifIn.pos a1 with
    | error l => rw [hp] at h; simp only [Prod.mk.injEq] at h; cases h.2
    | ok r3 =>
      obtain ⟨n, a3'⟩ := r3
      rw [hp] at h
      simp only [Prod.mk.injEq, Except.ok.injEq] at h
      obtain ⟨e4, e5⟩ := h
      subst e5
      obtain ⟨wn, e3, l3⟩ := posMax_sound true U32MAX hU32 a1 n a3' hp
      exact ⟨ws ++ wn, by rw [e0, ← em, e3]; simp, Or.inr ⟨n, numN_prepend hws l3, e4.symm⟩⟩

theorem extra_complete (w : List Nat) (cs : List Call) (a : AS) (k : List Nat) (hw : ExtraSec true w cs) (hr : a.rest = w ++ k) (hk : NDS k) :
    ∃ a', extra a = (cs, .ok a') ∧ a'.rest = k := by
  rcases hw with ⟨ws, w2, wn, n, ew, hws, hat, hn⟩ | ⟨n, hn, ecs⟩
  · subst ew
    have hs : a.skipWs.rest = 69 :: (w2 ++ (wn ++ k)) := skipWs_spec a ws _ (by rw [hr]; simp) hws (by intro c r e; cases e; decide)
    have hm1 : (a.skipWs.matchTok [69]).1 = true := by unfold AS.matchTok; rw [hs]; simp
    have hm2 : (a.skipWs.matchTok [69]).2.rest = w2 ++ (wn ++ k) := by unfold AS.matchTok; rw [hs]; simp
    generalize hA1 : (a.skipWs.matchTok [69]).2 = a1 at hm2
    obtain ⟨a2, e2, r2⟩ := loop0_complete mkExt false w2 cs hat (a1.rest.length + 1) a1 [] (wn ++ k) (by rw [hm2]; simp; omega) hm2 (num_nds hn k)
    obtain ⟨a3, e3, r3⟩ := posMax_complete true U32MAX hU32 wn n a2 k hn r2 hk
    refine ⟨a3, ?_, r3⟩
    unfold extra
    simp only [hm1, ↓reduceIte, hA1, extLoop_eq]
    have e2' : loop0 mkExt (a1.rest.length + 1) a1 [] = (cs, .ok a2) := by simpa using e2
    rw [e2']
    have e3' : AspifIn.pos a2 = .ok (n, a3) := e3
    simp only [e3']
  · subst ecs
    obtain ⟨ws, sg, ds, ew, hws, hds, hv, h1, h2, hl⟩ := hn
    subst ew
    have hnw : NWS (Sign.text sg ++ ds ++ k) := by
      intro c r e
      cases sg with
      | none =>
        cases ds with
        | nil => exact absurd rfl hds.1
        | cons d t => simp only [Sign.text, List.nil_append, List.cons_append, List.cons.injEq] at e; rw [← e.1]
                      have := hds.2 d (by simp); simp [isDigit] at this; simp [isWs]; omega
      | plus => simp only [Sign.text, List.cons_append, List.nil_append, List.cons.injEq] at e; rw [← e.1]; rfl
      | minus => simp only [Sign.text, List.cons_append, List.nil_append, List.cons.injEq] at e; rw [← e.1]; rfl
    have hs : a.skipWs.rest = Sign.text sg ++ ds ++ k := skipWs_spec a ws _ (by rw [hr]; simp) hws hnw
    have hm1 : (a.skipWs.matchTok [69]).1 = false := by
      unfold AS.matchTok; rw [hs]
      cases sg with
      | none =>
        cases ds with
        | nil => exact absurd rfl hds.1
        | cons d t =>
          have := hds.2 d (by simp); simp [isDigit] at this
          have : ((69 : Nat) == d) = false := by simp; omega
          simp [Sign.text, List.isPrefixOf, this]
      | plus => simp [Sign.text, List.isPrefixOf]
      | minus => simp [Sign.text, List.isPrefixOf]
    have hm2 := matchTok_false a.skipWs [69] hm1
    generalize hA1 : (a.skipWs.matchTok [69]).2 = a1 at hm2
    obtain ⟨a3, e3, r3⟩ := posMax_complete false U32MAX hU32 (Sign.text sg ++ ds) n a1 k
      ⟨[], sg, ds, by simp, (by intro c hc; cases hc), hds, hv, h1, h2, by intro _ h; cases h⟩ (by rw [hm2, hs]) hk
    refine ⟨a3, ?_, r3⟩
    unfold extra
    simp only [hm1, Bool.false_eq_true, ↓reduceIte, hA1]
    have e3' : AspifIn.pos a1 = .ok (n, a3) := e3
    simp only [e3']

theorem extraSec_nds {w : List Nat} {cs : List Call} (h : ExtraSec true w cs) (k : List Nat) : NDS (w ++ k) := by
  rcases h with ⟨ws, w2, wn, n, ew, hws, _, _⟩ | ⟨n, hn, _⟩
  · subst ew
    intro c r e
    cases ws with
    | cons x xs => simp only [List.cons_append, List.cons.injEq] at e; rw [← e.1]; exact filler_nds hws x xs rfl
    | nil => simp only [List.nil_append, List.cons_append, List.cons.injEq] at e; rw [← e.1]; rfl
  · exact num_nds hn k

/-! ### a step, the steps, the program -/
/-- rules, symbol table, `B+`, `B-`, optional `E` section, number of models -/
def Step (s ext : Bool) (w : List Nat) (cs : List Call) : Prop :=
  ∃ w1 w2 w3 w4 w5 c1 c2 c3 c4 c5, w = w1 ++ (w2 ++ (w3 ++ (w4 ++ w5))) ∧ cs = c1 ++ c2 ++ c3 ++ c4 ++ c5 ∧
    Rules s ext false 0 w1 c1 ∧ Syms s true w2 c2 ∧ ComputeSec s kwBp true w3 c3 ∧ ComputeSec s kwBm false w4 c4 ∧ ExtraSec s w5 c5

theorem step_sound (ext : Bool) (a : AS) (cs : List Call) (a5 : AS) (h : step ext a = (cs, .ok a5)) : ∃ w, a.rest = w ++ a5.rest ∧ Step false ext w cs := by
  unfold step at h
  cases h1 : rulesLoop ext (a.rest.length + 1) a 0 [] with
  | mk c1 r1 =>
    rw [h1] at h
    cases r1 with
    | error l => simp only [Prod.mk.injEq] at h; cases h.2
    | ok a1 =>
      simp only at h
      obtain ⟨w1, c1', e1, l1, ec1⟩ := rulesLoop_sound ext false _ _ _ _ _ _ h1
      cases h2 : symbolsLoop (a1.rest.length + 1) a1 [] with
      | mk c2 r2 =>
        rw [h2] at h
        cases r2 with
        | error l => simp only [Prod.mk.injEq] at h; cases h.2
        | ok a2 =>
          simp only at h
          obtain ⟨w2, c2', e2, l2, ec2⟩ := symbolsLoop_sound true _ _ _ _ _ h2
          cases h3 : compute [66, 43] true a2 with
          | mk c3 r3 =>
            rw [h3] at h
            cases r3 with
            | error l => simp only [Prod.mk.injEq] at h; cases h.2
            | ok a3 =>
              simp only at h
              obtain ⟨w3, e3, l3⟩ := compute_sound _ _ _ _ _ h3
              cases h4 : compute [66, 45] false a3 with
              | mk c4 r4 =>
                rw [h4] at h
                cases r4 with
                | error l => simp only [Prod.mk.injEq] at h; cases h.2
                | ok a4 =>
                  simp only at h
                  obtain ⟨w4, e4, l4⟩ := compute_sound _ _ _ _ _ h4
                  cases h5 : extra a4 with
                  | mk c5 r5 =>
                    rw [h5] at h
                    simp only [Prod.mk.injEq] at h
                    obtain ⟨ecs, er⟩ := h
                    subst er
                    obtain ⟨w5, e5, l5⟩ := extra_sound _ _ _ h5
                    simp only [List.reverse_nil, List.nil_append] at ec1 ec2
                    subst ec1; subst ec2
                    exact ⟨w1 ++ (w2 ++ (w3 ++ (w4 ++ w5))), by rw [e1, e2, e3, e4, e5]; simp, w1, w2, w3, w4, w5, c1, c2, c3, c4, c5, rfl, ecs.symm, l1, l2, l3, l4, l5⟩

theorem hBp : ∃ c t, kwBp = c :: t ∧ isWs c = false := ⟨66, [43], rfl, rfl⟩
theorem hBm : ∃ c t, kwBm = c :: t ∧ isWs c = false := ⟨66, [45], rfl, rfl⟩
theorem hBp' : ∃ c t, kwBp = c :: t ∧ isDigit c = false := ⟨66, [43], rfl, rfl⟩
theorem hBm' : ∃ c t, kwBm = c :: t ∧ isDigit c = false := ⟨66, [45], rfl, rfl⟩

theorem step_complete (ext : Bool) (w : List Nat) (cs : List Call) (a : AS) (k : List Nat) (hw : Step true ext w cs) (hr : a.rest = w ++ k) (hk : NDS k) :
    ∃ a', step ext a = (cs, .ok a') ∧ a'.rest = k := by
  obtain ⟨w1, w2, w3, w4, w5, c1, c2, c3, c4, c5, ew, ecs, l1, l2, l3, l4, l5⟩ := hw
  subst ew; subst ecs
  have n5 : NDS (w5 ++ k) := extraSec_nds l5 k
  have n4 : NDS (w4 ++ (w5 ++ k)) := computeSec_nds hBm' l4 _
  have n3 : NDS (w3 ++ (w4 ++ (w5 ++ k))) := computeSec_nds hBp' l3 _
  have n2 : NDS (w2 ++ (w3 ++ (w4 ++ (w5 ++ k)))) := syms_nds l2 _
  obtain ⟨a1, e1, r1⟩ := rulesLoop_complete ext false 0 w1 c1 l1 (a.rest.length + 1) a [] _ (by rw [hr]; simp; omega) (by rw [hr]; simp) n2
  obtain ⟨a2, e2, r2⟩ := symbolsLoop_complete true w2 c2 l2 (a1.rest.length + 1) a1 [] _ (by rw [r1]; simp; omega) r1 n3
  obtain ⟨a3, e3, r3⟩ := compute_complete kwBp hBp true w3 c3 a2 _ l3 r2 n4
  obtain ⟨a4, e4, r4⟩ := compute_complete kwBm hBm false w4 c4 a3 _ l4 r3 n5
  obtain ⟨a5, e5, r5⟩ := extra_complete w5 c5 a4 k l5 r4 hk
  refine ⟨a5, ?_, r5⟩
  unfold step
  simp only [List.reverse_nil, List.nil_append] at e1 e2
  have e3' : compute [66, 43] true a2 = (c3, .ok a3) := e3
  have e4' : compute [66, 45] false a3 = (c4, .ok a4) := e4
  simp only [e1, e2, e3', e4', e5]

theorem step_pos {s ext : Bool} {w : List Nat} {cs : List Call} (h : Step s ext w cs) : 1 ≤ w.length := by
  obtain ⟨w1, w2, w3, w4, w5, c1, c2, c3, c4, c5, ew, _, l1, _⟩ := h
  subst ew
  have := rules_pos l1
  simp only [List.length_append]; omega

inductive Steps7 (s ext : Bool) : Bool → List Nat → List Call → Prop
  | last {inc : Bool} {w ws : List Nat} {cs : List Call} : Step s ext w cs → Filler ws → Steps7 s ext inc (w ++ ws) ([.beginStep] ++ cs ++ [.endStep])
  | more {w ws rest : List Nat} {cs cs' : List Call} : Step s ext w cs → Filler ws → (s = true → ws ≠ []) → NWS rest → rest.headD 0 ≠ 0 →
      Steps7 s ext true rest cs' → Steps7 s ext true (w ++ (ws ++ rest)) ([.beginStep] ++ cs ++ [.endStep] ++ cs')

attribute [local irreducible] SmodelsIn.step in
theorem stepsLoop7_zero (ext inc : Bool) (a : AS) (acc : List Call) : SmodelsIn.stepsLoop ext 0 inc a acc = { calls := acc, err := some 0 } := rfl
attribute [local irreducible] SmodelsIn.step in
theorem stepsLoop7_succ (ext : Bool) (f : Nat) (inc : Bool) (a : AS) (acc : List Call) : SmodelsIn.stepsLoop ext (f + 1) inc a acc =
    (match (step ext a).2 with
     | .error l => { calls := acc ++ [.beginStep] ++ (step ext a).1, err := some l }
     | .ok a1 =>
       if (more a1).1 && !inc then { calls := acc ++ [.beginStep] ++ (step ext a).1 ++ [.endStep], err := some (more a1).2.line }
       else if (more a1).1 then SmodelsIn.stepsLoop ext f inc (more a1).2 (acc ++ [.beginStep] ++ (step ext a).1 ++ [.endStep])
       else { calls := acc ++ [.beginStep] ++ (step ext a).1 ++ [.endStep], err := none }) := rfl

theorem stepsLoop7_sound (ext : Bool) : ∀ (f : Nat) (inc : Bool) (a : AS) (acc calls : List Call), (∀ c ∈ a.rest, c ≠ 0) →
    SmodelsIn.stepsLoop ext f inc a acc = { calls := calls, err := none } → ∃ cs, calls = acc ++ cs ∧ Steps7 false ext inc a.rest cs := by
  intro f
  induction f with
  | zero => intro inc a acc calls _ h; rw [stepsLoop7_zero] at h; simp only [Result.mk.injEq] at h; cases h.2
  | succ f ih =>
    intro inc a acc calls hnul h
    rw [stepsLoop7_succ] at h
    cases hr : (step ext a).2 with
    | error l => rw [hr] at h; simp at h
    | ok a1 =>
      rw [hr] at h
      simp only at h
      have hpair : step ext a = ((step ext a).1, .ok a1) := by rw [← hr]
      obtain ⟨w, e1, hd⟩ := step_sound ext a _ a1 hpair
      obtain ⟨ws, e2, hws⟩ := skipWs_inv a1
      have hmore : more a1 = (a1.skipWs.peek != 0, a1.skipWs) := rfl
      rw [hmore] at h
      simp only at h
      by_cases hm : (a1.skipWs.peek != 0) = true
      · by_cases hi : inc = true
        · subst hi
          simp only [hm, Bool.not_true, Bool.and_false, Bool.false_eq_true, ↓reduceIte] at h
          have hnul' : ∀ c ∈ a1.skipWs.rest, c ≠ 0 := by
            intro c hc; apply hnul; rw [e1, e2]; simp [hc]
          obtain ⟨cs2, ec2, hs2⟩ := ih true a1.skipWs _ calls hnul' h
          refine ⟨[.beginStep] ++ (step ext a).1 ++ [.endStep] ++ cs2, by rw [ec2]; simp, ?_⟩
          rw [e1, e2]
          exact Steps7.more hd hws (by intro h; cases h) (skipWs_nws a1) (by simpa [AS.peek] using hm) hs2
        · have : inc = false := by simpa using hi
          subst this
          simp [hm] at h
      · have hm' : (a1.skipWs.peek != 0) = false := by simpa using hm
        simp only [hm', Bool.false_and, Bool.false_eq_true, ↓reduceIte] at h
        have hcalls : calls = acc ++ [.beginStep] ++ (step ext a).1 ++ [.endStep] := by
          cases h; rfl
        have hnil : a1.skipWs.rest = [] := by
          cases hrr : a1.skipWs.rest with
          | nil => rfl
          | cons c r =>
            exfalso
            have hc0 : c = 0 := by simpa [AS.peek, hrr] using hm'
            exact hnul c (by rw [e1, e2, hrr]; simp) hc0
        refine ⟨[.beginStep] ++ (step ext a).1 ++ [.endStep], by rw [hcalls]; simp, ?_⟩
        rw [e1, e2, hnil, List.append_nil]
        exact Steps7.last hd hws

theorem stepsLoop7_complete (ext : Bool) : ∀ (inc : Bool) (w : List Nat) (cs : List Call), Steps7 true ext inc w cs → ∀ (f : Nat) (a : AS) (acc : List Call),
    w.length < f → a.rest = w → SmodelsIn.stepsLoop ext f inc a acc = { calls := acc ++ cs, err := none } := by
  intro inc w cs hs
  induction hs with
  | @last inc w ws cs hd hws =>
    intro f a acc hf hr
    cases f with
    | zero => omega
    | succ f =>
      obtain ⟨a1, e1, r1⟩ := step_complete ext w cs a ws hd hr (filler_nds hws)
      have hsk : a1.skipWs.rest = [] := skipWs_spec a1 ws [] (by simpa using r1) hws (by intro c r e; cases e)
      have hmore : more a1 = (false, a1.skipWs) := by
        show (a1.skipWs.peek != 0, a1.skipWs) = _
        simp [AS.peek, hsk]
      rw [stepsLoop7_succ, e1]
      simp only [hmore, Bool.false_and, Bool.false_eq_true, ↓reduceIte, List.append_assoc]
  | @more w ws rest cs cs' hd hws hne hnw hh0 _ ih =>
    intro f a acc hf hr
    cases f with
    | zero => omega
    | succ f =>
      have hnds : NDS (ws ++ rest) := by
        intro c r e
        cases ws with
        | nil => exact absurd rfl (hne rfl)
        | cons x t => simp only [List.cons_append, List.cons.injEq] at e; rw [← e.1]; exact filler_nds hws x t rfl
      obtain ⟨a1, e1, r1⟩ := step_complete ext w cs a (ws ++ rest) hd hr hnds
      have hsk : a1.skipWs.rest = rest := skipWs_spec a1 ws rest r1 hws hnw
      have hmore : more a1 = (true, a1.skipWs) := by
        show (a1.skipWs.peek != 0, a1.skipWs) = _
        simp only [AS.peek, hsk]
        simpa using hh0
      have hlen := step_pos hd
      have := ih f a1.skipWs (acc ++ [.beginStep] ++ cs ++ [.endStep]) (by simp only [List.length_append] at hf; omega) hsk
      rw [stepsLoop7_succ, e1]
      simp only [hmore, Bool.not_true, Bool.and_false, Bool.false_eq_true, ↓reduceIte]
      rw [this]
      simp

/-- **the smodels grammar**: the text starts with a digit; it is incremental iff it starts with `9` (the `90 0` marker), which needs extensions -/
def Prog7 (s ext : Bool) (t : List Nat) (inc : Bool) (cs : List Call) : Prop :=
  isDigit (t.headD 0) = true ∧ inc = (t.headD 0 == 57) ∧ (inc = true → ext = true) ∧ Steps7 s ext inc t cs

/-- **C07 (completeness)**: every strict smodels text (optionally clasp-extended) — rules of the known types with atoms in 1..2^31-1, counts matched by
    the atoms and weights that follow, bounds and weights within 0..2^31-1, symbol table, both compute sections, optional external section, number
    of models; any layout between the tokens — is accepted, and exactly the denoted rules, outputs, constraints and externals are delivered in order. -/
theorem C07_complete (ext : Bool) (t : List Nat) (inc : Bool) (cs : List Call) (h : Prog7 true ext t inc cs) :
    SmodelsIn.read ext t = { calls := .initProgram inc :: cs, err := none } := by
  obtain ⟨hd, hinc, hext, hs⟩ := h
  have := stepsLoop7_complete ext inc t cs hs ((AS.init t).rest.length + 1) (AS.init t) [.initProgram inc] (by show t.length < t.length + 1; omega) rfl
  unfold SmodelsIn.read
  have hp : (AS.init t).peek = t.headD 0 := rfl
  simp only [hp, hd, Bool.true_and]
  have hc : (!inc || ext) = true := by
    cases inc with
    | false => rfl
    | true => simp [hext rfl]
  simp only [← hinc, hc, ↓reduceIte, this, List.singleton_append]

/-- **C07 (soundness)**: whatever the smodels reader accepts (a text without NUL byte) is a text of the (lenient) smodels grammar, and what it delivers is
    exactly what the text denotes — every number is the written one, inside its field; clasp-extension rule types only with extensions enabled. -/
theorem C07_sound (ext : Bool) (t : List Nat) (calls : List Call) (hnul : ∀ c ∈ t, c ≠ 0) (h : SmodelsIn.read ext t = { calls := calls, err := none }) :
    ∃ inc cs, calls = .initProgram inc :: cs ∧ Prog7 false ext t inc cs := by
  unfold SmodelsIn.read at h
  have hp : (AS.init t).peek = t.headD 0 := rfl
  simp only [hp] at h
  split at h
  · rename_i hc
    simp only [Bool.and_eq_true, Bool.or_eq_true, Bool.not_eq_eq_eq_not, Bool.not_true] at hc
    obtain ⟨cs, ec, hs⟩ := stepsLoop7_sound ext _ _ (AS.init t) _ calls hnul h
    refine ⟨t.headD 0 == 57, cs, by simpa using ec, hc.1, rfl, ?_, hs⟩
    intro hi
    rcases hc.2 with h' | h'
    · rw [hi] at h'; cases h'
    · exact h'
  · simp at h

theorem C07_rejects (ext : Bool) (t : List Nat) (hnul : ∀ c ∈ t, c ≠ 0) (hno : ∀ inc cs, ¬ Prog7 false ext t inc cs) : (SmodelsIn.read ext t).err ≠ none := by
  intro h
  obtain ⟨inc, cs, _, hp⟩ := C07_sound ext t (SmodelsIn.read ext t).calls hnul (by cases hr : SmodelsIn.read ext t; rw [hr] at h; simp at h; subst h; rfl)
  exact hno inc cs hp

/-- clasp-extension rule types are no rules of the grammar unless extensions are enabled -/
theorem C07_ext_rules_need_ext (s : Bool) (rt prio : Nat) (hrt : rt = 90 ∨ rt = 91 ∨ rt = 92) (w : List Nat) (v : Option Call × Nat) : ¬ ruleL false rt prio s w v := by
  rcases hrt with h | h | h <;> subst h <;> simp [ruleL, Choice, Disjunctive, Basic, Cardinality, Weight, Optimize, ClaspIncrement, ClaspAssignExt, ClaspReleaseExt, none']

/-! ### non-vacuity: the empty program `0␤0␤B+␤0␤B-␤0␤1␤` is a strict smodels text; a program with a rule and a symbol is accepted and lenient -/
theorem tok0 (lead : Bool) (m : Nat) (ws : List Nat) (hws : Filler ws) (d : Nat) (hd : isDigit d = true) (n : Nat) (hn : (n : Int) = C03.denoted .none [d])
    (hm : n ≤ m) (hl : lead = true → ws ≠ []) : numN true lead m (ws ++ [d]) n :=
  ⟨ws, .none, [d], by simp [Sign.text], hws, ⟨by simp, by intro c hc; simp at hc; subst hc; exact hd⟩, hn, by omega, by omega, fun _ h => Or.inl (hl h)⟩

def exEmpty : List Nat := [48, 10, 48, 10, 66, 43, 10, 48, 10, 66, 45, 10, 48, 10, 49, 10]

example : Prog7 true false exEmpty false [.beginStep, .endStep] := by
  have hf10 : Filler [10] := by intro c hc; simp at hc; subst hc; rfl
  have hfn : Filler ([] : List Nat) := by intro c hc; cases hc
  refine ⟨rfl, rfl, (by intro h; cases h), ?_⟩
  have hstep : Step true false ([48] ++ (([10] ++ [48]) ++ (([10] ++ (kwBp ++ ([10] ++ ([] ++ [48])))) ++ (([10] ++ (kwBm ++ ([10] ++ ([] ++ [48])))) ++ ([10] ++ [49]))))) ([] ++ [] ++ [] ++ [] ++ []) := by
    refine ⟨_, _, _, _, _, [], [], [], [], [], rfl, rfl, Rules.done ?_, Syms.done ?_, ⟨[10], [10], [] ++ [48], rfl, hf10, Or.inl rfl, Atoms0.done ?_⟩,
      ⟨[10], [10], [] ++ [48], rfl, hf10, Or.inl rfl, Atoms0.done ?_⟩, Or.inr ⟨1, ?_, rfl⟩⟩
    · exact tok0 false _ [] hfn 48 rfl 0 rfl (by decide) (by intro h; cases h)
    · exact tok0 true _ [10] hf10 48 rfl 0 rfl (by decide) (by intro _ h; cases h)
    · exact tok0 false _ [] hfn 48 rfl 0 rfl (by decide) (by intro h; cases h)
    · exact tok0 false _ [] hfn 48 rfl 0 rfl (by decide) (by intro h; cases h)
    · exact tok0 true _ [10] hf10 49 rfl 1 rfl (by decide) (by intro _ h; cases h)
  exact Steps7.last (ws := [10]) hstep hf10

def exFact : List Nat := [49, 32, 49, 32, 48, 32, 48, 10, 48, 10, 49, 32, 97, 10, 48, 10, 66, 43, 10, 48, 10, 66, 45, 10, 48, 10, 49, 10]
example : SmodelsIn.read false exFact = { calls := [.initProgram false, .beginStep, .rule 0 [1] [], .output [97] [1], .endStep], err := none } := by decide +kernel
example : ∃ inc cs, Prog7 false false exFact inc cs := by
  obtain ⟨inc, cs, _, h⟩ := C07_sound false exFact _ (by decide) (by decide +kernel : SmodelsIn.read false exFact = { calls := [.initProgram false, .beginStep, .rule 0 [1] [], .output [97] [1], .endStep], err := none })
  exact ⟨inc, cs, h⟩

end PotasscoVerif.C07
