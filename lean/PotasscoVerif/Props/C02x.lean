/-
  C02 (continued) — externals passed on with the clasp extension.
  With the extension switched on the converter does not compile external directives away: at the end of the step it emits
  `external(image, value)` for every pending external.  `C02_externals_passed`: those calls are exactly the pending externals
  (atoms that no rule had defined when they were declared), each with the image of its atom and the LAST value declared for it.
  `C02_stable_models_ext`: reading the emitted external calls the way the given ones are read (`progOf`: an external on an atom no rule
  defines is a fact / a choice / nothing), the emitted program has the same answer sets as the given one, one to one under the atom map —
  for every step of rules, minimize, output, edge, heuristic and external directives; no restriction on the externals any more.
-/
import PotasscoVerif.Props.C02sem
import PotasscoVerif.Lemmas.ConvertExt
namespace PotasscoVerif.C02
open PotasscoVerif PotasscoVerif.Convert PotasscoVerif.Asp

/-- everything about one step converted with the extension on, from the invariants before `endStep` -/
theorem step_ext_of (inc : Bool) (ds : List Call) (hx : ∀ d ∈ ds, PlainOk d) {defs : List (Nat × Body)}
    (h1 : J (preEnd true inc ds) ((rulesOf ds).filter kept) defs) (x1 : XI (preEnd true inc ds) (({} : T).run ds)) :
    J (convert true (stepCalls inc ds)) ((rulesOf ds).filter kept) defs ∧
      extCalls (convert true (stepCalls inc ds)).out =
        (preEnd true inc ds).externs.map (fun a => (finalMap (convert true (stepCalls inc ds)) a, ex (preEnd true inc ds) a)) ∧
      FlushShape (preEnd true inc ds).flushMinimize ∧ Steps (abs (preEnd true inc ds)) (abs (convert true (stepCalls inc ds))) := by
  have he : (preEnd true inc ds).ext = true := preEnd_ext true inc ds hx
  have hF : J (convert true (stepCalls inc ds)) ((rulesOf ds).filter kept) defs := by
    rw [convert_step, apply_end _ h1.nofail]
    exact (h1.flushT x1.m he).emit _ rfl
  obtain ⟨g1, g2, g3⟩ := flushMinimize_flags (preEnd true inc ds)
  have hshape : FlushShape (preEnd true inc ds).flushMinimize := by
    refine ⟨extCallsT (preEnd true inc ds).flushMinimize, flushExternal_specT _ (g3.trans he) (fun a ha => dom_find _ a ?_), ?_, ?_⟩
    · exact dom_mono (flushMinimize_steps _) h1.inv a (x1.m a (g2 ▸ ha))
    · unfold extCallsT outsOf
      induction (preEnd true inc ds).flushMinimize.externs with
      | nil => rfl
      | cons a r ih => simpa [outOf] using ih
    · unfold extCallsT minsOf
      induction (preEnd true inc ds).flushMinimize.externs with
      | nil => rfl
      | cons a r ih => simpa [minOf] using ih
  have hst : Steps (abs (preEnd true inc ds)) (abs (convert true (stepCalls inc ds))) := by
    rw [convert_step]; exact apply_steps _ _
  refine ⟨hF, ?_, hshape, hst⟩
  have h0 := preEnd_noExt true inc ds hx
  have hfl := flush_extCalls (preEnd true inc ds) he x1.m h1.inv h0
  rw [convert_step, apply_end _ h1.nofail, hfl]
  apply List.map_congr_left
  intro a ha
  -- the image recorded when the minimize statements have been flushed is the final image
  have hs1 : Steps (abs (preEnd true inc ds).flushMinimize) (abs ((preEnd true inc ds).flush.emit .endStep)) := by
    have h := (flushExternal_steps (preEnd true inc ds).flushMinimize).trans ((flushHeuristic_steps _).trans (flushSymbols_steps _))
    exact h
  have hi1 : Inv (abs (preEnd true inc ds).flushMinimize) := steps_inv' (flushMinimize_steps _) h1.inv
  have hF' : J ((preEnd true inc ds).flush.emit .endStep) ((rulesOf ds).filter kept) defs := by
    rw [← apply_end _ h1.nofail, ← convert_step]; exact hF
  have hag : Agree (preEnd true inc ds).flushMinimize (finalMap ((preEnd true inc ds).flush.emit .endStep)) :=
    agree_back hs1 hi1 (agree_final _ hF'.inv)
  have hd1 : a ∈ domOf (preEnd true inc ds).flushMinimize := dom_mono (flushMinimize_steps _) h1.inv a (x1.m a ha)
  rw [sm_agree _ hi1 _ hag a hd1]

theorem step_all_ext (inc : Bool) (ds : List Call) (hx : ∀ d ∈ ds, PlainOk d) :
    ∃ defs, J (convert true (stepCalls inc ds)) ((rulesOf ds).filter kept) defs ∧
      XI (preEnd true inc ds) (({} : T).run ds) ∧
      extCalls (convert true (stepCalls inc ds)).out =
        (preEnd true inc ds).externs.map (fun a => (finalMap (convert true (stepCalls inc ds)) a, ex (preEnd true inc ds) a)) ∧
      J (preEnd true inc ds) ((rulesOf ds).filter kept) defs ∧ K (preEnd true inc ds) (srcOuts ds) defs ∧ M (preEnd true inc ds) (minsOf ds) ∧
      FlushShape (preEnd true inc ds).flushMinimize ∧ Steps (abs (preEnd true inc ds)) (abs (convert true (stepCalls inc ds))) := by
  obtain ⟨defs, h1, k1, m1, x1⟩ := JKM.pre true inc ds hx
  obtain ⟨a, b, c, d⟩ := step_ext_of inc ds hx h1 x1
  exact ⟨defs, a, x1, b, h1, k1, m1, c, d⟩

/-- **C02 (externals passed on)**: with the extension on, the external calls of the emitted step are exactly the pending externals of the
    given step — the atoms declared external while no rule had defined them, in the order of declaration —, each as (image of the atom,
    last value declared for it) -/
theorem C02_externals_passed (inc : Bool) (ds : List Call) (hx : ∀ d ∈ ds, PlainOk d) :
    extCalls (convert true (stepCalls inc ds)).out =
      ((({} : T).run ds).regs).map (fun a => (finalMap (convert true (stepCalls inc ds)) a, (({} : T).run ds).val a)) := by
  obtain ⟨defs, _, x1, hE, _⟩ := step_all_ext inc ds hx
  rw [hE, x1.r]
  apply List.map_congr_left
  intro a _
  rw [x1.v a]

theorem headsOf_mem (ds : List Call) (a : Nat) : a ∈ headsOf ds ↔ ∃ r ∈ (rulesOf ds).filter kept, a ∈ r.head := by
  simp only [headsOf, List.mem_flatMap, List.mem_filter]
  constructor
  · rintro ⟨r, hr, ha⟩
    refine ⟨r, ⟨hr, ?_⟩, ha⟩
    unfold kept
    cases hh : r.head with
    | nil => rw [hh] at ha; cases ha
    | cons x xs => simp
  · rintro ⟨r, ⟨hr, _⟩, ha⟩; exact ⟨r, hr, ha⟩

/-- the ingredients of `C02_stable_models_ext` in one place: the final invariant, and the translation with the externals' rules on both sides -/
theorem trans_ext_of (inc : Bool) (ds : List Call) (hx : ∀ d ∈ ds, PlainOk d) {defs : List (Nat × Body)}
    (h0 : J (preEnd true inc ds) ((rulesOf ds).filter kept) defs) (x1 : XI (preEnd true inc ds) (({} : T).run ds)) :
    J (convert true (stepCalls inc ds)) ((rulesOf ds).filter kept) defs ∧
      Trans (ctxOf (convert true (stepCalls inc ds)) defs) ((rulesOf ds).filter kept ++ extRules ds) (progOf (convert true (stepCalls inc ds)).out) ∧
      FlushShape (preEnd true inc ds).flushMinimize ∧ Steps (abs (preEnd true inc ds)) (abs (convert true (stepCalls inc ds))) := by
  obtain ⟨hj, hE, hshape, hst⟩ := step_ext_of inc ds hx h0 x1
  have ok := ctx_ok hj
  have tr := ctx_trans hj
  have hdom : ∀ a ∈ (preEnd true inc ds).externs, a ∈ (ctxOf (convert true (stepCalls inc ds)) defs).dom :=
    fun a ha => dom_mono hst h0.inv a (x1.m a ha)
  have hH : (({} : T).run ds).heads = headsOf ds := by rw [run_heads]; rfl
  have hhd : ∀ a ∈ (preEnd true inc ds).externs, hd (preEnd true inc ds) a = true ↔ ∃ r ∈ (rulesOf ds).filter kept, a ∈ r.head := by
    intro a _
    rw [x1.h a, hH, List.contains_iff_mem]
    exact headsOf_mem ds a
  have hout := extRules_out (ctxOf (convert true (stepCalls inc ds)) defs) ok _ _ tr (preEnd true inc ds).externs hdom
    (hd (preEnd true inc ds)) (ex (preEnd true inc ds)) hE hhd
  rw [← extP_eq, extP_decl _ ds x1] at hout
  have hQ : ∀ r ∈ extRules ds, (∀ a ∈ r.head, a ∈ (ctxOf (convert true (stepCalls inc ds)) defs).dom) ∧
      (∀ a ∈ r.body.atoms, a ∈ (ctxOf (convert true (stepCalls inc ds)) defs).dom) ∧ r.body.Ok := by
    intro r hr
    rw [← extP_decl _ ds x1] at hr
    unfold extP at hr
    rcases List.mem_append.mp hr with h | h
    · obtain ⟨a, ha, rfl⟩ := List.mem_map.mp h
      refine ⟨?_, by intro b hb; simp [Body.atoms] at hb, by intro l hl; cases hl⟩
      intro b hb; simp only [List.mem_singleton] at hb; subst hb
      exact hdom b (List.mem_filter.mp ha).1
    · split at h
      · cases h
      · simp only [List.mem_singleton] at h; subst h
        refine ⟨?_, by intro b hb; simp [Body.atoms] at hb, by intro l hl; cases hl⟩
        intro b hb; exact hdom b (List.mem_filter.mp hb).1
  have tr2 := PotasscoVerif.C02.Trans.append_ren tr (extRules ds) hQ
  rw [← hout] at tr2
  exact ⟨hj, tr2, hshape, hst⟩

theorem trans_ext (inc : Bool) (ds : List Call) (hx : ∀ d ∈ ds, PlainOk d) :
    ∃ defs, J (convert true (stepCalls inc ds)) ((rulesOf ds).filter kept) defs ∧
      Trans (ctxOf (convert true (stepCalls inc ds)) defs) ((rulesOf ds).filter kept ++ extRules ds) (progOf (convert true (stepCalls inc ds)).out) ∧
      J (preEnd true inc ds) ((rulesOf ds).filter kept) defs ∧ K (preEnd true inc ds) (srcOuts ds) defs ∧ M (preEnd true inc ds) (minsOf ds) ∧
      FlushShape (preEnd true inc ds).flushMinimize ∧ Steps (abs (preEnd true inc ds)) (abs (convert true (stepCalls inc ds))) := by
  obtain ⟨defs, h1, k1, m1, x1⟩ := JKM.pre true inc ds hx
  obtain ⟨a, b, c, d⟩ := trans_ext_of inc ds hx h1 x1
  exact ⟨defs, a, b, h1, k1, m1, c, d⟩

/-- **C02 (answer sets, externals passed on with the extension)**.  For every program step made of rules (all head kinds, normal and weight
    bodies), minimize statements, output, edge and heuristic directives and ANY external directives, converted with the clasp extension on:
    reading the external calls of the emitted step as those of the given step are read (`progOf`), there is an extension `E` of
    interpretations to the auxiliary atoms such that the stable models of the given step and those of the emitted step in which the false
    atom `1` is false correspond one to one under `E` and the restriction to the mapped atoms. -/
theorem C02_stable_models_ext (inc : Bool) (ds : List Call) (hx : ∀ d ∈ ds, PlainOk d) :
    ∃ E : I → I,
      (∀ X, Stable (progOf ds) X →
        Stable (progOf (convert true (stepCalls inc ds)).out) (E X) ∧ E X 1 = false ∧ restrict (convert true (stepCalls inc ds)) (E X) = X) ∧
      (∀ X', Stable (progOf (convert true (stepCalls inc ds)).out) X' → X' 1 = false →
        Stable (progOf ds) (restrict (convert true (stepCalls inc ds)) X') ∧ E (restrict (convert true (stepCalls inc ds)) X') = X') := by
  obtain ⟨defs, hj, tr2, _⟩ := trans_ext inc ds hx
  have ok := ctx_ok hj
  refine ⟨fun X => (ctxOf (convert true (stepCalls inc ds)) defs).E X X, ?_, ?_⟩
  · intro X hs
    have hs' := (stable_filter_kept_app _ _ X).mpr hs
    obtain ⟨h1, h2, h3⟩ := translation_stable ok tr2 hs'
    refine ⟨h1, h2, ?_⟩
    rw [restrict_eq _ hj.inv defs]; exact h3
  · intro X' hs h1
    obtain ⟨h2, h3⟩ := translation_stable_back ok tr2 X' hs h1
    rw [restrict_eq _ hj.inv defs]
    exact ⟨(stable_filter_kept_app _ _ _).mp h2, h3.symm⟩

/-- **C02 (answer sets and shown symbols, externals passed on)**: `C02_stable_models_ext` with the same extension `E`, and under corresponding
    answer sets exactly the same symbol names are shown (steps without heuristic directives, as in `C02_equivalence`) -/
theorem C02_equivalence_ext (inc : Bool) (ds : List Call) (hx : ∀ d ∈ ds, PlainOk d) (hnh : ∀ d ∈ ds, isHeu d = false) :
    ∃ E : I → I,
      (∀ X, Stable (progOf ds) X →
        Stable (progOf (convert true (stepCalls inc ds)).out) (E X) ∧ E X 1 = false ∧ restrict (convert true (stepCalls inc ds)) (E X) = X) ∧
      (∀ X', Stable (progOf (convert true (stepCalls inc ds)).out) X' → X' 1 = false →
        Stable (progOf ds) (restrict (convert true (stepCalls inc ds)) X') ∧ E (restrict (convert true (stepCalls inc ds)) X') = X') ∧
      (∀ X name, shown ds X name ↔ shownOut (convert true (stepCalls inc ds)).out (E X) name) := by
  obtain ⟨defs, hj, tr2, hj0, hk, hM, hshape, hst⟩ := trans_ext inc ds hx
  have hpi := hj0.inv
  have ok := ctx_ok hj
  refine ⟨fun X => (ctxOf (convert true (stepCalls inc ds)) defs).E X X, ?_, ?_, ?_⟩
  · intro X hs
    have hs' := (stable_filter_kept_app _ _ X).mpr hs
    obtain ⟨h1, h2, h3⟩ := translation_stable ok tr2 hs'
    refine ⟨h1, h2, ?_⟩
    rw [restrict_eq _ hj.inv defs]; exact h3
  · intro X' hs h1
    obtain ⟨h2, h3⟩ := translation_stable_back ok tr2 X' hs h1
    rw [restrict_eq _ hj.inv defs]
    exact ⟨(stable_filter_kept_app _ _ _).mp h2, h3.symm⟩
  · intro X name
    have houts : outsOf (convert true (stepCalls inc ds)).out = (sortSyms (preEnd true inc ds).output).map (fun p => (p.2, [(p.1 : Int)])) := by
      rw [convert_step]; exact final_outs _ hj0.nofail hshape (preEnd_noheur true inc ds hx hnh) hk.noout
    unfold shown shownOut
    rw [houts]
    constructor
    · rintro ⟨cond, hm, hb⟩
      obtain ⟨n, hn, hrep⟩ := hk.fwd (name, cond) hm
      have hrep' := hrep.mono hst hpi (fun d hd => hd)
      refine ⟨[(n : Int)], ?_, ?_⟩
      · simp only [List.mem_map]
        exact ⟨(n, name), (mem_sortSyms _ _).mpr hn, rfl⟩
      · rw [rep_val hj X n cond hrep']; exact hb
    · rintro ⟨c', hm, hb⟩
      simp only [List.mem_map] at hm
      obtain ⟨p, hp, he⟩ := hm
      have hp' := (mem_sortSyms _ _).mp hp
      obtain ⟨cond, hc, hrep⟩ := hk.bwd p hp'
      have hrep' := hrep.mono hst hpi (fun d hd => hd)
      have e1 : name = p.2 := (Prod.mk.inj he).1.symm
      have e2 : c' = [(p.1 : Int)] := (Prod.mk.inj he).2.symm
      subst e1 e2
      exact ⟨cond, hc, by rw [← rep_val hj X p.1 cond hrep']; exact hb⟩

/-- **C02 (optimisation, externals passed on)**: as `C02_cost`, with the extension on and any externals -/
theorem C02_cost_ext (inc : Bool) (ds : List Call) (hx : ∀ d ∈ ds, PlainOk d) (hnh : ∀ d ∈ ds, isHeu d = false) :
    ∃ E : I → I,
      (∀ X, Stable (progOf ds) X →
        Stable (progOf (convert true (stepCalls inc ds)).out) (E X) ∧ E X 1 = false ∧ restrict (convert true (stepCalls inc ds)) (E X) = X) ∧
      (∀ X', Stable (progOf (convert true (stepCalls inc ds)).out) X' → X' 1 = false → E (restrict (convert true (stepCalls inc ds)) X') = X') ∧
      (∀ X p, costAt (convert true (stepCalls inc ds)).out p (E X) = costAt ds p X - negM (minsOf ds) p) := by
  obtain ⟨defs, hj, tr2, hj0, hk, hM, hshape, hst⟩ := trans_ext inc ds hx
  have ok := ctx_ok hj
  refine ⟨fun X => (ctxOf (convert true (stepCalls inc ds)) defs).E X X, ?_, ?_, ?_⟩
  · intro X hs
    have hs' := (stable_filter_kept_app _ _ X).mpr hs
    obtain ⟨h1, h2, h3⟩ := translation_stable ok tr2 hs'
    refine ⟨h1, h2, ?_⟩
    rw [restrict_eq _ hj.inv defs]; exact h3
  · intro X' hs h1
    obtain ⟨h2, h3⟩ := translation_stable_back ok tr2 X' hs h1
    rw [restrict_eq _ hj.inv defs]
    exact h3.symm
  · intro X p
    have hcs := convert_step true inc ds
    have hag : Agree ((preEnd true inc ds).apply .endStep) (finalMap (convert true (stepCalls inc ds))) := by
      rw [← hcs]; exact agree_final _ hj.inv
    obtain ⟨g1, g2⟩ := final_mins _ hj0.nofail hshape (preEnd_noheur true inc ds hx hnh) hM.nomin hj0.inv _ hag
    rw [← hcs] at g1 g2
    unfold costAt
    rw [g1]
    have := costM_ren ok X (preEnd true inc ds).minimize (fun pl hpl q hq => ⟨hM.nz pl hpl q hq, g2 pl hpl q hq⟩) p
    refine this.trans ?_
    rw [hM.cost X p]
    apply costM_flip
    intro pl hpl q hq
    have hmem : ∃ d ∈ ds, minOf d = some pl := by
      simp only [minsOf, List.mem_filterMap] at hpl; exact hpl
    obtain ⟨d, hd, he⟩ := hmem
    cases d with
    | minimize prio lits =>
      simp only [minOf, Option.some.injEq] at he
      subst he
      exact ((hx _ hd) q hq).1
    | _ => simp [minOf] at he

/-! non-vacuity: a step with externals of all four values, one of them on an atom a later rule defines, one declared twice -/
def exExt : List Call :=
  [.external 1 1, .external 2 0, .external 3 2, .external 4 3, .external 5 1, .external 2 1, .rule 0 [5] [1, -2], .rule 1 [6] [3], .output [97] [5]]

example : ∀ d ∈ exExt, PlainOk d := by
  intro d hd
  simp only [exExt, List.mem_cons, List.not_mem_nil, or_false] at hd
  rcases hd with rfl | rfl | rfl | rfl | rfl | rfl | rfl | rfl | rfl <;> simp [PlainOk]

example : extCalls (convert true (stepCalls false exExt)).out = [(2, 1), (3, 1), (4, 2), (5, 3), (6, 1), (3, 1)] := by decide +kernel

end PotasscoVerif.C02
