/-
  C16 (continued) — texts in the other bases and the keywords.
  `C16_hex_signed/_unsigned`, `C16_octal_signed/_unsigned`, `C16_decimal_unsigned`: a text made of the base prefix,
  a digit string of ANY length and a character that is no digit of the base is accepted for a type iff the number it
  denotes in that base lies in the type's range; then the value is exactly that number and the end position is right
  behind the digits.  `C16_keywords_*`: `imax`, `imin`, `umax`, `-1`.
-/
import PotasscoVerif.Props.C16
namespace PotasscoVerif.C16
open PotasscoVerif.StringConvert

/-- value of a digit string in a base (digits as `digitOf` reads them) -/
def valB (base : Nat) : List Nat → Nat → Nat
  | [], acc => acc
  | c :: r, acc => valB base r (acc * base + (digitOf base c).getD 0)

/-- the continuation does not start with a digit of the base -/
def NoDig (base : Nat) (k : List Nat) : Prop := ∀ c r, k = c :: r → digitOf base c = none

theorem digitsB_gen (base : Nat) : ∀ (ds k : List Nat) (acc cnt : Nat), (∀ c ∈ ds, (digitOf base c).isSome = true) → NoDig base k →
    digitsB base (ds ++ k) acc cnt = (valB base ds acc, cnt + ds.length, k) := by
  intro ds
  induction ds with
  | nil =>
    intro k acc cnt _ hk
    cases k with
    | nil => rfl
    | cons c r => simp [digitsB, hk c r rfl, valB]
  | cons d ds ih =>
    intro k acc cnt hd hk
    have h1 := hd d (by simp)
    obtain ⟨v, hv⟩ := Option.isSome_iff_exists.mp h1
    simp only [List.cons_append, digitsB, hv, valB, Option.getD_some]
    rw [ih k _ _ (fun c hc => hd c (by simp [hc])) hk]
    simp; omega

/-- a leading zero does not change the value -/
theorem valB_zero (base : Nat) (hb : 0 < base) (ds : List Nat) : valB base (48 :: ds) 0 = valB base ds 0 := by
  have : digitOf base 48 = some 0 := by unfold digitOf; simp [hb]
  simp [valB, this]

def HexX (c : Nat) : Prop := c = 120 ∨ c = 88

/-- `strto` on `0x<hex digits><no hex digit>` -/
theorem strto_hex (xc : Nat) (hx : HexX xc) (ds k : List Nat) (hds : ∀ c ∈ ds, (digitOf 16 c).isSome = true) (hne : ds ≠ []) (hk : NoDig 16 k) :
    strto (48 :: xc :: (ds ++ k)) 16 = { neg := false, mag := valB 16 ds 0, used := 2 + ds.length } := by
  obtain ⟨d, r, e⟩ : ∃ d r, ds = d :: r := by
    cases ds with
    | nil => exact absurd rfl hne
    | cons d r => exact ⟨d, r, rfl⟩
  have hd := hds d (by rw [e]; simp)
  have hsp : (48 :: xc :: (ds ++ k)).takeWhile isSpace = [] := by simp [List.takeWhile, isSpace]
  have hsign : splitSign (48 :: xc :: (ds ++ k)) = (false, 0, 48 :: xc :: (ds ++ k)) := by simp [splitSign]
  have hpre : splitPrefix 16 (48 :: xc :: (ds ++ k)) = (2, ds ++ k) := by
    rw [e]; simp only [List.cons_append, splitPrefix]
    have : (xc == 120 || xc == 88) = true := by rcases hx with h | h <;> simp [h]
    simp [this, hd]
  have hdig := digitsB_gen 16 ds k 0 0 hds hk
  have hlen : ds.length ≠ 0 := by rw [e]; simp
  unfold strto
  simp only [hsp, List.length_nil, List.drop_zero, hsign, hpre, hdig]
  simp [hlen]

def Oct (c : Nat) : Prop := 48 ≤ c ∧ c ≤ 55

theorem digitOf8 (c : Nat) (h : Oct c) : (digitOf 8 c).isSome = true := by
  unfold digitOf
  have h1 : 48 ≤ c ∧ c ≤ 57 := ⟨h.1, by have := h.2; omega⟩
  have h2 : c - 48 < 8 := by have := h.1; have := h.2; omega
  simp [h1, h2]

/-- `strto` on `0<octal digits><no octal digit>` -/
theorem strto_octal (ds k : List Nat) (hds : ∀ c ∈ ds, Oct c) (hk : NoDig 8 k) :
    strto (48 :: (ds ++ k)) 8 = { neg := false, mag := valB 8 ds 0, used := 1 + ds.length } := by
  have hsp : (48 :: (ds ++ k)).takeWhile isSpace = [] := by simp [List.takeWhile, isSpace]
  have hsign : splitSign (48 :: (ds ++ k)) = (false, 0, 48 :: (ds ++ k)) := by simp [splitSign]
  have hpre : splitPrefix 8 (48 :: (ds ++ k)) = (0, 48 :: (ds ++ k)) := by
    unfold splitPrefix; split <;> simp
  have hdig := digitsB_gen 8 (48 :: ds) k 0 0 (by
    intro c hc
    rcases List.mem_cons.mp hc with h | h
    · subst h; exact digitOf8 48 ⟨by omega, by omega⟩
    · exact digitOf8 c (hds c h)) hk
  rw [valB_zero 8 (by omega)] at hdig
  unfold strto
  simp only [hsp, List.length_nil, List.drop_zero, hsign, hpre]
  rw [show 48 :: (ds ++ k) = (48 :: ds) ++ k from rfl, hdig]
  simp; omega

theorem startsWith_ne (c0 : Nat) (r0 : List Nat) (p0 : Nat) (p : List Nat) (h : p0 ≠ c0) : startsWith (c0 :: r0) (p0 :: p) = false := by
  unfold startsWith; simp [List.isPrefixOf, h]

/-- the range test shared by all the acceptance theorems for signed types -/
theorem signed_range (V : Int) (lo hi : Int) (hlo : LLMIN ≤ lo) (hhi : hi ≤ LLMAX) (n : Nat) (hn : n ≠ 0) :
    (if V < LLMIN ∨ V > LLMAX then none else if (n == 0) = true ∨ V < lo ∨ V > hi then none else some (V, n))
      = (if lo ≤ V ∧ V ≤ hi then some (V, n) else none) := by
  have hnb : (n == 0) = false := by simpa using hn
  simp only [hnb, Bool.false_eq_true, false_or]
  by_cases hin : lo ≤ V ∧ V ≤ hi
  · have h1 : ¬ (V < LLMIN ∨ V > LLMAX) := by omega
    have h2 : ¬ (V < lo ∨ V > hi) := by omega
    simp only [h1, h2, hin, ↓reduceIte, and_self]
  · by_cases h1 : V < LLMIN ∨ V > LLMAX
    · simp only [h1, hin, ↓reduceIte]
    · have h2 : (V < lo ∨ V > hi) := by omega
      simp only [h1, h2, hin, ↓reduceIte]

/-- **hexadecimal texts, signed types**: accepted iff the denoted number fits; exact; end right behind the digits -/
theorem C16_hex_signed (xc : Nat) (hx : HexX xc) (ds k : List Nat) (lo hi : Int)
    (hds : ∀ c ∈ ds, (digitOf 16 c).isSome = true) (hne : ds ≠ []) (hk : NoDig 16 k) (hlo : LLMIN ≤ lo) (hhi : hi ≤ LLMAX) :
    parseSigned (48 :: xc :: (ds ++ k)) lo hi =
      (if lo ≤ (valB 16 ds 0 : Int) ∧ (valB 16 ds 0 : Int) ≤ hi then some ((valB 16 ds 0 : Int), 2 + ds.length) else none) := by
  have hb : detectBase (48 :: xc :: (ds ++ k)) = 16 := by
    unfold detectBase; rcases hx with h | h <;> simp [h]
  unfold parseSigned
  rw [hb, strto_hex xc hx ds k hds hne hk]
  simp only [List.isEmpty_cons, Bool.false_eq_true, ↓reduceIte, startsWith_ne 48 _ 105 _ (by omega), Bool.false_and]
  exact signed_range _ lo hi hlo hhi (2 + ds.length) (by omega)

/-- **octal texts, signed types** (`0` followed by octal digits) -/
theorem C16_octal_signed (ds k : List Nat) (lo hi : Int) (hds : ∀ c ∈ ds, Oct c) (hne : ds ≠ []) (hk : NoDig 8 k)
    (hlo : LLMIN ≤ lo) (hhi : hi ≤ LLMAX) :
    parseSigned (48 :: (ds ++ k)) lo hi =
      (if lo ≤ (valB 8 ds 0 : Int) ∧ (valB 8 ds 0 : Int) ≤ hi then some ((valB 8 ds 0 : Int), 1 + ds.length) else none) := by
  obtain ⟨d, r, e⟩ : ∃ d r, ds = d :: r := by
    cases ds with
    | nil => exact absurd rfl hne
    | cons d r => exact ⟨d, r, rfl⟩
  have hd := hds d (by rw [e]; simp)
  have hb : detectBase (48 :: (ds ++ k)) = 8 := by
    rw [e]; unfold detectBase
    have h1 : ¬ (d = 120 ∨ d = 88) := by have := hd.2; omega
    simp only [List.cons_append, Bool.or_eq_true, beq_iff_eq, h1, ↓reduceIte, hd.1, hd.2, and_self]
  unfold parseSigned
  rw [hb, strto_octal ds k hds hk]
  simp only [List.isEmpty_cons, Bool.false_eq_true, ↓reduceIte, startsWith_ne 48 _ 105 _ (by omega), Bool.false_and]
  exact signed_range _ lo hi hlo hhi (1 + ds.length) (by omega)

/-- the range test shared by the acceptance theorems for unsigned types -/
theorem unsigned_range (V uMax : Nat) (hmax : uMax ≤ ULLMAX) (n : Nat) (hn : n ≠ 0) :
    (if V > ULLMAX then none else if (n == 0) = true ∨ V > uMax then (none : Option (Nat × Nat)) else some (V, n))
      = (if V ≤ uMax then some (V, n) else none) := by
  have hnb : (n == 0) = false := by simpa using hn
  simp only [hnb, Bool.false_eq_true, false_or]
  by_cases hin : V ≤ uMax
  · have h1 : ¬ (V > ULLMAX) := by omega
    have h2 : ¬ (V > uMax) := by omega
    simp only [h1, h2, hin, ↓reduceIte]
  · by_cases h1 : V > ULLMAX
    · simp only [h1, hin, ↓reduceIte]
    · have h2 : V > uMax := by omega
      simp only [h1, h2, hin, ↓reduceIte]

theorem parseUnsigned_zero_start (r : List Nat) (uMax : Nat) :
    parseUnsigned (48 :: r) uMax =
      (let s := strto (48 :: r) (detectBase (48 :: r))
       let v : Nat := if s.neg then (ULLMAX + 1 - s.mag % (ULLMAX + 1)) % (ULLMAX + 1) else s.mag
       if s.mag > ULLMAX then none else if s.used == 0 ∨ v > uMax then none else some (v, s.used)) := by
  unfold parseUnsigned
  simp only [show ((48 : Nat) == 45) = false from rfl, Bool.false_and, Bool.false_eq_true, ↓reduceIte,
    startsWith_ne 48 r 105 _ (by omega), startsWith_ne 48 r 117 _ (by omega), startsWith_ne 48 r 45 _ (by omega)]

/-- **hexadecimal texts, unsigned types** -/
theorem C16_hex_unsigned (xc : Nat) (hx : HexX xc) (ds k : List Nat) (uMax : Nat)
    (hds : ∀ c ∈ ds, (digitOf 16 c).isSome = true) (hne : ds ≠ []) (hk : NoDig 16 k) (hmax : uMax ≤ ULLMAX) :
    parseUnsigned (48 :: xc :: (ds ++ k)) uMax = (if valB 16 ds 0 ≤ uMax then some (valB 16 ds 0, 2 + ds.length) else none) := by
  have hb : detectBase (48 :: xc :: (ds ++ k)) = 16 := by
    unfold detectBase; rcases hx with h | h <;> simp [h]
  rw [parseUnsigned_zero_start, hb, strto_hex xc hx ds k hds hne hk]
  simp only [Bool.false_eq_true, ↓reduceIte]
  exact unsigned_range _ uMax hmax (2 + ds.length) (by omega)

/-- **octal texts, unsigned types** -/
theorem C16_octal_unsigned (ds k : List Nat) (uMax : Nat) (hds : ∀ c ∈ ds, Oct c) (hne : ds ≠ []) (hk : NoDig 8 k) (hmax : uMax ≤ ULLMAX) :
    parseUnsigned (48 :: (ds ++ k)) uMax = (if valB 8 ds 0 ≤ uMax then some (valB 8 ds 0, 1 + ds.length) else none) := by
  obtain ⟨d, r, e⟩ : ∃ d r, ds = d :: r := by
    cases ds with
    | nil => exact absurd rfl hne
    | cons d r => exact ⟨d, r, rfl⟩
  have hd := hds d (by rw [e]; simp)
  have hb : detectBase (48 :: (ds ++ k)) = 8 := by
    rw [e]; unfold detectBase
    have h1 : ¬ (d = 120 ∨ d = 88) := by have := hd.2; omega
    simp only [List.cons_append, Bool.or_eq_true, beq_iff_eq, h1, ↓reduceIte, hd.1, hd.2, and_self]
  rw [parseUnsigned_zero_start, hb, strto_octal ds k hds hk]
  simp only [Bool.false_eq_true, ↓reduceIte]
  exact unsigned_range _ uMax hmax (1 + ds.length) (by omega)

/-! ### keywords -/
theorem C16_keyword_imax (k : List Nat) (lo hi : Int) (h : hi ≠ 0) : parseSigned ([105, 109, 97, 120] ++ k) lo hi = some (hi, 4) := by
  unfold parseSigned
  have : (hi != 0) = true := by simpa using h
  simp [startsWith, List.isPrefixOf, this]

theorem C16_keyword_imin (k : List Nat) (lo hi : Int) (h : lo ≠ 0) : parseSigned ([105, 109, 105, 110] ++ k) lo hi = some (lo, 4) := by
  unfold parseSigned
  have : (lo != 0) = true := by simpa using h
  simp [startsWith, List.isPrefixOf, this]

theorem C16_keyword_umax (k : List Nat) (uMax : Nat) : parseUnsigned ([117, 109, 97, 120] ++ k) uMax = some (uMax, 4) := by
  simp [parseUnsigned, startsWith, List.isPrefixOf]

theorem C16_keyword_minus_one (k : List Nat) (uMax : Nat) : parseUnsigned ([45, 49] ++ k) uMax = some (uMax, 2) := by
  simp [parseUnsigned, startsWith, List.isPrefixOf]

/-- a negative number other than `-1` is never an unsigned value -/
theorem C16_unsigned_rejects_negative (c : Nat) (r : List Nat) (uMax : Nat) (h : c ≠ 49) : parseUnsigned (45 :: c :: r) uMax = none := by
  unfold parseUnsigned
  have : ((45 : Nat) == 45 && (c :: r).head? != some 49) = true := by simp [h]
  simp only [this, ↓reduceIte]

/-! examples: numbers far beyond 64 bit are rejected, boundary values are exact -/
example : parseSigned ([48, 120, 55, 70, 70, 70, 70, 70, 70, 70, 44]) (-2147483648) 2147483647 = some (2147483647, 10) := by decide
example : parseSigned ([48, 120, 56, 48, 48, 48, 48, 48, 48, 48]) (-2147483648) 2147483647 = none := by decide
example : parseUnsigned ([48, 55, 55, 55]) 255 = none := by decide
example : parseUnsigned ([48, 51, 55, 55]) 255 = some (255, 4) := by decide

end PotasscoVerif.C16
