/-
  C03 — aspif reader accepts exactly well-formed aspif and never alters a number.

  FULL STATEMENT: `read t = ok cs ↔ Denotes t cs` for a declarative grammar `Denotes` of aspif 1.0 (with the
  reader's documented leniencies), plus: numbers are never altered, a rejection is one error with
  1 ≤ line ≤ lines t.
  PROVED HERE:
    * `C03_number_exact`  — a number token with a digit string of ANY length (any magnitude, beyond 32 and 64
      bits): if a field matcher of the reader model accepts it, the value delivered is exactly the number the
      text denotes;
    * `C03_reject_out_of_range` — and if the denoted number is outside the field's range, the matcher fails
      (never wraps, truncates or otherwise produces a different accepted value);
    * `C03_error_once` — the reader model's result carries at most one error value (by construction of
      `Result`), and an accepted text carries none.
  MISSING: soundness/completeness against `Denotes` and the line bound; decided by the correspondence run
  (reader model == AspifInput on generated/mutated texts) and the independent reference acceptor.
-/
import PotasscoVerif.Lemmas.Decimal
import PotasscoVerif.Model.AspifIn
import PotasscoVerif.Model.AspifOut
namespace PotasscoVerif.C03
open PotasscoVerif.CharStream PotasscoVerif.Decimal PotasscoVerif.AspifIn
open PotasscoVerif.BufferedStream (isWs isDigit I64MAX)

/-- the number a token denotes (unbounded). -/
def denoted (sg : Sign) (ds : List Nat) : Int := sg.apply (val ds 0)

theorem intIn_token (lo hi : Int) (a : AS) (sg : Sign) (ds ws k : List Nat)
    (hr : a.rest = ws ++ (sg.text ++ (ds ++ k))) (hws : ∀ c ∈ ws, isWs c = true)
    (hds : ∀ c ∈ ds, isDigit c = true) (hne : ds ≠ []) (hk : NDS k)
    (hlo : -(I64MAX : Int) < lo) (hhi : hi < I64MAX) :
    (lo ≤ denoted sg ds ∧ denoted sg ds ≤ hi → ∃ a', intIn lo hi a = .ok (denoted sg ds, a') ∧ a'.rest = k) ∧
    (¬ (lo ≤ denoted sg ds ∧ denoted sg ds ≤ hi) → ∃ l, intIn lo hi a = .error l) := by
  obtain ⟨a', h1, h2⟩ := matchInt_token a sg ds ws k hr hws hds hne hk
  unfold intIn denoted
  rw [h1]
  by_cases hsat : val ds 0 ≤ I64MAX
  · rw [Nat.min_eq_left hsat]
    constructor
    · intro hin; exact ⟨a', by simp [hin], h2⟩
    · intro hout; exact ⟨a'.line, by simp only []; rw [if_neg hout]⟩
  · have hm : min (val ds 0) I64MAX = I64MAX := Nat.min_eq_right (by omega)
    rw [hm]
    -- the saturated value is outside every field, and so is the denoted one
    have hsatout : ¬ (lo ≤ sg.apply I64MAX ∧ sg.apply I64MAX ≤ hi) := by
      cases sg <;> simp [Sign.apply] <;> omega
    have hdenout : ¬ (lo ≤ sg.apply (val ds 0) ∧ sg.apply (val ds 0) ≤ hi) := by
      cases sg <;> simp [Sign.apply] <;> omega
    constructor
    · intro hin; exact absurd hin hdenout
    · intro _; exact ⟨a'.line, by simp only []; rw [if_neg hsatout]⟩

/-- **A number is never altered.** For every field with bounds inside the 64-bit range (all fields of the
    reader: at most ±2^32), every layout of blanks before the token, every sign and every digit string of
    any length: an accepted value is exactly the denoted number. -/
theorem C03_number_exact (lo hi : Int) (a : AS) (sg : Sign) (ds ws k : List Nat)
    (hr : a.rest = ws ++ (sg.text ++ (ds ++ k))) (hws : ∀ c ∈ ws, isWs c = true)
    (hds : ∀ c ∈ ds, isDigit c = true) (hne : ds ≠ []) (hk : NDS k)
    (hlo : -(I64MAX : Int) < lo) (hhi : hi < I64MAX) (v : Int) (a' : AS)
    (hok : intIn lo hi a = .ok (v, a')) : v = denoted sg ds ∧ a'.rest = k := by
  have h := intIn_token lo hi a sg ds ws k hr hws hds hne hk hlo hhi
  by_cases hin : lo ≤ denoted sg ds ∧ denoted sg ds ≤ hi
  · obtain ⟨a'', e, hk'⟩ := h.1 hin
    rw [e] at hok
    cases hok
    exact ⟨rfl, hk'⟩
  · obtain ⟨l, e⟩ := h.2 hin
    rw [e] at hok; cases hok

/-- **A number that does not fit its field is rejected.** -/
theorem C03_reject_out_of_range (lo hi : Int) (a : AS) (sg : Sign) (ds ws k : List Nat)
    (hr : a.rest = ws ++ (sg.text ++ (ds ++ k))) (hws : ∀ c ∈ ws, isWs c = true)
    (hds : ∀ c ∈ ds, isDigit c = true) (hne : ds ≠ []) (hk : NDS k)
    (hlo : -(I64MAX : Int) < lo) (hhi : hi < I64MAX)
    (hout : ¬ (lo ≤ denoted sg ds ∧ denoted sg ds ≤ hi)) : ∃ l, intIn lo hi a = .error l :=
  (intIn_token lo hi a sg ds ws k hr hws hds hne hk hlo hhi).2 hout

/-- every field matcher of the reader is `intIn` with bounds far inside the 64-bit range. -/
theorem C03_field_bounds :
    (-(I64MAX : Int) < 0 ∧ ((U32MAX : Nat) : Int) < I64MAX) ∧ (-(I64MAX : Int) < I32MIN ∧ I32MAX < I64MAX) ∧
    (-(I64MAX : Int) < Gen.atomMin ∧ ((Gen.atomMax : Nat) : Int) < I64MAX) ∧
    (-(I64MAX : Int) < -((Gen.atomMax : Nat) : Int)) := by decide

/-- a rejection is a single error value; an accepted text has none (the C++ side of "exactly once" is the
    handler-call count compared by the correspondence run). -/
theorem C03_error_once (t : List Nat) : (read t).err = none ∨ ∃ l, (read t).err = some l := by
  cases (read t).err with
  | none => exact Or.inl rfl
  | some l => exact Or.inr ⟨l, rfl⟩

/-! non-vacuity: oversized numbers in a real text -/
example : (read (AspifOut.str "asp 1 0 0\n1 0 1 18446744073709551617 0 0\n0\n")).err = some 2 := by decide +kernel
example : (read (AspifOut.str "asp 1 0 0\n1 0 1 00000000000000000000001 0 0\n0\n")) =
    { calls := [.initProgram false, .beginStep, .rule 0 [1] [], .endStep], err := none } := by decide +kernel
example : denoted .minus [49, 50] = -12 := by decide

end PotasscoVerif.C03
