/-
  C10 — the ground-text reader delivers exactly the statements written in its input syntax.
  Theorems about Model/TextIn.lean (tied to src/aspif_text.cpp by the `tr` correspondence).

  Every lemma is stated for an arbitrary stream state `a` whose remaining input is the printed token followed by an
  arbitrary filler `ws` (blanks, tabs, CR, LF in any number) and a continuation `k`; it yields the value and a state whose
  remaining input is exactly `k` — so the lemmas compose along any token sequence, and the filler is irrelevant.
-/
import PotasscoVerif.Model.TextIn
import PotasscoVerif.Lemmas.Decimal
namespace PotasscoVerif.C10
open PotasscoVerif PotasscoVerif.CharStream PotasscoVerif.TextIn PotasscoVerif.Decimal PotasscoVerif.AspifOut
open PotasscoVerif.BufferedStream (isDigit isWs I64MAX)

/-- a filler: any run of characters `skipWs` skips -/
def Filler (ws : List Nat) : Prop := ∀ c ∈ ws, isWs c = true

/-- the continuation starts with a character that can neither extend an identifier nor a number nor be skipped -/
def Sep (k : List Nat) : Prop := ∀ c r, k = c :: r → isWs c = false ∧ isDigit c = false ∧ isLower c = false ∧ c ≠ 95

theorem Sep.nws {k : List Nat} (h : Sep k) : NWS k := fun c r e => (h c r e).1
theorem Sep.nds {k : List Nat} (h : Sep k) : NDS k := fun c r e => (h c r e).2.1

theorem filler_sep_nds {ws k : List Nat} (hws : Filler ws) (hk : Sep k) : NDS (ws ++ k) := by
  intro c r e
  cases ws with
  | nil => exact hk.nds c r e
  | cons w ws' =>
    simp only [List.cons_append, List.cons.injEq] at e
    have := hws w (by simp); rw [e.1] at this
    simp [isWs] at this; simp [isDigit]; omega

theorem filler_sep_head {ws k : List Nat} (hws : Filler ws) (hk : Sep k) :
    isLower ((ws ++ k).headD 0) = false ∧ isDigit ((ws ++ k).headD 0) = false ∧ (ws ++ k).headD 0 ≠ 95 := by
  cases ws with
  | nil =>
    cases k with
    | nil => simp [isLower, isDigit]
    | cons c r => have := hk c r rfl; simp [this.2.1, this.2.2.1, this.2.2.2]
  | cons w ws' =>
    have := hws w (by simp)
    simp [isWs] at this
    simp [isLower, isDigit]; omega

/-- **C10 (keywords and punctuation)**: a token followed by any filler is matched, the filler is skipped, and reading
    continues exactly at the continuation. -/
theorem C10_tok (a : AS) (w ws k : List Nat) (req : Bool) (hr : a.rest = w ++ (ws ++ k)) (hws : Filler ws) (hk : NWS k) :
    ∃ a', tok w req a = .ok (true, a') ∧ a'.rest = k := by
  unfold tok AS.matchTok
  have hp : w.isPrefixOf a.rest = true := by rw [hr]; simp
  simp only [hp, ↓reduceIte]
  refine ⟨_, rfl, ?_⟩
  apply skipWs_spec _ ws k _ hws hk
  simp [hr]

/-- a token that is not there: nothing is consumed (optional tokens) -/
theorem tok_absent (a : AS) (w : List Nat) (h : w.isPrefixOf a.rest = false) :
    ∃ a', tok w false a = .ok (false, a') ∧ a'.rest = a.rest := by
  unfold tok AS.matchTok
  simp only [h, Bool.false_eq_true, ↓reduceIte]
  exact ⟨_, rfl, rfl⟩

/-- **C10 (integers)**: the decimal text of any 32-bit integer, after any filler and followed by any filler, is read as
    that integer. -/
theorem C10_int (a : AS) (v : Int) (ws0 ws k : List Nat) (hr : a.rest = ws0 ++ (printInt v ++ (ws ++ k)))
    (hws0 : Filler ws0) (hws : Filler ws) (hk : Sep k) (hv : I32MIN ≤ v ∧ v ≤ I32MAX) :
    ∃ a', int a = .ok (v, a') ∧ a'.rest = k := by
  have h64 : v.natAbs ≤ I64MAX := by
    have : I32MIN = -2147483648 := rfl
    have : I32MAX = 2147483647 := rfl
    have : I64MAX = 9223372036854775807 := rfl
    omega
  obtain ⟨a1, h1, hr1⟩ := matchInt_printInt a v ws0 (ws ++ k) hr hws0 (filler_sep_nds hws hk) h64
  unfold int
  rw [h1]
  simp only [hv.1, hv.2, and_self, ↓reduceIte]
  exact ⟨_, rfl, skipWs_spec a1 ws k hr1 hws hk.nws⟩

/-! ### atoms -/
theorem get_plain (a : AS) (c : Nat) (r : List Nat) (h : a.rest = c :: r) (h0 : c ≠ 0) (h13 : c ≠ 13) (h10 : c ≠ 10) :
    a.get = (c, { rest := r, line := a.line, canUnget := true }) := by
  unfold AS.get
  rw [h]
  simp [h0, h13, h10]

/-- the spellings of an atom -/
inductive Spelling where | letter | x | x_
deriving Repr, DecidableEq

def Spelling.text (n : Nat) : Spelling → List Nat
  | .letter => [96 + n]
  | .x => 120 :: printNat n
  | .x_ => 120 :: 95 :: printNat n

def Spelling.ok (n : Nat) : Spelling → Prop
  | .letter => 1 ≤ n ∧ n ≤ 26
  | _ => 1 ≤ n ∧ n ≤ 2147483647

theorem printInt_nat (n : Nat) : printInt (n : Int) = printNat n := by
  unfold printInt
  have : ¬ ((n : Int) < 0) := by omega
  simp [this]

/-- **C10 (atom spellings)**: each spelling of an atom — a single letter for 1..26, `x<n>`, `x_<n>` for 1..2^31-1 —
    followed by any filler yields exactly that atom. -/
theorem C10_atom_spellings (a : AS) (n : Nat) (sp : Spelling) (ws k : List Nat) (hok : sp.ok n)
    (hr : a.rest = sp.text n ++ (ws ++ k)) (hws : Filler ws) (hk : Sep k) :
    ∃ a', ident a = .ok (n, a') ∧ a'.rest = k := by
  have hhead := filler_sep_head hws hk
  cases sp with
  | letter =>
    simp only [Spelling.ok] at hok
    simp only [Spelling.text, List.cons_append, List.nil_append] at hr
    have hg := get_plain a (96 + n) (ws ++ k) hr (by omega) (by omega) (by omega)
    unfold ident
    rw [hg]
    have hl : isLower (96 + n) = true := by simp [isLower]; omega
    have hpk : AS.peek { rest := ws ++ k, line := a.line, canUnget := true } = (ws ++ k).headD 0 := rfl
    simp only [hl, Bool.not_true, Bool.false_eq_true, ↓reduceIte, hpk, hhead.1, hhead.2.1]
    have h95 : ((ws ++ k).headD 0 == 95) = false := by simpa using hhead.2.2
    simp only [h95, Bool.or_self, Bool.and_false, Bool.false_eq_true, ↓reduceIte]
    refine ⟨_, ?_, skipWs_spec { rest := ws ++ k, line := a.line, canUnget := true } ws k rfl hws hk.nws⟩
    congr 2; omega
  | x =>
    simp only [Spelling.ok] at hok
    simp only [Spelling.text, List.cons_append] at hr
    have hg := get_plain a 120 (printNat n ++ (ws ++ k)) hr (by omega) (by omega) (by omega)
    obtain ⟨d, r', e, hd⟩ := printNat_head_digit n
    unfold ident
    rw [hg]
    have hpk : AS.peek { rest := printNat n ++ (ws ++ k), line := a.line, canUnget := true } = d := by
      unfold AS.peek; simp only [e]; rfl
    have hdl : isLower d = false := by simp [isDigit] at hd; simp [isLower]; omega
    have hd95 : (d == 95) = false := by simp [isDigit] at hd; simp; omega
    have hl : isLower 120 = true := by decide
    simp only [hl, Bool.not_true, Bool.false_eq_true, ↓reduceIte, hpk, hdl, hd, beq_self_eq_true, Bool.true_or, Bool.and_self, hd95]
    obtain ⟨a2, h2, hr2⟩ := C10_int { rest := printNat n ++ (ws ++ k), line := a.line, canUnget := true } (n : Int) [] ws k
      (by simp [printInt_nat]) (by intro c hc; cases hc) hws hk
      (by have : I32MIN = -2147483648 := rfl
          have : I32MAX = 2147483647 := rfl
          omega)
    rw [h2]
    have hpos : (0 : Int) < (n : Int) := by omega
    simp only [hpos, ↓reduceIte, Int.toNat_natCast]
    exact ⟨a2, rfl, hr2⟩
  | x_ =>
    simp only [Spelling.ok] at hok
    simp only [Spelling.text, List.cons_append] at hr
    have hg := get_plain a 120 (95 :: (printNat n ++ (ws ++ k))) hr (by omega) (by omega) (by omega)
    unfold ident
    rw [hg]
    have hpk : AS.peek { rest := 95 :: (printNat n ++ (ws ++ k)), line := a.line, canUnget := true } = 95 := rfl
    have hl : isLower 120 = true := by decide
    have h95l : isLower 95 = false := by decide
    simp only [hl, Bool.not_true, Bool.false_eq_true, ↓reduceIte, hpk, h95l, beq_self_eq_true, Bool.or_true, Bool.and_self]
    have hg2 := get_plain { rest := 95 :: (printNat n ++ (ws ++ k)), line := a.line, canUnget := true } 95 (printNat n ++ (ws ++ k)) rfl
      (by omega) (by omega) (by omega)
    rw [hg2]
    obtain ⟨a2, h2, hr2⟩ := C10_int { rest := printNat n ++ (ws ++ k), line := a.line, canUnget := true } (n : Int) [] ws k
      (by simp [printInt_nat]) (by intro c hc; cases hc) hws hk
      (by have : I32MIN = -2147483648 := rfl
          have : I32MAX = 2147483647 := rfl
          omega)
    simp only at h2 ⊢
    rw [h2]
    have hpos : (0 : Int) < (n : Int) := by omega
    simp only [hpos, ↓reduceIte, Int.toNat_natCast]
    exact ⟨a2, rfl, hr2⟩

/-! ### literals -/
structure LitItem where
  neg     : Bool
  n       : Nat
  sp      : Spelling
  wsNot   : List Nat        -- filler after "not "
  wsAfter : List Nat        -- filler after the atom
deriving Repr, DecidableEq

def LitItem.text (i : LitItem) : List Nat :=
  (if i.neg then [110, 111, 116, 32] ++ i.wsNot else []) ++ (i.sp.text i.n ++ i.wsAfter)
def LitItem.val (i : LitItem) : Int := if i.neg then -(i.n : Int) else (i.n : Int)
def LitItem.ok (i : LitItem) : Prop := i.sp.ok i.n ∧ Filler i.wsNot ∧ Filler i.wsAfter

theorem spelling_nws (n : Nat) (sp : Spelling) (h : sp.ok n) (t : List Nat) : NWS (sp.text n ++ t) := by
  intro c r e
  cases sp with
  | letter =>
    simp only [Spelling.ok] at h
    simp only [Spelling.text, List.cons_append, List.nil_append, List.cons.injEq] at e
    rw [← e.1]; simp [isWs]; omega
  | x => simp only [Spelling.text, List.cons_append, List.cons.injEq] at e; rw [← e.1]; decide
  | x_ => simp only [Spelling.text, List.cons_append, List.cons.injEq] at e; rw [← e.1]; decide

theorem not_prefix_spelling (n : Nat) (sp : Spelling) (h : sp.ok n) (ws k : List Nat) (hws : Filler ws) (hk : Sep k) :
    ([110, 111, 116, 32] : List Nat).isPrefixOf (sp.text n ++ (ws ++ k)) = false := by
  cases sp with
  | letter =>
    simp only [Spelling.text, List.cons_append, List.nil_append]
    have hh := (filler_sep_head hws hk).1
    cases hwk : ws ++ k with
    | nil => simp [List.isPrefixOf]
    | cons c r =>
      rw [hwk] at hh; simp [isLower] at hh
      simp [List.isPrefixOf]; intro _; omega
  | x => simp [Spelling.text, List.isPrefixOf]
  | x_ => simp [Spelling.text, List.isPrefixOf]

/-- **C10 (literals)**: an atom in any spelling, optionally preceded by `not ` and any filler, followed by any filler,
    yields the positive or negative literal. -/
theorem C10_lit (a : AS) (i : LitItem) (k : List Nat) (hok : i.ok) (hr : a.rest = i.text ++ k) (hk : Sep k) :
    ∃ a', lit a = .ok (i.val, a') ∧ a'.rest = k := by
  obtain ⟨hsp, hwn, hwa⟩ := hok
  unfold lit
  cases hneg : i.neg with
  | true =>
    have hr' : a.rest = [110, 111, 116, 32] ++ (i.wsNot ++ (i.sp.text i.n ++ (i.wsAfter ++ k))) := by
      rw [hr]; simp [LitItem.text, hneg]
    obtain ⟨a1, h1, hr1⟩ := C10_tok a _ i.wsNot _ false hr' hwn (spelling_nws i.n i.sp hsp _)
    rw [h1]
    obtain ⟨a2, h2, hr2⟩ := C10_atom_spellings a1 i.n i.sp i.wsAfter k hsp hr1 hwa hk
    simp only [h2]
    exact ⟨a2, by simp [LitItem.val, hneg], hr2⟩
  | false =>
    have hr' : a.rest = i.sp.text i.n ++ (i.wsAfter ++ k) := by rw [hr]; simp [LitItem.text, hneg]
    obtain ⟨a1, h1, hr1⟩ := tok_absent a [110, 111, 116, 32] (by rw [hr']; exact not_prefix_spelling i.n i.sp hsp _ _ hwa hk)
    rw [h1]
    obtain ⟨a2, h2, hr2⟩ := C10_atom_spellings a1 i.n i.sp i.wsAfter k hsp (by rw [hr1]; exact hr') hwa hk
    simp only [h2]
    exact ⟨a2, by simp [LitItem.val, hneg], hr2⟩

/-- comma-separated literals; each item carries the filler printed after its comma -/
def litsText : List (LitItem × List Nat) → List Nat
  | [] => []
  | [(i, _)] => i.text
  | (i, wc) :: rest => i.text ++ (44 :: (wc ++ litsText rest))

theorem litItem_head (i : LitItem) (hok : i.ok) (t : List Nat) : ∃ c r, i.text ++ t = c :: r ∧ isLower c = true := by
  unfold LitItem.text
  cases i.neg with
  | true => exact ⟨110, _, rfl, by decide⟩
  | false =>
    cases hs : i.sp with
    | letter =>
      have := hok.1; rw [hs] at this; simp only [Spelling.ok] at this
      exact ⟨96 + i.n, i.wsAfter ++ t, by simp [Spelling.text], by simp [isLower]; omega⟩
    | x => exact ⟨120, printNat i.n ++ (i.wsAfter ++ t), by simp [Spelling.text], by decide⟩
    | x_ => exact ⟨120, 95 :: (printNat i.n ++ (i.wsAfter ++ t)), by simp [Spelling.text], by decide⟩

theorem litsText_head (items : List (LitItem × List Nat)) (hne : items ≠ []) (hok : ∀ p ∈ items, p.1.ok ∧ Filler p.2) (t : List Nat) :
    ∃ c r, litsText items ++ t = c :: r ∧ isLower c = true := by
  cases items with
  | nil => exact absurd rfl hne
  | cons p rest =>
    obtain ⟨i, wc⟩ := p
    cases rest with
    | nil => simp only [litsText]; exact litItem_head i (hok (i, wc) (by simp)).1 t
    | cons q rest' =>
      simp only [litsText, List.append_assoc]
      exact litItem_head i (hok (i, wc) (by simp)).1 _

theorem lower_nws {l : List Nat} (h : ∃ c r, l = c :: r ∧ isLower c = true) : NWS l := by
  obtain ⟨c, r, e, hc⟩ := h
  intro c' r' e'
  rw [e] at e'; cases e'
  simp [isLower] at hc; simp [isWs]; omega

theorem litsLoop_spec (items : List (LitItem × List Nat)) (hne : items ≠ []) (hok : ∀ p ∈ items, p.1.ok ∧ Filler p.2)
    (k : List Nat) (hk : Sep k) (hk44 : ([44] : List Nat).isPrefixOf k = false) (f : Nat) (hf : items.length < f) (a : AS) (acc : List Int)
    (hr : a.rest = litsText items ++ k) :
    ∃ a', litsLoop f a acc = .ok (acc ++ items.map (fun p => p.1.val), a') ∧ a'.rest = k := by
  induction items generalizing f a acc with
  | nil => exact absurd rfl hne
  | cons p rest ih =>
    obtain ⟨i, wc⟩ := p
    have hi := hok (i, wc) (by simp)
    cases f with
    | zero => simp at hf
    | succ f =>
      cases rest with
      | nil =>
        simp only [litsText] at hr
        obtain ⟨a1, h1, hr1⟩ := C10_lit a i k hi.1 hr hk
        obtain ⟨a2, h2, hr2⟩ := tok_absent a1 [44] (by rw [hr1]; exact hk44)
        simp only [litsLoop, h1, h2]
        exact ⟨a2, by simp, by rw [hr2, hr1]⟩
      | cons q rest' =>
        simp only [litsText, List.append_assoc, List.cons_append] at hr
        have hsep : Sep (44 :: (wc ++ (litsText (q :: rest') ++ k))) := by
          intro c r e; cases e; decide
        obtain ⟨a1, h1, hr1⟩ := C10_lit a i _ hi.1 hr hsep
        have hnext := litsText_head (q :: rest') (by simp) (fun p hp => hok p (by simp [hp])) k
        obtain ⟨a2, h2, hr2⟩ := C10_tok a1 [44] wc (litsText (q :: rest') ++ k) false (by rw [hr1]; rfl) hi.2 (lower_nws hnext)
        simp only [litsLoop, h1, h2]
        obtain ⟨a3, h3, hr3⟩ := ih (by simp) (fun p hp => hok p (by simp [hp])) f (by simp at hf ⊢; omega) a2 (acc ++ [i.val]) hr2
        exact ⟨a3, by rw [h3]; simp, hr3⟩

/-- **C10 (literal lists)**: a comma-separated list of literals of any length, with any spelling per atom and any filler
    after `not `, after every atom and after every comma, is read as exactly that list, and reading continues at the
    continuation (which is a separator other than a comma: `.`, `}`, …). -/
theorem C10_lits (a : AS) (items : List (LitItem × List Nat)) (hne : items ≠ []) (hok : ∀ p ∈ items, p.1.ok ∧ Filler p.2)
    (k : List Nat) (hk : Sep k) (hk44 : ([44] : List Nat).isPrefixOf k = false) (hr : a.rest = litsText items ++ k) :
    ∃ a', lits a = .ok (items.map (fun p => p.1.val), a') ∧ a'.rest = k := by
  have hhead := litsText_head items hne hok k
  have hs : a.skipWs.rest = litsText items ++ k := skipWs_spec a [] _ (by simpa using hr) (by intro c hc; cases hc) (lower_nws hhead)
  unfold lits peekWs
  obtain ⟨c, r, e, hc⟩ := hhead
  have hpk : a.skipWs.peek = c := by unfold AS.peek; rw [hs, e]; rfl
  simp only [hpk, hc, ↓reduceIte]
  have hlen : items.length < a.skipWs.rest.length + 1 := by
    rw [hs]
    have : ∀ (its : List (LitItem × List Nat)), (∀ p ∈ its, p.1.ok ∧ Filler p.2) → its.length ≤ (litsText its).length := by
      intro its
      induction its with
      | nil => intro _; simp
      | cons p rest ih =>
        intro hok'
        obtain ⟨i, wc⟩ := p
        have hi := litItem_head i (hok' (i, wc) (by simp)).1 []
        obtain ⟨c', r', e', _⟩ := hi
        have hl : 1 ≤ i.text.length := by
          have : (i.text ++ []).length = (c' :: r').length := by rw [e']
          simp at this; omega
        cases rest with
        | nil => simp [litsText]; omega
        | cons q rest' =>
          have := ih (fun p hp => hok' p (by simp [hp]))
          simp only [litsText, List.length_append, List.length_cons] at this ⊢
          omega
    have := this items hok
    simp; omega
  obtain ⟨a', h, hr'⟩ := litsLoop_spec items hne hok k hk hk44 _ hlen a.skipWs [] hs
  exact ⟨a', by simpa using h, hr'⟩

/-- **C10 (layout is irrelevant, token level)**: two texts of the same literal list that differ only in fillers and
    spellings are read as the same list and leave the same continuation. -/
theorem C10_layout_irrelevant_token (a b : AS) (items items' : List (LitItem × List Nat)) (hne : items ≠ []) (hne' : items' ≠ [])
    (hok : ∀ p ∈ items, p.1.ok ∧ Filler p.2) (hok' : ∀ p ∈ items', p.1.ok ∧ Filler p.2)
    (hsame : items.map (fun p => p.1.val) = items'.map (fun p => p.1.val))
    (k : List Nat) (hk : Sep k) (hk44 : ([44] : List Nat).isPrefixOf k = false)
    (hra : a.rest = litsText items ++ k) (hrb : b.rest = litsText items' ++ k) :
    ∃ a' b', lits a = .ok (items.map (fun p => p.1.val), a') ∧ lits b = .ok (items.map (fun p => p.1.val), b') ∧ a'.rest = b'.rest := by
  obtain ⟨a', h1, hr1⟩ := C10_lits a items hne hok k hk hk44 hra
  obtain ⟨b', h2, hr2⟩ := C10_lits b items' hne' hok' k hk hk44 hrb
  exact ⟨a', b', h1, by rw [hsame]; exact h2, by rw [hr1, hr2]⟩

/-! ### the hypotheses are satisfiable, and the model runs -/
example : (TextIn.read [97, 32, 58, 45, 32, 98, 44, 10, 110, 111, 116, 32, 120, 95, 51, 46]).calls =
    [.initProgram false, .beginStep, .rule 0 [1] [2, -3], .endStep] := by decide +kernel
example : (TextIn.read [97, 32, 58, 45, 32, 98, 44, 10, 110, 111, 116, 32, 120, 95, 51, 46]).err = none := by decide +kernel
example : (TextIn.read [123, 97, 59, 98, 125, 58, 45, 50, 123, 99, 61, 50, 44, 100, 61, 48, 125, 46]).calls =
    [.initProgram false, .beginStep, .sumRule 1 [1, 2] 2 [(3, 2)], .endStep] := by decide +kernel
end PotasscoVerif.C10
