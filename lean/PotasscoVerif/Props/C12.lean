/-
  C12 — theory store returns what was stored, tracks steps, and replays faithfully.
  Model: Model/TheoryData.lean.
  PROVED HERE, for ALL histories:
    * `C12_heap`: the number of live heap blocks always equals the number of blocks reachable from the tables —
      nothing leaks and nothing is freed twice; after `reset` (the destructor) nothing is live;
    * `C12_term_*`: the term table behaves like a plain table (what was stored comes back, other ids are
      untouched, removed ids are absent), a redefinition is refused exactly when the id is "new"
      (`C12_redefinition`), and "new" means: in use and not below the last step mark (`C12_new_iff`).
  MISSING as theorems (decided by correspondence + the Python table oracle): the same frame statements for
  elements and atoms (the model code is analogous), the visit orders, print().
-/
import PotasscoVerif.Model.TheoryData
namespace PotasscoVerif.C12
open PotasscoVerif.TheoryData


theorem reachable_eq (d : TD) : d.reachable = (d.terms.map heapT).sum + (d.elems.map heapE).sum + d.atoms.length := rfl

theorem sum_set {α} (g : α → Nat) : ∀ (l : List α) (i : Nat) (x a : α), l[i]? = some a →
    ((l.set i x).map g).sum + g a = (l.map g).sum + g x := by
  intro l
  induction l with
  | nil => intro i x a h; simp at h
  | cons b l ih =>
    intro i x a h
    cases i with
    | zero => simp at h; subst h; simp; omega
    | succ i =>
      simp only [List.getElem?_cons_succ] at h
      simp only [List.set_cons_succ, List.map_cons, List.sum_cons]
      have := ih i x a h
      omega

theorem sum_replicate_none {α} (g : Option α → Nat) (hg : g none = 0) : ∀ n, ((List.replicate n (none : Option α)).map g).sum = 0 := by
  intro n; induction n with
  | zero => rfl
  | succ n ih => simp [List.replicate_succ, hg, ih]

theorem sum_padTo {α} (g : Option α → Nat) (hg : g none = 0) (l : List (Option α)) (n : Nat) :
    ((padTo l n).map g).sum = (l.map g).sum := by
  unfold padTo
  rw [List.map_append, List.sum_append, sum_replicate_none g hg]; simp

theorem getTerm_some {d : TD} {id : Nat} {t : Term} (h : d.getTerm id = some t) : d.terms[id]? = some (some t) := by
  unfold TD.getTerm at h
  cases hv : d.terms[id]? with
  | none => rw [hv] at h; cases h
  | some o => rw [hv] at h; cases o with
    | none => cases h
    | some t0 => simp [Option.join] at h; rw [h]

theorem getElem_some {d : TD} {id : Nat} {e : Elem} (h : d.getElem id = some e) : d.elems[id]? = some (some e) := by
  unfold TD.getElem at h
  cases hv : d.elems[id]? with
  | none => rw [hv] at h; cases h
  | some o => rw [hv] at h; cases o with
    | none => cases h
    | some t0 => simp [Option.join] at h; rw [h]

theorem hasTerm_iff (d : TD) (id : Nat) : d.hasTerm id = (d.getTerm id).isSome := rfl

/-- a slot that does not hold a term is either an invalid slot or beyond the table. -/
theorem slot_of_not_has {α} (l : List (Option α)) (id : Nat) (h : (l[id]?).join = none) : l[id]? = some none ∨ l[id]? = none := by
  cases hv : l[id]? with
  | none => right; rfl
  | some o => cases o with
    | none => left; rfl
    | some t0 => rw [hv] at h; simp [Option.join] at h

/-- the accounting invariant -/
def Acc (d : TD) : Prop := d.live = d.reachable

theorem removeTerm_acc {d : TD} (h : Acc d) (id : Nat) : Acc (d.removeTerm id) := by
  unfold Acc at *
  rw [reachable_eq] at h ⊢
  unfold TD.removeTerm
  cases hg : d.getTerm id with
  | none => simpa using h
  | some t =>
    have hs := sum_set heapT d.terms id none (some t) (getTerm_some hg)
    simp only [heapT] at hs
    show d.live - t.heap = ((d.terms.set id none).map heapT).sum + (d.elems.map heapE).sum + d.atoms.length
    omega

/-- after `removeTerm id` the slot is invalid (or beyond the table). -/
theorem removeTerm_slot (d : TD) (id : Nat) : (d.removeTerm id).terms[id]? = some none ∨ (d.removeTerm id).terms[id]? = none := by
  unfold TD.removeTerm
  cases hg : d.getTerm id with
  | none => exact slot_of_not_has d.terms id hg
  | some t =>
    have hlt : id < d.terms.length := (List.getElem?_eq_some_iff.mp (getTerm_some hg)).1
    left; simp [hlt]

theorem addTerm_acc {d d' : TD} (h : Acc d) (id : Nat) (t : Term) (hs : d.addTerm id t = some d') : Acc d' := by
  unfold TD.addTerm at hs
  by_cases hh : d.hasTerm id = true
  · simp only [hh, Bool.not_true, Bool.false_eq_true, ↓reduceIte] at hs
    by_cases hn : d.isNewTerm id = true
    · simp [hn] at hs
    · simp only [hn, Bool.false_eq_true, ↓reduceIte, Option.some.injEq] at hs
      subst hs
      have h1 := removeTerm_acc h id
      have hslot : (d.removeTerm id).terms[id]? = some none := by
        rcases removeTerm_slot d id with h | h
        · exact h
        · -- the id is inside the table since the term existed
          exfalso
          rw [hasTerm_iff] at hh
          cases hg : d.getTerm id with
          | none => rw [hg] at hh; cases hh
          | some t0 =>
            have hlt := (List.getElem?_eq_some_iff.mp (getTerm_some hg)).1
            have hlen : (d.removeTerm id).terms.length = d.terms.length := by unfold TD.removeTerm; split <;> simp
            rw [List.getElem?_eq_none_iff] at h
            omega
      unfold Acc at *
      rw [reachable_eq] at h1 ⊢
      have hsum := sum_set heapT (d.removeTerm id).terms id (some t) none hslot
      simp only [heapT] at hsum
      show (d.removeTerm id).live + t.heap = (((d.removeTerm id).terms.set id (some t)).map heapT).sum +
        ((d.removeTerm id).elems.map heapE).sum + (d.removeTerm id).atoms.length
      omega
  · have hh' : d.hasTerm id = false := by simpa using hh
    simp only [hh', Bool.not_false, ↓reduceIte, Option.some.injEq] at hs
    subst hs
    unfold Acc at *
    rw [reachable_eq] at h ⊢
    have hslot : (padTo d.terms (id + 1))[id]? = some none := by
      have hno : (d.terms[id]?).join = none := by
        have : (d.getTerm id).isSome = false := hh'
        unfold TD.getTerm at this
        cases hq : (d.terms[id]?).join with
        | none => rfl
        | some t0 => rw [hq] at this; cases this
      unfold padTo
      by_cases hl : id < d.terms.length
      · rw [List.getElem?_append_left hl]
        rcases slot_of_not_has d.terms id hno with h | h
        · exact h
        · rw [List.getElem?_eq_none_iff] at h; omega
      · rw [List.getElem?_append_right (by omega), List.getElem?_replicate]
        have : id - d.terms.length < id + 1 - d.terms.length := by omega
        simp [this]
    have hsum := sum_set heapT (padTo d.terms (id + 1)) id (some t) none hslot
    rw [sum_padTo heapT rfl] at hsum
    simp only [heapT] at hsum
    show d.live + t.heap = (((padTo d.terms (id + 1)).set id (some t)).map heapT).sum + (d.elems.map heapE).sum + d.atoms.length
    omega

theorem addElement_acc {d d' : TD} (h : Acc d) (id : Nat) (ts : List Nat) (c : Nat) (hs : d.addElement id ts c = some d') : Acc d' := by
  unfold TD.addElement at hs
  simp only at hs
  by_cases hh : d.hasElem id = true
  · simp only [hh, Bool.not_true, Bool.false_eq_true, ↓reduceIte] at hs
    by_cases hn : d.isNewElem id = true
    · simp [hn] at hs
    · simp only [hn, Bool.false_eq_true, ↓reduceIte, Option.some.injEq] at hs
      subst hs
      unfold Acc at *
      rw [reachable_eq] at h ⊢
      cases hg : d.getElem id with
      | none => have : (d.getElem id).isSome = true := hh; rw [hg] at this; cases this
      | some e0 =>
        have hv := getElem_some hg
        have hsum := sum_set heapE d.elems id (some { terms := ts, cond := c, slot := c != 0 }) (some e0) hv
        simp only [heapE] at hsum
        show d.live = (List.map heapT d.terms).sum + ((d.elems.set id (some { terms := ts, cond := c, slot := c != 0 })).map heapE).sum + d.atoms.length
        omega
  · have hh' : d.hasElem id = false := by simpa using hh
    simp only [hh', Bool.not_false, ↓reduceIte, Option.some.injEq] at hs
    subst hs
    unfold Acc at *
    rw [reachable_eq] at h ⊢
    have hslot : (padTo d.elems (id + 1))[id]? = some none := by
      have hno : (d.elems[id]?).join = none := by
        have : (d.getElem id).isSome = false := hh'
        unfold TD.getElem at this
        cases hq : (d.elems[id]?).join with
        | none => rfl
        | some t0 => rw [hq] at this; cases this
      unfold padTo
      by_cases hl : id < d.elems.length
      · rw [List.getElem?_append_left hl]
        rcases slot_of_not_has d.elems id hno with h | h
        · exact h
        · rw [List.getElem?_eq_none_iff] at h; omega
      · rw [List.getElem?_append_right (by omega), List.getElem?_replicate]
        have : id - d.elems.length < id + 1 - d.elems.length := by omega
        simp [this]
    have hsum := sum_set heapE (padTo d.elems (id + 1)) id (some { terms := ts, cond := c, slot := c != 0 }) none hslot
    rw [sum_padTo heapE rfl] at hsum
    simp only [heapE] at hsum
    show d.live + 1 = (List.map heapT d.terms).sum + (((padTo d.elems (id + 1)).set id (some { terms := ts, cond := c, slot := c != 0 })).map heapE).sum + d.atoms.length
    omega

theorem setCondition_acc {d d' : TD} (h : Acc d) (id c : Nat) (hs : d.setCondition id c = some d') : Acc d' := by
  unfold TD.setCondition at hs
  cases hg : d.getElem id with
  | none => simp [hg] at hs
  | some e =>
    simp only [hg] at hs
    by_cases hc : (e.cond == COND_DEFERRED) = true
    · simp only [hc, ↓reduceIte, Option.some.injEq] at hs
      subst hs
      unfold Acc at *
      rw [reachable_eq] at h ⊢
      have hv : d.elems[id]? = some (some e) := getElem_some hg
      have hsum := sum_set heapE d.elems id (some { e with cond := c }) (some e) hv
      simp only [heapE] at hsum
      show d.live = (List.map heapT d.terms).sum + ((d.elems.set id (some { e with cond := c })).map heapE).sum + d.atoms.length
      omega
    · simp [hc] at hs

theorem filter_acc {d : TD} (h : Acc d) (f : Atom → Bool) : Acc (d.filter f) := by
  unfold Acc at *
  rw [reachable_eq] at h ⊢
  unfold TD.filter
  simp only
  have h1 : (d.atoms.take d.fAtom).length + (d.atoms.drop d.fAtom).length = d.atoms.length := by
    rw [← List.length_append, List.take_append_drop]
  have h2 := List.length_filter_le (fun a => a.atom == 0 || !f a) (d.atoms.drop d.fAtom)
  rw [List.length_append]
  omega

/-! ### histories -/

inductive Op where
  | addTerm (id : Nat) (t : Term) | removeTerm (id : Nat) | addElement (id : Nat) (ts : List Nat) (c : Nat)
  | addAtom (a : Atom) | setCondition (id c : Nat) | filter (m : Nat) | update | reset
deriving Repr, DecidableEq

/-- one operation; a refused operation (exception) leaves the store unchanged. -/
def step (d : TD) : Op → TD
  | .addTerm id t => (d.addTerm id t).getD d
  | .removeTerm id => d.removeTerm id
  | .addElement id ts c => (d.addElement id ts c).getD d
  | .addAtom a => d.addAtom a
  | .setCondition id c => (d.setCondition id c).getD d
  | .filter m => d.filter (fun a => a.atom % m == 0)
  | .update => d.update
  | .reset => d.reset

def run : TD → List Op → TD
  | d, [] => d
  | d, op :: ops => run (step d op) ops

theorem step_acc {d : TD} (h : Acc d) (op : Op) : Acc (step d op) := by
  cases op with
  | addTerm id t =>
    simp only [step]
    cases hs : d.addTerm id t with
    | none => exact h
    | some d' => exact addTerm_acc h id t hs
  | removeTerm id => exact removeTerm_acc h id
  | addElement id ts c =>
    simp only [step]
    cases hs : d.addElement id ts c with
    | none => exact h
    | some d' => exact addElement_acc h id ts c hs
  | addAtom a =>
    unfold Acc at *; rw [reachable_eq] at h ⊢
    show d.live + 1 = (List.map heapT d.terms).sum + (List.map heapE d.elems).sum + (d.atoms ++ [a]).length
    simp; omega
  | setCondition id c =>
    simp only [step]
    cases hs : d.setCondition id c with
    | none => exact h
    | some d' => exact setCondition_acc h id c hs
  | filter m => exact filter_acc h _
  | update => exact h
  | reset => rfl

/-- **C12_heap.** After any history of operations the number of live heap blocks equals the number of
    blocks reachable from the tables: no operation sequence leaks a block or frees one twice (a double free
    would make `live` smaller than `reachable`); and after `reset` — which is what the destructor runs —
    nothing is live. -/
theorem C12_heap (ops : List Op) : (run {} ops).live = (run {} ops).reachable ∧ ((run {} ops).reset).live = 0 := by
  have key : ∀ (ops : List Op) (d : TD), Acc d → Acc (run d ops) := by
    intro ops
    induction ops with
    | nil => intro d h; exact h
    | cons op ops ih => intro d h; exact ih _ (step_acc h op)
  exact ⟨key ops {} rfl, rfl⟩

/-! ### the term table is a plain table -/

theorem C12_redefinition (d : TD) (id : Nat) (t : Term) : d.addTerm id t = none ↔ d.isNewTerm id = true := by
  unfold TD.addTerm TD.isNewTerm
  by_cases hh : d.hasTerm id = true
  · by_cases hn : decide (id ≥ d.fTerm) = true <;> simp [hh, hn, TD.isNewTerm]
  · have : d.hasTerm id = false := by simpa using hh
    simp [this]

theorem C12_new_iff (d : TD) (id : Nat) : d.isNewTerm id = true ↔ ((d.getTerm id).isSome ∧ id ≥ d.fTerm) := by
  unfold TD.isNewTerm TD.hasTerm; simp

theorem join_set (l : List (Option Term)) (id j : Nat) (x : Option Term) (h : id < l.length) :
    ((l.set id x)[j]?).join = if j = id then x else (l[j]?).join := by
  by_cases hj : j = id
  · subst hj; simp [h]
  · simp [hj, List.getElem?_set_ne (Ne.symm hj)]

/-- what was stored comes back; every other id is untouched. -/
theorem C12_term_add (d d' : TD) (id : Nat) (t : Term) (hs : d.addTerm id t = some d') (j : Nat) :
    d'.getTerm j = if j = id then some t else d.getTerm j := by
  unfold TD.addTerm at hs
  by_cases hh : d.hasTerm id = true
  · simp only [hh, Bool.not_true, Bool.false_eq_true, ↓reduceIte] at hs
    by_cases hn : d.isNewTerm id = true
    · simp [hn] at hs
    · simp only [hn, Bool.false_eq_true, ↓reduceIte, Option.some.injEq] at hs
      subst hs
      cases hg : d.getTerm id with
      | none => have : (d.getTerm id).isSome = true := hh; rw [hg] at this; cases this
      | some t0 =>
        have hlt := (List.getElem?_eq_some_iff.mp (getTerm_some hg)).1
        unfold TD.removeTerm
        simp only [hg]
        unfold TD.getTerm
        simp only
        rw [List.set_set]
        exact join_set d.terms id j (some t) hlt
  · have hh' : d.hasTerm id = false := by simpa using hh
    simp only [hh', Bool.not_false, ↓reduceIte, Option.some.injEq] at hs
    subst hs
    unfold TD.getTerm
    simp only
    have hlen : id < (padTo d.terms (id + 1)).length := by unfold padTo; simp; omega
    rw [join_set (padTo d.terms (id + 1)) id j (some t) hlen]
    by_cases hj : j = id
    · simp [hj]
    · simp only [hj, ↓reduceIte]
      unfold padTo
      by_cases hl : j < d.terms.length
      · rw [List.getElem?_append_left hl]
      · rw [List.getElem?_append_right (by omega), List.getElem?_replicate]
        have hn : d.terms[j]? = none := List.getElem?_eq_none_iff.mpr (by omega)
        rw [hn]; split <;> simp

/-- a removed id is absent; every other id is untouched. -/
theorem C12_term_remove (d : TD) (id j : Nat) :
    (d.removeTerm id).getTerm j = if j = id then none else d.getTerm j := by
  unfold TD.removeTerm
  cases hg : d.getTerm id with
  | none => by_cases hj : j = id <;> simp [hj, hg]
  | some t0 =>
    have hlt := (List.getElem?_eq_some_iff.mp (getTerm_some hg)).1
    unfold TD.getTerm
    simp only
    exact join_set d.terms id j none hlt

/-! ### elements: the same table statements -/

theorem join_setE {α} (l : List (Option α)) (id j : Nat) (x : Option α) (h : id < l.length) :
    ((l.set id x)[j]?).join = if j = id then x else (l[j]?).join := by
  by_cases hj : j = id
  · subst hj; simp [h]
  · simp [hj, List.getElem?_set_ne (Ne.symm hj)]

theorem padTo_get {α} (l : List (Option α)) (n j : Nat) : ((padTo l n)[j]?).join = (l[j]?).join := by
  unfold padTo
  by_cases hl : j < l.length
  · rw [List.getElem?_append_left hl]
  · rw [List.getElem?_append_right (by omega)]
    have h1 : l[j]? = none := List.getElem?_eq_none (by omega)
    rw [h1]
    cases h : (List.replicate (n - l.length) (none : Option α))[j - l.length]? with
    | none => rfl
    | some v =>
      have := List.getElem?_eq_some_iff.mp h
      obtain ⟨_, hv⟩ := this
      simp at hv; subst hv; rfl

/-- an element definition is refused exactly when the id is in use and not below the last step mark -/
theorem C12_elem_redefinition (d : TD) (id : Nat) (ts : List Nat) (c : Nat) : d.addElement id ts c = none ↔ d.isNewElem id = true := by
  unfold TD.addElement TD.isNewElem
  by_cases hh : d.hasElem id = true <;> by_cases hf : id ≥ d.fElem <;> simp [hh, hf]

theorem C12_elem_new_iff (d : TD) (id : Nat) : d.isNewElem id = true ↔ ((d.getElem id).isSome ∧ id ≥ d.fElem) := by
  unfold TD.isNewElem TD.hasElem; simp

/-- what was stored comes back (terms, condition); every other element id is untouched -/
theorem C12_elem_add (d d' : TD) (id : Nat) (ts : List Nat) (c : Nat) (hs : d.addElement id ts c = some d') (j : Nat) :
    d'.getElem j = if j = id then some { terms := ts, cond := c, slot := c != 0 } else d.getElem j := by
  unfold TD.addElement at hs
  by_cases hh : d.hasElem id = true
  · simp only [hh, Bool.not_true, Bool.false_eq_true, ↓reduceIte] at hs
    by_cases hn : d.isNewElem id = true
    · simp [hn] at hs
    · simp only [hn, Bool.false_eq_true, ↓reduceIte, Option.some.injEq] at hs
      subst hs
      cases hg : d.getElem id with
      | none => have : (d.getElem id).isSome = true := hh; rw [hg] at this; cases this
      | some e0 =>
        have hlt := (List.getElem?_eq_some_iff.mp (getElem_some hg)).1
        unfold TD.getElem
        exact join_setE d.elems id j _ hlt
  · have hh' : d.hasElem id = false := by simpa using hh
    simp only [hh', Bool.not_false, ↓reduceIte, Option.some.injEq] at hs
    subst hs
    unfold TD.getElem
    simp only
    have hlen : id < (padTo d.elems (id + 1)).length := by unfold padTo; simp; omega
    rw [join_setE (padTo d.elems (id + 1)) id j _ hlen, padTo_get]

/-- a deferred condition can be set exactly once, and only that element changes -/
theorem C12_set_condition (d d' : TD) (id c : Nat) (hs : d.setCondition id c = some d') :
    ∃ e, d.getElem id = some e ∧ e.cond = COND_DEFERRED ∧ ∀ j, d'.getElem j = if j = id then some { e with cond := c } else d.getElem j := by
  unfold TD.setCondition at hs
  cases hg : d.getElem id with
  | none => simp [hg] at hs
  | some e =>
    simp only [hg] at hs
    by_cases hc : e.cond = COND_DEFERRED
    · simp only [hc, beq_self_eq_true, ↓reduceIte, Option.some.injEq] at hs
      subst hs
      refine ⟨e, rfl, hc, fun j => ?_⟩
      have hlt := (List.getElem?_eq_some_iff.mp (getElem_some hg)).1
      unfold TD.getElem
      exact join_setE d.elems id j _ hlt
    · have : (e.cond == COND_DEFERRED) = false := by simpa using hc
      simp [this] at hs

theorem C12_set_condition_refused (d : TD) (id c : Nat) :
    d.setCondition id c = none ↔ ∀ e, d.getElem id = some e → e.cond ≠ COND_DEFERRED := by
  unfold TD.setCondition
  cases hg : d.getElem id with
  | none => simp
  | some e => by_cases hc : e.cond = COND_DEFERRED <;> simp [hc]

/-! ### atoms, steps, and independence of the three tables -/

/-- atoms are kept in the order they were added -/
theorem C12_atom_add (d : TD) (a : Atom) : (d.addAtom a).atoms = d.atoms ++ [a] ∧ (d.addAtom a).terms = d.terms ∧ (d.addAtom a).elems = d.elems := ⟨rfl, rfl, rfl⟩

/-- `filter` never touches atoms of earlier steps, keeps the order, and removes exactly the atoms of the current step that have a
    non-zero atom satisfying the predicate -/
theorem C12_filter (d : TD) (f : Atom → Bool) (h : d.fAtom ≤ d.atoms.length) :
    (d.filter f).atoms.take d.fAtom = d.atoms.take d.fAtom ∧
    (d.filter f).atoms.drop d.fAtom = (d.atoms.drop d.fAtom).filter (fun a => a.atom == 0 || !f a) ∧
    (d.filter f).terms = d.terms ∧ (d.filter f).elems = d.elems := by
  have hl : (d.atoms.take d.fAtom).length = d.fAtom := by simp; omega
  refine ⟨?_, ?_, rfl, rfl⟩
  · unfold TD.filter; simp only
    rw [List.take_left' hl]
  · unfold TD.filter; simp only
    rw [List.drop_left' hl]

/-- the step mark: after `update` nothing is new; ids added afterwards are -/
theorem C12_update (d : TD) : (∀ id, d.update.isNewTerm id = false) ∧ (∀ id, d.update.isNewElem id = false) ∧
    d.update.terms = d.terms ∧ d.update.elems = d.elems ∧ d.update.atoms = d.atoms ∧ d.update.fAtom = d.atoms.length := by
  refine ⟨fun id => ?_, fun id => ?_, rfl, rfl, rfl, rfl⟩
  · unfold TD.isNewTerm TD.hasTerm TD.getTerm TD.update
    simp only
    by_cases h : id < d.terms.length
    · simp [h]
    · simp [List.getElem?_eq_none (Nat.le_of_not_lt h)]
  · unfold TD.isNewElem TD.hasElem TD.getElem TD.update
    simp only
    by_cases h : id < d.elems.length
    · simp [h]
    · simp [List.getElem?_eq_none (Nat.le_of_not_lt h)]

/-- operations on one table leave the other tables alone -/
theorem C12_tables_independent (d d' : TD) :
    (∀ id t, d.addTerm id t = some d' → d'.elems = d.elems ∧ d'.atoms = d.atoms) ∧
    (∀ id, (d.removeTerm id).elems = d.elems ∧ (d.removeTerm id).atoms = d.atoms) ∧
    (∀ id ts c, d.addElement id ts c = some d' → d'.terms = d.terms ∧ d'.atoms = d.atoms) ∧
    (∀ id c, d.setCondition id c = some d' → d'.terms = d.terms ∧ d'.atoms = d.atoms) := by
  refine ⟨fun id t hs => ?_, fun id => ?_, fun id ts c hs => ?_, fun id c hs => ?_⟩
  · unfold TD.addTerm at hs
    split at hs
    · cases hs; exact ⟨rfl, rfl⟩
    · split at hs
      · cases hs
      · cases hs; unfold TD.removeTerm; split <;> exact ⟨rfl, rfl⟩
  · unfold TD.removeTerm; split <;> exact ⟨rfl, rfl⟩
  · unfold TD.addElement at hs
    simp only at hs
    split at hs
    · cases hs; exact ⟨rfl, rfl⟩
    · split at hs
      · cases hs
      · cases hs; exact ⟨rfl, rfl⟩
  · unfold TD.setCondition at hs
    split at hs
    · split at hs
      · cases hs; exact ⟨rfl, rfl⟩
      · cases hs
    · cases hs

/-! ### visiting -/

/-- an invariant of the accumulator is an invariant of a monadic fold over `Option` -/
theorem foldlM_inv {α β : Type} (Inv : β → Prop) (f : β → α → Option β) : ∀ (l : List α) (init r : β),
    (∀ acc x acc', x ∈ l → Inv acc → f acc x = some acc' → Inv acc') → Inv init → l.foldlM f init = some r → Inv r := by
  intro l
  induction l with
  | nil => intro init r _ hi hr; simp [List.foldlM] at hr; subst hr; exact hi
  | cons x xs ih =>
    intro init r hstep hi hr
    simp only [List.foldlM, bind, Option.bind] at hr
    cases hf : f init x with
    | none => rw [hf] at hr; cases hr
    | some b =>
      rw [hf] at hr
      exact ih b r (fun acc y acc' hy => hstep acc y acc' (List.mem_cons_of_mem _ hy)) (hstep init x b (by simp) hi hf) hr

/-- what may legitimately be shown to a visitor: stored items only, and in `current` mode only items of the current step -/
def Shown (d : TD) (cur : Bool) : Seen → Prop
  | .term id => d.hasTerm id = true ∧ (cur = true → d.isNewTerm id = true)
  | .elem id => d.hasElem id = true ∧ (cur = true → d.isNewElem id = true)
  | .atom i => i < d.atoms.length ∧ (cur = true → d.fAtom ≤ i)
  | .missing => False

theorem visitTerm_shown (d : TD) (cur : Bool) : ∀ (fuel id : Nat) (acc res : List Seen), (∀ s ∈ acc, Shown d cur s) →
    (cur = true → d.isNewTerm id = true) → d.visitTerm cur fuel id acc = some res → ∀ s ∈ res, Shown d cur s := by
  intro fuel
  induction fuel with
  | zero => intro id acc res _ _ hr; simp [TD.visitTerm] at hr
  | succ f ih =>
    intro id acc res hacc hnew hr
    simp only [TD.visitTerm] at hr
    cases hg : d.getTerm id with
    | none => simp [hg] at hr
    | some t =>
      simp only [hg] at hr
      have hacc1 : ∀ s ∈ acc ++ [Seen.term id], Shown d cur s := by
        intro s hs
        simp only [List.mem_append, List.mem_singleton] at hs
        rcases hs with hs | rfl
        · exact hacc s hs
        · exact ⟨by simp [TD.hasTerm, hg], hnew⟩
      cases t with
      | num n => simp only [Option.some.injEq] at hr; subst hr; exact hacc1
      | sym nm => simp only [Option.some.injEq] at hr; subst hr; exact hacc1
      | comp base args =>
        simp only at hr
        refine foldlM_inv (fun a => ∀ s ∈ a, Shown d cur s) _ _ _ res ?_ hacc1 hr
        intro a x a' _ ha hx
        by_cases hdo : d.doTerm cur x = true
        · simp only [hdo, ↓reduceIte] at hx
          refine ih x a a' ha ?_ hx
          intro hc
          simp only [TD.doTerm, hc, Bool.not_true, Bool.false_or] at hdo
          exact hdo
        · simp only [hdo, Bool.false_eq_true, ↓reduceIte, Option.some.injEq] at hx
          subst hx; exact ha

theorem optTerm_shown (d : TD) (cur : Bool) (fuel i : Nat) (acc res : List Seen) (hacc : ∀ s ∈ acc, Shown d cur s)
    (hr : d.optTerm cur fuel acc i = some res) : ∀ s ∈ res, Shown d cur s := by
  unfold TD.optTerm at hr
  by_cases hdo : d.doTerm cur i = true
  · simp only [hdo, ↓reduceIte] at hr
    refine visitTerm_shown d cur fuel i acc res hacc ?_ hr
    intro hc
    simp only [TD.doTerm, hc, Bool.not_true, Bool.false_or] at hdo
    exact hdo
  · simp only [hdo, Bool.false_eq_true, ↓reduceIte, Option.some.injEq] at hr
    subst hr; exact hacc

theorem visitElem_shown (d : TD) (cur : Bool) (fuel id : Nat) (acc res : List Seen) (hacc : ∀ s ∈ acc, Shown d cur s)
    (hnew : cur = true → d.isNewElem id = true) (hr : d.visitElem cur fuel id acc = some res) : ∀ s ∈ res, Shown d cur s := by
  unfold TD.visitElem at hr
  cases hg : d.getElem id with
  | none => simp [hg] at hr
  | some e =>
    simp only [hg] at hr
    refine foldlM_inv (fun a => ∀ s ∈ a, Shown d cur s) _ _ _ res (fun a x a' _ ha hx => optTerm_shown d cur fuel x a a' ha hx) ?_ hr
    intro s hs
    simp only [List.mem_append, List.mem_singleton] at hs
    rcases hs with hs | rfl
    · exact hacc s hs
    · exact ⟨by simp [TD.hasElem, hg], hnew⟩

theorem optElem_shown (d : TD) (cur : Bool) (fuel e : Nat) (acc res : List Seen) (hacc : ∀ s ∈ acc, Shown d cur s)
    (hr : d.optElem cur fuel acc e = some res) : ∀ s ∈ res, Shown d cur s := by
  unfold TD.optElem at hr
  by_cases hdo : d.doElem cur e = true
  · simp only [hdo, ↓reduceIte] at hr
    refine visitElem_shown d cur fuel e acc res hacc ?_ hr
    intro hc
    simp only [TD.doElem, hc, Bool.not_true, Bool.false_or] at hdo
    exact hdo
  · simp only [hdo, Bool.false_eq_true, ↓reduceIte, Option.some.injEq] at hr
    subst hr; exact hacc

theorem visitAtom_shown (d : TD) (cur : Bool) (fuel i : Nat) (a : Atom) (acc res : List Seen) (hacc : ∀ s ∈ acc, Shown d cur s)
    (hi : i < d.atoms.length ∧ (cur = true → d.fAtom ≤ i)) (hr : d.visitAtom cur fuel i a acc = some res) : ∀ s ∈ res, Shown d cur s := by
  unfold TD.visitAtom at hr
  have h0 : ∀ s ∈ acc ++ [Seen.atom i], Shown d cur s := by
    intro s hs
    simp only [List.mem_append, List.mem_singleton] at hs
    rcases hs with hs | rfl
    · exact hacc s hs
    · exact hi
  cases h1 : d.optTerm cur fuel (acc ++ [Seen.atom i]) a.term with
  | none => rw [h1] at hr; cases hr
  | some r1 =>
    rw [h1] at hr
    simp only [Option.bind_some] at hr
    have s1 := optTerm_shown d cur fuel a.term _ r1 h0 h1
    cases h2 : a.elems.foldlM (d.optElem cur fuel) r1 with
    | none => rw [h2] at hr; cases hr
    | some r2 =>
      rw [h2] at hr
      simp only [Option.bind_some] at hr
      have s2 : ∀ s ∈ r2, Shown d cur s :=
        foldlM_inv (fun a => ∀ s ∈ a, Shown d cur s) _ _ _ r2 (fun b x b' _ hb hx => optElem_shown d cur fuel x b b' hb hx) s1 h2
      cases hgd : a.guard with
      | none => rw [hgd] at hr; simp only [Option.some.injEq] at hr; subst hr; exact s2
      | some g =>
        obtain ⟨op, rhs⟩ := g
        rw [hgd] at hr
        simp only at hr
        cases h3 : d.optTerm cur fuel r2 op with
        | none => rw [h3] at hr; cases hr
        | some r3 =>
          rw [h3] at hr
          simp only [Option.bind_some] at hr
          exact optTerm_shown d cur fuel rhs r3 res (optTerm_shown d cur fuel op r2 r3 s2 h3) hr

/-- **visiting is sound**: whatever a fully recursive visitor is shown — in either mode, on any store — is stored; in `current`
    mode it is an atom, element or term added since the last step mark. -/
theorem C12_visit_sound (d : TD) (cur : Bool) (res : List Seen) (hr : d.visit cur = some res) : ∀ s ∈ res, Shown d cur s := by
  unfold TD.visit at hr
  refine foldlM_inv (fun a => ∀ s ∈ a, Shown d cur s) _ _ _ res ?_ (by simp) hr
  intro acc p acc' hp hacc hx
  have hm := List.mem_of_mem_drop hp
  have hidx := List.mem_zipIdx hm
  refine visitAtom_shown d cur _ p.2 p.1 acc acc' hacc ⟨by omega, fun hc => ?_⟩ hx
  -- in `current` mode the traversal starts at the step frame
  simp only [hc, ↓reduceIte] at hp
  obtain ⟨k, hk, hget⟩ := List.mem_iff_getElem.mp hp
  rw [List.getElem_drop, List.getElem_zipIdx] at hget
  have : p.2 = 0 + (d.fAtom + k) := by rw [← hget]
  omega

/-! #### visiting is complete: everything stored and referenced from a visited item is visited -/

def termKids (d : TD) (cur : Bool) (id : Nat) : List Nat :=
  match d.getTerm id with
  | some (.comp base args) => (args ++ (if base ≥ 0 then [base.toNat] else [])).filter (d.doTerm cur)
  | _ => []

/-- what an item refers to (restricted, in `current` mode, to what is new) -/
def children (d : TD) (cur : Bool) : Seen → List Seen
  | .term id => (termKids d cur id).map .term
  | .elem id => match d.getElem id with
    | some e => (e.terms.filter (d.doTerm cur)).map .term
    | none => []
  | .atom i => match d.atoms[i]? with
    | some a => ([a.term].filter (d.doTerm cur)).map .term ++ (a.elems.filter (d.doElem cur)).map .elem ++
        (match a.guard with | some (op, rhs) => ([op, rhs].filter (d.doTerm cur)).map .term | none => [])
    | none => []
  | .missing => []

/-- `a'` extends `a`, and every item of `a'` that was not yet in `a` has all its children in `a'` -/
def New (d : TD) (cur : Bool) (a a' : List Seen) : Prop := (∀ s ∈ a, s ∈ a') ∧ ∀ s ∈ a', s ∉ a → ∀ c ∈ children d cur s, c ∈ a'

theorem New.refl (d : TD) (cur : Bool) (a : List Seen) : New d cur a a := ⟨fun _ h => h, fun s h hn => absurd h hn⟩

theorem New.trans {d : TD} {cur : Bool} {a b c : List Seen} (h1 : New d cur a b) (h2 : New d cur b c) : New d cur a c := by
  refine ⟨fun s hs => h2.1 s (h1.1 s hs), fun s hs hn k hk => ?_⟩
  by_cases hb : s ∈ b
  · exact h2.1 k (h1.2 s hb hn k hk)
  · exact h2.2 s hs hb k hk

theorem foldlM_new {α : Type} (d : TD) (cur : Bool) (f : List Seen → α → Option (List Seen)) : ∀ (l : List α) (init r : List Seen),
    (∀ acc x acc', x ∈ l → f acc x = some acc' → New d cur acc acc') → l.foldlM f init = some r → New d cur init r := by
  intro l
  induction l with
  | nil => intro init r _ hr; simp [List.foldlM] at hr; subst hr; exact New.refl d cur _
  | cons x xs ih =>
    intro init r hstep hr
    simp only [List.foldlM, bind, Option.bind] at hr
    cases hf : f init x with
    | none => rw [hf] at hr; cases hr
    | some b =>
      rw [hf] at hr
      exact (hstep init x b (by simp) hf).trans (ih b r (fun acc y acc' hy => hstep acc y acc' (List.mem_cons_of_mem _ hy)) hr)

/-- what each step of a fold puts into the accumulator is still there at the end -/
theorem foldlM_roots {α : Type} (f : List Seen → α → Option (List Seen)) (root : α → Seen) (g : α → Bool) : ∀ (l : List α) (init r : List Seen),
    (∀ acc x acc', x ∈ l → f acc x = some acc' → (∀ s ∈ acc, s ∈ acc') ∧ (g x = true → root x ∈ acc')) → l.foldlM f init = some r →
    (∀ s ∈ init, s ∈ r) ∧ ∀ x ∈ l, g x = true → root x ∈ r := by
  intro l
  induction l with
  | nil => intro init r _ hr; simp [List.foldlM] at hr; subst hr; exact ⟨fun _ h => h, fun x hx => by simp at hx⟩
  | cons x xs ih =>
    intro init r hstep hr
    simp only [List.foldlM, bind, Option.bind] at hr
    cases hf : f init x with
    | none => rw [hf] at hr; cases hr
    | some b =>
      rw [hf] at hr
      obtain ⟨m1, r1⟩ := hstep init x b (by simp) hf
      obtain ⟨m2, r2⟩ := ih b r (fun acc y acc' hy => hstep acc y acc' (List.mem_cons_of_mem _ hy)) hr
      refine ⟨fun s hs => m2 s (m1 s hs), fun y hy hg => ?_⟩
      simp only [List.mem_cons] at hy
      rcases hy with rfl | hy
      · exact m2 _ (r1 hg)
      · exact r2 y hy hg

theorem visitTerm_new (d : TD) (cur : Bool) : ∀ (fuel id : Nat) (acc res : List Seen), d.visitTerm cur fuel id acc = some res →
    New d cur acc res ∧ Seen.term id ∈ res := by
  intro fuel
  induction fuel with
  | zero => intro id acc res hr; simp [TD.visitTerm] at hr
  | succ f ih =>
    intro id acc res hr
    simp only [TD.visitTerm] at hr
    cases hg : d.getTerm id with
    | none => simp [hg] at hr
    | some t =>
      simp only [hg] at hr
      have leaf : termKids d cur id = [] → New d cur acc (acc ++ [Seen.term id]) ∧ Seen.term id ∈ acc ++ [Seen.term id] := by
        intro hk
        refine ⟨⟨fun s hs => List.mem_append_left _ hs, fun s hs hn k hkk => ?_⟩, by simp⟩
        simp only [List.mem_append, List.mem_singleton] at hs
        rcases hs with hs | rfl
        · exact absurd hs hn
        · simp [children, hk] at hkk
      cases t with
      | num n => simp only [Option.some.injEq] at hr; subst hr; exact leaf (by simp [termKids, hg])
      | sym nm => simp only [Option.some.injEq] at hr; subst hr; exact leaf (by simp [termKids, hg])
      | comp base args =>
        simp only at hr
        have hstep : ∀ (a : List Seen) (x : Nat) (a' : List Seen), (if d.doTerm cur x = true then d.visitTerm cur f x a else some a) = some a' →
            New d cur a a' ∧ (d.doTerm cur x = true → Seen.term x ∈ a') := by
          intro a x a' hx
          by_cases hdo : d.doTerm cur x = true
          · simp only [hdo, ↓reduceIte] at hx
            exact ⟨(ih x a a' hx).1, fun _ => (ih x a a' hx).2⟩
          · simp only [hdo, Bool.false_eq_true, ↓reduceIte, Option.some.injEq] at hx
            subst hx; exact ⟨New.refl d cur _, fun h => absurd h hdo⟩
        have hnew := foldlM_new d cur _ _ _ res (fun a x a' _ hx => (hstep a x a' hx).1) hr
        have hroots := foldlM_roots _ Seen.term (d.doTerm cur) _ _ res (fun a x a' _ hx => ⟨(hstep a x a' hx).1.1, (hstep a x a' hx).2⟩) hr
        refine ⟨⟨fun s hs => hnew.1 s (List.mem_append_left _ hs), fun s hs hn k hk => ?_⟩, hnew.1 _ (by simp)⟩
        by_cases h1 : s ∈ acc ++ [Seen.term id]
        · simp only [List.mem_append, List.mem_singleton] at h1
          rcases h1 with h1 | rfl
          · exact absurd h1 hn
          · simp only [children, termKids, hg, List.mem_map, List.mem_filter] at hk
            obtain ⟨x, ⟨hx, hdo⟩, rfl⟩ := hk
            exact hroots.2 x hx hdo
        · exact hnew.2 s hs h1 k hk

theorem optTerm_new (d : TD) (cur : Bool) (fuel i : Nat) (acc res : List Seen) (hr : d.optTerm cur fuel acc i = some res) :
    New d cur acc res ∧ (d.doTerm cur i = true → Seen.term i ∈ res) := by
  unfold TD.optTerm at hr
  by_cases hdo : d.doTerm cur i = true
  · simp only [hdo, ↓reduceIte] at hr
    exact ⟨(visitTerm_new d cur fuel i acc res hr).1, fun _ => (visitTerm_new d cur fuel i acc res hr).2⟩
  · simp only [hdo, Bool.false_eq_true, ↓reduceIte, Option.some.injEq] at hr
    subst hr; exact ⟨New.refl d cur _, fun h => absurd h hdo⟩

theorem visitElem_new (d : TD) (cur : Bool) (fuel id : Nat) (acc res : List Seen) (hr : d.visitElem cur fuel id acc = some res) :
    New d cur acc res ∧ Seen.elem id ∈ res := by
  unfold TD.visitElem at hr
  cases hg : d.getElem id with
  | none => simp [hg] at hr
  | some e =>
    simp only [hg] at hr
    have hnew := foldlM_new d cur _ _ _ res (fun a x a' _ hx => (optTerm_new d cur fuel x a a' hx).1) hr
    have hroots := foldlM_roots _ Seen.term (d.doTerm cur) _ _ res (fun a x a' _ hx => ⟨(optTerm_new d cur fuel x a a' hx).1.1, (optTerm_new d cur fuel x a a' hx).2⟩) hr
    refine ⟨⟨fun s hs => hnew.1 s (List.mem_append_left _ hs), fun s hs hn k hk => ?_⟩, hnew.1 _ (by simp)⟩
    by_cases h1 : s ∈ acc ++ [Seen.elem id]
    · simp only [List.mem_append, List.mem_singleton] at h1
      rcases h1 with h1 | rfl
      · exact absurd h1 hn
      · simp only [children, hg, List.mem_map, List.mem_filter] at hk
        obtain ⟨x, ⟨hx, hdo⟩, rfl⟩ := hk
        exact hroots.2 x hx hdo
    · exact hnew.2 s hs h1 k hk

theorem optElem_new (d : TD) (cur : Bool) (fuel e : Nat) (acc res : List Seen) (hr : d.optElem cur fuel acc e = some res) :
    New d cur acc res ∧ (d.doElem cur e = true → Seen.elem e ∈ res) := by
  unfold TD.optElem at hr
  by_cases hdo : d.doElem cur e = true
  · simp only [hdo, ↓reduceIte] at hr
    exact ⟨(visitElem_new d cur fuel e acc res hr).1, fun _ => (visitElem_new d cur fuel e acc res hr).2⟩
  · simp only [hdo, Bool.false_eq_true, ↓reduceIte, Option.some.injEq] at hr
    subst hr; exact ⟨New.refl d cur _, fun h => absurd h hdo⟩

theorem visitAtom_new (d : TD) (cur : Bool) (fuel i : Nat) (a : Atom) (acc res : List Seen) (ha : d.atoms[i]? = some a)
    (hr : d.visitAtom cur fuel i a acc = some res) : New d cur acc res ∧ Seen.atom i ∈ res := by
  unfold TD.visitAtom at hr
  cases h1 : d.optTerm cur fuel (acc ++ [Seen.atom i]) a.term with
  | none => rw [h1] at hr; cases hr
  | some r1 =>
    rw [h1] at hr
    simp only [Option.bind_some] at hr
    obtain ⟨n1, t1⟩ := optTerm_new d cur fuel a.term _ r1 h1
    cases h2 : a.elems.foldlM (d.optElem cur fuel) r1 with
    | none => rw [h2] at hr; cases hr
    | some r2 =>
      rw [h2] at hr
      simp only [Option.bind_some] at hr
      have n2 := foldlM_new d cur _ _ _ r2 (fun b x b' _ hx => (optElem_new d cur fuel x b b' hx).1) h2
      have e2 := foldlM_roots _ Seen.elem (d.doElem cur) _ _ r2 (fun b x b' _ hx => ⟨(optElem_new d cur fuel x b b' hx).1.1, (optElem_new d cur fuel x b b' hx).2⟩) h2
      -- the guard
      obtain ⟨n3, g3⟩ : New d cur r2 res ∧ ∀ c ∈ (match a.guard with | some (op, rhs) => ([op, rhs].filter (d.doTerm cur)).map Seen.term | none => []), c ∈ res := by
        cases hgd : a.guard with
        | none => rw [hgd] at hr; simp only [Option.some.injEq] at hr; subst hr; exact ⟨New.refl d cur _, by simp⟩
        | some g =>
          obtain ⟨op, rhs⟩ := g
          rw [hgd] at hr
          simp only at hr
          cases h3 : d.optTerm cur fuel r2 op with
          | none => rw [h3] at hr; cases hr
          | some r3 =>
            rw [h3] at hr
            simp only [Option.bind_some] at hr
            obtain ⟨n3, t3⟩ := optTerm_new d cur fuel op r2 r3 h3
            obtain ⟨n4, t4⟩ := optTerm_new d cur fuel rhs r3 res hr
            refine ⟨n3.trans n4, fun c hc => ?_⟩
            simp only [List.mem_map, List.mem_filter, List.mem_cons, List.not_mem_nil, or_false] at hc
            obtain ⟨x, ⟨hx, hdo⟩, rfl⟩ := hc
            rcases hx with rfl | rfl
            · exact n4.1 _ (t3 hdo)
            · exact t4 hdo
      have nall := (n1.trans n2).trans n3
      refine ⟨⟨fun s hs => nall.1 s (List.mem_append_left _ hs), fun s hs hn k hk => ?_⟩, nall.1 _ (by simp)⟩
      by_cases hin : s ∈ acc ++ [Seen.atom i]
      · simp only [List.mem_append, List.mem_singleton] at hin
        rcases hin with hin | rfl
        · exact absurd hin hn
        · simp only [children, ha, List.mem_append] at hk
          rcases hk with (hk | hk) | hk
          · simp only [List.mem_map, List.mem_filter, List.mem_singleton] at hk
            obtain ⟨x, ⟨rfl, hdo⟩, rfl⟩ := hk
            exact n3.1 _ (n2.1 _ (t1 hdo))
          · simp only [List.mem_map, List.mem_filter] at hk
            obtain ⟨x, ⟨hx, hdo⟩, rfl⟩ := hk
            exact n3.1 _ (e2.2 x hx hdo)
          · exact g3 k hk
      · exact nall.2 s hs hin k hk

/-- **visiting is complete**: a visit that ends normally has shown every atom of the range it starts from (all atoms, or those of
    the current step), and with every item shown also everything that item refers to (in `current` mode: what of it is new). Together
    with `C12_visit_sound` the items shown are exactly the stored items reachable from those atoms. -/
theorem C12_visit_complete (d : TD) (cur : Bool) (res : List Seen) (hr : d.visit cur = some res) :
    (∀ i, (if cur then d.fAtom else 0) ≤ i → i < d.atoms.length → Seen.atom i ∈ res) ∧ ∀ s ∈ res, ∀ c ∈ children d cur s, c ∈ res := by
  unfold TD.visit at hr
  have hget : ∀ p ∈ (d.atoms.zipIdx).drop (if cur then d.fAtom else 0), d.atoms[p.2]? = some p.1 := by
    intro p hp
    have := List.mem_zipIdx (List.mem_of_mem_drop hp)
    obtain ⟨_, h2, h3⟩ := this
    simp at h2 h3
    rw [List.getElem?_eq_getElem (by omega)]
    simp [h3]
  have hnew := foldlM_new d cur _ _ _ res (fun acc p acc' hp hx => (visitAtom_new d cur _ p.2 p.1 acc acc' (hget p hp) hx).1) hr
  have hroots := foldlM_roots _ (fun (p : Atom × Nat) => Seen.atom p.2) (fun _ => true) _ _ res
    (fun acc p acc' hp hx => ⟨(visitAtom_new d cur _ p.2 p.1 acc acc' (hget p hp) hx).1.1, fun _ => (visitAtom_new d cur _ p.2 p.1 acc acc' (hget p hp) hx).2⟩) hr
  refine ⟨fun i h1 h2 => ?_, fun s hs k hk => hnew.2 s hs (by simp) k hk⟩
  have hm : (d.atoms[i], i) ∈ (d.atoms.zipIdx).drop (if cur then d.fAtom else 0) := by
    rw [List.mem_iff_getElem]
    refine ⟨i - (if cur then d.fAtom else 0), by simp; omega, ?_⟩
    rw [List.getElem_drop, List.getElem_zipIdx]
    have : (if cur then d.fAtom else 0) + (i - (if cur then d.fAtom else 0)) = i := by omega
    simp [this]
  exact hroots.2 _ hm rfl

/-! #### … and nothing else: every term or element shown is referred to by an item shown -/

/-- every item of `a'` was already in `a`, is an atom, or is a child of an item of `a'` -/
def Par (d : TD) (cur : Bool) (a a' : List Seen) : Prop := ∀ s ∈ a', s ∈ a ∨ (∃ i, s = Seen.atom i) ∨ ∃ p ∈ a', s ∈ children d cur p

theorem Par.refl (d : TD) (cur : Bool) (a : List Seen) : Par d cur a a := fun _ h => Or.inl h

theorem Par.trans {d : TD} {cur : Bool} {a b c : List Seen} (h1 : Par d cur a b) (h2 : Par d cur b c) (hm : ∀ s ∈ b, s ∈ c) : Par d cur a c := by
  intro s hs
  rcases h2 s hs with h | h | h
  · rcases h1 s h with h' | h' | ⟨p, hp, hc⟩
    · exact Or.inl h'
    · exact Or.inr (Or.inl h')
    · exact Or.inr (Or.inr ⟨p, hm p hp, hc⟩)
  · exact Or.inr (Or.inl h)
  · exact Or.inr (Or.inr h)

/-- a fold whose steps extend the accumulator and only add parented items -/
theorem foldlM_par {α : Type} (d : TD) (cur : Bool) (f : List Seen → α → Option (List Seen)) (l : List α) (init r : List Seen)
    (hstep : ∀ acc x acc', x ∈ l → (∀ s ∈ init, s ∈ acc) → f acc x = some acc' → (∀ s ∈ acc, s ∈ acc') ∧ Par d cur acc acc')
    (hr : l.foldlM f init = some r) : (∀ s ∈ init, s ∈ r) ∧ Par d cur init r := by
  refine foldlM_inv (fun a => (∀ s ∈ init, s ∈ a) ∧ Par d cur init a) f l init r ?_ ⟨fun _ h => h, Par.refl d cur init⟩ hr
  intro acc x acc' hx ⟨hm, hp⟩ hf
  obtain ⟨m1, p1⟩ := hstep acc x acc' hx hm hf
  exact ⟨fun s hs => m1 s (hm s hs), hp.trans p1 m1⟩

theorem visitTerm_par (d : TD) (cur : Bool) : ∀ (fuel id : Nat) (acc res : List Seen), d.visitTerm cur fuel id acc = some res →
    (∃ p ∈ acc, Seen.term id ∈ children d cur p) → Par d cur acc res := by
  intro fuel
  induction fuel with
  | zero => intro id acc res hr; simp [TD.visitTerm] at hr
  | succ f ih =>
    intro id acc res hr ⟨p0, hp0, hc0⟩
    have hmono := (visitTerm_new d cur (f + 1) id acc res hr).1.1
    simp only [TD.visitTerm] at hr
    cases hg : d.getTerm id with
    | none => simp [hg] at hr
    | some t =>
      simp only [hg] at hr
      have base : Par d cur acc (acc ++ [Seen.term id]) := by
        intro s hs
        simp only [List.mem_append, List.mem_singleton] at hs
        rcases hs with hs | rfl
        · exact Or.inl hs
        · exact Or.inr (Or.inr ⟨p0, List.mem_append_left _ hp0, hc0⟩)
      cases t with
      | num n => simp only [Option.some.injEq] at hr; subst hr; exact base
      | sym nm => simp only [Option.some.injEq] at hr; subst hr; exact base
      | comp bs args =>
        simp only at hr
        have hfold := foldlM_par d cur _ _ _ res (fun a x a' hx hm hxr => by
          by_cases hdo : d.doTerm cur x = true
          · simp only [hdo, ↓reduceIte] at hxr
            refine ⟨(visitTerm_new d cur f x a a' hxr).1.1, ih x a a' hxr ⟨Seen.term id, hm _ (by simp), ?_⟩⟩
            simp only [children, termKids, hg, List.mem_map, List.mem_filter]
            exact ⟨x, ⟨hx, hdo⟩, rfl⟩
          · simp only [hdo, Bool.false_eq_true, ↓reduceIte, Option.some.injEq] at hxr
            subst hxr; exact ⟨fun _ h => h, Par.refl d cur _⟩) hr
        exact base.trans hfold.2 hfold.1

theorem optTerm_par (d : TD) (cur : Bool) (fuel i : Nat) (acc res : List Seen) (hr : d.optTerm cur fuel acc i = some res)
    (hp : d.doTerm cur i = true → ∃ p ∈ acc, Seen.term i ∈ children d cur p) : (∀ s ∈ acc, s ∈ res) ∧ Par d cur acc res := by
  have hm := (optTerm_new d cur fuel i acc res hr).1.1
  unfold TD.optTerm at hr
  by_cases hdo : d.doTerm cur i = true
  · simp only [hdo, ↓reduceIte] at hr
    exact ⟨hm, visitTerm_par d cur fuel i acc res hr (hp hdo)⟩
  · simp only [hdo, Bool.false_eq_true, ↓reduceIte, Option.some.injEq] at hr
    subst hr; exact ⟨hm, Par.refl d cur _⟩

theorem visitElem_par (d : TD) (cur : Bool) (fuel id : Nat) (acc res : List Seen) (hr : d.visitElem cur fuel id acc = some res)
    (hp : ∃ p ∈ acc, Seen.elem id ∈ children d cur p) : Par d cur acc res := by
  obtain ⟨p0, hp0, hc0⟩ := hp
  unfold TD.visitElem at hr
  cases hg : d.getElem id with
  | none => simp [hg] at hr
  | some e =>
    simp only [hg] at hr
    have base : Par d cur acc (acc ++ [Seen.elem id]) := by
      intro s hs
      simp only [List.mem_append, List.mem_singleton] at hs
      rcases hs with hs | rfl
      · exact Or.inl hs
      · exact Or.inr (Or.inr ⟨p0, List.mem_append_left _ hp0, hc0⟩)
    have hfold := foldlM_par d cur _ _ _ res (fun a x a' hx hm hxr =>
      optTerm_par d cur fuel x a a' hxr (fun hdo => ⟨Seen.elem id, hm _ (by simp), by
        simp only [children, hg, List.mem_map, List.mem_filter]; exact ⟨x, ⟨hx, hdo⟩, rfl⟩⟩)) hr
    exact base.trans hfold.2 hfold.1

theorem optElem_par (d : TD) (cur : Bool) (fuel e : Nat) (acc res : List Seen) (hr : d.optElem cur fuel acc e = some res)
    (hp : d.doElem cur e = true → ∃ p ∈ acc, Seen.elem e ∈ children d cur p) : (∀ s ∈ acc, s ∈ res) ∧ Par d cur acc res := by
  have hm := (optElem_new d cur fuel e acc res hr).1.1
  unfold TD.optElem at hr
  by_cases hdo : d.doElem cur e = true
  · simp only [hdo, ↓reduceIte] at hr
    exact ⟨hm, visitElem_par d cur fuel e acc res hr (hp hdo)⟩
  · simp only [hdo, Bool.false_eq_true, ↓reduceIte, Option.some.injEq] at hr
    subst hr; exact ⟨hm, Par.refl d cur _⟩

theorem visitAtom_par (d : TD) (cur : Bool) (fuel i : Nat) (a : Atom) (acc res : List Seen) (ha : d.atoms[i]? = some a)
    (hr : d.visitAtom cur fuel i a acc = some res) : Par d cur acc res := by
  unfold TD.visitAtom at hr
  have base : Par d cur acc (acc ++ [Seen.atom i]) := by
    intro s hs
    simp only [List.mem_append, List.mem_singleton] at hs
    rcases hs with hs | rfl
    · exact Or.inl hs
    · exact Or.inr (Or.inl ⟨i, rfl⟩)
  cases h1 : d.optTerm cur fuel (acc ++ [Seen.atom i]) a.term with
  | none => rw [h1] at hr; cases hr
  | some r1 =>
    rw [h1] at hr
    simp only [Option.bind_some] at hr
    obtain ⟨m1, p1⟩ := optTerm_par d cur fuel a.term _ r1 h1 (fun hdo => ⟨Seen.atom i, by simp, by simp [children, ha, hdo]⟩)
    cases h2 : a.elems.foldlM (d.optElem cur fuel) r1 with
    | none => rw [h2] at hr; cases hr
    | some r2 =>
      rw [h2] at hr
      simp only [Option.bind_some] at hr
      obtain ⟨m2, p2⟩ := foldlM_par d cur _ _ _ r2 (fun b x b' hx hm hxr =>
        optElem_par d cur fuel x b b' hxr (fun hdo => ⟨Seen.atom i, hm _ (m1 _ (by simp)), by
          simp only [children, ha, List.mem_append, List.mem_map, List.mem_filter]
          exact Or.inl (Or.inr ⟨x, ⟨hx, hdo⟩, rfl⟩)⟩)) h2
      have p12 := (base.trans p1 m1).trans p2 m2
      cases hgd : a.guard with
      | none => rw [hgd] at hr; simp only [Option.some.injEq] at hr; subst hr; exact p12
      | some g =>
        obtain ⟨op, rhs⟩ := g
        rw [hgd] at hr
        simp only at hr
        cases h3 : d.optTerm cur fuel r2 op with
        | none => rw [h3] at hr; cases hr
        | some r3 =>
          rw [h3] at hr
          simp only [Option.bind_some] at hr
          have hin : Seen.atom i ∈ r2 := m2 _ (m1 _ (by simp))
          obtain ⟨m3, p3⟩ := optTerm_par d cur fuel op r2 r3 h3 (fun hdo => ⟨Seen.atom i, hin, by
            simp only [children, ha, hgd, List.mem_append, List.mem_map, List.mem_filter, List.mem_cons, List.not_mem_nil, or_false]
            exact Or.inr ⟨op, ⟨Or.inl rfl, hdo⟩, rfl⟩⟩)
          obtain ⟨m4, p4⟩ := optTerm_par d cur fuel rhs r3 res hr (fun hdo => ⟨Seen.atom i, m3 _ hin, by
            simp only [children, ha, hgd, List.mem_append, List.mem_map, List.mem_filter, List.mem_cons, List.not_mem_nil, or_false]
            exact Or.inr ⟨rhs, ⟨Or.inr rfl, hdo⟩, rfl⟩⟩)
          exact (p12.trans p3 m3).trans p4 m4

/-- **… and nothing but**: every term or element shown to the visitor is referred to by an item that was shown -/
theorem C12_visit_only_referenced (d : TD) (cur : Bool) (res : List Seen) (hr : d.visit cur = some res) :
    ∀ s ∈ res, (∃ i, s = Seen.atom i) ∨ ∃ p ∈ res, s ∈ children d cur p := by
  unfold TD.visit at hr
  have hget : ∀ p ∈ (d.atoms.zipIdx).drop (if cur then d.fAtom else 0), d.atoms[p.2]? = some p.1 := by
    intro p hp
    have := List.mem_zipIdx (List.mem_of_mem_drop hp)
    obtain ⟨_, h2, h3⟩ := this
    simp at h2 h3
    rw [List.getElem?_eq_getElem (by omega)]
    simp [h3]
  have := foldlM_par d cur _ _ _ res (fun acc p acc' hp _ hx =>
    ⟨(visitAtom_new d cur _ p.2 p.1 acc acc' (hget p hp) hx).1.1, visitAtom_par d cur _ p.2 p.1 acc acc' (hget p hp) hx⟩) hr
  intro s hs
  rcases this.2 s hs with h | h | h
  · simp at h
  · exact Or.inl h
  · exact Or.inr h

/-! non-vacuity -/
example : ((run {} [.addTerm 3 (.num 1), .addTerm 3 (.comp 0 []), .update, .addTerm 3 (.comp (-1) [1, 2]), .addTerm 0 (.sym [97])]).getTerm 3)
    = some (.comp (-1) [1, 2]) := by decide
example : (run {} [.addTerm 3 (.sym [97]), .addAtom ⟨2, 3, [], none⟩, .update, .addAtom ⟨4, 3, [0], some (1, 2)⟩, .filter 2]).live = 2 := by decide

example : (run {} [.addTerm 0 (.num 1), .addTerm 1 (.comp 0 [0]), .addElement 0 [1] 0, .addAtom ⟨1, 0, [0], some (0, 1)⟩, .update,
    .addTerm 2 (.num 5), .addAtom ⟨0, 2, [0], some (0, 2)⟩]).visit true = some [.atom 1, .term 2, .term 2] := by decide +kernel

end PotasscoVerif.C12
