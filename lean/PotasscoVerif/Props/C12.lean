/-
  C12 — theory store returns what was stored, tracks steps, and replays faithfully.
  Model: Model/TheoryData.lean.
  PROVED HERE, for ALL histories:
    * `C12_heap`: the number of live heap blocks always equals the number of blocks reachable from the tables —
      nothing leaks and nothing is freed twice; after `reset` (the destructor) nothing is live;
    * `C12_term_*`: the term table behaves like a plain table (what was stored comes back, other ids are
      untouched, removed ids are absent), a redefinition is refused exactly when the id is "new"
      (`C12_redefinition`), and "new" means: in use and not below the last step mark (`C12_new_iff`).
  MISSING as theorems (decided by correspondence + the Python table oracle): the same frame statements for
  elements and atoms (the model code is analogous), the visit orders, print().
-/
import PotasscoVerif.Model.TheoryData
namespace PotasscoVerif.C12
open PotasscoVerif.TheoryData


theorem reachable_eq (d : TD) : d.reachable = (d.terms.map heapT).sum + (d.elems.map heapE).sum + d.atoms.length := rfl

theorem sum_set {α} (g : α → Nat) : ∀ (l : List α) (i : Nat) (x a : α), l[i]? = some a →
    ((l.set i x).map g).sum + g a = (l.map g).sum + g x := by
  intro l
  induction l with
  | nil => intro i x a h; simp at h
  | cons b l ih =>
    intro i x a h
    cases i with
    | zero => simp at h; subst h; simp; omega
    | succ i =>
      simp only [List.getElem?_cons_succ] at h
      simp only [List.set_cons_succ, List.map_cons, List.sum_cons]
      have := ih i x a h
      omega

theorem sum_replicate_none {α} (g : Option α → Nat) (hg : g none = 0) : ∀ n, ((List.replicate n (none : Option α)).map g).sum = 0 := by
  intro n; induction n with
  | zero => rfl
  | succ n ih => simp [List.replicate_succ, hg, ih]

theorem sum_padTo {α} (g : Option α → Nat) (hg : g none = 0) (l : List (Option α)) (n : Nat) :
    ((padTo l n).map g).sum = (l.map g).sum := by
  unfold padTo
  rw [List.map_append, List.sum_append, sum_replicate_none g hg]; simp

theorem getTerm_some {d : TD} {id : Nat} {t : Term} (h : d.getTerm id = some t) : d.terms[id]? = some (some t) := by
  unfold TD.getTerm at h
  cases hv : d.terms[id]? with
  | none => rw [hv] at h; cases h
  | some o => rw [hv] at h; cases o with
    | none => cases h
    | some t0 => simp [Option.join] at h; rw [h]

theorem getElem_some {d : TD} {id : Nat} {e : Elem} (h : d.getElem id = some e) : d.elems[id]? = some (some e) := by
  unfold TD.getElem at h
  cases hv : d.elems[id]? with
  | none => rw [hv] at h; cases h
  | some o => rw [hv] at h; cases o with
    | none => cases h
    | some t0 => simp [Option.join] at h; rw [h]

theorem hasTerm_iff (d : TD) (id : Nat) : d.hasTerm id = (d.getTerm id).isSome := rfl

/-- a slot that does not hold a term is either an invalid slot or beyond the table. -/
theorem slot_of_not_has {α} (l : List (Option α)) (id : Nat) (h : (l[id]?).join = none) : l[id]? = some none ∨ l[id]? = none := by
  cases hv : l[id]? with
  | none => right; rfl
  | some o => cases o with
    | none => left; rfl
    | some t0 => rw [hv] at h; simp [Option.join] at h

/-- the accounting invariant -/
def Acc (d : TD) : Prop := d.live = d.reachable

theorem removeTerm_acc {d : TD} (h : Acc d) (id : Nat) : Acc (d.removeTerm id) := by
  unfold Acc at *
  rw [reachable_eq] at h ⊢
  unfold TD.removeTerm
  cases hg : d.getTerm id with
  | none => simpa using h
  | some t =>
    have hs := sum_set heapT d.terms id none (some t) (getTerm_some hg)
    simp only [heapT] at hs
    show d.live - t.heap = ((d.terms.set id none).map heapT).sum + (d.elems.map heapE).sum + d.atoms.length
    omega

/-- after `removeTerm id` the slot is invalid (or beyond the table). -/
theorem removeTerm_slot (d : TD) (id : Nat) : (d.removeTerm id).terms[id]? = some none ∨ (d.removeTerm id).terms[id]? = none := by
  unfold TD.removeTerm
  cases hg : d.getTerm id with
  | none => exact slot_of_not_has d.terms id hg
  | some t =>
    have hlt : id < d.terms.length := (List.getElem?_eq_some_iff.mp (getTerm_some hg)).1
    left; simp [hlt]

theorem addTerm_acc {d d' : TD} (h : Acc d) (id : Nat) (t : Term) (hs : d.addTerm id t = some d') : Acc d' := by
  unfold TD.addTerm at hs
  by_cases hh : d.hasTerm id = true
  · simp only [hh, Bool.not_true, Bool.false_eq_true, ↓reduceIte] at hs
    by_cases hn : d.isNewTerm id = true
    · simp [hn] at hs
    · simp only [hn, Bool.false_eq_true, ↓reduceIte, Option.some.injEq] at hs
      subst hs
      have h1 := removeTerm_acc h id
      have hslot : (d.removeTerm id).terms[id]? = some none := by
        rcases removeTerm_slot d id with h | h
        · exact h
        · -- the id is inside the table since the term existed
          exfalso
          rw [hasTerm_iff] at hh
          cases hg : d.getTerm id with
          | none => rw [hg] at hh; cases hh
          | some t0 =>
            have hlt := (List.getElem?_eq_some_iff.mp (getTerm_some hg)).1
            have hlen : (d.removeTerm id).terms.length = d.terms.length := by unfold TD.removeTerm; split <;> simp
            rw [List.getElem?_eq_none_iff] at h
            omega
      unfold Acc at *
      rw [reachable_eq] at h1 ⊢
      have hsum := sum_set heapT (d.removeTerm id).terms id (some t) none hslot
      simp only [heapT] at hsum
      show (d.removeTerm id).live + t.heap = (((d.removeTerm id).terms.set id (some t)).map heapT).sum +
        ((d.removeTerm id).elems.map heapE).sum + (d.removeTerm id).atoms.length
      omega
  · have hh' : d.hasTerm id = false := by simpa using hh
    simp only [hh', Bool.not_false, ↓reduceIte, Option.some.injEq] at hs
    subst hs
    unfold Acc at *
    rw [reachable_eq] at h ⊢
    have hslot : (padTo d.terms (id + 1))[id]? = some none := by
      have hno : (d.terms[id]?).join = none := by
        have : (d.getTerm id).isSome = false := hh'
        unfold TD.getTerm at this
        cases hq : (d.terms[id]?).join with
        | none => rfl
        | some t0 => rw [hq] at this; cases this
      unfold padTo
      by_cases hl : id < d.terms.length
      · rw [List.getElem?_append_left hl]
        rcases slot_of_not_has d.terms id hno with h | h
        · exact h
        · rw [List.getElem?_eq_none_iff] at h; omega
      · rw [List.getElem?_append_right (by omega), List.getElem?_replicate]
        have : id - d.terms.length < id + 1 - d.terms.length := by omega
        simp [this]
    have hsum := sum_set heapT (padTo d.terms (id + 1)) id (some t) none hslot
    rw [sum_padTo heapT rfl] at hsum
    simp only [heapT] at hsum
    show d.live + t.heap = (((padTo d.terms (id + 1)).set id (some t)).map heapT).sum + (d.elems.map heapE).sum + d.atoms.length
    omega

theorem addElement_acc {d d' : TD} (h : Acc d) (id : Nat) (ts : List Nat) (c : Nat) (hs : d.addElement id ts c = some d') : Acc d' := by
  unfold TD.addElement at hs
  simp only at hs
  by_cases hh : d.hasElem id = true
  · simp only [hh, Bool.not_true, Bool.false_eq_true, ↓reduceIte] at hs
    by_cases hn : d.isNewElem id = true
    · simp [hn] at hs
    · simp only [hn, Bool.false_eq_true, ↓reduceIte, Option.some.injEq] at hs
      subst hs
      unfold Acc at *
      rw [reachable_eq] at h ⊢
      cases hg : d.getElem id with
      | none => have : (d.getElem id).isSome = true := hh; rw [hg] at this; cases this
      | some e0 =>
        have hv := getElem_some hg
        have hsum := sum_set heapE d.elems id (some { terms := ts, cond := c, slot := c != 0 }) (some e0) hv
        simp only [heapE] at hsum
        show d.live = (List.map heapT d.terms).sum + ((d.elems.set id (some { terms := ts, cond := c, slot := c != 0 })).map heapE).sum + d.atoms.length
        omega
  · have hh' : d.hasElem id = false := by simpa using hh
    simp only [hh', Bool.not_false, ↓reduceIte, Option.some.injEq] at hs
    subst hs
    unfold Acc at *
    rw [reachable_eq] at h ⊢
    have hslot : (padTo d.elems (id + 1))[id]? = some none := by
      have hno : (d.elems[id]?).join = none := by
        have : (d.getElem id).isSome = false := hh'
        unfold TD.getElem at this
        cases hq : (d.elems[id]?).join with
        | none => rfl
        | some t0 => rw [hq] at this; cases this
      unfold padTo
      by_cases hl : id < d.elems.length
      · rw [List.getElem?_append_left hl]
        rcases slot_of_not_has d.elems id hno with h | h
        · exact h
        · rw [List.getElem?_eq_none_iff] at h; omega
      · rw [List.getElem?_append_right (by omega), List.getElem?_replicate]
        have : id - d.elems.length < id + 1 - d.elems.length := by omega
        simp [this]
    have hsum := sum_set heapE (padTo d.elems (id + 1)) id (some { terms := ts, cond := c, slot := c != 0 }) none hslot
    rw [sum_padTo heapE rfl] at hsum
    simp only [heapE] at hsum
    show d.live + 1 = (List.map heapT d.terms).sum + (((padTo d.elems (id + 1)).set id (some { terms := ts, cond := c, slot := c != 0 })).map heapE).sum + d.atoms.length
    omega

theorem setCondition_acc {d d' : TD} (h : Acc d) (id c : Nat) (hs : d.setCondition id c = some d') : Acc d' := by
  unfold TD.setCondition at hs
  cases hg : d.getElem id with
  | none => simp [hg] at hs
  | some e =>
    simp only [hg] at hs
    by_cases hc : (e.cond == COND_DEFERRED) = true
    · simp only [hc, ↓reduceIte, Option.some.injEq] at hs
      subst hs
      unfold Acc at *
      rw [reachable_eq] at h ⊢
      have hv : d.elems[id]? = some (some e) := getElem_some hg
      have hsum := sum_set heapE d.elems id (some { e with cond := c }) (some e) hv
      simp only [heapE] at hsum
      show d.live = (List.map heapT d.terms).sum + ((d.elems.set id (some { e with cond := c })).map heapE).sum + d.atoms.length
      omega
    · simp [hc] at hs

theorem filter_acc {d : TD} (h : Acc d) (f : Atom → Bool) : Acc (d.filter f) := by
  unfold Acc at *
  rw [reachable_eq] at h ⊢
  unfold TD.filter
  simp only
  have h1 : (d.atoms.take d.fAtom).length + (d.atoms.drop d.fAtom).length = d.atoms.length := by
    rw [← List.length_append, List.take_append_drop]
  have h2 := List.length_filter_le (fun a => a.atom == 0 || !f a) (d.atoms.drop d.fAtom)
  rw [List.length_append]
  omega

/-! ### histories -/

inductive Op where
  | addTerm (id : Nat) (t : Term) | removeTerm (id : Nat) | addElement (id : Nat) (ts : List Nat) (c : Nat)
  | addAtom (a : Atom) | setCondition (id c : Nat) | filter (m : Nat) | update | reset
deriving Repr, DecidableEq

/-- one operation; a refused operation (exception) leaves the store unchanged. -/
def step (d : TD) : Op → TD
  | .addTerm id t => (d.addTerm id t).getD d
  | .removeTerm id => d.removeTerm id
  | .addElement id ts c => (d.addElement id ts c).getD d
  | .addAtom a => d.addAtom a
  | .setCondition id c => (d.setCondition id c).getD d
  | .filter m => d.filter (fun a => a.atom % m == 0)
  | .update => d.update
  | .reset => d.reset

def run : TD → List Op → TD
  | d, [] => d
  | d, op :: ops => run (step d op) ops

theorem step_acc {d : TD} (h : Acc d) (op : Op) : Acc (step d op) := by
  cases op with
  | addTerm id t =>
    simp only [step]
    cases hs : d.addTerm id t with
    | none => exact h
    | some d' => exact addTerm_acc h id t hs
  | removeTerm id => exact removeTerm_acc h id
  | addElement id ts c =>
    simp only [step]
    cases hs : d.addElement id ts c with
    | none => exact h
    | some d' => exact addElement_acc h id ts c hs
  | addAtom a =>
    unfold Acc at *; rw [reachable_eq] at h ⊢
    show d.live + 1 = (List.map heapT d.terms).sum + (List.map heapE d.elems).sum + (d.atoms ++ [a]).length
    simp; omega
  | setCondition id c =>
    simp only [step]
    cases hs : d.setCondition id c with
    | none => exact h
    | some d' => exact setCondition_acc h id c hs
  | filter m => exact filter_acc h _
  | update => exact h
  | reset => rfl

/-- **C12_heap.** After any history of operations the number of live heap blocks equals the number of
    blocks reachable from the tables: no operation sequence leaks a block or frees one twice (a double free
    would make `live` smaller than `reachable`); and after `reset` — which is what the destructor runs —
    nothing is live. -/
theorem C12_heap (ops : List Op) : (run {} ops).live = (run {} ops).reachable ∧ ((run {} ops).reset).live = 0 := by
  have key : ∀ (ops : List Op) (d : TD), Acc d → Acc (run d ops) := by
    intro ops
    induction ops with
    | nil => intro d h; exact h
    | cons op ops ih => intro d h; exact ih _ (step_acc h op)
  exact ⟨key ops {} rfl, rfl⟩

/-! ### the term table is a plain table -/

theorem C12_redefinition (d : TD) (id : Nat) (t : Term) : d.addTerm id t = none ↔ d.isNewTerm id = true := by
  unfold TD.addTerm TD.isNewTerm
  by_cases hh : d.hasTerm id = true
  · by_cases hn : decide (id ≥ d.fTerm) = true <;> simp [hh, hn, TD.isNewTerm]
  · have : d.hasTerm id = false := by simpa using hh
    simp [this]

theorem C12_new_iff (d : TD) (id : Nat) : d.isNewTerm id = true ↔ ((d.getTerm id).isSome ∧ id ≥ d.fTerm) := by
  unfold TD.isNewTerm TD.hasTerm; simp

theorem join_set (l : List (Option Term)) (id j : Nat) (x : Option Term) (h : id < l.length) :
    ((l.set id x)[j]?).join = if j = id then x else (l[j]?).join := by
  by_cases hj : j = id
  · subst hj; simp [h]
  · simp [hj, List.getElem?_set_ne (Ne.symm hj)]

/-- what was stored comes back; every other id is untouched. -/
theorem C12_term_add (d d' : TD) (id : Nat) (t : Term) (hs : d.addTerm id t = some d') (j : Nat) :
    d'.getTerm j = if j = id then some t else d.getTerm j := by
  unfold TD.addTerm at hs
  by_cases hh : d.hasTerm id = true
  · simp only [hh, Bool.not_true, Bool.false_eq_true, ↓reduceIte] at hs
    by_cases hn : d.isNewTerm id = true
    · simp [hn] at hs
    · simp only [hn, Bool.false_eq_true, ↓reduceIte, Option.some.injEq] at hs
      subst hs
      cases hg : d.getTerm id with
      | none => have : (d.getTerm id).isSome = true := hh; rw [hg] at this; cases this
      | some t0 =>
        have hlt := (List.getElem?_eq_some_iff.mp (getTerm_some hg)).1
        unfold TD.removeTerm
        simp only [hg]
        unfold TD.getTerm
        simp only
        rw [List.set_set]
        exact join_set d.terms id j (some t) hlt
  · have hh' : d.hasTerm id = false := by simpa using hh
    simp only [hh', Bool.not_false, ↓reduceIte, Option.some.injEq] at hs
    subst hs
    unfold TD.getTerm
    simp only
    have hlen : id < (padTo d.terms (id + 1)).length := by unfold padTo; simp; omega
    rw [join_set (padTo d.terms (id + 1)) id j (some t) hlen]
    by_cases hj : j = id
    · simp [hj]
    · simp only [hj, ↓reduceIte]
      unfold padTo
      by_cases hl : j < d.terms.length
      · rw [List.getElem?_append_left hl]
      · rw [List.getElem?_append_right (by omega), List.getElem?_replicate]
        have hn : d.terms[j]? = none := List.getElem?_eq_none_iff.mpr (by omega)
        rw [hn]; split <;> simp

/-- a removed id is absent; every other id is untouched. -/
theorem C12_term_remove (d : TD) (id j : Nat) :
    (d.removeTerm id).getTerm j = if j = id then none else d.getTerm j := by
  unfold TD.removeTerm
  cases hg : d.getTerm id with
  | none => by_cases hj : j = id <;> simp [hj, hg]
  | some t0 =>
    have hlt := (List.getElem?_eq_some_iff.mp (getTerm_some hg)).1
    unfold TD.getTerm
    simp only
    exact join_set d.terms id j none hlt

/-! non-vacuity -/
example : ((run {} [.addTerm 3 (.num 1), .addTerm 3 (.comp 0 []), .update, .addTerm 3 (.comp (-1) [1, 2]), .addTerm 0 (.sym [97])]).getTerm 3)
    = some (.comp (-1) [1, 2]) := by decide
example : (run {} [.addTerm 3 (.sym [97]), .addAtom ⟨2, 3, [], none⟩, .update, .addAtom ⟨4, 3, [0], some (1, 2)⟩, .filter 2]).live = 2 := by decide

end PotasscoVerif.C12
