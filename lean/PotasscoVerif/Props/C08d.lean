/-
  C08 (continued) — acyclicity edges over SEVERAL incremental steps: a corollary of `C02_steps_equivalence` (Props/C02o.lean), as
  `C08_edges_active` is one of `C02_equivalence_ext`.
-/
import PotasscoVerif.Props.C08c
import PotasscoVerif.Props.C02o
namespace PotasscoVerif.C08
open PotasscoVerif PotasscoVerif.Asp PotasscoVerif.Convert PotasscoVerif.C02

/-- **C08 (edges, several steps)**: for incremental programs of ANY number of steps of rules, minimize, output and edge directives (node numbers in the
    int range; no output directive uses an `_edge(…)` helper name; no external directives; either setting of the extension): the program given so far
    and the program emitted so far have the same answer sets one to one, and under corresponding answer sets an edge `(a,b)` — given in ANY step — is
    active iff the emitted program shows `_edge(a,b)`. -/
theorem C08_steps_edges_active (ext : Bool) (dss : List (List Call)) (hx : ∀ ds ∈ dss, ∀ d ∈ ds, PlainOk d)
    (hnh : ∀ ds ∈ dss, ∀ d ∈ ds, isHeu d = false) (hE : ∀ ds ∈ dss, extCalls ds = [])
    (hr : ∀ a b cond, Call.acycEdge a b cond ∈ dss.flatten → (-2147483648 ≤ a ∧ a ≤ 2147483647) ∧ (-2147483648 ≤ b ∧ b ≤ 2147483647))
    (hno : ∀ n cond, Call.output n cond ∈ dss.flatten → ∀ a b, n ≠ edgeName a b) :
    ∃ E : I → I,
      (∀ X, Stable (rulesOf dss.flatten) X → Stable (rulesOf (convert ext (stepsCalls dss)).out) (E X) ∧ E X 1 = false) ∧
      (∀ X', Stable (rulesOf (convert ext (stepsCalls dss)).out) X' → X' 1 = false → ∃ X, Stable (rulesOf dss.flatten) X ∧ E X = X') ∧
      (∀ X a b, (-2147483648 ≤ a ∧ a ≤ 2147483647) → (-2147483648 ≤ b ∧ b ≤ 2147483647) →
        (edgeActive dss.flatten X a b ↔ shownOut (convert ext (stepsCalls dss)).out (E X) (edgeName a b))) := by
  obtain ⟨E, h1, h2, h3⟩ := C02_steps_equivalence ext dss hx hnh hE
  refine ⟨E, fun X hs => ⟨(h1 X hs).1, (h1 X hs).2.1⟩, fun X' hs h0 => ⟨_, (h2 X' hs h0).1, (h2 X' hs h0).2⟩, ?_⟩
  intro X a b ha hb
  rw [← h3 X (edgeName a b)]
  unfold edgeActive C02.shown
  constructor
  · rintro ⟨cond, hm, hb'⟩
    exact ⟨cond, (srcOuts_mem dss.flatten _ cond).mpr (Or.inr ⟨a, b, hm, rfl⟩), hb'⟩
  · rintro ⟨cond, hm, hb'⟩
    rcases (srcOuts_mem dss.flatten _ cond).mp hm with h | ⟨a', b', h, e⟩
    · exact absurd rfl (hno _ cond h a b)
    · obtain ⟨ra, rb⟩ := hr a' b' cond h
      obtain ⟨e1, e2⟩ := edgeName_inj a b a' b' ha hb ra rb e
      subst e1; subst e2
      exact ⟨cond, h, hb'⟩

/-- **C08 (edges, several steps, ANY external directives, extensions on)**: as `C08_steps_edges_active`, with the externals passed on and read by `progOf` -/
theorem C08_steps_edges_active_ext (dss : List (List Call)) (hx : ∀ ds ∈ dss, ∀ d ∈ ds, PlainOk d)
    (hnh : ∀ ds ∈ dss, ∀ d ∈ ds, isHeu d = false)
    (hr : ∀ a b cond, Call.acycEdge a b cond ∈ dss.flatten → (-2147483648 ≤ a ∧ a ≤ 2147483647) ∧ (-2147483648 ≤ b ∧ b ≤ 2147483647))
    (hno : ∀ n cond, Call.output n cond ∈ dss.flatten → ∀ a b, n ≠ edgeName a b) :
    ∃ E : I → I,
      (∀ X, Stable (progOf dss.flatten) X → Stable (progOf (convert true (stepsCalls dss)).out) (E X) ∧ E X 1 = false) ∧
      (∀ X', Stable (progOf (convert true (stepsCalls dss)).out) X' → X' 1 = false → ∃ X, Stable (progOf dss.flatten) X ∧ E X = X') ∧
      (∀ X a b, (-2147483648 ≤ a ∧ a ≤ 2147483647) → (-2147483648 ≤ b ∧ b ≤ 2147483647) →
        (edgeActive dss.flatten X a b ↔ shownOut (convert true (stepsCalls dss)).out (E X) (edgeName a b))) := by
  obtain ⟨E, h1, h2, h3⟩ := C02_steps_equivalence_ext dss hx hnh
  refine ⟨E, fun X hs => ⟨(h1 X hs).1, (h1 X hs).2.1⟩, fun X' hs h0 => ⟨_, (h2 X' hs h0).1, (h2 X' hs h0).2⟩, ?_⟩
  intro X a b ha hb
  rw [← h3 X (edgeName a b)]
  unfold edgeActive C02.shown
  constructor
  · rintro ⟨cond, hm, hb'⟩
    exact ⟨cond, (srcOuts_mem dss.flatten _ cond).mpr (Or.inr ⟨a, b, hm, rfl⟩), hb'⟩
  · rintro ⟨cond, hm, hb'⟩
    rcases (srcOuts_mem dss.flatten _ cond).mp hm with h | ⟨a', b', h, e⟩
    · exact absurd rfl (hno _ cond h a b)
    · obtain ⟨ra, rb⟩ := hr a' b' cond h
      obtain ⟨e1, e2⟩ := edgeName_inj a b a' b' ha hb ra rb e
      subst e1; subst e2
      exact ⟨cond, h, hb'⟩

/-- non-vacuity: an edge in the first step, another in the second -/
def exEdgeSteps : List (List Call) := [[.rule 1 [1, 2] [], .acycEdge 0 1 [1]], [.rule 0 [3] [2], .acycEdge 1 0 [3, -1]]]

example : (∀ ds ∈ exEdgeSteps, ∀ d ∈ ds, PlainOk d) ∧ (∀ ds ∈ exEdgeSteps, ∀ d ∈ ds, isHeu d = false) ∧ (∀ ds ∈ exEdgeSteps, extCalls ds = []) := by
  refine ⟨?_, ?_, ?_⟩ <;> simp [exEdgeSteps, PlainOk, isHeu, extCalls, extOf]

end PotasscoVerif.C08
