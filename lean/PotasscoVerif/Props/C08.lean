/-
  C08 — heuristic, edge and external directives survive the trip through smodels format.
  Theorems tying the texts written by Model/Convert.lean to the matchers of Model/SmodelsSym.lean
  (both tied to the C++ by the `cv` / `so` correspondences).
-/
import PotasscoVerif.Model.SmodelsSym
import PotasscoVerif.Model.Convert
import PotasscoVerif.Props.C16
namespace PotasscoVerif.C08
open PotasscoVerif PotasscoVerif.SmodelsSym PotasscoVerif.Decimal
open PotasscoVerif.AspifOut (printInt printNat)
open PotasscoVerif.BufferedStream (isDigit)

/-- a plain predicate argument: no parenthesis, comma or quote -/
def ArgSafe (n : List Nat) : Prop := ∀ c ∈ n, c ≠ 40 ∧ c ≠ 41 ∧ c ≠ 44 ∧ c ≠ 34

theorem argScan_safe (name : List Nat) (h : ArgSafe name) (f : Nat) (hf : name.length < f) (t : Nat) (ht : t = 44 ∨ t = 41) (rest acc : List Nat) :
    argScan f (name ++ t :: rest) 0 false false acc = some (acc ++ name, t :: rest) := by
  induction name generalizing f acc with
  | nil =>
    cases f with
    | zero => simp at hf
    | succ f =>
      rcases ht with ht | ht <;> subst ht <;> simp [argScan]
  | cons c r ih =>
    cases f with
    | zero => simp at hf
    | succ f =>
      have hc := h c (by simp)
      have e1 : (c == 40) = false := by simpa using hc.1
      have e2 : (c == 41) = false := by simpa using hc.2.1
      have e3 : (c == 44) = false := by simpa using hc.2.2.1
      have e4 : (c == 34) = false := by simpa using hc.2.2.2
      simp only [List.cons_append, argScan, Bool.false_eq_true, ↓reduceIte, e1, e2, e3, e4]
      rw [ih (fun x hx => h x (by simp [hx])) f (by simp at hf; omega)]
      simp

theorem atomArg_safe (name : List Nat) (h : ArgSafe name) (hne : name ≠ []) (t : Nat) (ht : t = 44 ∨ t = 41) (rest : List Nat) :
    atomArg (name ++ t :: rest) = (true, name, t :: rest) := by
  unfold atomArg
  rw [argScan_safe name h _ (by simp; omega) t ht rest []]
  cases name with
  | nil => exact absurd rfl hne
  | cons c r => simp

theorem heuType_name (t : Nat) (ht : t < 6) (rest : List Nat) : heuType heuNames 0 (Convert.heuName t ++ 44 :: rest) = some (t, 44 :: rest) := by
  have : t = 0 ∨ t = 1 ∨ t = 2 ∨ t = 3 ∨ t = 4 ∨ t = 5 := by omega
  rcases this with h | h | h | h | h | h <;> subst h <;> simp [heuType, heuNames, Convert.heuName, s, Convert.s, List.isPrefixOf]

theorem printInt_sign (v : Int) : ∃ sg : Sign, printInt v = sg.text ++ printNat v.natAbs ∧ (sg = .minus ↔ v < 0) ∧ sg ≠ .plus := by
  by_cases h : v < 0
  · exact ⟨.minus, by simp [printInt, h, Sign.text], by simp [h], by simp⟩
  · refine ⟨.none, ?_, by simp [h], by simp⟩
    have : v.toNat = v.natAbs := by omega
    simp [printInt, h, Sign.text, this]

theorem cInt_printInt (v : Int) (hv : -2147483648 ≤ v ∧ v ≤ 2147483647) (k : List Nat) (hk : NDS k) : cInt (printInt v ++ k) = some (v, k) := by
  obtain ⟨sg, he, hneg, _⟩ := printInt_sign v
  unfold cInt
  rw [he, List.append_assoc, C16.strto_decimal sg (printNat v.natAbs) k (printNat_digits _) (printNat_ne_nil _) hk]
  simp only [val_printNat]
  have hlen : ¬ (sg.text.length + (printNat v.natAbs).length = 0) := by
    have := printNat_ne_nil v.natAbs
    cases h : printNat v.natAbs with
    | nil => exact absurd h this
    | cons d r => simp
  by_cases hv0 : v < 0
  · have : sg = .minus := hneg.mpr hv0
    subst this
    have e : -(v.natAbs : Int) = v := by omega
    simp only [decide_true, ↓reduceIte, e]
    have : ¬ ((Sign.minus.text.length + (printNat v.natAbs).length == 0) = true ∨ v < -2147483648 ∨ v > 2147483647) := by
      simp only [beq_iff_eq]; intro h; rcases h with h | h | h
      · exact hlen h
      · omega
      · omega
    rw [if_neg this]
    simp [List.drop_left']
  · have hs : ¬ sg = .minus := fun e => hv0 (hneg.mp e)
    have e : (v.natAbs : Int) = v := by omega
    simp only [hs, decide_false, Bool.false_eq_true, ↓reduceIte, e]
    have : ¬ ((sg.text.length + (printNat v.natAbs).length == 0) = true ∨ v < -2147483648 ∨ v > 2147483647) := by
      simp only [beq_iff_eq]; intro h; rcases h with h | h | h
      · exact hlen h
      · omega
      · omega
    rw [if_neg this]
    simp [List.drop_left']

/-- the text `SmodelsConvert::flushHeuristic` writes -/
def heuText (name : List Nat) (t : Nat) (bias : Int) (prio : Nat) : List Nat :=
  Convert.s "_heuristic(" ++ name ++ [44] ++ Convert.heuName t ++ [44] ++ printInt bias ++ [44] ++ printNat prio ++ [41]

theorem nds_cons (c : Nat) (r : List Nat) (h : isDigit c = false) : NDS (c :: r) := NDS_cons h

/-- **C08 (heuristic predicate)**: for every plain target name, every modifier, every bias in the int range (INT_MIN
    included) and every priority up to 2^31−1, the text the converter writes is recognised by `matchDomHeuPred` and gives
    back exactly name, modifier, bias and priority, with nothing left over. -/
theorem C08_heuristic_text_roundtrip (name : List Nat) (hn : ArgSafe name) (hne : name ≠ []) (t : Nat) (ht : t < 6)
    (bias : Int) (hb : -2147483648 ≤ bias ∧ bias ≤ 2147483647) (prio : Nat) (hp : prio ≤ 2147483647) :
    domHeuPred (heuText name t bias prio) = (1, name, t, bias, prio, []) := by
  unfold domHeuPred heuText
  have e0 : eat (s "_heuristic(") (Convert.s "_heuristic(" ++ name ++ [44] ++ Convert.heuName t ++ [44] ++ printInt bias ++ [44] ++ printNat prio ++ [41])
      = (true, name ++ 44 :: (Convert.heuName t ++ 44 :: (printInt bias ++ 44 :: (printNat prio ++ [41])))) := by
    simp [eat, s, Convert.s]
  simp only [e0, Bool.not_true, Bool.false_eq_true, ↓reduceIte]
  rw [atomArg_safe name hn hne 44 (Or.inl rfl)]
  have e1 : ∀ r : List Nat, eat [44] (44 :: r) = (true, r) := by intro r; simp [eat]
  simp only [Bool.not_true, Bool.false_eq_true, ↓reduceIte, e1, heuType_name t ht]
  rw [cInt_printInt bias hb _ (nds_cons 44 _ (by decide))]
  simp only [e1, Bool.not_true, Bool.false_eq_true, ↓reduceIte]
  have hpi : printNat prio = printInt (prio : Int) := by
    unfold printInt; have : ¬ ((prio : Int) < 0) := by omega
    simp [this]
  rw [hpi, cInt_printInt (prio : Int) (by omega) _ (nds_cons 41 _ (by decide))]
  have : ¬ ((prio : Int) < 0) := by omega
  simp [this, eat]

/-- the text `SmodelsConvert::acycEdge` writes -/
def edgeText (a b : Int) : List Nat := Convert.s "_edge(" ++ printInt a ++ [44] ++ printInt b ++ [41]

theorem printInt_argSafe (v : Int) : ArgSafe (printInt v) ∧ printInt v ≠ [] := by
  obtain ⟨sg, he, _, hpl⟩ := printInt_sign v
  constructor
  · intro c hc
    rw [he] at hc
    simp only [List.mem_append] at hc
    rcases hc with hc | hc
    · cases sg with
      | none => simp [Sign.text] at hc
      | plus => exact absurd rfl hpl
      | minus => simp [Sign.text] at hc; subst hc; decide
    · have := printNat_digits _ c hc
      simp [isDigit] at this; omega
  · rw [he]; intro h
    have := printNat_ne_nil v.natAbs
    simp at h; exact this h.2

/-- **C08 (edge predicate)**: `_edge(s,t)` as written by the converter is recognised by `matchEdgePred` and gives back the
    decimal texts of both node numbers (negative ones included). -/
theorem C08_edge_text_roundtrip (a b : Int) : edgePred (edgeText a b) = (1, printInt a, printInt b, []) := by
  unfold edgePred edgeText
  have hac : eat (s "_acyc_") (Convert.s "_edge(" ++ printInt a ++ [44] ++ printInt b ++ [41]) = (false, Convert.s "_edge(" ++ printInt a ++ [44] ++ printInt b ++ [41]) := by
    simp [eat, s, Convert.s, List.isPrefixOf]
  have he : eat (s "_edge(") (Convert.s "_edge(" ++ printInt a ++ [44] ++ printInt b ++ [41]) = (true, printInt a ++ 44 :: (printInt b ++ 41 :: [])) := by
    simp [eat, s, Convert.s]
  simp only [hac, he]
  simp only [Bool.not_false, ↓reduceIte, Option.bind_eq_bind, Option.bind_none, Bool.not_true, Bool.false_eq_true, bind, Option.bind]
  rw [atomArg_safe _ (printInt_argSafe a).1 (printInt_argSafe a).2 44 (Or.inl rfl)]
  have e1 : ∀ r : List Nat, eat [44] (44 :: r) = (true, r) := by intro r; simp [eat]
  simp only [Bool.not_true, Bool.false_eq_true, ↓reduceIte, e1]
  rw [atomArg_safe _ (printInt_argSafe b).1 (printInt_argSafe b).2 41 (Or.inr rfl)]
  simp [eat]

/-! ## node numbering -/
theorem idxOf_some (n : List Nat) (l : List (List Nat)) (i k : Nat) (h : idxOf? n l i = some k) : i ≤ k ∧ l[k - i]? = some n := by
  induction l generalizing i with
  | nil => simp [idxOf?] at h
  | cons x r ih =>
    unfold idxOf? at h
    split at h
    · rename_i hx; simp at h; subst h; simp at hx; simp [hx]
    · have := ih (i + 1) h
      refine ⟨by omega, ?_⟩
      have e : k - i = (k - (i + 1)) + 1 := by omega
      rw [e]; simpa using this.2

theorem idxOf_none (n : List Nat) (l : List (List Nat)) (i : Nat) (h : idxOf? n l i = none) : n ∉ l := by
  induction l generalizing i with
  | nil => simp
  | cons x r ih =>
    unfold idxOf? at h
    split at h
    · cases h
    · rename_i hx
      simp only [List.mem_cons, not_or]
      exact ⟨fun e => hx (by simp [e]), ih (i + 1) h⟩

theorem idxOf_mem (n : List Nat) (l : List (List Nat)) (i : Nat) (h : n ∈ l) : ∃ k, idxOf? n l i = some k := by
  induction l generalizing i with
  | nil => cases h
  | cons x r ih =>
    unfold idxOf?
    split
    · exact ⟨i, rfl⟩
    · rename_i hx
      simp only [List.mem_cons] at h
      rcases h with h | h
      · exact absurd (by simp [h]) hx
      · exact ih (i + 1) h

/-- what `NodeTab::add` guarantees: the name sits at the returned number, old numbers are kept, no name sits twice -/
theorem addNode_spec (t : Tabs) (n : List Nat) (hnd : t.nodes.Nodup) :
    (t.addNode n).1.nodes[(t.addNode n).2]? = some n ∧ t.nodes <+: (t.addNode n).1.nodes ∧ (t.addNode n).1.nodes.Nodup := by
  unfold Tabs.addNode
  cases h : idxOf? n t.nodes 0 with
  | some k => have := idxOf_some n t.nodes 0 k h; simpa using ⟨this.2, hnd⟩
  | none =>
    have hn := idxOf_none n t.nodes 0 h
    refine ⟨by simp, by simp, ?_⟩
    rw [List.nodup_append]; exact ⟨hnd, by simp, fun a ha b hb => by simp at hb; subst hb; intro e; subst e; exact hn ha⟩

/-- **C08 (node renaming is injective)**: two node names get the same number iff they are the same name — the numbers the
    reader assigns to graph nodes are a renaming, never a merge; and a number once given is kept. -/
theorem C08_nodes_injective (t : Tabs) (n m : List Nat) (hnd : t.nodes.Nodup) :
    ((t.addNode n).2 = ((t.addNode n).1.addNode m).2 ↔ n = m) ∧ ((t.addNode n).1.addNode m).1.nodes.Nodup := by
  have h1 := addNode_spec t n hnd
  have h2 := addNode_spec (t.addNode n).1 m h1.2.2
  refine ⟨⟨?_, ?_⟩, h2.2.2⟩
  · intro e
    have a1 := h1.1
    have a2 := h2.1
    rw [← e] at a2
    obtain ⟨suffix, hs⟩ := h2.2.1
    rw [← hs] at a2
    have hlt : (t.addNode n).2 < (t.addNode n).1.nodes.length := by
      rcases Nat.lt_or_ge (t.addNode n).2 (t.addNode n).1.nodes.length with h | h
      · exact h
      · rw [List.getElem?_eq_none h] at a1; cases a1
    rw [List.getElem?_append_left hlt, a1] at a2
    exact Option.some.inj a2
  · intro e
    subst e
    -- the second lookup finds the name where the first one put it
    have a1 := h1.1
    have hnd1 := h1.2.2
    generalize (t.addNode n).1 = t1 at *
    generalize (t.addNode n).2 = i at *
    have hmem : n ∈ t1.nodes := List.mem_of_getElem? a1
    obtain ⟨k, hk⟩ := idxOf_mem n _ 0 hmem
    have hk2 := idxOf_some n _ 0 k hk
    have : t1.addNode n = (t1, k) := by simp [Tabs.addNode, hk]
    rw [this]
    have a2 : t1.nodes[k]? = some n := by simpa using hk2.2
    have hlt : i < t1.nodes.length := by
      rcases Nat.lt_or_ge i t1.nodes.length with h | h
      · exact h
      · rw [List.getElem?_eq_none h] at a1; cases a1
    exact (List.getElem?_inj hlt hnd1).mp (by rw [a1, a2])

/-! ## filtering -/
def isOutput : Call → Bool
  | .output .. => true
  | _ => false

/-- **C08 (filtering)**: with `dropConverted`, a symbol recognised as `_edge`/`_acyc_` (edges converted) or as
    `_heuristic` (heuristics converted) produces no output directive; every other symbol — and every symbol when filtering
    is off — produces exactly one, with its own name and atom. -/
theorem C08_filter_hides (o : Opts) (t : Tabs) (atom : Nat) (name : List Nat) (doms : List Heu) :
    let recognised := (o.cEdge && decide (0 < (edgePred name).1)) ||
      (o.cHeu && decide (0 < (domHeuPred (if o.cEdge then (edgePred name).2.2.2 else name)).1))
    ((symbol o t atom name doms).2.1.filter isOutput) = if o.filter && recognised then [] else [.output name [(atom : Int)]] := by
  unfold symbol record recognise
  cases hE : o.cEdge <;> cases hH : o.cHeu <;> cases hF : o.filter <;> simp only [Bool.false_and, Bool.true_and, Bool.false_eq_true, ↓reduceIte, Bool.false_or, Bool.or_false] <;>
    (try split) <;> (try split) <;> (try split) <;> simp_all [isOutput] <;> (try (intro h; omega)) <;> (try omega)
  all_goals (rw [if_neg (by omega)]; rfl)
end PotasscoVerif.C08
