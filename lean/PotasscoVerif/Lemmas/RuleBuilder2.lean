/-
  Helper lemmas for C11, second part: `clearHead`, `clearBody`, copies and `weaken` preserve the refinement relation.
-/
import PotasscoVerif.Lemmas.RuleBuilder
namespace PotasscoVerif.RuleBuilder
open PotasscoVerif.RuleSpec

theorem clearHead_ref {c a a'} (h0 : R c a) (hs : a.clearHead = some a') : R c.clearHead a' := by
  have h := R_unfreeze h0 false
  unfold AR.clearHead at hs
  unfold RB.clearHead
  generalize c.unfreeze false = c1 at h ⊢
  generalize a.unfreeze false = a1 at h hs
  simp only at hs
  by_cases h2 : a1.ht = 2
  · simp [h2] at hs
  · simp only [beq_iff_eq, h2, ↓reduceIte, Option.some.injEq] at hs
    subst hs
    have htg := h.top_ge; have htl := h.top_le
    -- where the body ends (HDR if there is none)
    have hbm : HDR ≤ max c1.body.mend HDR ∧ max c1.body.mend HDR ≤ c1.top := by
      constructor
      · exact Nat.le_max_right _ _
      · cases hb : a1.bStarted with
        | false => rw [(h.b_un hb).1]; simp; exact htg
        | true => have := h.b_st hb; exact Nat.max_le.mpr ⟨this.2.2.1, htg⟩
    refine ⟨h.noviol, h.fix, hbm.1, by simp only; omega, ?_, ?_, ?_, ?_, h.w1, ?_, ?_, ?_, ?_⟩
    · intro _; exact ⟨rfl, rfl, rfl⟩
    · intro hc; simp at hc
    · intro hb; exact h.b_un hb
    · intro hb
      have := h.b_st hb
      have hm : max c1.body.mend HDR = c1.body.mend := by have q1 := this.1; have q2 := this.2.1; first | omega | (split at q1 <;> omega)
      exact ⟨this.1, this.2.1, by simp only [hm]; omega, this.2.2.2.1, this.2.2.2.2.1, this.2.2.2.2.2⟩
    · intro hl
      simp only at hl
      split at hl
      · split at hl <;> cases hl
      · rename_i hne; exact absurd hl (by simpa using hne)
    · intro hl
      simp only at hl
      have hbs : a1.bStarted = true := by
        split at hl
        · split at hl
          · assumption
          · cases hl
        · exact (h.last_b hl).1
      have := h.b_st hbs
      have hm : max c1.body.mend HDR = c1.body.mend := by have q1 := this.1; have q2 := this.2.1; first | omega | (split at q1 <;> omega)
      exact ⟨hbs, by simp only [hm], fun hc => by simp at hc⟩
    · intro hl
      simp only at hl
      refine ⟨rfl, ?_⟩
      split at hl
      · split at hl
        · cases hl
        · rename_i hb; simpa using hb
      · exact (h.last_n hl).2
    · intro hc; simp at hc

theorem clearBody_ref {c a a'} (h0 : R c a) (hs : a.clearBody = some a') : R c.clearBody a' := by
  have h := R_unfreeze h0 false
  unfold AR.clearBody at hs
  unfold RB.clearBody
  generalize c.unfreeze false = c1 at h ⊢
  generalize a.unfreeze false = a1 at h hs
  simp only at hs
  by_cases h2 : a1.ht = 2
  · simp [h2] at hs
  · simp only [beq_iff_eq, h2, ↓reduceIte, Option.some.injEq] at hs
    subst hs
    have htg := h.top_ge; have htl := h.top_le
    have hhm : HDR ≤ max c1.head.mend HDR ∧ max c1.head.mend HDR ≤ c1.top := by
      constructor
      · exact Nat.le_max_right _ _
      · cases hb : a1.hStarted with
        | false => rw [(h.h_un hb).1]; simp; exact htg
        | true => have := h.h_st hb; exact Nat.max_le.mpr ⟨this.2.2.1, htg⟩
    refine ⟨h.noviol, h.fix, hhm.1, by simp only; omega, ?_, ?_, ?_, ?_, ?_, ?_, ?_, ?_, ?_⟩
    · intro hb; exact h.h_un hb
    · intro hb
      have := h.h_st hb
      have hm : max c1.head.mend HDR = c1.head.mend := by have q1 := this.1; have q2 := this.2.1; first | omega | (split at q1 <;> omega)
      exact ⟨this.1, this.2.1, by simp only [hm]; omega, this.2.2.2.1, this.2.2.2.2⟩
    · intro _; exact ⟨rfl, rfl, rfl⟩
    · intro hc; simp at hc
    · intro _ p hp; simp at hp
    · intro hl
      simp only at hl
      have hhs : a1.hStarted = true := by
        split at hl
        · split at hl
          · assumption
          · cases hl
        · exact (h.last_h hl).1
      have := h.h_st hhs
      have hm : max c1.head.mend HDR = c1.head.mend := by have q1 := this.1; have q2 := this.2.1; first | omega | (split at q1 <;> omega)
      exact ⟨hhs, by simp only [hm], fun hc => by simp at hc⟩
    · intro hl
      simp only at hl
      split at hl
      · split at hl <;> cases hl
      · rename_i hne; exact absurd hl (by simpa using hne)
    · intro hl
      simp only at hl
      refine ⟨?_, rfl⟩
      split at hl
      · split at hl
        · cases hl
        · rename_i hb; simpa using hb
      · exact (h.last_n hl).1
    · intro hc; exact absurd hc h2

theorem words_take (m : Mem) (n b e : Nat) (he : e ≤ HDR + n) : ({ data := m.data.take n, viol := m.viol } : Mem).words b e = m.words b e := by
  unfold Mem.words
  simp only [List.take_take]
  congr 2
  omega

theorem rd_take (m : Mem) (n i : Nat) (hi : i < HDR + n) (h0 : HDR ≤ i) : ({ data := m.data.take n, viol := m.viol } : Mem).rd i = m.rd i := by
  unfold Mem.rd
  simp only
  exact getD_take m.data n (i - HDR) (by omega)

/-- the copy constructor / assignment: only the `top` words in use are copied, the copy stands for the same rule -/
theorem copy_ref {c a} (h : R c a) : R c.copy a := by
  have htg := h.top_ge; have htl := h.top_le
  have hsz : c.copy.mem.size = c.top := by
    unfold RB.copy Mem.size at *; simp only [List.length_take]; omega
  have hv : c.copy.mem.viol = false := by
    unfold RB.copy RB.size; simp only [h.noviol, Bool.false_or, decide_eq_false_iff_not]; omega
  refine ⟨hv, h.fix, htg, by rw [hsz]; exact Nat.le_refl _, h.h_un, ?_, h.b_un, ?_, h.w1, h.last_h, h.last_b, h.last_n, h.min_sum⟩
  · intro hs
    have := h.h_st hs
    refine ⟨this.1, this.2.1, this.2.2.1, this.2.2.2.1, ?_⟩
    have e := words_take c.mem (c.top - HDR) c.head.mbeg c.head.mend (by omega)
    unfold RB.copy; simp only
    rw [← this.2.2.2.2, ← e]
    rfl
  · intro hs
    have := h.b_st hs
    refine ⟨this.1, this.2.1, this.2.2.1, this.2.2.2.1, ?_, ?_⟩
    · have e := words_take c.mem (c.top - HDR) c.body.mbeg c.body.mend (by omega)
      unfold RB.copy; simp only
      rw [← this.2.2.2.2.1, ← e]
      rfl
    · intro hne
      have h1 : HDR + 1 ≤ c.body.mbeg := by have := this.1; simp [hne] at this; exact this
      have e := rd_take c.mem (c.top - HDR) (c.body.mbeg - 1) (by omega) (by omega)
      unfold RB.copy; simp only
      rw [← this.2.2.2.2.2 hne, ← e]
      rfl

/-! ### memory as `A ++ M ++ B` -/

theorem wr_in (m : Mem) (i : Nat) (v : Int) (hi : HDR ≤ i) (hlt : i < m.size) (hv : m.viol = false) :
    (m.wr i v).data = m.data.set (i - HDR) v ∧ (m.wr i v).viol = false := by
  unfold Mem.wr Mem.inRange
  simp [hv, hi, hlt]

/-- writing `vs` word by word over a region `old` of the same length -/
theorem wrSeq1_split : ∀ (vs old A B : List Int) (m : Mem) (pos : Nat), m.data = A ++ old ++ B → old.length = vs.length →
    A.length = pos - HDR → HDR ≤ pos → m.viol = false →
    (m.wrSeq pos 1 vs).data = A ++ vs ++ B ∧ (m.wrSeq pos 1 vs).viol = false := by
  intro vs
  induction vs with
  | nil =>
    intro old A B m pos hd hl _ _ hv
    have : old = [] := List.eq_nil_of_length_eq_zero (by simpa using hl)
    subst this
    exact ⟨by simpa [Mem.wrSeq] using hd, hv⟩
  | cons v vs ih =>
    intro old A B m pos hd hl hA hp hv
    cases old with
    | nil => simp at hl
    | cons o os =>
      have hsz : pos < m.size := by unfold Mem.size; rw [hd]; simp; omega
      obtain ⟨e1, v1⟩ := wr_in m pos v hp hsz hv
      have hset : (m.wr pos v).data = (A ++ [v]) ++ os ++ B := by
        rw [e1, hd, ← hA]
        simp [List.set_append_right]
      obtain ⟨e2, v2⟩ := ih os (A ++ [v]) B (m.wr pos v) (pos + 1) hset (by simpa using hl) (by simp; omega) (by omega) v1
      exact ⟨by simp only [Mem.wrSeq]; rw [e2]; simp, by simp only [Mem.wrSeq]; exact v2⟩

def flat (l : List (Int × Int)) : List Int := l.flatMap (fun p => [p.1, p.2])

/-- setting every weight of a region of (literal, weight) pairs to 1 -/
theorem wrSeq2_split : ∀ (wl : List (Int × Int)) (A B : List Int) (m : Mem) (base : Nat), m.data = A ++ flat wl ++ B →
    A.length = base - HDR → HDR ≤ base → m.viol = false →
    (m.wrSeq (base + 1) 2 (wl.map (fun _ => 1))).data = A ++ flat (wl.map (fun p => (p.1, 1))) ++ B ∧
    (m.wrSeq (base + 1) 2 (wl.map (fun _ => 1))).viol = false := by
  intro wl
  induction wl with
  | nil => intro A B m base hd _ _ hv; exact ⟨by simpa [Mem.wrSeq, flat] using hd, hv⟩
  | cons p wl ih =>
    intro A B m base hd hA hb hv
    have hd' : m.data = A ++ (p.1 :: p.2 :: (flat wl ++ B)) := by rw [hd]; simp [flat]
    have hsz : base + 1 < m.size := by unfold Mem.size; rw [hd']; simp; omega
    obtain ⟨e1, v1⟩ := wr_in m (base + 1) 1 (by omega) hsz hv
    have hidx : base + 1 - HDR = A.length + 1 := by omega
    have hset : (m.wr (base + 1) 1).data = (A ++ [p.1, 1]) ++ flat wl ++ B := by
      rw [e1, hd', hidx]
      simp [List.set_append_right]
    obtain ⟨e2, v2⟩ := ih (A ++ [p.1, 1]) B (m.wr (base + 1) 1) (base + 2) hset (by simp; omega) (by omega) v1
    refine ⟨?_, ?_⟩
    · simp only [List.map_cons, Mem.wrSeq]; rw [e2]; simp [flat]
    · simp only [List.map_cons, Mem.wrSeq]; exact v2

/-- the words of a block that is `A ++ M ++ B` with `M` starting at word `x` -/
theorem words_split_mid (m : Mem) (A M B : List Int) (x : Nat) (hd : m.data = A ++ M ++ B) (hA : A.length = x - HDR) (hx : HDR ≤ x) :
    m.words x (x + M.length) = M := by
  unfold Mem.words
  have e1 : x + M.length - HDR = (A ++ M).length := by simp; omega
  rw [hd, e1, List.take_left', ← hA, List.drop_left'] <;> rfl

theorem words_split_low (m : Mem) (A M B : List Int) (x b e : Nat) (hd : m.data = A ++ M ++ B) (hA : A.length = x - HDR) (he : e ≤ x) :
    m.words b e = (A.take (e - HDR)).drop (b - HDR) := by
  unfold Mem.words
  rw [hd, List.append_assoc, List.take_append_of_le_length (by omega)]

theorem words_split_high (m : Mem) (A M B : List Int) (x b e : Nat) (hd : m.data = A ++ M ++ B) (hA : A.length = x - HDR) (hx : HDR ≤ x)
    (hb : x + M.length ≤ b) : m.words b e = (B.take (e - (x + M.length))).drop (b - (x + M.length)) := by
  by_cases hbe : e ≤ b
  · rw [words_empty m b e hbe]
    exact (List.drop_eq_nil_of_le (by simp; omega)).symm
  unfold Mem.words
  have hl : (A ++ M).length = x + M.length - HDR := by simp; omega
  rw [hd, List.take_append, List.drop_append, hl]
  have h1 : List.drop (b - HDR) (List.take (e - HDR) (A ++ M)) = [] := by
    apply List.drop_eq_nil_of_le; simp; omega
  have h2 : (List.take (e - HDR) (A ++ M)).length = min (e - HDR) (x + M.length - HDR) := by simp; omega
  rw [h1, List.nil_append, h2]
  congr 1
  · omega
  · congr 1; omega

theorem rd_split_low (m : Mem) (A M B : List Int) (x i : Nat) (hd : m.data = A ++ M ++ B) (hA : A.length = x - HDR) (hi : i < x) (h0 : HDR ≤ i) :
    m.rd i = A.getD (i - HDR) 0 := by
  unfold Mem.rd
  rw [hd, List.append_assoc]
  simp only [List.getD_eq_getElem?_getD]
  rw [List.getElem?_append_left (by omega)]

theorem data_split (m : Mem) (b e : Nat) (hb : HDR ≤ b) (hbe : b ≤ e) (he : e ≤ m.size) :
    m.data = m.data.take (b - HDR) ++ m.words b e ++ m.data.drop (e - HDR) ∧ (m.data.take (b - HDR)).length = b - HDR := by
  unfold Mem.size at he
  refine ⟨?_, by simp; omega⟩
  unfold Mem.words
  have h1 : (m.data.take (e - HDR)).drop (b - HDR) = (m.data.drop (b - HDR)).take (e - b) := by
    rw [List.drop_take]; congr 1; omega
  rw [h1]
  have h2 : m.data.drop (e - HDR) = (m.data.drop (b - HDR)).drop (e - b) := by
    rw [List.drop_drop]; congr 1; omega
  rw [h2, List.append_assoc, List.take_append_drop, List.take_append_drop]

/-! ### weaken -/

theorem size_of_data {m m' : Mem} (h : m'.data.length = m.data.length) : m'.size = m.size := by unfold Mem.size; rw [h]

theorem flat_length (l : List (Int × Int)) : (flat l).length = 2 * l.length := by
  induction l with
  | nil => rfl
  | cons p r ih => simp [flat] at ih ⊢; omega

theorem enc_nonzero (bt : Nat) (h : bt ≠ 0) (body : List (Int × Int)) : enc bt body = flat body := by simp [enc, h, flat]

theorem minWeight_eq (l : List (Int × Int)) : l.foldl (fun m p => if m > p.2 then p.2 else m) (l.headD (0, 0)).2 = minWeight l := rfl

/-- facts about a started sum-like body under the refinement relation -/
theorem sum_body_facts {c : RB} {a : AR} (h : R c a) (hbt : a.bt ≠ 0) :
    a.bStarted = true ∧ HDR + 1 ≤ c.body.mbeg ∧ c.body.mend = c.body.mbeg + 2 * a.body.length ∧ c.body.mend ≤ c.top ∧ c.body.type = a.bt ∧
    c.mem.words c.body.mbeg c.body.mend = flat a.body ∧ c.mem.rd (c.body.mbeg - 1) = a.bound ∧ pairs (c.words c.body) = a.body := by
  have hbs : a.bStarted = true := by
    cases hb : a.bStarted with
    | true => rfl
    | false => exact absurd (h.b_un hb).2.2 hbt
  have hb := h.b_st hbs
  have h1 : HDR + 1 ≤ c.body.mbeg := by have := hb.1; simp [hbt] at this; exact this
  have hw : c.mem.words c.body.mbeg c.body.mend = flat a.body := by rw [hb.2.2.2.2.1, enc_nonzero _ hbt]
  have hlen := words_length c.mem c.body.mbeg c.body.mend (by omega) hb.2.1 (by have := h.top_le; omega)
  rw [hw, flat_length] at hlen
  refine ⟨hbs, h1, by omega, hb.2.2.1, hb.2.2.2.1, hw, hb.2.2.2.2.2 hbt, ?_⟩
  unfold RB.words; rw [hw]; exact pairs_flatMap a.body

/-- the head keeps its words when the block changes only inside `[x, x + n)` and the head lies outside that range -/
theorem words_same_outside (m m' : Mem) (A M M' B : List Int) (x b e : Nat) (hd : m.data = A ++ M ++ B) (hd' : m'.data = A ++ M' ++ B)
    (hl : M'.length = M.length) (hA : A.length = x - HDR) (hx : HDR ≤ x) (ho : e ≤ x ∨ x + M.length ≤ b) : m'.words b e = m.words b e := by
  rcases ho with ho | ho
  · rw [words_split_low m' A M' B x b e hd' hA ho, words_split_low m A M B x b e hd hA ho]
  · rw [words_split_high m' A M' B x b e hd' hA hx (by omega), words_split_high m A M B x b e hd hA hx ho, hl]

theorem weaken_ref {c a a'} (h : R c a) (to : Nat) (w : Bool) (hs : a.weaken to w = some a') :
    ∃ c', c.weaken to w = some c' ∧ R c' a' := by
  unfold AR.weaken at hs
  by_cases h2 : a.ht = 2
  · simp [h2] at hs
  simp only [beq_iff_eq, h2, ↓reduceIte] at hs
  -- the body type of the block is the specification's
  have hty : c.body.type = a.bt := by
    cases hb : a.bStarted with
    | true => exact (h.b_st hb).2.2.2.1
    | false => rw [(h.b_un hb).1, (h.b_un hb).2.2]
  by_cases hsame : a.bt = 0 ∨ a.bt = to
  · have hc : (a.bt == 0 || a.bt == to) = true := by rcases hsame with e | e <;> simp [e]
    simp only [Bool.or_eq_true, beq_iff_eq, hsame, ↓reduceIte, Option.some.injEq] at hs
    subst hs
    refine ⟨c, ?_, h⟩
    unfold RB.weaken; rw [hty]; simp only [hc, ↓reduceIte]
  have hbt : a.bt ≠ 0 := fun e => hsame (Or.inl e)
  have hto : a.bt ≠ to := fun e => hsame (Or.inr e)
  have hcn : (a.bt == 0 || a.bt == to) = false := by simp [hbt, hto]
  simp only [Bool.or_eq_true, beq_iff_eq, hsame, ↓reduceIte] at hs
  obtain ⟨hbs, hm1, hmend, hmt, _, hwords, hbound, hpairs⟩ := sum_body_facts h hbt
  have htl := h.top_le
  -- where the head lies relative to the body
  have hhead : a.hStarted = true → (c.head.mend + 1 ≤ c.body.mbeg ∧ a.last = .body) ∨ (c.body.mend ≤ c.head.mbeg ∧ a.last = .head) := by
    intro hh
    cases hl : a.last with
    | none => exact absurd (h.last_n hl).1 (by simp [hh])
    | head => exact Or.inr ⟨(h.last_h hl).2.2 hbs, rfl⟩
    | body => have := (h.last_b hl).2.2 hh; simp only [hbt, ↓reduceIte] at this; exact Or.inl ⟨this, rfl⟩
  unfold RB.weaken
  rw [hty]
  simp only [hcn, Bool.false_eq_true, ↓reduceIte, hpairs]
  by_cases ht0 : to = 0
  · -- weaken to a normal body: the literals are compacted over the bound and the pairs
    subst ht0
    simp only [beq_self_eq_true, ↓reduceIte, Option.some.injEq] at hs ⊢
    subst hs
    refine ⟨_, rfl, ?_⟩
    have hn : (a.body.map (·.1)).length = a.body.length := by simp
    obtain ⟨hsplit, hAl⟩ := data_split c.mem (c.body.mbeg - 1) (c.body.mbeg - 1 + a.body.length) (by omega) (by omega) (by omega)
    have holdl := words_length c.mem (c.body.mbeg - 1) (c.body.mbeg - 1 + a.body.length) (by omega) (by omega) (by omega)
    obtain ⟨hd', hv'⟩ := wrSeq1_split (a.body.map (·.1)) _ _ _ c.mem (c.body.mbeg - 1) hsplit (by rw [holdl, hn]; omega) hAl (by omega) h.noviol
    have hsz : (c.mem.wrSeq (c.body.mbeg - 1) 1 (a.body.map (·.1))).size = c.mem.size := by
      apply size_of_data
      rw [hd']; conv => rhs; rw [hsplit]
      simp [holdl]
    have hheadw : a.hStarted = true → (c.mem.wrSeq (c.body.mbeg - 1) 1 (a.body.map (·.1))).words c.head.mbeg c.head.mend = c.mem.words c.head.mbeg c.head.mend := by
      intro hh
      refine words_same_outside c.mem _ _ _ _ _ (c.body.mbeg - 1) _ _ hsplit hd' (by rw [holdl, hn]; omega) hAl (by omega) ?_
      rcases hhead hh with ⟨q, _⟩ | ⟨q, _⟩
      · left; omega
      · right; rw [holdl]; omega
    refine ⟨hv', h.fix, ?_, ?_, h.h_un, ?_, ?_, ?_, ?_, ?_, ?_, ?_, ?_⟩
    · show HDR ≤ max c.head.mend (c.body.mbeg - 1 + a.body.length); omega
    · show max c.head.mend (c.body.mbeg - 1 + a.body.length) ≤ _
      rw [hsz]
      have : c.head.mend ≤ c.mem.size := by
        cases hh : a.hStarted with
        | true => have := (h.h_st hh).2.2.1; omega
        | false => rw [(h.h_un hh).1]; simp
      omega
    · intro hh
      have := h.h_st hh
      exact ⟨this.1, this.2.1, by show c.head.mend ≤ max _ _; omega, this.2.2.2.1, by show Mem.words _ _ _ = _; rw [hheadw hh]; exact this.2.2.2.2⟩
    · intro hb; simp [hbs] at hb
    · intro _
      refine ⟨by show HDR + _ ≤ c.body.mbeg - 1; simp; omega, by show c.body.mbeg - 1 ≤ c.body.mbeg - 1 + a.body.length; omega,
        by show c.body.mbeg - 1 + a.body.length ≤ max _ _; omega, rfl, ?_, fun hc => absurd rfl hc⟩
      show Mem.words _ (c.body.mbeg - 1) (c.body.mbeg - 1 + a.body.length) = enc 0 _
      have := words_split_mid _ _ (a.body.map (·.1)) _ (c.body.mbeg - 1) hd' hAl (by omega)
      rw [hn] at this
      rw [this]; simp [enc, List.map_map, Function.comp_def]
    · intro _ p hp; simp only [List.mem_map] at hp; obtain ⟨q, _, rfl⟩ := hp; rfl
    · intro hl
      have hl' : a.last = .head := hl
      have hh := (h.last_h hl').1
      rcases hhead hh with ⟨_, q⟩ | ⟨q, _⟩
      · rw [hl'] at q; cases q
      · have := h.h_st hh
        exact ⟨hh, by show c.head.mend = max _ _; omega, fun _ => by show c.body.mbeg - 1 + a.body.length ≤ c.head.mbeg; omega⟩
    · intro hl
      have hl' : a.last = .body := hl
      refine ⟨hbs, ?_, ?_⟩
      · show c.body.mbeg - 1 + a.body.length = max c.head.mend (c.body.mbeg - 1 + a.body.length)
        cases hh : a.hStarted with
        | false => rw [(h.h_un hh).1]; simp
        | true =>
          rcases hhead hh with ⟨q, _⟩ | ⟨_, q⟩
          · omega
          · rw [hl'] at q; cases q
      · intro hh
        show c.head.mend + _ ≤ c.body.mbeg - 1
        rcases hhead hh with ⟨q, _⟩ | ⟨_, q⟩
        · simp; omega
        · rw [hl'] at q; cases q
    · intro hl; have := h.last_n hl; simp [hbs] at this
    · intro hc; exact absurd hc h2
  · -- weaken to a count/sum type
    have ht0' : (to == 0) = false := by simp [ht0]
    simp only [ht0, ↓reduceIte, ht0', Bool.false_eq_true] at hs ⊢
    by_cases hreset : (to == 2 && w && !a.body.isEmpty) = true
    · simp only [hreset, ↓reduceIte] at hs ⊢
      rw [← h.fix] at hs
      cases hfix : c.fix with
      | true => simp [hfix] at hs
      | false =>
        simp only [hfix, Bool.false_eq_true, ↓reduceIte] at hs ⊢
        rw [minWeight_eq]
        by_cases hmn : minWeight a.body = 0
        · simp [hmn] at hs
        · simp only [beq_iff_eq, hmn, ↓reduceIte, Option.some.injEq] at hs ⊢
          subst hs
          refine ⟨_, rfl, ?_⟩
          have hto2 : to = 2 := by simp only [Bool.and_eq_true, beq_iff_eq] at hreset; exact hreset.1.1
          subst hto2
          obtain ⟨hsplit, hAl⟩ := data_split c.mem c.body.mbeg c.body.mend (by omega) (by omega) (by omega)
          rw [hwords] at hsplit
          obtain ⟨hd', hv'⟩ := wrSeq2_split a.body _ _ c.mem c.body.mbeg hsplit hAl (by omega) h.noviol
          have hfl : (flat (a.body.map (fun p => (p.1, (1 : Int))))).length = (flat a.body).length := by simp [flat_length]
          have hsz : (c.mem.wrSeq (c.body.mbeg + 1) 2 (a.body.map (fun _ => 1))).size = c.mem.size := by
            apply size_of_data
            rw [hd']; conv => rhs; rw [hsplit]
            simp [hfl]
          have hbp : c.boundPos = c.body.mbeg - 1 := rfl
          obtain ⟨_, hv2⟩ := wr_in (c.mem.wrSeq (c.body.mbeg + 1) 2 (a.body.map (fun _ => 1))) (c.body.mbeg - 1)
            (wrap32 ((a.bound + (minWeight a.body - 1)).tdiv (minWeight a.body))) (by omega) (by rw [hsz]; omega) hv'
          have hrd : c.rd c.boundPos = a.bound := hbound
          have hmendw : c.body.mbeg + (flat a.body).length = c.body.mend := by rw [flat_length]; omega
          have hbodyw : ((c.mem.wrSeq (c.body.mbeg + 1) 2 (a.body.map (fun _ => 1))).wr (c.body.mbeg - 1)
              (wrap32 ((a.bound + (minWeight a.body - 1)).tdiv (minWeight a.body)))).words c.body.mbeg c.body.mend = flat (a.body.map (fun p => (p.1, 1))) := by
            rw [words_wr_outside _ _ _ _ _ (by omega) (by omega) (Or.inl (by omega))]
            have := words_split_mid _ _ (flat (a.body.map (fun p => (p.1, (1 : Int))))) _ c.body.mbeg hd' hAl (by omega)
            rw [hfl, hmendw] at this
            exact this
          have hheadw : a.hStarted = true → ((c.mem.wrSeq (c.body.mbeg + 1) 2 (a.body.map (fun _ => 1))).wr (c.body.mbeg - 1)
              (wrap32 ((a.bound + (minWeight a.body - 1)).tdiv (minWeight a.body)))).words c.head.mbeg c.head.mend = c.mem.words c.head.mbeg c.head.mend := by
            intro hh
            have hq := hhead hh
            have hh' := h.h_st hh
            have hout : c.body.mbeg - 1 < c.head.mbeg ∨ c.head.mend ≤ c.body.mbeg - 1 := by
              rcases hq with ⟨q, _⟩ | ⟨q, _⟩
              · right; omega
              · left; omega
            rw [words_wr_outside _ _ _ _ _ (by omega) hh'.1 hout]
            refine words_same_outside c.mem _ _ _ _ _ c.body.mbeg _ _ hsplit hd' hfl hAl (by omega) ?_
            rcases hq with ⟨q, _⟩ | ⟨q, _⟩
            · left; omega
            · right; omega
          rw [hrd]
          simp only [hbp]
          refine ⟨hv2, rfl, h.top_ge, ?_, h.h_un, ?_, ?_, ?_, ?_, ?_, ?_, h.last_n, ?_⟩
          · show c.top ≤ Mem.size _
            rw [size_of_data (m := c.mem.wrSeq (c.body.mbeg + 1) 2 (a.body.map (fun _ => 1))) (by simp [Mem.wr]), hsz]; exact htl
          · intro hh
            have := h.h_st hh
            exact ⟨this.1, this.2.1, this.2.2.1, this.2.2.2.1, by show Mem.words _ _ _ = _; rw [hheadw hh]; exact this.2.2.2.2⟩
          · intro hb; simp [hbs] at hb
          · intro _
            refine ⟨by show HDR + _ ≤ c.body.mbeg; simp; omega, by show c.body.mbeg ≤ c.body.mend; omega, hmt, rfl, ?_, fun _ => ?_⟩
            · show Mem.words _ _ _ = enc 2 _
              rw [hbodyw, enc_nonzero 2 (by decide)]
            · show Mem.rd _ _ = _
              exact rd_wr_same _ _ _ (by omega) (by rw [hsz]; omega)
          · intro hc; simp at hc
          · intro hl
            have := h.last_h hl
            exact ⟨this.1, this.2.1, this.2.2⟩
          · intro hl
            have := h.last_b hl
            refine ⟨this.1, this.2.1, fun hh => ?_⟩
            have := this.2.2 hh
            simp only [hbt, ↓reduceIte] at this
            simpa using this
          · intro hc; exact absurd hc h2
    · -- only the type changes
      have hreset' : (to == 2 && w && !a.body.isEmpty) = false := by simpa using hreset
      simp only [hreset', Bool.false_eq_true, ↓reduceIte, Option.some.injEq] at hs ⊢
      subst hs
      refine ⟨_, rfl, ?_⟩
      have hb := h.b_st hbs
      refine ⟨h.noviol, h.fix, h.top_ge, h.top_le, h.h_un, h.h_st, ?_, ?_, ?_, h.last_h, ?_, h.last_n, ?_⟩
      · intro hc; simp [hbs] at hc
      · intro _
        refine ⟨by simp [ht0]; omega, hb.2.1, hb.2.2.1, rfl, ?_, fun _ => hbound⟩
        show c.mem.words _ _ = enc to a.body
        rw [enc_nonzero to ht0]; exact hwords
      · intro hc; exact absurd hc ht0
      · intro hl
        have := h.last_b hl
        refine ⟨this.1, this.2.1, fun hh => ?_⟩
        have := this.2.2 hh
        simp only [hbt, ↓reduceIte] at this
        simp only [ht0, ↓reduceIte]; exact this
      · intro hc; exact absurd hc h2

end PotasscoVerif.RuleBuilder
