/-
  The aspif round trip (C01), second part: theory directives, any directive, the directive loop of a step, the
  step loop of a program, the header; `write_read`: what `AspifOutput` writes for any well-formed program is read
  back by `AspifInput` as the same calls (without literals of weight 0), without error.
-/
import PotasscoVerif.Lemmas.AspifRoundTrip
namespace PotasscoVerif.AspifRT
open PotasscoVerif PotasscoVerif.AspifOut PotasscoVerif.AspifIn PotasscoVerif.CharStream PotasscoVerif.Decimal
open PotasscoVerif.BufferedStream (isWs isDigit I64MAX)

/-- a number written without the leading blank, after any blanks `ws` -/
theorem posMax_ws (m n : Nat) (hn : n ≤ m) (hm : m ≤ I64MAX) (a : AS) (ws k : List Nat) (hws : ∀ c ∈ ws, isWs c = true)
    (hr : a.rest = ws ++ (printNat n ++ k)) (hk : Sp k) : ∃ a', posMax m a = .ok (n, a') ∧ a'.rest = k := by
  obtain ⟨a1, h1, hr1⟩ := matchInt_printInt a (n : Int) ws k (by rw [printInt_nat]; exact hr) hws hk.nds (by omega)
  unfold posMax intIn
  rw [h1]
  have : (0 : Int) ≤ (n : Int) ∧ (n : Int) ≤ (m : Int) := by omega
  simp only [this, and_self, ↓reduceIte, bind, Except.bind, pure, Except.pure, Int.toNat_natCast]
  exact ⟨a1, rfl, hr1⟩

theorem sp_addNats (l : List Nat) (k : List Nat) : Sp (addNats l ++ k) := by
  unfold addNats; rw [List.append_assoc]; exact sp_addN _ _
theorem sp_addLits (l : List Int) (k : List Nat) : Sp (addLits l ++ k) := by
  unfold addLits; rw [List.append_assoc]; exact sp_addN _ _
theorem sp_addWLits (l : List (Int × Int)) (k : List Nat) : Sp (addWLits l ++ k) := by
  unfold addWLits; rw [List.append_assoc]; exact sp_addN _ _
theorem sp_addStr (s : List Nat) (k : List Nat) : Sp (addStr s ++ k) := by
  unfold addStr; rw [List.append_assoc, List.append_assoc]; exact sp_addN _ _

/-- the text of a theory directive after the `9`: ` <kind> <id> …` -/
theorem theory_rt (c : Call) (hw : WFw c) (hc : dirCode c = Gen.Directive_t_Theory) (a : AS) (k : List Nat)
    (hr : a.rest = fields c ++ (nl ++ k)) :
    ∃ a', directive (N Gen.Directive_t_Theory) a = .ok (some c, a') ∧ a'.rest = nl ++ k := by
  have n1 : ¬ (N Gen.Directive_t_Theory = N Gen.Directive_t_Rule) := by decide
  have n2 : ¬ (N Gen.Directive_t_Theory = N Gen.Directive_t_Minimize) := by decide
  have n3 : ¬ (N Gen.Directive_t_Theory = N Gen.Directive_t_Project) := by decide
  have n4 : ¬ (N Gen.Directive_t_Theory = N Gen.Directive_t_Output) := by decide
  have n5 : ¬ (N Gen.Directive_t_Theory = N Gen.Directive_t_External) := by decide
  have n6 : ¬ (N Gen.Directive_t_Theory = N Gen.Directive_t_Assume) := by decide
  have n7 : ¬ (N Gen.Directive_t_Theory = N Gen.Directive_t_Heuristic) := by decide
  have n8 : ¬ (N Gen.Directive_t_Theory = N Gen.Directive_t_Edge) := by decide
  have hd : ∀ (tt : Nat) (a1 : AS) (r : Except Nat (Call × AS)), pos a = .ok (tt, a1) → theory tt a1 = r →
      directive (N Gen.Directive_t_Theory) a = (match r with | .ok (c, a) => .ok (some c, a) | .error l => .error l) := by
    intro tt a1 r h1 h2
    unfold directive
    simp only [↓reduceIte, n1, n2, n3, n4, n5, n6, n7, n8, h1, h2, bind, Except.bind, pure, Except.pure]
    cases r with
    | error l => rfl
    | ok v => rfl
  cases c with
  | theoryNum id n =>
    obtain ⟨hid, hn⟩ := hw
    simp only [fields, List.append_assoc] at hr
    have e : addI Gen.Theory_t_Number = addN 0 := by simp [addN_eq, Gen.Theory_t_Number]
    obtain ⟨a1, h1, r1⟩ := pos_addN 0 (by decide) a _ (by rw [hr, e]) (sp_addN _ _)
    obtain ⟨a2, h2, r2⟩ := pos_addN id hid a1 _ r1 (sp_addI _ _)
    obtain ⟨a3, h3, r3⟩ := intIn_addI I32MIN I32MAX n (i32_range hn) (i64_of_i32 hn) a2 _ r2 (sp_nl _)
    refine ⟨a3, ?_, r3⟩
    rw [hd 0 a1 (.ok (.theoryNum id n, a3)) h1]
    unfold theory
    simp only [h2, h3, bind, Except.bind, pure, Except.pure]
    rfl
  | theorySym id s =>
    obtain ⟨hid, hls, hs⟩ := hw
    simp only [fields, List.append_assoc] at hr
    have e : addI Gen.Theory_t_Symbol = addN 1 := by simp [addN_eq, Gen.Theory_t_Symbol]
    obtain ⟨a1, h1, r1⟩ := pos_addN 1 (by decide) a _ (by rw [hr, e]) (sp_addN _ _)
    obtain ⟨a2, h2, r2⟩ := pos_addN id hid a1 _ r1 (sp_addStr _ _)
    obtain ⟨a3, h3, r3⟩ := string_enc s hls hs a2 _ r2
    refine ⟨a3, ?_, r3⟩
    rw [hd 1 a1 (.ok (.theorySym id s, a3)) h1]
    unfold theory
    have m1 : ¬ ((1 : Nat) = N Gen.Theory_t_Number) := by decide
    simp only [h2, h3, m1, bind, Except.bind, pure, Except.pure, ↓reduceIte]
    rfl
  | theoryCompound id t args =>
    obtain ⟨hid, ht, hla, ha⟩ := hw
    simp only [fields, List.append_assoc] at hr
    have e : addI Gen.Theory_t_Compound = addN 2 := by simp [addN_eq, Gen.Theory_t_Compound]
    obtain ⟨a1, h1, r1⟩ := pos_addN 2 (by decide) a _ (by rw [hr, e]) (sp_addN _ _)
    obtain ⟨a2, h2, r2⟩ := pos_addN id hid a1 _ r1 (sp_addI _ _)
    obtain ⟨a3, h3, r3⟩ := intIn_addI Gen.Tuple_t_eMin I32MAX t
      (by have e1 : Gen.Tuple_t_eMin = -3 := rfl
          have e2 : I32MAX = 2147483647 := rfl
          omega)
      (by have : I64MAX = 9223372036854775807 := rfl
          omega) a2 _ r2 (sp_addNats _ _)
    obtain ⟨a4, h4, r4⟩ := ids_enc args hla ha a3 _ r3 (sp_nl _)
    refine ⟨a4, ?_, r4⟩
    rw [hd 2 a1 (.ok (.theoryCompound id t args, a4)) h1]
    unfold theory
    have m1 : ¬ ((2 : Nat) = N Gen.Theory_t_Number) := by decide
    have m2 : ¬ ((2 : Nat) = N Gen.Theory_t_Symbol) := by decide
    simp only [h2, h3, h4, m1, m2, bind, Except.bind, pure, Except.pure, ↓reduceIte]
    rfl
  | theoryElement id ts cnd =>
    obtain ⟨hid, hlt, hts, hlc, hcs⟩ := hw
    simp only [fields, List.append_assoc] at hr
    have e : addI Gen.Theory_t_Element = addN 4 := by simp [addN_eq, Gen.Theory_t_Element]
    obtain ⟨a1, h1, r1⟩ := pos_addN 4 (by decide) a _ (by rw [hr, e]) (sp_addN _ _)
    obtain ⟨a2, h2, r2⟩ := pos_addN id hid a1 _ r1 (sp_addNats _ _)
    obtain ⟨a3, h3, r3⟩ := ids_enc ts hlt hts a2 _ r2 (sp_addLits _ _)
    obtain ⟨a4, h4, r4⟩ := lits_enc cnd hlc hcs a3 _ r3 (sp_nl _)
    refine ⟨a4, ?_, r4⟩
    rw [hd 4 a1 (.ok (.theoryElement id ts cnd, a4)) h1]
    unfold theory
    have m1 : ¬ ((4 : Nat) = N Gen.Theory_t_Number) := by decide
    have m2 : ¬ ((4 : Nat) = N Gen.Theory_t_Symbol) := by decide
    have m3 : ¬ ((4 : Nat) = N Gen.Theory_t_Compound) := by decide
    simp only [h2, h3, h4, m1, m2, m3, bind, Except.bind, pure, Except.pure, ↓reduceIte]
    rfl
  | theoryAtom x t es g =>
    obtain ⟨hx, ht, hle, hes, hg⟩ := hw
    cases g with
    | none =>
      simp only [fields, List.append_assoc] at hr
      have e : addI Gen.Theory_t_Atom = addN 5 := by simp [addN_eq, Gen.Theory_t_Atom]
      obtain ⟨a1, h1, r1⟩ := pos_addN 5 (by decide) a _ (by rw [hr, e]) (sp_addN _ _)
      obtain ⟨a2, h2, r2⟩ := pos_addN x hx a1 _ r1 (sp_addN _ _)
      obtain ⟨a3, h3, r3⟩ := pos_addN t ht a2 _ r2 (sp_addNats _ _)
      obtain ⟨a4, h4, r4⟩ := ids_enc es hle hes a3 _ r3 (sp_nl _)
      refine ⟨a4, ?_, r4⟩
      rw [hd 5 a1 (.ok (.theoryAtom x t es none, a4)) h1]
      unfold theory
      have m1 : ¬ ((5 : Nat) = N Gen.Theory_t_Number) := by decide
      have m2 : ¬ ((5 : Nat) = N Gen.Theory_t_Symbol) := by decide
      have m3 : ¬ ((5 : Nat) = N Gen.Theory_t_Compound) := by decide
      have m4 : ¬ ((5 : Nat) = N Gen.Theory_t_Element) := by decide
      simp only [h2, h3, h4, m1, m2, m3, m4, bind, Except.bind, pure, Except.pure, ↓reduceIte]
      rfl
    | some p =>
      obtain ⟨op, rhs⟩ := p
      obtain ⟨hop, hrhs⟩ := hg (op, rhs) rfl
      simp only [fields, List.append_assoc] at hr
      have e : addI Gen.Theory_t_AtomWithGuard = addN 6 := by simp [addN_eq, Gen.Theory_t_AtomWithGuard]
      obtain ⟨a1, h1, r1⟩ := pos_addN 6 (by decide) a _ (by rw [hr, e]) (sp_addN _ _)
      obtain ⟨a2, h2, r2⟩ := pos_addN x hx a1 _ r1 (sp_addN _ _)
      obtain ⟨a3, h3, r3⟩ := pos_addN t ht a2 _ r2 (sp_addNats _ _)
      obtain ⟨a4, h4, r4⟩ := ids_enc es hle hes a3 _ r3 (sp_addN _ _)
      obtain ⟨a5, h5, r5⟩ := pos_addN op hop a4 _ r4 (sp_addN _ _)
      obtain ⟨a6, h6, r6⟩ := pos_addN rhs hrhs a5 _ r5 (sp_nl _)
      refine ⟨a6, ?_, r6⟩
      rw [hd 6 a1 (.ok (.theoryAtom x t es (some (op, rhs)), a6)) h1]
      unfold theory
      have m1 : ¬ ((6 : Nat) = N Gen.Theory_t_Number) := by decide
      have m2 : ¬ ((6 : Nat) = N Gen.Theory_t_Symbol) := by decide
      have m3 : ¬ ((6 : Nat) = N Gen.Theory_t_Compound) := by decide
      have m4 : ¬ ((6 : Nat) = N Gen.Theory_t_Element) := by decide
      have m5 : ¬ ((6 : Nat) = N Gen.Theory_t_Atom) := by decide
      simp only [h2, h3, h4, h5, h6, m1, m2, m3, m4, m5, bind, Except.bind, pure, Except.pure, ↓reduceIte]
      rfl
  | _ => simp [dirCode, Gen.Directive_t_Theory, Gen.Directive_t_Rule, Gen.Directive_t_Minimize, Gen.Directive_t_Project,
      Gen.Directive_t_Output, Gen.Directive_t_External, Gen.Directive_t_Assume, Gen.Directive_t_Heuristic, Gen.Directive_t_Edge] at hc

/-- any directive: the fields after the directive number are read back as the (normalised) call -/
theorem directive_rt (c : Call) (hd : isDirective c = true) (hw : WFw c) (a : AS) (k : List Nat)
    (hr : a.rest = fields c ++ (nl ++ k)) :
    ∃ a', directive (N (dirCode c)) a = .ok (some (norm c), a') ∧ a'.rest = nl ++ k := by
  cases c with
  | initProgram _ => cases hd
  | beginStep => cases hd
  | endStep => cases hd
  | rule ht head body => exact directive_rule_rt ht head body hw a k hr
  | sumRule ht head b ws => exact directive_sum_rt ht head b ws hw a k hr
  | minimize p ws => exact directive_minimize_rt p ws hw a k hr
  | project l => exact directive_project_rt l hw a k hr
  | output s c => exact directive_output_rt s c hw a k hr
  | external x v => exact directive_external_rt x v hw a k hr
  | assume l => exact directive_assume_rt l hw a k hr
  | heuristic x t b p c => exact directive_heuristic_rt x t b p c hw a k hr
  | acycEdge s t c => exact directive_edge_rt s t c hw a k hr
  | theoryNum id n => exact theory_rt _ hw rfl a k hr
  | theorySym id s => exact theory_rt _ hw rfl a k hr
  | theoryCompound id t args => exact theory_rt _ hw rfl a k hr
  | theoryElement id ts c => exact theory_rt _ hw rfl a k hr
  | theoryAtom x t es g => exact theory_rt _ hw rfl a k hr

theorem sp_fields (c : Call) (hd : isDirective c = true) (k : List Nat) : Sp (fields c ++ k) := by
  cases c with
  | initProgram _ => cases hd
  | beginStep => cases hd
  | endStep => cases hd
  | theoryAtom x t es g => cases g with
    | none => simp only [fields, List.append_assoc]; exact sp_addI _ _
    | some p => obtain ⟨op, rhs⟩ := p; simp only [fields, List.append_assoc]; exact sp_addI _ _
  | output s c => simp only [fields, List.append_assoc]; exact sp_addStr _ _
  | project l => simp only [fields]; exact sp_addNats _ _
  | assume l => simp only [fields]; exact sp_addLits _ _
  | minimize p ws => simp only [fields, List.append_assoc]; exact sp_addI _ _
  | acycEdge s t c => simp only [fields, List.append_assoc]; exact sp_addI _ _
  | theoryNum id n => simp only [fields, List.append_assoc]; exact sp_addI _ _
  | theorySym id s => simp only [fields, List.append_assoc]; exact sp_addI _ _
  | theoryCompound id t args => simp only [fields, List.append_assoc]; exact sp_addI _ _
  | theoryElement id ts c => simp only [fields, List.append_assoc]; exact sp_addI _ _
  | _ => simp only [fields, List.append_assoc]; exact sp_addN _ _

theorem dirCode_range (c : Call) (hd : isDirective c = true) : 1 ≤ dirCode c ∧ dirCode c ≤ 9 := by
  cases c <;> first | (cases hd; done) | (simp only [dirCode]; decide)

/-- one round of the directive loop on a written directive (after blanks `ws`, e.g. the newline of the previous line) -/
theorem dirStep_call (c : Call) (hd : isDirective c = true) (hw : WFw c) (a : AS) (ws k : List Nat) (hws : ∀ x ∈ ws, isWs x = true)
    (hr : a.rest = ws ++ (writeCall c ++ k)) :
    ∃ a', dirStep a = .cont (some (norm c)) a' ∧ a'.rest = nl ++ k := by
  rw [writeCall_fields c hd] at hr
  obtain ⟨h1, h9⟩ := dirCode_range c hd
  have hN : ((N (dirCode c) : Nat) : Int) = dirCode c := by unfold N; omega
  obtain ⟨a1, e1, r1⟩ := posMax_ws (N Gen.Directive_t_eMax) (N (dirCode c))
    (by have : N Gen.Directive_t_eMax = 10 := rfl
        unfold N at *; omega) (by decide) a ws (fields c ++ (nl ++ k)) hws
    (by rw [hr]; simp [dir, N]) (sp_fields c hd _)
  obtain ⟨a2, e2, r2⟩ := directive_rt c hd hw a1 k r1
  refine ⟨a2, ?_, r2⟩
  unfold dirStep
  have hne : ¬ (N (dirCode c) = 0) := by unfold N; omega
  simp only [e1, e2, hne, ↓reduceIte]

/-- the terminating `0` line -/
theorem dirStep_end (a : AS) (ws k : List Nat) (hws : ∀ x ∈ ws, isWs x = true) (hr : a.rest = ws ++ (str "0" ++ nl ++ k)) :
    ∃ a', dirStep a = .stop (.ok a') ∧ a'.rest = nl ++ k := by
  have e0 : str "0" = printNat 0 := by decide +kernel
  obtain ⟨a1, e1, r1⟩ := posMax_ws (N Gen.Directive_t_eMax) 0 (by decide) (by decide) a ws (nl ++ k) hws
    (by rw [hr, e0]; simp) (sp_nl _)
  refine ⟨a1, ?_, r1⟩
  unfold dirStep
  simp only [e1, ↓reduceIte]

theorem nl_ws : ∀ x ∈ nl, isWs x = true := by intro x hx; simp [nl] at hx; subst hx; decide

attribute [local irreducible] dirStep in
theorem stepLoop_succ (f : Nat) (a : AS) (acc : List Call) : stepLoop (f + 1) a acc = (match dirStep a with
    | .stop r => (acc.reverse, r)
    | .cont c a2 => stepLoop f a2 (match c with | some c => c :: acc | none => acc)) := rfl

/-- the directive loop on the text of a whole step -/
theorem stepLoop_rt : ∀ (cs : List Call) (f : Nat) (a : AS) (acc : List Call) (ws k : List Nat), cs.length < f →
    (∀ c ∈ cs, isDirective c = true ∧ WFw c) → (∀ x ∈ ws, isWs x = true) →
    a.rest = ws ++ (write cs ++ (str "0" ++ nl ++ k)) →
    ∃ a', stepLoop f a acc = (acc.reverse ++ cs.map norm, .ok a') ∧ a'.rest = nl ++ k := by
  intro cs
  induction cs with
  | nil =>
    intro f a acc ws k hf _ hws hr
    obtain ⟨f', rfl⟩ : ∃ f', f = f' + 1 := ⟨f - 1, by simp at hf; omega⟩
    obtain ⟨a1, e1, r1⟩ := dirStep_end a ws k hws (by simpa [write] using hr)
    exact ⟨a1, by rw [stepLoop_succ, e1]; simp, r1⟩
  | cons c r ih =>
    intro f a acc ws k hf hok hws hr
    obtain ⟨f', rfl⟩ : ∃ f', f = f' + 1 := ⟨f - 1, by simp at hf; omega⟩
    have hc := hok c (by simp)
    obtain ⟨a1, e1, r1⟩ := dirStep_call c hc.1 hc.2 a ws (write r ++ (str "0" ++ nl ++ k)) hws
      (by rw [hr]; simp [write])
    obtain ⟨a2, e2, r2⟩ := ih f' a1 (norm c :: acc) nl k (by simp at hf; omega) (fun x hx => hok x (by simp [hx])) nl_ws r1
    refine ⟨a2, ?_, r2⟩
    rw [stepLoop_succ, e1]
    simp only [e2]
    simp

/-! ### steps and programs -/

def writeStep (cs : List Call) : List Nat := write cs ++ (str "0" ++ nl)
def stepCalls (cs : List Call) : List Call := [.beginStep] ++ cs ++ [.endStep]
/-- the calls of a program: `initProgram`, then per step `beginStep`, its directives, `endStep` -/
def progCalls (inc : Bool) (steps : List (List Call)) : List Call := [.initProgram inc] ++ (steps.map stepCalls).flatten

theorem write_append (x y : List Call) : write (x ++ y) = write x ++ write y := by simp [write]

theorem write_stepCalls (cs : List Call) : write (stepCalls cs) = writeStep cs := by
  simp [stepCalls, writeStep, write, writeCall]

theorem write_steps (steps : List (List Call)) : write (steps.map stepCalls).flatten = (steps.map writeStep).flatten := by
  induction steps with
  | nil => rfl
  | cons s r ih => simp only [List.map_cons, List.flatten_cons, write_append, write_stepCalls, ih]

theorem write_progCalls (inc : Bool) (steps : List (List Call)) :
    write (progCalls inc steps) = writeCall (.initProgram inc) ++ (steps.map writeStep).flatten := by
  unfold progCalls; rw [write_append, write_steps]; simp [write]

theorem str0 : str "0" = [48] := by decide +kernel

theorem digit_props {d : Nat} (h : isDigit d = true) : isWs d = false ∧ d ≠ 0 := by
  simp [isDigit, isWs] at *; omega

theorem writeCall_head (c : Call) (hd : isDirective c = true) (k : List Nat) : ∃ d r, writeCall c ++ k = d :: r ∧ isDigit d = true := by
  rw [writeCall_fields c hd]
  obtain ⟨d, r, e, h⟩ := printNat_head_digit (dirCode c).toNat
  exact ⟨d, r ++ (fields c ++ nl ++ k), by simp [dir, e], h⟩

theorem writeStep_head (s : List Call) (hs : ∀ c ∈ s, isDirective c = true) (k : List Nat) :
    ∃ d r, writeStep s ++ k = d :: r ∧ isDigit d = true := by
  cases s with
  | nil => exact ⟨48, nl ++ k, by simp [writeStep, write, str0], by decide⟩
  | cons c r =>
    obtain ⟨d, r', e, h⟩ := writeCall_head c (hs c (by simp)) (write r ++ (str "0" ++ nl) ++ k)
    exact ⟨d, r', by rw [← e]; simp [writeStep, write], h⟩

theorem write_length (cs : List Call) (h : ∀ c ∈ cs, isDirective c = true) : cs.length ≤ (write cs).length := by
  induction cs with
  | nil => simp
  | cons c r ih =>
    have := ih (fun x hx => h x (by simp [hx]))
    rw [show write (c :: r) = writeCall c ++ write r by simp [write], List.length_append, writeCall_fields c (h c (by simp))]
    simp [nl]; omega

theorem steps_length (steps : List (List Call)) : steps.length ≤ ((steps.map writeStep).flatten).length := by
  induction steps with
  | nil => simp
  | cons s r ih =>
    simp only [List.map_cons, List.flatten_cons, List.length_append, List.length_cons]
    have : 1 ≤ (writeStep s).length := by simp [writeStep, nl]; omega
    omega

attribute [local irreducible] stepLoop in
theorem stepsLoop_succ (f : Nat) (inc : Bool) (a : AS) (acc : List Call) : stepsLoop (f + 1) inc a acc =
    (match (stepLoop (a.rest.length + 1) a []).2 with
     | .error l => { calls := acc ++ [.beginStep] ++ (stepLoop (a.rest.length + 1) a []).1, err := some l }
     | .ok a1 =>
       if (more a1).1 && !inc then { calls := acc ++ [.beginStep] ++ (stepLoop (a.rest.length + 1) a []).1 ++ [.endStep], err := some (more a1).2.line }
       else if (more a1).1 then stepsLoop f inc (more a1).2 (acc ++ [.beginStep] ++ (stepLoop (a.rest.length + 1) a []).1 ++ [.endStep])
       else { calls := acc ++ [.beginStep] ++ (stepLoop (a.rest.length + 1) a []).1 ++ [.endStep], err := none }) := rfl

/-- the step loop on the text of one or more steps (several only in incremental mode) -/
theorem stepsLoop_rt : ∀ (rest : List (List Call)) (s : List Call) (f : Nat) (inc : Bool) (a : AS) (acc : List Call), rest.length < f →
    (∀ st ∈ s :: rest, ∀ c ∈ st, isDirective c = true ∧ WFw c) → (inc = false → rest = []) →
    a.rest = ((s :: rest).map writeStep).flatten →
    stepsLoop f inc a acc = { calls := acc ++ (((s :: rest).map (fun st => st.map norm)).map stepCalls).flatten, err := none } := by
  intro rest
  induction rest with
  | nil =>
    intro s f inc a acc hf hok _ hr
    obtain ⟨f', rfl⟩ : ∃ f', f = f' + 1 := ⟨f - 1, by simp at hf; omega⟩
    have hs := hok s (by simp)
    obtain ⟨a1, e1, r1⟩ := stepLoop_rt s (a.rest.length + 1) a [] [] [] (by
        have := write_length s (fun c hc => (hs c hc).1)
        rw [hr]; simp [writeStep]; omega) hs (by simp) (by rw [hr]; simp [writeStep])
    rw [stepsLoop_succ, e1]
    have hm : (more a1).1 = false := by
      unfold more
      have : a1.skipWs.rest = [] := skipWs_spec a1 nl [] (by rw [r1]) nl_ws (by intro c r e; cases e)
      simp [AS.peek, this]
    simp [hm, stepCalls]
  | cons s2 rest ih =>
    intro s f inc a acc hf hok hinc hr
    obtain ⟨f', rfl⟩ : ∃ f', f = f' + 1 := ⟨f - 1, by simp at hf; omega⟩
    have hi : inc = true := by cases inc with
      | true => rfl
      | false => exact absurd (hinc rfl) (by simp)
    have hs := hok s (by simp)
    have hk : ((s :: s2 :: rest).map writeStep).flatten = write s ++ (str "0" ++ nl ++ ((s2 :: rest).map writeStep).flatten) := by
      simp [writeStep]
    obtain ⟨a1, e1, r1⟩ := stepLoop_rt s (a.rest.length + 1) a [] [] (((s2 :: rest).map writeStep).flatten) (by
        have := write_length s (fun c hc => (hs c hc).1)
        rw [hr, hk]; simp; omega) hs (by simp) (by rw [hr, hk]; simp)
    rw [stepsLoop_succ, e1]
    have hs2 := hok s2 (by simp)
    obtain ⟨d, r, ed, hd⟩ := writeStep_head s2 (fun c hc => (hs2 c hc).1) ((rest.map writeStep).flatten)
    have ek : ((s2 :: rest).map writeStep).flatten = d :: r := by simpa using ed
    have hrest : a1.skipWs.rest = ((s2 :: rest).map writeStep).flatten :=
      skipWs_spec a1 nl _ r1 nl_ws (by
        intro c r' e; rw [ek] at e; cases e; exact (digit_props hd).1)
    have hm : (more a1).1 = true := by
      unfold more
      simp only [AS.peek, hrest, ek, List.headD_cons, bne_iff_ne, ne_eq]
      exact (digit_props hd).2
    have hm2 : (more a1).2 = a1.skipWs := rfl
    simp only [hm, hi, Bool.not_true, Bool.and_false, Bool.false_eq_true, ↓reduceIte]
    rw [hm2, ih s2 f' true a1.skipWs _ (by simp at hf; omega) (fun st hst => hok st (by simp at hst ⊢; right; exact hst)) (by simp) hrest]
    simp [stepCalls]

/-! ### header and the whole reader -/

theorem get_plain' (a : AS) (r : List Nat) (h : a.rest = nl ++ r) : a.get = (10, { rest := r, line := a.line + 1, canUnget := true }) := by
  unfold AS.get; rw [h]; simp [nl]

theorem hdr_text (inc : Bool) : writeCall (.initProgram inc) =
    [97, 115, 112, 32] ++ (printNat 1 ++ (addN 0 ++ (addN 0 ++ ((if inc then 32 :: [105, 110, 99, 114, 101, 109, 101, 110, 116, 97, 108] else []) ++ nl)))) := by
  cases inc <;> decide +kernel

theorem header_rt (inc : Bool) (a : AS) (body : List Nat) (hr : a.rest = writeCall (.initProgram inc) ++ body) :
    ∃ a', header a = some (.ok (inc, a')) ∧ a'.rest = nl ++ body := by
  rw [hdr_text] at hr
  have h0 : a.skipWs.rest = a.rest := skipWs_spec a [] a.rest rfl (by simp) (by
    intro c r e; rw [hr] at e; simp at e; rw [← e.1]; decide)
  obtain ⟨a2, e2, r2⟩ := posMax_ws U32MAX 1 (by decide) (by decide)
    { a.skipWs with rest := a.skipWs.rest.drop 4, canUnget := true } []
    (addN 0 ++ (addN 0 ++ ((if inc then 32 :: [105, 110, 99, 114, 101, 109, 101, 110, 116, 97, 108] else []) ++ nl)) ++ body) (by simp)
    (by simp only [h0, hr, List.nil_append]; simp) (by rw [List.append_assoc]; exact sp_addN _ _)
  have hsp : Sp ((if inc then 32 :: [105, 110, 99, 114, 101, 109, 101, 110, 116, 97, 108] else []) ++ nl ++ body) := by
    intro c r e; cases inc <;> simp [nl] at e <;> simp [e.1.symm]
  obtain ⟨a3, e3, r3⟩ := pos_addN 0 (by decide) a2
    (addN 0 ++ ((if inc then 32 :: [105, 110, 99, 114, 101, 109, 101, 110, 116, 97, 108] else []) ++ nl ++ body)) (by rw [r2]; simp) (sp_addN _ _)
  obtain ⟨a4, e4, r4⟩ := pos_addN 0 (by decide) a3 _ r3 hsp
  have hpre : ([97, 115, 112, 32] : List Nat).isPrefixOf a.skipWs.rest = true := by rw [h0, hr]; rfl
  have hpos : pos = posMax U32MAX := rfl
  cases inc with
  | false =>
    refine ⟨{ a4 with canUnget := false }, ?_, by simpa using r4⟩
    unfold header AS.matchTok
    simp only [hpre, ↓reduceIte, Bool.not_true, Bool.false_eq_true, hpos] 
    simp only [List.length_cons, List.length_nil, Nat.zero_add, Nat.reduceAdd, e2, ← hpos, e3, e4, bind, Except.bind, pure, Except.pure,
      ne_eq, not_true_eq_false, ↓reduceIte, r4]
    simp [nl, List.isPrefixOf]
  | true =>
    refine ⟨{ a4 with rest := nl ++ body, canUnget := true }, ?_, rfl⟩
    unfold header AS.matchTok
    simp only [hpre, ↓reduceIte, Bool.not_true, Bool.false_eq_true, hpos]
    simp only [List.length_cons, List.length_nil, Nat.zero_add, Nat.reduceAdd, e2, ← hpos, e3, e4, bind, Except.bind, pure, Except.pure,
      ne_eq, not_true_eq_false, ↓reduceIte, r4]
    simp [nl, List.isPrefixOf]

/-- a program as the writer is given it: at least one step, several only when incremental; every call of a step is a
    directive with arguments in the documented ranges -/
structure WFProg (inc : Bool) (steps : List (List Call)) : Prop where
  nonempty : steps ≠ []
  single   : inc = false → steps.length = 1
  calls    : ∀ st ∈ steps, ∀ c ∈ st, isDirective c = true ∧ WFw c

/-- **aspif round trip**: for every well-formed program — any directives, any number of steps — the reader run on exactly
    what the writer produces delivers the same calls (literals of weight 0 dropped, the documented normalisation) and no error. -/
theorem write_read (inc : Bool) (steps : List (List Call)) (h : WFProg inc steps) :
    AspifIn.read (write (progCalls inc steps)) = { calls := progCalls inc (steps.map (fun st => st.map norm)), err := none } := by
  rw [write_progCalls]
  obtain ⟨s, rest, rfl⟩ : ∃ s rest, steps = s :: rest := by
    cases steps with
    | nil => exact absurd rfl h.nonempty
    | cons s r => exact ⟨s, r, rfl⟩
  obtain ⟨a1, e1, r1⟩ := header_rt inc (AS.init (writeCall (.initProgram inc) ++ ((s :: rest).map writeStep).flatten)) _ rfl
  unfold AspifIn.read
  simp only [e1]
  have hg := get_plain' a1 _ r1
  simp only [hg, ne_eq, not_true_eq_false, ↓reduceIte]
  rw [stepsLoop_rt rest s _ inc _ _ (by
      have := steps_length (s :: rest); simp at this ⊢; omega) h.calls (by
      intro hi; have := h.single hi; simpa using this) rfl]
  rfl

end PotasscoVerif.AspifRT
