/-
  Helper lemmas for C09: the window refinement of `BufferedStream`.
  No property statement lives here (those are in Props/C09.lean).
-/
import PotasscoVerif.Model.BufferedStream
import PotasscoVerif.Spec.CharStream
namespace PotasscoVerif.BufferedStream
open PotasscoVerif.CharStream

def window (s : BS) : List Nat := s.win.drop s.rpos
def remaining (s : BS) : List Nat := window s ++ s.src

/-- representation invariant of the buffer (between two operations). -/
structure Inv (B : Nat) (s : BS) : Prop where
  rpos_le   : s.rpos ≤ s.win.length
  len_le    : s.win.length ≤ B
  good_full : s.good = true → s.win.length = B
  bad_src   : s.good = false → s.src = []
  bad_short : s.good = false → s.win.length < B
  nonul_win : ∀ c ∈ s.win, c ≠ 0
  nonul_src : ∀ c ∈ s.src, c ≠ 0
  parked    : s.rpos = s.win.length → s.src = []
  noviol    : s.viol = false

/-- the invariant without "never parked": what holds in the middle of an operation, when `rpos_` may
    rest on the sentinel until `underflow` is called. -/
structure PreInv (B : Nat) (s : BS) : Prop where
  rpos_le   : s.rpos ≤ s.win.length
  len_le    : s.win.length ≤ B
  good_full : s.good = true → s.win.length = B
  bad_src   : s.good = false → s.src = []
  bad_short : s.good = false → s.win.length < B
  nonul_win : ∀ c ∈ s.win, c ≠ 0
  nonul_src : ∀ c ∈ s.src, c ≠ 0
  noviol    : s.viol = false

theorem Inv.pre {B s} (h : Inv B s) : PreInv B s :=
  ⟨h.rpos_le, h.len_le, h.good_full, h.bad_src, h.bad_short, h.nonul_win, h.nonul_src, h.noviol⟩

theorem PreInv.toInv {B s} (h : PreInv B s) (hp : s.rpos = s.win.length → s.src = []) : Inv B s :=
  ⟨h.rpos_le, h.len_le, h.good_full, h.bad_src, h.bad_short, h.nonul_win, h.nonul_src, hp, h.noviol⟩

theorem cell_lt {s : BS} {i : Nat} (h : i < s.win.length) : s.cell i = s.win[i] := by
  simp [BS.cell, List.getD, List.getElem?_eq_getElem h]

theorem cell_ge {s : BS} {i : Nat} (h : s.win.length ≤ i) : s.cell i = 0 := by
  simp [BS.cell, List.getD, List.getElem?_eq_none h]

theorem cell_ne_zero {B s} (hi : PreInv B s) {i : Nat} (h : i < s.win.length) : s.cell i ≠ 0 := by
  rw [cell_lt h]; exact hi.nonul_win _ (List.getElem_mem h)

theorem window_cons {s : BS} (h : s.rpos < s.win.length) :
    window s = s.win[s.rpos] :: s.win.drop (s.rpos + 1) := by
  unfold window; rw [List.drop_eq_getElem_cons h]

theorem window_nil {s : BS} (h : s.win.length ≤ s.rpos) : window s = [] := by
  unfold window; exact List.drop_eq_nil_of_le h

theorem peek_eq {B s} (hi : Inv B s) : s.peek = (remaining s).headD 0 := by
  unfold BS.peek remaining
  by_cases h : s.rpos < s.win.length
  · rw [cell_lt h, window_cons h]; rfl
  · have h' : s.win.length ≤ s.rpos := Nat.le_of_not_lt h
    have he : s.rpos = s.win.length := Nat.le_antisymm hi.rpos_le h'
    rw [cell_ge h', window_nil h', hi.parked he]; rfl

theorem remaining_nonul {B s} (hi : PreInv B s) : ∀ c ∈ remaining s, c ≠ 0 := by
  intro c hc
  unfold remaining window at hc
  rcases List.mem_append.mp hc with h | h
  · exact hi.nonul_win c (List.mem_of_mem_drop h)
  · exact hi.nonul_src c h

theorem avail_eq {s : BS} : s.avail = (remaining s).length := by
  unfold BS.avail remaining window; simp

/-- `underflow()` called on the sentinel: keeps what is left, re-establishes the invariant. -/
theorem underflow_at_end {B s} (hB : 2 ≤ B) (hi : PreInv B s) (he : s.rpos = s.win.length) :
    Inv B (underflow B s true) ∧ remaining (underflow B s true) = s.src ∧
    (underflow B s true).line = s.line ∧ (0 < s.rpos → 0 < (underflow B s true).rpos) := by
  unfold underflow
  cases hg : s.good with
  | false =>
    simp only [Bool.not_false, ↓reduceIte]
    have hs := hi.bad_src hg
    refine ⟨hi.toInv (fun _ => hs), ?_, by simp, fun h => h⟩
    unfold remaining; rw [window_nil (Nat.le_of_eq he.symm), hs]; rfl
  | true =>
    simp only [Bool.not_true, Bool.false_eq_true, ↓reduceIte]
    have hfull := hi.good_full hg
    have hr : 0 < s.rpos := by omega
    simp only [Bool.true_and, decide_eq_true_eq, hr, ↓reduceIte]
    have hn : B + 1 - (1 + 1) = B - 1 := by omega
    rw [hn]
    have hlt : s.rpos - 1 < s.win.length := by omega
    refine ⟨⟨?_, ?_, ?_, ?_, ?_, ?_, ?_, ?_, ?_⟩, ?_, by simp, fun _ => Nat.one_pos⟩
    · simp
    · simp; omega
    · intro h; simp at h; simp; omega
    · intro h; simp at h; simp; omega
    · intro h; simp at h; simp; omega
    · intro c hc
      simp at hc
      rcases hc with h | h
      · rw [h]; exact cell_ne_zero hi hlt
      · exact hi.nonul_src c (List.mem_of_mem_take h)
    · intro c hc; exact hi.nonul_src c (List.mem_of_mem_drop hc)
    · intro h
      simp at h
      rcases h with h | h
      · omega
      · simp [h]
    · simp [hi.noviol]; omega
    · unfold remaining window; simp

/-- moving `rpos_` forward by `m ≤ |window|` and calling `underflow()` iff that hits the sentinel. -/
theorem advance {B s} (hB : 2 ≤ B) (hi : Inv B s) (m : Nat) (hm : 0 < m) (hle : s.rpos + m ≤ s.win.length) :
    let s1 := { s with rpos := s.rpos + m }
    let s2 := if s1.cell s1.rpos == 0 then underflow B s1 true else s1
    Inv B s2 ∧ remaining s2 = (remaining s).drop m ∧ s2.line = s.line ∧ 0 < s2.rpos := by
  intro s1 s2
  have hp1 : PreInv B s1 := ⟨hle, hi.len_le, hi.good_full, hi.bad_src, hi.bad_short, hi.nonul_win, hi.nonul_src, hi.noviol⟩
  have hrem : (remaining s).drop m = s.win.drop (s.rpos + m) ++ s.src := by
    unfold remaining window
    rw [List.drop_append_of_le_length (by simp; omega), List.drop_drop]
  by_cases he : s.rpos + m = s.win.length
  · have hc : s1.cell s1.rpos = 0 := cell_ge (by show s.win.length ≤ s.rpos + m; omega)
    have h2 : s2 = underflow B s1 true := by simp [s2, hc]
    have hu := underflow_at_end hB hp1 (show s1.rpos = s1.win.length from he)
    rw [h2]
    refine ⟨hu.1, ?_, hu.2.2.1, hu.2.2.2 (show 0 < s.rpos + m by omega)⟩
    rw [hu.2.1, hrem, List.drop_eq_nil_of_le (Nat.le_of_eq he.symm)]; rfl
  · have hlt : s.rpos + m < s.win.length := by omega
    have hc : s1.cell s1.rpos ≠ 0 := cell_ne_zero hp1 (show s.rpos + m < s.win.length from hlt)
    have h2 : s2 = s1 := by simp [s2, hc]
    rw [h2]
    refine ⟨hp1.toInv (fun h => absurd h he), ?_, rfl, show 0 < s.rpos + m by omega⟩
    rw [hrem]; rfl

theorem remaining_cons_lt {B s c rest} (hi : Inv B s) (hr : remaining s = c :: rest) :
    s.rpos < s.win.length := by
  by_cases h : s.rpos < s.win.length
  · exact h
  · have he : s.rpos = s.win.length := Nat.le_antisymm hi.rpos_le (Nat.le_of_not_lt h)
    unfold remaining at hr
    rw [window_nil (Nat.le_of_eq he.symm), hi.parked he] at hr
    cases hr

/-- `rget()` on a non-empty stream returns the next character and consumes exactly it. -/
theorem rget_spec {B s c rest} (hB : 2 ≤ B) (hi : Inv B s) (hr : remaining s = c :: rest) :
    (rget B s).1 = c ∧ Inv B (rget B s).2 ∧ remaining (rget B s).2 = rest ∧
    (rget B s).2.line = s.line ∧ 0 < (rget B s).2.rpos := by
  have hlt := remaining_cons_lt hi hr
  have hpk : s.peek = c := by rw [peek_eq hi, hr]; rfl
  have ha := advance hB hi 1 Nat.one_pos hlt
  have hv : (s.viol || decide (s.win.length < s.rpos + 1)) = s.viol := by
    have : ¬ (s.win.length < s.rpos + 1) := by omega
    simp [this]
  unfold rget
  simp only [hv]
  refine ⟨hpk, ?_⟩
  have hd : (remaining s).drop 1 = rest := by rw [hr]; rfl
  rw [hd] at ha
  exact ha

theorem rget_peek {B s} : (rget B s).1 = s.peek := rfl

/-- the simulation relation between the buffer and the abstract character stream. -/
structure Sim (B : Nat) (c : BS) (a : AS) : Prop where
  inv  : Inv B c
  rest : remaining c = a.rest
  line : c.line = a.line
  ung  : a.canUnget = true → 0 < c.rpos

theorem Sim.peek {B c a} (h : Sim B c a) : c.peek = a.peek := by
  rw [peek_eq h.inv, h.rest]; rfl

theorem Inv.withLine {B s} (h : Inv B s) (l : Nat) : Inv B { s with line := l } :=
  ⟨h.rpos_le, h.len_le, h.good_full, h.bad_src, h.bad_short, h.nonul_win, h.nonul_src, h.parked, h.noviol⟩

theorem remaining_withLine {s : BS} (l : Nat) : remaining { s with line := l } = remaining s := rfl

theorem get_sim {B c a} (hB : 2 ≤ B) (h : Sim B c a) :
    (get B c).1 = a.get.1 ∧ Sim B (get B c).2 a.get.2 := by
  have hpk := h.peek
  have hrest := h.rest
  cases hr : a.rest with
  | nil =>
    have h0 : c.peek = 0 := by rw [hpk]; simp [AS.peek, hr]
    have hget : get B c = (0, c) := by simp [get, h0]
    have haget : a.get = (0, { a with canUnget := false }) := by simp [AS.get, hr]
    rw [hget, haget]
    exact ⟨rfl, ⟨h.inv, h.rest, h.line, by intro hc; cases hc⟩⟩
  | cons x r =>
    rw [hr] at hrest
    have hx : c.peek = x := by rw [hpk]; simp [AS.peek, hr]
    have hx0 : x ≠ 0 := remaining_nonul h.inv.pre x (by rw [hrest]; simp)
    have hg := rget_spec hB h.inv hrest
    by_cases h13 : x = 13
    · subst h13
      cases r with
      | nil =>
        have hp2 : (rget B c).2.peek = 0 := by rw [peek_eq hg.2.1, hg.2.2.1]; rfl
        have hget : get B c = (10, { (rget B c).2 with line := (rget B c).2.line + 1 }) := by
          simp [get, hx, hp2]
        have haget : a.get = (10, { rest := [], line := a.line + 1, canUnget := true }) := by
          simp [AS.get, hr]
        rw [hget, haget]
        exact ⟨rfl, ⟨hg.2.1.withLine _, hg.2.2.1, by show _ + 1 = _ + 1; rw [hg.2.2.2.1, h.line],
          fun _ => hg.2.2.2.2⟩⟩
      | cons y r' =>
        have hp2 : (rget B c).2.peek = y := by rw [peek_eq hg.2.1, hg.2.2.1]; rfl
        by_cases h10 : y = 10
        · subst h10
          have hg2 := rget_spec hB hg.2.1 hg.2.2.1
          have hget : get B c = (10, { (rget B (rget B c).2).2 with line := (rget B (rget B c).2).2.line + 1 }) := by
            simp [get, hx, hp2]
          have haget : a.get = (10, { rest := r', line := a.line + 1, canUnget := true }) := by
            simp [AS.get, hr]
          rw [hget, haget]
          exact ⟨rfl, ⟨hg2.2.1.withLine _, hg2.2.2.1,
            by show _ + 1 = _ + 1; rw [hg2.2.2.2.1, hg.2.2.2.1, h.line], fun _ => hg2.2.2.2.2⟩⟩
        · have hget : get B c = (10, { (rget B c).2 with line := (rget B c).2.line + 1 }) := by
            simp [get, hx, hp2, h10]
          have haget : a.get = (10, { rest := y :: r', line := a.line + 1, canUnget := true }) := by
            simp only [AS.get, hr, beq_self_eq_true, ↓reduceIte]
            have : ¬ ((13:Nat) == 0) = true := by decide
            simp only [this, Bool.false_eq_true, ↓reduceIte]
            split
            · rename_i heq; cases heq; exact absurd rfl h10
            · rfl
          rw [hget, haget]
          exact ⟨rfl, ⟨hg.2.1.withLine _, hg.2.2.1, by show _ + 1 = _ + 1; rw [hg.2.2.2.1, h.line],
            fun _ => hg.2.2.2.2⟩⟩
    · by_cases h10 : x = 10
      · subst h10
        have hget : get B c = (10, { (rget B c).2 with line := (rget B c).2.line + 1 }) := by
          simp [get, hx]
        have haget : a.get = (10, { rest := r, line := a.line + 1, canUnget := true }) := by
          simp [AS.get, hr]
        rw [hget, haget]
        exact ⟨rfl, ⟨hg.2.1.withLine _, hg.2.2.1, by show _ + 1 = _ + 1; rw [hg.2.2.2.1, h.line],
          fun _ => hg.2.2.2.2⟩⟩
      · have hget : get B c = (x, (rget B c).2) := by
          simp [get, hx, hx0, h13, h10]
        have haget : a.get = (x, { rest := r, line := a.line, canUnget := true }) := by
          simp [AS.get, hr, hx0, h13, h10]
        rw [hget, haget]
        exact ⟨rfl, ⟨hg.2.1, hg.2.2.1, by rw [hg.2.2.2.1, h.line], fun _ => hg.2.2.2.2⟩⟩

theorem Sim.noUnget {B c a} (h : Sim B c a) : Sim B c { a with canUnget := false } :=
  ⟨h.inv, h.rest, h.line, by intro hc; cases hc⟩

theorem skipWsF_sim {B} (hB : 2 ≤ B) (f : Nat) : ∀ {c a}, Sim B c a → Sim B (skipWsF B f c) (AS.skipWsF f a) := by
  induction f with
  | zero => intro c a h; exact h
  | succ f ih =>
    intro c a h
    unfold skipWsF AS.skipWsF
    rw [h.peek]
    split
    · exact ih (get_sim hB h).2
    · exact h

theorem skipWs_sim {B c a} (hB : 2 ≤ B) (h : Sim B c a) : Sim B (skipWs B c) a.skipWs := by
  unfold skipWs AS.skipWs
  have : c.avail + 1 = a.rest.length + 1 := by rw [avail_eq, h.rest]
  rw [this]
  exact skipWsF_sim hB _ h.noUnget

theorem unget_sim {B c a} (h : Sim B c a) (hu : a.canUnget = true) (x : Nat) (hx : x ≠ 0) :
    (unget c x).1 = true ∧ Sim B (unget c x).2 (a.unget x) := by
  have hpos := h.ung hu
  have hne : (c.rpos == 0) = false := by simp; omega
  have hlt : c.rpos - 1 < c.win.length := by have := h.inv.rpos_le; omega
  unfold unget
  simp only [hne, Bool.false_eq_true, ↓reduceIte, true_and]
  refine ⟨⟨?_, ?_, ?_, ?_, ?_, ?_, ?_, ?_, ?_⟩, ?_, ?_, ?_⟩
  · simp; omega
  · simp; exact h.inv.len_le
  · intro hg; simp; exact h.inv.good_full hg
  · exact h.inv.bad_src
  · intro hg; simp; exact h.inv.bad_short hg
  · intro y hy
    rcases List.mem_or_eq_of_mem_set hy with hm | he
    · exact h.inv.nonul_win y hm
    · rw [he]; exact hx
  · exact h.inv.nonul_src
  · intro he; simp at he; omega
  · simp [h.inv.noviol]; omega
  · show (c.win.set (c.rpos - 1) x).drop (c.rpos - 1) ++ c.src = x :: a.rest
    rw [← h.rest]
    unfold remaining window
    have h1 : c.rpos - 1 < (c.win.set (c.rpos - 1) x).length := by simp; exact hlt
    rw [List.drop_eq_getElem_cons h1]
    simp
    have : c.rpos - 1 + 1 = c.rpos := by omega
    rw [this]
    exact List.drop_set_of_lt (by omega)
  · show (if (x == 10) = true then decLine c.line else c.line) = (if (x == 10) = true then decLine a.line else a.line)
    rw [h.line]
  · intro hc; cases hc

theorem isPrefixOf_append_of_le : ∀ (w l r : List Nat), w.length ≤ l.length →
    w.isPrefixOf (l ++ r) = w.isPrefixOf l := by
  intro w
  induction w with
  | nil => intro l r _; simp
  | cons x w ih =>
    intro l r h
    cases l with
    | nil => simp at h
    | cons y l =>
      simp only [List.cons_append, List.isPrefixOf]
      rw [ih l r (by simpa using h)]

theorem isPrefixOf_length : ∀ (w l : List Nat), w.isPrefixOf l = true → w.length ≤ l.length := by
  intro w
  induction w with
  | nil => intro l _; simp
  | cons x w ih =>
    intro l h
    cases l with
    | nil => simp [List.isPrefixOf] at h
    | cons y l =>
      simp only [List.isPrefixOf, Bool.and_eq_true] at h
      simpa using ih l h.2

/-- the comparison in `match` sees the same as a comparison against the whole rest of the stream,
    provided the window has room for `w` (`|w| ≤ BUF_SIZE - rpos_`). -/
theorem startsAt_eq {B s} (hi : Inv B s) (w : List Nat) (hw : w.length ≤ B - s.rpos) :
    startsAt s w = w.isPrefixOf (remaining s) := by
  unfold startsAt remaining
  by_cases h : w.length ≤ (window s).length
  · exact (isPrefixOf_append_of_le w (window s) s.src h).symm
  · have hlen : (window s).length = s.win.length - s.rpos := by unfold window; simp
    have hlt : s.win.length < B := by have := hi.rpos_le; omega
    have hb : s.good = false := by
      cases hg : s.good with
      | false => rfl
      | true => have := hi.good_full hg; omega
    rw [hi.bad_src hb]; simp [window]

theorem matchHere_sim {B c a} (hB : 2 ≤ B) (h : Sim B c a) (w : List Nat) (hne : w ≠ [])
    (hw : w.length ≤ B - c.rpos) :
    (matchHere B c w).1 = (a.matchTok w).1 ∧
    ((a.matchTok w).1 = true → Sim B (matchHere B c w).2 (a.matchTok w).2) ∧
    ((a.matchTok w).1 = false → (matchHere B c w).2 = c) := by
  have hs := startsAt_eq h.inv w hw
  rw [h.rest] at hs
  unfold matchHere AS.matchTok
  rw [hs]
  cases hp : w.isPrefixOf a.rest with
  | false => simp
  | true =>
    simp only [↓reduceIte, true_and, Bool.true_eq_false, false_implies, and_true]
    intro _
    have hwl : 0 < w.length := by cases w with | nil => exact absurd rfl hne | cons _ _ => simp
    have hst : startsAt c w = true := by rw [startsAt_eq h.inv w hw, h.rest]; exact hp
    have hle : c.rpos + w.length ≤ c.win.length := by
      have := isPrefixOf_length w _ hst
      simp at this; have := h.inv.rpos_le; omega
    have ha := advance hB h.inv w.length hwl hle
    refine ⟨ha.1, ?_, ?_, fun _ => ha.2.2.2⟩
    · rw [ha.2.1, h.rest]
    · rw [ha.2.2.1, h.line]

theorem compact_spec {B s} (hB : 2 ≤ B) (hi : Inv B s) (hpos : 0 < s.rpos) :
    Inv B (compact B s) ∧ remaining (compact B s) = remaining s ∧ (compact B s).line = s.line ∧
    (compact B s).rpos = 0 := by
  have hrl := hi.rpos_le
  have hll := hi.len_le
  unfold compact
  cases hg : s.good with
  | true =>
    have hfull := hi.good_full hg
    have hn : B + 1 - (1 + (B - s.rpos)) = s.rpos := by omega
    simp only [↓reduceIte, hn]
    have hk : (List.drop s.rpos s.win).length = B - s.rpos := by simp; omega
    refine ⟨⟨?_, ?_, ?_, ?_, ?_, ?_, ?_, ?_, ?_⟩, ?_, by simp, by simp⟩
    · simp
    · simp; omega
    · intro h; simp at h; simp; omega
    · intro h; simp at h; simp; omega
    · intro h; simp at h; simp; omega
    · intro y hy
      rcases List.mem_append.mp hy with hm | hm
      · exact hi.nonul_win y (List.mem_of_mem_drop hm)
      · exact hi.nonul_src y (List.mem_of_mem_take hm)
    · intro y hy; exact hi.nonul_src y (List.mem_of_mem_drop hy)
    · intro he
      simp at he
      have h2 : s.src.length = 0 := by omega
      have : s.src = [] := List.length_eq_zero_iff.mp h2
      simp [this]
    · simp [hi.noviol]; omega
    · unfold remaining window; simp
  | false =>
    have hs := hi.bad_src hg
    have hsh := hi.bad_short hg
    simp only [Bool.false_eq_true, ↓reduceIte]
    refine ⟨⟨?_, ?_, ?_, ?_, ?_, ?_, ?_, ?_, ?_⟩, ?_, by simp, by simp⟩
    · simp
    · simp; omega
    · intro h; cases h
    · intro _; exact hs
    · intro _; simp; omega
    · intro y hy; exact hi.nonul_win y (List.mem_of_mem_drop hy)
    · exact hi.nonul_src
    · intro _; exact hs
    · simp [hi.noviol]; omega
    · unfold remaining window; simp

theorem matchTok_sim {B c a} (hB : 2 ≤ B) (h : Sim B c a) (w : List Nat) (hne : w ≠ []) (hw : w.length ≤ B) :
    ∃ r, matchTok B c w = some r ∧ r.1 = (a.matchTok w).1 ∧ Sim B r.2 (a.matchTok w).2 := by
  have hrl := h.inv.rpos_le
  have hll := h.inv.len_le
  have hnone : ¬ (B - c.rpos < w.length ∧ B < w.length) := by omega
  unfold matchTok
  simp only [hnone, ↓reduceIte]
  refine ⟨_, rfl, ?_⟩
  have hanu : ∀ (s : AS), (a.matchTok w).1 = false → (a.matchTok w).2 = { a with canUnget := false } := by
    intro _ hf; unfold AS.matchTok at hf ⊢; split <;> simp_all
  by_cases hc : B - c.rpos < w.length
  · simp only [hc, ↓reduceIte]
    have hpos : 0 < c.rpos := by omega
    have hcs := compact_spec hB h.inv hpos
    have hsim : Sim B (compact B c) { a with canUnget := false } :=
      ⟨hcs.1, by rw [hcs.2.1]; exact h.rest, by rw [hcs.2.2.1]; exact h.line, by intro hc; cases hc⟩
    have hm := matchHere_sim hB hsim w hne (by rw [hcs.2.2.2]; omega)
    have hsame : ({ a with canUnget := false } : AS).matchTok w = a.matchTok w := by
      unfold AS.matchTok; simp
    rw [hsame] at hm
    refine ⟨hm.1, ?_⟩
    cases hb : (a.matchTok w).1 with
    | true => exact hm.2.1 hb
    | false => rw [hm.2.2 hb, hanu a hb]; exact hsim
  · simp only [hc, ↓reduceIte]
    have hm := matchHere_sim hB h w hne (by omega)
    refine ⟨hm.1, ?_⟩
    cases hb : (a.matchTok w).1 with
    | true => exact hm.2.1 hb
    | false => rw [hm.2.2 hb, hanu a hb]; exact h.noUnget

/-! ### the digit loop -/

/-- the saturating accumulation of the repaired digit loop over a digit string. -/
def satVal : List Nat → Nat → Nat
  | [], acc => acc
  | c :: r, acc => satVal r (satStep acc (toDigit c))

theorem val_mono : ∀ (r : List Nat) (a b : Nat), a ≤ b → val r a ≤ val r b := by
  intro r
  induction r with
  | nil => intro a b h; exact h
  | cons c r ih => intro a b h; exact ih _ _ (by omega)

theorem val_ge : ∀ (r : List Nat) (a : Nat), a ≤ val r a := by
  intro r
  induction r with
  | nil => intro a; exact Nat.le_refl a
  | cons c r ih => intro a; exact Nat.le_trans (by omega) (ih _)

theorem satStep_eq (acc d : Nat) (hd : d ≤ 9) : satStep acc d = min (acc * 10 + d) I64MAX := by
  unfold satStep I64MAX
  split <;> omega

theorem satStep_le (acc d : Nat) (hd : d ≤ 9) : satStep acc d ≤ I64MAX := by
  rw [satStep_eq _ _ hd]; exact Nat.min_le_right _ _

theorem toDigit_le {c : Nat} (h : isDigit c = true) : toDigit c ≤ 9 := by
  unfold isDigit at h; unfold toDigit; simp at h; omega

theorem digitRun_digits : ∀ (r : List Nat), ∀ c ∈ (digitRun r).1, isDigit c = true := by
  intro r
  induction r with
  | nil => intro c h; simp [digitRun] at h
  | cons x r ih =>
    intro c h
    unfold digitRun at h
    by_cases hd : isDigit x = true
    · simp only [hd, ↓reduceIte, List.mem_cons] at h
      rcases h with h | h
      · rw [h]; exact hd
      · exact ih c h
    · simp [hd] at h

theorem digitRun_append : ∀ (r : List Nat), (digitRun r).1 ++ (digitRun r).2 = r := by
  intro r
  induction r with
  | nil => simp [digitRun]
  | cons x r ih =>
    unfold digitRun
    by_cases hd : isDigit x = true
    · simp [hd, ih]
    · simp [hd]

/-- **a number is never altered**: for a digit string of any length the loop yields the exact value
    whenever that is at most `INT64_MAX`, and `INT64_MAX` otherwise. -/
theorem satVal_exact : ∀ (ds : List Nat) (acc : Nat), acc ≤ I64MAX → (∀ c ∈ ds, isDigit c = true) →
    satVal ds acc = min (val ds acc) I64MAX := by
  intro ds
  induction ds with
  | nil => intro acc h _; simp [satVal, val]; omega
  | cons c r ih =>
    intro acc h hd
    have hc := toDigit_le (hd c (by simp))
    simp only [satVal, val]
    rw [ih _ (satStep_le _ _ hc) (fun x hx => hd x (by simp [hx])), satStep_eq _ _ hc]
    by_cases hle : acc * 10 + toDigit c ≤ I64MAX
    · rw [Nat.min_eq_left hle]
    · have h1 : min (acc * 10 + toDigit c) I64MAX = I64MAX := by omega
      rw [h1]
      have h2 := val_ge r I64MAX
      have h3 := val_mono r I64MAX (acc * 10 + toDigit c) (by omega)
      omega

theorem digitsF_spec {B} (hB : 2 ≤ B) : ∀ (f : Nat) (c : BS) (acc : Nat), Inv B c → (remaining c).length < f →
    (digitsF B f c acc).1 = satVal (digitRun (remaining c)).1 acc ∧
    Inv B (digitsF B f c acc).2 ∧
    remaining (digitsF B f c acc).2 = (digitRun (remaining c)).2 ∧
    (digitsF B f c acc).2.line = c.line ∧
    ((digitRun (remaining c)).1 ≠ [] → 0 < (digitsF B f c acc).2.rpos) ∧
    ((digitRun (remaining c)).1 = [] → (digitsF B f c acc).2 = c) := by
  intro f
  induction f with
  | zero => intro c acc _ h; omega
  | succ f ih =>
    intro c acc hi hf
    unfold digitsF
    rw [peek_eq hi]
    cases hr : remaining c with
    | nil => simp [isDigit, digitRun, satVal, hi, hr]
    | cons x r =>
      simp only [List.headD_cons]
      by_cases hd : isDigit x = true
      case neg =>
        simp only [hd, Bool.false_eq_true, ↓reduceIte, digitRun, satVal]
        exact ⟨trivial, hi, hr, trivial, by simp, by simp⟩
      case pos =>
        simp only [↓reduceIte, digitRun, hd]
        have hg := rget_spec hB hi hr
        have hlen : (remaining (rget B c).2).length < f := by rw [hg.2.2.1]; rw [hr] at hf; simp at hf; omega
        have h := ih (rget B c).2 (satStep acc (toDigit (rget B c).1)) hg.2.1 hlen
        rw [hg.2.2.1] at h
        rw [hg.1] at h ⊢
        refine ⟨h.1, h.2.1, h.2.2.1, by rw [h.2.2.2.1, hg.2.2.2.1], ?_, by simp⟩
        intro _
        by_cases he : (digitRun r).1 = []
        · rw [h.2.2.2.2.2 he]; exact hg.2.2.2.2
        · exact h.2.2.2.2.1 he

theorem matchIntDigits_sim {B c1 a1} (hB : 2 ≤ B) (hsign : Sim B c1 a1) (sg : Nat) :
    (matchIntDigits B c1 sg).1 = (a1.matchIntDigits sg).1 ∧
    Sim B (matchIntDigits B c1 sg).2 (a1.matchIntDigits sg).2 := by
  unfold matchIntDigits AS.matchIntDigits
  rw [← hsign.peek]
  by_cases hd : isDigit c1.peek = true
  · simp only [hd, Bool.not_true, Bool.false_eq_true, ↓reduceIte]
    have hsp := digitsF_spec hB (c1.avail + 1) c1 0 hsign.inv (by rw [avail_eq]; omega)
    rw [hsign.rest] at hsp
    have hds := digitRun_digits a1.rest
    have hex := satVal_exact (digitRun a1.rest).1 0 (by unfold I64MAX; omega) hds
    have hne : (digitRun a1.rest).1 ≠ [] := by
      rw [hsign.peek] at hd
      cases hr : a1.rest with
      | nil => simp [AS.peek, hr, isDigit] at hd
      | cons x r => simp [AS.peek, hr] at hd; simp [digitRun, hd]
    refine ⟨by rw [hsp.1, hex], hsp.2.1, hsp.2.2.1, by rw [hsp.2.2.2.1, hsign.line], fun _ => hsp.2.2.2.2.1 hne⟩
  · simp only [hd, Bool.not_false, ↓reduceIte]
    exact ⟨trivial, hsign⟩

theorem matchIntCore_sim {B c a} (hB : 2 ≤ B) (h : Sim B c a) :
    (matchIntCore B c).1 = a.matchIntCore.1 ∧ Sim B (matchIntCore B c).2 a.matchIntCore.2 := by
  unfold matchIntCore AS.matchIntCore
  rw [← h.peek]
  apply matchIntDigits_sim hB
  by_cases hs : (c.peek == 43 || c.peek == 45) = true
  · simp only [hs, ↓reduceIte]
    have hne : c.peek ≠ 0 := by intro h0; rw [h0] at hs; simp at hs
    cases hr : a.rest with
    | nil => rw [h.peek] at hne; simp [AS.peek, hr] at hne
    | cons x r =>
      have hg := rget_spec hB h.inv (h.rest.trans hr)
      exact ⟨hg.2.1, hg.2.2.1, by rw [hg.2.2.2.1, h.line], fun _ => hg.2.2.2.2⟩
  · simp only [hs, Bool.false_eq_true, ↓reduceIte]; exact h

theorem matchInt_sim {B c a} (hB : 2 ≤ B) (h : Sim B c a) (n : Bool) :
    (matchInt B c n).1 = (a.matchInt n).1 ∧ Sim B (matchInt B c n).2 (a.matchInt n).2 := by
  unfold matchInt AS.matchInt
  cases n with
  | true => exact matchIntCore_sim hB h.noUnget
  | false => exact matchIntCore_sim hB (skipWs_sim hB h)

/-! ### raw copy -/

theorem takeWhile_nonul : ∀ (l : List Nat), (∀ c ∈ l, c ≠ 0) → l.takeWhile (· != 0) = l := by
  intro l
  induction l with
  | nil => intro _; rfl
  | cons x l ih =>
    intro h
    have hx : x ≠ 0 := h x (by simp)
    rw [List.takeWhile_cons]
    simp only [bne_iff_ne, ne_eq, hx, not_false_eq_true, ↓reduceIte]
    rw [ih (fun c hc => h c (by simp [hc]))]

theorem remaining_nil_of_peek {B s} (hi : Inv B s) (h : s.peek = 0) : remaining s = [] := by
  rw [peek_eq hi] at h
  cases hr : remaining s with
  | nil => rfl
  | cons x r =>
    rw [hr] at h
    exact absurd h (remaining_nonul hi.pre x (by rw [hr]; simp))

theorem copyF_spec {B} (hB : 2 ≤ B) : ∀ (f : Nat) (c : BS) (n : Nat) (out : List Nat), Inv B c →
    (remaining c).length < f →
    (copyF B f c n out).1 = out ++ (remaining c).take n ∧
    Inv B (copyF B f c n out).2 ∧
    remaining (copyF B f c n out).2 = (remaining c).drop n ∧
    (copyF B f c n out).2.line = c.line ∧
    (0 < ((remaining c).take n).length → 0 < (copyF B f c n out).2.rpos) ∧
    (((remaining c).take n).length = 0 → (copyF B f c n out).2 = c) := by
  intro f
  induction f with
  | zero => intro c n out _ h; omega
  | succ f ih =>
    intro c n out hi hf
    unfold copyF
    by_cases hn : n = 0
    · subst hn; simp [hi]
    · by_cases hp : c.peek = 0
      · have hr := remaining_nil_of_peek hi hp
        simp [hp, hr, hi]
      · have hcond : (n == 0 || c.peek == 0) = false := by simp [hn, hp]
        simp only [hcond, Bool.false_eq_true, ↓reduceIte]
        -- the chunk
        have hwn : ∀ x ∈ c.win.drop c.rpos, x ≠ 0 := fun x hx => hi.nonul_win x (List.mem_of_mem_drop hx)
        rw [takeWhile_nonul _ hwn]
        have hlt : c.rpos < c.win.length := by
          cases hr : remaining c with
          | nil => rw [peek_eq hi, hr] at hp; exact absurd rfl hp
          | cons x r => exact remaining_cons_lt hi hr
        have hm : ((c.win.drop c.rpos).take n).length = min n (c.win.length - c.rpos) := by simp
        have hmpos : 0 < ((c.win.drop c.rpos).take n).length := by rw [hm]; omega
        have hmle : c.rpos + ((c.win.drop c.rpos).take n).length ≤ c.win.length := by rw [hm]; omega
        have ha := advance hB hi _ hmpos hmle
        simp only [] at ha
        have hlen2 : (remaining (if ({ c with rpos := c.rpos + ((c.win.drop c.rpos).take n).length } : BS).cell
              (c.rpos + ((c.win.drop c.rpos).take n).length) == 0
            then underflow B { c with rpos := c.rpos + ((c.win.drop c.rpos).take n).length } true
            else { c with rpos := c.rpos + ((c.win.drop c.rpos).take n).length })).length < f := by
          have hrl : c.win.length - c.rpos ≤ (remaining c).length := by unfold remaining window; simp
          rw [ha.2.1, List.length_drop]; omega
        have h := ih _ (n - ((c.win.drop c.rpos).take n).length) (out ++ (c.win.drop c.rpos).take n) ha.1 hlen2
        rw [ha.2.1] at h
        -- arithmetic on take/drop
        have hchunk : (c.win.drop c.rpos).take n = (remaining c).take ((c.win.drop c.rpos).take n).length := by
          unfold remaining window
          rw [List.take_append_of_le_length (by rw [hm]; simp; omega)]
          rw [hm]
          simp
        have hsplit : (remaining c).take n = (remaining c).take ((c.win.drop c.rpos).take n).length ++
            ((remaining c).drop ((c.win.drop c.rpos).take n).length).take (n - ((c.win.drop c.rpos).take n).length) := by
          rw [← List.take_add]
          congr 1; rw [hm]; omega
        have hdrop : ((remaining c).drop ((c.win.drop c.rpos).take n).length).drop (n - ((c.win.drop c.rpos).take n).length)
            = (remaining c).drop n := by
          rw [List.drop_drop]; congr 1; rw [hm]; omega
        show (copyF B f _ _ _).1 = _ ∧ Inv B (copyF B f _ _ _).2 ∧ remaining (copyF B f _ _ _).2 = _ ∧
          (copyF B f _ _ _).2.line = _ ∧ (_ → 0 < (copyF B f _ _ _).2.rpos) ∧ (_ → (copyF B f _ _ _).2 = c)
        refine ⟨?_, h.2.1, ?_, ?_, ?_, ?_⟩
        · rw [h.1, hsplit, ← hchunk, List.append_assoc]
        · rw [h.2.2.1, hdrop]
        · rw [h.2.2.2.1, ha.2.2.1]
        · intro _
          by_cases hz : (((remaining c).drop ((c.win.drop c.rpos).take n).length).take (n - ((c.win.drop c.rpos).take n).length)).length = 0
          · rw [h.2.2.2.2.2 hz]; exact ha.2.2.2
          · exact h.2.2.2.2.1 (by omega)
        · intro hz
          rw [hsplit, ← hchunk] at hz
          simp at hz; omega

theorem copy_sim {B c a} (hB : 2 ≤ B) (h : Sim B c a) (n : Nat) :
    (copy B c n).1 = (a.copy n).1 ∧ Sim B (copy B c n).2 (a.copy n).2 := by
  have hsp := copyF_spec hB (c.avail + 1) c n [] h.inv (by rw [avail_eq]; omega)
  have hnn : ∀ x ∈ a.rest, x ≠ 0 := by rw [← h.rest]; exact remaining_nonul h.inv.pre
  unfold copy AS.copy
  rw [takeWhile_nonul _ hnn]
  rw [h.rest] at hsp
  refine ⟨by rw [hsp.1]; simp, hsp.2.1, ?_, by rw [hsp.2.2.2.1, h.line], ?_⟩
  · rw [hsp.2.2.1]
    show List.drop n a.rest = List.drop (List.take n a.rest).length a.rest
    simp
  · intro hc
    simp only [decide_eq_true_eq] at hc
    exact hsp.2.2.2.2.1 hc

/-! ### construction and the one-step simulation -/

theorem init_sim {B} (hB : 2 ≤ B) (input : List Nat) (hn : ∀ c ∈ input, c ≠ 0) :
    Sim B (BS.init B input) (AS.init input) := by
  unfold BS.init underflow AS.init
  simp only [Bool.not_true, Bool.false_eq_true, ↓reduceIte, Nat.lt_irrefl, decide_false, Bool.and_false,
    List.take_zero, List.nil_append]
  have hnB : B + 1 - (1 + 0) = B := by omega
  rw [hnB]
  refine ⟨⟨?_, ?_, ?_, ?_, ?_, ?_, ?_, ?_, ?_⟩, ?_, rfl, by intro hc; cases hc⟩
  · simp
  · simp; omega
  · intro h; simp at h; simp; omega
  · intro h; simp at h; simp; omega
  · intro h; simp at h; simp; omega
  · intro c hc; exact hn c (List.mem_of_mem_take hc)
  · intro c hc; exact hn c (List.mem_of_mem_drop hc)
  · intro h
    simp at h
    have h2 : input.length = 0 := by omega
    simp [List.length_eq_zero_iff.mp h2]
  · simp; omega
  · unfold remaining window; simp

theorem step_sim {B c a} (hB : 2 ≤ B) (h : Sim B c a) (op : Op) (hadm : Adm B a op) :
    (step B c op).1 = (a.step op).1 ∧ Sim B (step B c op).2 (a.step op).2 := by
  cases op with
  | peek => exact ⟨by simp [step, AS.step, h.peek], h⟩
  | get =>
    have := get_sim hB h
    exact ⟨by simp [step, AS.step, this.1], this.2⟩
  | unget x =>
    have := unget_sim h hadm.1 x hadm.2
    exact ⟨by simp [step, AS.step, this.1], this.2⟩
  | skipWs => exact ⟨rfl, skipWs_sim hB h⟩
  | matchTok w =>
    obtain ⟨r, hr, h1, h2⟩ := matchTok_sim hB h w hadm.1 hadm.2.1
    simp only [step, AS.step, hr]
    exact ⟨by rw [h1], h2⟩
  | matchInt n =>
    have := matchInt_sim hB h n
    exact ⟨by simp [step, AS.step, this.1], this.2⟩
  | copy n =>
    have := copy_sim hB h n
    exact ⟨by simp [step, AS.step, this.1], this.2⟩
  | atEnd => exact ⟨by simp [step, AS.step, BS.atEnd, h.peek], h⟩
  | line => exact ⟨by simp [step, AS.step, h.line], h⟩

end PotasscoVerif.BufferedStream
