/-
  Several incremental steps of the converter: the OUTPUT side.  `KO`: after any number of steps every output directive (and every edge, under its
  helper name) given so far has an emitted output directive on an atom that stands for its condition — the image of the single positive literal, or an
  auxiliary atom defined by the condition —, and every emitted output directive comes from one.  Carried from step to step together with the
  translation invariant `J` and the flag tracker `XI` under ONE table of auxiliary atoms (`steps_JXO`).
  Uses the two extra parameters of `K` (Lemmas/ConvertSem.lean): `base` = the output directives earlier steps emitted, `E` = the representation
  relation at the start of the step, which the step must keep.
-/
import PotasscoVerif.Lemmas.ConvertSteps
namespace PotasscoVerif.C02
open PotasscoVerif PotasscoVerif.Convert PotasscoVerif.Asp

/-- `J`, `K` and `XI` through the directives of a step, one table of auxiliary atoms (as `run_plainM` without the minimize table, any `base`/`E`) -/
theorem run_JKX {c : CS} {P O defs base E} {t : T} (hj : J c P defs) (hk : K c O defs base E) (hxi : XI c t) (ds : List Call) (hx : ∀ d ∈ ds, PlainOk d) :
    ∃ defs', J (ds.foldl CS.apply c) (P ++ (rulesOf ds).filter kept) defs' ∧ K (ds.foldl CS.apply c) (O ++ srcOuts ds) defs' base E ∧
      XI (ds.foldl CS.apply c) (t.run ds) := by
  induction ds generalizing c P O defs t with
  | nil => exact ⟨defs, by simpa [rulesOf] using hj, by simpa [srcOuts] using hk, hxi⟩
  | cons d r ih =>
    obtain ⟨defs1, h1, k1⟩ := apply_plain hj hk d (hx d (by simp))
    have x1 := hxi.step hj.inv hj.nofail d (hx d (by simp))
    obtain ⟨defs2, h2, k2, x2⟩ := ih h1 k1 x1 (fun e he => hx e (by simp [he]))
    refine ⟨defs2, ?_, ?_, x2⟩
    · have : rulesOf (d :: r) = rulesOf [d] ++ rulesOf r := by rw [← rulesOf_append]; rfl
      rw [this, List.filter_append, ← List.append_assoc]
      exact h2
    · have : srcOuts (d :: r) = srcOuts [d] ++ srcOuts r := by rw [← srcOuts_append]; rfl
      rw [this, ← List.append_assoc]
      exact k2

theorem run_heurJ {c : CS} {P defs} (hj : J c P defs) (ds : List Call) (hx : ∀ d ∈ ds, PlainOk d) (hn : ∀ d ∈ ds, isHeu d = false) :
    (ds.foldl CS.apply c).heur = c.heur := by
  induction ds generalizing c P defs with
  | nil => rfl
  | cons d r ih =>
    obtain ⟨defs1, h1⟩ := apply_plainJ hj d (hx d (by simp))
    simp only [List.foldl_cons]
    rw [ih h1 (fun e he => hx e (by simp [he])) (fun e he => hn e (by simp [he])), apply_plain_heur c hj.nofail d (hx d (by simp)) (hn d (by simp))]

/-- the shape of `flushExternal` for either setting of the extension -/
theorem flushShape_any (c : CS) (hi : Inv (abs c)) (hm : ∀ a ∈ c.externs, a ∈ domOf c) (hE : c.ext = true ∨ c.externs = []) : FlushShape c.flushMinimize := by
  obtain ⟨g1, g2, g3⟩ := flushMinimize_flags c
  have hm1 : ∀ a ∈ c.flushMinimize.externs, a ∈ domOf c.flushMinimize := fun a ha => dom_mono (flushMinimize_steps c) hi a (hm a (g2 ▸ ha))
  rcases hE with he | he
  · refine ⟨extCallsT c.flushMinimize, flushExternal_specT _ (g3.trans he) (fun a ha => dom_find _ a (hm1 a ha)), ?_, ?_⟩
    · unfold extCallsT outsOf
      induction c.flushMinimize.externs with
      | nil => rfl
      | cons a r ih => simpa [outOf] using ih
    · unfold extCallsT minsOf
      induction c.flushMinimize.externs with
      | nil => rfl
      | cons a r ih => simpa [minOf] using ih
  · exact flushShape _ hm1 (Or.inr (g2.trans he))

/-- `final_outs` with output directives of earlier steps in front -/
theorem final_outs_base (c : CS) (hf : c.fail = false) (hfs : FlushShape c.flushMinimize) (hh : c.heur = []) :
    outsOf (c.apply .endStep).out = outsOf c.out ++ (sortSyms c.output).map (fun p => (p.2, [(p.1 : Int)])) := by
  rw [apply_end c hf]
  obtain ⟨f1, f2, f3, f4⟩ := flushMinimize_frame c
  obtain ⟨rs, e, o1, _⟩ := hfs
  unfold CS.flush
  simp only [CS.emit]
  rw [e, flushHeuristic_none _ (by show c.flushMinimize.heur = []; exact f4.trans hh)]
  rw [outsOf_append, outsOf_append, flushSymbols_outs]
  show (outsOf (c.flushMinimize.out ++ rs) ++ (sortSyms c.flushMinimize.output).map _ ++ outsOf [Call.assume [-1]]) ++ outsOf [Call.endStep] = _
  rw [outsOf_append, f1, f2, o1]
  simp [outsOf, outOf]

/-- what has been shown so far (state between two steps): nothing pending, and the emitted output directives are those given -/
structure KO (c : CS) (Oall : List (List Nat × List Int)) (defs : List (Nat × Body)) : Prop where
  pend : c.output = []
  noheu : c.heur = []
  fwd : ∀ o ∈ Oall, ∃ n : Nat, (o.1, [(n : Int)]) ∈ outsOf c.out ∧ Rep c defs n o.2
  bwd : ∀ p ∈ outsOf c.out, ∃ (n : Nat) (cond : List Int), p.2 = [(n : Int)] ∧ (p.1, cond) ∈ Oall ∧ Rep c defs n cond

theorem KO.emit {c : CS} {Oall defs} (h : KO c Oall defs) (x : Call) (hx : outOf x = none) : KO (c.emit x) Oall defs := by
  have e : outsOf (c.emit x).out = outsOf c.out := by simp [CS.emit, outsOf_append, outsOf, hx]
  exact ⟨h.pend, h.noheu, fun o ho => by rw [e]; exact h.fwd o ho, fun p hp => h.bwd p (e ▸ hp)⟩

/-- one whole step from a state between two steps: `J`, `XI` and `KO` for the SAME table of auxiliary atoms (steps without heuristic directives;
    without external directives, or with the extension on) -/
theorem step_JXO {c : CS} {P defs} {t : T} {Oall} (hj : J c P defs) (hxi : XI c t) (ht : t.regs = []) (hko : KO c Oall defs)
    (ds : List Call) (hx : ∀ d ∈ ds, PlainOk d) (hnh : ∀ d ∈ ds, isHeu d = false) (hE : extCalls ds = [] ∨ c.ext = true) :
    ∃ defs', J (stepRun c ds) (P ++ (rulesOf ds).filter kept) defs' ∧ XI (stepRun c ds) (t.run ds).next ∧
      KO (stepRun c ds) (Oall ++ srcOuts ds) defs' := by
  have hb : J (c.apply .beginStep) P defs := by rw [apply_begin _ hj.nofail]; exact hj.emit _ rfl
  have xb : XI (c.apply .beginStep) t := by rw [apply_begin _ hj.nofail]; exact hxi.emit _
  have kob : KO (c.apply .beginStep) Oall defs := by rw [apply_begin _ hj.nofail]; exact hko.emit _ rfl
  have kb : K (c.apply .beginStep) [] defs (outsOf (c.apply .beginStep).out) (fun n cond => Rep (c.apply .beginStep) defs n cond) :=
    ⟨(by intro o ho; cases ho), (by intro p hp; rw [kob.pend] at hp; cases hp), rfl, fun _ _ h => h⟩
  obtain ⟨defs', h1, k1, x1⟩ := run_JKX hb kb xb ds hx
  rw [List.nil_append] at k1
  have hextOr : (ds.foldl CS.apply (c.apply .beginStep)).ext = true ∨ (ds.foldl CS.apply (c.apply .beginStep)).externs = [] := by
    rcases hE with h | h
    · right; rw [x1.r, run_regs_nil ds t h, ht]
    · left
      have e0 : (c.apply .beginStep).ext = c.ext := by rw [apply_begin _ hj.nofail]; rfl
      have : ∀ (l : List Call) (c0 : CS) {P0 d0}, J c0 P0 d0 → (∀ d ∈ l, PlainOk d) → (l.foldl CS.apply c0).ext = c0.ext := by
        intro l
        induction l with
        | nil => intro _ _ _ _ _; rfl
        | cons d r ih =>
          intro c0 P0 d0 hj0 hx0
          obtain ⟨d1, hj1⟩ := apply_plainJ hj0 d (hx0 d (by simp))
          simp only [List.foldl_cons]
          rw [ih _ hj1 (fun e he => hx0 e (by simp [he])), apply_plain_ext c0 hj0.nofail d (hx0 d (by simp))]
      rw [this ds _ hb hx, e0, h]
  have hfl : J (ds.foldl CS.apply (c.apply .beginStep)).flush (P ++ (rulesOf ds).filter kept) defs' := by
    rcases hextOr with h | h
    · exact h1.flushT x1.m h
    · have := h1.flush x1.m (Or.inr h)
      rwa [extP_nil _ h, List.append_nil] at this
  have hshape := flushShape_any _ h1.inv x1.m hextOr
  have hheur : (ds.foldl CS.apply (c.apply .beginStep)).heur = [] := by rw [run_heurJ hb ds hx hnh]; exact kob.noheu
  have houts := final_outs_base _ h1.nofail hshape hheur
  have hs3 : Steps (abs (ds.foldl CS.apply (c.apply .beginStep))) (abs ((ds.foldl CS.apply (c.apply .beginStep)).apply .endStep)) := apply_steps _ _
  refine ⟨defs', ?_, ?_, ?_⟩
  · show J ((ds.foldl CS.apply (c.apply .beginStep)).apply .endStep) _ _
    rw [apply_end _ h1.nofail]; exact hfl.emit _ rfl
  · show XI ((ds.foldl CS.apply (c.apply .beginStep)).apply .endStep) _
    rw [apply_end _ h1.nofail]; exact (x1.flush h1.inv).emit _
  · show KO ((ds.foldl CS.apply (c.apply .beginStep)).apply .endStep) _ _
    refine ⟨?_, ?_, ?_, ?_⟩
    · rw [apply_end _ h1.nofail]; rfl
    · rw [apply_end _ h1.nofail]; rfl
    · intro o ho
      rcases List.mem_append.mp ho with h | h
      · obtain ⟨n, hm, hr⟩ := kob.fwd o h
        refine ⟨n, ?_, (k1.keep n o.2 hr).mono hs3 h1.inv (fun d hd => hd)⟩
        rw [houts, k1.noout]; exact List.mem_append_left _ hm
      · obtain ⟨n, hm, hr⟩ := k1.fwd o h
        refine ⟨n, ?_, hr.mono hs3 h1.inv (fun d hd => hd)⟩
        rw [houts]; apply List.mem_append_right
        simp only [List.mem_map]
        exact ⟨(n, o.1), (mem_sortSyms _ _).mpr hm, rfl⟩
    · intro p hp
      rw [houts, k1.noout] at hp
      rcases List.mem_append.mp hp with h | h
      · obtain ⟨n, cond, e, hm, hr⟩ := kob.bwd p h
        exact ⟨n, cond, e, List.mem_append_left _ hm, (k1.keep n cond hr).mono hs3 h1.inv (fun d hd => hd)⟩
      · simp only [List.mem_map] at h
        obtain ⟨q, hq, rfl⟩ := h
        obtain ⟨cond, hm, hr⟩ := k1.bwd q ((mem_sortSyms _ _).mp hq)
        exact ⟨q.1, cond, rfl, List.mem_append_right _ hm, hr.mono hs3 h1.inv (fun d hd => hd)⟩

/-- **several steps, output side**: `steps_JX` with `KO` carried along -/
theorem steps_JXO (dss : List (List Call)) (hx : ∀ ds ∈ dss, ∀ d ∈ ds, PlainOk d) (hnh : ∀ ds ∈ dss, ∀ d ∈ ds, isHeu d = false)
    {c : CS} {P defs} {t : T} {Oall} (hj : J c P defs) (hxi : XI c t) (ht : t.regs = []) (hko : KO c Oall defs)
    (hE : (∀ ds ∈ dss, extCalls ds = []) ∨ c.ext = true) :
    ∃ defs' t', J (dss.foldl stepRun c) (P ++ (rulesOf dss.flatten).filter kept) defs' ∧ XI (dss.foldl stepRun c) t' ∧ t'.regs = [] ∧
      KO (dss.foldl stepRun c) (Oall ++ srcOuts dss.flatten) defs' := by
  induction dss generalizing c P defs t Oall with
  | nil => exact ⟨defs, t, by simpa [rulesOf] using hj, hxi, ht, by simpa [srcOuts] using hko⟩
  | cons ds r ih =>
    have hx1 : ∀ d ∈ ds, PlainOk d := hx ds (by simp)
    have hE1 : extCalls ds = [] ∨ c.ext = true := by
      rcases hE with h | h
      · exact Or.inl (h ds (by simp))
      · exact Or.inr h
    obtain ⟨defs1, h1, x1, k1⟩ := step_JXO hj hxi ht hko ds hx1 (hnh ds (by simp)) hE1
    have hext : (stepRun c ds).ext = c.ext := stepRun_ext hj hxi ds hx1
    have hE2 : (∀ ds' ∈ r, extCalls ds' = []) ∨ (stepRun c ds).ext = true := by
      rcases hE with h | h
      · exact Or.inl (fun ds' h' => h ds' (by simp [h']))
      · exact Or.inr (hext.trans h)
    obtain ⟨defs2, t2, h2, x2, r2, k2⟩ := ih (fun ds' h' => hx ds' (by simp [h'])) (fun ds' h' => hnh ds' (by simp [h'])) (c := stepRun c ds) h1 x1 rfl k1 hE2
    refine ⟨defs2, t2, ?_, x2, r2, ?_⟩
    · simp only [List.foldl_cons, List.flatten_cons]
      have : rulesOf (ds ++ r.flatten) = rulesOf ds ++ rulesOf r.flatten := rulesOf_append _ _
      rw [this, List.filter_append, ← List.append_assoc]
      exact h2
    · simp only [List.foldl_cons, List.flatten_cons]
      rw [srcOuts_append, ← List.append_assoc]
      exact k2

/-! ### the minimize statements over several steps -/

/-- `final_mins` with minimize statements of earlier steps in front -/
theorem final_mins_base (c : CS) (hf : c.fail = false) (hfs : FlushShape c.flushMinimize) (hh : c.heur = []) (hi : Inv (abs c))
    (m : Nat → Nat) (ha : Agree (c.apply .endStep) m) :
    minsOf (c.apply .endStep).out = minsOf c.out ++ c.minimize.map (fun pl => (pl.1, renW m pl.2)) ∧
    ∀ pl ∈ c.minimize, ∀ q ∈ pl.2, q.1.natAbs ∈ domOf (c.apply .endStep) := by
  obtain ⟨f1, f2, f3, f4⟩ := flushMinimize_frame c
  obtain ⟨rs, e, _, o2⟩ := hfs
  have hfl : c.flush = { (({ c.flushMinimize with out := c.flushMinimize.out ++ rs } : CS).flushSymbols.emit (.assume [-1])) with
      minimize := [], externs := [], heur := [], output := [] } := by
    unfold CS.flush
    simp only
    rw [e, flushHeuristic_none _ (by show c.flushMinimize.heur = []; exact f4.trans hh)]
  have habs : abs (c.apply .endStep) = abs c.flushMinimize := by
    rw [apply_end c hf, hfl]
    exact abs_flushSymbols _
  have ha' : Agree c.flushMinimize m := by unfold Agree; rw [← habs]; exact ha
  obtain ⟨g1, g2⟩ := flushMinimize_mins c hi m ha'
  refine ⟨?_, ?_⟩
  · rw [apply_end c hf, hfl]
    simp only [CS.emit]
    rw [minsOf_append, minsOf_append, flushSymbols_mins]
    show (minsOf (c.flushMinimize.out ++ rs) ++ minsOf [Call.assume [-1]]) ++ minsOf [Call.endStep] = _
    rw [minsOf_append, g1, o2]
    simp [minsOf, minOf]
  · intro pl hpl q hq
    unfold domOf; rw [habs]; exact g2 pl hpl q hq

/-- the pending minimize table through the directives of a step -/
theorem run_M {c : CS} {P defs Ms base} (hj : J c P defs) (hM : M c Ms base) (ds : List Call) (hx : ∀ d ∈ ds, PlainOk d) :
    M (ds.foldl CS.apply c) (Ms ++ minsOf ds) base := by
  induction ds generalizing c P defs Ms with
  | nil => simpa [minsOf] using hM
  | cons d r ih =>
    obtain ⟨defs1, h1⟩ := apply_plainJ hj d (hx d (by simp))
    have m1 := hM.step hj.nofail d (hx d (by simp))
    have m2 := ih h1 m1 (fun e he => hx e (by simp [he]))
    have : minsOf (d :: r) = minsOf [d] ++ minsOf r := by rw [← minsOf_append]; rfl
    rw [this, ← List.append_assoc]
    exact m2

/-- the minimize statements emitted so far (state between two steps): a table `TT` over the GIVEN atoms whose image under any atom map that agrees with the
    state is what has been emitted, which costs what the given statements (negative weights moved to the complementary literals) cost -/
structure MO (c : CS) (Msrc : List (Int × List (Int × Int))) : Prop where
  pend : c.minimize = []
  tab : ∃ TT : List (Int × List (Int × Int)),
      (∀ m, Agree c m → minsOf c.out = TT.map (fun pl => (pl.1, renW m pl.2))) ∧
      (∀ X p, costM X TT p = costM X (Msrc.map (fun q => (q.1, q.2.map flipNeg))) p) ∧
      (∀ pl ∈ TT, ∀ q ∈ pl.2, q.1 ≠ 0 ∧ q.1.natAbs ∈ domOf c)

theorem step_MO {c : CS} {P defs} {t : T} {Msrc} (hj : J c P defs) (hxi : XI c t) (ht : t.regs = []) (hmo : MO c Msrc) (hh0 : c.heur = [])
    (ds : List Call) (hx : ∀ d ∈ ds, PlainOk d) (hnh : ∀ d ∈ ds, isHeu d = false) (hE : extCalls ds = [] ∨ c.ext = true) :
    MO (stepRun c ds) (Msrc ++ minsOf ds) := by
  have hb : J (c.apply .beginStep) P defs := by rw [apply_begin _ hj.nofail]; exact hj.emit _ rfl
  have xb : XI (c.apply .beginStep) t := by rw [apply_begin _ hj.nofail]; exact hxi.emit _
  have eb : minsOf (c.apply .beginStep).out = minsOf c.out := by
    rw [apply_begin _ hj.nofail]; simp [CS.emit, minsOf_append, minsOf, minOf]
  have mb : M (c.apply .beginStep) [] (minsOf c.out) := by
    refine ⟨?_, ?_, eb⟩
    · intro X p
      have : (c.apply .beginStep).minimize = [] := by rw [apply_begin _ hj.nofail]; exact hmo.pend
      rw [this]; rfl
    · intro pl hpl
      have : (c.apply .beginStep).minimize = [] := by rw [apply_begin _ hj.nofail]; exact hmo.pend
      rw [this] at hpl; cases hpl
  obtain ⟨defs', h1, x1⟩ := run_JX hb xb ds hx
  have m1 := run_M hb mb ds hx
  rw [List.nil_append] at m1
  have hextOr : (ds.foldl CS.apply (c.apply .beginStep)).ext = true ∨ (ds.foldl CS.apply (c.apply .beginStep)).externs = [] := by
    rcases hE with h | h
    · right; rw [x1.r, run_regs_nil ds t h, ht]
    · left
      have e0 : (c.apply .beginStep).ext = c.ext := by rw [apply_begin _ hj.nofail]; rfl
      have : ∀ (l : List Call) (c0 : CS) {P0 d0}, J c0 P0 d0 → (∀ d ∈ l, PlainOk d) → (l.foldl CS.apply c0).ext = c0.ext := by
        intro l
        induction l with
        | nil => intro _ _ _ _ _; rfl
        | cons d r ih =>
          intro c0 P0 d0 hj0 hx0
          obtain ⟨d1, hj1⟩ := apply_plainJ hj0 d (hx0 d (by simp))
          simp only [List.foldl_cons]
          rw [ih _ hj1 (fun e he => hx0 e (by simp [he])), apply_plain_ext c0 hj0.nofail d (hx0 d (by simp))]
      rw [this ds _ hb hx, e0, h]
  have hshape := flushShape_any _ h1.inv x1.m hextOr
  have hheur : (ds.foldl CS.apply (c.apply .beginStep)).heur = [] := by
    rw [run_heurJ hb ds hx hnh, apply_begin _ hj.nofail]; exact hh0
  have hs : Steps (abs c) (abs ((ds.foldl CS.apply (c.apply .beginStep)).apply .endStep)) :=
    ((apply_steps c .beginStep).trans (convert_steps _ ds)).trans (apply_steps _ .endStep)
  obtain ⟨TT, t1, t2, t3⟩ := hmo.tab
  show MO ((ds.foldl CS.apply (c.apply .beginStep)).apply .endStep) _
  refine ⟨?_, TT ++ (ds.foldl CS.apply (c.apply .beginStep)).minimize, ?_, ?_, ?_⟩
  · rw [apply_end _ h1.nofail]; rfl
  · intro m ha
    obtain ⟨g1, _⟩ := final_mins_base _ h1.nofail hshape hheur h1.inv m ha
    rw [g1, m1.nomin, t1 m (agree_back hs hj.inv ha), List.map_append]
  · intro X p
    rw [costM_append, t2 X p, m1.cost X p, List.map_append, costM_append]
  · intro pl hpl q hq
    rcases List.mem_append.mp hpl with h | h
    · exact ⟨(t3 pl h q hq).1, dom_mono hs hj.inv _ (t3 pl h q hq).2⟩
    · obtain ⟨_, g2⟩ := final_mins_base _ h1.nofail hshape hheur h1.inv (finalMap _) (agree_final _ (steps_inv' hs hj.inv))
      exact ⟨m1.nz pl h q hq, g2 pl h q hq⟩

/-- **several steps, outputs and minimize statements**: `steps_JXO` with `MO` carried along -/
theorem steps_JXOM (dss : List (List Call)) (hx : ∀ ds ∈ dss, ∀ d ∈ ds, PlainOk d) (hnh : ∀ ds ∈ dss, ∀ d ∈ ds, isHeu d = false)
    {c : CS} {P defs} {t : T} {Oall Msrc} (hj : J c P defs) (hxi : XI c t) (ht : t.regs = []) (hko : KO c Oall defs) (hmo : MO c Msrc)
    (hE : (∀ ds ∈ dss, extCalls ds = []) ∨ c.ext = true) :
    ∃ defs' t', J (dss.foldl stepRun c) (P ++ (rulesOf dss.flatten).filter kept) defs' ∧ XI (dss.foldl stepRun c) t' ∧ t'.regs = [] ∧
      KO (dss.foldl stepRun c) (Oall ++ srcOuts dss.flatten) defs' ∧ MO (dss.foldl stepRun c) (Msrc ++ minsOf dss.flatten) := by
  induction dss generalizing c P defs t Oall Msrc with
  | nil => exact ⟨defs, t, by simpa [rulesOf] using hj, hxi, ht, by simpa [srcOuts] using hko, by simpa [minsOf] using hmo⟩
  | cons ds r ih =>
    have hx1 : ∀ d ∈ ds, PlainOk d := hx ds (by simp)
    have hE1 : extCalls ds = [] ∨ c.ext = true := by
      rcases hE with h | h
      · exact Or.inl (h ds (by simp))
      · exact Or.inr h
    obtain ⟨defs1, h1, x1, k1⟩ := step_JXO hj hxi ht hko ds hx1 (hnh ds (by simp)) hE1
    have m1 := step_MO hj hxi ht hmo hko.noheu ds hx1 (hnh ds (by simp)) hE1
    have hext : (stepRun c ds).ext = c.ext := stepRun_ext hj hxi ds hx1
    have hE2 : (∀ ds' ∈ r, extCalls ds' = []) ∨ (stepRun c ds).ext = true := by
      rcases hE with h | h
      · exact Or.inl (fun ds' h' => h ds' (by simp [h']))
      · exact Or.inr (hext.trans h)
    obtain ⟨defs2, t2, h2, x2, r2, k2, m2⟩ := ih (fun ds' h' => hx ds' (by simp [h'])) (fun ds' h' => hnh ds' (by simp [h'])) (c := stepRun c ds) h1 x1 rfl k1 m1 hE2
    refine ⟨defs2, t2, ?_, x2, r2, ?_, ?_⟩
    · simp only [List.foldl_cons, List.flatten_cons]
      have : rulesOf (ds ++ r.flatten) = rulesOf ds ++ rulesOf r.flatten := rulesOf_append _ _
      rw [this, List.filter_append, ← List.append_assoc]
      exact h2
    · simp only [List.foldl_cons, List.flatten_cons]
      rw [srcOuts_append, ← List.append_assoc]
      exact k2
    · simp only [List.foldl_cons, List.flatten_cons]
      rw [minsOf_append, ← List.append_assoc]
      exact m2

end PotasscoVerif.C02
