/-
  The executable enumerator of Spec/Asp.lean decides the declarative definition:
  `stableB P xs = true ↔ Stable P (ofList xs)`, and every stable model that lies inside a list of atoms is found.
-/
import PotasscoVerif.Lemmas.AspBasic
namespace PotasscoVerif.Asp

theorem modelRb_iff (P : List Rule) (X Y : I) : modelRb P X Y = true ↔ ModelR P X Y := by
  simp [modelRb, ModelR, List.all_eq_true]

theorem mem_sublists_sub (xs ys : List Nat) (h : ys ∈ sublists xs) : ∀ a ∈ ys, a ∈ xs := by
  induction xs generalizing ys with
  | nil => simp only [sublists, List.mem_singleton] at h; subst h; intro a ha; cases ha
  | cons x r ih =>
    simp only [sublists, List.mem_append, List.mem_map] at h
    rcases h with h | ⟨zs, hz, rfl⟩
    · intro a ha; exact List.mem_cons_of_mem _ (ih ys h a ha)
    · intro a ha
      rcases List.mem_cons.mp ha with e | e
      · subst e; simp
      · exact List.mem_cons_of_mem _ (ih zs hz a e)

theorem filter_mem_sublists (xs : List Nat) (p : Nat → Bool) : xs.filter p ∈ sublists xs := by
  induction xs with
  | nil => simp [sublists]
  | cons x r ih =>
    simp only [sublists, List.mem_append, List.mem_map, List.filter_cons]
    cases hp : p x
    · left; simpa using ih
    · right; exact ⟨r.filter p, ih, by simp⟩

theorem ofList_filter (xs : List Nat) (Y : I) (h : Sub Y (ofList xs)) : Y = ofList (xs.filter Y) := by
  funext a
  unfold ofList
  cases hy : Y a
  · symm; simp [hy]
  · have := h a hy
    unfold ofList at this
    symm; simp only [List.contains_iff_mem, List.mem_filter] at this ⊢
    simp [this, hy]

theorem sub_ofList (xs ys : List Nat) : Sub (ofList ys) (ofList xs) ↔ ∀ a ∈ ys, a ∈ xs := by
  unfold Sub ofList
  simp only [List.contains_iff_mem]

/-- **the enumerator's test is the definition** -/
theorem stableB_iff (P : List Rule) (xs : List Nat) : stableB P xs = true ↔ Stable P (ofList xs) := by
  unfold stableB Stable
  rw [Bool.and_eq_true, modelRb_iff]
  constructor
  · rintro ⟨h1, h2⟩
    refine ⟨h1, ?_⟩
    intro Y hsub hm
    have hy := ofList_filter xs Y hsub
    rw [List.all_eq_true] at h2
    have := h2 _ (filter_mem_sublists xs Y)
    rw [← hy] at this
    simp only [Bool.or_eq_true, Bool.not_eq_true'] at this
    rcases this with h | h
    · have := (modelRb_iff P (ofList xs) Y).mpr hm
      rw [h] at this; cases this
    · rw [hy, sub_ofList]
      rw [List.all_eq_true] at h
      intro a ha; simpa using h a ha
  · rintro ⟨h1, h2⟩
    refine ⟨h1, ?_⟩
    rw [List.all_eq_true]
    intro ys hys
    simp only [Bool.or_eq_true, Bool.not_eq_true']
    cases hm : modelRb P (ofList xs) (ofList ys)
    · exact Or.inl rfl
    · right
      have hs : Sub (ofList ys) (ofList xs) := (sub_ofList xs ys).mpr (mem_sublists_sub xs ys hys)
      have := h2 _ hs ((modelRb_iff _ _ _).mp hm)
      rw [sub_ofList] at this
      rw [List.all_eq_true]
      intro a ha; simpa using this a ha

/-- **completeness of the enumeration**: a stable model all of whose atoms are in `atoms` is listed (as a function) -/
theorem stableModels_complete (P : List Rule) (atoms : List Nat) (X : I) (hs : Stable P X) (hin : ∀ a, X a = true → a ∈ atoms) :
    ∃ xs ∈ stableModels P atoms, X = ofList xs := by
  have hsub : Sub X (ofList atoms) := by
    intro a ha; simp [ofList, hin a ha]
  have hx := ofList_filter atoms X hsub
  refine ⟨atoms.filter X, ?_, hx⟩
  unfold stableModels
  rw [List.mem_filter]
  refine ⟨filter_mem_sublists atoms X, ?_⟩
  rw [stableB_iff, ← hx]; exact hs

/-- **soundness of the enumeration** -/
theorem stableModels_sound (P : List Rule) (atoms : List Nat) (xs : List Nat) (h : xs ∈ stableModels P atoms) : Stable P (ofList xs) := by
  unfold stableModels at h
  exact (stableB_iff P xs).mp (List.mem_filter.mp h).2

end PotasscoVerif.Asp
