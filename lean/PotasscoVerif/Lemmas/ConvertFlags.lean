/-
  The per-atom flags of the converter model (`head`, `extn`) and the list of registered externals through the
  operations of a step, against a small pure tracker (`T`): heads seen so far, externals registered (an external on an
  atom that already is a head is ignored), the last value registered per atom.
-/
import PotasscoVerif.Lemmas.ConvertSem
namespace PotasscoVerif.C02
open PotasscoVerif PotasscoVerif.Convert PotasscoVerif.Asp

def hd (c : CS) (a : Nat) : Bool := match c.find a with | some x => x.head | none => false
def ex (c : CS) (a : Nat) : Nat := match c.find a with | some x => x.extn | none => 0

theorem find_mapAtom_other (c : CS) (a b : Nat) (h : b ≠ a) : (c.mapAtom a).1.find b = c.find b := by
  unfold CS.mapAtom
  cases hf : c.find a with
  | some x => rfl
  | none =>
    simp only [CS.find, List.find?_append]
    have : ((a, ({ smId := c.next } : CAtom)).1 == b) = false := by simp; exact fun e => h e.symm
    cases h2 : c.atoms.find? (fun p => p.1 == b) <;> simp [h2, List.find?_cons, this]

theorem find_mapAtom_self (c : CS) (a : Nat) : (c.mapAtom a).1.find a = some (c.mapAtom a).2 := by
  unfold CS.mapAtom
  cases hf : c.find a with
  | some x => simpa using hf
  | none =>
    simp only [CS.find, List.find?_append]
    have h0 : c.atoms.find? (fun p => p.1 == a) = none := by
      unfold CS.find at hf; simpa using hf
    simp [h0]

theorem mapAtom_snd_flags (c : CS) (a : Nat) : (c.mapAtom a).2.head = hd c a ∧ (c.mapAtom a).2.extn = ex c a := by
  unfold CS.mapAtom hd ex
  cases hf : c.find a <;> simp

theorem hd_mapAtom (c : CS) (a b : Nat) : hd (c.mapAtom a).1 b = hd c b := by
  by_cases h : b = a
  · subst h
    unfold hd; rw [find_mapAtom_self]
    exact (mapAtom_snd_flags c b).1
  · unfold hd; rw [find_mapAtom_other c a b h]

theorem ex_mapAtom (c : CS) (a b : Nat) : ex (c.mapAtom a).1 b = ex c b := by
  by_cases h : b = a
  · subst h
    unfold ex; rw [find_mapAtom_self]
    exact (mapAtom_snd_flags c b).2
  · unfold ex; rw [find_mapAtom_other c a b h]

theorem find_updAtom (c : CS) (a : Nat) (f : CAtom → CAtom) (b : Nat) :
    (c.updAtom a f).find b = if b = a then (c.find b).map f else c.find b := by
  unfold CS.updAtom CS.find
  simp only
  induction c.atoms with
  | nil => simp
  | cons p r ih =>
    simp only [List.map_cons, List.find?_cons]
    by_cases hp : p.1 = b
    · by_cases hb : b = a
      · subst hb; subst hp; simp
      · have : ¬ p.1 = a := fun e => hb (hp ▸ e)
        simp [hp, hb, this]
    · have e1 : (p.1 == b) = false := by simpa using hp
      have e2 : ((if (p.1 == a) = true then (p.1, f p.2) else p).1 == b) = false := by
        split <;> simpa using hp
      rw [e1, e2]; exact ih

theorem hd_upd_other (c : CS) (a : Nat) (f : CAtom → CAtom) (hf : ∀ x, (f x).head = x.head) (b : Nat) : hd (c.updAtom a f) b = hd c b := by
  unfold hd; rw [find_updAtom]
  by_cases hb : b = a
  · rw [if_pos hb]; cases c.find b <;> simp [hf]
  · rw [if_neg hb]

theorem ex_upd_other (c : CS) (a : Nat) (f : CAtom → CAtom) (hf : ∀ x, (f x).extn = x.extn) (b : Nat) : ex (c.updAtom a f) b = ex c b := by
  unfold ex; rw [find_updAtom]
  by_cases hb : b = a
  · rw [if_pos hb]; cases c.find b <;> simp [hf]
  · rw [if_neg hb]

theorem hd_mapLits (c : CS) (ls acc : List Int) (b : Nat) : hd (c.mapLits ls acc).1 b = hd c b := by
  induction ls generalizing c acc with
  | nil => rfl
  | cons l r ih => simp only [CS.mapLits, ih, CS.mapLit, hd_mapAtom]
theorem ex_mapLits (c : CS) (ls acc : List Int) (b : Nat) : ex (c.mapLits ls acc).1 b = ex c b := by
  induction ls generalizing c acc with
  | nil => rfl
  | cons l r ih => simp only [CS.mapLits, ih, CS.mapLit, ex_mapAtom]
theorem hd_mapWLits (c : CS) (ls acc : List (Int × Int)) (b : Nat) : hd (c.mapWLits ls acc).1 b = hd c b := by
  induction ls generalizing c acc with
  | nil => rfl
  | cons l r ih => simp only [CS.mapWLits, ih, CS.mapLit, hd_mapAtom]
theorem ex_mapWLits (c : CS) (ls acc : List (Int × Int)) (b : Nat) : ex (c.mapWLits ls acc).1 b = ex c b := by
  induction ls generalizing c acc with
  | nil => rfl
  | cons l r ih => simp only [CS.mapWLits, ih, CS.mapLit, ex_mapAtom]

theorem hd_setHead (c : CS) (a b : Nat) : hd ((c.mapAtom a).1.updAtom a (fun x => { x with head := true })) b = (hd c b || b == a) := by
  unfold hd
  rw [find_updAtom]
  by_cases h : b = a
  · subst h; simp [find_mapAtom_self]
  · have hb : (b == a) = false := by simpa using h
    simp only [h, ↓reduceIte, hb, Bool.or_false]
    rw [find_mapAtom_other c a b h]

theorem ex_setHead (c : CS) (a b : Nat) : ex ((c.mapAtom a).1.updAtom a (fun x => { x with head := true })) b = ex c b := by
  rw [ex_upd_other (c.mapAtom a).1 a (fun x => { x with head := true }) (fun _ => rfl) b, ex_mapAtom]

theorem hd_mapHeadAtoms (c : CS) (h acc : List Nat) (b : Nat) : hd (c.mapHeadAtoms h acc).1 b = (hd c b || h.contains b) := by
  induction h generalizing c acc with
  | nil => simp [CS.mapHeadAtoms]
  | cons a r ih =>
    simp only [CS.mapHeadAtoms, ih, hd_setHead, List.contains_cons]
    cases hd c b <;> cases (b == a) <;> simp
theorem ex_mapHeadAtoms (c : CS) (h acc : List Nat) (b : Nat) : ex (c.mapHeadAtoms h acc).1 b = ex c b := by
  induction h generalizing c acc with
  | nil => rfl
  | cons a r ih => simp only [CS.mapHeadAtoms, ih, ex_setHead]
theorem hd_mapHead (c : CS) (h : List Nat) (b : Nat) : hd (c.mapHead h).1 b = (hd c b || h.contains b) := hd_mapHeadAtoms c h [] b
theorem ex_mapHead (c : CS) (h : List Nat) (b : Nat) : ex (c.mapHead h).1 b = ex c b := ex_mapHeadAtoms c h [] b

theorem flags_emit (c : CS) (x : Call) (b : Nat) : hd (c.emit x) b = hd c b ∧ ex (c.emit x) b = ex c b := ⟨rfl, rfl⟩

theorem flags_auxAtom (c : CS) (cond : List Int) (b : Nat) : hd (c.auxAtom cond).1 b = hd c b ∧ ex (c.auxAtom cond).1 b = ex c b := by
  unfold CS.auxAtom
  simp only
  constructor
  · show hd (({ c with next := c.next + 1, aux := c.aux ++ [c.next] } : CS).mapLits cond []).1 b = _
    rw [hd_mapLits]; rfl
  · show ex (({ c with next := c.next + 1, aux := c.aux ++ [c.next] } : CS).mapLits cond []).1 b = _
    rw [ex_mapLits]; rfl

theorem flags_makeAtom (c : CS) (cond : List Int) (named : Bool) (b : Nat) :
    hd (c.makeAtom cond named).1 b = hd c b ∧ ex (c.makeAtom cond named).1 b = ex c b := by
  unfold CS.makeAtom
  split
  · simp only
    split
    · have := flags_auxAtom (c.mapAtom (cond.headD 0).natAbs).1 cond b
      exact ⟨this.1.trans (hd_mapAtom _ _ _), this.2.trans (ex_mapAtom _ _ _)⟩
    · exact ⟨(hd_upd_other (c.mapAtom (cond.headD 0).natAbs).1 (cond.headD 0).natAbs (fun x => { x with shown := named }) (fun _ => rfl) b).trans (hd_mapAtom _ _ _),
        (ex_upd_other (c.mapAtom (cond.headD 0).natAbs).1 (cond.headD 0).natAbs (fun x => { x with shown := named }) (fun _ => rfl) b).trans (ex_mapAtom _ _ _)⟩
  · exact flags_auxAtom c cond b


/-! ### the tracker -/
structure T where
  heads : List Nat := []
  regs  : List Nat := []
  vals  : List (Nat × Nat) := []     -- latest first

def T.val (t : T) (a : Nat) : Nat := ((t.vals.find? (fun p => p.1 == a)).map (·.2)).getD 0

def T.step (t : T) : Call → T
  | .rule _ h _ => { t with heads := t.heads ++ h }
  | .sumRule _ h _ _ => { t with heads := t.heads ++ h }
  | .external a v => if t.heads.contains a then t else { t with regs := t.regs ++ [a], vals := (a, v) :: t.vals }
  | _ => t

structure XI (c : CS) (t : T) : Prop where
  h : ∀ b, hd c b = t.heads.contains b
  r : c.externs = t.regs
  v : ∀ b, ex c b = t.val b
  m : ∀ a ∈ c.externs, a ∈ domOf c

theorem XI.init (ext : Bool) : XI ({ ext := ext } : CS) {} :=
  ⟨fun _ => rfl, rfl, fun _ => rfl, by intro a h; cases h⟩

theorem XI.emit {c : CS} {t : T} (h : XI c t) (x : Call) : XI (c.emit x) t := ⟨h.h, h.r, h.v, h.m⟩

theorem rest_externs {c c' : CS} (h : rest c' = rest c) : c'.externs = c.externs := congrArg (·.2.2.2.2.1) h

theorem contains_append (l1 l2 : List Nat) (b : Nat) : (l1 ++ l2).contains b = (l1.contains b || l2.contains b) := by
  simp [List.contains_iff_mem, Bool.eq_iff_iff]

/-! equations of `apply` on a state that has not failed -/
theorem apply_rule_eq (c : CS) (hf : c.fail = false) (ht : Nat) (head : List Nat) (body : List Int) :
    c.apply (.rule ht head body) =
      if (!head.isEmpty || ht == 0) = true then
        ((c.mapHead head).1.mapLits body []).1.emit (.rule ht (c.mapHead head).2 ((c.mapHead head).1.mapLits body []).2)
      else c := by
  unfold CS.apply; simp only [hf, Bool.false_eq_true, ↓reduceIte]

def splitState (c2 : CS) : CS := { c2 with next := c2.next + 1, aux := c2.aux ++ [c2.next] }

theorem apply_sum_eq (c : CS) (hf : c.fail = false) (ht : Nat) (head : List Nat) (bound : Int) (body : List (Int × Int)) :
    c.apply (.sumRule ht head bound body) =
      if (!head.isEmpty || ht == 0) = true then
        if isSmodelsRule (c.mapHead head).2 ht bound = true then
          ((c.mapHead head).1.mapWLits body []).1.emit (.sumRule ht (c.mapHead head).2 bound ((c.mapHead head).1.mapWLits body []).2)
        else
          ((splitState ((c.mapHead head).1.mapWLits body []).1).emit
              (.sumRule 0 [((c.mapHead head).1.mapWLits body []).1.next] bound ((c.mapHead head).1.mapWLits body []).2)).emit
            (.rule ht (c.mapHead head).2 [(((c.mapHead head).1.mapWLits body []).1.next : Int)])
      else c := by
  unfold CS.apply splitState; simp only [hf, Bool.false_eq_true, ↓reduceIte]

theorem apply_output_eq (c : CS) (hf : c.fail = false) (str : List Nat) (cond : List Int) :
    c.apply (.output str cond) = (c.makeAtom cond true).1.addOutput (c.makeAtom cond true).2 str true := by
  unfold CS.apply; simp only [hf, Bool.false_eq_true, ↓reduceIte]

theorem apply_external_eq (c : CS) (hf : c.fail = false) (a v : Nat) :
    c.apply (.external a v) =
      if (!(c.mapAtom a).2.head) = true then
        { ((c.mapAtom a).1.updAtom a (fun x => { x with extn := v })) with externs := (c.mapAtom a).1.externs ++ [a] }
      else (c.mapAtom a).1 := by
  unfold CS.apply; simp only [hf, Bool.false_eq_true, ↓reduceIte]

theorem auxAtom_externs (c : CS) (cond : List Int) : (c.auxAtom cond).1.externs = c.externs := by
  unfold CS.auxAtom CS.emit
  simp only
  exact (rest_externs (rest_mapLits { c with next := c.next + 1, aux := c.aux ++ [c.next] } cond [])).trans rfl

theorem makeAtom_externs (c : CS) (cond : List Int) (named : Bool) : (c.makeAtom cond named).1.externs = c.externs := by
  unfold CS.makeAtom
  split
  · simp only
    split
    · exact (auxAtom_externs _ cond).trans (rest_externs (rest_mapAtom c _))
    · show (c.mapAtom (cond.headD 0).natAbs).1.externs = _
      exact rest_externs (rest_mapAtom c _)
  · exact auxAtom_externs c cond

theorem head_empty_of_drop (head : List Nat) (ht : Nat) (hc : ¬ (!head.isEmpty || ht == 0) = true) : head = [] := by
  simp only [Bool.or_eq_true, Bool.not_eq_true', beq_iff_eq, not_or, Bool.not_eq_false] at hc
  simpa using hc.1

theorem XI.step {c : CS} {t : T} (h : XI c t) (hi : Inv (abs c)) (hf : c.fail = false) (x : Call) (hx : PlainOk x) : XI (c.apply x) (t.step x) := by
  have hs := apply_steps c x
  have hm' : ∀ (c' : CS), Steps (abs c) (abs c') → c'.externs = c.externs → ∀ a ∈ c'.externs, a ∈ domOf c' := by
    intro c' hs' he a ha
    exact dom_mono hs' hi a (h.m a (he ▸ ha))
  cases x with
  | rule ht head body =>
    have hr : rest ((c.mapHead head).1.mapLits body []).1 = rest c := by simp
    simp only [T.step]
    rw [apply_rule_eq c hf] at hs ⊢
    split
    · rename_i hc
      rw [if_pos hc] at hs
      apply XI.emit
      refine ⟨?_, (rest_externs hr).trans h.r, ?_, hm' _ hs (rest_externs hr)⟩
      · intro b; rw [hd_mapLits, hd_mapHead, h.h, contains_append]
      · intro b; rw [ex_mapLits, ex_mapHead]; exact h.v b
    · rename_i hc
      have hh := head_empty_of_drop head ht hc
      subst hh
      exact ⟨fun b => by rw [h.h]; simp, h.r, h.v, h.m⟩
  | sumRule ht head bound body =>
    have hr : rest ((c.mapHead head).1.mapWLits body []).1 = rest c := by simp
    simp only [T.step]
    rw [apply_sum_eq c hf] at hs ⊢
    split
    · rename_i hc
      rw [if_pos hc] at hs
      have base : XI ((c.mapHead head).1.mapWLits body []).1 { t with heads := t.heads ++ head } := by
        refine ⟨?_, (rest_externs hr).trans h.r, ?_, ?_⟩
        · intro b; rw [hd_mapWLits, hd_mapHead, h.h, contains_append]
        · intro b; rw [ex_mapWLits, ex_mapHead]; exact h.v b
        · exact hm' _ ((mapHead_steps c head).trans (mapWLits_steps _ body [])) (rest_externs hr)
      split
      · exact base.emit _
      · apply XI.emit; apply XI.emit
        exact ⟨base.h, base.r, base.v, base.m⟩
    · rename_i hc
      have hh := head_empty_of_drop head ht hc
      subst hh
      exact ⟨fun b => by rw [h.h]; simp, h.r, h.v, h.m⟩
  | minimize prio lits =>
    have hany : lits.any (fun p => p.2 == I32MINc) = false := by
      rw [List.any_eq_false]; intro p hp; simpa using (hx p hp).2
    simp only [T.step]
    unfold CS.apply
    simp only [hf, Bool.false_eq_true, ↓reduceIte, hany]
    exact ⟨h.h, h.r, h.v, h.m⟩
  | output str cond =>
    simp only [T.step]
    have hfl := flags_makeAtom c cond true
    have hr := makeAtom_externs c cond true
    rw [apply_output_eq c hf]
    refine ⟨fun b => ((hfl b).1).trans (h.h b), hr.trans h.r, fun b => ((hfl b).2).trans (h.v b), ?_⟩
    intro a ha
    exact dom_mono (makeAtom_steps c cond true) hi a (h.m a (hr ▸ ha))
  | acycEdge a b cond =>
    simp only [T.step]
    rw [apply_edge_eq c hf]
    have hp : ∀ q, hd (pass c (.acycEdge a b cond)) q = hd c q ∧ ex (pass c (.acycEdge a b cond)) q = ex c q := by
      intro q; unfold pass; split
      · exact flags_emit c _ q
      · exact ⟨rfl, rfl⟩
    have hpe : (pass c (.acycEdge a b cond)).externs = c.externs := by unfold pass; split <;> rfl
    have hpa : abs (pass c (.acycEdge a b cond)) = abs c := by unfold pass; split <;> rfl
    have hfl := flags_makeAtom (pass c (.acycEdge a b cond)) cond true
    have hr := makeAtom_externs (pass c (.acycEdge a b cond)) cond true
    refine ⟨fun q => ((hfl q).1).trans ((hp q).1.trans (h.h q)), (hr.trans hpe).trans h.r, fun q => ((hfl q).2).trans ((hp q).2.trans (h.v q)), ?_⟩
    intro x hx'
    have hst := makeAtom_steps (pass c (.acycEdge a b cond)) cond true
    rw [hpa] at hst
    exact dom_mono hst hi x (h.m x (hpe ▸ hr ▸ hx'))
  | heuristic a t' bias prio cond =>
    simp only [T.step]
    rw [apply_heu_eq c hf]
    have hp : ∀ q, hd (pass c (.heuristic a t' bias prio cond)) q = hd c q ∧ ex (pass c (.heuristic a t' bias prio cond)) q = ex c q := by
      intro q; unfold pass; split
      · exact flags_emit c _ q
      · exact ⟨rfl, rfl⟩
    have hpe : (pass c (.heuristic a t' bias prio cond)).externs = c.externs := by unfold pass; split <;> rfl
    have hpa : abs (pass c (.heuristic a t' bias prio cond)) = abs c := by unfold pass; split <;> rfl
    have hfl := flags_makeAtom (pass c (.heuristic a t' bias prio cond)) cond true
    have hr := makeAtom_externs (pass c (.heuristic a t' bias prio cond)) cond true
    refine ⟨fun q => ((hfl q).1).trans ((hp q).1.trans (h.h q)), (hr.trans hpe).trans h.r, fun q => ((hfl q).2).trans ((hp q).2.trans (h.v q)), ?_⟩
    intro x hx'
    have hst := makeAtom_steps (pass c (.heuristic a t' bias prio cond)) cond true
    rw [hpa] at hst
    exact dom_mono hst hi x (h.m x (hpe ▸ hr ▸ hx'))
  | external a v =>
    simp only [T.step]
    have hrm := rest_mapAtom c a
    have hfl := mapAtom_snd_flags c a
    rw [apply_external_eq c hf] at hs ⊢
    rw [hfl.1, h.h a] at hs ⊢
    cases hc : t.heads.contains a
    · simp only [Bool.not_false, ↓reduceIte, Bool.false_eq_true]
      simp only [hc, Bool.not_false, ↓reduceIte] at hs
      refine ⟨?_, ?_, ?_, ?_⟩
      · intro b
        show hd ((c.mapAtom a).1.updAtom a (fun x => { x with extn := v })) b = _
        rw [hd_upd_other (c.mapAtom a).1 a (fun x => { x with extn := v }) (fun _ => rfl) b, hd_mapAtom]; exact h.h b
      · show (c.mapAtom a).1.externs ++ [a] = _
        rw [rest_externs hrm, h.r]
      · intro b
        show ex ((c.mapAtom a).1.updAtom a (fun x => { x with extn := v })) b = _
        unfold ex T.val
        rw [find_updAtom]
        by_cases hb : b = a
        · subst hb
          simp [find_mapAtom_self]
        · have hb' : (a == b) = false := by simpa using fun e => hb e.symm
          simp only [hb, ↓reduceIte, List.find?_cons, hb', Bool.false_eq_true]
          rw [find_mapAtom_other c a b hb]
          exact h.v b
      · intro b hb
        have hb' : b ∈ (c.mapAtom a).1.externs ++ [a] := hb
        rw [rest_externs hrm] at hb'
        rcases List.mem_append.mp hb' with h1 | h1
        · exact dom_mono hs hi b (h.m b h1)
        · simp only [List.mem_singleton] at h1
          subst h1
          show b ∈ domOf ((c.mapAtom b).1.updAtom b (fun x => { x with extn := v }))
          have e := abs_updAtom (c.mapAtom b).1 b (fun x => { x with extn := v }) (fun _ => rfl)
          unfold domOf
          rw [e]
          exact mapAtom_dom c b
    · simp only [Bool.not_true, Bool.false_eq_true, ↓reduceIte]
      simp only [hc, Bool.not_true, Bool.false_eq_true, ↓reduceIte] at hs
      exact ⟨fun b => (hd_mapAtom c a b).trans (h.h b), (rest_externs hrm).trans h.r, fun b => (ex_mapAtom c a b).trans (h.v b),
        hm' _ hs (rest_externs hrm)⟩
  | _ => exact absurd hx (by simp [PlainOk])


/-! ### the tracker against the declarative reading of externals (Spec/AspCalls.lean) -/
def T.run (t : T) (ds : List Call) : T := ds.foldl T.step t

theorem headsOf_cons (d : Call) (r : List Call) : headsOf (d :: r) = headsOf [d] ++ headsOf r := by
  unfold headsOf rulesOf
  cases h : inRule d <;> simp [List.filterMap_cons, h]

theorem extCalls_cons (d : Call) (r : List Call) : extCalls (d :: r) = extCalls [d] ++ extCalls r := by
  unfold extCalls
  cases h : extOf d <;> simp [List.filterMap_cons, h]

theorem run_heads (ds : List Call) (t : T) : (t.run ds).heads = t.heads ++ headsOf ds := by
  induction ds generalizing t with
  | nil => simp [T.run, headsOf, rulesOf]
  | cons d r ih =>
    have : t.run (d :: r) = (t.step d).run r := rfl
    rw [this, ih, headsOf_cons, ← List.append_assoc]
    congr 1
    cases d <;> simp [T.step, headsOf, rulesOf, inRule]
    rename_i a v
    split <;> simp [inRule]

theorem step_heads_sub (t : T) (d : Call) : ∀ a ∈ t.heads, a ∈ (t.step d).heads := by
  intro a ha
  cases d <;> simp only [T.step] <;> try exact ha
  · simp [ha]
  · simp [ha]
  · split <;> exact ha

/-- the registered externals outside a set `H` that contains every head of the whole step: all directives on atoms outside `H` -/
theorem run_regs (ds : List Call) (t : T) (H : List Nat) (hH : ∀ a ∈ (t.run ds).heads, a ∈ H) :
    (t.run ds).regs.filter (fun a => !H.contains a) = t.regs.filter (fun a => !H.contains a) ++ ((extCalls ds).map (·.1)).filter (fun a => !H.contains a) := by
  induction ds generalizing t with
  | nil => simp [T.run, extCalls]
  | cons d r ih =>
    have e : t.run (d :: r) = (t.step d).run r := rfl
    rw [e] at hH ⊢
    rw [ih (t.step d) hH, extCalls_cons, List.map_append, List.filter_append, ← List.append_assoc]
    congr 1
    have hsub : ∀ a ∈ (t.step d).heads, a ∈ H := by
      intro a ha
      apply hH
      rw [run_heads]; simp [ha]
    cases d <;> simp only [T.step, extCalls, List.filterMap_cons, extOf, List.filterMap_nil, List.map_nil, List.filter_nil, List.append_nil]
    rename_i a v
    simp only [List.map_cons, List.map_nil]
    cases hc : t.heads.contains a
    · simp only [Bool.false_eq_true, ↓reduceIte, List.filter_append]
    · have : a ∈ H := hsub a (by simp only [T.step, hc, ↓reduceIte]; simpa using hc)
      simp [this]

/-- the value the tracker holds for an atom outside `H`: that of the last directive on it -/
theorem run_val (ds : List Call) (t : T) (H : List Nat) (hH : ∀ a ∈ (t.run ds).heads, a ∈ H) (a : Nat) (ha : a ∉ H) :
    (t.run ds).val a = (((extCalls ds).reverse.find? (fun p => p.1 == a)).map (·.2)).getD (t.val a) := by
  induction ds generalizing t with
  | nil => simp [T.run, extCalls]
  | cons d r ih =>
    have e : t.run (d :: r) = (t.step d).run r := rfl
    rw [e] at hH ⊢
    rw [ih (t.step d) hH, extCalls_cons, List.reverse_append, List.find?_append]
    have hsub : ∀ b ∈ (t.step d).heads, b ∈ H := by
      intro b hb
      apply hH
      rw [run_heads]; simp [hb]
    cases hfr : (extCalls r).reverse.find? (fun p => p.1 == a) with
    | some p => simp
    | none =>
      simp only [Option.map_none, Option.getD_none, Option.none_or]
      cases d with
      | external b v =>
        simp only [T.step, extCalls, List.filterMap_cons, extOf, List.filterMap_nil, List.reverse_cons, List.reverse_nil, List.nil_append,
          List.find?_cons, List.find?_nil]
        cases hc : t.heads.contains b
        · simp only [Bool.false_eq_true, ↓reduceIte, T.val, List.find?_cons]
          by_cases hb : b = a
          · subst hb; simp
          · have : (b == a) = false := by simpa using hb
            simp [this]
        · have hbH : b ∈ H := hsub b (by simp only [T.step, hc, ↓reduceIte]; simpa using hc)
          have : (b == a) = false := by
            simp only [beq_eq_false_iff_ne, ne_eq]
            intro e; subst e; exact ha hbH
          simp [this]
      | _ => rfl

theorem run_val_last (ds : List Call) (a : Nat) (ha : a ∉ headsOf ds) : (({} : T).run ds).val a = lastExt (extCalls ds) a := by
  have := run_val ds {} (headsOf ds) (by intro b hb; rw [run_heads] at hb; simpa using hb) a ha
  rw [this]; rfl

end PotasscoVerif.C02
