/-
  The converter with the clasp extension switched on: externals are not compiled away but passed on at the end of the step
  (`SmodelsConvert::flushExternal`, `ext_` branch) as `external(image, value)` calls.  What the emitted program says about them
  (Spec/AspCalls.lean `extRules`, read off the emitted calls) is the renaming of what the given program says (`extP`).
-/
import PotasscoVerif.Lemmas.ConvertHeu
namespace PotasscoVerif.C02
open PotasscoVerif PotasscoVerif.Convert PotasscoVerif.Asp

theorem extCalls_append (a b : List Call) : extCalls (a ++ b) = extCalls a ++ extCalls b := by simp [extCalls]

/-! ### no external call is emitted before the end of the step -/
theorem auxAtom_frameX (c : CS) (cond : List Int) : extCalls (c.auxAtom cond).1.out = extCalls c.out := by
  unfold CS.auxAtom CS.emit
  simp only
  have h := rest_mapLits { c with next := c.next + 1, aux := c.aux ++ [c.next] } cond []
  rw [extCalls_append, rest_out h]
  simp [extCalls, extOf]

theorem makeAtom_frameX (c : CS) (cond : List Int) (named : Bool) : extCalls (c.makeAtom cond named).1.out = extCalls c.out := by
  unfold CS.makeAtom
  split
  · simp only
    have h := rest_mapAtom c (cond.headD 0).natAbs
    split
    · exact (auxAtom_frameX (c.mapAtom (cond.headD 0).natAbs).1 cond).trans (by rw [rest_out h])
    · show extCalls (c.mapAtom (cond.headD 0).natAbs).1.out = _; rw [rest_out h]
  · exact auxAtom_frameX c cond

theorem pass_frameX (c : CS) (x : Call) (hx : extOf x = none) : extCalls (pass c x).out = extCalls c.out := by
  unfold pass; split
  · simp [CS.emit, extCalls_append, extCalls, hx]
  · rfl

theorem apply_frameX (c : CS) (hf : c.fail = false) (x : Call) (hx : PlainOk x) : extCalls (c.apply x).out = extCalls c.out := by
  cases x with
  | rule ht head body =>
    unfold CS.apply
    simp only [hf, Bool.false_eq_true, ↓reduceIte]
    split
    · have h : rest ((c.mapHead head).1.mapLits body []).1 = rest c := by simp
      simp only [CS.emit]
      rw [extCalls_append, rest_out h]; simp [extCalls, extOf]
    · rfl
  | sumRule ht head bound body =>
    unfold CS.apply
    simp only [hf, Bool.false_eq_true, ↓reduceIte]
    split
    · have h : rest ((c.mapHead head).1.mapWLits body []).1 = rest c := by simp
      split
      · simp only [CS.emit]
        rw [extCalls_append, rest_out h]; simp [extCalls, extOf]
      · simp only [CS.emit]
        rw [extCalls_append, extCalls_append, rest_out h]; simp [extCalls, extOf]
    · rfl
  | minimize prio lits =>
    have hany : lits.any (fun p => p.2 == I32MINc) = false := by
      rw [List.any_eq_false]; intro p hp; simpa using (hx p hp).2
    unfold CS.apply
    simp only [hf, Bool.false_eq_true, ↓reduceIte, hany]
  | output str cond =>
    have h := makeAtom_frameX c cond true
    unfold CS.apply
    simp only [hf, Bool.false_eq_true, ↓reduceIte]
    exact h
  | acycEdge a b cond =>
    rw [apply_edge_eq c hf]
    exact (makeAtom_frameX (pass c (.acycEdge a b cond)) cond true).trans (pass_frameX c _ rfl)
  | heuristic a t bias prio cond =>
    rw [apply_heu_eq c hf]
    exact (makeAtom_frameX (pass c (.heuristic a t bias prio cond)) cond true).trans (pass_frameX c _ rfl)
  | external a v =>
    have h := rest_mapAtom c a
    rw [apply_external_eq c hf]
    split
    · show extCalls (c.mapAtom a).1.out = _; rw [rest_out h]
    · rw [rest_out h]
  | _ => exact absurd hx (by simp [PlainOk])

theorem run_frameX {c : CS} {P defs} (hj : J c P defs) {O} (hk : K c O defs) (ds : List Call) (hx : ∀ d ∈ ds, PlainOk d) :
    extCalls (ds.foldl CS.apply c).out = extCalls c.out := by
  induction ds generalizing c P O defs with
  | nil => rfl
  | cons d r ih =>
    obtain ⟨defs1, h1, k1⟩ := apply_plain hj hk d (hx d (by simp))
    simp only [List.foldl_cons]
    rw [ih h1 k1 (fun e he => hx e (by simp [he])), apply_frameX c hj.nofail d (hx d (by simp))]

theorem preEnd_noExt (ext inc : Bool) (ds : List Call) (hx : ∀ d ∈ ds, PlainOk d) : extCalls (preEnd ext inc ds).out = [] := by
  have a1 : J (CS.apply { ext := ext } (.initProgram inc)) [] [] := by
    rw [apply_init _ rfl]; exact (J.init ext).emit _ rfl
  have b1 : K (CS.apply { ext := ext } (.initProgram inc)) [] [] := by
    rw [apply_init _ rfl]; exact (K.init ext).emit (J.init ext).inv _ rfl
  have a2 : J ((CS.apply { ext := ext } (.initProgram inc)).apply .beginStep) [] [] := by
    rw [apply_begin _ a1.nofail]; exact a1.emit _ rfl
  have b2 : K ((CS.apply { ext := ext } (.initProgram inc)).apply .beginStep) [] [] := by
    rw [apply_begin _ a1.nofail]; exact b1.emit a1.inv _ rfl
  unfold preEnd
  rw [run_frameX a2 b2 ds hx, apply_begin _ a1.nofail, apply_init _ rfl]
  rfl

/-! ### the end of the step with the extension on -/
def extCallsT (c : CS) : List Call := c.externs.map (fun a => Call.external (sm c a) (ex c a))

theorem flushExternal_specT (c : CS) (he : c.ext = true) (hm : ∀ a ∈ c.externs, (c.find a).isSome = true) :
    c.flushExternal = { c with out := c.out ++ extCallsT c } := by
  unfold CS.flushExternal
  have gen : ∀ (l : List Nat) (c0 : CS) (acc : List Nat), c0.atoms = c.atoms → c0.ext = true → (∀ a ∈ l, (c.find a).isSome = true) →
      l.foldl (fun (st : CS × List Nat) a =>
        let m := st.1.mapAtom a
        if !st.1.ext then
          if m.2.head then (m.1, st.2)
          else if m.2.extn == 0 then (m.1, st.2 ++ [m.2.smId])
          else if m.2.extn == 1 then (m.1.emit (.rule 0 [m.2.smId] []), st.2)
          else (m.1, st.2)
        else (m.1.emit (.external m.2.smId m.2.extn), st.2)) (c0, acc)
        = ({ c0 with out := c0.out ++ l.map (fun a => Call.external (sm c a) (ex c a)) }, acc) := by
    intro l
    induction l with
    | nil => intro c0 acc _ _ _; simp [with_out_nil]
    | cons a r ih =>
      intro c0 acc hat hext hml
      obtain ⟨x, hx⟩ := Option.isSome_iff_exists.mp (hml a (by simp))
      have hmap : c0.mapAtom a = (c0, x) := by
        unfold CS.mapAtom
        have : c0.find a = some x := by unfold CS.find at hx ⊢; rw [hat]; exact hx
        rw [this]
      have hex : ex c a = x.extn := by unfold ex; rw [hx]
      have hsm : sm c a = x.smId := by unfold sm; rw [hx]
      have hr := fun b hb => hml b (List.mem_cons_of_mem _ hb)
      simp only [List.foldl_cons, hmap, hext, Bool.not_true, Bool.false_eq_true, ↓reduceIte]
      rw [ih (c0.emit (.external x.smId x.extn)) acc (by simpa [CS.emit] using hat) (by simpa [CS.emit] using hext) hr]
      simp [CS.emit, hex, hsm, List.append_assoc, hext]
  rw [gen c.externs c [] rfl he hm]
  simp [extCallsT]

theorem rulesOf_extCallsT (c : CS) : rulesOf (extCallsT c) = [] := by
  unfold extCallsT rulesOf
  induction c.externs with
  | nil => rfl
  | cons a r ih => simpa [inRule] using ih

/-- `flush` with the extension on: the translation invariant is untouched (no rule is emitted for the externals) -/
theorem J.flushT {c : CS} {P defs} (hj : J c P defs) (hm : ∀ a ∈ c.externs, a ∈ domOf c) (he : c.ext = true) :
    J c.flush P defs := by
  unfold CS.flush
  have h1 : J c.flushMinimize P defs := by
    unfold CS.flushMinimize
    apply J.foldl _ _ _ _ hj
    intro c pl hc
    exact (hc.of_rest (mapWLits_steps c pl.2 []) (by simp)).emit _ rfl
  obtain ⟨f1, f2, f3⟩ := flushMinimize_flags c
  have hm1 : ∀ a ∈ c.flushMinimize.externs, a ∈ domOf c.flushMinimize := by
    intro a ha
    exact dom_mono (flushMinimize_steps c) hj.inv a (hm a (f2 ▸ ha))
  have h2 : J c.flushMinimize.flushExternal P defs := by
    rw [flushExternal_specT _ (f3.trans he) (fun a ha => dom_find _ a (hm1 a ha))]
    exact h1.of (.refl _) rfl rfl rfl (by simp [rulesOf_append, rulesOf_extCallsT])
  have h3 : J c.flushMinimize.flushExternal.flushHeuristic P defs := by
    rw [flushHeuristic_eq]
    exact J.foldl _ (fun c h hc => hc.heuStep h) _ _ h2
  have h4 : J c.flushMinimize.flushExternal.flushHeuristic.flushSymbols P defs := by
    unfold CS.flushSymbols
    apply J.foldl _ _ _ _ h3
    intro c p hc
    exact hc.emit _ rfl
  have h5 := h4.emit (.assume [-1]) rfl
  exact ⟨h5.inv, h5.nofail, h5.keys, h5.defsOk, h5.inOk, h5.tr⟩

/-! ### the external calls in the emitted step -/
theorem foldl_frameX {β : Type} (f : CS → β → CS) (hf : ∀ c x, extCalls (f c x).out = extCalls c.out) (l : List β) (c : CS) :
    extCalls (l.foldl f c).out = extCalls c.out := by
  induction l generalizing c with
  | nil => rfl
  | cons x r ih => simp only [List.foldl_cons]; rw [ih, hf]

theorem emit_frameX (c : CS) (x : Call) (hx : extOf x = none) : extCalls (c.emit x).out = extCalls c.out := by
  simp [CS.emit, extCalls_append, extCalls, hx]

theorem flushMinimize_frameX (c : CS) : extCalls c.flushMinimize.out = extCalls c.out := by
  unfold CS.flushMinimize
  apply foldl_frameX
  intro c pl
  have h : rest (c.mapWLits pl.2 []).1 = rest c := by simp
  simp only
  rw [emit_frameX _ _ rfl, rest_out h]

theorem heuStep_frameX (c : CS) (h : Convert.Heu) : extCalls (heuStep c h).out = extCalls c.out := by
  unfold heuStep
  cases hf : c.find h.atom with
  | none => rfl
  | some ma =>
    simp only
    cases hn : (if ma.shown = true then c.getName ma.smId else none) with
    | some n => simp only; exact emit_frameX _ _ rfl
    | none => simp only; exact emit_frameX _ _ rfl

theorem flushSymbols_frameX (c : CS) : extCalls c.flushSymbols.out = extCalls c.out := by
  unfold CS.flushSymbols
  apply foldl_frameX
  intro c p
  exact emit_frameX _ _ rfl

theorem extCalls_externals (l : List Nat) (f g : Nat → Nat) : extCalls (l.map (fun a => Call.external (f a) (g a))) = l.map (fun a => (f a, g a)) := by
  induction l with
  | nil => rfl
  | cons a r ih => simp only [List.map_cons, extCalls, List.filterMap_cons, extOf] at ih ⊢; rw [ih]

/-- with the extension on, the external calls of the emitted step are exactly the pending externals: image and last value, in the
    order of declaration -/
theorem flush_extCalls (c : CS) (he : c.ext = true) (hm : ∀ a ∈ c.externs, a ∈ domOf c) (hi : Inv (abs c)) (h0 : extCalls c.out = []) :
    extCalls (c.flush.emit .endStep).out = c.externs.map (fun a => (sm c.flushMinimize a, ex c a)) := by
  obtain ⟨f1, f2, f3⟩ := flushMinimize_flags c
  have hm1 : ∀ a ∈ c.flushMinimize.externs, a ∈ domOf c.flushMinimize := by
    intro a ha
    exact dom_mono (flushMinimize_steps c) hi a (hm a (f2 ▸ ha))
  rw [emit_frameX _ _ rfl]
  show extCalls ((c.flushMinimize.flushExternal.flushHeuristic.flushSymbols).emit (.assume [-1])).out = _
  rw [emit_frameX _ _ rfl, flushSymbols_frameX, flushHeuristic_eq, foldl_frameX heuStep heuStep_frameX,
    flushExternal_specT _ (f3.trans he) (fun a ha => dom_find _ a (hm1 a ha))]
  simp only [extCalls_append, flushMinimize_frameX, h0, List.nil_append, extCallsT, f2]
  rw [extCalls_externals]
  apply List.map_congr_left
  intro a _
  rw [(f1 a).2]

/-- the same from any state (a later step of an incremental program): the step's external calls are appended to those of the earlier steps -/
theorem flush_extCalls_app (c : CS) (he : c.ext = true) (hm : ∀ a ∈ c.externs, a ∈ domOf c) (hi : Inv (abs c)) :
    extCalls (c.flush.emit .endStep).out = extCalls c.out ++ c.externs.map (fun a => (sm c.flushMinimize a, ex c a)) := by
  obtain ⟨f1, f2, f3⟩ := flushMinimize_flags c
  have hm1 : ∀ a ∈ c.flushMinimize.externs, a ∈ domOf c.flushMinimize := by
    intro a ha
    exact dom_mono (flushMinimize_steps c) hi a (hm a (f2 ▸ ha))
  rw [emit_frameX _ _ rfl]
  show extCalls ((c.flushMinimize.flushExternal.flushHeuristic.flushSymbols).emit (.assume [-1])).out = _
  rw [emit_frameX _ _ rfl, flushSymbols_frameX, flushHeuristic_eq, foldl_frameX heuStep heuStep_frameX,
    flushExternal_specT _ (f3.trans he) (fun a ha => dom_find _ a (hm1 a ha))]
  simp only [extCalls_append, flushMinimize_frameX, extCallsT, f2]
  rw [extCalls_externals]
  congr 1
  apply List.map_congr_left
  intro a _
  rw [(f1 a).2]

/-! ### what the emitted externals say is the renaming of what the given externals say -/
theorem filter_map_comm {α β : Type} (l : List α) (f : α → β) (p : β → Bool) : (l.map f).filter p = (l.filter (p ∘ f)).map f := by
  induction l with
  | nil => rfl
  | cons a r ih => simp only [List.map_cons, List.filter_cons, Function.comp]; split <;> simp [ih]

theorem lastExt_map (l : List Nat) (m : Nat → Nat) (v : Nat → Nat) (hinj : ∀ a ∈ l, ∀ b ∈ l, m a = m b → a = b) (a : Nat) (ha : a ∈ l) :
    lastExt (l.map (fun b => (m b, v b))) (m a) = v a := by
  unfold lastExt
  rw [← List.map_reverse]
  have : ∀ (r : List Nat), (∀ b ∈ r, b ∈ l) → a ∈ r → (((r.map (fun b => (m b, v b))).find? (fun p => p.1 == m a)).map (·.2)).getD 0 = v a := by
    intro r
    induction r with
    | nil => intro _ h; cases h
    | cons b r ih =>
      intro hsub hmem
      simp only [List.map_cons, List.find?_cons]
      by_cases hb : m b = m a
      · have : b = a := hinj b (hsub b (by simp)) a ha hb
        subst this; simp
      · have hne : ((m b == m a) = false) := by simpa using hb
        simp only [hne]
        have hmem' : a ∈ r := by
          rcases List.mem_cons.mp hmem with h | h
          · subst h; exact absurd rfl hb
          · exact h
        exact ih (fun x hx => hsub x (List.mem_cons_of_mem _ hx)) hmem'
  exact this l.reverse (fun b hb => List.mem_reverse.mp hb) (List.mem_reverse.mpr ha)

/-- the rules a list of pending externals stands for, given which atoms are defined (`hdf`) and the last value of each (`exf`) -/
def extPOf (externs : List Nat) (hdf : Nat → Bool) (exf : Nat → Nat) : List Rule :=
  (externs.filter (fun a => !hdf a && exf a == 1)).map (fun a => (⟨false, [a], .normal []⟩ : Rule)) ++
  (if (externs.filter (fun a => !hdf a && exf a == 0)).isEmpty then [] else [(⟨true, externs.filter (fun a => !hdf a && exf a == 0), .normal []⟩ : Rule)])

theorem extP_eq (c : CS) : extP c = extPOf c.externs (hd c) (ex c) := rfl

/-- **the emitted externals denote the renamed rules of the given ones**: for a step whose emitted calls contain the external calls
    `E = externs.map (image, value)`, whose rules are a translation of the given rules (`Trans`), and in which the head flag says
    which atoms some given rule defines -/
theorem extRules_out (ctx : Ctx) (ok : ctx.Ok) (P : List Rule) (out : List Call) (tr : Trans ctx P (rulesOf out))
    (externs : List Nat) (hdom : ∀ a ∈ externs, a ∈ ctx.dom) (hdf : Nat → Bool) (exf : Nat → Nat)
    (hE : extCalls out = externs.map (fun a => (ctx.m a, exf a)))
    (hhd : ∀ a ∈ externs, hdf a = true ↔ ∃ r ∈ P, a ∈ r.head) :
    extRules out = (extPOf externs hdf exf).map (renRule ctx.m) := by
  -- an image is the head of an emitted rule iff its atom is the head of a given rule
  have hheads : ∀ a ∈ externs, (headsOf out).contains (ctx.m a) = hdf a := by
    intro a ha
    have had := hdom a ha
    rw [Bool.eq_iff_iff, hhd a ha]
    simp only [List.contains_iff_mem, headsOf, List.mem_flatMap]
    constructor
    · rintro ⟨r', hr', hin⟩
      have inP : ∀ r ∈ P, ctx.m a ∈ renHead ctx.m r.head → a ∈ r.head := by
        intro r hr hmem
        unfold renHead at hmem
        split at hmem
        · simp at hmem; have := ok.img2 a had; omega
        · obtain ⟨b, hb, e⟩ := List.mem_map.mp hmem
          have := ok.inj b ((tr.inOk r hr).1 b hb) a had e
          rw [← this]; exact hb
      rcases tr.s1 r' hr' with ⟨r, hr, rfl⟩ | ⟨d, hd, rfl⟩ | ⟨r, hr, n, _, rfl⟩
      · exact ⟨r, hr, inP r hr hin⟩
      · simp only [defRule, List.mem_singleton] at hin
        exact absurd hin.symm (ok.imgNoAux a had d hd)
      · exact ⟨r, hr, inP r hr hin⟩
    · rintro ⟨r, hr, hin⟩
      have hne : r.head.isEmpty = false := by cases hh : r.head <;> simp_all
      have hmem : ctx.m a ∈ renHead ctx.m r.head := by
        unfold renHead; rw [hne]; exact List.mem_map_of_mem hin
      rcases tr.s2 r hr with ⟨_, h0⟩ | h | ⟨n, _, h⟩
      · rw [h0] at hin; cases hin
      · exact ⟨_, h, hmem⟩
      · exact ⟨_, h, hmem⟩
  have hlast : ∀ a ∈ externs, lastExt (extCalls out) (ctx.m a) = exf a := by
    intro a ha
    rw [hE]
    exact lastExt_map externs ctx.m exf (fun x hx y hy e => ok.inj x (hdom x hx) y (hdom y hy) e) a ha
  have key : ∀ v : Nat, (((extCalls out).map (·.1)).filter (fun n => !(headsOf out).contains n)).filter (fun n => lastExt (extCalls out) n == v)
      = (externs.filter (fun a => !hdf a && exf a == v)).map ctx.m := by
    intro v
    have e1 : (extCalls out).map (·.1) = externs.map ctx.m := by rw [hE, List.map_map]; rfl
    rw [e1, filter_map_comm, filter_map_comm, List.filter_filter]
    congr 1
    apply List.filter_congr
    intro a ha
    simp only [Function.comp, hheads a ha, hlast a ha, Bool.and_comm]
  unfold extRules extPOf
  simp only [key 1, key 0, List.map_append, List.map_map]
  congr 1
  · by_cases hfe : (externs.filter (fun a => !hdf a && exf a == 0)).isEmpty = true
    · simp [hfe]
    · have hfe' : (externs.filter (fun a => !hdf a && exf a == 0)).isEmpty = false := by simpa using hfe
      simp [hfe', renRule, renHead, renBody]

/-- a translation stays one when rules over mapped atoms are added on the input side and their renamings on the output side -/
theorem Trans.append_ren {ctx : Ctx} {P P' : List Rule} (tr : Trans ctx P P') (Q : List Rule)
    (hQ : ∀ r ∈ Q, (∀ a ∈ r.head, a ∈ ctx.dom) ∧ (∀ a ∈ r.body.atoms, a ∈ ctx.dom) ∧ r.body.Ok) :
    Trans ctx (P ++ Q) (P' ++ Q.map (renRule ctx.m)) := by
  refine ⟨?_, ?_, ?_, ?_⟩
  · intro r hr
    rcases List.mem_append.mp hr with h | h
    · exact tr.inOk r h
    · exact hQ r h
  · intro r' hr'
    rcases List.mem_append.mp hr' with h | h
    · rcases tr.s1 r' h with ⟨r, hr, e⟩ | ⟨d, hd, e⟩ | ⟨r, hr, n, hn, e⟩
      · exact Or.inl ⟨r, List.mem_append_left _ hr, e⟩
      · exact Or.inr (Or.inl ⟨d, hd, e⟩)
      · exact Or.inr (Or.inr ⟨r, List.mem_append_left _ hr, n, hn, e⟩)
    · obtain ⟨r, hr, e⟩ := List.mem_map.mp h
      exact Or.inl ⟨r, List.mem_append_right _ hr, e.symm⟩
  · intro r hr
    rcases List.mem_append.mp hr with h | h
    · rcases tr.s2 r h with h1 | h1 | ⟨n, hn, h1⟩
      · exact Or.inl h1
      · exact Or.inr (Or.inl (List.mem_append_left _ h1))
      · exact Or.inr (Or.inr ⟨n, hn, List.mem_append_left _ h1⟩)
    · exact Or.inr (Or.inl (List.mem_append_right _ (List.mem_map_of_mem h)))
  · intro d hd
    exact List.mem_append_left _ (tr.s3 d hd)

end PotasscoVerif.C02
