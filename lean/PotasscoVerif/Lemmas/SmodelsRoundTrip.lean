/-
  The smodels round trip (C05): every line `SmodelsOutput` writes for a call of the supported fragment is read back by
  `SmodelsInput` as the canonical form of that call; composed over the rule section, the symbol table, the compute
  statement, steps and programs.
-/
import PotasscoVerif.Lemmas.AspifRoundTrip2
import PotasscoVerif.Model.SmodelsIn
import PotasscoVerif.Model.SmodelsOut
namespace PotasscoVerif.SmRT
open PotasscoVerif PotasscoVerif.AspifOut PotasscoVerif.AspifIn PotasscoVerif.CharStream PotasscoVerif.Decimal
open PotasscoVerif.AspifRT PotasscoVerif.SmodelsOut PotasscoVerif.SmodelsIn
open PotasscoVerif.BufferedStream (isWs isDigit I64MAX)

/-! ### canonical forms -/

def canonB (b : List Int) : List Int := ordered (fun (l : Int) => decide (l < 0)) b
/-- weighted literals as they come back: negatives first, a negative weight as its absolute value on the complement -/
def canonW (ws : List (Int × Int)) : List (Int × Int) :=
  (ordered (fun (p : Int × Int) => decide (smLit p < 0)) ws).map (fun p => (smLit p, (p.2.natAbs : Int)))

theorem canonW_nonneg (ws : List (Int × Int)) (h : ∀ p ∈ ws, 0 ≤ p.2) :
    canonW ws = ordered (fun (p : Int × Int) => decide (p.1 < 0)) ws := by
  have hs : ∀ p ∈ ws, smLit p = p.1 := by intro p hp; have := h p hp; simp [smLit, this]
  unfold canonW ordered
  have e1 : ws.filter (fun p => decide (smLit p < 0)) = ws.filter (fun p => decide (p.1 < 0)) :=
    List.filter_congr (fun p hp => by rw [hs p hp])
  have e2 : ws.filter (fun p => !decide (smLit p < 0)) = ws.filter (fun p => !decide (p.1 < 0)) :=
    List.filter_congr (fun p hp => by rw [hs p hp])
  rw [e1, e2]
  have : ∀ (l : List (Int × Int)), (∀ p ∈ l, p ∈ ws) → l.map (fun p => (smLit p, (p.2.natAbs : Int))) = l := by
    intro l hl
    induction l with
    | nil => rfl
    | cons p r ih =>
      have hp := hl p (by simp)
      have h0 := h p hp
      simp only [List.map_cons, hs p hp, ih (fun q hq => hl q (by simp [hq]))]
      congr 1
      exact Prod.ext rfl (by simp; omega)
  apply this
  intro p hp
  simp only [List.mem_append, List.mem_filter] at hp
  rcases hp with hp | hp <;> exact hp.1

/-! ### `signed` undoes the writer's ordering -/

theorem signed_zero (l : List Nat) : signed 0 l = l.map (fun (a : Nat) => (a : Int)) := by
  induction l with
  | nil => rfl
  | cons a r ih => simp [signed, ih]

theorem signed_append (xs ys : List Nat) : signed xs.length (xs ++ ys) = xs.map (fun (a : Nat) => -(a : Int)) ++ signed 0 ys := by
  induction xs with
  | nil => simp
  | cons a r ih => simp [signed, ih]

theorem signed_ordered {α : Type} (g : α → Int) (l : List α) :
    signed (l.filter (fun x => decide (g x < 0))).length ((ordered (fun x => decide (g x < 0)) l).map (fun x => (g x).natAbs)) =
    (ordered (fun x => decide (g x < 0)) l).map g := by
  unfold ordered
  rw [List.map_append, List.map_append]
  have h := signed_append ((l.filter (fun x => decide (g x < 0))).map (fun x => (g x).natAbs)) ((l.filter (fun x => !decide (g x < 0))).map (fun x => (g x).natAbs))
  rw [List.length_map] at h
  rw [h, signed_zero]
  congr 1
  · rw [List.map_map]
    apply List.map_congr_left
    intro x hx
    have : g x < 0 := by simpa using (List.mem_filter.mp hx).2
    simp only [Function.comp]; omega
  · rw [List.map_map]
    apply List.map_congr_left
    intro x hx
    have : ¬ g x < 0 := by simpa using (List.mem_filter.mp hx).2
    simp only [Function.comp]; omega

theorem length_ordered {α : Type} (p : α → Bool) (l : List α) : (ordered p l).length = l.length := by
  unfold ordered
  induction l with
  | nil => rfl
  | cons x r ih => by_cases h : p x <;> simp [List.filter_cons, h] at ih ⊢ <;> omega

theorem mem_ordered {α : Type} (p : α → Bool) (l : List α) (x : α) : x ∈ ordered p l → x ∈ l := by
  unfold ordered; intro h
  simp only [List.mem_append, List.mem_filter] at h
  rcases h with h | h <;> exact h.1

/-! ### fields -/

theorem sp_natsSp (l : List Nat) (k : List Nat) (hk : Sp k) : Sp (natsSp l ++ k) := by
  cases l with
  | nil => simpa [natsSp] using hk
  | cons x r => simp only [natsSp, List.map_cons, List.flatten_cons, List.append_assoc]; exact sp_addN _ _

theorem atoms_rep (l : List Nat) (hok : ∀ x ∈ l, atomOk x) (a : AS) (k : List Nat) (hr : a.rest = natsSp l ++ k) (hk : Sp k) :
    ∃ a', rep atom l.length [] a = .ok (l, a') ∧ a'.rest = k := by
  obtain ⟨a1, h1, r1⟩ := rep_enc atom addN atomOk (fun x a k hx hr hk => atom_addN x hx a k hr hk) sp_addN l [] a k hok (by simpa [natsSp] using hr) hk
  exact ⟨a1, by simpa using h1, r1⟩

theorem weights_rep (l : List Nat) (hok : ∀ x ∈ l, x ≤ 2147483647) (a : AS) (k : List Nat) (hr : a.rest = natsSp l ++ k) (hk : Sp k) :
    ∃ a', rep (posMax I32MAX.toNat) l.length [] a = .ok (l, a') ∧ a'.rest = k := by
  have e : I32MAX.toNat = 2147483647 := rfl
  obtain ⟨a1, h1, r1⟩ := rep_enc (posMax I32MAX.toNat) addN (fun x => x ≤ 2147483647)
    (fun x a k hx hr hk => posMax_addN I32MAX.toNat x (by rw [e]; exact hx) (by decide) a k hr hk) sp_addN l [] a k hok (by simpa [natsSp] using hr) hk
  exact ⟨a1, by simpa using h1, r1⟩

theorem litOk_atom {l : Int} (h : litOk l) : atomOk l.natAbs := by unfold litOk at h; unfold atomOk; omega

/-- `len neg a1 … alen` is read by `matchBody` as the body, negatives first -/
theorem body_enc (b : List Int) (hl : lenOk b) (hb : ∀ l ∈ b, litOk l) (a : AS) (k : List Nat) (hr : a.rest = addBody b ++ k) (hk : Sp k) :
    ∃ a', body a = .ok (canonB b, a') ∧ a'.rest = k := by
  simp only [addBody, List.append_assoc] at hr
  have hneg : (b.filter (· < 0)).length ≤ U32MAX := Nat.le_trans (List.length_filter_le _ _) hl
  obtain ⟨a1, h1, r1⟩ := pos_addN b.length hl a _ hr (sp_addN _ _)
  obtain ⟨a2, h2, r2⟩ := pos_addN _ hneg a1 _ r1 (sp_natsSp _ _ hk)
  obtain ⟨a3, h3, r3⟩ := atoms_rep ((ordered (fun (l : Int) => decide (l < 0)) b).map Int.natAbs)
    (by intro x hx
        simp only [List.mem_map] at hx
        obtain ⟨y, hy, rfl⟩ := hx
        exact litOk_atom (hb y (mem_ordered _ _ _ hy))) a2 k r2 hk
  rw [List.length_map, length_ordered] at h3
  refine ⟨a3, ?_, r3⟩
  unfold body
  simp only [h1, h2, h3, bind, Except.bind, pure, Except.pure]
  have := signed_ordered (fun (x : Int) => x) b
  unfold canonB
  rw [List.map_id'] at this
  exact congrArg (fun x => Except.ok (x, a3)) this

theorem smLit_natAbs (p : Int × Int) : (smLit p).natAbs = p.1.natAbs := by
  unfold smLit; split <;> simp

theorem smLit_ok {p : Int × Int} (h : litOk p.1) : litOk (smLit p) := by
  unfold litOk at *; rw [smLit_natAbs]; unfold smLit; split <;> omega

theorem signed_smLit (ws : List (Int × Int)) :
    signed (ws.filter (fun p => decide (smLit p < 0))).length ((ordered (fun p => decide (smLit p < 0)) ws).map (fun p => p.1.natAbs)) =
    (ordered (fun p => decide (smLit p < 0)) ws).map smLit := by
  have := signed_ordered smLit ws
  rw [← this]
  congr 1
  apply List.map_congr_left
  intro p _; exact (smLit_natAbs p).symm

/-- the three leading numbers and the literal/weight lists of a weight rule or minimize statement -/
theorem sum_enc_w (bnd : Nat) (ws : List (Int × Int)) (hb : bnd ≤ 2147483647) (hl : lenOk ws)
    (hws : ∀ p ∈ ws, litOk p.1 ∧ p.2.natAbs ≤ 2147483647) (a : AS) (k : List Nat)
    (hr : a.rest = addSum (bnd : Int) ws false ++ k) (hk : Sp k) :
    ∃ a', sum true a = .ok (((bnd : Int), canonW ws), a') ∧ a'.rest = k := by
  simp only [addSum, Bool.false_eq_true, ↓reduceIte, List.append_nil, List.nil_append, List.append_assoc, Int.toNat_natCast] at hr
  have hneg : (ws.filter (fun p => decide (smLit p < 0))).length ≤ U32MAX := Nat.le_trans (List.length_filter_le _ _) hl
  have hU : bnd ≤ U32MAX := by unfold U32MAX; omega
  obtain ⟨a1, h1, r1⟩ := pos_addN bnd hU a _ hr (sp_addN _ _)
  obtain ⟨a2, h2, r2⟩ := pos_addN ws.length hl a1 _ r1 (sp_addN _ _)
  obtain ⟨a3, h3, r3⟩ := pos_addN _ hneg a2 _ r2 (sp_natsSp _ _ (sp_natsSp _ _ hk))
  obtain ⟨a4, h4, r4⟩ := atoms_rep ((ordered (fun p => decide (smLit p < 0)) ws).map (fun p => p.1.natAbs))
    (by intro x hx
        simp only [List.mem_map] at hx
        obtain ⟨y, hy, rfl⟩ := hx
        exact litOk_atom (hws y (mem_ordered _ _ _ hy)).1) a3 _ r3 (sp_natsSp _ _ hk)
  obtain ⟨a5, h5, r5⟩ := weights_rep ((ordered (fun p => decide (smLit p < 0)) ws).map (fun p => p.2.natAbs))
    (by intro x hx
        simp only [List.mem_map] at hx
        obtain ⟨y, hy, rfl⟩ := hx
        exact (hws y (mem_ordered _ _ _ hy)).2) a4 k r4 hk
  rw [List.length_map, length_ordered] at h4 h5
  refine ⟨a5, ?_, r5⟩
  unfold sum
  have hnb : ¬ (bnd > I32MAX.toNat) := by have : I32MAX.toNat = 2147483647 := rfl
                                          omega
  simp only [h1, h2, h3, bind, Except.bind, ↓reduceIte, hnb, h4, h5]
  congr 3
  rw [signed_smLit, List.map_map]
  unfold canonW
  rw [List.zip_map']
  rfl

theorem sum_enc_c (bnd : Nat) (ws : List (Int × Int)) (hb : bnd ≤ 2147483647) (hl : lenOk ws)
    (hws : ∀ p ∈ ws, litOk p.1 ∧ p.2 = 1) (a : AS) (k : List Nat)
    (hr : a.rest = addSum (bnd : Int) ws true ++ k) (hk : Sp k) :
    ∃ a', sum false a = .ok (((bnd : Int), canonW ws), a') ∧ a'.rest = k := by
  simp only [addSum, ↓reduceIte, List.append_nil, List.nil_append, List.append_assoc, Int.toNat_natCast] at hr
  have hneg : (ws.filter (fun p => decide (smLit p < 0))).length ≤ U32MAX := Nat.le_trans (List.length_filter_le _ _) hl
  have hU : bnd ≤ U32MAX := by unfold U32MAX; omega
  obtain ⟨a1, h1, r1⟩ := pos_addN ws.length hl a _ hr (sp_addN _ _)
  obtain ⟨a2, h2, r2⟩ := pos_addN _ hneg a1 _ r1 (sp_addN _ _)
  obtain ⟨a3, h3, r3⟩ := pos_addN bnd hU a2 _ r2 (sp_natsSp _ _ hk)
  obtain ⟨a4, h4, r4⟩ := atoms_rep ((ordered (fun p => decide (smLit p < 0)) ws).map (fun p => p.1.natAbs))
    (by intro x hx
        simp only [List.mem_map] at hx
        obtain ⟨y, hy, rfl⟩ := hx
        exact litOk_atom (hws y (mem_ordered _ _ _ hy)).1) a3 _ r3 hk
  rw [List.length_map, length_ordered] at h4
  refine ⟨a4, ?_, r4⟩
  unfold sum
  have hnb : ¬ (bnd > I32MAX.toNat) := by have : I32MAX.toNat = 2147483647 := rfl
                                          omega
  simp only [h1, h2, h3, bind, Except.bind, Bool.false_eq_true, ↓reduceIte, hnb, h4]
  congr 3
  rw [signed_smLit, List.map_map]
  unfold canonW
  apply List.map_congr_left
  intro p hp
  have := (hws p (mem_ordered _ _ _ hp)).2
  simp [Function.comp, this]

/-! ### the rule section: one line per call -/

/-- what the smodels fragment admits in the rule section (rules, minimize statements, externals), arguments in range -/
def RuleOk (ext : Bool) (f : Nat) : Call → Prop
  | .rule ht head body => ht ≤ 1 ∧ (∀ a ∈ head, atomOk a) ∧ head.length ≤ 2147483647 ∧ lenOk body ∧ (∀ l ∈ body, litOk l) ∧
      (head = [] → ht = 1 ∨ atomOk f)
  | .sumRule ht head b ws => ht = 0 ∧ (head = [] → atomOk f) ∧ head.length ≤ 1 ∧ (∀ a ∈ head, atomOk a) ∧ (0 ≤ b ∧ b ≤ 2147483647) ∧
      lenOk ws ∧ ∀ p ∈ ws, litOk p.1 ∧ 0 ≤ p.2 ∧ p.2 ≤ 2147483647
  | .minimize _ ws => lenOk ws ∧ ∀ p ∈ ws, litOk p.1 ∧ p.2.natAbs ≤ 2147483647
  | .external a v => ext = true ∧ atomOk a ∧ v ≤ 3
  | _ => False

def isCard (ws : List (Int × Int)) : Bool := ws.all (fun p => p.2 == 1)

/-- the rule type number written for a call (0: nothing is written) -/
def ruleRT : Call → Nat
  | .rule ht head _ => if head.isEmpty then (if ht = 1 then 0 else 1) else if ht = 1 then 3 else if head.length = 1 then 1 else 8
  | .sumRule _ _ _ ws => if isCard ws then 2 else 5
  | .minimize _ _ => 6
  | .external _ v => if v ≠ 3 then 91 else 92
  | _ => 0

def ruleFields (f : Nat) : Call → List Nat
  | .rule ht head body => (if head.isEmpty then addHead ht [f] else addHead ht head) ++ addBody body
  | .sumRule ht head b ws => addHead ht (if head.isEmpty then [f] else head) ++ addSum b ws (isCard ws)
  | .minimize _ ws => addSum 0 ws false
  | .external a v => if v ≠ 3 then addN a ++ addN ((v ^^^ 3) - 1) else addN a
  | _ => []

def ruleText (f : Nat) (c : Call) : List Nat := if ruleRT c = 0 then [] else printNat (ruleRT c) ++ ruleFields f c ++ nl

def usesFalse : Call → Bool
  | .rule ht head _ => head.isEmpty && ht != 1
  | .sumRule _ head _ _ => head.isEmpty
  | _ => false

/-- what comes back for a call of the rule section; `prio` is the running minimize priority of the step -/
def canonRule (f prio : Nat) : Call → Option Call × Nat
  | .rule ht head body =>
    if head.isEmpty then (if ht = 1 then (none, prio) else (some (.rule 0 [f] (canonB body)), prio))
    else (some (.rule ht head (canonB body)), prio)
  | .sumRule _ head b ws => (some (.sumRule 0 (if head.isEmpty then [f] else head) b (canonW ws)), prio)
  | .minimize _ ws => (some (.minimize (prio : Int) (canonW ws)), prio + 1)
  | .external a v => (some (.external a v), prio)
  | _ => (none, prio)

theorem str1 : str "1" = printNat 1 := by decide +kernel
theorem str6 : str "6" = printNat 6 := by decide +kernel
theorem str91 : str "91" = printNat 91 := by decide +kernel
theorem str92 : str "92" = printNat 92 := by decide +kernel

/-- the writer's step on a call of the rule section -/
theorem step_rule (ext : Bool) (f : Nat) (w : W) (c : Call) (hs : w.sec = 0) (hc : RuleOk ext f c) :
    SmodelsOut.step ext f w c = .ok ({ w with fHead := w.fHead || usesFalse c }.put (ruleText f c)) := by
  obtain ⟨wo, wsec, wfh, winc⟩ := w
  simp only at hs
  subst hs
  cases c with
  | rule ht head body =>
    obtain ⟨hht, _, _, _, _, hf⟩ := hc
    cases head with
    | nil =>
      have hf' := hf rfl
      by_cases h1 : ht = 1
      · simp [SmodelsOut.step, h1, ruleText, ruleRT, usesFalse, W.put]
      · have hfa : atomOk f := by rcases hf' with h | h; exact absurd h h1; exact h
        have hf0 : f ≠ 0 := by unfold atomOk at hfa; omega
        simp [SmodelsOut.step, h1, hf0, ruleText, ruleRT, ruleFields, usesFalse, W.put, str1]
    | cons x r =>
      by_cases h1 : ht = 1
      · simp [SmodelsOut.step, h1, ruleText, ruleRT, ruleFields, usesFalse, W.put]
      · cases r with
        | nil => simp [SmodelsOut.step, h1, ruleText, ruleRT, ruleFields, usesFalse, W.put]
        | cons y r' => simp [SmodelsOut.step, h1, ruleText, ruleRT, ruleFields, usesFalse, W.put]
  | sumRule ht head b ws =>
    obtain ⟨hht, hf, hlen, _, hb, _, _⟩ := hc
    subst hht
    have hb' : ¬ b < 0 := by omega
    cases head with
    | nil =>
      have hfa := hf rfl
      have hf0 : f ≠ 0 := by unfold atomOk at hfa; omega
      by_cases hcard : isCard ws = true
      · have hc' : (ws.all fun p => p.2 == 1) = true := hcard
        simp [SmodelsOut.step, hf0, hb', ruleText, ruleRT, ruleFields, usesFalse, W.put, hcard, hc']
      · have hc' : (ws.all fun p => p.2 == 1) = false := by simpa [isCard] using hcard
        have hcard' : isCard ws = false := by simpa using hcard
        simp [SmodelsOut.step, hf0, hb', ruleText, ruleRT, ruleFields, usesFalse, W.put, hcard', hc']
    | cons x r =>
      have hr : r = [] := by cases r with
        | nil => rfl
        | cons y r' => simp at hlen
      subst hr
      by_cases hcard : isCard ws = true
      · have hc' : (ws.all fun p => p.2 == 1) = true := hcard
        simp [SmodelsOut.step, hb', ruleText, ruleRT, ruleFields, usesFalse, W.put, hcard, hc']
      · have hc' : (ws.all fun p => p.2 == 1) = false := by simpa [isCard] using hcard
        have hcard' : isCard ws = false := by simpa using hcard
        simp [SmodelsOut.step, hb', ruleText, ruleRT, ruleFields, usesFalse, W.put, hcard', hc']
  | minimize p ws => simp [SmodelsOut.step, ruleText, ruleRT, ruleFields, usesFalse, W.put, str6]
  | external a v =>
    obtain ⟨he, _, _⟩ := hc
    subst he
    by_cases hv : v = 3
    · simp [SmodelsOut.step, hv, ruleText, ruleRT, ruleFields, usesFalse, W.put, str92]
    · simp [SmodelsOut.step, hv, ruleText, ruleRT, ruleFields, usesFalse, W.put, str91]
  | _ => exact absurd hc (by simp [RuleOk])


theorem ruleOf_1 (ext : Bool) (prio : Nat) (a : AS) : ruleOf ext 1 prio a = (do
    let (h, a) ← atom a
    let (b, a) ← body a
    pure ((some (.rule 0 [h] b), prio), a)) := rfl
theorem ruleOf_3 (ext : Bool) (prio : Nat) (a : AS) : ruleOf ext 3 prio a = (do
    let (n, a) ← atom a
    let (hd, a) ← rep atom n [] a
    let (b, a) ← body a
    pure ((some (.rule 1 hd b), prio), a)) := rfl
theorem ruleOf_8 (ext : Bool) (prio : Nat) (a : AS) : ruleOf ext 8 prio a = (do
    let (n, a) ← atom a
    let (hd, a) ← rep atom n [] a
    let (b, a) ← body a
    pure ((some (.rule 0 hd b), prio), a)) := rfl
theorem ruleOf_2 (ext : Bool) (prio : Nat) (a : AS) : ruleOf ext 2 prio a = (do
    let (h, a) ← atom a
    let ((bnd, wl), a) ← sum false a
    pure ((some (.sumRule 0 [h] bnd wl), prio), a)) := rfl
theorem ruleOf_5 (ext : Bool) (prio : Nat) (a : AS) : ruleOf ext 5 prio a = (do
    let (h, a) ← atom a
    let ((bnd, wl), a) ← sum true a
    pure ((some (.sumRule 0 [h] bnd wl), prio), a)) := rfl
theorem ruleOf_6 (ext : Bool) (prio : Nat) (a : AS) : ruleOf ext 6 prio a = (do
    let ((_, wl), a) ← sum true a
    pure ((some (.minimize prio wl), prio + 1), a)) := rfl
theorem ruleOf_90 (prio : Nat) (a : AS) : ruleOf true 90 prio a = (do
    let (z, a) ← pos a
    if z ≠ 0 then throw a.line
    pure ((none, prio), a)) := rfl
theorem ruleOf_91 (prio : Nat) (a : AS) : ruleOf true 91 prio a = (do
    let (h, a) ← atom a
    let (v, a) ← posMax 2 a
    pure ((some (.external h ((v ^^^ 3) - 1)), prio), a)) := rfl
theorem ruleOf_92 (prio : Nat) (a : AS) : ruleOf true 92 prio a = (do
    let (h, a) ← atom a
    pure ((some (.external h 3), prio), a)) := rfl

theorem natsSp_one (x : Nat) : natsSp [x] = addN x := by simp [natsSp]

/-- the fields of a written rule line are read back by `ruleOf` as the canonical call -/
theorem ruleLine_rt (ext : Bool) (f prio : Nat) (c : Call) (hc : RuleOk ext f c) (h0 : ruleRT c ≠ 0) (a : AS) (k : List Nat)
    (hr : a.rest = ruleFields f c ++ (nl ++ k)) :
    ∃ a', ruleOf ext (ruleRT c) prio a = .ok (canonRule f prio c, a') ∧ a'.rest = nl ++ k := by
  cases c with
  | rule ht head body =>
    obtain ⟨hht, hh, hhl, hlb, hb, hf⟩ := hc
    cases head with
    | nil =>
      by_cases h1 : ht = 1
      · simp [ruleRT, h1] at h0
      · have hfa : atomOk f := by rcases hf rfl with h | h; exact absurd h h1; exact h
        simp only [ruleFields, List.isEmpty_nil, ↓reduceIte, addHead, h1, List.length_cons, List.length_nil, Nat.zero_add, gt_iff_lt,
          Nat.lt_irrefl, or_self, List.nil_append, natsSp_one, List.append_assoc] at hr
        obtain ⟨a1, e1, r1⟩ := atom_addN f hfa a _ hr (by unfold addBody; simp only [List.append_assoc]; exact sp_addN _ _)
        obtain ⟨a2, e2, r2⟩ := body_enc body hlb hb a1 _ r1 (sp_nl _)
        refine ⟨a2, ?_, r2⟩
        simp only [ruleRT, List.isEmpty_nil, ↓reduceIte, h1, canonRule]
        rw [ruleOf_1]
        simp only [e1, e2, bind, Except.bind, pure, Except.pure]
    | cons x r =>
      by_cases h1 : ht = 1
      · subst h1
        simp only [ruleFields, List.isEmpty_cons, Bool.false_eq_true, ↓reduceIte, addHead, true_or, List.append_assoc] at hr
        obtain ⟨a1, e1, r1⟩ := atom_addN (x :: r).length ⟨by simp, hhl⟩ a _ hr (sp_natsSp _ _ (by unfold addBody; simp only [List.append_assoc]; exact sp_addN _ _))
        obtain ⟨a2, e2, r2⟩ := atoms_rep (x :: r) hh a1 _ r1 (by unfold addBody; simp only [List.append_assoc]; exact sp_addN _ _)
        obtain ⟨a3, e3, r3⟩ := body_enc body hlb hb a2 _ r2 (sp_nl _)
        refine ⟨a3, ?_, r3⟩
        simp only [ruleRT, List.isEmpty_cons, Bool.false_eq_true, ↓reduceIte, canonRule]
        rw [ruleOf_3]
        simp only [e1, e2, e3, bind, Except.bind, pure, Except.pure]
      · have ht0 : ht = 0 := by omega
        subst ht0
        cases r with
        | nil =>
          simp only [ruleFields, List.isEmpty_cons, Bool.false_eq_true, ↓reduceIte, addHead, List.length_cons, List.length_nil, Nat.zero_add,
            gt_iff_lt, Nat.lt_irrefl, or_self, List.nil_append, natsSp_one, List.append_assoc, Nat.zero_ne_one] at hr
          obtain ⟨a1, e1, r1⟩ := atom_addN x (hh x (by simp)) a _ hr (by unfold addBody; simp only [List.append_assoc]; exact sp_addN _ _)
          obtain ⟨a2, e2, r2⟩ := body_enc body hlb hb a1 _ r1 (sp_nl _)
          refine ⟨a2, ?_, r2⟩
          simp only [ruleRT, List.isEmpty_cons, Bool.false_eq_true, ↓reduceIte, Nat.zero_ne_one, List.length_cons, List.length_nil, Nat.zero_add, canonRule]
          rw [ruleOf_1]
          simp only [e1, e2, bind, Except.bind, pure, Except.pure]
        | cons y r' =>
          have hgt : (x :: y :: r').length > 1 := by simp
          simp only [ruleFields, List.isEmpty_cons, Bool.false_eq_true, ↓reduceIte, addHead, hgt, or_true, List.append_assoc] at hr
          obtain ⟨a1, e1, r1⟩ := atom_addN (x :: y :: r').length ⟨by simp, hhl⟩ a _ hr (sp_natsSp _ _ (by unfold addBody; simp only [List.append_assoc]; exact sp_addN _ _))
          obtain ⟨a2, e2, r2⟩ := atoms_rep (x :: y :: r') hh a1 _ r1 (by unfold addBody; simp only [List.append_assoc]; exact sp_addN _ _)
          obtain ⟨a3, e3, r3⟩ := body_enc body hlb hb a2 _ r2 (sp_nl _)
          refine ⟨a3, ?_, r3⟩
          have hne : ¬ ((x :: y :: r').length = 1) := by simp
          simp only [ruleRT, List.isEmpty_cons, Bool.false_eq_true, ↓reduceIte, Nat.zero_ne_one, hne, canonRule]
          rw [ruleOf_8]
          simp only [e1, e2, e3, bind, Except.bind, pure, Except.pure]
  | sumRule ht head b ws =>
    obtain ⟨hht, hf, hlen, hh, hb, hlw, hws⟩ := hc
    subst hht
    have hbn : ((b.toNat : Nat) : Int) = b := by omega
    -- the (single) head atom
    obtain ⟨h, hh1, hok⟩ : ∃ h, (if head.isEmpty then [f] else head) = [h] ∧ atomOk h := by
      cases head with
      | nil => exact ⟨f, rfl, hf rfl⟩
      | cons x r =>
        cases r with
        | nil => exact ⟨x, rfl, hh x (by simp)⟩
        | cons y r' => simp at hlen
    have hhd : addHead 0 (if head.isEmpty then [f] else head) = addN h := by rw [hh1]; simp [addHead, natsSp]
    simp only [ruleFields, hhd, List.append_assoc] at hr
    by_cases hcard : isCard ws = true
    · rw [hcard, ← hbn] at hr
      obtain ⟨a1, e1, r1⟩ := atom_addN h hok a _ hr (by
        simp only [addSum, ↓reduceIte, List.nil_append, List.append_assoc]; exact sp_addN _ _)
      obtain ⟨a2, e2, r2⟩ := sum_enc_c b.toNat ws (by omega) hlw (fun p hp => ⟨(hws p hp).1, by
        have := List.all_eq_true.mp hcard p hp; simpa using this⟩) a1 _ r1 (sp_nl _)
      refine ⟨a2, ?_, r2⟩
      simp only [ruleRT, hcard, ↓reduceIte, canonRule, hh1]
      rw [ruleOf_2]
      simp only [e1, e2, bind, Except.bind, pure, Except.pure, hbn]
    · have hcard' : isCard ws = false := by simpa using hcard
      rw [hcard', ← hbn] at hr
      obtain ⟨a1, e1, r1⟩ := atom_addN h hok a _ hr (by
        simp only [addSum, Bool.false_eq_true, ↓reduceIte, List.append_assoc]; exact sp_addN _ _)
      obtain ⟨a2, e2, r2⟩ := sum_enc_w b.toNat ws (by omega) hlw (fun p hp => ⟨(hws p hp).1, by have := (hws p hp).2; omega⟩) a1 _ r1 (sp_nl _)
      refine ⟨a2, ?_, r2⟩
      simp only [ruleRT, hcard', Bool.false_eq_true, ↓reduceIte, canonRule, hh1]
      rw [ruleOf_5]
      simp only [e1, e2, bind, Except.bind, pure, Except.pure, hbn]
  | minimize p ws =>
    obtain ⟨hlw, hws⟩ := hc
    simp only [ruleFields] at hr
    obtain ⟨a1, e1, r1⟩ := sum_enc_w 0 ws (by omega) hlw hws a _ (by simpa using hr) (sp_nl _)
    refine ⟨a1, ?_, r1⟩
    simp only [ruleRT, canonRule]
    rw [ruleOf_6]
    simp only [e1, bind, Except.bind, pure, Except.pure]
  | external x v =>
    obtain ⟨he, hx, hv⟩ := hc
    subst he
    by_cases hv3 : v = 3
    · subst hv3
      simp only [ruleFields, ne_eq, not_true_eq_false, ↓reduceIte] at hr
      obtain ⟨a1, e1, r1⟩ := atom_addN x hx a _ hr (sp_nl _)
      refine ⟨a1, ?_, r1⟩
      simp only [ruleRT, ne_eq, not_true_eq_false, ↓reduceIte, canonRule]
      rw [ruleOf_92]
      simp only [e1, bind, Except.bind, pure, Except.pure]
    · have hv' : v = 0 ∨ v = 1 ∨ v = 2 := by omega
      simp only [ruleFields, ne_eq, hv3, not_false_eq_true, ↓reduceIte, List.append_assoc] at hr
      obtain ⟨a1, e1, r1⟩ := atom_addN x hx a _ hr (sp_addN _ _)
      obtain ⟨a2, e2, r2⟩ := posMax_addN 2 ((v ^^^ 3) - 1) (by rcases hv' with rfl | rfl | rfl <;> decide) (by decide) a1 _ r1 (sp_nl _)
      refine ⟨a2, ?_, r2⟩
      simp only [ruleRT, ne_eq, hv3, not_false_eq_true, ↓reduceIte, canonRule]
      have hvv : ((v ^^^ 3) - 1 ^^^ 3) - 1 = v := by rcases hv' with rfl | rfl | rfl <;> decide
      rw [ruleOf_91]
      simp only [e1, e2, bind, Except.bind, pure, Except.pure, hvv]
  | _ => exact absurd hc (by simp [RuleOk])

end PotasscoVerif.SmRT
