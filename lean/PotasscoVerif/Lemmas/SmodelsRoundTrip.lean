/-
  The smodels round trip (C05): every line `SmodelsOutput` writes for a call of the supported fragment is read back by
  `SmodelsInput` as the canonical form of that call; composed over the rule section, the symbol table, the compute
  statement, steps and programs.
-/
import PotasscoVerif.Lemmas.AspifRoundTrip2
import PotasscoVerif.Model.SmodelsIn
import PotasscoVerif.Model.SmodelsOut
namespace PotasscoVerif.SmRT
open PotasscoVerif PotasscoVerif.AspifOut PotasscoVerif.AspifIn PotasscoVerif.CharStream PotasscoVerif.Decimal
open PotasscoVerif.AspifRT PotasscoVerif.SmodelsOut PotasscoVerif.SmodelsIn
open PotasscoVerif.BufferedStream (isWs isDigit I64MAX)

/-! ### canonical forms -/

def canonB (b : List Int) : List Int := ordered (fun (l : Int) => decide (l < 0)) b
/-- weighted literals as they come back: negatives first, a negative weight as its absolute value on the complement -/
def canonW (ws : List (Int × Int)) : List (Int × Int) :=
  (ordered (fun (p : Int × Int) => decide (smLit p < 0)) ws).map (fun p => (smLit p, (p.2.natAbs : Int)))

theorem canonW_nonneg (ws : List (Int × Int)) (h : ∀ p ∈ ws, 0 ≤ p.2) :
    canonW ws = ordered (fun (p : Int × Int) => decide (p.1 < 0)) ws := by
  have hs : ∀ p ∈ ws, smLit p = p.1 := by intro p hp; have := h p hp; simp [smLit, this]
  unfold canonW ordered
  have e1 : ws.filter (fun p => decide (smLit p < 0)) = ws.filter (fun p => decide (p.1 < 0)) :=
    List.filter_congr (fun p hp => by rw [hs p hp])
  have e2 : ws.filter (fun p => !decide (smLit p < 0)) = ws.filter (fun p => !decide (p.1 < 0)) :=
    List.filter_congr (fun p hp => by rw [hs p hp])
  rw [e1, e2]
  have : ∀ (l : List (Int × Int)), (∀ p ∈ l, p ∈ ws) → l.map (fun p => (smLit p, (p.2.natAbs : Int))) = l := by
    intro l hl
    induction l with
    | nil => rfl
    | cons p r ih =>
      have hp := hl p (by simp)
      have h0 := h p hp
      simp only [List.map_cons, hs p hp, ih (fun q hq => hl q (by simp [hq]))]
      congr 1
      exact Prod.ext rfl (by simp; omega)
  apply this
  intro p hp
  simp only [List.mem_append, List.mem_filter] at hp
  rcases hp with hp | hp <;> exact hp.1

/-! ### `signed` undoes the writer's ordering -/

theorem signed_zero (l : List Nat) : signed 0 l = l.map (fun (a : Nat) => (a : Int)) := by
  induction l with
  | nil => rfl
  | cons a r ih => simp [signed, ih]

theorem signed_append (xs ys : List Nat) : signed xs.length (xs ++ ys) = xs.map (fun (a : Nat) => -(a : Int)) ++ signed 0 ys := by
  induction xs with
  | nil => simp
  | cons a r ih => simp [signed, ih]

theorem signed_ordered {α : Type} (g : α → Int) (l : List α) :
    signed (l.filter (fun x => decide (g x < 0))).length ((ordered (fun x => decide (g x < 0)) l).map (fun x => (g x).natAbs)) =
    (ordered (fun x => decide (g x < 0)) l).map g := by
  unfold ordered
  rw [List.map_append, List.map_append]
  have h := signed_append ((l.filter (fun x => decide (g x < 0))).map (fun x => (g x).natAbs)) ((l.filter (fun x => !decide (g x < 0))).map (fun x => (g x).natAbs))
  rw [List.length_map] at h
  rw [h, signed_zero]
  congr 1
  · rw [List.map_map]
    apply List.map_congr_left
    intro x hx
    have : g x < 0 := by simpa using (List.mem_filter.mp hx).2
    simp only [Function.comp]; omega
  · rw [List.map_map]
    apply List.map_congr_left
    intro x hx
    have : ¬ g x < 0 := by simpa using (List.mem_filter.mp hx).2
    simp only [Function.comp]; omega

theorem length_ordered {α : Type} (p : α → Bool) (l : List α) : (ordered p l).length = l.length := by
  unfold ordered
  induction l with
  | nil => rfl
  | cons x r ih => by_cases h : p x <;> simp [List.filter_cons, h] at ih ⊢ <;> omega

theorem mem_ordered {α : Type} (p : α → Bool) (l : List α) (x : α) : x ∈ ordered p l → x ∈ l := by
  unfold ordered; intro h
  simp only [List.mem_append, List.mem_filter] at h
  rcases h with h | h <;> exact h.1

/-! ### fields -/

theorem sp_natsSp (l : List Nat) (k : List Nat) (hk : Sp k) : Sp (natsSp l ++ k) := by
  cases l with
  | nil => simpa [natsSp] using hk
  | cons x r => simp only [natsSp, List.map_cons, List.flatten_cons, List.append_assoc]; exact sp_addN _ _

theorem atoms_rep (l : List Nat) (hok : ∀ x ∈ l, atomOk x) (a : AS) (k : List Nat) (hr : a.rest = natsSp l ++ k) (hk : Sp k) :
    ∃ a', rep atom l.length [] a = .ok (l, a') ∧ a'.rest = k := by
  obtain ⟨a1, h1, r1⟩ := rep_enc atom addN atomOk (fun x a k hx hr hk => atom_addN x hx a k hr hk) sp_addN l [] a k hok (by simpa [natsSp] using hr) hk
  exact ⟨a1, by simpa using h1, r1⟩

theorem weights_rep (l : List Nat) (hok : ∀ x ∈ l, x ≤ 2147483647) (a : AS) (k : List Nat) (hr : a.rest = natsSp l ++ k) (hk : Sp k) :
    ∃ a', rep (posMax I32MAX.toNat) l.length [] a = .ok (l, a') ∧ a'.rest = k := by
  obtain ⟨a1, h1, r1⟩ := rep_enc (posMax I32MAX.toNat) addN (fun x => x ≤ 2147483647)
    (fun x a k hx hr hk => posMax_addN I32MAX.toNat x (by have : I32MAX.toNat = 2147483647 := rfl
                                                           omega) (by decide) a k hr hk) sp_addN l [] a k hok (by simpa [natsSp] using hr) hk
  exact ⟨a1, by simpa using h1, r1⟩

theorem litOk_atom {l : Int} (h : litOk l) : atomOk l.natAbs := by unfold litOk at h; unfold atomOk; omega

/-- `len neg a1 … alen` is read by `matchBody` as the body, negatives first -/
theorem body_enc (b : List Int) (hl : lenOk b) (hb : ∀ l ∈ b, litOk l) (a : AS) (k : List Nat) (hr : a.rest = addBody b ++ k) (hk : Sp k) :
    ∃ a', body a = .ok (canonB b, a') ∧ a'.rest = k := by
  simp only [addBody, List.append_assoc] at hr
  have hneg : (b.filter (· < 0)).length ≤ U32MAX := Nat.le_trans (List.length_filter_le _ _) hl
  obtain ⟨a1, h1, r1⟩ := pos_addN b.length hl a _ hr (sp_addN _ _)
  obtain ⟨a2, h2, r2⟩ := pos_addN _ hneg a1 _ r1 (sp_natsSp _ _ hk)
  obtain ⟨a3, h3, r3⟩ := atoms_rep ((ordered (fun (l : Int) => decide (l < 0)) b).map Int.natAbs)
    (by intro x hx
        simp only [List.mem_map] at hx
        obtain ⟨y, hy, rfl⟩ := hx
        exact litOk_atom (hb y (mem_ordered _ _ _ hy))) a2 k r2 hk
  rw [List.length_map, length_ordered] at h3
  refine ⟨a3, ?_, r3⟩
  unfold body
  simp only [h1, h2, h3, bind, Except.bind, pure, Except.pure]
  have := signed_ordered (fun (x : Int) => x) b
  simp only at this
  unfold canonB
  rw [← this]
  simp

end PotasscoVerif.SmRT
