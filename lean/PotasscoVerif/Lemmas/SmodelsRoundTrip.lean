/-
  The smodels round trip (C05): every line `SmodelsOutput` writes for a call of the supported fragment is read back by
  `SmodelsInput` as the canonical form of that call; composed over the rule section, the symbol table, the compute
  statement, steps and programs.
-/
import PotasscoVerif.Lemmas.AspifRoundTrip2
import PotasscoVerif.Model.SmodelsIn
import PotasscoVerif.Model.SmodelsOut
namespace PotasscoVerif.SmRT
open PotasscoVerif PotasscoVerif.AspifOut PotasscoVerif.AspifIn PotasscoVerif.CharStream PotasscoVerif.Decimal
open PotasscoVerif.AspifRT PotasscoVerif.SmodelsOut PotasscoVerif.SmodelsIn
open PotasscoVerif.BufferedStream (isWs isDigit I64MAX)

/-! ### canonical forms -/

def canonB (b : List Int) : List Int := ordered (fun (l : Int) => decide (l < 0)) b
/-- weighted literals as they come back: negatives first, a negative weight as its absolute value on the complement -/
def canonW (ws : List (Int × Int)) : List (Int × Int) :=
  (ordered (fun (p : Int × Int) => decide (smLit p < 0)) ws).map (fun p => (smLit p, (p.2.natAbs : Int)))

theorem canonW_nonneg (ws : List (Int × Int)) (h : ∀ p ∈ ws, 0 ≤ p.2) :
    canonW ws = ordered (fun (p : Int × Int) => decide (p.1 < 0)) ws := by
  have hs : ∀ p ∈ ws, smLit p = p.1 := by intro p hp; have := h p hp; simp [smLit, this]
  unfold canonW ordered
  have e1 : ws.filter (fun p => decide (smLit p < 0)) = ws.filter (fun p => decide (p.1 < 0)) :=
    List.filter_congr (fun p hp => by rw [hs p hp])
  have e2 : ws.filter (fun p => !decide (smLit p < 0)) = ws.filter (fun p => !decide (p.1 < 0)) :=
    List.filter_congr (fun p hp => by rw [hs p hp])
  rw [e1, e2]
  have : ∀ (l : List (Int × Int)), (∀ p ∈ l, p ∈ ws) → l.map (fun p => (smLit p, (p.2.natAbs : Int))) = l := by
    intro l hl
    induction l with
    | nil => rfl
    | cons p r ih =>
      have hp := hl p (by simp)
      have h0 := h p hp
      simp only [List.map_cons, hs p hp, ih (fun q hq => hl q (by simp [hq]))]
      congr 1
      exact Prod.ext rfl (by simp; omega)
  apply this
  intro p hp
  simp only [List.mem_append, List.mem_filter] at hp
  rcases hp with hp | hp <;> exact hp.1

/-! ### `signed` undoes the writer's ordering -/

theorem signed_zero (l : List Nat) : signed 0 l = l.map (fun (a : Nat) => (a : Int)) := by
  induction l with
  | nil => rfl
  | cons a r ih => simp [signed, ih]

theorem signed_append (xs ys : List Nat) : signed xs.length (xs ++ ys) = xs.map (fun (a : Nat) => -(a : Int)) ++ signed 0 ys := by
  induction xs with
  | nil => simp
  | cons a r ih => simp [signed, ih]

theorem signed_ordered {α : Type} (g : α → Int) (l : List α) :
    signed (l.filter (fun x => decide (g x < 0))).length ((ordered (fun x => decide (g x < 0)) l).map (fun x => (g x).natAbs)) =
    (ordered (fun x => decide (g x < 0)) l).map g := by
  unfold ordered
  rw [List.map_append, List.map_append]
  have h := signed_append ((l.filter (fun x => decide (g x < 0))).map (fun x => (g x).natAbs)) ((l.filter (fun x => !decide (g x < 0))).map (fun x => (g x).natAbs))
  rw [List.length_map] at h
  rw [h, signed_zero]
  congr 1
  · rw [List.map_map]
    apply List.map_congr_left
    intro x hx
    have : g x < 0 := by simpa using (List.mem_filter.mp hx).2
    simp only [Function.comp]; omega
  · rw [List.map_map]
    apply List.map_congr_left
    intro x hx
    have : ¬ g x < 0 := by simpa using (List.mem_filter.mp hx).2
    simp only [Function.comp]; omega

theorem length_ordered {α : Type} (p : α → Bool) (l : List α) : (ordered p l).length = l.length := by
  unfold ordered
  induction l with
  | nil => rfl
  | cons x r ih => by_cases h : p x <;> simp [List.filter_cons, h] at ih ⊢ <;> omega

theorem mem_ordered {α : Type} (p : α → Bool) (l : List α) (x : α) : x ∈ ordered p l → x ∈ l := by
  unfold ordered; intro h
  simp only [List.mem_append, List.mem_filter] at h
  rcases h with h | h <;> exact h.1

/-! ### fields -/

theorem sp_natsSp (l : List Nat) (k : List Nat) (hk : Sp k) : Sp (natsSp l ++ k) := by
  cases l with
  | nil => simpa [natsSp] using hk
  | cons x r => simp only [natsSp, List.map_cons, List.flatten_cons, List.append_assoc]; exact sp_addN _ _

theorem atoms_rep (l : List Nat) (hok : ∀ x ∈ l, atomOk x) (a : AS) (k : List Nat) (hr : a.rest = natsSp l ++ k) (hk : Sp k) :
    ∃ a', rep atom l.length [] a = .ok (l, a') ∧ a'.rest = k := by
  obtain ⟨a1, h1, r1⟩ := rep_enc atom addN atomOk (fun x a k hx hr hk => atom_addN x hx a k hr hk) sp_addN l [] a k hok (by simpa [natsSp] using hr) hk
  exact ⟨a1, by simpa using h1, r1⟩

theorem weights_rep (l : List Nat) (hok : ∀ x ∈ l, x ≤ 2147483647) (a : AS) (k : List Nat) (hr : a.rest = natsSp l ++ k) (hk : Sp k) :
    ∃ a', rep (posMax I32MAX.toNat) l.length [] a = .ok (l, a') ∧ a'.rest = k := by
  have e : I32MAX.toNat = 2147483647 := rfl
  obtain ⟨a1, h1, r1⟩ := rep_enc (posMax I32MAX.toNat) addN (fun x => x ≤ 2147483647)
    (fun x a k hx hr hk => posMax_addN I32MAX.toNat x (by rw [e]; exact hx) (by decide) a k hr hk) sp_addN l [] a k hok (by simpa [natsSp] using hr) hk
  exact ⟨a1, by simpa using h1, r1⟩

theorem litOk_atom {l : Int} (h : litOk l) : atomOk l.natAbs := by unfold litOk at h; unfold atomOk; omega

/-- `len neg a1 … alen` is read by `matchBody` as the body, negatives first -/
theorem body_enc (b : List Int) (hl : lenOk b) (hb : ∀ l ∈ b, litOk l) (a : AS) (k : List Nat) (hr : a.rest = addBody b ++ k) (hk : Sp k) :
    ∃ a', body a = .ok (canonB b, a') ∧ a'.rest = k := by
  simp only [addBody, List.append_assoc] at hr
  have hneg : (b.filter (· < 0)).length ≤ U32MAX := Nat.le_trans (List.length_filter_le _ _) hl
  obtain ⟨a1, h1, r1⟩ := pos_addN b.length hl a _ hr (sp_addN _ _)
  obtain ⟨a2, h2, r2⟩ := pos_addN _ hneg a1 _ r1 (sp_natsSp _ _ hk)
  obtain ⟨a3, h3, r3⟩ := atoms_rep ((ordered (fun (l : Int) => decide (l < 0)) b).map Int.natAbs)
    (by intro x hx
        simp only [List.mem_map] at hx
        obtain ⟨y, hy, rfl⟩ := hx
        exact litOk_atom (hb y (mem_ordered _ _ _ hy))) a2 k r2 hk
  rw [List.length_map, length_ordered] at h3
  refine ⟨a3, ?_, r3⟩
  unfold body
  simp only [h1, h2, h3, bind, Except.bind, pure, Except.pure]
  have := signed_ordered (fun (x : Int) => x) b
  unfold canonB
  rw [List.map_id'] at this
  exact congrArg (fun x => Except.ok (x, a3)) this

theorem smLit_natAbs (p : Int × Int) : (smLit p).natAbs = p.1.natAbs := by
  unfold smLit; split <;> simp

theorem smLit_ok {p : Int × Int} (h : litOk p.1) : litOk (smLit p) := by
  unfold litOk at *; rw [smLit_natAbs]; unfold smLit; split <;> omega

theorem signed_smLit (ws : List (Int × Int)) :
    signed (ws.filter (fun p => decide (smLit p < 0))).length ((ordered (fun p => decide (smLit p < 0)) ws).map (fun p => p.1.natAbs)) =
    (ordered (fun p => decide (smLit p < 0)) ws).map smLit := by
  have := signed_ordered smLit ws
  rw [← this]
  congr 1
  apply List.map_congr_left
  intro p _; exact (smLit_natAbs p).symm

/-- the three leading numbers and the literal/weight lists of a weight rule or minimize statement -/
theorem sum_enc_w (bnd : Nat) (ws : List (Int × Int)) (hb : bnd ≤ 2147483647) (hl : lenOk ws)
    (hws : ∀ p ∈ ws, litOk p.1 ∧ p.2.natAbs ≤ 2147483647) (a : AS) (k : List Nat)
    (hr : a.rest = addSum (bnd : Int) ws false ++ k) (hk : Sp k) :
    ∃ a', sum true a = .ok (((bnd : Int), canonW ws), a') ∧ a'.rest = k := by
  simp only [addSum, Bool.false_eq_true, ↓reduceIte, List.append_nil, List.nil_append, List.append_assoc, Int.toNat_natCast] at hr
  have hneg : (ws.filter (fun p => decide (smLit p < 0))).length ≤ U32MAX := Nat.le_trans (List.length_filter_le _ _) hl
  have hU : bnd ≤ U32MAX := by unfold U32MAX; omega
  obtain ⟨a1, h1, r1⟩ := pos_addN bnd hU a _ hr (sp_addN _ _)
  obtain ⟨a2, h2, r2⟩ := pos_addN ws.length hl a1 _ r1 (sp_addN _ _)
  obtain ⟨a3, h3, r3⟩ := pos_addN _ hneg a2 _ r2 (sp_natsSp _ _ (sp_natsSp _ _ hk))
  obtain ⟨a4, h4, r4⟩ := atoms_rep ((ordered (fun p => decide (smLit p < 0)) ws).map (fun p => p.1.natAbs))
    (by intro x hx
        simp only [List.mem_map] at hx
        obtain ⟨y, hy, rfl⟩ := hx
        exact litOk_atom (hws y (mem_ordered _ _ _ hy)).1) a3 _ r3 (sp_natsSp _ _ hk)
  obtain ⟨a5, h5, r5⟩ := weights_rep ((ordered (fun p => decide (smLit p < 0)) ws).map (fun p => p.2.natAbs))
    (by intro x hx
        simp only [List.mem_map] at hx
        obtain ⟨y, hy, rfl⟩ := hx
        exact (hws y (mem_ordered _ _ _ hy)).2) a4 k r4 hk
  rw [List.length_map, length_ordered] at h4 h5
  refine ⟨a5, ?_, r5⟩
  unfold sum
  have hnb : ¬ (bnd > I32MAX.toNat) := by have : I32MAX.toNat = 2147483647 := rfl
                                          omega
  simp only [h1, h2, h3, bind, Except.bind, ↓reduceIte, hnb, h4, h5]
  congr 3
  rw [signed_smLit, List.map_map]
  unfold canonW
  rw [List.zip_map']
  rfl

theorem sum_enc_c (bnd : Nat) (ws : List (Int × Int)) (hb : bnd ≤ 2147483647) (hl : lenOk ws)
    (hws : ∀ p ∈ ws, litOk p.1 ∧ p.2 = 1) (a : AS) (k : List Nat)
    (hr : a.rest = addSum (bnd : Int) ws true ++ k) (hk : Sp k) :
    ∃ a', sum false a = .ok (((bnd : Int), canonW ws), a') ∧ a'.rest = k := by
  simp only [addSum, ↓reduceIte, List.append_nil, List.nil_append, List.append_assoc, Int.toNat_natCast] at hr
  have hneg : (ws.filter (fun p => decide (smLit p < 0))).length ≤ U32MAX := Nat.le_trans (List.length_filter_le _ _) hl
  have hU : bnd ≤ U32MAX := by unfold U32MAX; omega
  obtain ⟨a1, h1, r1⟩ := pos_addN ws.length hl a _ hr (sp_addN _ _)
  obtain ⟨a2, h2, r2⟩ := pos_addN _ hneg a1 _ r1 (sp_addN _ _)
  obtain ⟨a3, h3, r3⟩ := pos_addN bnd hU a2 _ r2 (sp_natsSp _ _ hk)
  obtain ⟨a4, h4, r4⟩ := atoms_rep ((ordered (fun p => decide (smLit p < 0)) ws).map (fun p => p.1.natAbs))
    (by intro x hx
        simp only [List.mem_map] at hx
        obtain ⟨y, hy, rfl⟩ := hx
        exact litOk_atom (hws y (mem_ordered _ _ _ hy)).1) a3 _ r3 hk
  rw [List.length_map, length_ordered] at h4
  refine ⟨a4, ?_, r4⟩
  unfold sum
  have hnb : ¬ (bnd > I32MAX.toNat) := by have : I32MAX.toNat = 2147483647 := rfl
                                          omega
  simp only [h1, h2, h3, bind, Except.bind, Bool.false_eq_true, ↓reduceIte, hnb, h4]
  congr 3
  rw [signed_smLit, List.map_map]
  unfold canonW
  apply List.map_congr_left
  intro p hp
  have := (hws p (mem_ordered _ _ _ hp)).2
  simp [Function.comp, this]

/-! ### the rule section: one line per call -/

/-- what the smodels fragment admits in the rule section (rules, minimize statements, externals), arguments in range -/
def RuleOk (ext : Bool) (f : Nat) : Call → Prop
  | .rule ht head body => ht ≤ 1 ∧ (∀ a ∈ head, atomOk a) ∧ head.length ≤ 2147483647 ∧ lenOk body ∧ (∀ l ∈ body, litOk l) ∧
      (head = [] → ht = 1 ∨ atomOk f)
  | .sumRule ht head b ws => ht = 0 ∧ (head = [] → atomOk f) ∧ head.length ≤ 1 ∧ (∀ a ∈ head, atomOk a) ∧ (0 ≤ b ∧ b ≤ 2147483647) ∧
      lenOk ws ∧ ∀ p ∈ ws, litOk p.1 ∧ 0 ≤ p.2 ∧ p.2 ≤ 2147483647
  | .minimize _ ws => lenOk ws ∧ ∀ p ∈ ws, litOk p.1 ∧ p.2.natAbs ≤ 2147483647
  | .external a v => ext = true ∧ atomOk a ∧ v ≤ 3
  | _ => False

def isCard (ws : List (Int × Int)) : Bool := ws.all (fun p => p.2 == 1)

/-- the rule type number written for a call (0: nothing is written) -/
def ruleRT : Call → Nat
  | .rule ht head _ => if head.isEmpty then (if ht = 1 then 0 else 1) else if ht = 1 then 3 else if head.length = 1 then 1 else 8
  | .sumRule _ _ _ ws => if isCard ws then 2 else 5
  | .minimize _ _ => 6
  | .external _ v => if v ≠ 3 then 91 else 92
  | _ => 0

def ruleFields (f : Nat) : Call → List Nat
  | .rule ht head body => (if head.isEmpty then addHead ht [f] else addHead ht head) ++ addBody body
  | .sumRule ht head b ws => addHead ht (if head.isEmpty then [f] else head) ++ addSum b ws (isCard ws)
  | .minimize _ ws => addSum 0 ws false
  | .external a v => if v ≠ 3 then addN a ++ addN ((v ^^^ 3) - 1) else addN a
  | _ => []

def ruleText (f : Nat) (c : Call) : List Nat := if ruleRT c = 0 then [] else printNat (ruleRT c) ++ ruleFields f c ++ nl

def usesFalse : Call → Bool
  | .rule ht head _ => head.isEmpty && ht != 1
  | .sumRule _ head _ _ => head.isEmpty
  | _ => false

/-- what comes back for a call of the rule section; `prio` is the running minimize priority of the step -/
def canonRule (f prio : Nat) : Call → Option Call × Nat
  | .rule ht head body =>
    if head.isEmpty then (if ht = 1 then (none, prio) else (some (.rule 0 [f] (canonB body)), prio))
    else (some (.rule ht head (canonB body)), prio)
  | .sumRule _ head b ws => (some (.sumRule 0 (if head.isEmpty then [f] else head) b (canonW ws)), prio)
  | .minimize _ ws => (some (.minimize (prio : Int) (canonW ws)), prio + 1)
  | .external a v => (some (.external a v), prio)
  | _ => (none, prio)

theorem str1 : str "1" = printNat 1 := by decide +kernel
theorem str6 : str "6" = printNat 6 := by decide +kernel
theorem str91 : str "91" = printNat 91 := by decide +kernel
theorem str92 : str "92" = printNat 92 := by decide +kernel

/-- the writer's step on a call of the rule section -/
theorem step_rule (ext : Bool) (f : Nat) (w : W) (c : Call) (hs : w.sec = 0) (hc : RuleOk ext f c) :
    SmodelsOut.step ext f w c = .ok ({ w with fHead := w.fHead || usesFalse c }.put (ruleText f c)) := by
  obtain ⟨wo, wsec, wfh, winc⟩ := w
  simp only at hs
  subst hs
  cases c with
  | rule ht head body =>
    obtain ⟨hht, _, _, _, _, hf⟩ := hc
    cases head with
    | nil =>
      have hf' := hf rfl
      by_cases h1 : ht = 1
      · simp [SmodelsOut.step, h1, ruleText, ruleRT, usesFalse, W.put]
      · have hfa : atomOk f := by rcases hf' with h | h; exact absurd h h1; exact h
        have hf0 : f ≠ 0 := by unfold atomOk at hfa; omega
        simp [SmodelsOut.step, h1, hf0, ruleText, ruleRT, ruleFields, usesFalse, W.put, str1]
    | cons x r =>
      by_cases h1 : ht = 1
      · simp [SmodelsOut.step, h1, ruleText, ruleRT, ruleFields, usesFalse, W.put]
      · cases r with
        | nil => simp [SmodelsOut.step, h1, ruleText, ruleRT, ruleFields, usesFalse, W.put]
        | cons y r' => simp [SmodelsOut.step, h1, ruleText, ruleRT, ruleFields, usesFalse, W.put]
  | sumRule ht head b ws =>
    obtain ⟨hht, hf, hlen, _, hb, _, _⟩ := hc
    subst hht
    have hb' : ¬ b < 0 := by omega
    cases head with
    | nil =>
      have hfa := hf rfl
      have hf0 : f ≠ 0 := by unfold atomOk at hfa; omega
      by_cases hcard : isCard ws = true
      · have hc' : (ws.all fun p => p.2 == 1) = true := hcard
        simp [SmodelsOut.step, hf0, hb', ruleText, ruleRT, ruleFields, usesFalse, W.put, hcard, hc']
      · have hc' : (ws.all fun p => p.2 == 1) = false := by simpa [isCard] using hcard
        have hcard' : isCard ws = false := by simpa using hcard
        simp [SmodelsOut.step, hf0, hb', ruleText, ruleRT, ruleFields, usesFalse, W.put, hcard', hc']
    | cons x r =>
      have hr : r = [] := by cases r with
        | nil => rfl
        | cons y r' => simp at hlen
      subst hr
      by_cases hcard : isCard ws = true
      · have hc' : (ws.all fun p => p.2 == 1) = true := hcard
        simp [SmodelsOut.step, hb', ruleText, ruleRT, ruleFields, usesFalse, W.put, hcard, hc']
      · have hc' : (ws.all fun p => p.2 == 1) = false := by simpa [isCard] using hcard
        have hcard' : isCard ws = false := by simpa using hcard
        simp [SmodelsOut.step, hb', ruleText, ruleRT, ruleFields, usesFalse, W.put, hcard', hc']
  | minimize p ws => simp [SmodelsOut.step, ruleText, ruleRT, ruleFields, usesFalse, W.put, str6]
  | external a v =>
    obtain ⟨he, _, _⟩ := hc
    subst he
    by_cases hv : v = 3
    · simp [SmodelsOut.step, hv, ruleText, ruleRT, ruleFields, usesFalse, W.put, str92]
    · simp [SmodelsOut.step, hv, ruleText, ruleRT, ruleFields, usesFalse, W.put, str91]
  | _ => exact absurd hc (by simp [RuleOk])


theorem ruleOf_1 (ext : Bool) (prio : Nat) (a : AS) : ruleOf ext 1 prio a = (do
    let (h, a) ← atom a
    let (b, a) ← body a
    pure ((some (.rule 0 [h] b), prio), a)) := rfl
theorem ruleOf_3 (ext : Bool) (prio : Nat) (a : AS) : ruleOf ext 3 prio a = (do
    let (n, a) ← atom a
    let (hd, a) ← rep atom n [] a
    let (b, a) ← body a
    pure ((some (.rule 1 hd b), prio), a)) := rfl
theorem ruleOf_8 (ext : Bool) (prio : Nat) (a : AS) : ruleOf ext 8 prio a = (do
    let (n, a) ← atom a
    let (hd, a) ← rep atom n [] a
    let (b, a) ← body a
    pure ((some (.rule 0 hd b), prio), a)) := rfl
theorem ruleOf_2 (ext : Bool) (prio : Nat) (a : AS) : ruleOf ext 2 prio a = (do
    let (h, a) ← atom a
    let ((bnd, wl), a) ← sum false a
    pure ((some (.sumRule 0 [h] bnd wl), prio), a)) := rfl
theorem ruleOf_5 (ext : Bool) (prio : Nat) (a : AS) : ruleOf ext 5 prio a = (do
    let (h, a) ← atom a
    let ((bnd, wl), a) ← sum true a
    pure ((some (.sumRule 0 [h] bnd wl), prio), a)) := rfl
theorem ruleOf_6 (ext : Bool) (prio : Nat) (a : AS) : ruleOf ext 6 prio a = (do
    let ((_, wl), a) ← sum true a
    pure ((some (.minimize prio wl), prio + 1), a)) := rfl
theorem ruleOf_90 (prio : Nat) (a : AS) : ruleOf true 90 prio a = (do
    let (z, a) ← pos a
    if z ≠ 0 then throw a.line
    pure ((none, prio), a)) := rfl
theorem ruleOf_91 (prio : Nat) (a : AS) : ruleOf true 91 prio a = (do
    let (h, a) ← atom a
    let (v, a) ← posMax 2 a
    pure ((some (.external h ((v ^^^ 3) - 1)), prio), a)) := rfl
theorem ruleOf_92 (prio : Nat) (a : AS) : ruleOf true 92 prio a = (do
    let (h, a) ← atom a
    pure ((some (.external h 3), prio), a)) := rfl

theorem natsSp_one (x : Nat) : natsSp [x] = addN x := by simp [natsSp]

/-- the fields of a written rule line are read back by `ruleOf` as the canonical call -/
theorem ruleLine_rt (ext : Bool) (f prio : Nat) (c : Call) (hc : RuleOk ext f c) (h0 : ruleRT c ≠ 0) (a : AS) (k : List Nat)
    (hr : a.rest = ruleFields f c ++ (nl ++ k)) :
    ∃ a', ruleOf ext (ruleRT c) prio a = .ok (canonRule f prio c, a') ∧ a'.rest = nl ++ k := by
  cases c with
  | rule ht head body =>
    obtain ⟨hht, hh, hhl, hlb, hb, hf⟩ := hc
    cases head with
    | nil =>
      by_cases h1 : ht = 1
      · simp [ruleRT, h1] at h0
      · have hfa : atomOk f := by rcases hf rfl with h | h; exact absurd h h1; exact h
        simp only [ruleFields, List.isEmpty_nil, ↓reduceIte, addHead, h1, List.length_cons, List.length_nil, Nat.zero_add, gt_iff_lt,
          Nat.lt_irrefl, or_self, List.nil_append, natsSp_one, List.append_assoc] at hr
        obtain ⟨a1, e1, r1⟩ := atom_addN f hfa a _ hr (by unfold addBody; simp only [List.append_assoc]; exact sp_addN _ _)
        obtain ⟨a2, e2, r2⟩ := body_enc body hlb hb a1 _ r1 (sp_nl _)
        refine ⟨a2, ?_, r2⟩
        simp only [ruleRT, List.isEmpty_nil, ↓reduceIte, h1, canonRule]
        rw [ruleOf_1]
        simp only [e1, e2, bind, Except.bind, pure, Except.pure]
    | cons x r =>
      by_cases h1 : ht = 1
      · subst h1
        simp only [ruleFields, List.isEmpty_cons, Bool.false_eq_true, ↓reduceIte, addHead, true_or, List.append_assoc] at hr
        obtain ⟨a1, e1, r1⟩ := atom_addN (x :: r).length ⟨by simp, hhl⟩ a _ hr (sp_natsSp _ _ (by unfold addBody; simp only [List.append_assoc]; exact sp_addN _ _))
        obtain ⟨a2, e2, r2⟩ := atoms_rep (x :: r) hh a1 _ r1 (by unfold addBody; simp only [List.append_assoc]; exact sp_addN _ _)
        obtain ⟨a3, e3, r3⟩ := body_enc body hlb hb a2 _ r2 (sp_nl _)
        refine ⟨a3, ?_, r3⟩
        simp only [ruleRT, List.isEmpty_cons, Bool.false_eq_true, ↓reduceIte, canonRule]
        rw [ruleOf_3]
        simp only [e1, e2, e3, bind, Except.bind, pure, Except.pure]
      · have ht0 : ht = 0 := by omega
        subst ht0
        cases r with
        | nil =>
          simp only [ruleFields, List.isEmpty_cons, Bool.false_eq_true, ↓reduceIte, addHead, List.length_cons, List.length_nil, Nat.zero_add,
            gt_iff_lt, Nat.lt_irrefl, or_self, List.nil_append, natsSp_one, List.append_assoc, Nat.zero_ne_one] at hr
          obtain ⟨a1, e1, r1⟩ := atom_addN x (hh x (by simp)) a _ hr (by unfold addBody; simp only [List.append_assoc]; exact sp_addN _ _)
          obtain ⟨a2, e2, r2⟩ := body_enc body hlb hb a1 _ r1 (sp_nl _)
          refine ⟨a2, ?_, r2⟩
          simp only [ruleRT, List.isEmpty_cons, Bool.false_eq_true, ↓reduceIte, Nat.zero_ne_one, List.length_cons, List.length_nil, Nat.zero_add, canonRule]
          rw [ruleOf_1]
          simp only [e1, e2, bind, Except.bind, pure, Except.pure]
        | cons y r' =>
          have hgt : (x :: y :: r').length > 1 := by simp
          simp only [ruleFields, List.isEmpty_cons, Bool.false_eq_true, ↓reduceIte, addHead, hgt, or_true, List.append_assoc] at hr
          obtain ⟨a1, e1, r1⟩ := atom_addN (x :: y :: r').length ⟨by simp, hhl⟩ a _ hr (sp_natsSp _ _ (by unfold addBody; simp only [List.append_assoc]; exact sp_addN _ _))
          obtain ⟨a2, e2, r2⟩ := atoms_rep (x :: y :: r') hh a1 _ r1 (by unfold addBody; simp only [List.append_assoc]; exact sp_addN _ _)
          obtain ⟨a3, e3, r3⟩ := body_enc body hlb hb a2 _ r2 (sp_nl _)
          refine ⟨a3, ?_, r3⟩
          have hne : ¬ ((x :: y :: r').length = 1) := by simp
          simp only [ruleRT, List.isEmpty_cons, Bool.false_eq_true, ↓reduceIte, Nat.zero_ne_one, hne, canonRule]
          rw [ruleOf_8]
          simp only [e1, e2, e3, bind, Except.bind, pure, Except.pure]
  | sumRule ht head b ws =>
    obtain ⟨hht, hf, hlen, hh, hb, hlw, hws⟩ := hc
    subst hht
    have hbn : ((b.toNat : Nat) : Int) = b := by omega
    -- the (single) head atom
    obtain ⟨h, hh1, hok⟩ : ∃ h, (if head.isEmpty then [f] else head) = [h] ∧ atomOk h := by
      cases head with
      | nil => exact ⟨f, rfl, hf rfl⟩
      | cons x r =>
        cases r with
        | nil => exact ⟨x, rfl, hh x (by simp)⟩
        | cons y r' => simp at hlen
    have hhd : addHead 0 (if head.isEmpty then [f] else head) = addN h := by rw [hh1]; simp [addHead, natsSp]
    simp only [ruleFields, hhd, List.append_assoc] at hr
    by_cases hcard : isCard ws = true
    · rw [hcard, ← hbn] at hr
      obtain ⟨a1, e1, r1⟩ := atom_addN h hok a _ hr (by
        simp only [addSum, ↓reduceIte, List.nil_append, List.append_assoc]; exact sp_addN _ _)
      obtain ⟨a2, e2, r2⟩ := sum_enc_c b.toNat ws (by omega) hlw (fun p hp => ⟨(hws p hp).1, by
        have := List.all_eq_true.mp hcard p hp; simpa using this⟩) a1 _ r1 (sp_nl _)
      refine ⟨a2, ?_, r2⟩
      simp only [ruleRT, hcard, ↓reduceIte, canonRule, hh1]
      rw [ruleOf_2]
      simp only [e1, e2, bind, Except.bind, pure, Except.pure, hbn]
    · have hcard' : isCard ws = false := by simpa using hcard
      rw [hcard', ← hbn] at hr
      obtain ⟨a1, e1, r1⟩ := atom_addN h hok a _ hr (by
        simp only [addSum, Bool.false_eq_true, ↓reduceIte, List.append_assoc]; exact sp_addN _ _)
      obtain ⟨a2, e2, r2⟩ := sum_enc_w b.toNat ws (by omega) hlw (fun p hp => ⟨(hws p hp).1, by have := (hws p hp).2; omega⟩) a1 _ r1 (sp_nl _)
      refine ⟨a2, ?_, r2⟩
      simp only [ruleRT, hcard', Bool.false_eq_true, ↓reduceIte, canonRule, hh1]
      rw [ruleOf_5]
      simp only [e1, e2, bind, Except.bind, pure, Except.pure, hbn]
  | minimize p ws =>
    obtain ⟨hlw, hws⟩ := hc
    simp only [ruleFields] at hr
    obtain ⟨a1, e1, r1⟩ := sum_enc_w 0 ws (by omega) hlw hws a _ (by simpa using hr) (sp_nl _)
    refine ⟨a1, ?_, r1⟩
    simp only [ruleRT, canonRule]
    rw [ruleOf_6]
    simp only [e1, bind, Except.bind, pure, Except.pure]
  | external x v =>
    obtain ⟨he, hx, hv⟩ := hc
    subst he
    by_cases hv3 : v = 3
    · subst hv3
      simp only [ruleFields, ne_eq, not_true_eq_false, ↓reduceIte] at hr
      obtain ⟨a1, e1, r1⟩ := atom_addN x hx a _ hr (sp_nl _)
      refine ⟨a1, ?_, r1⟩
      simp only [ruleRT, ne_eq, not_true_eq_false, ↓reduceIte, canonRule]
      rw [ruleOf_92]
      simp only [e1, bind, Except.bind, pure, Except.pure]
    · have hv' : v = 0 ∨ v = 1 ∨ v = 2 := by omega
      simp only [ruleFields, ne_eq, hv3, not_false_eq_true, ↓reduceIte, List.append_assoc] at hr
      obtain ⟨a1, e1, r1⟩ := atom_addN x hx a _ hr (sp_addN _ _)
      obtain ⟨a2, e2, r2⟩ := posMax_addN 2 ((v ^^^ 3) - 1) (by rcases hv' with rfl | rfl | rfl <;> decide) (by decide) a1 _ r1 (sp_nl _)
      refine ⟨a2, ?_, r2⟩
      simp only [ruleRT, ne_eq, hv3, not_false_eq_true, ↓reduceIte, canonRule]
      have hvv : ((v ^^^ 3) - 1 ^^^ 3) - 1 = v := by rcases hv' with rfl | rfl | rfl <;> decide
      rw [ruleOf_91]
      simp only [e1, e2, bind, Except.bind, pure, Except.pure, hvv]
  | _ => exact absurd hc (by simp [RuleOk])

/-! ### the rule section as a whole -/

def rulesText (f : Nat) (rs : List Call) : List Nat := (rs.map (ruleText f)).flatten

def canonRules (f : Nat) : Nat → List Call → List Call
  | _, [] => []
  | prio, c :: cs => match canonRule f prio c with
    | (some c', p') => c' :: canonRules f p' cs
    | (none, p') => canonRules f p' cs

theorem canonRule_none (ext : Bool) (f prio : Nat) (c : Call) (hc : RuleOk ext f c) (h0 : ruleRT c = 0) : canonRule f prio c = (none, prio) := by
  cases c with
  | rule ht head body =>
    cases head with
    | nil => by_cases h1 : ht = 1
             · simp [canonRule, h1]
             · simp [ruleRT, h1] at h0
    | cons x r => by_cases h1 : ht = 1
                  · simp [ruleRT, h1] at h0
                  · cases r <;> simp [ruleRT, h1] at h0
  | sumRule ht head b ws => simp only [ruleRT] at h0; split at h0 <;> simp at h0
  | minimize p ws => simp [ruleRT] at h0
  | external x v => simp only [ruleRT] at h0; split at h0 <;> simp at h0
  | _ => exact absurd hc (by simp [RuleOk])

theorem sp_addHead_cons (ht x : Nat) (r k : List Nat) : Sp (addHead ht (x :: r) ++ k) := by
  unfold addHead
  split
  · rw [List.append_assoc]; exact sp_addN _ _
  · simp only [List.nil_append, natsSp, List.map_cons, List.flatten_cons, List.append_assoc]; exact sp_addN _ _

theorem sp_ruleFields (ext : Bool) (f : Nat) (c : Call) (hc : RuleOk ext f c) (k : List Nat) : Sp (ruleFields f c ++ k) := by
  cases c with
  | rule ht head body =>
    cases head with
    | nil => simp only [ruleFields, List.isEmpty_nil, ↓reduceIte, List.append_assoc]; exact sp_addHead_cons _ _ _ _
    | cons x r => simp only [ruleFields, List.isEmpty_cons, Bool.false_eq_true, ↓reduceIte, List.append_assoc]; exact sp_addHead_cons _ _ _ _
  | sumRule ht head b ws =>
    cases head with
    | nil => simp only [ruleFields, List.isEmpty_nil, ↓reduceIte, List.append_assoc]; exact sp_addHead_cons _ _ _ _
    | cons x r => simp only [ruleFields, List.isEmpty_cons, Bool.false_eq_true, ↓reduceIte, List.append_assoc]; exact sp_addHead_cons _ _ _ _
  | minimize p ws =>
    simp only [ruleFields, addSum, Bool.false_eq_true, ↓reduceIte, List.append_assoc]; exact sp_addN _ _
  | external x v =>
    simp only [ruleFields]; split
    · rw [List.append_assoc]; exact sp_addN _ _
    · exact sp_addN _ _
  | _ => exact absurd hc (by simp [RuleOk])

attribute [local irreducible] ruleOf pos in
theorem rulesLoop_succ (ext : Bool) (f : Nat) (a : AS) (prio : Nat) (acc : List Call) : rulesLoop ext (f + 1) a prio acc =
    (match pos a with
     | .error l => (acc.reverse, .error l)
     | .ok (rt, a1) =>
       if rt = 0 then (acc.reverse, .ok a1) else
       match ruleOf ext rt prio a1 with
       | .error l => (acc.reverse, .error l)
       | .ok ((c, prio'), a2) => rulesLoop ext f a2 prio' (match c with | some c => c :: acc | none => acc)) := rfl

theorem printNat_len (n : Nat) : 1 ≤ (printNat n).length := by
  have := printNat_ne_nil n
  cases h : printNat n with
  | nil => exact absurd h this
  | cons d r => simp

/-- the terminating `0` of a section, read with `pos` -/
theorem zero_line (a : AS) (ws k : List Nat) (hws : ∀ x ∈ ws, isWs x = true) (hr : a.rest = ws ++ (str "0" ++ nl ++ k)) :
    ∃ a', pos a = .ok (0, a') ∧ a'.rest = nl ++ k := by
  have e0 : str "0" = printNat 0 := by decide +kernel
  exact posMax_ws U32MAX 0 (by decide) (by decide) a ws (nl ++ k) hws (by rw [hr, e0]; simp) (sp_nl _)

theorem rulesLoop_rt (ext : Bool) (f : Nat) : ∀ (rs : List Call) (fuel : Nat) (a : AS) (prio : Nat) (acc : List Call) (ws k : List Nat),
    a.rest.length < fuel → (∀ c ∈ rs, RuleOk ext f c) → (∀ x ∈ ws, isWs x = true) →
    a.rest = ws ++ (rulesText f rs ++ (str "0" ++ nl ++ k)) →
    ∃ a', rulesLoop ext fuel a prio acc = (acc.reverse ++ canonRules f prio rs, .ok a') ∧ a'.rest = nl ++ k := by
  intro rs
  induction rs with
  | nil =>
    intro fuel a prio acc ws k hf _ hws hr
    obtain ⟨f', rfl⟩ : ∃ f', fuel = f' + 1 := ⟨fuel - 1, by omega⟩
    obtain ⟨a1, e1, r1⟩ := zero_line a ws k hws (by simpa [rulesText] using hr)
    exact ⟨a1, by rw [rulesLoop_succ, e1]; simp [canonRules], r1⟩
  | cons c rs ih =>
    intro fuel a prio acc ws k hf hok hws hr
    have hc := hok c (by simp)
    have hrs : ∀ x ∈ rs, RuleOk ext f x := fun x hx => hok x (by simp [hx])
    by_cases h0 : ruleRT c = 0
    · have ht : ruleText f c = [] := by simp [ruleText, h0]
      have hcn := canonRule_none ext f prio c hc h0
      obtain ⟨a1, e1, r1⟩ := ih fuel a prio acc ws k hf hrs hws (by rw [hr]; simp [rulesText, ht])
      refine ⟨a1, ?_, r1⟩
      rw [e1]; simp [canonRules, hcn]
    · obtain ⟨f', rfl⟩ : ∃ f', fuel = f' + 1 := ⟨fuel - 1, by omega⟩
      have ht : ruleText f c = printNat (ruleRT c) ++ ruleFields f c ++ nl := by simp [ruleText, h0]
      have hrt : ruleRT c ≤ U32MAX := by
        cases c <;> simp only [ruleRT] <;> (repeat' split) <;> decide
      have hr' : a.rest = ws ++ (printNat (ruleRT c) ++ (ruleFields f c ++ (nl ++ (rulesText f rs ++ (str "0" ++ nl ++ k))))) := by
        rw [hr]; simp [rulesText, ht]
      obtain ⟨a1, e1, r1⟩ := posMax_ws U32MAX (ruleRT c) hrt (by decide) a ws _ hws hr' (sp_ruleFields ext f c hc _)
      obtain ⟨a2, e2, r2⟩ := ruleLine_rt ext f prio c hc h0 a1 _ r1
      have hlen : a2.rest.length < f' := by
        have := printNat_len (ruleRT c)
        rw [hr'] at hf
        rw [r2]
        simp only [List.length_append] at hf ⊢
        omega
      have hpos : pos a = .ok (ruleRT c, a1) := e1
      rcases hcr : canonRule f prio c with ⟨_ | c', p'⟩
      · obtain ⟨a3, e3, r3⟩ := ih f' a2 p' acc nl k hlen hrs nl_ws r2
        refine ⟨a3, ?_, r3⟩
        rw [rulesLoop_succ, hpos]
        simp only [h0, ↓reduceIte, e2, hcr, e3, canonRules]
      · obtain ⟨a3, e3, r3⟩ := ih f' a2 p' (c' :: acc) nl k hlen hrs nl_ws r2
        refine ⟨a3, ?_, r3⟩
        rw [rulesLoop_succ, hpos]
        simp only [h0, ↓reduceIte, e2, hcr, e3, canonRules]
        simp

/-- the incremental marker `90 0` at the start of a step -/
theorem rulesLoop_inc (f : Nat) (a : AS) (prio : Nat) (acc : List Call) (k : List Nat) (hr : a.rest = str "90 0" ++ nl ++ k) :
    ∃ a', rulesLoop true (f + 1) a prio acc = rulesLoop true f a' prio acc ∧ a'.rest = nl ++ k := by
  have e : str "90 0" = printNat 90 ++ addN 0 := by decide +kernel
  obtain ⟨a1, e1, r1⟩ := posMax_ws U32MAX 90 (by decide) (by decide) a [] (addN 0 ++ (nl ++ k)) (by simp) (by rw [hr, e]; simp) (sp_addN _ _)
  obtain ⟨a2, e2, r2⟩ := pos_addN 0 (by decide) a1 _ r1 (sp_nl _)
  refine ⟨a2, ?_, r2⟩
  have hpos : pos a = .ok (90, a1) := e1
  rw [rulesLoop_succ, hpos]
  simp only [show ¬ ((90 : Nat) = 0) by decide, ↓reduceIte, ruleOf_90, e2, bind, Except.bind, pure, Except.pure, ne_eq, not_true_eq_false]

/-! ### the symbol table -/

def OutOk : Call → Prop
  | .output name [l] => 0 < l ∧ l ≤ 2147483647 ∧ ∀ c ∈ name, c ≠ 0 ∧ c ≠ 10 ∧ c ≠ 13
  | _ => False

def symText : Call → List Nat
  | .output name [l] => printNat l.toNat ++ sp ++ name ++ nl
  | _ => []

def symsText (outs : List Call) : List Nat := (outs.map symText).flatten

theorem nameLoop_rt : ∀ (name : List Nat) (fuel : Nat) (a : AS) (acc k : List Nat), name.length < fuel →
    (∀ c ∈ name, c ≠ 0 ∧ c ≠ 10 ∧ c ≠ 13) → a.rest = name ++ (nl ++ k) →
    ∃ a', nameLoop fuel a acc = .ok (acc.reverse ++ name, a') ∧ a'.rest = k := by
  intro name
  induction name with
  | nil =>
    intro fuel a acc k hf _ hr
    obtain ⟨f', rfl⟩ : ∃ f', fuel = f' + 1 := ⟨fuel - 1, by simp at hf; omega⟩
    have hg := get_plain' a k (by simpa using hr)
    exact ⟨{ rest := k, line := a.line + 1, canUnget := true }, by simp [nameLoop, hg], rfl⟩
  | cons c r ih =>
    intro fuel a acc k hf hok hr
    obtain ⟨f', rfl⟩ : ∃ f', fuel = f' + 1 := ⟨fuel - 1, by simp at hf; omega⟩
    have hc := hok c (by simp)
    have hg := get_plain a c (r ++ (nl ++ k)) (by simpa using hr) hc.1 hc.2.2 hc.2.1
    obtain ⟨a1, e1, r1⟩ := ih f' { rest := r ++ (nl ++ k), line := a.line, canUnget := true } (c :: acc) k (by simp at hf; omega)
      (fun x hx => hok x (by simp [hx])) rfl
    refine ⟨a1, ?_, r1⟩
    simp only [nameLoop, hg, beq_iff_eq, hc.2.1, ↓reduceIte, hc.1, e1]
    simp

attribute [local irreducible] nameLoop posMax in
theorem symbolsLoop_succ (f : Nat) (a : AS) (acc : List Call) : symbolsLoop (f + 1) a acc =
    (match posMax Gen.atomMax a with
     | .error l => (acc.reverse, .error l)
     | .ok (x, a1) =>
       if x = 0 then (acc.reverse, .ok a1) else
       match nameLoop ((a1.get.2).rest.length + 1) a1.get.2 [] with
       | .error l => (acc.reverse, .error l)
       | .ok (nm, a3) => symbolsLoop f a3 (.output nm [(x : Int)] :: acc)) := rfl

theorem zero_line' (m : Nat) (hm : m ≤ I64MAX) (a : AS) (ws k : List Nat) (hws : ∀ x ∈ ws, isWs x = true) (hr : a.rest = ws ++ (str "0" ++ nl ++ k)) :
    ∃ a', posMax m a = .ok (0, a') ∧ a'.rest = nl ++ k := by
  have e0 : str "0" = printNat 0 := by decide +kernel
  exact posMax_ws m 0 (by omega) hm a ws (nl ++ k) hws (by rw [hr, e0]; simp) (sp_nl _)

theorem symbolsLoop_rt : ∀ (outs : List Call) (fuel : Nat) (a : AS) (acc : List Call) (ws k : List Nat), outs.length < fuel →
    (∀ c ∈ outs, OutOk c) → (∀ x ∈ ws, isWs x = true) → a.rest = ws ++ (symsText outs ++ (str "0" ++ nl ++ k)) →
    ∃ a', symbolsLoop fuel a acc = (acc.reverse ++ outs, .ok a') ∧ a'.rest = nl ++ k := by
  intro outs
  induction outs with
  | nil =>
    intro fuel a acc ws k hf _ hws hr
    obtain ⟨f', rfl⟩ : ∃ f', fuel = f' + 1 := ⟨fuel - 1, by simp at hf; omega⟩
    obtain ⟨a1, e1, r1⟩ := zero_line' Gen.atomMax (by decide) a ws k hws (by simpa [symsText] using hr)
    exact ⟨a1, by rw [symbolsLoop_succ, e1]; simp, r1⟩
  | cons c outs ih =>
    intro fuel a acc ws k hf hok hws hr
    obtain ⟨f', rfl⟩ : ∃ f', fuel = f' + 1 := ⟨fuel - 1, by simp at hf; omega⟩
    have hc := hok c (by simp)
    cases c with
    | output name cond =>
      rcases cond with _ | ⟨l, _ | ⟨l2, r⟩⟩
      · exact absurd hc (by simp [OutOk])
      · obtain ⟨hl0, hl1, hname⟩ := hc
        have hr' : a.rest = ws ++ (printNat l.toNat ++ (sp ++ (name ++ (nl ++ (symsText outs ++ (str "0" ++ nl ++ k)))))) := by
          rw [hr]; simp [symsText, symText]
        have hA : Gen.atomMax = 2147483647 := rfl
        obtain ⟨a1, e1, r1⟩ := posMax_ws Gen.atomMax l.toNat (by rw [hA]; omega) (by decide) a ws _ hws hr'
          (by intro c r e; simp [sp] at e; exact Or.inl e.1.symm)
        have hg := get_plain a1 32 (name ++ (nl ++ (symsText outs ++ (str "0" ++ nl ++ k)))) (by simpa [sp] using r1) (by decide) (by decide) (by decide)
        obtain ⟨a3, e3, r3⟩ := nameLoop_rt name ((a1.get.2).rest.length + 1) a1.get.2 [] (symsText outs ++ (str "0" ++ nl ++ k))
          (by rw [hg]; simp; omega) hname (by rw [hg])
        obtain ⟨a4, e4, r4⟩ := ih f' a3 (.output name [((l.toNat : Nat) : Int)] :: acc) [] k (by simp at hf; omega)
          (fun x hx => hok x (by simp [hx])) (by simp) (by simpa using r3)
        refine ⟨a4, ?_, r4⟩
        have hne : ¬ (l.toNat = 0) := by omega
        have hl : ((l.toNat : Nat) : Int) = l := by omega
        rw [symbolsLoop_succ, e1]
        simp only [hne, ↓reduceIte, e3, List.reverse_nil, List.nil_append]
        rw [e4, hl]
        simp
      · exact absurd hc (by simp [OutOk])
    | _ => exact absurd hc (by simp [OutOk])

/-! ### compute statement and the end of a step -/

def linesOf (xs : List Nat) : List Nat := (xs.map ln).flatten

attribute [local irreducible] posMax in
theorem computeLoop_succ (val : Bool) (f : Nat) (a : AS) (acc : List Call) : computeLoop val (f + 1) a acc =
    (match posMax Gen.atomMax a with
     | .error l => (acc.reverse, .error l)
     | .ok (x, a1) =>
       if x = 0 then (acc.reverse, .ok a1) else
       computeLoop val f a1 (.rule 0 [] [if val then -(x : Int) else (x : Int)] :: acc)) := rfl

theorem computeLoop_rt (val : Bool) : ∀ (xs : List Nat) (fuel : Nat) (a : AS) (acc : List Call) (ws k : List Nat), xs.length < fuel →
    (∀ x ∈ xs, atomOk x) → (∀ x ∈ ws, isWs x = true) → a.rest = ws ++ (linesOf xs ++ (str "0" ++ nl ++ k)) →
    ∃ a', computeLoop val fuel a acc = (acc.reverse ++ xs.map (fun x => .rule 0 [] [if val then -(x : Int) else (x : Int)]), .ok a') ∧ a'.rest = nl ++ k := by
  intro xs
  induction xs with
  | nil =>
    intro fuel a acc ws k hf _ hws hr
    obtain ⟨f', rfl⟩ : ∃ f', fuel = f' + 1 := ⟨fuel - 1, by simp at hf; omega⟩
    obtain ⟨a1, e1, r1⟩ := zero_line' Gen.atomMax (by decide) a ws k hws (by simpa [linesOf] using hr)
    exact ⟨a1, by rw [computeLoop_succ, e1]; simp, r1⟩
  | cons x xs ih =>
    intro fuel a acc ws k hf hok hws hr
    obtain ⟨f', rfl⟩ : ∃ f', fuel = f' + 1 := ⟨fuel - 1, by simp at hf; omega⟩
    have hx := hok x (by simp)
    have hA : Gen.atomMax = 2147483647 := rfl
    obtain ⟨a1, e1, r1⟩ := posMax_ws Gen.atomMax x (by rw [hA]; exact hx.2) (by decide) a ws (nl ++ (linesOf xs ++ (str "0" ++ nl ++ k))) hws
      (by rw [hr]; simp [linesOf, ln]) (sp_nl _)
    obtain ⟨a2, e2, r2⟩ := ih f' a1 (.rule 0 [] [if val then -(x : Int) else (x : Int)] :: acc) nl k (by simp at hf; omega)
      (fun y hy => hok y (by simp [hy])) nl_ws r1
    refine ⟨a2, ?_, r2⟩
    have hne : ¬ (x = 0) := by unfold atomOk at hx; omega
    rw [computeLoop_succ, e1]
    simp only [hne, ↓reduceIte, e2]
    simp

theorem lines_length (xs : List Nat) : xs.length ≤ (linesOf xs).length := by
  induction xs with
  | nil => simp
  | cons y ys ih =>
    have : linesOf (y :: ys) = ln y ++ linesOf ys := by simp [linesOf]
    rw [this, List.length_append, List.length_cons]
    have : 1 ≤ (ln y).length := by simp [ln, nl]
    omega

/-- `B+` / `B-` with its atoms -/
theorem compute_rt (tok : List Nat) (val : Bool) (xs : List Nat) (a : AS) (ws k : List Nat) (hws : ∀ x ∈ ws, isWs x = true)
    (htok : ∃ c r, tok = c :: r ∧ isWs c = false) (hxs : ∀ x ∈ xs, atomOk x)
    (hr : a.rest = ws ++ (tok ++ (nl ++ (linesOf xs ++ (str "0" ++ nl ++ k))))) :
    ∃ a', compute tok val a = (xs.map (fun x => .rule 0 [] [if val then -(x : Int) else (x : Int)]), .ok a') ∧ a'.rest = nl ++ k := by
  obtain ⟨c0, r0, htk, hc0⟩ := htok
  have hsk : a.skipWs.rest = tok ++ (nl ++ (linesOf xs ++ (str "0" ++ nl ++ k))) :=
    skipWs_spec a ws _ hr hws (by intro c r e; rw [htk] at e; simp at e; rw [← e.1]; exact hc0)
  have hpre : tok.isPrefixOf a.skipWs.rest = true := by rw [hsk]; simp
  let a1 : AS := { a.skipWs with rest := a.skipWs.rest.drop tok.length, canUnget := true }
  have r1 : a1.rest = nl ++ (linesOf xs ++ (str "0" ++ nl ++ k)) := by simp [a1, hsk]
  have hg := get_plain' a1 _ r1
  have hmt : a.skipWs.matchTok tok = (true, a1) := by simp [AS.matchTok, hpre, a1]
  obtain ⟨a3, e3, r3⟩ := computeLoop_rt val xs ((a1.get.2).rest.length + 1) a1.get.2 [] [] k (by
      rw [hg]
      have := lines_length xs
      simp only [List.length_append]; omega) hxs (by simp) (by rw [hg]; rfl)
  refine ⟨a3, ?_, r3⟩
  unfold compute
  rw [hg] at e3
  simp only [hmt, Bool.not_true, Bool.false_eq_true, ↓reduceIte, hg, ne_eq, not_true_eq_false]
  simpa using e3

/-- no `E` section: the number of models closes the step -/
theorem extra_rt (a : AS) (ws k : List Nat) (hws : ∀ x ∈ ws, isWs x = true) (hr : a.rest = ws ++ (str "1" ++ nl ++ k)) :
    ∃ a', extra a = ([], .ok a') ∧ a'.rest = nl ++ k := by
  have e1 : str "1" = [49] := by decide +kernel
  have hsk : a.skipWs.rest = str "1" ++ nl ++ k := skipWs_spec a ws _ (by rw [hr]) hws (by intro c r e; rw [e1] at e; simp at e; rw [← e.1]; decide)
  have hnp : ([69] : List Nat).isPrefixOf a.skipWs.rest = false := by rw [hsk, e1]; rfl
  have e1' : str "1" = printNat 1 := by decide +kernel
  obtain ⟨a3, e3, r3⟩ := posMax_ws U32MAX 1 (by decide) (by decide) ({ a.skipWs with canUnget := false } : AS) [] (nl ++ k) (by simp)
    (by simp [hsk, e1']) (sp_nl _)
  refine ⟨a3, ?_, r3⟩
  unfold extra AS.matchTok
  have hpos : pos ({ a.skipWs with canUnget := false } : AS) = .ok (1, a3) := e3
  simp only [hnp, Bool.false_eq_true, ↓reduceIte, hpos]

/-! ### one step -/

/-- a step as the writer's ordering admits it: rule section, symbol table, at most one compute statement -/
structure Step where
  rs   : List Call
  outs : List Call
  asm  : Option (List Int)

def asmCalls : Option (List Int) → List Call
  | some l => [.assume l]
  | none => []

def Step.calls (s : Step) : List Call := [.beginStep] ++ s.rs ++ s.outs ++ asmCalls s.asm ++ [.endStep]

structure StepOk (ext : Bool) (f : Nat) (s : Step) : Prop where
  rules : ∀ c ∈ s.rs, RuleOk ext f c
  outs  : ∀ c ∈ s.outs, OutOk c
  asm   : ∀ l, s.asm = some l → ∀ x ∈ l, litOk x

def Step.lits (s : Step) : List Int := s.asm.getD []
def Step.fHead (s : Step) : Bool := s.rs.any usesFalse
/-- atoms listed under `B+` and under `B-` (the false atom last, when an integrity constraint used it) -/
def Step.bPlus (s : Step) : List Nat := (s.lits.filter (· > 0)).map Int.natAbs
def Step.bMinus (f : Nat) (s : Step) : List Nat := (s.lits.filter (· < 0)).map Int.natAbs ++ (if s.fHead && f != 0 then [f] else [])

/-- symbol table, compute statement and model count of a step, followed by `k` -/
def tailText (f : Nat) (s : Step) (k : List Nat) : List Nat :=
  symsText s.outs ++ (str "0" ++ nl ++ ([66, 43] ++ (nl ++ (linesOf s.bPlus ++ (str "0" ++ nl ++ ([66, 45] ++ (nl ++
    (linesOf (s.bMinus f) ++ (str "0" ++ nl ++ (str "1" ++ nl ++ k))))))))))

def stepTextK (ext inc : Bool) (f : Nat) (s : Step) (k : List Nat) : List Nat :=
  (if ext && inc then str "90 0" ++ nl else []) ++ (rulesText f s.rs ++ (str "0" ++ nl ++ tailText f s k))

def stepText (ext inc : Bool) (f : Nat) (s : Step) : List Nat := stepTextK ext inc f s []

theorem stepText_append (ext inc : Bool) (f : Nat) (s : Step) (k : List Nat) : stepText ext inc f s ++ k = stepTextK ext inc f s k := by
  simp [stepText, stepTextK, tailText, List.append_assoc]

/-- what reading a written step delivers between `beginStep` and `endStep` -/
def canonStep (f : Nat) (s : Step) : List Call :=
  canonRules f 0 s.rs ++ s.outs ++ s.bPlus.map (fun x => .rule 0 [] [-(x : Int)]) ++ (s.bMinus f).map (fun x => .rule 0 [] [(x : Int)])

theorem syms_length (outs : List Call) (h : ∀ c ∈ outs, OutOk c) : outs.length ≤ (symsText outs).length := by
  induction outs with
  | nil => simp
  | cons c r ih =>
    have := ih (fun x hx => h x (by simp [hx]))
    have e : symsText (c :: r) = symText c ++ symsText r := by simp [symsText]
    rw [e, List.length_append, List.length_cons]
    have : 1 ≤ (symText c).length := by
      have hc := h c (by simp)
      cases c with
      | output name cond =>
        rcases cond with _ | ⟨l, _ | ⟨l2, r⟩⟩
        · exact absurd hc (by simp [OutOk])
        · have := printNat_len l.toNat
          simp only [symText, nl, List.length_append]; omega
        · exact absurd hc (by simp [OutOk])
      | _ => exact absurd hc (by simp [OutOk])
    omega

theorem bPlus_ok (s : Step) (h : ∀ l, s.asm = some l → ∀ x ∈ l, litOk x) : ∀ x ∈ s.bPlus, atomOk x := by
  intro x hx
  simp only [Step.bPlus, List.mem_map, List.mem_filter] at hx
  obtain ⟨l, ⟨hl, _⟩, rfl⟩ := hx
  cases ha : s.asm with
  | none => simp [Step.lits, ha] at hl
  | some ls => exact litOk_atom (h ls ha l (by simpa [Step.lits, ha] using hl))

theorem bMinus_ok (ext : Bool) (f : Nat) (s : Step) (h : StepOk ext f s) : ∀ x ∈ s.bMinus f, atomOk x := by
  intro x hx
  simp only [Step.bMinus, List.mem_append, List.mem_map, List.mem_filter] at hx
  rcases hx with ⟨l, ⟨hl, _⟩, rfl⟩ | hx
  · cases ha : s.asm with
    | none => simp [Step.lits, ha] at hl
    | some ls => exact litOk_atom (h.asm ls ha l (by simpa [Step.lits, ha] using hl))
  · split at hx
    · rename_i hc
      simp only [List.mem_singleton] at hx; subst hx
      simp only [Bool.and_eq_true, Step.fHead, List.any_eq_true, bne_iff_ne, ne_eq] at hc
      obtain ⟨⟨c, hc1, hc2⟩, _⟩ := hc
      have hr := h.rules c hc1
      cases c with
      | rule ht head body =>
        simp only [usesFalse, Bool.and_eq_true, List.isEmpty_iff, bne_iff_ne, ne_eq] at hc2
        rcases hr.2.2.2.2.2 hc2.1 with h1 | h1
        · exact absurd h1 hc2.2
        · exact h1
      | sumRule ht head b ws =>
        simp only [usesFalse, List.isEmpty_iff] at hc2
        exact hr.2.1 hc2
      | _ => simp [usesFalse] at hc2
    · simp at hx

/-- the reader on the text of one step -/
theorem step_rt (ext inc : Bool) (f : Nat) (s : Step) (h : StepOk ext f s) (hinc : inc = true → ext = true) (a : AS) (k : List Nat)
    (hr : a.rest = stepText ext inc f s ++ k) :
    ∃ a', SmodelsIn.step ext a = (canonStep f s, .ok a') ∧ a'.rest = nl ++ k := by
  rw [stepText_append] at hr
  -- the rule section (after the incremental marker, if any)
  obtain ⟨a1, e1, r1⟩ : ∃ a1, rulesLoop ext (a.rest.length + 1) a 0 [] = (canonRules f 0 s.rs, .ok a1) ∧ a1.rest = nl ++ tailText f s k := by
    by_cases hi : (ext && inc) = true
    · have hext : ext = true := by simp only [Bool.and_eq_true] at hi; exact hi.1
      subst hext
      simp only [stepTextK, hi, ↓reduceIte] at hr
      obtain ⟨a0, e0, r0⟩ := rulesLoop_inc a.rest.length a 0 [] (rulesText f s.rs ++ (str "0" ++ nl ++ tailText f s k)) (by rw [hr])
      obtain ⟨a1, e1, r1⟩ := rulesLoop_rt true f s.rs a.rest.length a0 0 [] nl (tailText f s k)
        (by rw [r0, hr]; simp only [List.length_append]; have : 1 ≤ (str "90 0").length := by decide +kernel
            omega) h.rules nl_ws r0
      exact ⟨a1, by rw [e0, e1]; simp, r1⟩
    · have hi' : (ext && inc) = false := by simpa using hi
      simp only [stepTextK, hi', Bool.false_eq_true, ↓reduceIte, List.nil_append] at hr
      obtain ⟨a1, e1, r1⟩ := rulesLoop_rt ext f s.rs (a.rest.length + 1) a 0 [] [] (tailText f s k) (by omega) h.rules (by simp) (by rw [hr]; simp)
      exact ⟨a1, by rw [e1]; simp, r1⟩
  unfold tailText at r1
  obtain ⟨a2, e2, r2⟩ := symbolsLoop_rt s.outs (a1.rest.length + 1) a1 [] nl _ (by
      have := syms_length s.outs h.outs
      rw [r1]; simp only [List.length_append]; omega) h.outs nl_ws r1
  obtain ⟨a3, e3, r3⟩ := compute_rt [66, 43] true s.bPlus a2 nl _ nl_ws ⟨66, [43], rfl, by decide⟩ (bPlus_ok s h.asm) r2
  obtain ⟨a4, e4, r4⟩ := compute_rt [66, 45] false (s.bMinus f) a3 nl _ nl_ws ⟨66, [45], rfl, by decide⟩ (bMinus_ok ext f s h) r3
  obtain ⟨a5, e5, r5⟩ := extra_rt a4 nl k nl_ws (by rw [r4])
  refine ⟨a5, ?_, r5⟩
  unfold SmodelsIn.step
  simp only [e1, e2, e3, e4, e5, List.reverse_nil, List.nil_append, List.append_nil, canonStep]
  simp

/-! ### the writer on a step, in closed form -/

theorem run_append (ext : Bool) (f : Nat) : ∀ (xs ys : List Call) (w : W),
    run ext f w (xs ++ ys) = (match run ext f w xs with | .error e => .error e | .ok w' => run ext f w' ys) := by
  intro xs
  induction xs with
  | nil => intro ys w; rfl
  | cons c r ih =>
    intro ys w
    simp only [List.cons_append, run]
    cases SmodelsOut.step ext f w c with
    | error e => rfl
    | ok w' => exact ih ys w'

theorem run_rules (ext : Bool) (f : Nat) : ∀ (rs : List Call) (w : W), w.sec = 0 → (∀ c ∈ rs, RuleOk ext f c) →
    run ext f w rs = .ok ({ w with fHead := w.fHead || rs.any usesFalse }.put (rulesText f rs)) := by
  intro rs
  induction rs with
  | nil => intro w _ _; simp [run, rulesText, W.put]
  | cons c r ih =>
    intro w hs hok
    simp only [run]
    rw [step_rule ext f w c hs (hok c (by simp))]
    simp only
    rw [ih _ (by simp [W.put, hs]) (fun x hx => hok x (by simp [hx]))]
    simp [W.put, rulesText, Bool.or_assoc]

theorem run_outs (ext : Bool) (f : Nat) : ∀ (outs : List Call) (w : W), w.sec = 1 → (∀ c ∈ outs, OutOk c) →
    run ext f w outs = .ok (w.put (symsText outs)) := by
  intro outs
  induction outs with
  | nil => intro w _ _; simp [run, symsText, W.put]
  | cons c r ih =>
    intro w hs hok
    have hc := hok c (by simp)
    cases c with
    | output name cond =>
      rcases cond with _ | ⟨l, _ | ⟨l2, r'⟩⟩
      · exact absurd hc (by simp [OutOk])
      · obtain ⟨hl0, _, _⟩ := hc
        have hl : ¬ l ≤ 0 := by omega
        simp only [run, SmodelsOut.step, hs, gt_iff_lt, Nat.lt_irrefl, ↓reduceIte, hl, Nat.succ_ne_zero]
        rw [ih _ (by simp [W.put, hs]) (fun x hx => hok x (by simp [hx]))]
        simp [W.put, symsText, symText]
      · exact absurd hc (by simp [OutOk])
    | _ => exact absurd hc (by simp [OutOk])

theorem strs : str "0\n" = str "0" ++ nl ∧ str "B+\n" = [66, 43] ++ nl ∧ str "0\nB-\n" = str "0" ++ nl ++ ([66, 45] ++ nl) ∧
    str "1\n" = str "1" ++ nl ∧ str "90 0\n" = str "90 0" ++ nl := by decide +kernel

theorem linesOf_append (xs ys : List Nat) : linesOf (xs ++ ys) = linesOf xs ++ linesOf ys := by simp [linesOf]

/-- symbol table (if any), compute statement and end of the step, from the state the rule section leaves -/
theorem run_tail (ext : Bool) (f : Nat) (s : Step) (w : W) (hs : w.sec = 0) (hf : w.fHead = s.fHead) (hok : ∀ c ∈ s.outs, OutOk c) :
    run ext f w (s.outs ++ asmCalls s.asm ++ [.endStep]) =
      .ok { out := w.out ++ (str "0" ++ nl ++ tailText f s []), sec := 2, fHead := w.fHead, inc := w.inc } := by
  obtain ⟨z0, zb, zm, z1, _⟩ := strs
  -- the state after the symbol table and the number of section terminators still to be written
  obtain ⟨w1, e1, ho, hsec, hfh, hinc⟩ : ∃ w1, run ext f w s.outs = .ok w1 ∧
      w1.out ++ (List.replicate (2 - w1.sec) (str "0\n")).flatten = w.out ++ (str "0" ++ nl ++ (symsText s.outs ++ (str "0" ++ nl))) ∧
      w1.sec < 2 ∧ w1.fHead = w.fHead ∧ w1.inc = w.inc := by
    cases ho : s.outs with
    | nil => exact ⟨w, rfl, by simp [hs, symsText, z0, List.replicate], by omega, rfl, rfl⟩
    | cons c r =>
      have hc := hok c (by simp [ho])
      cases c with
      | output name cond =>
        rcases cond with _ | ⟨l, _ | ⟨l2, r'⟩⟩
        · exact absurd hc (by simp [OutOk])
        · obtain ⟨hl0, _, _⟩ := hc
          have hl : ¬ l ≤ 0 := by omega
          refine ⟨(({ (w.put (str "0\n")) with sec := 1 } : W).put (symText (.output name [l]))).put (symsText r), ?_, ?_, ?_, ?_, ?_⟩
          · simp only [run, SmodelsOut.step, hs, gt_iff_lt, Nat.not_lt_zero, ↓reduceIte, hl]
            rw [run_outs ext f r _ (by simp [W.put]) (fun x hx => hok x (by simp [ho, hx]))]
            simp [W.put, symText]
          · simp [W.put, symsText, z0, List.replicate]
          · simp [W.put]
          · simp [W.put]
          · simp [W.put]
        · exact absurd hc (by simp [OutOk])
      | _ => exact absurd hc (by simp [OutOk])
  rw [List.append_assoc, run_append, e1]
  simp only
  have hfinal : ∀ lits, lits = s.lits → (match doAssume f w1 lits with | .error e => Except.error e | .ok w2 => Except.ok (w2.put (str "1\n"))) =
      .ok { out := w.out ++ (str "0" ++ nl ++ tailText f s []), sec := 2, fHead := w.fHead, inc := w.inc } := by
    intro lits hl
    have hns : ¬ (w1.sec ≥ 2) := by omega
    simp only [doAssume, hns, ↓reduceIte, W.put, computeText, hfh, hf, hinc]
    congr 1
    · rw [List.append_assoc, List.append_assoc, ← List.append_assoc w1.out, ho]
      simp only [tailText, Step.bPlus, Step.bMinus, linesOf_append, hl, zb, zm, z0, z1, List.append_assoc, List.map_map, linesOf]
      congr 5
      split <;> simp [ln, Function.comp_def]
  cases ha : s.asm with
  | some l =>
    have hl : l = s.lits := by simp [Step.lits, ha]
    have := hfinal l hl
    simp only [asmCalls, List.cons_append, List.nil_append, run, SmodelsOut.step]
    cases hd : doAssume f w1 l with
    | error e => rw [hd] at this; cases this
    | ok w2 =>
      rw [hd] at this
      have h2 : w2.sec = 2 := by
        have hns : ¬ (w1.sec ≥ 2) := by omega
        simp only [doAssume, hns, ↓reduceIte] at hd
        cases hd; rfl
      simp only [h2, Nat.lt_irrefl, ↓reduceIte]
      exact this
  | none =>
    have hl : ([] : List Int) = s.lits := by simp [Step.lits, ha]
    have := hfinal [] hl
    simp only [asmCalls, List.nil_append, run, SmodelsOut.step, hsec, ↓reduceIte]
    cases hd : doAssume f w1 [] with
    | error e => rw [hd] at this; cases this
    | ok w2 => rw [hd] at this; simpa using this

end PotasscoVerif.SmRT
