/-
  A whole program step of the converter model: the invariants of Lemmas/ConvertSem.lean from `initProgram` to `endStep`,
  the externals compiled away at the end of the step, and the passage to the abstract translation of Lemmas/AspTrans.lean.
-/
import PotasscoVerif.Lemmas.ConvertFlags
namespace PotasscoVerif.C02
open PotasscoVerif PotasscoVerif.Convert PotasscoVerif.Asp

/-! ### externals at the end of a step (without the clasp extension they become rules) -/
def minOf : Call → Option (Int × List (Int × Int))
  | .minimize p ls => some (p, ls)
  | _ => none
def minsOf (cs : List Call) : List (Int × List (Int × Int)) := cs.filterMap minOf
theorem minsOf_append (a b : List Call) : minsOf (a ++ b) = minsOf a ++ minsOf b := by simp [minsOf]

def sm (c : CS) (a : Nat) : Nat := match c.find a with | some x => x.smId | none => 0
def factsOf (c : CS) : List Nat := c.externs.filter (fun a => !hd c a && ex c a == 1)
def freeOf (c : CS) : List Nat := c.externs.filter (fun a => !hd c a && ex c a == 0)
def extCallsOut (c : CS) : List Call :=
  (factsOf c).map (fun a => Call.rule 0 [sm c a] []) ++ (if (freeOf c).isEmpty then [] else [Call.rule 1 ((freeOf c).map (sm c)) []])

theorem with_out_nil (c0 : CS) : { c0 with out := c0.out ++ [] } = c0 := by cases c0; simp

theorem flushExternal_spec (c : CS) (he : c.ext = false) (hm : ∀ a ∈ c.externs, (c.find a).isSome = true) :
    c.flushExternal = { c with out := c.out ++ extCallsOut c } := by
  unfold CS.flushExternal
  have gen : ∀ (l : List Nat) (c0 : CS) (acc : List Nat), c0.atoms = c.atoms → c0.ext = false → (∀ a ∈ l, (c.find a).isSome = true) →
      l.foldl (fun (st : CS × List Nat) a =>
        let m := st.1.mapAtom a
        if !st.1.ext then
          if m.2.head then (m.1, st.2)
          else if m.2.extn == 0 then (m.1, st.2 ++ [m.2.smId])
          else if m.2.extn == 1 then (m.1.emit (.rule 0 [m.2.smId] []), st.2)
          else (m.1, st.2)
        else (m.1.emit (.external m.2.smId m.2.extn), st.2)) (c0, acc)
        = ({ c0 with out := c0.out ++ (l.filter (fun a => !hd c a && ex c a == 1)).map (fun a => Call.rule 0 [sm c a] []) },
           acc ++ (l.filter (fun a => !hd c a && ex c a == 0)).map (sm c)) := by
    intro l
    induction l with
    | nil => intro c0 acc _ _ _; simp [with_out_nil]
    | cons a r ih =>
      intro c0 acc hat hext hml
      obtain ⟨x, hx⟩ := Option.isSome_iff_exists.mp (hml a (by simp))
      have hmap : c0.mapAtom a = (c0, x) := by
        unfold CS.mapAtom
        have : c0.find a = some x := by unfold CS.find at hx ⊢; rw [hat]; exact hx
        rw [this]
      have hhd : hd c a = x.head := by unfold hd; rw [hx]
      have hex : ex c a = x.extn := by unfold ex; rw [hx]
      have hsm : sm c a = x.smId := by unfold sm; rw [hx]
      have hr := fun b hb => hml b (List.mem_cons_of_mem _ hb)
      simp only [List.foldl_cons, hmap, hext, Bool.not_false, ↓reduceIte]
      by_cases h1 : x.head = true
      · simp only [h1, ↓reduceIte]
        rw [ih c0 acc hat hext hr]
        simp [List.filter_cons, hhd, h1, hext]
      · have h1' : x.head = false := by simpa using h1
        simp only [h1', Bool.false_eq_true, ↓reduceIte]
        by_cases h2 : x.extn = 0
        · simp only [h2, beq_self_eq_true, ↓reduceIte]
          rw [ih c0 _ hat hext hr]
          simp [List.filter_cons, hhd, hex, h1', h2, hsm, hext]
        · have h2' : (x.extn == 0) = false := by simpa using h2
          simp only [h2', Bool.false_eq_true, ↓reduceIte]
          by_cases h3 : x.extn = 1
          · simp only [h3, beq_self_eq_true, ↓reduceIte]
            rw [ih (c0.emit (.rule 0 [x.smId] [])) acc hat hext hr]
            simp [List.filter_cons, hhd, hex, h1', h3, hsm, CS.emit, List.append_assoc, hext]
          · have h3' : (x.extn == 1) = false := by simpa using h3
            simp only [h3', Bool.false_eq_true, ↓reduceIte]
            rw [ih c0 acc hat hext hr]
            simp [List.filter_cons, hhd, hex, h1', h2', h3', hext]
  have := gen c.externs c [] rfl he hm
  simp only at this ⊢
  rw [this]
  simp only [List.nil_append]
  unfold extCallsOut factsOf freeOf
  by_cases hfe : (c.externs.filter (fun a => !hd c a && ex c a == 0)).isEmpty = true
  · have : (List.map (sm c) (c.externs.filter (fun a => !hd c a && ex c a == 0))).isEmpty = true := by simpa using hfe
    simp only [this, hfe, ↓reduceIte, List.append_nil]
  · have : (List.map (sm c) (c.externs.filter (fun a => !hd c a && ex c a == 0))).isEmpty = false := by simpa using hfe
    simp only [this, hfe, Bool.false_eq_true, ↓reduceIte, CS.emit, List.append_assoc]

/-! ### a whole step -/
theorem J.init (ext : Bool) : J ({ ext := ext } : CS) [] [] :=
  ⟨inv_init, rfl, rfl, by simp, by simp, fun m _ => TS.nil m⟩

theorem dom_find (c : CS) (a : Nat) (h : a ∈ domOf c) : (c.find a).isSome = true := by
  unfold CS.find
  simp only [Option.isSome_map, List.find?_isSome]
  simp only [domOf, abs, List.map_map, List.mem_map] at h
  obtain ⟨p, hp, rfl⟩ := h
  exact ⟨p, hp, by simp⟩

theorem TS.append_direct {m defs P P'} (h : TS m defs P P') (rs : List Rule) : TS m defs (P ++ rs) (P' ++ rs.map (renRule m)) := by
  induction rs generalizing P P' with
  | nil => simpa using h
  | cons r t ih =>
    have := ih (h.snoc_direct r)
    simpa [List.append_assoc] using this

theorem rulesOf_map {α : Type} (l : List α) (f : α → Call) (g : α → Rule) (h : ∀ a ∈ l, inRule (f a) = some (g a)) :
    rulesOf (l.map f) = l.map g := by
  induction l with
  | nil => rfl
  | cons a r ih =>
    have := ih (fun b hb => h b (by simp [hb]))
    simp only [rulesOf] at this
    simp only [List.map_cons, rulesOf, List.filterMap_cons, h a (by simp), this]

/-- appending calls that are the renamed versions of some input rules -/
theorem J.appendRules {c : CS} {P defs} (hj : J c P defs) (rs : List Rule) (xs : List Call)
    (hr : ∀ m, Agree c m → rulesOf xs = rs.map (renRule m))
    (hin : ∀ r ∈ rs, (∀ a ∈ r.head, a ∈ domOf c) ∧ (∀ a ∈ r.body.atoms, a ∈ domOf c) ∧ r.body.Ok) :
    J { c with out := c.out ++ xs } (P ++ rs) defs := by
  refine ⟨hj.inv, hj.nofail, hj.keys, hj.defsOk, ?_, ?_⟩
  · intro r hrm
    rcases List.mem_append.mp hrm with h | h
    · exact hj.inOk r h
    · exact hin r h
  · intro m ha
    have ha' : Agree c m := ha
    show TS m defs (P ++ rs) (rulesOf (c.out ++ xs))
    rw [rulesOf_append, hr m ha']
    exact (hj.tr m ha').append_direct rs

/-- the rules the pending externals stand for (input atoms) -/
def extP (c : CS) : List Rule :=
  (factsOf c).map (fun a => ⟨false, [a], .normal []⟩) ++ (if (freeOf c).isEmpty then [] else [⟨true, freeOf c, .normal []⟩])

theorem sm_agree (c : CS) (hi : Inv (abs c)) (m : Nat → Nat) (ha : Agree c m) (a : Nat) (hd : a ∈ domOf c) : sm c a = m a := by
  have hp := dom_pair_gen c a hd
  obtain ⟨n, hn, hs⟩ := hp
  rw [hs]; exact (ha _ hn).symm
where
  dom_pair_gen (c : CS) (a : Nat) (hd : a ∈ domOf c) : ∃ n, (a, n) ∈ (abs c).ids ∧ sm c a = n := by
    have hf := dom_find c a hd
    obtain ⟨x, hx⟩ := Option.isSome_iff_exists.mp hf
    refine ⟨x.smId, img_mem c a x.smId (by simp [img, hx]), by simp [sm, hx]⟩

theorem J.flushExt {c : CS} {P defs} (hj : J c P defs) (he : c.ext = false) (hm : ∀ a ∈ c.externs, a ∈ domOf c) :
    J c.flushExternal (P ++ extP c) defs := by
  rw [flushExternal_spec c he (fun a ha => dom_find c a (hm a ha))]
  have hfacts : ∀ a ∈ factsOf c, a ∈ domOf c := fun a ha => hm a (List.mem_filter.mp ha).1
  have hfree : ∀ a ∈ freeOf c, a ∈ domOf c := fun a ha => hm a (List.mem_filter.mp ha).1
  apply hj.appendRules (extP c) (extCallsOut c)
  · intro m ha
    unfold extCallsOut extP
    rw [rulesOf_append, List.map_append]
    congr 1
    · rw [List.map_map]
      apply rulesOf_map
      intro a ha'
      simp only [Function.comp, inRule, renRule, renHead, renBody, List.map_nil, List.isEmpty_cons, Bool.false_eq_true, ↓reduceIte,
        List.map_cons, sm_agree c hj.inv m ha a (hfacts a ha')]
      rfl
    · by_cases hfe : (freeOf c).isEmpty = true
      · simp [hfe, rulesOf]
      · simp only [hfe, Bool.false_eq_true, ↓reduceIte, rulesOf, List.filterMap_cons, inRule, List.filterMap_nil, List.map_cons, List.map_nil,
          renRule, renHead, renBody]
        have : List.map (sm c) (freeOf c) = List.map m (freeOf c) := List.map_congr_left (fun a ha' => sm_agree c hj.inv m ha a (hfree a ha'))
        rw [this]
        rfl
  · intro r hr
    unfold extP at hr
    rcases List.mem_append.mp hr with h | h
    · simp only [List.mem_map] at h
      obtain ⟨a, ha, rfl⟩ := h
      refine ⟨?_, ?_, ?_⟩
      · intro b hb; simp only [List.mem_singleton] at hb; subst hb; exact hfacts b ha
      · intro b hb; simp [Body.atoms] at hb
      · intro l hl; cases hl
    · by_cases hfe : (freeOf c).isEmpty = true
      · simp [hfe] at h
      · simp only [hfe, Bool.false_eq_true, ↓reduceIte, List.mem_singleton] at h
        subst h
        refine ⟨hfree, ?_, ?_⟩
        · intro b hb; simp [Body.atoms] at hb
        · intro l hl; cases hl

theorem flushMinimize_flags (c : CS) : (∀ b, hd c.flushMinimize b = hd c b ∧ ex c.flushMinimize b = ex c b) ∧ c.flushMinimize.externs = c.externs ∧
    c.flushMinimize.ext = c.ext := by
  unfold CS.flushMinimize
  generalize c.minimize = ms
  induction ms generalizing c with
  | nil => exact ⟨fun _ => ⟨rfl, rfl⟩, rfl, rfl⟩
  | cons pl r ih =>
    simp only [List.foldl_cons]
    obtain ⟨i1, i2, i3⟩ := ih ((c.mapWLits pl.2 []).1.emit (.minimize pl.1 (c.mapWLits pl.2 []).2))
    have h : rest (c.mapWLits pl.2 []).1 = rest c := by simp
    refine ⟨?_, ?_, ?_⟩
    · intro b
      exact ⟨(i1 b).1.trans (hd_mapWLits c pl.2 [] b), (i1 b).2.trans (ex_mapWLits c pl.2 [] b)⟩
    · exact i2.trans (by show (c.mapWLits pl.2 []).1.externs = _; exact rest_externs h)
    · exact i3.trans (by show (c.mapWLits pl.2 []).1.ext = _; exact congrArg (·.2.2.1) h)

theorem extP_congr (c c' : CS) (h1 : ∀ b, hd c' b = hd c b ∧ ex c' b = ex c b) (h2 : c'.externs = c.externs) : extP c' = extP c := by
  have e1 : factsOf c' = factsOf c := by
    unfold factsOf; rw [h2]; apply List.filter_congr; intro a _; rw [(h1 a).1, (h1 a).2]
  have e2 : freeOf c' = freeOf c := by
    unfold freeOf; rw [h2]; apply List.filter_congr; intro a _; rw [(h1 a).1, (h1 a).2]
  unfold extP; rw [e1, e2]

theorem extP_nil (c : CS) (h : c.externs = []) : extP c = [] := by
  simp [extP, factsOf, freeOf, h]

/-- one round of `flushHeuristic` -/
def heuStep (c : CS) (h : Convert.Heu) : CS :=
  match c.find h.atom with
  | none => c
  | some ma =>
    let nm := if ma.shown then c.getName ma.smId else none
    let r : CS × List Nat := match nm with
      | some n => (c, n)
      | none =>
        let n := Convert.s "_atom(" ++ AspifOut.printNat ma.smId ++ [41]
        ((c.updAtom h.atom (fun x => { x with shown := true })).addOutput ma.smId n true, n)
    r.1.emit (.output (Convert.s "_heuristic(" ++ r.2 ++ [44] ++ heuName h.type ++ [44] ++ AspifOut.printInt h.bias ++ [44] ++ AspifOut.printNat h.prio ++ [41]) [(h.cond : Int)])

theorem flushHeuristic_eq (c : CS) : c.flushHeuristic = c.heur.foldl heuStep c := rfl

/-- a round of the heuristic flush appends one output directive (or nothing), may record a generated name, and touches nothing else the
    invariants speak about -/
theorem heuStep_frame (c : CS) (h : Convert.Heu) :
    abs (heuStep c h) = abs c ∧ (heuStep c h).fail = c.fail ∧ (heuStep c h).aux = c.aux ∧ (heuStep c h).ext = c.ext ∧ (heuStep c h).minimize = c.minimize ∧
    (heuStep c h).externs = c.externs ∧ (heuStep c h).heur = c.heur ∧ rulesOf (heuStep c h).out = rulesOf c.out ∧ minsOf (heuStep c h).out = minsOf c.out ∧
    (∀ b, hd (heuStep c h) b = hd c b ∧ ex (heuStep c h) b = ex c b) := by
  unfold heuStep
  cases hf : c.find h.atom with
  | none => exact ⟨rfl, rfl, rfl, rfl, rfl, rfl, rfl, rfl, rfl, fun _ => ⟨rfl, rfl⟩⟩
  | some ma =>
    simp only
    cases hn : (if ma.shown = true then c.getName ma.smId else none) with
    | some n =>
      simp only
      exact ⟨rfl, rfl, rfl, rfl, rfl, rfl, rfl, by simp [CS.emit, rulesOf_append, rulesOf, inRule], by simp [CS.emit, minsOf_append, minsOf, minOf], fun _ => ⟨rfl, rfl⟩⟩
    | none =>
      simp only
      have e := abs_updAtom c h.atom (fun x => { x with shown := true }) (fun _ => rfl)
      have hr : ∀ (n : List Nat) (c' : List Int), inRule (Call.output n c') = none := fun _ _ => rfl
      have hmn : ∀ (n : List Nat) (c' : List Int), minOf (Call.output n c') = none := fun _ _ => rfl
      refine ⟨?_, rfl, rfl, rfl, rfl, rfl, rfl, ?_, ?_, ?_⟩
      · show abs (c.updAtom h.atom (fun x => { x with shown := true })) = abs c
        exact e
      · show rulesOf (c.out ++ [_]) = rulesOf c.out
        rw [rulesOf_append]; simp only [rulesOf, List.filterMap_cons, hr, List.filterMap_nil, List.append_nil]
      · show minsOf (c.out ++ [_]) = minsOf c.out
        rw [minsOf_append]; simp only [minsOf, List.filterMap_cons, hmn, List.filterMap_nil, List.append_nil]
      · intro b
        exact ⟨hd_upd_other c h.atom (fun x => { x with shown := true }) (fun _ => rfl) b, ex_upd_other c h.atom (fun x => { x with shown := true }) (fun _ => rfl) b⟩

theorem J.heuStep {c : CS} {P defs} (hj : J c P defs) (h : Convert.Heu) : J (heuStep c h) P defs := by
  obtain ⟨h1, h2, h3, _, _, _, h7, h8, _, _⟩ := heuStep_frame c h
  exact hj.of (by rw [h1]; exact .refl _) h2 h7 h3 (by rw [h8])

/-- `flush` (the end of a step): the invariant holds afterwards, with the rules of the pending externals added to the input side -/
theorem J.flush {c : CS} {P defs} (hj : J c P defs) (hm : ∀ a ∈ c.externs, a ∈ domOf c) (hE : c.ext = false ∨ c.externs = []) :
    J c.flush (P ++ extP c) defs := by
  unfold CS.flush
  have h1 : J c.flushMinimize P defs := by
    unfold CS.flushMinimize
    apply J.foldl _ _ _ _ hj
    intro c pl hc
    exact (hc.of_rest (mapWLits_steps c pl.2 []) (by simp)).emit _ rfl
  obtain ⟨f1, f2, f3⟩ := flushMinimize_flags c
  have hm1 : ∀ a ∈ c.flushMinimize.externs, a ∈ domOf c.flushMinimize := by
    intro a ha
    exact dom_mono (flushMinimize_steps c) hj.inv a (hm a (f2 ▸ ha))
  have hP : extP c.flushMinimize = extP c := extP_congr c c.flushMinimize f1 f2
  have h2 : J c.flushMinimize.flushExternal (P ++ extP c) defs := by
    rcases hE with he | he
    · rw [← hP]; exact h1.flushExt (f3.trans he) hm1
    · rw [extP_nil c he, List.append_nil]
      unfold CS.flushExternal
      rw [f2.trans he]
      simpa using h1
  have h3 : J c.flushMinimize.flushExternal.flushHeuristic (P ++ extP c) defs := by
    rw [flushHeuristic_eq]
    exact J.foldl _ (fun c h hc => hc.heuStep h) _ _ h2
  have h4 : J c.flushMinimize.flushExternal.flushHeuristic.flushSymbols (P ++ extP c) defs := by
    unfold CS.flushSymbols
    apply J.foldl _ _ _ _ h3
    intro c p hc
    exact hc.emit _ rfl
  have h5 := h4.emit (.assume [-1]) rfl
  exact ⟨h5.inv, h5.nofail, h5.keys, h5.defsOk, h5.inOk, h5.tr⟩

/-- the calls of one program step -/
def stepCalls (inc : Bool) (ds : List Call) : List Call := [.initProgram inc, .beginStep] ++ ds ++ [.endStep]

theorem apply_init (c : CS) (h : c.fail = false) (inc : Bool) : c.apply (.initProgram inc) = c.emit (.initProgram inc) := by
  unfold CS.apply; simp [h]
theorem apply_begin (c : CS) (h : c.fail = false) : c.apply .beginStep = c.emit .beginStep := by
  unfold CS.apply; simp [h]
theorem apply_end (c : CS) (h : c.fail = false) : c.apply .endStep = c.flush.emit .endStep := by
  unfold CS.apply; simp [h]

theorem K.init (ext : Bool) : K ({ ext := ext } : CS) [] [] := ⟨by simp, by simp [show ({ ext := ext } : CS).output = [] from rfl], rfl, fun _ _ h => h.elim⟩

theorem K.emit {c : CS} {O defs base E} (hk : K c O defs base E) (hi : Inv (abs c)) (x : Call) (hx : outOf x = none) : K (c.emit x) O defs base E :=
  hk.of (.refl _) hi rfl (by simp [CS.emit, outsOf_append, outsOf, hx]) (fun d hd => hd)

/-- the state just before `endStep` -/
def preEnd (ext inc : Bool) (ds : List Call) : CS := ds.foldl CS.apply ((({ ext := ext } : CS).apply (.initProgram inc)).apply .beginStep)

theorem convert_step (ext inc : Bool) (ds : List Call) : convert ext (stepCalls inc ds) = (preEnd ext inc ds).apply .endStep := by
  unfold convert stepCalls preEnd
  rw [List.foldl_append, List.foldl_append]
  simp only [List.foldl_cons, List.foldl_nil]

/-! ### from the invariant to the abstract translation -/
def finalMap (c : CS) : Nat → Nat := fun a => (img c a).getD 0

theorem agree_final (c : CS) (hi : Inv (abs c)) : Agree c (finalMap c) := by
  intro p hp
  have := mem_img c hi.keys p.1 p.2 hp
  simp [finalMap, this]

def ctxOf (c : CS) (defs : List (Nat × Body)) : Ctx := ⟨domOf c, finalMap c, defs⟩

theorem snd_inj (l : List (Nat × Nat)) (hn : (l.map (·.2)).Nodup) (a b n : Nat) (h1 : (a, n) ∈ l) (h2 : (b, n) ∈ l) : a = b := by
  induction l with
  | nil => cases h1
  | cons p r ih =>
    simp only [List.map_cons, List.nodup_cons] at hn
    simp only [List.mem_cons] at h1 h2
    rcases h1 with h1 | h1 <;> rcases h2 with h2 | h2
    · rw [← h1] at h2; exact (Prod.mk.inj h2).1.symm
    · subst h1; exact absurd (List.mem_map_of_mem (f := (·.2)) h2) hn.1
    · subst h2; exact absurd (List.mem_map_of_mem (f := (·.2)) h1) hn.1
    · exact ih hn.2 h1 h2

theorem fst_fun {α : Type} (l : List (Nat × α)) (hn : (l.map (·.1)).Nodup) (d d' : Nat × α) (h1 : d ∈ l) (h2 : d' ∈ l) (e : d.1 = d'.1) : d = d' := by
  induction l with
  | nil => cases h1
  | cons p r ih =>
    simp only [List.map_cons, List.nodup_cons] at hn
    simp only [List.mem_cons] at h1 h2
    rcases h1 with h1 | h1 <;> rcases h2 with h2 | h2
    · rw [h1, h2]
    · subst h1; exact absurd (e ▸ List.mem_map_of_mem (f := (·.1)) h2) hn.1
    · subst h2; exact absurd (e ▸ List.mem_map_of_mem (f := (·.1)) h1) hn.1
    · exact ih hn.2 h1 h2

theorem dom_pair (c : CS) (hi : Inv (abs c)) (a : Nat) (ha : a ∈ domOf c) : (a, finalMap c a) ∈ (abs c).ids := by
  simp only [domOf, List.mem_map] at ha
  obtain ⟨p, hp, rfl⟩ := ha
  rw [agree_final c hi p hp]; exact hp

theorem ctx_ok {c : CS} {P defs} (hj : J c P defs) : (ctxOf c defs).Ok := by
  have hi := hj.inv
  refine ⟨?_, ?_, ?_, ?_, ?_, ?_, ?_⟩
  · intro a ha b hb e
    have h1 := dom_pair c hi a ha
    have h2 := dom_pair c hi b hb
    simp only [ctxOf] at e
    rw [e] at h1
    exact snd_inj _ hi.imgs a b _ h1 h2
  · intro a ha
    exact (hi.rng.1 _ (List.mem_map_of_mem (f := (·.2)) (dom_pair c hi a ha))).1
  · intro a ha d hd e
    have h1 := List.mem_map_of_mem (f := (·.2)) (dom_pair c hi a ha)
    have h2 : d.1 ∈ (abs c).aux := by
      show d.1 ∈ c.aux
      rw [← hj.keys]; exact List.mem_map_of_mem (f := (·.1)) hd
    simp only [ctxOf] at e
    rw [← e] at h1
    exact hi.disj _ h1 h2
  · intro d hd
    have h2 : d.1 ∈ (abs c).aux := by
      show d.1 ∈ c.aux
      rw [← hj.keys]; exact List.mem_map_of_mem (f := (·.1)) hd
    exact (hi.rng.2 _ h2).1
  · intro d hd d' hd' e
    have hn : (defs.map (·.1)).Nodup := by rw [hj.keys]; exact hi.auxs
    rw [fst_fun defs hn d d' hd hd' e]
  · intro d hd; exact (hj.defsOk d hd).2
  · intro d hd; exact (hj.defsOk d hd).1

theorem ctx_trans {c : CS} {P defs} (hj : J c P defs) : Trans (ctxOf c defs) P (rulesOf c.out) := by
  have h := hj.tr (finalMap c) (agree_final c hj.inv)
  exact ⟨hj.inOk, h.s1, h.s2, h.s3⟩


/-! ### what `endStep` emits for the symbol table -/
theorem mem_insertSym (x y : Nat × List Nat) (l : List (Nat × List Nat)) : y ∈ insertSym x l ↔ y = x ∨ y ∈ l := by
  induction l with
  | nil => simp [insertSym]
  | cons z r ih =>
    unfold insertSym
    split
    · simp
    · simp only [List.mem_cons, ih]
      constructor
      · rintro (h | h | h); exact Or.inr (Or.inl h); exact Or.inl h; exact Or.inr (Or.inr h)
      · rintro (h | h | h); exact Or.inr (Or.inl h); exact Or.inl h; exact Or.inr (Or.inr h)

theorem mem_sortSyms (y : Nat × List Nat) (l : List (Nat × List Nat)) : y ∈ sortSyms l ↔ y ∈ l := by
  unfold sortSyms
  have gen : ∀ (l acc : List (Nat × List Nat)), y ∈ l.foldl (fun acc x => insertSym x acc) acc ↔ y ∈ acc ∨ y ∈ l := by
    intro l
    induction l with
    | nil => intro acc; simp
    | cons x r ih =>
      intro acc
      simp only [List.foldl_cons, ih, mem_insertSym, List.mem_cons]
      constructor
      · rintro ((h | h) | h); exact Or.inr (Or.inl h); exact Or.inl h; exact Or.inr (Or.inr h)
      · rintro (h | h | h); exact Or.inl (Or.inr h); exact Or.inl (Or.inl h); exact Or.inr h
  simpa using gen l []

theorem flushExternal_none (c : CS) (h : c.externs = []) : c.flushExternal = c := by
  unfold CS.flushExternal; rw [h]; simp

theorem flushHeuristic_none (c : CS) (h : c.heur = []) : c.flushHeuristic = c := by
  unfold CS.flushHeuristic; rw [h]; simp

theorem flushMinimize_frame (c : CS) : c.flushMinimize.output = c.output ∧ outsOf c.flushMinimize.out = outsOf c.out ∧
    c.flushMinimize.externs = c.externs ∧ c.flushMinimize.heur = c.heur := by
  unfold CS.flushMinimize
  generalize c.minimize = ms
  induction ms generalizing c with
  | nil => exact ⟨rfl, rfl, rfl, rfl⟩
  | cons pl r ih =>
    simp only [List.foldl_cons]
    have h : rest (c.mapWLits pl.2 []).1 = rest c := by simp
    obtain ⟨i1, i2, i3, i4⟩ := ih ((c.mapWLits pl.2 []).1.emit (.minimize pl.1 (c.mapWLits pl.2 []).2))
    have o1 : ((c.mapWLits pl.2 []).1.emit (.minimize pl.1 (c.mapWLits pl.2 []).2)).output = c.output := by
      show (c.mapWLits pl.2 []).1.output = c.output; exact rest_output h
    have o3 : ((c.mapWLits pl.2 []).1.emit (.minimize pl.1 (c.mapWLits pl.2 []).2)).externs = c.externs := by
      show (c.mapWLits pl.2 []).1.externs = c.externs; exact congrArg (·.2.2.2.2.1) h
    have o4 : ((c.mapWLits pl.2 []).1.emit (.minimize pl.1 (c.mapWLits pl.2 []).2)).heur = c.heur := by
      show (c.mapWLits pl.2 []).1.heur = c.heur; exact congrArg (·.2.2.2.2.2.1) h
    refine ⟨i1.trans o1, i2.trans ?_, i3.trans o3, i4.trans o4⟩
    simp only [CS.emit]
    rw [outsOf_append, rest_out h]; simp [outsOf, outOf]

theorem flushSymbols_outs (c : CS) : outsOf c.flushSymbols.out = outsOf c.out ++ (sortSyms c.output).map (fun p => (p.2, [(p.1 : Int)])) := by
  unfold CS.flushSymbols
  generalize sortSyms c.output = l
  induction l generalizing c with
  | nil => simp
  | cons p r ih =>
    simp only [List.foldl_cons, List.map_cons]
    rw [ih]
    simp [CS.emit, outsOf_append, outsOf, outOf]

/-- what the externals flush does to the state: it appends rules to the output, nothing else -/
def FlushShape (c1 : CS) : Prop := ∃ rs, c1.flushExternal = { c1 with out := c1.out ++ rs } ∧ outsOf rs = [] ∧ minsOf rs = []

theorem flushShape (c1 : CS) (hm : ∀ a ∈ c1.externs, a ∈ domOf c1) (hE : c1.ext = false ∨ c1.externs = []) : FlushShape c1 := by
  rcases hE with he | he
  · refine ⟨extCallsOut c1, flushExternal_spec c1 he (fun a ha => dom_find c1 a (hm a ha)), ?_, ?_⟩
    · unfold extCallsOut
      rw [outsOf_append]
      have e1 : outsOf (List.map (fun a => Call.rule 0 [sm c1 a] []) (factsOf c1)) = [] := by
        simp [outsOf, List.filterMap_map, Function.comp, outOf]
      rw [e1]; split <;> simp [outsOf, outOf]
    · unfold extCallsOut
      rw [minsOf_append]
      have e1 : minsOf (List.map (fun a => Call.rule 0 [sm c1 a] []) (factsOf c1)) = [] := by
        simp [minsOf, List.filterMap_map, Function.comp, minOf]
      rw [e1]; split <;> simp [minsOf, minOf]
  · exact ⟨[], by rw [flushExternal_none c1 he, with_out_nil], rfl, rfl⟩

/-- the output directives of the emitted step: one per pending symbol, nothing else -/
theorem final_outs (c : CS) (hf : c.fail = false) (hfs : FlushShape c.flushMinimize) (hh : c.heur = []) (hn : outsOf c.out = []) :
    outsOf (c.apply .endStep).out = (sortSyms c.output).map (fun p => (p.2, [(p.1 : Int)])) := by
  rw [apply_end c hf]
  obtain ⟨f1, f2, f3, f4⟩ := flushMinimize_frame c
  obtain ⟨rs, e, o1, _⟩ := hfs
  unfold CS.flush
  simp only [CS.emit]
  rw [e, flushHeuristic_none _ (by show c.flushMinimize.heur = []; exact f4.trans hh)]
  rw [outsOf_append, outsOf_append, flushSymbols_outs]
  show (outsOf (c.flushMinimize.out ++ rs) ++ (sortSyms c.flushMinimize.output).map _ ++ outsOf [Call.assume [-1]]) ++ outsOf [Call.endStep] = _
  rw [outsOf_append, f1, f2, hn, o1]
  simp [outsOf, outOf]

/-! ### minimize statements: the pending table and what `endStep` emits -/

/-- value of the statements of priority `p` in a table of statements -/
def costM (X : I) (m : List (Int × List (Int × Int))) (p : Int) : Int :=
  ((m.filter (fun q => q.1 == p)).map (fun q => wsum X X q.2)).sum

theorem wsum_append (X Y : I) (a b : List (Int × Int)) : wsum X Y (a ++ b) = wsum X Y a + wsum X Y b := by
  simp [wsum, List.sum_append]

theorem costM_cons (X : I) (q : Int × List (Int × Int)) (m : List (Int × List (Int × Int))) (p : Int) :
    costM X (q :: m) p = (if q.1 == p then wsum X X q.2 else 0) + costM X m p := by
  unfold costM
  by_cases h : (q.1 == p) = true
  · simp [List.filter_cons, h]
  · simp [List.filter_cons, h]

theorem costM_append (X : I) (a b : List (Int × List (Int × Int))) (p : Int) : costM X (a ++ b) p = costM X a p + costM X b p := by
  simp [costM, List.filter_append, List.sum_append]

theorem costM_single (X : I) (q : Int) (ls : List (Int × Int)) (p : Int) :
    costM X [(q, ls)] p = if q == p then wsum X X ls else 0 := by
  unfold costM
  by_cases h : q = p <;> simp [List.filter_cons, h]

theorem costM_insertMin (X : I) (m : List (Int × List (Int × Int))) (q : Int) (ls : List (Int × Int)) (p : Int) :
    costM X (insertMin m q ls) p = costM X m p + (if q == p then wsum X X ls else 0) := by
  induction m with
  | nil =>
    have : costM X [] p = 0 := rfl
    simp only [insertMin, costM_single, this]; omega
  | cons e r ih =>
    obtain ⟨k, l⟩ := e
    unfold insertMin
    split
    · rename_i hk
      have : k = q := by simpa using hk
      subst this
      rw [costM_cons, costM_cons]
      simp only
      by_cases hp : (k == p) = true
      · simp only [hp, ↓reduceIte, wsum_append]; omega
      · simp only [hp, ↓reduceIte]; simp
    · split
      · rw [costM_cons]; simp only; omega
      · rw [costM_cons, costM_cons, ih]; omega

theorem auxAtom_frameM (c : CS) (cond : List Int) :
    (c.auxAtom cond).1.minimize = c.minimize ∧ minsOf (c.auxAtom cond).1.out = minsOf c.out := by
  unfold CS.auxAtom CS.emit
  simp only
  have h := rest_mapLits { c with next := c.next + 1, aux := c.aux ++ [c.next] } cond []
  refine ⟨(congrArg (·.2.2.2.1) h).trans rfl, ?_⟩
  rw [minsOf_append, rest_out h]
  simp [minsOf, minOf]

theorem makeAtom_frameM (c : CS) (cond : List Int) (named : Bool) :
    (c.makeAtom cond named).1.minimize = c.minimize ∧ minsOf (c.makeAtom cond named).1.out = minsOf c.out := by
  unfold CS.makeAtom
  split
  · simp only
    have h := rest_mapAtom c (cond.headD 0).natAbs
    split
    · have := auxAtom_frameM (c.mapAtom (cond.headD 0).natAbs).1 cond
      exact ⟨this.1.trans (congrArg (·.2.2.2.1) h), this.2.trans (by rw [rest_out h])⟩
    · exact ⟨by show (c.mapAtom (cond.headD 0).natAbs).1.minimize = _; exact congrArg (·.2.2.2.1) h,
        by show minsOf (c.mapAtom (cond.headD 0).natAbs).1.out = _; rw [rest_out h]⟩
  · exact auxAtom_frameM c cond

/-- a plain call changes the pending minimize table only when it is a minimize statement, and emits none -/
theorem apply_frameM (c : CS) (hf : c.fail = false) (x : Call) (hx : PlainOk x) :
    (c.apply x).minimize = (match x with | .minimize p ls => insertMin c.minimize p (ls.map flipNeg) | _ => c.minimize) ∧
    minsOf (c.apply x).out = minsOf c.out := by
  cases x with
  | rule ht head body =>
    unfold CS.apply
    simp only [hf, Bool.false_eq_true, ↓reduceIte]
    split
    · have h : rest ((c.mapHead head).1.mapLits body []).1 = rest c := by simp
      refine ⟨by show ((c.mapHead head).1.mapLits body []).1.minimize = _; exact congrArg (·.2.2.2.1) h, ?_⟩
      simp only [CS.emit]
      rw [minsOf_append, rest_out h]; simp [minsOf, minOf]
    · exact ⟨rfl, rfl⟩
  | sumRule ht head bound body =>
    unfold CS.apply
    simp only [hf, Bool.false_eq_true, ↓reduceIte]
    split
    · have h : rest ((c.mapHead head).1.mapWLits body []).1 = rest c := by simp
      split
      · refine ⟨by show ((c.mapHead head).1.mapWLits body []).1.minimize = _; exact congrArg (·.2.2.2.1) h, ?_⟩
        simp only [CS.emit]
        rw [minsOf_append, rest_out h]; simp [minsOf, minOf]
      · refine ⟨by show ((c.mapHead head).1.mapWLits body []).1.minimize = _; exact congrArg (·.2.2.2.1) h, ?_⟩
        simp only [CS.emit]
        rw [minsOf_append, minsOf_append, rest_out h]; simp [minsOf, minOf]
    · exact ⟨rfl, rfl⟩
  | minimize prio lits =>
    have hany : lits.any (fun p => p.2 == I32MINc) = false := by
      rw [List.any_eq_false]; intro p hp; simpa using (hx p hp).2
    unfold CS.apply
    simp only [hf, Bool.false_eq_true, ↓reduceIte, hany]
    constructor <;> first | rfl | trivial
  | output str cond =>
    have h := makeAtom_frameM c cond true
    unfold CS.apply
    simp only [hf, Bool.false_eq_true, ↓reduceIte]
    exact ⟨h.1, h.2⟩
  | acycEdge a b cond =>
    rw [apply_edge_eq c hf]
    have h := makeAtom_frameM (pass c (.acycEdge a b cond)) cond true
    have hp : (pass c (.acycEdge a b cond)).minimize = c.minimize ∧ minsOf (pass c (.acycEdge a b cond)).out = minsOf c.out := by
      unfold pass; split
      · exact ⟨rfl, by simp [CS.emit, minsOf_append, minsOf, minOf]⟩
      · exact ⟨rfl, rfl⟩
    exact ⟨h.1.trans hp.1, h.2.trans hp.2⟩
  | heuristic a t bias prio cond =>
    rw [apply_heu_eq c hf]
    have h := makeAtom_frameM (pass c (.heuristic a t bias prio cond)) cond true
    have hp : (pass c (.heuristic a t bias prio cond)).minimize = c.minimize ∧ minsOf (pass c (.heuristic a t bias prio cond)).out = minsOf c.out := by
      unfold pass; split
      · exact ⟨rfl, by simp [CS.emit, minsOf_append, minsOf, minOf]⟩
      · exact ⟨rfl, rfl⟩
    exact ⟨h.1.trans hp.1, h.2.trans hp.2⟩
  | external a v =>
    have h := rest_mapAtom c a
    rw [apply_external_eq c hf]
    split
    · exact ⟨by show (c.mapAtom a).1.minimize = _; exact congrArg (·.2.2.2.1) h, by show minsOf (c.mapAtom a).1.out = _; rw [rest_out h]⟩
    · exact ⟨congrArg (·.2.2.2.1) h, by rw [rest_out h]⟩
  | _ => exact absurd hx (by simp [PlainOk])

/-- the pending minimize table against the minimize statements `Ms` given in this step; `base` = the statements earlier steps emitted (`[]` in a single step) -/
structure M (c : CS) (Ms : List (Int × List (Int × Int))) (base : List (Int × List (Int × Int)) := []) : Prop where
  cost  : ∀ X p, costM X c.minimize p = costM X (Ms.map (fun q => (q.1, q.2.map flipNeg))) p
  nz    : ∀ pl ∈ c.minimize, ∀ q ∈ pl.2, q.1 ≠ 0
  nomin : minsOf c.out = base

theorem flipNeg_ne (q : Int × Int) (h : q.1 ≠ 0) : (flipNeg q).1 ≠ 0 := by
  unfold flipNeg; split <;> simp <;> omega

theorem insertMin_nz (m : List (Int × List (Int × Int))) (p : Int) (ls : List (Int × Int)) (hm : ∀ pl ∈ m, ∀ q ∈ pl.2, q.1 ≠ 0)
    (hl : ∀ q ∈ ls, q.1 ≠ 0) : ∀ pl ∈ insertMin m p ls, ∀ q ∈ pl.2, q.1 ≠ 0 := by
  induction m with
  | nil => intro pl hpl; simp only [insertMin, List.mem_singleton] at hpl; subst hpl; exact hl
  | cons e r ih =>
    obtain ⟨k, l⟩ := e
    unfold insertMin
    split
    · intro pl hpl q hq
      rcases List.mem_cons.mp hpl with h | h
      · subst h
        rcases List.mem_append.mp hq with h2 | h2
        · exact hm (k, l) (by simp) q h2
        · exact hl q h2
      · exact hm pl (by simp [h]) q hq
    · split
      · intro pl hpl q hq
        rcases List.mem_cons.mp hpl with h | h
        · subst h; exact hl q hq
        · exact hm pl h q hq
      · intro pl hpl q hq
        rcases List.mem_cons.mp hpl with h | h
        · subst h; exact hm (k, l) (by simp) q hq
        · exact ih (fun pl' h' => hm pl' (by simp [h'])) pl h q hq

theorem M.step {c : CS} {Ms base} (hM : M c Ms base) (hf : c.fail = false) (x : Call) (hx : PlainOk x) : M (c.apply x) (Ms ++ minsOf [x]) base := by
  obtain ⟨h1, h2⟩ := apply_frameM c hf x hx
  cases x with
  | minimize prio lits =>
    simp only at h1
    have e : minsOf [Call.minimize prio lits] = [(prio, lits)] := rfl
    refine ⟨?_, ?_, h2.trans hM.nomin⟩
    · intro X p
      rw [h1, costM_insertMin, hM.cost X p, e, List.map_append, costM_append]
      simp only [List.map_cons, List.map_nil, costM_single]
    · rw [h1]
      apply insertMin_nz _ _ _ hM.nz
      intro q hq
      simp only [List.mem_map] at hq
      obtain ⟨q0, hq0, rfl⟩ := hq
      exact flipNeg_ne q0 (hx q0 hq0).1
  | rule ht head body =>
    simp only at h1
    have e : minsOf [Call.rule ht head body] = [] := rfl
    rw [e, List.append_nil]
    exact ⟨fun X p => by rw [h1]; exact hM.cost X p, by rw [h1]; exact hM.nz, h2.trans hM.nomin⟩
  | sumRule ht head bound body =>
    simp only at h1
    have e : minsOf [Call.sumRule ht head bound body] = [] := rfl
    rw [e, List.append_nil]
    exact ⟨fun X p => by rw [h1]; exact hM.cost X p, by rw [h1]; exact hM.nz, h2.trans hM.nomin⟩
  | output str cond =>
    simp only at h1
    have e : minsOf [Call.output str cond] = [] := rfl
    rw [e, List.append_nil]
    exact ⟨fun X p => by rw [h1]; exact hM.cost X p, by rw [h1]; exact hM.nz, h2.trans hM.nomin⟩
  | acycEdge a b cond =>
    simp only at h1
    have e : minsOf [Call.acycEdge a b cond] = [] := rfl
    rw [e, List.append_nil]
    exact ⟨fun X p => by rw [h1]; exact hM.cost X p, by rw [h1]; exact hM.nz, h2.trans hM.nomin⟩
  | heuristic a t bias prio cond =>
    simp only at h1
    have e : minsOf [Call.heuristic a t bias prio cond] = [] := rfl
    rw [e, List.append_nil]
    exact ⟨fun X p => by rw [h1]; exact hM.cost X p, by rw [h1]; exact hM.nz, h2.trans hM.nomin⟩
  | external a v =>
    simp only at h1
    have e : minsOf [Call.external a v] = [] := rfl
    rw [e, List.append_nil]
    exact ⟨fun X p => by rw [h1]; exact hM.cost X p, by rw [h1]; exact hM.nz, h2.trans hM.nomin⟩
  | _ => exact absurd hx (by simp [PlainOk])

theorem run_plainM {c : CS} {P O defs Ms base E mbase} {t : T} (hj : J c P defs) (hk : K c O defs base E) (hM : M c Ms mbase) (hxi : XI c t) (ds : List Call) (hx : ∀ d ∈ ds, PlainOk d) :
    ∃ defs', J (ds.foldl CS.apply c) (P ++ (rulesOf ds).filter kept) defs' ∧ K (ds.foldl CS.apply c) (O ++ srcOuts ds) defs' base E ∧
      M (ds.foldl CS.apply c) (Ms ++ minsOf ds) mbase ∧ XI (ds.foldl CS.apply c) (t.run ds) := by
  induction ds generalizing c P O defs Ms t with
  | nil => exact ⟨defs, by simpa [rulesOf] using hj, by simpa [srcOuts] using hk, by simpa [minsOf] using hM, hxi⟩
  | cons d r ih =>
    obtain ⟨defs1, h1, k1⟩ := apply_plain hj hk d (hx d (by simp))
    have m1 := hM.step hj.nofail d (hx d (by simp))
    have x1 := hxi.step hj.inv hj.nofail d (hx d (by simp))
    obtain ⟨defs2, h2, k2, m2, x2⟩ := ih h1 k1 m1 x1 (fun e he => hx e (by simp [he]))
    refine ⟨defs2, ?_, ?_, ?_, x2⟩
    · have : rulesOf (d :: r) = rulesOf [d] ++ rulesOf r := by rw [← rulesOf_append]; rfl
      rw [this, List.filter_append, ← List.append_assoc]
      exact h2
    · have : srcOuts (d :: r) = srcOuts [d] ++ srcOuts r := by rw [← srcOuts_append]; rfl
      rw [this, ← List.append_assoc]
      exact k2
    · have : minsOf (d :: r) = minsOf [d] ++ minsOf r := by rw [← minsOf_append]; rfl
      rw [this, ← List.append_assoc]
      exact m2


theorem abs_flushSymbols (c : CS) : abs c.flushSymbols = abs c := by
  unfold CS.flushSymbols
  generalize sortSyms c.output = l
  induction l generalizing c with
  | nil => rfl
  | cons p r ih => simp only [List.foldl_cons]; rw [ih]; rfl

theorem flushSymbols_mins (c : CS) : minsOf c.flushSymbols.out = minsOf c.out := by
  unfold CS.flushSymbols
  generalize sortSyms c.output = l
  induction l generalizing c with
  | nil => rfl
  | cons p r ih =>
    simp only [List.foldl_cons]
    rw [ih]
    simp [CS.emit, minsOf_append, minsOf, minOf]

def renW (m : Nat → Nat) (ls : List (Int × Int)) : List (Int × Int) := ls.map (fun q => (renLit m q.1, q.2))

theorem flushMinimize_mins (c : CS) (hi : Inv (abs c)) (m : Nat → Nat) (ha : Agree c.flushMinimize m) :
    minsOf c.flushMinimize.out = minsOf c.out ++ c.minimize.map (fun pl => (pl.1, renW m pl.2)) ∧
    ∀ pl ∈ c.minimize, ∀ q ∈ pl.2, q.1.natAbs ∈ domOf c.flushMinimize := by
  unfold CS.flushMinimize at ha ⊢
  generalize c.minimize = ms at ha ⊢
  induction ms generalizing c with
  | nil => exact ⟨by simp, by intro pl h; cases h⟩
  | cons pl r ih =>
    simp only [List.foldl_cons] at ha ⊢
    have hs1 := mapWLits_steps c pl.2 []
    have hi1 := steps_inv' hs1 hi
    have hi1' : Inv (abs ((c.mapWLits pl.2 []).1.emit (.minimize pl.1 (c.mapWLits pl.2 []).2))) := hi1
    obtain ⟨i1, i2⟩ := ih _ hi1' ha
    have hsr : Steps (abs ((c.mapWLits pl.2 []).1.emit (.minimize pl.1 (c.mapWLits pl.2 []).2)))
        (abs (r.foldl (fun c pl => (c.mapWLits pl.2 []).1.emit (.minimize pl.1 (c.mapWLits pl.2 []).2))
          ((c.mapWLits pl.2 []).1.emit (.minimize pl.1 (c.mapWLits pl.2 []).2)))) :=
      foldl_steps _ (fun c pl => by simpa using mapWLits_steps c pl.2 []) r _
    have hv := mapWLits_val c hi pl.2 [] m (agree_back hsr hi1' ha)
    refine ⟨?_, ?_⟩
    · rw [i1]
      simp only [CS.emit, minsOf_append, List.map_cons, List.append_assoc]
      have hout : (c.mapWLits pl.2 []).1.out = c.out := rest_out (by simp)
      rw [hout, hv]
      simp [minsOf, minOf, renW]
    · intro pl' hpl' q hq
      rcases List.mem_cons.mp hpl' with h | h
      · subst h
        exact dom_mono hsr hi1' _ (mapWLits_dom c hi pl'.2 [] q hq)
      · exact i2 pl' h q hq

/-- the minimize statements of the emitted step: the pending table, renamed; all their atoms are mapped -/
theorem final_mins (c : CS) (hf : c.fail = false) (hfs : FlushShape c.flushMinimize) (hh : c.heur = []) (hn : minsOf c.out = []) (hi : Inv (abs c))
    (m : Nat → Nat) (ha : Agree (c.apply .endStep) m) :
    minsOf (c.apply .endStep).out = c.minimize.map (fun pl => (pl.1, renW m pl.2)) ∧
    ∀ pl ∈ c.minimize, ∀ q ∈ pl.2, q.1.natAbs ∈ domOf (c.apply .endStep) := by
  obtain ⟨f1, f2, f3, f4⟩ := flushMinimize_frame c
  obtain ⟨rs, e, _, o2⟩ := hfs
  have hfl : c.flush = { (({ c.flushMinimize with out := c.flushMinimize.out ++ rs } : CS).flushSymbols.emit (.assume [-1])) with
      minimize := [], externs := [], heur := [], output := [] } := by
    unfold CS.flush
    simp only
    rw [e, flushHeuristic_none _ (by show c.flushMinimize.heur = []; exact f4.trans hh)]
  have habs : abs (c.apply .endStep) = abs c.flushMinimize := by
    rw [apply_end c hf, hfl]
    exact abs_flushSymbols _
  have ha' : Agree c.flushMinimize m := by unfold Agree; rw [← habs]; exact ha
  obtain ⟨g1, g2⟩ := flushMinimize_mins c hi m ha'
  refine ⟨?_, ?_⟩
  · rw [apply_end c hf, hfl]
    simp only [CS.emit]
    rw [minsOf_append, minsOf_append, flushSymbols_mins]
    show (minsOf (c.flushMinimize.out ++ rs) ++ minsOf [Call.assume [-1]]) ++ minsOf [Call.endStep] = _
    rw [minsOf_append, g1, hn, o2]
    simp [minsOf, minOf]
  · intro pl hpl q hq
    unfold domOf; rw [habs]; exact g2 pl hpl q hq

theorem M.init (ext : Bool) : M ({ ext := ext } : CS) [] :=
  ⟨fun _ _ => rfl, (by intro pl h; cases h), rfl⟩

theorem M.emit {c : CS} {Ms base} (hM : M c Ms base) (x : Call) (hx : minOf x = none) : M (c.emit x) Ms base :=
  ⟨hM.cost, hM.nz, (by
    show minsOf (c.out ++ [x]) = base
    rw [minsOf_append, hM.nomin]; simp [minsOf, hx])⟩

/-- all invariants hold just before `endStep` -/
theorem JKM.pre (ext inc : Bool) (ds : List Call) (hx : ∀ d ∈ ds, PlainOk d) :
    ∃ defs, J (preEnd ext inc ds) ((rulesOf ds).filter kept) defs ∧ K (preEnd ext inc ds) (srcOuts ds) defs ∧ M (preEnd ext inc ds) (minsOf ds) ∧
      XI (preEnd ext inc ds) (({} : T).run ds) := by
  have a1 : J (CS.apply { ext := ext } (.initProgram inc)) [] [] := by
    rw [apply_init _ rfl]; exact (J.init ext).emit _ rfl
  have b1 : K (CS.apply { ext := ext } (.initProgram inc)) [] [] := by
    rw [apply_init _ rfl]; exact (K.init ext).emit (J.init ext).inv _ rfl
  have c1 : M (CS.apply { ext := ext } (.initProgram inc)) [] := by
    rw [apply_init _ rfl]; exact (M.init ext).emit _ rfl
  have a2 : J ((CS.apply { ext := ext } (.initProgram inc)).apply .beginStep) [] [] := by
    rw [apply_begin _ a1.nofail]; exact a1.emit _ rfl
  have b2 : K ((CS.apply { ext := ext } (.initProgram inc)).apply .beginStep) [] [] := by
    rw [apply_begin _ a1.nofail]; exact b1.emit a1.inv _ rfl
  have c2 : M ((CS.apply { ext := ext } (.initProgram inc)).apply .beginStep) [] := by
    rw [apply_begin _ a1.nofail]; exact c1.emit _ rfl
  have d2 : XI ((CS.apply { ext := ext } (.initProgram inc)).apply .beginStep) {} := by
    rw [apply_begin _ a1.nofail, apply_init _ rfl]; exact ((XI.init ext).emit _).emit _
  obtain ⟨defs, h1, k1, m1, x1⟩ := run_plainM a2 b2 c2 d2 ds hx
  simp only [List.nil_append] at h1 k1 m1
  exact ⟨defs, h1, k1, m1, x1⟩


/-! ### the pending externals against the declarative reading; the extension flag -/
theorem run_regs_nil (ds : List Call) (t : T) (h : extCalls ds = []) : (t.run ds).regs = t.regs := by
  induction ds generalizing t with
  | nil => rfl
  | cons d r ih =>
    have e : t.run (d :: r) = (t.step d).run r := rfl
    rw [extCalls_cons] at h
    have h1 : extCalls [d] = [] := (List.append_eq_nil_iff.mp h).1
    have h2 : extCalls r = [] := (List.append_eq_nil_iff.mp h).2
    rw [e, ih _ h2]
    cases d <;> first | rfl | (simp [extCalls, extOf] at h1)

theorem extP_decl (c : CS) (ds : List Call) (hxi : XI c (({} : T).run ds)) : extP c = extRules ds := by
  have hH : (({} : T).run ds).heads = headsOf ds := by rw [run_heads]; rfl
  have hsub : ∀ a ∈ (({} : T).run ds).heads, a ∈ headsOf ds := by intro a ha; rwa [hH] at ha
  have hregs := run_regs ds {} (headsOf ds) hsub
  simp only [show ({} : T).regs = [] from rfl, List.filter_nil, List.nil_append] at hregs
  have key : ∀ (v : Nat), c.externs.filter (fun a => !hd c a && ex c a == v)
      = (((extCalls ds).map (·.1)).filter (fun a => !(headsOf ds).contains a)).filter (fun a => lastExt (extCalls ds) a == v) := by
    intro v
    rw [← hregs, List.filter_filter, hxi.r]
    apply List.filter_congr
    intro a _
    rw [hxi.h a, hxi.v a, hH]
    cases hc : (headsOf ds).contains a
    · have hna : a ∉ headsOf ds := by simpa using hc
      rw [run_val_last ds a hna]; simp
    · simp
  unfold extP extRules factsOf freeOf
  rw [key 1, key 0]

theorem auxAtom_ext (c : CS) (cond : List Int) : (c.auxAtom cond).1.ext = c.ext := by
  unfold CS.auxAtom CS.emit
  simp only
  exact (congrArg (·.2.2.1) (rest_mapLits { c with next := c.next + 1, aux := c.aux ++ [c.next] } cond [])).trans rfl

theorem makeAtom_ext (c : CS) (cond : List Int) (named : Bool) : (c.makeAtom cond named).1.ext = c.ext := by
  unfold CS.makeAtom
  split
  · simp only
    split
    · exact (auxAtom_ext _ cond).trans (congrArg (·.2.2.1) (rest_mapAtom c _))
    · show (c.mapAtom (cond.headD 0).natAbs).1.ext = _
      exact congrArg (·.2.2.1) (rest_mapAtom c _)
  · exact auxAtom_ext c cond

theorem apply_plain_ext (c : CS) (hf : c.fail = false) (x : Call) (hx : PlainOk x) : (c.apply x).ext = c.ext := by
  have rext : ∀ {c' : CS}, rest c' = rest c → c'.ext = c.ext := fun h => congrArg (·.2.2.1) h
  cases x with
  | rule ht head body =>
    rw [apply_rule_eq c hf]; split
    · show ((c.mapHead head).1.mapLits body []).1.ext = _; exact rext (by simp)
    · rfl
  | sumRule ht head bound body =>
    rw [apply_sum_eq c hf]; split
    · split
      · show ((c.mapHead head).1.mapWLits body []).1.ext = _; exact rext (by simp)
      · show ((c.mapHead head).1.mapWLits body []).1.ext = _; exact rext (by simp)
    · rfl
  | minimize prio lits =>
    have hany : lits.any (fun p => p.2 == I32MINc) = false := by
      rw [List.any_eq_false]; intro p hp; simpa using (hx p hp).2
    unfold CS.apply
    simp only [hf, Bool.false_eq_true, ↓reduceIte, hany]
  | output str cond =>
    rw [apply_output_eq c hf]
    exact makeAtom_ext c cond true
  | acycEdge a b cond =>
    rw [apply_edge_eq c hf]
    have hp : (pass c (.acycEdge a b cond)).ext = c.ext := by unfold pass; split <;> rfl
    exact (makeAtom_ext _ cond true).trans hp
  | heuristic a t bias prio cond =>
    rw [apply_heu_eq c hf]
    have hp : (pass c (.heuristic a t bias prio cond)).ext = c.ext := by unfold pass; split <;> rfl
    exact (makeAtom_ext _ cond true).trans hp
  | external a v =>
    rw [apply_external_eq c hf]; split
    · show (c.mapAtom a).1.ext = _; exact rext (rest_mapAtom c a)
    · exact rext (rest_mapAtom c a)
  | _ => exact absurd hx (by simp [PlainOk])

theorem run_plain_ext {c : CS} {P defs} (hj : J c P defs) {O} (hk : K c O defs) (ds : List Call) (hx : ∀ d ∈ ds, PlainOk d) :
    (ds.foldl CS.apply c).ext = c.ext := by
  induction ds generalizing c P O defs with
  | nil => rfl
  | cons d r ih =>
    obtain ⟨defs1, h1, k1⟩ := apply_plain hj hk d (hx d (by simp))
    simp only [List.foldl_cons]
    rw [ih h1 k1 (fun e he => hx e (by simp [he]))]
    exact apply_plain_ext c hj.nofail d (hx d (by simp))

theorem preEnd_ext (ext inc : Bool) (ds : List Call) (hx : ∀ d ∈ ds, PlainOk d) : (preEnd ext inc ds).ext = ext := by
  have a1 : J (CS.apply { ext := ext } (.initProgram inc)) [] [] := by
    rw [apply_init _ rfl]; exact (J.init ext).emit _ rfl
  have b1 : K (CS.apply { ext := ext } (.initProgram inc)) [] [] := by
    rw [apply_init _ rfl]; exact (K.init ext).emit (J.init ext).inv _ rfl
  have a2 : J ((CS.apply { ext := ext } (.initProgram inc)).apply .beginStep) [] [] := by
    rw [apply_begin _ a1.nofail]; exact a1.emit _ rfl
  have b2 : K ((CS.apply { ext := ext } (.initProgram inc)).apply .beginStep) [] [] := by
    rw [apply_begin _ a1.nofail]; exact b1.emit a1.inv _ rfl
  unfold preEnd
  rw [run_plain_ext a2 b2 ds hx, apply_begin _ a1.nofail, apply_init _ rfl]
  rfl

/-! ### steps without heuristic directives leave nothing for the heuristic flush -/
def isHeu : Call → Bool
  | .heuristic .. => true
  | _ => false

theorem auxAtom_heur (c : CS) (cond : List Int) : (c.auxAtom cond).1.heur = c.heur := by
  unfold CS.auxAtom CS.emit
  simp only
  exact (congrArg (·.2.2.2.2.2.1) (rest_mapLits { c with next := c.next + 1, aux := c.aux ++ [c.next] } cond [])).trans rfl

theorem makeAtom_heur (c : CS) (cond : List Int) (named : Bool) : (c.makeAtom cond named).1.heur = c.heur := by
  unfold CS.makeAtom
  split
  · simp only
    split
    · exact (auxAtom_heur _ cond).trans (congrArg (·.2.2.2.2.2.1) (rest_mapAtom c _))
    · show (c.mapAtom (cond.headD 0).natAbs).1.heur = _
      exact congrArg (·.2.2.2.2.2.1) (rest_mapAtom c _)
  · exact auxAtom_heur c cond

theorem apply_plain_heur (c : CS) (hf : c.fail = false) (x : Call) (hx : PlainOk x) (hn : isHeu x = false) : (c.apply x).heur = c.heur := by
  have rh : ∀ {c' : CS}, rest c' = rest c → c'.heur = c.heur := fun h => congrArg (·.2.2.2.2.2.1) h
  cases x with
  | rule ht head body =>
    rw [apply_rule_eq c hf]; split
    · show ((c.mapHead head).1.mapLits body []).1.heur = _; exact rh (by simp)
    · rfl
  | sumRule ht head bound body =>
    rw [apply_sum_eq c hf]; split
    · split
      · show ((c.mapHead head).1.mapWLits body []).1.heur = _; exact rh (by simp)
      · show ((c.mapHead head).1.mapWLits body []).1.heur = _; exact rh (by simp)
    · rfl
  | minimize prio lits =>
    have hany : lits.any (fun p => p.2 == I32MINc) = false := by
      rw [List.any_eq_false]; intro p hp; simpa using (hx p hp).2
    unfold CS.apply
    simp only [hf, Bool.false_eq_true, ↓reduceIte, hany]
  | output str cond =>
    rw [apply_output_eq c hf]
    exact makeAtom_heur c cond true
  | acycEdge a b cond =>
    rw [apply_edge_eq c hf]
    have hp : (pass c (.acycEdge a b cond)).heur = c.heur := by unfold pass; split <;> rfl
    exact (makeAtom_heur _ cond true).trans hp
  | heuristic a t bias prio cond => cases hn
  | external a v =>
    rw [apply_external_eq c hf]; split
    · show (c.mapAtom a).1.heur = _; exact rh (rest_mapAtom c a)
    · exact rh (rest_mapAtom c a)
  | _ => exact absurd hx (by simp [PlainOk])

theorem run_plain_heur {c : CS} {P defs} (hj : J c P defs) {O} (hk : K c O defs) (ds : List Call) (hx : ∀ d ∈ ds, PlainOk d) (hn : ∀ d ∈ ds, isHeu d = false) :
    (ds.foldl CS.apply c).heur = c.heur := by
  induction ds generalizing c P O defs with
  | nil => rfl
  | cons d r ih =>
    obtain ⟨defs1, h1, k1⟩ := apply_plain hj hk d (hx d (by simp))
    simp only [List.foldl_cons]
    rw [ih h1 k1 (fun e he => hx e (by simp [he])) (fun e he => hn e (by simp [he]))]
    exact apply_plain_heur c hj.nofail d (hx d (by simp)) (hn d (by simp))

theorem preEnd_noheur (ext inc : Bool) (ds : List Call) (hx : ∀ d ∈ ds, PlainOk d) (hn : ∀ d ∈ ds, isHeu d = false) : (preEnd ext inc ds).heur = [] := by
  have a1 : J (CS.apply { ext := ext } (.initProgram inc)) [] [] := by
    rw [apply_init _ rfl]; exact (J.init ext).emit _ rfl
  have b1 : K (CS.apply { ext := ext } (.initProgram inc)) [] [] := by
    rw [apply_init _ rfl]; exact (K.init ext).emit (J.init ext).inv _ rfl
  have a2 : J ((CS.apply { ext := ext } (.initProgram inc)).apply .beginStep) [] [] := by
    rw [apply_begin _ a1.nofail]; exact a1.emit _ rfl
  have b2 : K ((CS.apply { ext := ext } (.initProgram inc)).apply .beginStep) [] [] := by
    rw [apply_begin _ a1.nofail]; exact b1.emit a1.inv _ rfl
  unfold preEnd
  rw [run_plain_heur a2 b2 ds hx hn, apply_begin _ a1.nofail, apply_init _ rfl]
  rfl

/-- **everything about one step**: the invariants before `endStep`, and the translation invariant after it with the
    externals' rules on the input side -/
theorem step_all (ext inc : Bool) (ds : List Call) (hx : ∀ d ∈ ds, PlainOk d) (hE : ext = false ∨ extCalls ds = []) :
    ∃ defs, J (convert ext (stepCalls inc ds)) ((rulesOf ds).filter kept ++ extRules ds) defs ∧
      J (preEnd ext inc ds) ((rulesOf ds).filter kept) defs ∧ K (preEnd ext inc ds) (srcOuts ds) defs ∧ M (preEnd ext inc ds) (minsOf ds) ∧
      FlushShape (preEnd ext inc ds).flushMinimize ∧ Steps (abs (preEnd ext inc ds)) (abs (convert ext (stepCalls inc ds))) := by
  obtain ⟨defs, h1, k1, m1, x1⟩ := JKM.pre ext inc ds hx
  have hE' : (preEnd ext inc ds).ext = false ∨ (preEnd ext inc ds).externs = [] := by
    rcases hE with h | h
    · left; rw [preEnd_ext ext inc ds hx]; exact h
    · right; rw [x1.r, run_regs_nil ds {} h]
  obtain ⟨f1, f2, f3⟩ := flushMinimize_flags (preEnd ext inc ds)
  have hshape : FlushShape (preEnd ext inc ds).flushMinimize := by
    apply flushShape
    · intro a ha
      exact dom_mono (flushMinimize_steps _) h1.inv a (x1.m a (f2 ▸ ha))
    · rcases hE' with h | h
      · exact Or.inl (f3.trans h)
      · exact Or.inr (f2.trans h)
  refine ⟨defs, ?_, h1, k1, m1, hshape, ?_⟩
  · rw [convert_step, apply_end _ h1.nofail, ← extP_decl _ ds x1]
    exact (h1.flush x1.m hE').emit _ rfl
  · rw [convert_step]; exact apply_steps _ _

end PotasscoVerif.C02
