/-
  Composition lemmas for the aspif round trip (C01): each field the writer emits (` <number>`), each list
  (` <n> <x1> … <xn>`), each string (` <len> <bytes>`) is read back by the corresponding reader function, leaving
  exactly the continuation.  Stated for an arbitrary stream state with a given remaining input, so they chain.
-/
import PotasscoVerif.Lemmas.Decimal
import PotasscoVerif.Model.AspifIn
namespace PotasscoVerif.AspifRT
open PotasscoVerif PotasscoVerif.AspifOut PotasscoVerif.AspifIn PotasscoVerif.CharStream PotasscoVerif.Decimal
open PotasscoVerif.BufferedStream (isWs isDigit I64MAX)

/-- the continuation after a number: starts with a blank or a newline (or is empty) -/
def Sp (k : List Nat) : Prop := ∀ c r, k = c :: r → c = 32 ∨ c = 10

theorem Sp.nds {k : List Nat} (h : Sp k) : NDS k := by
  intro c r e; rcases h c r e with h | h <;> subst h <;> decide

theorem sp_ws : ∀ c ∈ sp, isWs c = true := by intro c hc; simp [sp] at hc; subst hc; decide

theorem sp_addI (x : Int) (k : List Nat) : Sp (addI x ++ k) := by intro c r e; simp [addI, sp] at e; exact Or.inl e.1.symm
theorem sp_addN (x : Nat) (k : List Nat) : Sp (addN x ++ k) := by intro c r e; simp [addN, sp] at e; exact Or.inl e.1.symm
theorem sp_nl (k : List Nat) : Sp (nl ++ k) := by intro c r e; simp [nl] at e; exact Or.inr e.1.symm

/-- ` v` is read by `intIn lo hi` as `v` -/
theorem intIn_addI (lo hi v : Int) (hv : lo ≤ v ∧ v ≤ hi) (h64 : v.natAbs ≤ I64MAX) (a : AS) (k : List Nat) (hr : a.rest = addI v ++ k) (hk : Sp k) :
    ∃ a', intIn lo hi a = .ok (v, a') ∧ a'.rest = k := by
  obtain ⟨a1, h1, hr1⟩ := matchInt_printInt a v sp k (by simpa [addI] using hr) sp_ws hk.nds h64
  unfold intIn; rw [h1]
  simp only [hv.1, hv.2, and_self, ↓reduceIte]
  exact ⟨a1, rfl, hr1⟩

theorem printInt_nat (n : Nat) : printInt (n : Int) = printNat n := by
  unfold printInt; have : ¬ ((n : Int) < 0) := by omega
  simp [this]

theorem addN_eq (n : Nat) : addN n = addI (n : Int) := by simp [addN, addI, printInt_nat]

theorem posMax_addN (m n : Nat) (hn : n ≤ m) (hm : m ≤ I64MAX) (a : AS) (k : List Nat) (hr : a.rest = addN n ++ k) (hk : Sp k) :
    ∃ a', posMax m a = .ok (n, a') ∧ a'.rest = k := by
  obtain ⟨a1, h1, hr1⟩ := intIn_addI 0 (m : Int) (n : Int) (by omega) (by omega) a k (by rw [← addN_eq]; exact hr) hk
  unfold posMax
  simp only [h1, bind, Except.bind, pure, Except.pure, Int.toNat_natCast]
  exact ⟨a1, rfl, hr1⟩

theorem pos_addN (n : Nat) (hn : n ≤ U32MAX) (a : AS) (k : List Nat) (hr : a.rest = addN n ++ k) (hk : Sp k) :
    ∃ a', pos a = .ok (n, a') ∧ a'.rest = k :=
  posMax_addN U32MAX n hn (by decide) a k hr hk

theorem atom_addN (n : Nat) (hn : 1 ≤ n ∧ n ≤ 2147483647) (a : AS) (k : List Nat) (hr : a.rest = addN n ++ k) (hk : Sp k) :
    ∃ a', atom a = .ok (n, a') ∧ a'.rest = k := by
  obtain ⟨a1, h1, hr1⟩ := intIn_addI Gen.atomMin Gen.atomMax (n : Int) (by simp [Gen.atomMin, Gen.atomMax]; omega)
    (by have : I64MAX = 9223372036854775807 := rfl
        omega) a k (by rw [← addN_eq]; exact hr) hk
  unfold atom
  simp only [h1, bind, Except.bind, pure, Except.pure, Int.toNat_natCast]
  exact ⟨a1, rfl, hr1⟩

theorem lit_addI (v : Int) (hv : v ≠ 0 ∧ v.natAbs ≤ 2147483647) (a : AS) (k : List Nat) (hr : a.rest = addI v ++ k) (hk : Sp k) :
    ∃ a', lit a = .ok (v, a') ∧ a'.rest = k := by
  have h64 : v.natAbs ≤ I64MAX := by
    have : I64MAX = 9223372036854775807 := rfl
    omega
  obtain ⟨a1, h1, hr1⟩ := matchInt_printInt a v sp k (by simpa [addI] using hr) sp_ws hk.nds h64
  unfold lit; rw [h1]
  have : v ≠ 0 ∧ -(Gen.atomMax : Int) ≤ v ∧ v ≤ Gen.atomMax := by simp only [Gen.atomMax]; omega
  simp only
  rw [if_pos this]
  exact ⟨a1, rfl, hr1⟩

/-- a counted-less list: `n` items, each written by `enc` (starting with a blank), read by `p` -/
theorem rep_enc {α : Type} (p : P α) (enc : α → List Nat) (Ok : α → Prop)
    (hp : ∀ (x : α) (a : AS) (k : List Nat), Ok x → a.rest = enc x ++ k → Sp k → ∃ a', p a = .ok (x, a') ∧ a'.rest = k)
    (henc : ∀ (x : α) (k : List Nat), Sp (enc x ++ k)) :
    ∀ (l : List α) (acc : List α) (a : AS) (k : List Nat), (∀ x ∈ l, Ok x) → a.rest = (l.map enc).flatten ++ k → Sp k →
      ∃ a', rep p l.length acc a = .ok (acc.reverse ++ l, a') ∧ a'.rest = k := by
  intro l
  induction l with
  | nil => intro acc a k _ hr _; exact ⟨a, by simp [rep], by simpa using hr⟩
  | cons x r ih =>
    intro acc a k hok hr hk
    simp only [List.map_cons, List.flatten_cons, List.append_assoc] at hr
    have hsp : Sp ((r.map enc).flatten ++ k) := by
      cases r with
      | nil => simpa using hk
      | cons y r' => simp only [List.map_cons, List.flatten_cons, List.append_assoc]; exact henc y _
    obtain ⟨a1, h1, hr1⟩ := hp x a _ (hok x (by simp)) hr hsp
    obtain ⟨a2, h2, hr2⟩ := ih (x :: acc) a1 k (fun y hy => hok y (by simp [hy])) hr1 hk
    refine ⟨a2, ?_, hr2⟩
    simp only [List.length_cons, rep, h1, bind, Except.bind]
    rw [h2]; simp

theorem counted_enc {α : Type} (p : P α) (enc : α → List Nat) (Ok : α → Prop)
    (hp : ∀ (x : α) (a : AS) (k : List Nat), Ok x → a.rest = enc x ++ k → Sp k → ∃ a', p a = .ok (x, a') ∧ a'.rest = k)
    (henc : ∀ (x : α) (k : List Nat), Sp (enc x ++ k))
    (l : List α) (hlen : l.length ≤ U32MAX) (a : AS) (k : List Nat) (hok : ∀ x ∈ l, Ok x)
    (hr : a.rest = addN l.length ++ (l.map enc).flatten ++ k) (hk : Sp k) :
    ∃ a', counted p a = .ok (l, a') ∧ a'.rest = k := by
  have hsp : Sp ((l.map enc).flatten ++ k) := by
    cases l with
    | nil => simpa using hk
    | cons y r' => simp only [List.map_cons, List.flatten_cons, List.append_assoc]; exact henc y _
  obtain ⟨a1, h1, hr1⟩ := pos_addN l.length hlen a _ (by rw [hr]; simp) hsp
  obtain ⟨a2, h2, hr2⟩ := rep_enc p enc Ok hp henc l [] a1 k hok hr1 hk
  refine ⟨a2, ?_, hr2⟩
  unfold counted
  simp only [h1, bind, Except.bind]
  simpa using h2

theorem atoms_enc (l : List Nat) (hlen : l.length ≤ U32MAX) (hok : ∀ x ∈ l, 1 ≤ x ∧ x ≤ 2147483647) (a : AS) (k : List Nat)
    (hr : a.rest = addNats l ++ k) (hk : Sp k) : ∃ a', atoms a = .ok (l, a') ∧ a'.rest = k :=
  counted_enc atom addN _ (fun x a k hx hr hk => atom_addN x hx a k hr hk) sp_addN l hlen a k hok (by simpa [addNats] using hr) hk

theorem lits_enc (l : List Int) (hlen : l.length ≤ U32MAX) (hok : ∀ x ∈ l, x ≠ 0 ∧ x.natAbs ≤ 2147483647) (a : AS) (k : List Nat)
    (hr : a.rest = addLits l ++ k) (hk : Sp k) : ∃ a', lits a = .ok (l, a') ∧ a'.rest = k :=
  counted_enc lit addI _ (fun x a k hx hr hk => lit_addI x hx a k hr hk) sp_addI l hlen a k hok (by simpa [addLits] using hr) hk

theorem ids_enc (l : List Nat) (hlen : l.length ≤ U32MAX) (hok : ∀ x ∈ l, x ≤ U32MAX) (a : AS) (k : List Nat)
    (hr : a.rest = addNats l ++ k) (hk : Sp k) : ∃ a', ids a = .ok (l, a') ∧ a'.rest = k :=
  counted_enc pos addN _ (fun x a k hx hr hk => pos_addN x hx a k hr hk) sp_addN l hlen a k hok (by simpa [addNats] using hr) hk

theorem wlit_enc (minW : Int) (p : Int × Int) (hp : (p.1 ≠ 0 ∧ p.1.natAbs ≤ 2147483647) ∧ minW ≤ p.2 ∧ p.2 ≤ 2147483647 ∧ -2147483648 ≤ p.2)
    (a : AS) (k : List Nat) (hr : a.rest = (addI p.1 ++ addI p.2) ++ k) (hk : Sp k) : ∃ a', wlit minW a = .ok (p, a') ∧ a'.rest = k := by
  obtain ⟨a1, h1, hr1⟩ := lit_addI p.1 hp.1 a (addI p.2 ++ k) (by simpa using hr) (sp_addI _ _)
  have hle : p.2 ≤ I32MAX := by
    have : I32MAX = 2147483647 := rfl
    omega
  have h64 : p.2.natAbs ≤ I64MAX := by
    have : I64MAX = 9223372036854775807 := rfl
    omega
  obtain ⟨a2, h2, hr2⟩ := intIn_addI minW I32MAX p.2 ⟨hp.2.1, hle⟩ h64 a1 k hr1 hk
  unfold wlit
  simp only [h1, h2, bind, Except.bind, pure, Except.pure]
  exact ⟨a2, rfl, hr2⟩

theorem wlits_enc (minW : Int) (l : List (Int × Int)) (hlen : l.length ≤ U32MAX)
    (hok : ∀ p ∈ l, (p.1 ≠ 0 ∧ p.1.natAbs ≤ 2147483647) ∧ minW ≤ p.2 ∧ p.2 ≤ 2147483647 ∧ -2147483648 ≤ p.2) (a : AS) (k : List Nat)
    (hr : a.rest = addWLits l ++ k) (hk : Sp k) : ∃ a', wlits minW a = .ok (l.filter (fun p => p.2 ≠ 0), a') ∧ a'.rest = k := by
  obtain ⟨a1, h1, hr1⟩ := counted_enc (wlit minW) (fun p => addI p.1 ++ addI p.2) _ (fun x a k hx hr hk => wlit_enc minW x hx a k hr hk)
    (fun x k => by simp only [List.append_assoc]; exact sp_addI _ _) l hlen a k hok (by simpa [addWLits] using hr) hk
  unfold wlits
  simp only [h1, bind, Except.bind, pure, Except.pure]
  exact ⟨a1, rfl, hr1⟩
end PotasscoVerif.AspifRT

namespace PotasscoVerif.AspifRT
open PotasscoVerif PotasscoVerif.AspifOut PotasscoVerif.AspifIn PotasscoVerif.CharStream PotasscoVerif.Decimal
open PotasscoVerif.BufferedStream (isWs isDigit I64MAX)

theorem get_plain (a : AS) (c : Nat) (r : List Nat) (h : a.rest = c :: r) (h0 : c ≠ 0) (h13 : c ≠ 13) (h10 : c ≠ 10) :
    a.get = (c, { rest := r, line := a.line, canUnget := true }) := by
  unfold AS.get; rw [h]; simp [h0, h13, h10]

theorem takeWhile_nonul (s k : List Nat) (h : ∀ c ∈ s, c ≠ 0) : ((s ++ k).takeWhile (· != 0)).take s.length = s := by
  induction s with
  | nil => simp
  | cons c r ih =>
    have hc : (c != 0) = true := by simpa using h c (by simp)
    simp only [List.cons_append, List.takeWhile_cons, hc, ↓reduceIte, List.length_cons, List.take_succ_cons]
    rw [ih (fun x hx => h x (by simp [hx]))]

/-- ` <len> <bytes>` is read by `matchString` as the bytes (any bytes but NUL: blanks, newlines, digits, …) -/
theorem string_enc (s : List Nat) (hlen : s.length ≤ U32MAX) (hn : ∀ c ∈ s, c ≠ 0) (a : AS) (k : List Nat) (hr : a.rest = addStr s ++ k) :
    ∃ a', AspifIn.string a = .ok (s, a') ∧ a'.rest = k := by
  obtain ⟨a1, h1, hr1⟩ := pos_addN s.length hlen a (sp ++ s ++ k) (by simpa [addStr] using hr)
    (by intro c r e; simp [sp] at e; exact Or.inl e.1.symm)
  have hg := get_plain a1 32 (s ++ k) (by simpa [sp] using hr1) (by decide) (by decide) (by decide)
  unfold AspifIn.string
  simp only [h1, bind, Except.bind, hg]
  unfold AS.copy
  simp only
  rw [takeWhile_nonul s k hn]
  simp only [beq_self_eq_true, ↓reduceIte, List.drop_left']
  exact ⟨_, rfl, by simp⟩

/-- writer-side well-formedness of a call: what `AspifOutput` may be given so that the text is valid aspif -/
def atomOk (a : Nat) : Prop := 1 ≤ a ∧ a ≤ 2147483647
def litOk (l : Int) : Prop := l ≠ 0 ∧ l.natAbs ≤ 2147483647
def i32 (x : Int) : Prop := -2147483648 ≤ x ∧ x ≤ 2147483647
def lenOk {α : Type} (l : List α) : Prop := l.length ≤ U32MAX

def WFw : Call → Prop
  | .rule ht head body => ht ≤ 1 ∧ lenOk head ∧ (∀ a ∈ head, atomOk a) ∧ lenOk body ∧ (∀ l ∈ body, litOk l)
  | .sumRule ht head b ws => ht ≤ 1 ∧ lenOk head ∧ (∀ a ∈ head, atomOk a) ∧ i32 b ∧ lenOk ws ∧ (∀ p ∈ ws, litOk p.1 ∧ 0 ≤ p.2 ∧ p.2 ≤ 2147483647)
  | .minimize p ws => i32 p ∧ lenOk ws ∧ (∀ q ∈ ws, litOk q.1 ∧ i32 q.2)
  | .project atoms => lenOk atoms ∧ ∀ a ∈ atoms, atomOk a
  | .output s c => lenOk s ∧ (∀ x ∈ s, x ≠ 0) ∧ lenOk c ∧ ∀ l ∈ c, litOk l
  | .external a v => atomOk a ∧ v ≤ 3
  | .assume ls => lenOk ls ∧ ∀ l ∈ ls, litOk l
  | .heuristic a t b p c => atomOk a ∧ t ≤ 5 ∧ i32 b ∧ p ≤ 2147483647 ∧ lenOk c ∧ ∀ l ∈ c, litOk l
  | .acycEdge s t c => (0 ≤ s ∧ s ≤ 2147483647) ∧ (0 ≤ t ∧ t ≤ 2147483647) ∧ lenOk c ∧ ∀ l ∈ c, litOk l
  | .theoryNum id n => id ≤ U32MAX ∧ i32 n
  | .theorySym id s => id ≤ U32MAX ∧ lenOk s ∧ ∀ x ∈ s, x ≠ 0
  | .theoryCompound id t args => id ≤ U32MAX ∧ (-3 ≤ t ∧ t ≤ 2147483647) ∧ lenOk args ∧ ∀ x ∈ args, x ≤ U32MAX
  | .theoryElement id ts c => id ≤ U32MAX ∧ lenOk ts ∧ (∀ x ∈ ts, x ≤ U32MAX) ∧ lenOk c ∧ ∀ l ∈ c, litOk l
  | .theoryAtom a t es g => a ≤ U32MAX ∧ t ≤ U32MAX ∧ lenOk es ∧ (∀ x ∈ es, x ≤ U32MAX) ∧ (∀ p, g = some p → p.1 ≤ U32MAX ∧ p.2 ≤ U32MAX)
  | _ => True

/-- the permitted difference of a round trip: literals of weight 0 are not delivered -/
def norm : Call → Call
  | .sumRule ht head b ws => .sumRule ht head b (ws.filter (fun p => p.2 ≠ 0))
  | .minimize p ws => .minimize p (ws.filter (fun p => p.2 ≠ 0))
  | c => c
end PotasscoVerif.AspifRT

namespace PotasscoVerif.AspifRT
open PotasscoVerif PotasscoVerif.AspifOut PotasscoVerif.AspifIn PotasscoVerif.CharStream PotasscoVerif.Decimal
open PotasscoVerif.BufferedStream (isWs isDigit I64MAX)

/-- the fields of a directive as written, without the leading directive number and the final newline -/
def fields : Call → List Nat
  | .rule ht head body => addN ht ++ addNats head ++ addI Gen.Body_t_Normal ++ addLits body
  | .sumRule ht head bound body => addN ht ++ addNats head ++ addI Gen.Body_t_Sum ++ addI bound ++ addWLits body
  | .minimize prio lits => addI prio ++ addWLits lits
  | .project atoms => addNats atoms
  | .output name cond => addStr name ++ addLits cond
  | .external a v => addN a ++ addN v
  | .assume lits => addLits lits
  | .heuristic a t bias prio cond => addN t ++ addN a ++ addI bias ++ addN prio ++ addLits cond
  | .acycEdge s t cond => addI s ++ addI t ++ addLits cond
  | .theoryNum id n => addI Gen.Theory_t_Number ++ addN id ++ addI n
  | .theorySym id name => addI Gen.Theory_t_Symbol ++ addN id ++ addStr name
  | .theoryCompound id c args => addI Gen.Theory_t_Compound ++ addN id ++ addI c ++ addNats args
  | .theoryElement id terms cond => addI Gen.Theory_t_Element ++ addN id ++ addNats terms ++ addLits cond
  | .theoryAtom a t elems none => addI Gen.Theory_t_Atom ++ addN a ++ addN t ++ addNats elems
  | .theoryAtom a t elems (some (op, rhs)) => addI Gen.Theory_t_AtomWithGuard ++ addN a ++ addN t ++ addNats elems ++ addN op ++ addN rhs
  | _ => []

def dirCode : Call → Int
  | .rule .. | .sumRule .. => Gen.Directive_t_Rule
  | .minimize .. => Gen.Directive_t_Minimize
  | .project .. => Gen.Directive_t_Project
  | .output .. => Gen.Directive_t_Output
  | .external .. => Gen.Directive_t_External
  | .assume .. => Gen.Directive_t_Assume
  | .heuristic .. => Gen.Directive_t_Heuristic
  | .acycEdge .. => Gen.Directive_t_Edge
  | .theoryNum .. | .theorySym .. | .theoryCompound .. | .theoryElement .. | .theoryAtom .. => Gen.Directive_t_Theory
  | _ => 0

def isDirective : Call → Bool
  | .initProgram _ | .beginStep | .endStep => false
  | _ => true

theorem writeCall_fields (c : Call) (h : isDirective c = true) : writeCall c = dir (dirCode c) ++ fields c ++ nl := by
  cases c with
  | theoryAtom a t es g => cases g with
    | none => simp [writeCall, fields, dirCode]
    | some p => obtain ⟨op, rhs⟩ := p; simp [writeCall, fields, dirCode]
  | initProgram _ => cases h
  | beginStep => cases h
  | endStep => cases h
  | _ => simp [writeCall, fields, dirCode]

theorem directive_rule_rt (ht : Nat) (head : List Nat) (body : List Int) (hw : WFw (.rule ht head body)) (a : AS) (k : List Nat)
    (hr : a.rest = fields (.rule ht head body) ++ (nl ++ k)) :
    ∃ a', directive (N Gen.Directive_t_Rule) a = .ok (some (.rule ht head body), a') ∧ a'.rest = nl ++ k := by
  obtain ⟨hht, hlh, hh, hlb, hb⟩ := hw
  simp only [fields, List.append_assoc] at hr
  obtain ⟨a1, h1, r1⟩ := posMax_addN (N Gen.Head_t_eMax) ht hht (by decide) a _ hr (by simp only [addNats, List.append_assoc]; exact sp_addN _ _)
  obtain ⟨a2, h2, r2⟩ := atoms_enc head hlh hh a1 _ r1 (sp_addI _ _)
  have e0 : addI Gen.Body_t_Normal = addN 0 := by simp [addN_eq, Gen.Body_t_Normal]
  obtain ⟨a3, h3, r3⟩ := posMax_addN (N Gen.Body_t_eMax) 0 (by decide) (by decide) a2 (addLits body ++ (nl ++ k)) (by rw [r2, e0])
    (by unfold addLits; rw [List.append_assoc]; exact sp_addN _ _)
  obtain ⟨a4, h4, r4⟩ := lits_enc body hlb hb a3 _ r3 (sp_nl _)
  refine ⟨a4, ?_, r4⟩
  unfold directive
  simp only [↓reduceIte, h1, h2, h3, h4, bind, Except.bind, pure, Except.pure]
  rfl

theorem i32_range {v : Int} (h : i32 v) : I32MIN ≤ v ∧ v ≤ I32MAX := by
  have e1 : I32MIN = -2147483648 := rfl
  have e2 : I32MAX = 2147483647 := rfl
  unfold i32 at h; omega

theorem i64_of_i32 {v : Int} (h : i32 v) : v.natAbs ≤ I64MAX := by
  have : I64MAX = 9223372036854775807 := rfl
  unfold i32 at h; omega

theorem directive_sum_rt (ht : Nat) (head : List Nat) (b : Int) (ws : List (Int × Int)) (hw : WFw (.sumRule ht head b ws)) (a : AS) (k : List Nat)
    (hr : a.rest = fields (.sumRule ht head b ws) ++ (nl ++ k)) :
    ∃ a', directive (N Gen.Directive_t_Rule) a = .ok (some (norm (.sumRule ht head b ws)), a') ∧ a'.rest = nl ++ k := by
  obtain ⟨hht, hlh, hh, hb, hlw, hws⟩ := hw
  simp only [fields, List.append_assoc] at hr
  obtain ⟨a1, h1, r1⟩ := posMax_addN (N Gen.Head_t_eMax) ht hht (by decide) a _ hr (by simp only [addNats, List.append_assoc]; exact sp_addN _ _)
  obtain ⟨a2, h2, r2⟩ := atoms_enc head hlh hh a1 _ r1 (sp_addI _ _)
  have e1 : addI Gen.Body_t_Sum = addN 1 := by simp [addN_eq, Gen.Body_t_Sum]
  obtain ⟨a3, h3, r3⟩ := posMax_addN (N Gen.Body_t_eMax) 1 (by decide) (by decide) a2 (addI b ++ (addWLits ws ++ (nl ++ k))) (by rw [r2, e1]) (sp_addI _ _)
  obtain ⟨a4, h4, r4⟩ := intIn_addI I32MIN I32MAX b (i32_range hb) (i64_of_i32 hb) a3 (addWLits ws ++ (nl ++ k)) r3
    (by unfold addWLits; rw [List.append_assoc]; exact sp_addN _ _)
  obtain ⟨a5, h5, r5⟩ := wlits_enc 0 ws hlw (fun p hp => ⟨(hws p hp).1, (hws p hp).2.1, (hws p hp).2.2, by have := (hws p hp).2.1; omega⟩) a4 _ r4 (sp_nl _)
  refine ⟨a5, ?_, r5⟩
  unfold directive
  have hne : ¬ ((1 : Nat) = N Gen.Body_t_Normal) := by decide
  simp only [↓reduceIte, h1, h2, h3, h4, h5, bind, Except.bind, pure, Except.pure, hne, norm]

theorem directive_minimize_rt (p : Int) (ws : List (Int × Int)) (hw : WFw (.minimize p ws)) (a : AS) (k : List Nat)
    (hr : a.rest = fields (.minimize p ws) ++ (nl ++ k)) :
    ∃ a', directive (N Gen.Directive_t_Minimize) a = .ok (some (norm (.minimize p ws)), a') ∧ a'.rest = nl ++ k := by
  obtain ⟨hp, hlw, hws⟩ := hw
  simp only [fields, List.append_assoc] at hr
  obtain ⟨a1, h1, r1⟩ := intIn_addI I32MIN I32MAX p (i32_range hp) (i64_of_i32 hp) a (addWLits ws ++ (nl ++ k)) hr
    (by unfold addWLits; rw [List.append_assoc]; exact sp_addN _ _)
  have e1 : I32MIN = -2147483648 := rfl
  obtain ⟨a2, h2, r2⟩ := wlits_enc I32MIN ws hlw (fun q hq => ⟨(hws q hq).1, by have := (hws q hq).2; unfold i32 at this; omega, by have := (hws q hq).2; unfold i32 at this; omega,
    by have := (hws q hq).2; unfold i32 at this; omega⟩) a1 _ r1 (sp_nl _)
  refine ⟨a2, ?_, r2⟩
  unfold directive
  have n1 : ¬ (N Gen.Directive_t_Minimize = N Gen.Directive_t_Rule) := by decide
  simp only [↓reduceIte, n1, h1, h2, bind, Except.bind, pure, Except.pure, norm]

theorem directive_project_rt (atoms0 : List Nat) (hw : WFw (.project atoms0)) (a : AS) (k : List Nat)
    (hr : a.rest = fields (.project atoms0) ++ (nl ++ k)) :
    ∃ a', directive (N Gen.Directive_t_Project) a = .ok (some (.project atoms0), a') ∧ a'.rest = nl ++ k := by
  obtain ⟨hl, hh⟩ := hw
  simp only [fields] at hr
  obtain ⟨a1, h1, r1⟩ := atoms_enc atoms0 hl hh a _ hr (sp_nl _)
  refine ⟨a1, ?_, r1⟩
  unfold directive
  have n1 : ¬ (N Gen.Directive_t_Project = N Gen.Directive_t_Rule) := by decide
  have n2 : ¬ (N Gen.Directive_t_Project = N Gen.Directive_t_Minimize) := by decide
  simp only [↓reduceIte, n1, n2, h1, bind, Except.bind, pure, Except.pure]

theorem directive_output_rt (str : List Nat) (cond : List Int) (hw : WFw (.output str cond)) (a : AS) (k : List Nat)
    (hr : a.rest = fields (.output str cond) ++ (nl ++ k)) :
    ∃ a', directive (N Gen.Directive_t_Output) a = .ok (some (.output str cond), a') ∧ a'.rest = nl ++ k := by
  obtain ⟨hls, hn, hlc, hc⟩ := hw
  simp only [fields, List.append_assoc] at hr
  obtain ⟨a1, h1, r1⟩ := string_enc str hls hn a _ hr
  obtain ⟨a2, h2, r2⟩ := lits_enc cond hlc hc a1 _ r1 (sp_nl _)
  refine ⟨a2, ?_, r2⟩
  unfold directive
  have n1 : ¬ (N Gen.Directive_t_Output = N Gen.Directive_t_Rule) := by decide
  have n2 : ¬ (N Gen.Directive_t_Output = N Gen.Directive_t_Minimize) := by decide
  have n3 : ¬ (N Gen.Directive_t_Output = N Gen.Directive_t_Project) := by decide
  simp only [↓reduceIte, n1, n2, n3, h1, h2, bind, Except.bind, pure, Except.pure]

theorem directive_external_rt (x v : Nat) (hw : WFw (.external x v)) (a : AS) (k : List Nat)
    (hr : a.rest = fields (.external x v) ++ (nl ++ k)) :
    ∃ a', directive (N Gen.Directive_t_External) a = .ok (some (.external x v), a') ∧ a'.rest = nl ++ k := by
  obtain ⟨hx, hv⟩ := hw
  simp only [fields, List.append_assoc] at hr
  obtain ⟨a1, h1, r1⟩ := atom_addN x hx a _ hr (sp_addN _ _)
  obtain ⟨a2, h2, r2⟩ := posMax_addN (N Gen.Value_t_eMax) v hv (by decide) a1 _ r1 (sp_nl _)
  refine ⟨a2, ?_, r2⟩
  unfold directive
  have n1 : ¬ (N Gen.Directive_t_External = N Gen.Directive_t_Rule) := by decide
  have n2 : ¬ (N Gen.Directive_t_External = N Gen.Directive_t_Minimize) := by decide
  have n3 : ¬ (N Gen.Directive_t_External = N Gen.Directive_t_Project) := by decide
  have n4 : ¬ (N Gen.Directive_t_External = N Gen.Directive_t_Output) := by decide
  simp only [↓reduceIte, n1, n2, n3, n4, h1, h2, bind, Except.bind, pure, Except.pure]

theorem directive_assume_rt (ls : List Int) (hw : WFw (.assume ls)) (a : AS) (k : List Nat)
    (hr : a.rest = fields (.assume ls) ++ (nl ++ k)) :
    ∃ a', directive (N Gen.Directive_t_Assume) a = .ok (some (.assume ls), a') ∧ a'.rest = nl ++ k := by
  obtain ⟨hl, hh⟩ := hw
  simp only [fields] at hr
  obtain ⟨a1, h1, r1⟩ := lits_enc ls hl hh a _ hr (sp_nl _)
  refine ⟨a1, ?_, r1⟩
  unfold directive
  have n1 : ¬ (N Gen.Directive_t_Assume = N Gen.Directive_t_Rule) := by decide
  have n2 : ¬ (N Gen.Directive_t_Assume = N Gen.Directive_t_Minimize) := by decide
  have n3 : ¬ (N Gen.Directive_t_Assume = N Gen.Directive_t_Project) := by decide
  have n4 : ¬ (N Gen.Directive_t_Assume = N Gen.Directive_t_Output) := by decide
  have n5 : ¬ (N Gen.Directive_t_Assume = N Gen.Directive_t_External) := by decide
  simp only [↓reduceIte, n1, n2, n3, n4, n5, h1, bind, Except.bind, pure, Except.pure]

theorem directive_heuristic_rt (x t : Nat) (bias : Int) (prio : Nat) (cond : List Int) (hw : WFw (.heuristic x t bias prio cond)) (a : AS) (k : List Nat)
    (hr : a.rest = fields (.heuristic x t bias prio cond) ++ (nl ++ k)) :
    ∃ a', directive (N Gen.Directive_t_Heuristic) a = .ok (some (.heuristic x t bias prio cond), a') ∧ a'.rest = nl ++ k := by
  obtain ⟨hx, ht, hb, hp, hlc, hc⟩ := hw
  simp only [fields, List.append_assoc] at hr
  obtain ⟨a1, h1, r1⟩ := posMax_addN (N Gen.Heuristic_t_eMax) t ht (by decide) a _ hr (sp_addN _ _)
  obtain ⟨a2, h2, r2⟩ := atom_addN x hx a1 _ r1 (sp_addI _ _)
  obtain ⟨a3, h3, r3⟩ := intIn_addI I32MIN I32MAX bias (i32_range hb) (i64_of_i32 hb) a2 _ r2 (sp_addN _ _)
  obtain ⟨a4, h4, r4⟩ := posMax_addN (N I32MAX) prio hp (by decide) a3 (addLits cond ++ (nl ++ k)) r3 (by unfold addLits; rw [List.append_assoc]; exact sp_addN _ _)
  obtain ⟨a5, h5, r5⟩ := lits_enc cond hlc hc a4 _ r4 (sp_nl _)
  refine ⟨a5, ?_, r5⟩
  unfold directive
  have n1 : ¬ (N Gen.Directive_t_Heuristic = N Gen.Directive_t_Rule) := by decide
  have n2 : ¬ (N Gen.Directive_t_Heuristic = N Gen.Directive_t_Minimize) := by decide
  have n3 : ¬ (N Gen.Directive_t_Heuristic = N Gen.Directive_t_Project) := by decide
  have n4 : ¬ (N Gen.Directive_t_Heuristic = N Gen.Directive_t_Output) := by decide
  have n5 : ¬ (N Gen.Directive_t_Heuristic = N Gen.Directive_t_External) := by decide
  have n6 : ¬ (N Gen.Directive_t_Heuristic = N Gen.Directive_t_Assume) := by decide
  simp only [↓reduceIte, n1, n2, n3, n4, n5, n6, h1, h2, h3, h4, h5, bind, Except.bind, pure, Except.pure]

theorem directive_edge_rt (s0 t0 : Int) (cond : List Int) (hw : WFw (.acycEdge s0 t0 cond)) (a : AS) (k : List Nat)
    (hr : a.rest = fields (.acycEdge s0 t0 cond) ++ (nl ++ k)) :
    ∃ a', directive (N Gen.Directive_t_Edge) a = .ok (some (.acycEdge s0 t0 cond), a') ∧ a'.rest = nl ++ k := by
  obtain ⟨hs, ht, hlc, hc⟩ := hw
  simp only [fields, List.append_assoc] at hr
  have es : addI s0 = addN s0.toNat := by rw [addN_eq]; congr 1; omega
  have et : addI t0 = addN t0.toNat := by rw [addN_eq]; congr 1; omega
  rw [es, et] at hr
  obtain ⟨a1, h1, r1⟩ := posMax_addN (N I32MAX) s0.toNat (by have : N I32MAX = 2147483647 := rfl; omega) (by decide) a _ hr (sp_addN _ _)
  obtain ⟨a2, h2, r2⟩ := posMax_addN (N I32MAX) t0.toNat (by have : N I32MAX = 2147483647 := rfl; omega) (by decide) a1 (addLits cond ++ (nl ++ k)) r1 (by unfold addLits; rw [List.append_assoc]; exact sp_addN _ _)
  obtain ⟨a3, h3, r3⟩ := lits_enc cond hlc hc a2 _ r2 (sp_nl _)
  refine ⟨a3, ?_, r3⟩
  unfold directive
  have n1 : ¬ (N Gen.Directive_t_Edge = N Gen.Directive_t_Rule) := by decide
  have n2 : ¬ (N Gen.Directive_t_Edge = N Gen.Directive_t_Minimize) := by decide
  have n3 : ¬ (N Gen.Directive_t_Edge = N Gen.Directive_t_Project) := by decide
  have n4 : ¬ (N Gen.Directive_t_Edge = N Gen.Directive_t_Output) := by decide
  have n5 : ¬ (N Gen.Directive_t_Edge = N Gen.Directive_t_External) := by decide
  have n6 : ¬ (N Gen.Directive_t_Edge = N Gen.Directive_t_Assume) := by decide
  have n7 : ¬ (N Gen.Directive_t_Edge = N Gen.Directive_t_Heuristic) := by decide
  have hs' : ((s0.toNat : Nat) : Int) = s0 := by omega
  have ht' : ((t0.toNat : Nat) : Int) = t0 := by omega
  simp only [↓reduceIte, n1, n2, n3, n4, n5, n6, n7, h1, h2, h3, bind, Except.bind, pure, Except.pure, hs', ht']
end PotasscoVerif.AspifRT
