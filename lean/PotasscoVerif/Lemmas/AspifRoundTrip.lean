/-
  Composition lemmas for the aspif round trip (C01): each field the writer emits (` <number>`), each list
  (` <n> <x1> … <xn>`), each string (` <len> <bytes>`) is read back by the corresponding reader function, leaving
  exactly the continuation.  Stated for an arbitrary stream state with a given remaining input, so they chain.
-/
import PotasscoVerif.Lemmas.Decimal
import PotasscoVerif.Model.AspifIn
namespace PotasscoVerif.AspifRT
open PotasscoVerif PotasscoVerif.AspifOut PotasscoVerif.AspifIn PotasscoVerif.CharStream PotasscoVerif.Decimal
open PotasscoVerif.BufferedStream (isWs isDigit I64MAX)

/-- the continuation after a number: starts with a blank or a newline (or is empty) -/
def Sp (k : List Nat) : Prop := ∀ c r, k = c :: r → c = 32 ∨ c = 10

theorem Sp.nds {k : List Nat} (h : Sp k) : NDS k := by
  intro c r e; rcases h c r e with h | h <;> subst h <;> decide

theorem sp_ws : ∀ c ∈ sp, isWs c = true := by intro c hc; simp [sp] at hc; subst hc; decide

theorem sp_addI (x : Int) (k : List Nat) : Sp (addI x ++ k) := by intro c r e; simp [addI, sp] at e; exact Or.inl e.1.symm
theorem sp_addN (x : Nat) (k : List Nat) : Sp (addN x ++ k) := by intro c r e; simp [addN, sp] at e; exact Or.inl e.1.symm
theorem sp_nl (k : List Nat) : Sp (nl ++ k) := by intro c r e; simp [nl] at e; exact Or.inr e.1.symm

/-- ` v` is read by `intIn lo hi` as `v` -/
theorem intIn_addI (lo hi v : Int) (hv : lo ≤ v ∧ v ≤ hi) (h64 : v.natAbs ≤ I64MAX) (a : AS) (k : List Nat) (hr : a.rest = addI v ++ k) (hk : Sp k) :
    ∃ a', intIn lo hi a = .ok (v, a') ∧ a'.rest = k := by
  obtain ⟨a1, h1, hr1⟩ := matchInt_printInt a v sp k (by simpa [addI] using hr) sp_ws hk.nds h64
  unfold intIn; rw [h1]
  simp only [hv.1, hv.2, and_self, ↓reduceIte]
  exact ⟨a1, rfl, hr1⟩

theorem printInt_nat (n : Nat) : printInt (n : Int) = printNat n := by
  unfold printInt; have : ¬ ((n : Int) < 0) := by omega
  simp [this]

theorem addN_eq (n : Nat) : addN n = addI (n : Int) := by simp [addN, addI, printInt_nat]

theorem posMax_addN (m n : Nat) (hn : n ≤ m) (hm : m ≤ I64MAX) (a : AS) (k : List Nat) (hr : a.rest = addN n ++ k) (hk : Sp k) :
    ∃ a', posMax m a = .ok (n, a') ∧ a'.rest = k := by
  obtain ⟨a1, h1, hr1⟩ := intIn_addI 0 (m : Int) (n : Int) (by omega) (by omega) a k (by rw [← addN_eq]; exact hr) hk
  unfold posMax
  simp only [h1, bind, Except.bind, pure, Except.pure, Int.toNat_natCast]
  exact ⟨a1, rfl, hr1⟩

theorem pos_addN (n : Nat) (hn : n ≤ U32MAX) (a : AS) (k : List Nat) (hr : a.rest = addN n ++ k) (hk : Sp k) :
    ∃ a', pos a = .ok (n, a') ∧ a'.rest = k :=
  posMax_addN U32MAX n hn (by decide) a k hr hk

theorem atom_addN (n : Nat) (hn : 1 ≤ n ∧ n ≤ 2147483647) (a : AS) (k : List Nat) (hr : a.rest = addN n ++ k) (hk : Sp k) :
    ∃ a', atom a = .ok (n, a') ∧ a'.rest = k := by
  obtain ⟨a1, h1, hr1⟩ := intIn_addI Gen.atomMin Gen.atomMax (n : Int) (by simp [Gen.atomMin, Gen.atomMax]; omega)
    (by have : I64MAX = 9223372036854775807 := rfl
        omega) a k (by rw [← addN_eq]; exact hr) hk
  unfold atom
  simp only [h1, bind, Except.bind, pure, Except.pure, Int.toNat_natCast]
  exact ⟨a1, rfl, hr1⟩

theorem lit_addI (v : Int) (hv : v ≠ 0 ∧ v.natAbs ≤ 2147483647) (a : AS) (k : List Nat) (hr : a.rest = addI v ++ k) (hk : Sp k) :
    ∃ a', lit a = .ok (v, a') ∧ a'.rest = k := by
  have h64 : v.natAbs ≤ I64MAX := by
    have : I64MAX = 9223372036854775807 := rfl
    omega
  obtain ⟨a1, h1, hr1⟩ := matchInt_printInt a v sp k (by simpa [addI] using hr) sp_ws hk.nds h64
  unfold lit; rw [h1]
  have : v ≠ 0 ∧ -(Gen.atomMax : Int) ≤ v ∧ v ≤ Gen.atomMax := by simp only [Gen.atomMax]; omega
  simp only
  rw [if_pos this]
  exact ⟨a1, rfl, hr1⟩

/-- a counted-less list: `n` items, each written by `enc` (starting with a blank), read by `p` -/
theorem rep_enc {α : Type} (p : P α) (enc : α → List Nat) (Ok : α → Prop)
    (hp : ∀ (x : α) (a : AS) (k : List Nat), Ok x → a.rest = enc x ++ k → Sp k → ∃ a', p a = .ok (x, a') ∧ a'.rest = k)
    (henc : ∀ (x : α) (k : List Nat), Sp (enc x ++ k)) :
    ∀ (l : List α) (acc : List α) (a : AS) (k : List Nat), (∀ x ∈ l, Ok x) → a.rest = (l.map enc).flatten ++ k → Sp k →
      ∃ a', rep p l.length acc a = .ok (acc.reverse ++ l, a') ∧ a'.rest = k := by
  intro l
  induction l with
  | nil => intro acc a k _ hr _; exact ⟨a, by simp [rep], by simpa using hr⟩
  | cons x r ih =>
    intro acc a k hok hr hk
    simp only [List.map_cons, List.flatten_cons, List.append_assoc] at hr
    have hsp : Sp ((r.map enc).flatten ++ k) := by
      cases r with
      | nil => simpa using hk
      | cons y r' => simp only [List.map_cons, List.flatten_cons, List.append_assoc]; exact henc y _
    obtain ⟨a1, h1, hr1⟩ := hp x a _ (hok x (by simp)) hr hsp
    obtain ⟨a2, h2, hr2⟩ := ih (x :: acc) a1 k (fun y hy => hok y (by simp [hy])) hr1 hk
    refine ⟨a2, ?_, hr2⟩
    simp only [List.length_cons, rep, h1, bind, Except.bind]
    rw [h2]; simp

theorem counted_enc {α : Type} (p : P α) (enc : α → List Nat) (Ok : α → Prop)
    (hp : ∀ (x : α) (a : AS) (k : List Nat), Ok x → a.rest = enc x ++ k → Sp k → ∃ a', p a = .ok (x, a') ∧ a'.rest = k)
    (henc : ∀ (x : α) (k : List Nat), Sp (enc x ++ k))
    (l : List α) (hlen : l.length ≤ U32MAX) (a : AS) (k : List Nat) (hok : ∀ x ∈ l, Ok x)
    (hr : a.rest = addN l.length ++ (l.map enc).flatten ++ k) (hk : Sp k) :
    ∃ a', counted p a = .ok (l, a') ∧ a'.rest = k := by
  have hsp : Sp ((l.map enc).flatten ++ k) := by
    cases l with
    | nil => simpa using hk
    | cons y r' => simp only [List.map_cons, List.flatten_cons, List.append_assoc]; exact henc y _
  obtain ⟨a1, h1, hr1⟩ := pos_addN l.length hlen a _ (by rw [hr]; simp) hsp
  obtain ⟨a2, h2, hr2⟩ := rep_enc p enc Ok hp henc l [] a1 k hok hr1 hk
  refine ⟨a2, ?_, hr2⟩
  unfold counted
  simp only [h1, bind, Except.bind]
  simpa using h2

theorem atoms_enc (l : List Nat) (hlen : l.length ≤ U32MAX) (hok : ∀ x ∈ l, 1 ≤ x ∧ x ≤ 2147483647) (a : AS) (k : List Nat)
    (hr : a.rest = addNats l ++ k) (hk : Sp k) : ∃ a', atoms a = .ok (l, a') ∧ a'.rest = k :=
  counted_enc atom addN _ (fun x a k hx hr hk => atom_addN x hx a k hr hk) sp_addN l hlen a k hok (by simpa [addNats] using hr) hk

theorem lits_enc (l : List Int) (hlen : l.length ≤ U32MAX) (hok : ∀ x ∈ l, x ≠ 0 ∧ x.natAbs ≤ 2147483647) (a : AS) (k : List Nat)
    (hr : a.rest = addLits l ++ k) (hk : Sp k) : ∃ a', lits a = .ok (l, a') ∧ a'.rest = k :=
  counted_enc lit addI _ (fun x a k hx hr hk => lit_addI x hx a k hr hk) sp_addI l hlen a k hok (by simpa [addLits] using hr) hk

theorem ids_enc (l : List Nat) (hlen : l.length ≤ U32MAX) (hok : ∀ x ∈ l, x ≤ U32MAX) (a : AS) (k : List Nat)
    (hr : a.rest = addNats l ++ k) (hk : Sp k) : ∃ a', ids a = .ok (l, a') ∧ a'.rest = k :=
  counted_enc pos addN _ (fun x a k hx hr hk => pos_addN x hx a k hr hk) sp_addN l hlen a k hok (by simpa [addNats] using hr) hk

theorem wlit_enc (minW : Int) (p : Int × Int) (hp : (p.1 ≠ 0 ∧ p.1.natAbs ≤ 2147483647) ∧ minW ≤ p.2 ∧ p.2 ≤ 2147483647 ∧ -2147483648 ≤ p.2)
    (a : AS) (k : List Nat) (hr : a.rest = (addI p.1 ++ addI p.2) ++ k) (hk : Sp k) : ∃ a', wlit minW a = .ok (p, a') ∧ a'.rest = k := by
  obtain ⟨a1, h1, hr1⟩ := lit_addI p.1 hp.1 a (addI p.2 ++ k) (by simpa using hr) (sp_addI _ _)
  have hle : p.2 ≤ I32MAX := by
    have : I32MAX = 2147483647 := rfl
    omega
  have h64 : p.2.natAbs ≤ I64MAX := by
    have : I64MAX = 9223372036854775807 := rfl
    omega
  obtain ⟨a2, h2, hr2⟩ := intIn_addI minW I32MAX p.2 ⟨hp.2.1, hle⟩ h64 a1 k hr1 hk
  unfold wlit
  simp only [h1, h2, bind, Except.bind, pure, Except.pure]
  exact ⟨a2, rfl, hr2⟩

theorem wlits_enc (minW : Int) (l : List (Int × Int)) (hlen : l.length ≤ U32MAX)
    (hok : ∀ p ∈ l, (p.1 ≠ 0 ∧ p.1.natAbs ≤ 2147483647) ∧ minW ≤ p.2 ∧ p.2 ≤ 2147483647 ∧ -2147483648 ≤ p.2) (a : AS) (k : List Nat)
    (hr : a.rest = addWLits l ++ k) (hk : Sp k) : ∃ a', wlits minW a = .ok (l.filter (fun p => p.2 ≠ 0), a') ∧ a'.rest = k := by
  obtain ⟨a1, h1, hr1⟩ := counted_enc (wlit minW) (fun p => addI p.1 ++ addI p.2) _ (fun x a k hx hr hk => wlit_enc minW x hx a k hr hk)
    (fun x k => by simp only [List.append_assoc]; exact sp_addI _ _) l hlen a k hok (by simpa [addWLits] using hr) hk
  unfold wlits
  simp only [h1, bind, Except.bind, pure, Except.pure]
  exact ⟨a1, rfl, hr1⟩
end PotasscoVerif.AspifRT
