/-
  Basic facts about the reference semantics (Spec/Asp.lean): monotonicity of reduct bodies in the candidate,
  dependence on the atoms that occur only, stable models consist of head atoms.
-/
import PotasscoVerif.Spec.Asp
namespace PotasscoVerif.Asp

theorem Sub.refl (X : I) : Sub X X := fun _ h => h
theorem Sub.trans {X Y Z : I} (h1 : Sub X Y) (h2 : Sub Y Z) : Sub X Z := fun a h => h2 a (h1 a h)

theorem sub_antisymm {X Y : I} (h1 : Sub X Y) (h2 : Sub Y X) : X = Y := by
  funext a
  cases hx : X a <;> cases hy : Y a
  · rfl
  · have := h2 a hy; rw [hx] at this; exact absurd this (by simp)
  · have := h1 a hx; rw [hy] at this; exact absurd this (by simp)
  · rfl

theorem litR_mono (X : I) {Y Y' : I} (h : Sub Y Y') (l : Int) : litR X Y l = true → litR X Y' l = true := by
  unfold litR
  split
  · exact h _
  · exact id

theorem wsum_cons (X Y : I) (p : Int × Int) (wl : List (Int × Int)) :
    wsum X Y (p :: wl) = (if litR X Y p.1 then p.2 else 0) + wsum X Y wl := by
  simp [wsum]

theorem wsum_mono (X : I) {Y Y' : I} (h : Sub Y Y') (wl : List (Int × Int)) (hw : ∀ p ∈ wl, 0 ≤ p.2) :
    wsum X Y wl ≤ wsum X Y' wl := by
  induction wl with
  | nil => simp [wsum]
  | cons p r ih =>
    rw [wsum_cons, wsum_cons]
    have ih' := ih (fun q hq => hw q (by simp [hq]))
    have hp := hw p (by simp)
    cases h1 : litR X Y p.1
    · cases h2 : litR X Y' p.1 <;> simp <;> omega
    · have h2 := litR_mono X h p.1 h1
      simp [h2]; omega

theorem bodyR_mono (X : I) {Y Y' : I} (h : Sub Y Y') (B : Body) (hok : B.Ok) :
    bodyR X Y B = true → bodyR X Y' B = true := by
  cases B with
  | normal ls =>
    simp only [bodyR, List.all_eq_true]
    intro hl l hm
    exact litR_mono X h l (hl l hm)
  | sum b wl =>
    simp only [bodyR, decide_eq_true_eq]
    intro hb
    have := wsum_mono X h wl (fun p hp => (hok p hp).2)
    omega

theorem litR_congr {X Y X2 Y2 : I} (l : Int) (h : X l.natAbs = X2 l.natAbs ∧ Y l.natAbs = Y2 l.natAbs) :
    litR X Y l = litR X2 Y2 l := by
  unfold litR; rw [h.1, h.2]

theorem wsum_congr {X Y X2 Y2 : I} (wl : List (Int × Int))
    (h : ∀ p ∈ wl, X p.1.natAbs = X2 p.1.natAbs ∧ Y p.1.natAbs = Y2 p.1.natAbs) : wsum X Y wl = wsum X2 Y2 wl := by
  induction wl with
  | nil => rfl
  | cons p r ih =>
    rw [wsum_cons, wsum_cons, ih (fun q hq => h q (by simp [hq])), litR_congr p.1 (h p (by simp))]

theorem bodyR_congr {X Y X2 Y2 : I} (B : Body) (h : ∀ a ∈ B.atoms, X a = X2 a ∧ Y a = Y2 a) :
    bodyR X Y B = bodyR X2 Y2 B := by
  cases B with
  | normal ls =>
    simp only [bodyR]
    rw [Bool.eq_iff_iff]
    simp only [List.all_eq_true]
    have e : ∀ l ∈ ls, litR X Y l = litR X2 Y2 l := fun l hl =>
      litR_congr l (h _ (by simp only [Body.atoms, List.mem_map]; exact ⟨l, hl, rfl⟩))
    constructor
    · intro hh l hl; rw [← e l hl]; exact hh l hl
    · intro hh l hl; rw [e l hl]; exact hh l hl
  | sum b wl =>
    simp only [bodyR]
    rw [wsum_congr wl]
    intro p hp
    exact h _ (by simp only [Body.atoms, List.mem_map]; exact ⟨p, hp, rfl⟩)

/-- `X` without the atom `n` -/
def without (X : I) (n : Nat) : I := fun a => if a = n then false else X a

theorem without_sub (X : I) (n : Nat) : Sub (without X n) X := by
  intro a; unfold without; split <;> simp

theorem headR_without (X : I) (n : Nat) (r : Rule) (hn : n ∉ r.head) : headR X X r = true → headR X (without X n) r = true := by
  unfold headR
  split
  · simp only [List.all_eq_true, Bool.or_eq_true, Bool.not_eq_true']
    intro h a ha
    have hne : a ≠ n := fun e => hn (e ▸ ha)
    simp [without, hne]
  · simp only [List.any_eq_true]
    rintro ⟨a, ha, hx⟩
    have hne : a ≠ n := fun e => hn (e ▸ ha)
    exact ⟨a, ha, by simpa [without, hne] using hx⟩

/-- an atom that is true in a stable model has a rule with that atom in the head whose reduct body holds
    even without the atom (it is supported, and not only by itself) -/
theorem stable_supported (P : List Rule) (hok : ∀ r ∈ P, r.body.Ok) (X : I) (hs : Stable P X) (n : Nat) (hn : X n = true) :
    ∃ r ∈ P, n ∈ r.head ∧ bodyR X (without X n) r.body = true := by
  apply Classical.byContradiction
  intro hne
  have hm : ModelR P X (without X n) := by
    intro r hr
    unfold satR
    cases hb : bodyR X (without X n) r.body
    · simp
    · simp only [Bool.not_true, Bool.false_or]
      have hb' := bodyR_mono X (without_sub X n) r.body (hok r hr) hb
      have hsat := hs.1 r hr
      unfold satR at hsat
      rw [hb'] at hsat
      simp only [Bool.not_true, Bool.false_or] at hsat
      apply headR_without X n r _ hsat
      intro hmem
      exact hne ⟨r, hr, hmem, hb⟩
  have := hs.2 _ (without_sub X n) hm n hn
  simp [without] at this

theorem stable_in_heads (P : List Rule) (hok : ∀ r ∈ P, r.body.Ok) (X : I) (hs : Stable P X) (n : Nat) (hn : X n = true) :
    ∃ r ∈ P, n ∈ r.head := by
  obtain ⟨r, hr, hm, _⟩ := stable_supported P hok X hs n hn
  exact ⟨r, hr, hm⟩

theorem modelR_append (P Q : List Rule) (X Y : I) : ModelR (P ++ Q) X Y ↔ ModelR P X Y ∧ ModelR Q X Y := by
  unfold ModelR
  constructor
  · intro h; exact ⟨fun r hr => h r (by simp [hr]), fun r hr => h r (by simp [hr])⟩
  · rintro ⟨h1, h2⟩ r hr
    rcases List.mem_append.mp hr with h | h
    · exact h1 r h
    · exact h2 r h

end PotasscoVerif.Asp
